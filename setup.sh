#!/bin/bash
# Builds the framework from files on disk only (offline).
set -e
cd "$(dirname "$0")"
export CARGO_NET_OFFLINE=true
(cd harness && cargo build --offline 2>&1 | tail -3)
python3 tools/gen_tables.py
(cd lean && lake build driver Hifi 2>&1 | tail -3)
echo setup done
