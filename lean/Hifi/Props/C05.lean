import Hifi.Lemmas.Epoch
/-
  C05  TAI/TT/GPST/QZSST/GST/BDT conversions are exact, constant-offset and invertible.
-/
namespace Hifi.C05
open Hifi Hifi.Spec

/-- the model's offsets are the ones the property states: TT − TAI = 32.184 s; GPST, QZSST zero at
    1980-01-06, GST at 1999-08-22 (19 s behind TAI), BDT at 2006-01-01 (33 s), from the calendar -/
theorem offsets_pinned :
    scaleOff "TAI" = some (off .TAI) ∧ scaleOff "TT" = some (off .TT) ∧
    scaleOff "GPST" = some (off .GPST) ∧ scaleOff "QZSST" = some (off .QZSST) ∧
    scaleOff "GST" = some (off .GST) ∧ scaleOff "BDT" = some (off .BDT) ∧
    off .TT = -32184000000 ∧
    off .GPST = (29224 * 86400 + 19) * 1000000000 ∧ off .GST = (36392 * 86400 + 19) * 1000000000 ∧
    off .BDT = (38716 * 86400 + 33) * 1000000000 := by decide

/-- the reference-epoch constants the conversions use are TAI epochs (the model adds their durations
    as TAI durations).  Duplicated copies of these numbers elsewhere in the sources
    (`SECONDS_*_TAI_OFFSET(_I64)`) are not observables of this property and are deliberately NOT pinned
    here, so that editing an unused constant cannot raise an alarm. -/
theorem reference_epochs_are_tai :
    Gen.GPST_REF_EPOCH_TS = "TAI" ∧ Gen.GST_REF_EPOCH_TS = "TAI" ∧ Gen.BDT_REF_EPOCH_TS = "TAI" ∧ Gen.QZSST_REF_EPOCH_TS = "TAI" := by
  decide

/-- converting re-expresses the same instant: the result differs from the input by the constant
    `off a − off b`, for EVERY canonical duration for which no bound is hit (all 36 pairs) -/
theorem conversion_is_constant_offset (tbl : List LeapEntry) (d : Dur) (a b : TS) (hd : d.Canon)
    (ha : a.isUniform = true) (hb : b.isUniform = true) (hns : NoSat d.val a b) :
    ∃ r, toTimeScale tbl ⟨d, a⟩ b = some ⟨r, b⟩ ∧ r.Canon ∧ r.val = d.val + off a - off b :=
  toTimeScale_uniform tbl d a b hd ha hb hns

/-- converting to the scale an epoch is already in is the identity (no hypothesis at all) -/
theorem conversion_to_own_scale (tbl : List LeapEntry) (e : Ep) : toTimeScale tbl e e.ts = some e := by
  unfold toTimeScale; rw [if_pos rfl]

/-- to another uniform scale and back: the identical epoch, to the nanosecond -/
theorem conversion_round_trip (tbl : List LeapEntry) (d : Dur) (a b : TS) (hd : d.Canon)
    (ha : a.isUniform = true) (hb : b.isUniform = true) (hns : NoSat d.val a b) :
    ∃ r, toTimeScale tbl ⟨d, a⟩ b = some r ∧ toTimeScale tbl r a = some ⟨d, a⟩ := by
  obtain ⟨r, h1, h2, h3⟩ := toTimeScale_uniform tbl d a b hd ha hb hns
  refine ⟨_, h1, ?_⟩
  have hr := canon_range d hd
  obtain ⟨n1, n2, n3, n4⟩ := hns
  have hns' : NoSat r.val b a := by unfold NoSat; rw [h3]; refine ⟨?_, ?_, ?_, ?_⟩ <;> omega
  obtain ⟨r', g1, g2, g3⟩ := toTimeScale_uniform tbl r b a h2 hb ha hns'
  rw [g1]
  have : r' = d := canon_unique r' d g2 hd (by rw [g3, h3]; omega)
  rw [this]

/-- conversion commutes with adding a duration -/
theorem conversion_commutes_with_add (tbl : List LeapEntry) (d x : Dur) (a b : TS) (hd : d.Canon) (hx : x.Canon)
    (ha : a.isUniform = true) (hb : b.isUniform = true) (hns : NoSat d.val a b)
    (hsum : DMIN ≤ d.val + x.val ∧ d.val + x.val ≤ DMAX) (hns2 : NoSat (d.val + x.val) a b) :
    ∃ r1 r2, toTimeScale tbl ⟨Dur.add d x, a⟩ b = some ⟨r1, b⟩ ∧ toTimeScale tbl ⟨d, a⟩ b = some ⟨r2, b⟩ ∧
      r1 = Dur.add r2 x := by
  have hs := add_spec d x hd hx
  have hv : (Dur.add d x).val = d.val + x.val := by
    rw [hs.2]; unfold DMIN DMAX at hsum; simp only [NPCs_eq] at hsum; rw [clampD_mid] <;> omega
  obtain ⟨r1, h1, h2, h3⟩ := toTimeScale_uniform tbl (Dur.add d x) a b hs.1 ha hb (by rw [hv]; exact hns2)
  obtain ⟨r2, g1, g2, g3⟩ := toTimeScale_uniform tbl d a b hd ha hb hns
  refine ⟨r1, r2, h1, g1, ?_⟩
  have hs2 := add_spec r2 x g2 hx
  apply canon_unique _ _ h2 hs2.1
  rw [h3, hv, hs2.2, g3]
  obtain ⟨n1, n2, n3, n4⟩ := hns2
  unfold DMIN DMAX at *; simp only [NPCs_eq] at *
  rw [clampD_mid] <;> omega

/-- symmetry of the offsets: b→a undoes a→b as a plain number too -/
theorem offsets_antisymmetric (a b : TS) : (off a - off b) + (off b - off a) = 0 := by omega

-- non-vacuity: an epoch 50 years before the GPST reference, converted GPST → BDT, meets every hypothesis
example : (Dur.mk (-1) 1577880000000000000).Canon ∧ NoSat (Dur.mk (-1) 1577880000000000000).val .GPST .BDT := by
  unfold Dur.Canon NoSat; simp only [NPC_eq]; decide

end Hifi.C05
