import Hifi.Lemmas.Calendar
import Hifi.Spec.Epoch
import Hifi.Gen.Leap
/-
  C08  Gregorian date -> Epoch: exact day count, valid dates accepted, invalid rejected.

  Domain of every theorem: ALL field tuples the Rust signature admits (month, day, hour, minute,
  second any u8, nanos any u32 — only their non-negativity is used) with -3 000 000 ≤ year ≤ 3 000 000
  (the range of `Duration` is about ±3 276 000 years around 1900; the property quantifies over
  years 0001–9999 and samples ±30 000), in all nine time scales.

  The calendar of the specification (`Hifi/Spec/Calendar.lean`) is the successor structure
  `nextDay`; "the exact number of days" is `dayNumber`, shown below to be the unique function that
  is 0 on 1900-01-01 and grows by one per `nextDay`.
-/
namespace Hifi.C08
open Hifi Hifi.Spec Hifi.Cal

/-! ### the specification calendar is the successor structure -/

/-- `dayNumber` is the day count of the successor structure … -/
theorem dayNumber_characterised :
    dayNumber ⟨1900, 1, 1⟩ = 0 ∧
    (∀ d, validDate d = true → validDate (nextDay d) = true ∧ dayNumber (nextDay d) = dayNumber d + 1) :=
  ⟨dayNumber_ref, fun d h => ⟨nextDay_valid d h, dayNumber_nextDay d h⟩⟩

/-- … `nextDay` is a bijection of the valid dates (so every valid date is reached from 1900-01-01
    by finitely many steps forward or backward) … -/
theorem nextDay_bijective :
    (∀ a b, validDate a = true → validDate b = true → nextDay a = nextDay b → a = b) ∧
    (∀ d, validDate d = true → ∃ p, validDate p = true ∧ nextDay p = d) :=
  ⟨nextDay_inj, nextDay_surj⟩

/-- … hence the two facts determine the day count on every valid date, and distinct valid dates
    have distinct day numbers. -/
theorem dayNumber_is_the_day_count (f : Date → Int) (h0 : f ⟨1900, 1, 1⟩ = 0)
    (hs : ∀ d, validDate d = true → f (nextDay d) = f d + 1) :
    ∀ d, validDate d = true → f d = dayNumber d := dayNumber_unique f h0 hs

theorem dayNumber_injective (a b : Date) (ha : validDate a = true) (hb : validDate b = true)
    (h : dayNumber a = dayNumber b) : a = b := dayNumber_inj a b ha hb h

/-! ### the tables and constants of the code are the ones the property speaks of -/

/-- generated tables: 365-day base year, reference year 1900, month lengths, prefix sums -/
theorem tables_pinned :
    Cal.DPY = 365 ∧ Cal.REF_YEAR = 1900 ∧ Cal.NPD = 86400 * 1000000000 ∧ Cal.NPD = NPDs ∧
    (List.range 14).map (fun (m : Nat) => Cal.usualDaysPerMonth (m : Int)) = [0, 31, 28, 31, 30, 31, 30, 31, 31, 30, 31, 30, 31, 0] ∧
    Gen.CUMULATIVE_DAYS_FOR_MONTH = [0, 31, 59, 90, 120, 151, 181, 212, 243, 273, 304, 334] ∧
    Gen.CUMULATIVE_DAYS_FOR_MONTH_LEAP_YEARS = [0, 31, 60, 91, 121, 152, 182, 213, 244, 274, 305, 335] := by
  decide

/-- the code's month lengths are the spec's, February of leap years apart (28 in the table, the leap
    day being handled by the second cumulative table) -/
theorem usual_days_are_month_lengths (y mo : Int) (h : mo ≠ 2 ∨ isLeap y = false) :
    Cal.usualDaysPerMonth mo = monthLen y mo := usual_eq_monthLen y mo h

/-- `is_leap_year` is the 4/100/400 rule for every i32 (truncating `%` included) -/
theorem leap_rule (y : Int) : Cal.isLeapYear y = isLeap y := isLeapYear_eq y

/-- `january_years` / `july_years` are exactly the entry dates of the IERS table
    (`Spec.iersLeapDates`, the 28 lines of data/leap-seconds.list) -/
theorem leap_second_years_are_iers (dt : Date) :
    iersLeapDates.contains dt = true ↔
      (dt.d = 1 ∧ ((dt.m = 1 ∧ Cal.januaryYears dt.y = true) ∨ (dt.m = 7 ∧ Cal.julyYears dt.y = true))) :=
  mem_iers_iff dt

/-! ### the hand-typed data of the specification are tied to the sources and to each other -/

/-- `Spec.iersLeapDates` (hand-typed in `Spec/Calendar.lean`) IS the date column of data/leap-seconds.list
    (`Gen.IERS_TEXT`, regenerated from the file at every run: day, month, year of each line's comment),
    entry for entry and in the same order -/
theorem iers_dates_are_the_file :
    Gen.IERS_TEXT.map (fun e => (⟨e.2.2.2.2, e.2.2.2.1, e.2.2.1⟩ : Date)) = iersLeapDates := by decide

/-- … and each line of the file is consistent with itself in the SPECIFICATION calendar: the NTP time stamp
    (seconds since 1900-01-01) is `dayNumber`(date of the comment) × 86 400, the dates are valid and the
    TAI−UTC column counts 10, 11, …, 37 -/
theorem iers_stamps_are_day_numbers :
    Gen.IERS_TEXT.all (fun e => decide (dayNumber ⟨e.2.2.2.2, e.2.2.2.1, e.2.2.1⟩ * 86400 = e.1) &&
      validDate ⟨e.2.2.2.2, e.2.2.2.1, e.2.2.1⟩) = true ∧
    Gen.IERS_TEXT.map (fun e => e.2.1) = (List.range 28).map (fun (i : Nat) => (i : Int) + 10) := by decide

/-- the same two facts read off the specification's list: the i-th date of `iersLeapDates` has day number
    (i-th NTP stamp of the file) / 86 400 -/
theorem iers_dates_day_numbers :
    iersLeapDates.map (fun d => dayNumber d * 86400) = Gen.IERS_TEXT.map (fun e => e.1) := by decide

/-- `Spec.civilDays` — the closed day-count formula of `Spec/Epoch.lean` that C05, C06, C16 and C17 use —
    IS the day count of the successor-structure calendar (`dayNumber`, characterised above), for every year,
    every month number 1..12 and every day number (valid or not) -/
theorem civil_eq (y m d : Int) (hm : 1 ≤ m ∧ m ≤ 12) : civilDays y m d = dayNumber ⟨y, m, d⟩ := by
  unfold civilDays dayNumber
  simp only []
  obtain ⟨h1, h2⟩ := hm
  have hmc : m = 1 ∨ m = 2 ∨ m = 3 ∨ m = 4 ∨ m = 5 ∨ m = 6 ∨ m = 7 ∨ m = 8 ∨ m = 9 ∨ m = 10 ∨ m = 11 ∨ m = 12 := by omega
  rcases hmc with h | h | h | h | h | h | h | h | h | h | h | h <;> subst h <;> simp <;> omega

/-- far enough outside 1..12 the two formulas are different extrapolations (neither is a date): decided
    witness, so `civil_eq` needs a hypothesis on the month -/
theorem civil_eq_needs_month : civilDays 2000 15 1 ≠ dayNumber ⟨2000, 15, 1⟩ := by decide

/-- the nine `gregorian_epoch_offset`s (prime offset minus its seconds-of-minute part: the 19 s of
    GPST/GST/QZSST and the 33 s of BDT are dropped, J2000 noon is kept), never failing, canonical, and
    equal to the nanoseconds from 1900-01-01T00:00:00 to the scale's reference date-time counted in
    the SPECIFICATION calendar -/
theorem gregOff_pinned (ts : TS) :
    Cal.gregorianEpochOffsetR ts = .ok (Cal.gregorianEpochOffset ts) ∧
    (Cal.gregorianEpochOffset ts).Canon ∧
    (Cal.gregorianEpochOffset ts).val = refOffsetNs ts.name ∧
    Cal.gregorianEpochOffset ts =
      (match ts with
       | .ET => ⟨0, 3155716800000000000⟩ | .TDB => ⟨0, 3155716800000000000⟩
       | .GPST => ⟨0, 2524953600000000000⟩ | .QZSST => ⟨0, 2524953600000000000⟩
       | .GST => ⟨0, 3144268800000000000⟩ | .BDT => ⟨1, 189302400000000000⟩
       | .TAI => ⟨0, 0⟩ | .TT => ⟨0, 0⟩ | .UTC => ⟨0, 0⟩) :=
  ⟨gregOffR_ok ts, (gregOff_val ts).1, (gregOff_val ts).2, gregOff_eq ts⟩

/-- the reference date-times themselves, in the specification calendar -/
theorem reference_dates :
    refDateTime "TAI" = (⟨1900, 1, 1⟩, 0) ∧ refDateTime "TT" = (⟨1900, 1, 1⟩, 0) ∧ refDateTime "UTC" = (⟨1900, 1, 1⟩, 0) ∧
    refDateTime "ET" = (⟨2000, 1, 1⟩, 43200000000000) ∧ refDateTime "TDB" = (⟨2000, 1, 1⟩, 43200000000000) ∧
    refDateTime "GPST" = (⟨1980, 1, 6⟩, 0) ∧ refDateTime "QZSST" = (⟨1980, 1, 6⟩, 0) ∧
    refDateTime "GST" = (⟨1999, 8, 22⟩, 0) ∧ refDateTime "BDT" = (⟨2006, 1, 1⟩, 0) ∧
    dayNumber ⟨2000, 1, 1⟩ = 36524 ∧ dayNumber ⟨1980, 1, 6⟩ = 29224 ∧ dayNumber ⟨1999, 8, 22⟩ = 36392 ∧
    dayNumber ⟨2006, 1, 1⟩ = 38716 := by decide

/-! ### exact day count -/

/-- EXACTNESS (full).  For every date-time the specification requires to be accepted, with
    second < 60, in every time scale: `maybe_from_gregorian` succeeds, the duration is canonical and
    its value is  (days from 1900-01-01 to the date)·86 400 s + time of day − (the same count for the
    scale's reference date-time), i.e. `Spec.elapsedNs`, to the nanosecond. -/
theorem exact_day_count (y mo d h mi s ns : Int) (ts : TS) (L : List Date)
    (hy : -3000000 ≤ y ∧ y ≤ 3000000)
    (hacc : mustAccept L ⟨y, mo, d⟩ h mi s ns = true) (hs60 : s < 60) :
    ∃ e, Cal.maybeFromGregorian y mo d h mi s ns ts = .ok e ∧ e.Canon ∧
      e.val = elapsedNs ts.name ⟨y, mo, d⟩ h mi s ns := by
  unfold mustAccept at hacc
  simp only [Bool.and_eq_true, Bool.or_eq_true, decide_eq_true_eq] at hacc
  obtain ⟨⟨hv, hh1, hh2, hm1, hm2, hn1, hn2⟩, hsec⟩ := hacc
  have hs0 : 0 ≤ s := by rcases hsec with h | h <;> omega
  have hv' := (validDate_iff _).mp hv
  simp only at hv'
  have hmr := monthLen_range y mo hv'.1 hv'.2.1
  -- a valid date is never in the class D10; the code's test accepts it
  have hcore : Cal.isGregorianValidCore y mo d h mi s ns = true := by
    have hD10 : Cal.d10class y mo d = false := by
      unfold Cal.d10class
      rw [isLeapYear_eq]
      by_cases h2 : mo = 2
      · subst h2
        cases hl : isLeap y
        · simp
        · have := monthLen_2_leap y hl
          simp; omega
      · simp [h2]
    have hdate := (dateOK_iff y mo d (by omega) (by omega) hD10).mpr hv
    have hmax : 59 ≤ Cal.maxSeconds y mo d h mi := by unfold Cal.maxSeconds; split <;> omega
    unfold Cal.isGregorianValidCore
    have hnps : Gen.NANOSECONDS_PER_SECOND = 1000000000 := rfl
    rw [hnps, if_neg (by have := hdate.1; omega), if_neg hdate.2]
  obtain ⟨e, he, hc, hval⟩ := maybeFromGregorian_val y mo d h mi s ns ts hy (by omega) (by omega) hh1 hm1 hs0 hn1 hcore
  refine ⟨e, he, hc, ?_⟩
  rw [hval, if_neg (by omega)]
  unfold elapsedNs timeOfDay NPDs
  omega

/-! ### accept / reject -/

/-- REJECTION needs no restriction on hour = 24 / nanosecond = 10⁹ (the property leaves those open only when
    everything else is fine): whatever the specification requires to be rejected — e.g. second = 60 at 24:59 of a
    leap-second day, "second = 60 at any other time of day" — is an error, never a value (outside D10).
    (A seeded change that accepted 24:59:60 was first missed because hour = 24 was never generated.) -/
theorem must_reject_is_rejected (y mo d h mi s ns : Int) (ts : TS) (hy : -3000000 ≤ y ∧ y ≤ 3000000)
    (hmo : 0 ≤ mo) (hd : 0 ≤ d) (hh : 0 ≤ h) (hmi : 0 ≤ mi) (hs : 0 ≤ s) (hns : 0 ≤ ns)
    (hD10 : Cal.d10class y mo d = false)
    (hrej : mustReject iersLeapDates ⟨y, mo, d⟩ h mi s ns = true) :
    Cal.maybeFromGregorian y mo d h mi s ns ts = .err := by
  rw [maybeFromGregorian_eq y mo d h mi s ns ts hy,
      Cal.validCore_rejects y mo d h mi s ns hmo hd hh hmi hs hns hD10 hrej]
  rfl

example : mustReject iersLeapDates ⟨2016, 12, 31⟩ 24 59 60 0 = true ∧ Cal.d10class 2016 12 31 = false := by decide

/-- The full statement of the property's accept/reject clause (for reference; it is FALSE of the
    code on the class D10, see `d10_counterexample`): on every field tuple outside the two points the
    property leaves open, an error is returned iff the specification requires rejection. -/
def accept_reject_full : Prop :=
  ∀ (y mo d h mi s ns : Int) (ts : TS), -3000000 ≤ y ∧ y ≤ 3000000 →
    0 ≤ mo → 0 ≤ d → 0 ≤ h → 0 ≤ mi → 0 ≤ s → 0 ≤ ns → h ≠ 24 → ns ≠ 1000000000 →
    (Cal.maybeFromGregorian y mo d h mi s ns ts = .err ↔ mustReject iersLeapDates ⟨y, mo, d⟩ h mi s ns = true)

/-- ACCEPT / REJECT — PARTIAL: outside the recorded defect class D10 (`Cal.d10class`: February of a
    leap year, day 30 or 31).  For every other field tuple (hour = 24 and nanosecond = 10^9, which
    the property leaves open, excluded): never a panic; an error iff the specification requires
    rejection; success iff it requires acceptance. -/
theorem accept_reject_partial (y mo d h mi s ns : Int) (ts : TS) (hy : -3000000 ≤ y ∧ y ≤ 3000000)
    (hmo : 0 ≤ mo) (hd : 0 ≤ d) (hh : 0 ≤ h) (hmi : 0 ≤ mi) (hs : 0 ≤ s) (hns : 0 ≤ ns)
    (h24 : h ≠ 24) (h9 : ns ≠ 1000000000) (hD10 : Cal.d10class y mo d = false) :
    Cal.maybeFromGregorian y mo d h mi s ns ts ≠ .panic ∧
    (Cal.maybeFromGregorian y mo d h mi s ns ts = .err ↔ mustReject iersLeapDates ⟨y, mo, d⟩ h mi s ns = true) ∧
    ((∃ e, Cal.maybeFromGregorian y mo d h mi s ns ts = .ok e) ↔ mustAccept iersLeapDates ⟨y, mo, d⟩ h mi s ns = true) := by
  have hspec := validCore_spec y mo d h mi s ns hmo hd hh hmi hs hns hD10 h24 h9
  rw [maybeFromGregorian_eq y mo d h mi s ns ts hy]
  cases hc : Cal.isGregorianValidCore y mo d h mi s ns
  · rw [hc] at hspec
    have hr := hspec.2.mp rfl
    have hna : ¬ (mustAccept iersLeapDates ⟨y, mo, d⟩ h mi s ns = true) := fun x => by
      have := hspec.1.mpr x; cases this
    simp [hr, hna]
  · rw [hc] at hspec
    have ha := hspec.1.mp rfl
    have hnr : ¬ (mustReject iersLeapDates ⟨y, mo, d⟩ h mi s ns = true) := fun x => by
      have := hspec.2.mpr x; cases this
    simp [ha, hnr]

/-- the D10 hypothesis cannot be dropped: 2020-02-30 must be rejected, the code accepts it … -/
theorem d10_counterexample :
    Cal.d10class 2020 2 30 = true ∧
    mustReject iersLeapDates ⟨2020, 2, 30⟩ 0 0 0 0 = true ∧
    Cal.isGregorianValidCore 2020 2 30 0 0 0 0 = true ∧
    Cal.maybeFromGregorian 2020 2 30 0 0 0 0 .UTC ≠ .err := by
  refine ⟨by decide, by decide, by decide, ?_⟩
  rw [maybeFromGregorian_eq _ _ _ _ _ _ _ _ (by omega)]
  have : Cal.isGregorianValidCore 2020 2 30 0 0 0 0 = true := by decide
  rw [this]; simp

/-- … so the full statement is false of the code -/
theorem accept_reject_full_is_false : ¬ accept_reject_full := by
  intro hfull
  have := (hfull 2020 2 30 0 0 0 0 .UTC (by omega) (by omega) (by omega) (by omega) (by omega) (by omega)
    (by omega) (by omega) (by omega)).mpr d10_counterexample.2.1
  exact d10_counterexample.2.2.2 this

/-- … and what the code returns there is the following 1 March ("a shifted date"): the value is the
    day count of a date that does not exist, i.e. that of `nextDay` of 29 February -/
theorem d10_shifts_the_date (y d h mi s ns : Int) (ts : TS) (hy : -3000000 ≤ y ∧ y ≤ 3000000)
    (hd : d = 30 ∨ d = 31) (hl : isLeap y = true) (hh : 0 ≤ h ∧ h < 24) (hmi : 0 ≤ mi ∧ mi < 60)
    (hs : 0 ≤ s ∧ s < 60) (hns : 0 ≤ ns ∧ ns < 1000000000) :
    ∃ e, Cal.maybeFromGregorian y 2 d h mi s ns ts = .ok e ∧
      e.val = elapsedNs ts.name ⟨y, 3, d - 29⟩ h mi s ns := by
  have hcore : Cal.isGregorianValidCore y 2 d h mi s ns = true := by
    unfold Cal.isGregorianValidCore
    have hnps : Gen.NANOSECONDS_PER_SECOND = 1000000000 := rfl
    have hmax : 59 ≤ Cal.maxSeconds y 2 d h mi := by unfold Cal.maxSeconds; split <;> omega
    rw [hnps, if_neg (by omega), if_neg (by rw [isLeapYear_eq, hl]; simp)]
  obtain ⟨e, he, _, hval⟩ := maybeFromGregorian_val y 2 d h mi s ns ts hy (by omega) (by omega) hh.1 hmi.1 hs.1 hns.1 hcore
  refine ⟨e, he, ?_⟩
  rw [hval, if_neg (by omega)]
  have h1 := modelDay_eq_dayNumber y 2 d (by omega) (by omega)
  have h2 := modelDay_eq_dayNumber y 3 (d - 29) (by omega) (by omega)
  rw [cumulAt_eq y 2 (by omega) (by omega)] at h1
  rw [cumulAt_eq y 3 (by omega) (by omega)] at h2
  unfold cumCommon at h1 h2
  simp [hl] at h1 h2
  unfold elapsedNs timeOfDay NPDs
  omega

/-! ### the points the property leaves open, and the leap second -/

/-- hour = 24 and nanosecond = 10^9 are accepted by the code (documented here, not judged) -/
theorem open_points :
    Cal.isGregorianValidCore 2001 2 28 24 0 0 0 = true ∧ Cal.isGregorianValidCore 2001 2 28 0 0 0 1000000000 = true := by
  decide

/-- 23:59:60 on a leap-second day denotes the same count as 23:59:59 of that day (the code adds 60 s and removes one) -/
theorem leap_second_value (y mo d ns : Int) (ts : TS) (hy : -3000000 ≤ y ∧ y ≤ 3000000)
    (hns : 0 ≤ ns ∧ ns < 1000000000)
    (hacc : mustAccept iersLeapDates ⟨y, mo, d⟩ 23 59 60 ns = true) :
    ∃ e, Cal.maybeFromGregorian y mo d 23 59 60 ns ts = .ok e ∧ e.Canon ∧
      e.val = elapsedNs ts.name ⟨y, mo, d⟩ 23 59 59 ns := by
  have hv : validDate ⟨y, mo, d⟩ = true := by
    unfold mustAccept at hacc; simp only [Bool.and_eq_true] at hacc; exact hacc.1.1
  have hv' := (validDate_iff _).mp hv
  simp only at hv'
  have hmr := monthLen_range y mo hv'.1 hv'.2.1
  have hD10 : Cal.d10class y mo d = false := by
    unfold Cal.d10class
    rw [isLeapYear_eq]
    by_cases h2 : mo = 2
    · subst h2
      cases hl : isLeap y
      · simp
      · have := monthLen_2_leap y hl
        simp; omega
    · simp [h2]
  have hcore := (validCore_spec y mo d 23 59 60 ns (by omega) (by omega) (by omega) (by omega) (by omega)
    hns.1 hD10 (by omega) (by omega)).1.mpr hacc
  obtain ⟨e, he, hc, hval⟩ := maybeFromGregorian_val y mo d 23 59 60 ns ts hy (by omega) (by omega) (by omega)
    (by omega) (by omega) hns.1 hcore
  refine ⟨e, he, hc, ?_⟩
  rw [hval, if_pos rfl]
  unfold elapsedNs timeOfDay NPDs
  omega

/-! ### the panicking constructors -/

/-- `from_gregorian*` = `maybe_from_gregorian*` + `expect`: same epoch on success, panic on error -/
theorem from_gregorian_wrapper (y mo d h mi s ns : Int) (ts : TS) :
    Cal.fromGregorian y mo d h mi s ns ts =
      (match Cal.maybeFromGregorian y mo d h mi s ns ts with | .ok e => .ok e | _ => .panic) := by
  unfold Cal.fromGregorian; cases Cal.maybeFromGregorian y mo d h mi s ns ts <;> rfl

-- non-vacuity: the hypotheses are met far from 1900, before it, on a leap day, on a leap-second day
example : mustAccept iersLeapDates ⟨-29999, 2, 28⟩ 23 59 59 999999999 = true ∧
    mustAccept iersLeapDates ⟨2000, 2, 29⟩ 0 0 0 0 = true ∧ mustAccept iersLeapDates ⟨1899, 12, 31⟩ 12 0 0 1 = true ∧
    mustAccept iersLeapDates ⟨2016, 12, 31⟩ 23 59 60 5 = true ∧ mustAccept iersLeapDates ⟨1972, 6, 30⟩ 23 59 60 0 = true := by decide
example : mustReject iersLeapDates ⟨2015, 12, 31⟩ 23 59 60 0 = true ∧ mustReject iersLeapDates ⟨2100, 2, 29⟩ 0 0 0 0 = true ∧
    mustReject iersLeapDates ⟨2016, 12, 31⟩ 22 59 60 0 = true ∧ Cal.d10class 2100 2 30 = false ∧ Cal.d10class 2016 2 29 = false := by decide

end Hifi.C08
