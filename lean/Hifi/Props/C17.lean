import Hifi.Lemmas.EpochOrd
import Hifi.Model.Views
/-
  C17  Julian Date, Modified Julian Date and UNIX views are exact affine re-expressions.
  Duration-valued accessors: theorems.  Float-valued accessors / constructors: executed with hardware
  floats in the driver (bit-for-bit against the implementation) and judged by exact rational
  arithmetic with a 4-ulp tolerance (PARTIAL: measured, not proved).
-/
namespace Hifi.C17
open Hifi Hifi.Spec Hifi.Views

local notation "DAY" => (86400000000000 : Int)

/-- the constants: MJD of 1900-01-01 00:00 is 15 020 days; JD = MJD + 2 400 000.5 days; J2000 is
    3 155 716 800 s after 1900-01-01 00:00; UNIX time counts from 1970-01-01 00:00:00 -/
theorem constants_pinned :
    mjdJ1900.val = 15020 * DAY ∧ mjdOffset.val = 2400000 * DAY + DAY / 2 ∧
    jdeJ1900.val = mjdJ1900.val + mjdOffset.val ∧
    etEpoch.val = 3155716800 * 1000000000 ∧ etEpoch.val = ((civilDays 2000 1 1) * 86400 + 43200) * 1000000000 ∧
    unixRef.val = civilDays 1970 1 1 * DAY ∧ unixRef.val = 2208988800 * 1000000000 ∧
    Gen.MJD_J1900 = 15020 ∧ Gen.JD_J1900 = 2415020 ∧ Gen.UNIX_REF_EPOCH_TS = "TAI" := by
  decide +kernel

theorem constants_canonical :
    mjdJ1900.Canon ∧ mjdOffset.Canon ∧ jdeJ1900.Canon ∧ etEpoch.Canon ∧ unixRef.Canon := by
  refine ⟨(fromTruncated_spec _ (by decide)).1, (fromTotal_spec _).1, (fromTotal_spec _).1,
    (unitMulI64_spec _ _ (by decide) (by decide)).1, ?_⟩
  unfold Dur.Canon unixRef; simp only [NPC_eq]; decide

/-- away from the bounds a sum of canonical durations is exact -/
theorem add_val (a b : Dur) (ha : a.Canon) (hb : b.Canon) (h : DMIN ≤ a.val + b.val ∧ a.val + b.val ≤ DMAX) :
    (Dur.add a b).Canon ∧ (Dur.add a b).val = a.val + b.val := by
  have hs := add_spec a b ha hb
  unfold DMIN DMAX at h; simp only [NPCs_eq] at h
  exact ⟨hs.1, by rw [hs.2, clampD_mid] <;> omega⟩

theorem sub_val (a b : Dur) (ha : a.Canon) (hb : b.Canon) (h : DMIN ≤ a.val - b.val ∧ a.val - b.val ≤ DMAX) :
    (Dur.sub a b).Canon ∧ (Dur.sub a b).val = a.val - b.val := by
  have hs := sub_spec a b ha hb
  unfold DMIN DMAX at h; simp only [NPCs_eq] at h
  exact ⟨hs.1, by rw [hs.2, clampD_mid] <;> omega⟩

/-- the duration-valued views are the elapsed time in the relevant scale shifted by the fixed
    constants, exactly (every canonical duration at least 4 centuries above the lower bound and 70
    centuries — the Julian Date of 1900 is 66 centuries of days — below the upper one) -/
theorem duration_views_exact (d : Dur) (hd : d.Canon) (hs : Safe d.val) (hjd : d.val ≤ DMAX - 70 * NPCs) :
    (toJdeTai d).val = d.val + 2415020 * DAY + DAY / 2 ∧ (toJdeUtc d).val = d.val + 2415020 * DAY + DAY / 2 ∧
    (toJdeTt d).val = d.val + 2415020 * DAY + DAY / 2 ∧ (toMjdTt d).val = d.val + 15020 * DAY ∧
    (toTtSinceJ2k d).val = d.val - 3155716800 * 1000000000 ∧ (toUnixDur d).val = d.val - 2208988800 * 1000000000 ∧
    (fromUnixDur d).val = d.val + 2208988800 * 1000000000 := by
  obtain ⟨c1, c2, c3, c4, c5⟩ := constants_canonical
  obtain ⟨v1, v2, v3, v4, _, _, v7, _⟩ := constants_pinned
  unfold Safe DMIN DMAX at hs; simp only [NPCs_eq] at hs
  unfold DMAX at hjd; simp only [NPCs_eq] at hjd
  have hj : jdeJ1900.val = 2415020 * DAY + DAY / 2 := by rw [v3, v1, v2]; omega
  have e1 := add_val d mjdJ1900 hd c1 (by unfold DMIN DMAX; simp only [NPCs_eq]; omega)
  have e2 := add_val (Dur.add d mjdJ1900) mjdOffset e1.1 c2 (by unfold DMIN DMAX; simp only [NPCs_eq]; have h12 := e1.2; omega)
  have e3 := add_val d jdeJ1900 hd c3 (by unfold DMIN DMAX; simp only [NPCs_eq]; omega)
  have e4 := sub_val d etEpoch hd c4 (by unfold DMIN DMAX; simp only [NPCs_eq]; omega)
  have e5 := sub_val d unixRef hd c5 (by unfold DMIN DMAX; simp only [NPCs_eq]; omega)
  have e6 := add_val unixRef d c5 hd (by unfold DMIN DMAX; simp only [NPCs_eq]; omega)
  refine ⟨?_, ?_, ?_, ?_, ?_, ?_, ?_⟩
  · show (Dur.add (Dur.add d mjdJ1900) mjdOffset).val = _; rw [e2.2, e1.2, v1, v2]; omega
  · show (Dur.add d jdeJ1900).val = _; rw [e3.2, hj]; omega
  · show (Dur.add d jdeJ1900).val = _; rw [e3.2, hj]; omega
  · show (Dur.add d mjdJ1900).val = _; rw [e1.2, v1]
  · show (Dur.sub d etEpoch).val = _; rw [e4.2, v4]
  · show (Dur.sub d unixRef).val = _; rw [e5.2, v7]
  · show (Dur.add unixRef d).val = _; rw [e6.2, v7]; omega

/-- UNIX round trip on durations: from_unix_duration then to_unix_duration is the identity -/
theorem unix_duration_round_trip (d : Dur) (hd : d.Canon) (hs : Safe d.val) : toUnixDur (fromUnixDur d) = d := by
  obtain ⟨c1, c2, c3, c4, c5⟩ := constants_canonical
  obtain ⟨_, _, _, _, _, _, v7, _⟩ := constants_pinned
  unfold Safe DMIN DMAX at hs; simp only [NPCs_eq] at hs
  have e6 := add_val unixRef d c5 hd (by unfold DMIN DMAX; simp only [NPCs_eq]; omega)
  have e5 := sub_val (Dur.add unixRef d) unixRef e6.1 c5 (by unfold DMIN DMAX; simp only [NPCs_eq]; have := e6.2; omega)
  apply canon_unique _ _ e5.1 hd
  show (Dur.sub (Dur.add unixRef d) unixRef).val = d.val
  rw [e5.2, e6.2]; omega

/-- the reference dates of the scales (what `gregorian_epoch_offset` subtracts in from_mjd/from_jde):
    the prime offsets minus their seconds part are whole days: 1980-01-06, 1999-08-22, 2006-01-01 -/
theorem gregorian_epoch_offsets :
    (gregorianEpochOffset .GPST).map Dur.val = .ok (civilDays 1980 1 6 * DAY) ∧
    (gregorianEpochOffset .QZSST).map Dur.val = .ok (civilDays 1980 1 6 * DAY) ∧
    (gregorianEpochOffset .GST).map Dur.val = .ok (civilDays 1999 8 22 * DAY) ∧
    (gregorianEpochOffset .BDT).map Dur.val = .ok (civilDays 2006 1 1 * DAY) ∧
    (gregorianEpochOffset .TAI).map Dur.val = .ok 0 ∧ (gregorianEpochOffset .UTC).map Dur.val = .ok 0 ∧
    (gregorianEpochOffset .TT).map Dur.val = .ok 0 := by
  decide +kernel

example : Safe (Dur.mk 1 736646399999999999).val := by unfold Safe; decide +kernel

end Hifi.C17
