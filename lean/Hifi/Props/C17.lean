import Hifi.Lemmas.EpochOrd
import Hifi.Model.Views
import Hifi.Model.ViewsDyn
import Hifi.Lemmas.ViewsFloat
import Hifi.Gen.ViewsConsts
/-
  C17  Julian Date, Modified Julian Date and UNIX views are exact affine re-expressions.
  Duration-valued accessors: theorems.  Float-valued accessors / constructors: theorems on the SoftF64
  model (`Model/ViewsFloat.lean`: the same f64 expressions as the code on `Hifi.F64`, whose arithmetic is
  tied bit for bit to the hardware by the F64 stream; the driver additionally cross-checks the SoftF64
  value of every accessor against the hardware-`Float` evaluation, branch tag `softf64=hw`).
-/
namespace Hifi.C17
open Hifi Hifi.Spec Hifi.Views

local notation "DAY" => (86400000000000 : Int)

/-- the constants: MJD of 1900-01-01 00:00 is 15 020 days; JD = MJD + 2 400 000.5 days; J2000 is
    3 155 716 800 s after 1900-01-01 00:00; UNIX time counts from 1970-01-01 00:00:00 -/
theorem constants_pinned :
    mjdJ1900.val = 15020 * DAY ∧ mjdOffset.val = 2400000 * DAY + DAY / 2 ∧
    jdeJ1900.val = mjdJ1900.val + mjdOffset.val ∧
    etEpoch.val = 3155716800 * 1000000000 ∧ etEpoch.val = ((civilDays 2000 1 1) * 86400 + 43200) * 1000000000 ∧
    unixRef.val = civilDays 1970 1 1 * DAY ∧ unixRef.val = 2208988800 * 1000000000 ∧
    Gen.MJD_J1900 = 15020 ∧ Gen.JD_J1900 = 2415020 ∧ Gen.UNIX_REF_EPOCH_TS = "TAI" := by
  decide +kernel

theorem constants_canonical :
    mjdJ1900.Canon ∧ mjdOffset.Canon ∧ jdeJ1900.Canon ∧ etEpoch.Canon ∧ unixRef.Canon := by
  refine ⟨(fromTruncated_spec _ (by decide)).1, (fromTotal_spec _).1, (fromTotal_spec _).1,
    (unitMulI64_spec _ _ (by decide) (by decide)).1, ?_⟩
  unfold Dur.Canon unixRef; simp only [NPC_eq]; decide

/-- away from the bounds a sum of canonical durations is exact -/
theorem add_val (a b : Dur) (ha : a.Canon) (hb : b.Canon) (h : DMIN ≤ a.val + b.val ∧ a.val + b.val ≤ DMAX) :
    (Dur.add a b).Canon ∧ (Dur.add a b).val = a.val + b.val := by
  have hs := add_spec a b ha hb
  unfold DMIN DMAX at h; simp only [NPCs_eq] at h
  exact ⟨hs.1, by rw [hs.2, clampD_mid] <;> omega⟩

theorem sub_val (a b : Dur) (ha : a.Canon) (hb : b.Canon) (h : DMIN ≤ a.val - b.val ∧ a.val - b.val ≤ DMAX) :
    (Dur.sub a b).Canon ∧ (Dur.sub a b).val = a.val - b.val := by
  have hs := sub_spec a b ha hb
  unfold DMIN DMAX at h; simp only [NPCs_eq] at h
  exact ⟨hs.1, by rw [hs.2, clampD_mid] <;> omega⟩

/-- the duration-valued views are the elapsed time in the relevant scale shifted by the fixed
    constants, exactly (every canonical duration at least 4 centuries above the lower bound and 70
    centuries — the Julian Date of 1900 is 66 centuries of days — below the upper one) -/
theorem duration_views_exact (d : Dur) (hd : d.Canon) (hs : Safe d.val) (hjd : d.val ≤ DMAX - 70 * NPCs) :
    (toJdeTai d).val = d.val + 2415020 * DAY + DAY / 2 ∧ (toJdeUtc d).val = d.val + 2415020 * DAY + DAY / 2 ∧
    (toJdeTt d).val = d.val + 2415020 * DAY + DAY / 2 ∧ (toMjdTt d).val = d.val + 15020 * DAY ∧
    (toTtSinceJ2k d).val = d.val - 3155716800 * 1000000000 ∧ (toUnixDur d).val = d.val - 2208988800 * 1000000000 ∧
    (fromUnixDur d).val = d.val + 2208988800 * 1000000000 := by
  obtain ⟨c1, c2, c3, c4, c5⟩ := constants_canonical
  obtain ⟨v1, v2, v3, v4, _, _, v7, _⟩ := constants_pinned
  unfold Safe DMIN DMAX at hs; simp only [NPCs_eq] at hs
  unfold DMAX at hjd; simp only [NPCs_eq] at hjd
  have hj : jdeJ1900.val = 2415020 * DAY + DAY / 2 := by rw [v3, v1, v2]; omega
  have e1 := add_val d mjdJ1900 hd c1 (by unfold DMIN DMAX; simp only [NPCs_eq]; omega)
  have e2 := add_val (Dur.add d mjdJ1900) mjdOffset e1.1 c2 (by unfold DMIN DMAX; simp only [NPCs_eq]; have h12 := e1.2; omega)
  have e3 := add_val d jdeJ1900 hd c3 (by unfold DMIN DMAX; simp only [NPCs_eq]; omega)
  have e4 := sub_val d etEpoch hd c4 (by unfold DMIN DMAX; simp only [NPCs_eq]; omega)
  have e5 := sub_val d unixRef hd c5 (by unfold DMIN DMAX; simp only [NPCs_eq]; omega)
  have e6 := add_val unixRef d c5 hd (by unfold DMIN DMAX; simp only [NPCs_eq]; omega)
  refine ⟨?_, ?_, ?_, ?_, ?_, ?_, ?_⟩
  · show (Dur.add (Dur.add d mjdJ1900) mjdOffset).val = _; rw [e2.2, e1.2, v1, v2]; omega
  · show (Dur.add d jdeJ1900).val = _; rw [e3.2, hj]; omega
  · show (Dur.add d jdeJ1900).val = _; rw [e3.2, hj]; omega
  · show (Dur.add d mjdJ1900).val = _; rw [e1.2, v1]
  · show (Dur.sub d etEpoch).val = _; rw [e4.2, v4]
  · show (Dur.sub d unixRef).val = _; rw [e5.2, v7]
  · show (Dur.add unixRef d).val = _; rw [e6.2, v7]; omega

/-- UNIX round trip on durations: from_unix_duration then to_unix_duration is the identity -/
theorem unix_duration_round_trip (d : Dur) (hd : d.Canon) (hs : Safe d.val) : toUnixDur (fromUnixDur d) = d := by
  obtain ⟨c1, c2, c3, c4, c5⟩ := constants_canonical
  obtain ⟨_, _, _, _, _, _, v7, _⟩ := constants_pinned
  unfold Safe DMIN DMAX at hs; simp only [NPCs_eq] at hs
  have e6 := add_val unixRef d c5 hd (by unfold DMIN DMAX; simp only [NPCs_eq]; omega)
  have e5 := sub_val (Dur.add unixRef d) unixRef e6.1 c5 (by unfold DMIN DMAX; simp only [NPCs_eq]; have := e6.2; omega)
  apply canon_unique _ _ e5.1 hd
  show (Dur.sub (Dur.add unixRef d) unixRef).val = d.val
  rw [e5.2, e6.2]; omega

/-- the reference dates of the scales (what `gregorian_epoch_offset` subtracts in from_mjd/from_jde):
    the prime offsets minus their seconds part are whole days: 1980-01-06, 1999-08-22, 2006-01-01 -/
theorem gregorian_epoch_offsets :
    (gregorianEpochOffset .GPST).map Dur.val = .ok (civilDays 1980 1 6 * DAY) ∧
    (gregorianEpochOffset .QZSST).map Dur.val = .ok (civilDays 1980 1 6 * DAY) ∧
    (gregorianEpochOffset .GST).map Dur.val = .ok (civilDays 1999 8 22 * DAY) ∧
    (gregorianEpochOffset .BDT).map Dur.val = .ok (civilDays 2006 1 1 * DAY) ∧
    (gregorianEpochOffset .TAI).map Dur.val = .ok 0 ∧ (gregorianEpochOffset .UTC).map Dur.val = .ok 0 ∧
    (gregorianEpochOffset .TT).map Dur.val = .ok 0 := by
  decide +kernel

example : Safe (Dur.mk 1 736646399999999999).val := by unfold Safe; decide +kernel

/-! ### float-valued accessors and constructors (SoftF64) -/
open Hifi.F64 Hifi.DurFloat Hifi.ViewsF

/-- the f64 products `Unit::Day * MJD_J1900`, `Unit::Day * MJD_OFFSET`, `Unit::Day * (MJD_J1900 + MJD_OFFSET)`
    that the code forms are EXACTLY the constants used above (15020.0, 2400000.5, 2415020.5 days have
    ≤ 53-bit products with 8.64·10^13) -/
theorem float_day_constants_exact :
    dayMjd = mjdJ1900 ∧ dayOffset = mjdOffset ∧ dayJde = jdeJ1900 ∧
    toRat MJD_J1900F = ((15020 : Int) : Rat) ∧ toRat MJD_OFFSETF = 4800001 / 2 := by
  obtain ⟨h1, h2, h3, h4, h5, _⟩ := day_consts_exact
  exact ⟨h1, h2, h3, h4, h5⟩

/-- THE CONSTANTS OF THE MODEL ARE THE CONSTANTS OF THE SOURCES.  `Model/Views.lean` writes 15020, 2400000.5 and
    2415020.5 days as literals and `Model/ViewsFloat.lean` writes the two doubles as `ofInt 15020` /
    `rnd (4800001/2)`; `Gen/ViewsConsts.lean` carries the bit patterns of `MJD_J1900`, `MJD_OFFSET` (src/lib.rs)
    and of the f64 sum `MJD_J1900 + MJD_OFFSET`, regenerated from the linked crate at every run
    (`hv dump-consts`).  Pinned here: the model's doubles ARE those bit patterns, and the model's three
    durations are exactly those doubles × one day — so a change of either Rust constant breaks this proof.
    (`MJD_J2000`, `JD_J1900`, `JD_J2000` are pinned to their documented values and to each other as well.) -/
theorem view_constants_are_the_sources :
    MJD_J1900F = F64.ofBits Gen.F64_MJD_J1900 ∧ MJD_OFFSETF = F64.ofBits Gen.F64_MJD_OFFSET ∧
    F64.add MJD_J1900F MJD_OFFSETF = F64.ofBits Gen.F64_MJD_J1900_PLUS_MJD_OFFSET ∧
    (mjdJ1900.val : Rat) = toRat (F64.ofBits Gen.F64_MJD_J1900) * 86400000000000 ∧
    (mjdOffset.val : Rat) = toRat (F64.ofBits Gen.F64_MJD_OFFSET) * 86400000000000 ∧
    (jdeJ1900.val : Rat) = toRat (F64.ofBits Gen.F64_MJD_J1900_PLUS_MJD_OFFSET) * 86400000000000 ∧
    toRat (F64.ofBits Gen.F64_MJD_J1900) = ((Gen.MJD_J1900 : Int) : Rat) ∧
    toRat (F64.ofBits Gen.F64_JD_J1900) = ((Gen.JD_J1900 : Int) : Rat) ∧
    toRat (F64.ofBits Gen.F64_JD_J2000) = ((Gen.JD_J2000 : Int) : Rat) ∧
    toRat (F64.ofBits Gen.F64_MJD_J2000) = 103089 / 2 ∧
    toRat (F64.ofBits Gen.F64_MJD_J2000) + toRat (F64.ofBits Gen.F64_MJD_OFFSET) = toRat (F64.ofBits Gen.F64_JD_J2000) ∧
    toRat (F64.ofBits Gen.F64_MJD_J1900) + toRat (F64.ofBits Gen.F64_MJD_OFFSET) = toRat (F64.ofBits Gen.F64_JD_J1900) + 1 / 2 := by
  decide +kernel

/-- **the 22 float-valued accessors** (`to_tai_seconds` … `to_gpst_days`; x = the elapsed time in the
    accessor's scale, every canonical duration with the margins of `duration_views_exact`, i.e. far
    more than ±10 000 years): the accessor returns a finite double that has exactly the sign of the
    exact quantity (x + constant, `Spec.accConst`) and lies within 8·2^-53·max(|exact|, 1 s in the unit)
    of it — "four ulp"; the four accessors that call `to_seconds()` directly within 4·2^-53·max(|exact|, 1) -/
theorem float_accessors_accuracy (a : Acc) (fs : Int) (hu : unitNs (accConst a).2 = some fs) (d : Dur)
    (hd : d.Canon) (hs : Safe d.val) (hjd : d.val ≤ DMAX - 70 * NPCs) :
    ∃ f, accF a d = some f ∧ toUnitOk 8 fs (d.val + (accConst a).1) f = true ∧
      (accUnit a = none → toSecondsOk 4 (d.val + (accConst a).1) f = true) :=
  accF_spec a fs hu d hd hs hjd

/-- each float accessor is non-decreasing in the epoch (in its elapsed time in the accessor's scale) -/
theorem float_accessors_monotone (a : Acc) (d1 d2 : Dur) (h1 : d1.Canon) (h2 : d2.Canon) (hs1 : Safe d1.val)
    (hs2 : Safe d2.val) (hj1 : d1.val ≤ DMAX - 70 * NPCs) (hj2 : d2.val ≤ DMAX - 70 * NPCs) (h : d1.val ≤ d2.val) :
    ∃ f1 f2, accF a d1 = some f1 ∧ accF a d2 = some f2 ∧ F64.le f1 f2 = true :=
  accF_mono a d1 d2 h1 h2 hs1 hs2 hj1 hj2 h

/-- the accessor table is complete and names the Rust functions -/
theorem float_accessors_named : Acc.all.length = 22 ∧ Acc.all.all (fun a => Acc.ofString? a.name == some a) = true ∧
    Acc.all.all (fun a => (unitNs (accConst a).2).isSome) = true := by decide

/-- `from_mjd_*(days)` on WHOLE MJD days n, |n − 15020| ≤ 2^22 (±11 483 years): exactly (n − 15020) days
    minus the scale's reference-date offset g, to the nanosecond -/
theorem from_mjd_whole_days_exact (g : Dur) (hg : g.Canon)
    (hgs : -6311520000000000000 ≤ g.val ∧ g.val ≤ 6311520000000000000) (n : Int)
    (hn : -4194304 ≤ n - 15020 ∧ n - 15020 ≤ 4194304) :
    (fromMjdDur g (F64.ofInt n)).Canon ∧ (fromMjdDur g (F64.ofInt n)).val = (n - 15020) * DAY - g.val :=
  fromMjdDur_integer_days g hg hgs n hn

/-- `from_jde_*(days)` on Julian dates at midnight (n + 0.5), |n − 2415020| ≤ 2^22: exact likewise -/
theorem from_jde_midnight_exact (g : Dur) (hg : g.Canon)
    (hgs : -6311520000000000000 ≤ g.val ∧ g.val ≤ 6311520000000000000) (days : F64) (hf : days.isFinite = true)
    (n : Int) (hd : toRat days = (n : Rat) + 1 / 2) (hn : -4194304 ≤ n - 2415020 ∧ n - 2415020 ≤ 4194304) :
    (fromJdeDur g days).Canon ∧ (fromJdeDur g days).val = (n - 2415020) * DAY - g.val :=
  fromJdeDur_midnight g hg hgs days hf n hd hn

/-- `from_mjd_*` for EVERY finite canonical double of magnitude ≤ 2^23 days: within the resolution of
    the double, |r + g − (days − 15020)·day| ≤ 1 ns + 2^-51·|days − 15020|·day -/
theorem from_mjd_float_resolution (g : Dur) (hg : g.Canon)
    (hgs : -6311520000000000000 ≤ g.val ∧ g.val ≤ 6311520000000000000) (days : F64) (hf : days.isFinite = true)
    (hw : days.wf = true) (hb : absR (toRat days) ≤ pow2 23) :
    (fromMjdDur g days).Canon ∧
    absR ((((fromMjdDur g days).val + g.val : Int) : Rat) - (toRat days - 15020) * 86400000000000) ≤
      1 + absR (toRat days - 15020) * 86400000000000 * pow2 (-51) :=
  fromMjdDur_err g hg hgs days hf hw hb

/-- `from_jde_*` likewise: |r + g − (days − 2415020.5)·day| ≤ 1 ns + 2^-51·(|days| + 2415021)·day
    (a Julian Date near 2.4·10^6 resolves 2^-31 day ≈ 40 µs; the bound is of that order) -/
theorem from_jde_float_resolution (g : Dur) (hg : g.Canon)
    (hgs : -6311520000000000000 ≤ g.val ∧ g.val ≤ 6311520000000000000) (days : F64) (hf : days.isFinite = true)
    (hw : days.wf = true) (hb : absR (toRat days) ≤ pow2 23) :
    (fromJdeDur g days).Canon ∧
    absR ((((fromJdeDur g days).val + g.val : Int) : Rat) - (toRat days - 4830041 / 2) * 86400000000000) ≤
      1 + (absR (toRat days) + 2415021) * 86400000000000 * pow2 (-51) :=
  fromJdeDur_err g hg hgs days hf hw hb

/-- `from_unix_seconds` / `from_unix_milliseconds` of a finite double: 1970-01-01 plus the duration the
    count denotes (C18: clampD (trunc (rnd (x·len)))); whole seconds up to |k| ≤ 4 611 686 018 exactly -/
theorem from_unix_float (x : F64) (hx : x.isFinite = true) :
    (∃ t, unitTimesF 1000000000 x = some t ∧ (fromUnixSecondsDur x).Canon ∧
      (fromUnixSecondsDur x).val = clampD (2208988800000000000 + t)) ∧
    (∃ t, unitTimesF 1000000 x = some t ∧ (fromUnixMillisecondsDur x).Canon ∧
      (fromUnixMillisecondsDur x).val = clampD (2208988800000000000 + t)) := fromUnix_spec x hx

theorem from_unix_whole_seconds_exact (k : Int) (hk : -4611686018 ≤ k ∧ k ≤ 4611686018) :
    (fromUnixSecondsDur (F64.ofInt k)).val = 2208988800000000000 + k * 1000000000 := fromUnixSeconds_integer k hk

-- non-vacuity
example : accF .jdeTaiDays ⟨1, 0⟩ = some (F64.ofBits 0x4142b42cc0000000) ∧
    toRat (F64.ofBits 0x4142b42cc0000000) = 4903091 / 2 := by decide +kernel   -- 2000-01-01T00:00 TAI is JD 2451545.5
example : (F64.ofBits 0x40e92a8000000000).wf = true ∧ toRat (F64.ofBits 0x40e92a8000000000) = ((51540 : Int) : Rat) ∧
    absR (toRat (F64.ofBits 0x40e92a8000000000)) ≤ pow2 23 := by decide +kernel


/-! ### the Julian-date views in ET / TDB (Model/ViewsDyn.lean) -/

/-- the prime-epoch offset of ET and TDB is J2000 (3 155 716 800 s after 1900-01-01 00:00), canonical -/
theorem et_prime_offset : Dyn.etPrimeOffset.Canon ∧ Dyn.etPrimeOffset.val = 3155716800 * 1000000000 := by
  unfold Dur.Canon Dyn.etPrimeOffset; simp only [NPC_eq]; decide

/-- **`to_jde_et_duration` / `to_jde_tdb_duration`** of a count `x` in ET / TDB (for an epoch HELD in that scale: its own
    elapsed time, no conversion): exactly `x + 2 415 020.5 days + J2000`, canonical — in particular across every century
    of the result (a seeded change carried the century of this sum with `>` for `>=`).  Every canonical count at least
    4 centuries above the lower bound and 71 centuries below the upper one. -/
theorem jde_dyn_view_exact (x : Dur) (hx : x.Canon) (hs : Safe x.val) (hjd : x.val ≤ DMAX - 71 * NPCs) :
    (toJdeDyn x).Canon ∧ (toJdeDyn x).val = x.val + 2415020 * DAY + DAY / 2 + 3155716800 * 1000000000 := by
  obtain ⟨_, _, c3, _, _⟩ := constants_canonical
  obtain ⟨v1, v2, v3, _⟩ := constants_pinned
  obtain ⟨pc, pv⟩ := et_prime_offset
  unfold Safe DMIN DMAX at hs; simp only [NPCs_eq] at hs
  unfold DMAX at hjd; simp only [NPCs_eq] at hjd
  have hj : jdeJ1900.val = 2415020 * DAY + DAY / 2 := by rw [v3, v1, v2]; omega
  have e1 := add_val x jdeJ1900 hx c3 (by unfold DMIN DMAX; simp only [NPCs_eq]; omega)
  have e2 := add_val (Dur.add x jdeJ1900) Dyn.etPrimeOffset e1.1 pc
    (by unfold DMIN DMAX; simp only [NPCs_eq]; have h12 := e1.2; omega)
  unfold toJdeDyn
  exact ⟨e2.1, by rw [e2.2, e1.2, hj, pv]; omega⟩

/-- the result-on-a-century instant of the seeded change: ET count 32 155 days gives JD = 68 centuries exactly -/
example : toJdeDyn ⟨0, 32155 * 86400000000000⟩ = ⟨68, 0⟩ := by decide +kernel

end Hifi.C17
