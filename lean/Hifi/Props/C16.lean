import Hifi.Lemmas.EpochOrd
import Hifi.Lemmas.Calendar
/-
  C16  Epoch weekday is the civil weekday of its date; weekday arithmetic is mod 7.
  Weekdays are 0 = Monday … 6 = Sunday (the `u8` encoding of `Weekday`).
-/
namespace Hifi.C16
open Hifi Hifi.Spec

theorem NPD_eq : Gen.NANOSECONDS_PER_DAY = 86400000000000 := rfl
theorem DPC_eq : Gen.DAYS_PER_CENTURY_I64 = 36525 := rfl

/-! ### ℤ/7 arithmetic: closed-form theorems over ALL u8 / i8 values (not a table) -/

theorem from_u8 (u : Int) (_h : 0 ≤ u ∧ u ≤ 255) : wdFromU8 u = u % 7 := rfl

theorem from_i8 (i : Int) (h : -128 ≤ i ∧ i ≤ 127) : wdFromI8 i = i % 7 := by
  unfold wdFromI8 wdFromU8; omega

theorem add_weekday (a b : Int) (ha : 0 ≤ a ∧ a ≤ 6) (hb : 0 ≤ b ∧ b ≤ 6) : wdAdd a b = (a + b) % 7 := rfl

/-- `Weekday + u8` never overflows and wraps around modulo 7 -/
theorem add_u8 (a u : Int) (ha : 0 ≤ a ∧ a ≤ 6) (hu : 0 ≤ u ∧ u ≤ 255) : wdAddU8 a u = .ok ((a + u) % 7) := by
  unfold wdAddU8 wdFromU8
  rw [if_neg (by omega)]; congr 1; omega

/-- `Weekday - u8` never overflows and wraps around modulo 7 -/
theorem sub_u8 (a u : Int) (ha : 0 ≤ a ∧ a ≤ 6) (hu : 0 ≤ u ∧ u ≤ 255) : wdSubU8 a u = .ok ((a - u) % 7) := by
  unfold wdSubU8 wdFromI8 wdFromU8
  rw [if_neg (by omega)]; congr 1; omega

/-- the difference of two weekdays is the 0–6 days from the first to the next occurrence of the second -/
theorem diff_weekdays (a b : Int) (ha : 0 ≤ a ∧ a ≤ 6) (hb : 0 ≤ b ∧ b ≤ 6) :
    (wdDiff a b).Canon ∧ (wdDiff a b).val = ((b - a) % 7) * 86400000000000 := by
  unfold wdDiff
  have hq : fitsI64 ((if b - a < 0 then b + 7 else b) - a) = true := by
    unfold fitsI64; simp only [decide_eq_true_eq]; split <;> omega
  have h := unitMulI64_spec Gen.NANOSECONDS_PER_DAY _ (by unfold unitFactors; simp) hq
  refine ⟨h.1, ?_⟩
  rw [h.2, NPD_eq, clampD_mid] <;> (split <;> omega)

/-! ### the weekday of an epoch -/

/-- the integer day count used by the code is the floored number of whole days of the duration,
    also for negative durations: the weekday is that of the civil day containing the instant -/
theorem weekday_of_duration (d : Dur) (hd : d.Canon) : weekdayOfDur d = (d.val / 86400000000000) % 7 := by
  obtain ⟨h1, h2, h3, h4⟩ := hd
  unfold weekdayOfDur Dur.val valP
  simp only [NPC_eq, NPCs_eq, NPD_eq, DPC_eq] at *
  omega

/-- … hence constant over the whole civil day, first and last nanosecond included -/
theorem weekday_constant_over_day (d1 d2 : Dur) (h1 : d1.Canon) (h2 : d2.Canon)
    (hday : d1.val / 86400000000000 = d2.val / 86400000000000) : weekdayOfDur d1 = weekdayOfDur d2 := by
  rw [weekday_of_duration d1 h1, weekday_of_duration d2 h2, hday]

/-- day 0 of the TAI/UTC/TT counts is 1900-01-01, a Monday; cross-checks: 1970-01-01 was a Thursday,
    2000-01-01 a Saturday, 2023-05-06 a Saturday -/
theorem anchors :
    civilDays 1900 1 1 = 0 ∧ civilDays 1970 1 1 % 7 = 3 ∧ civilDays 2000 1 1 % 7 = 5 ∧ civilDays 2023 5 6 % 7 = 5 := by
  decide

/-- a TAI epoch at any time of civil day number `n` (days from 1900-01-01) has weekday n mod 7 -/
theorem weekday_tai (d : Dur) (hd : d.Canon) : (Ep.mk d .TAI).weekdayIn .TAI = some ((d.val / 86400000000000) % 7) := by
  unfold Ep.weekdayIn Ep.to toTimeScale
  rw [if_pos rfl]; simp only
  rw [weekday_of_duration d hd]

/-- the weekday of any non-dynamical epoch in a uniform target scale is the civil weekday of the
    re-expressed count (default accessor: TAI) -/
theorem weekday_in_uniform (d : Dur) (a b : TS) (hd : d.Canon) (ha : a.nonDyn = true) (hb : b.isUniform = true)
    (hs : Safe d.val) :
    (Ep.mk d a).weekdayIn b = some (((instV a d.val - off b) / 86400000000000) % 7) := by
  obtain ⟨r, r1, r2, r3⟩ := to_uniform_inst d a b hd ha hb hs
  unfold Ep.weekdayIn; rw [r1]; simp only
  rw [weekday_of_duration r r2, r3]

/-! ### next / previous -/

/-- `next` jumps 1 to 7 whole days, to the requested weekday, keeping the time of day and the scale
    (TAI epochs; no bound hit) -/
theorem next_spec (d : Dur) (w : Int) (hd : d.Canon) (hw : 0 ≤ w ∧ w ≤ 6) (hhi : d.val + 7 * 86400000000000 ≤ DMAX) :
    ∃ r k, (Ep.mk d .TAI).next w = some ⟨r, .TAI⟩ ∧ r.Canon ∧ 1 ≤ k ∧ k ≤ 7 ∧
      r.val = d.val + k * 86400000000000 ∧ weekdayOfDur r = w := by
  have hcur := weekday_tai d hd
  unfold Ep.next; rw [hcur]; simp only
  have hc : 0 ≤ (d.val / 86400000000000) % 7 ∧ (d.val / 86400000000000) % 7 ≤ 6 := by omega
  have hdiff := diff_weekdays ((d.val / 86400000000000) % 7) w hc hw
  have hz : Dur.ZERO.Canon := by unfold Dur.Canon Dur.ZERO; simp only [NPC_eq]; decide
  have h7 := unitMulI64_spec Gen.NANOSECONDS_PER_DAY 7 (by unfold unitFactors; simp) (by decide)
  have hr := canon_range d hd
  unfold DMIN DMAX at *; simp only [NPCs_eq] at *
  by_cases he : Dur.eqb (wdDiff ((d.val / 86400000000000) % 7) w) Dur.ZERO = true
  · rw [if_pos he]
    have hv := (eqb_spec _ _ hdiff.1 hz).mp he
    have hzv : Dur.ZERO.val = 0 := by decide
    rw [hzv, hdiff.2] at hv
    have hk : (w - (d.val / 86400000000000) % 7) % 7 = 0 := by omega
    have ha := add_spec d _ hd h7.1
    refine ⟨_, 7, rfl, ha.1, by omega, by omega, ?_, ?_⟩
    · rw [ha.2, h7.2, clampD_mid (x := 7 * Gen.NANOSECONDS_PER_DAY) (by decide) (by decide), clampD_mid] <;>
        (show _ ≤ _; simp only [Gen.NANOSECONDS_PER_DAY]; omega)
    · rw [weekday_of_duration _ ha.1, ha.2, h7.2, clampD_mid (x := 7 * Gen.NANOSECONDS_PER_DAY) (by decide) (by decide),
          clampD_mid (by simp only [Gen.NANOSECONDS_PER_DAY]; omega) (by simp only [Gen.NANOSECONDS_PER_DAY]; omega)]
      simp only [Gen.NANOSECONDS_PER_DAY]; omega
  · rw [if_neg he]
    have hv : ¬ ((wdDiff ((d.val / 86400000000000) % 7) w).val = 0) := by
      intro h0; apply he; apply (eqb_spec _ _ hdiff.1 hz).mpr; left; rw [h0]; decide
    rw [hdiff.2] at hv
    have hk : 1 ≤ (w - (d.val / 86400000000000) % 7) % 7 ∧ (w - (d.val / 86400000000000) % 7) % 7 ≤ 6 := by omega
    have ha := add_spec d _ hd hdiff.1
    refine ⟨_, (w - (d.val / 86400000000000) % 7) % 7, rfl, ha.1, hk.1, by omega, ?_, ?_⟩
    · rw [ha.2, hdiff.2, clampD_mid] <;> omega
    · rw [weekday_of_duration _ ha.1, ha.2, hdiff.2, clampD_mid (by omega) (by omega)]; omega

/-- `previous`: 1 to 7 whole days earlier, on the requested weekday -/
theorem previous_spec (d : Dur) (w : Int) (hd : d.Canon) (hw : 0 ≤ w ∧ w ≤ 6) (hlo : DMIN ≤ d.val - 7 * 86400000000000) :
    ∃ r k, (Ep.mk d .TAI).previous w = some ⟨r, .TAI⟩ ∧ r.Canon ∧ 1 ≤ k ∧ k ≤ 7 ∧
      r.val = d.val - k * 86400000000000 ∧ weekdayOfDur r = w := by
  have hcur := weekday_tai d hd
  unfold Ep.previous; rw [hcur]; simp only
  have hc : 0 ≤ (d.val / 86400000000000) % 7 ∧ (d.val / 86400000000000) % 7 ≤ 6 := by omega
  have hdiff := diff_weekdays w ((d.val / 86400000000000) % 7) hw hc
  have hz : Dur.ZERO.Canon := by unfold Dur.Canon Dur.ZERO; simp only [NPC_eq]; decide
  have h7 := unitMulI64_spec Gen.NANOSECONDS_PER_DAY 7 (by unfold unitFactors; simp) (by decide)
  have hr := canon_range d hd
  unfold DMIN DMAX at *; simp only [NPCs_eq] at *
  by_cases he : Dur.eqb (wdDiff w ((d.val / 86400000000000) % 7)) Dur.ZERO = true
  · rw [if_pos he]
    have hv := (eqb_spec _ _ hdiff.1 hz).mp he
    have hzv : Dur.ZERO.val = 0 := by decide
    rw [hzv, hdiff.2] at hv
    have hk : ((d.val / 86400000000000) % 7 - w) % 7 = 0 := by omega
    have ha := sub_spec d _ hd h7.1
    refine ⟨_, 7, rfl, ha.1, by omega, by omega, ?_, ?_⟩
    · rw [ha.2, h7.2, clampD_mid (x := 7 * Gen.NANOSECONDS_PER_DAY) (by decide) (by decide), clampD_mid] <;>
        (show _ ≤ _; simp only [Gen.NANOSECONDS_PER_DAY]; omega)
    · rw [weekday_of_duration _ ha.1, ha.2, h7.2, clampD_mid (x := 7 * Gen.NANOSECONDS_PER_DAY) (by decide) (by decide),
          clampD_mid (by simp only [Gen.NANOSECONDS_PER_DAY]; omega) (by simp only [Gen.NANOSECONDS_PER_DAY]; omega)]
      simp only [Gen.NANOSECONDS_PER_DAY]; omega
  · rw [if_neg he]
    have hv : ¬ ((wdDiff w ((d.val / 86400000000000) % 7)).val = 0) := by
      intro h0; apply he; apply (eqb_spec _ _ hdiff.1 hz).mpr; left; rw [h0]; decide
    rw [hdiff.2] at hv
    have hk : 1 ≤ ((d.val / 86400000000000) % 7 - w) % 7 ∧ ((d.val / 86400000000000) % 7 - w) % 7 ≤ 6 := by omega
    have ha := sub_spec d _ hd hdiff.1
    refine ⟨_, ((d.val / 86400000000000) % 7 - w) % 7, rfl, ha.1, hk.1, by omega, ?_, ?_⟩
    · rw [ha.2, hdiff.2, clampD_mid] <;> omega
    · rw [weekday_of_duration _ ha.1, ha.2, hdiff.2, clampD_mid (by omega) (by omega)]; omega

/-- the TAI weekday of an epoch of any uniform scale advances with its own elapsed time: adding
    whole days k to the duration adds k to the weekday (mod 7) — this is why `next`/`previous`, which
    add days in the epoch's own scale, land on the requested TAI weekday in every uniform scale -/
theorem weekday_shift_uniform (d : Dur) (a : TS) (k : Int) (hd : d.Canon) (ha : a.isUniform = true)
    (hs : Safe d.val) (r : Dur) (hr : r.Canon) (hrs : Safe r.val) (hv : r.val = d.val + k * 86400000000000) :
    ∃ w1 w2, (Ep.mk d a).weekdayIn .TAI = some w1 ∧ (Ep.mk r a).weekdayIn .TAI = some w2 ∧ w2 = (w1 + k) % 7 := by
  have hnd : a.nonDyn = true := by cases a <;> simp_all [TS.isUniform, TS.nonDyn]
  have h1 := weekday_in_uniform d a .TAI hd hnd rfl hs
  have h2 := weekday_in_uniform r a .TAI hr hnd rfl hrs
  refine ⟨_, _, h1, h2, ?_⟩
  rw [instV_uniform a r.val ha, instV_uniform a d.val ha, hv]
  have : off TS.TAI = 0 := rfl
  rw [this]
  omega

/-- `next` for an epoch of ANY uniform scale: 1 to 7 whole days later in its own scale, on the
    requested (TAI) weekday -/
theorem next_spec_uniform (d : Dur) (a : TS) (w : Int) (hd : d.Canon) (ha : a.isUniform = true) (hw : 0 ≤ w ∧ w ≤ 6)
    (hs : Safe d.val) (hs7 : Safe (d.val + 7 * 86400000000000)) :
    ∃ r k, (Ep.mk d a).next w = some ⟨r, a⟩ ∧ r.Canon ∧ 1 ≤ k ∧ k ≤ 7 ∧ r.val = d.val + k * 86400000000000 ∧
      (Ep.mk r a).weekdayIn .TAI = some w := by
  have hnd : a.nonDyn = true := by cases a <;> simp_all [TS.isUniform, TS.nonDyn]
  have hcur := weekday_in_uniform d a .TAI hd hnd rfl hs
  have hoff : off TS.TAI = 0 := rfl
  rw [instV_uniform a d.val ha, hoff] at hcur
  unfold Ep.next; rw [hcur]; simp only
  generalize hcv : ((d.val + off a - 0) / 86400000000000) % 7 = cur at *
  have hc : 0 ≤ cur ∧ cur ≤ 6 := by omega
  have hdiff := diff_weekdays cur w hc hw
  have hz : Dur.ZERO.Canon := by unfold Dur.Canon Dur.ZERO; simp only [NPC_eq]; decide
  have h7 := unitMulI64_spec Gen.NANOSECONDS_PER_DAY 7 (by unfold unitFactors; simp) (by decide)
  have hsafe := hs
  unfold Safe DMIN DMAX at hs; simp only [NPCs_eq] at hs
  have key : ∀ (x : Dur) (k : Int), x.Canon → x.val = k * 86400000000000 → 1 ≤ k → k ≤ 7 → (cur + k) % 7 = w →
      ∃ r k, some (Ep.mk (Dur.add d x) a) = some ⟨r, a⟩ ∧ r.Canon ∧ 1 ≤ k ∧ k ≤ 7 ∧ r.val = d.val + k * 86400000000000 ∧
        (Ep.mk r a).weekdayIn .TAI = some w := by
    intro x k hx hxv hk1 hk7 hwk
    have ha' := add_spec d x hd hx
    have hrv : (Dur.add d x).val = d.val + k * 86400000000000 := by rw [ha'.2, hxv, clampD_mid] <;> omega
    have hrs : Safe (Dur.add d x).val := by
      -- 7 days is far below the 4-century margin, but Safe itself is a fixed margin: weaken via a direct bound
      unfold Safe DMIN DMAX at hs7 ⊢; simp only [NPCs_eq] at hs7 ⊢; have := hrv; omega
    obtain ⟨w1, w2, e1, e2, e3⟩ := weekday_shift_uniform d a k hd ha hsafe (Dur.add d x) ha'.1 hrs hrv
    have hcur' := weekday_in_uniform d a .TAI hd hnd rfl hsafe
    rw [instV_uniform a d.val ha, hoff, hcv] at hcur'
    rw [hcur'] at e1
    have : w1 = cur := by injection e1 with h; exact h.symm
    refine ⟨_, k, rfl, ha'.1, hk1, hk7, hrv, ?_⟩
    rw [e2, e3, this, hwk]
  by_cases he : Dur.eqb (wdDiff cur w) Dur.ZERO = true
  · rw [if_pos he]
    have hv := (eqb_spec _ _ hdiff.1 hz).mp he
    have hzv : Dur.ZERO.val = 0 := by decide
    rw [hzv, hdiff.2] at hv
    exact key _ 7 h7.1 (by rw [h7.2, clampD_mid (x := 7 * Gen.NANOSECONDS_PER_DAY) (by decide) (by decide), NPD_eq]) (by omega) (by omega) (by omega)
  · rw [if_neg he]
    have hv : ¬ ((wdDiff cur w).val = 0) := by
      intro h0; apply he; apply (eqb_spec _ _ hdiff.1 hz).mpr; left; rw [h0]; decide
    rw [hdiff.2] at hv
    exact key _ ((w - cur) % 7) hdiff.1 hdiff.2 (by omega) (by omega) (by omega)

/-! ### next / previous for every non-dynamical scale (the six uniform scales AND UTC) -/

/-- the jump of `next`, any non-dynamical scale: `k` whole days later in the epoch's own scale, 1 ≤ k ≤ 7, where
    `k` is the distance from the epoch's current TAI weekday (the weekday the code computes) to `w` -/
theorem next_jump_nondyn (d : Dur) (a : TS) (w : Int) (hd : d.Canon) (ha : a.nonDyn = true) (hw : 0 ≤ w ∧ w ≤ 6)
    (hs : Safe d.val) :
    ∃ r k, (Ep.mk d a).next w = some ⟨r, a⟩ ∧ r.Canon ∧ 1 ≤ k ∧ k ≤ 7 ∧ r.val = d.val + k * 86400000000000 ∧
      ((instV a d.val / 86400000000000) % 7 + k) % 7 = w := by
  have hcur := weekday_in_uniform d a .TAI hd ha rfl hs
  have hoff : off TS.TAI = 0 := rfl
  rw [hoff, Int.sub_zero] at hcur
  unfold Ep.next; rw [hcur]; simp only
  have hc : 0 ≤ (instV a d.val / 86400000000000) % 7 ∧ (instV a d.val / 86400000000000) % 7 ≤ 6 := by omega
  generalize (instV a d.val / 86400000000000) % 7 = cur at *
  have hdiff := diff_weekdays cur w hc hw
  have hz : Dur.ZERO.Canon := by unfold Dur.Canon Dur.ZERO; simp only [NPC_eq]; decide
  have h7 := unitMulI64_spec Gen.NANOSECONDS_PER_DAY 7 (by unfold unitFactors; simp) (by decide)
  unfold Safe DMIN DMAX at hs; simp only [NPCs_eq] at hs
  have key : ∀ (x : Dur) (k : Int), x.Canon → x.val = k * 86400000000000 → 1 ≤ k → k ≤ 7 → (cur + k) % 7 = w →
      ∃ r k, some (Ep.mk (Dur.add d x) a) = some ⟨r, a⟩ ∧ r.Canon ∧ 1 ≤ k ∧ k ≤ 7 ∧ r.val = d.val + k * 86400000000000 ∧
        (cur + k) % 7 = w := by
    intro x k hx hxv hk1 hk7 hwk
    have ha' := add_spec d x hd hx
    have hrv : (Dur.add d x).val = d.val + k * 86400000000000 := by rw [ha'.2, hxv, clampD_mid] <;> omega
    exact ⟨_, k, rfl, ha'.1, hk1, hk7, hrv, hwk⟩
  by_cases he : Dur.eqb (wdDiff cur w) Dur.ZERO = true
  · rw [if_pos he]
    have hv := (eqb_spec _ _ hdiff.1 hz).mp he
    have hzv : Dur.ZERO.val = 0 := by decide
    rw [hzv, hdiff.2] at hv
    exact key _ 7 h7.1 (by rw [h7.2, clampD_mid (x := 7 * Gen.NANOSECONDS_PER_DAY) (by decide) (by decide), NPD_eq]) (by omega) (by omega) (by omega)
  · rw [if_neg he]
    have hv : ¬ ((wdDiff cur w).val = 0) := by
      intro h0; apply he; apply (eqb_spec _ _ hdiff.1 hz).mpr; left; rw [h0]; decide
    rw [hdiff.2] at hv
    exact key _ ((w - cur) % 7) hdiff.1 hdiff.2 (by omega) (by omega) (by omega)

/-- the jump of `previous`, any non-dynamical scale: `k` whole days earlier, 1 ≤ k ≤ 7 -/
theorem previous_jump_nondyn (d : Dur) (a : TS) (w : Int) (hd : d.Canon) (ha : a.nonDyn = true) (hw : 0 ≤ w ∧ w ≤ 6)
    (hs : Safe d.val) :
    ∃ r k, (Ep.mk d a).previous w = some ⟨r, a⟩ ∧ r.Canon ∧ 1 ≤ k ∧ k ≤ 7 ∧ r.val = d.val - k * 86400000000000 ∧
      ((instV a d.val / 86400000000000) % 7 - k) % 7 = w := by
  have hcur := weekday_in_uniform d a .TAI hd ha rfl hs
  have hoff : off TS.TAI = 0 := rfl
  rw [hoff, Int.sub_zero] at hcur
  unfold Ep.previous; rw [hcur]; simp only
  have hc : 0 ≤ (instV a d.val / 86400000000000) % 7 ∧ (instV a d.val / 86400000000000) % 7 ≤ 6 := by omega
  generalize (instV a d.val / 86400000000000) % 7 = cur at *
  have hdiff := diff_weekdays w cur hw hc
  have hz : Dur.ZERO.Canon := by unfold Dur.Canon Dur.ZERO; simp only [NPC_eq]; decide
  have h7 := unitMulI64_spec Gen.NANOSECONDS_PER_DAY 7 (by unfold unitFactors; simp) (by decide)
  unfold Safe DMIN DMAX at hs; simp only [NPCs_eq] at hs
  have key : ∀ (x : Dur) (k : Int), x.Canon → x.val = k * 86400000000000 → 1 ≤ k → k ≤ 7 → (cur - k) % 7 = w →
      ∃ r k, some (Ep.mk (Dur.sub d x) a) = some ⟨r, a⟩ ∧ r.Canon ∧ 1 ≤ k ∧ k ≤ 7 ∧ r.val = d.val - k * 86400000000000 ∧
        (cur - k) % 7 = w := by
    intro x k hx hxv hk1 hk7 hwk
    have ha' := sub_spec d x hd hx
    have hrv : (Dur.sub d x).val = d.val - k * 86400000000000 := by rw [ha'.2, hxv, clampD_mid] <;> omega
    exact ⟨_, k, rfl, ha'.1, hk1, hk7, hrv, hwk⟩
  by_cases he : Dur.eqb (wdDiff w cur) Dur.ZERO = true
  · rw [if_pos he]
    have hv := (eqb_spec _ _ hdiff.1 hz).mp he
    have hzv : Dur.ZERO.val = 0 := by decide
    rw [hzv, hdiff.2] at hv
    exact key _ 7 h7.1 (by rw [h7.2, clampD_mid (x := 7 * Gen.NANOSECONDS_PER_DAY) (by decide) (by decide), NPD_eq]) (by omega) (by omega) (by omega)
  · rw [if_neg he]
    have hv : ¬ ((wdDiff w cur).val = 0) := by
      intro h0; apply he; apply (eqb_spec _ _ hdiff.1 hz).mpr; left; rw [h0]; decide
    rw [hdiff.2] at hv
    exact key _ ((cur - w) % 7) hdiff.1 hdiff.2 (by omega) (by omega) (by omega)

/-- `previous` for an epoch of ANY uniform scale (mirror of `next_spec_uniform`): 1 to 7 whole days earlier in
    its own scale, on the requested (TAI) weekday -/
theorem previous_spec_uniform (d : Dur) (a : TS) (w : Int) (hd : d.Canon) (ha : a.isUniform = true) (hw : 0 ≤ w ∧ w ≤ 6)
    (hs : Safe d.val) (hs7 : Safe (d.val - 7 * 86400000000000)) :
    ∃ r k, (Ep.mk d a).previous w = some ⟨r, a⟩ ∧ r.Canon ∧ 1 ≤ k ∧ k ≤ 7 ∧ r.val = d.val - k * 86400000000000 ∧
      (Ep.mk r a).weekdayIn .TAI = some w := by
  have hnd : a.nonDyn = true := by cases a <;> simp_all [TS.isUniform, TS.nonDyn]
  obtain ⟨r, k, r1, r2, k1, k7, rv, hwk⟩ := previous_jump_nondyn d a w hd hnd hw hs
  refine ⟨r, k, r1, r2, k1, k7, rv, ?_⟩
  have hrs : Safe r.val := by
    unfold Safe DMIN DMAX at hs hs7 ⊢; simp only [NPCs_eq] at hs hs7 ⊢; omega
  rw [weekday_in_uniform r a .TAI r2 hnd rfl hrs, instV_uniform a r.val ha, rv]
  rw [instV_uniform a d.val ha] at hwk
  have hoff : off TS.TAI = 0 := rfl
  rw [hoff]; congr 1; omega

/-- `next` / `previous` for a UTC epoch.  The jump is `k` whole days (k·86 400 s) of the UTC count, 1 ≤ k ≤ 7,
    chosen from the epoch's TAI weekday; the result falls on the requested TAI weekday whenever TAI−UTC is the
    same at both ends of the jump (no leap second inserted inside it).  When a leap second IS inserted inside
    the jump the TAI time of day moves by one second and the TAI weekday of the result can differ from the
    request only for results within that second of TAI midnight — stated by the hypothesis, not hidden. -/
theorem next_spec_utc (d : Dur) (w : Int) (hd : d.Canon) (hw : 0 ≤ w ∧ w ≤ 6)
    (hs : Safe d.val) (hs7 : Safe (d.val + 7 * 86400000000000)) :
    ∃ r k, (Ep.mk d .UTC).next w = some ⟨r, .UTC⟩ ∧ r.Canon ∧ 1 ≤ k ∧ k ≤ 7 ∧ r.val = d.val + k * 86400000000000 ∧
      (Ldesc Hifi.C06.builtinDesc r.val = Ldesc Hifi.C06.builtinDesc d.val → (Ep.mk r .UTC).weekdayIn .TAI = some w) := by
  obtain ⟨r, k, r1, r2, k1, k7, rv, hwk⟩ := next_jump_nondyn d .UTC w hd rfl hw hs
  refine ⟨r, k, r1, r2, k1, k7, rv, fun hL => ?_⟩
  have hrs : Safe r.val := by
    unfold Safe DMIN DMAX at hs hs7 ⊢; simp only [NPCs_eq] at hs hs7 ⊢; omega
  rw [weekday_in_uniform r .UTC .TAI r2 rfl rfl hrs]
  have hoff : off TS.TAI = 0 := rfl
  have hi : instV .UTC r.val = instV .UTC d.val + k * 86400000000000 := by
    unfold instV; rw [if_pos rfl, if_pos rfl, hL, rv]; omega
  rw [hoff, hi]; congr 1; omega

theorem previous_spec_utc (d : Dur) (w : Int) (hd : d.Canon) (hw : 0 ≤ w ∧ w ≤ 6)
    (hs : Safe d.val) (hs7 : Safe (d.val - 7 * 86400000000000)) :
    ∃ r k, (Ep.mk d .UTC).previous w = some ⟨r, .UTC⟩ ∧ r.Canon ∧ 1 ≤ k ∧ k ≤ 7 ∧ r.val = d.val - k * 86400000000000 ∧
      (Ldesc Hifi.C06.builtinDesc r.val = Ldesc Hifi.C06.builtinDesc d.val → (Ep.mk r .UTC).weekdayIn .TAI = some w) := by
  obtain ⟨r, k, r1, r2, k1, k7, rv, hwk⟩ := previous_jump_nondyn d .UTC w hd rfl hw hs
  refine ⟨r, k, r1, r2, k1, k7, rv, fun hL => ?_⟩
  have hrs : Safe r.val := by
    unfold Safe DMIN DMAX at hs hs7 ⊢; simp only [NPCs_eq] at hs hs7 ⊢; omega
  rw [weekday_in_uniform r .UTC .TAI r2 rfl rfl hrs]
  have hoff : off TS.TAI = 0 := rfl
  have hi : instV .UTC r.val = instV .UTC d.val - k * 86400000000000 := by
    unfold instV; rw [if_pos rfl, if_pos rfl, hL, rv]; omega
  rw [hoff, hi]; congr 1; omega

/-- the hypothesis of the two UTC theorems is met whenever no table entry lies in the week around the epoch:
    e.g. everywhere after the last entry plus a week, and everywhere before 1972 -/
theorem utc_no_leap_far_from_entries (u v : Int) (h : (3692217600 * 1000000000 ≤ u ∧ 3692217600 * 1000000000 ≤ v) ∨
    (u < 2272060800 * 1000000000 ∧ v < 2272060800 * 1000000000)) :
    Ldesc Hifi.C06.builtinDesc u = Ldesc Hifi.C06.builtinDesc v := by
  rw [Hifi.C06.builtin_L_eq_spec, Hifi.C06.builtin_L_eq_spec]
  congr 1
  unfold leapAt
  have hrev : Hifi.C06.iersTbl.reverse = (3692217600, 37) :: (Hifi.C06.iersTbl.reverse).tail := by decide +kernel
  rcases h with h | h
  · rw [hrev]; simp only [stepDesc]; rw [if_pos (by omega), if_pos (by omega)]
  · have hall : ∀ (l : List (Int × Int)) (x : Int), (∀ e ∈ l, x < e.1 * 1000000000) → stepDesc l x = 0 := by
      intro l x hl
      induction l with
      | nil => rfl
      | cons e l ih =>
        obtain ⟨t, o⟩ := e
        simp only [stepDesc]
        rw [if_neg (by have := hl (t, o) (List.mem_cons_self ..); simp only at this; omega)]
        exact ih (fun e he => hl e (List.mem_cons_of_mem _ he))
    have hmin : ∀ e ∈ Hifi.C06.iersTbl.reverse, 2272060800 ≤ e.1 := by decide +kernel
    rw [hall _ u (fun e he => by have := hmin e he; omega), hall _ v (fun e he => by have := hmin e he; omega)]

/-- UTC accessor: the weekday of a UTC epoch is the civil weekday of its UTC date … -/
theorem weekday_utc_own_scale (d : Dur) (hd : d.Canon) :
    (Ep.mk d .UTC).weekdayIn .UTC = some ((d.val / 86400000000000) % 7) := by
  unfold Ep.weekdayIn Ep.to toTimeScale
  rw [if_pos rfl]; simp only
  rw [weekday_of_duration d hd]

/-- … and it stays that weekday when the same instant is held in any uniform scale: for a UTC epoch
    `d` re-expressed in scale `a`, `weekday_utc` is still the civil weekday of the UTC date of `d`
    (TAI → UTC inverts UTC → TAI, C06) -/
theorem weekday_utc_of_converted (d : Dur) (a : TS) (hd : d.Canon) (ha : a.isUniform = true) (hs : Safe d.val) :
    ∃ e, (Ep.mk d .UTC).to a = some e ∧ e.weekdayIn .UTC = some ((d.val / 86400000000000) % 7) := by
  obtain ⟨r, r1, r2, r3⟩ := to_uniform_inst d .UTC a hd rfl ha hs
  refine ⟨_, r1, ?_⟩
  have hsd := hs
  unfold Safe DMIN DMAX at hs; simp only [NPCs_eq] at hs
  obtain ⟨p, p1, p2⟩ := Hifi.C06.utc_tai_utc_round_trip d hd (by unfold DMAX; simp only [NPCs_eq]; omega)
    (by unfold DMIN; simp only [NPCs_eq]; omega)
  -- the TAI duration of the converted epoch is the same `p`
  have hpc : ∃ pc, toTaiDur builtin d .UTC = some pc ∧ pc.Canon ∧ pc.val = instV .UTC d.val := toTaiDur_inst d .UTC hd rfl hsd
  obtain ⟨pc, pc1, pc2, pc3⟩ := hpc
  have hpp : pc = p := by rw [p1] at pc1; injection pc1 with h; exact h.symm
  subst hpp
  have hau : a ≠ .UTC := by intro h; subst h; simp [TS.isUniform] at ha
  obtain ⟨q, q1, q2, q3⟩ := toTaiDur_uniform builtin r a r2 ha
  have hi := instV_bounds .UTC d.val
  have ho := off_bounds a
  simp only [NPCs_eq] at hi ho
  have hq : q = pc := by
    apply canon_unique q pc q2 pc2
    rw [q3, r3, pc3, clampD_mid] <;> omega
  have hto : (Ep.mk r a).to .UTC = some ⟨d, .UTC⟩ := by
    unfold Ep.to toTimeScale
    simp only
    rw [if_neg (by intro h; exact hau h.symm)]
    simp only [q1, hq, p2]
  unfold Ep.weekdayIn; rw [hto]; simp only
  rw [weekday_of_duration d hd]

-- non-vacuity: the last nanosecond of Saturday 2023-05-06 TAI (the witness of repaired defect D17) is a Saturday
example : (Dur.mk 1 736646399999999999).Canon ∧ weekdayOfDur ⟨1, 736646399999999999⟩ = 5 := by
  unfold Dur.Canon; simp only [NPC_eq]; decide

end Hifi.C16

/-! ### `weekday_in_time_scale` after fix 151cc8f: the weekday of the calendar date in the target scale -/

namespace Hifi.C16
open Hifi Hifi.Spec

/-- the calendar offsets of the nine scales, as values (pinned in C08 `gregOff_pinned` to the reference dates of the
    specification calendar) -/
theorem gregOff_canon_val (ts : TS) :
    (Cal.gregorianEpochOffset ts).Canon ∧ 0 ≤ (Cal.gregorianEpochOffset ts).val ∧
    (Cal.gregorianEpochOffset ts).val ≤ 3345062400000000000 := by
  have h := Cal.gregOff_val ts
  have r := Cal.refOffset_range ts
  exact ⟨h.1, by rw [h.2]; exact r.1, by rw [h.2]; exact r.2⟩

/-- the weekday the code reports for a re-expressed count `x` in scale `ts` is the weekday of the CIVIL day count
    (count + the scale's reference date-time, whole days since Monday 1900-01-01), whenever no bound is hit -/
theorem weekday_civil_of_count (x : Dur) (ts : TS) (hx : x.Canon)
    (hr : DMIN ≤ x.val + (Cal.gregorianEpochOffset ts).val ∧ x.val + (Cal.gregorianEpochOffset ts).val ≤ DMAX) :
    weekdayOfDur (Dur.add x (Cal.gregorianEpochOffset ts))
      = ((x.val + (Cal.gregorianEpochOffset ts).val) / 86400000000000) % 7 := by
  have hg := (gregOff_canon_val ts).1
  have ha := add_spec x _ hx hg
  rw [weekday_of_duration _ ha.1, ha.2]
  unfold DMIN DMAX at hr; simp only [NPCs_eq] at hr
  rw [clampD_mid (by omega) (by omega)]

/-- for TAI, UTC and TT the calendar offset is zero: the civil weekday IS the weekday of the count, so the
    theorems above (stated with `weekdayIn`) are about the repaired code as well -/
theorem weekday_civil_eq_count (e : Ep) (ts : TS) (h : ts = .TAI ∨ ts = .UTC ∨ ts = .TT)
    (hc : ∀ x, e.to ts = some x → x.dur.Canon) :
    e.weekdayInCivil ts = e.weekdayIn ts := by
  unfold Ep.weekdayInCivil Ep.weekdayIn
  cases hto : e.to ts with
  | none => rfl
  | some x =>
    have hx := hc x hto
    have h0 : Cal.gregorianEpochOffset ts = ⟨0, 0⟩ := by rcases h with h | h | h <;> subst h <;> decide
    have hz : (⟨0, 0⟩ : Dur).Canon := by unfold Dur.Canon; simp only [NPC_eq]; omega
    have ha := add_spec x.dur ⟨0, 0⟩ hx hz
    have hv : (Dur.add x.dur ⟨0, 0⟩).val = x.dur.val := by
      rw [ha.2]
      have hr := canon_range x.dur hx
      unfold DMIN DMAX at hr; simp only [NPCs_eq] at hr
      have : (⟨0, 0⟩ : Dur).val = 0 := by unfold Dur.val valP; simp
      rw [this, Int.add_zero, clampD_mid (by omega) (by omega)]
    have : Dur.add x.dur ⟨0, 0⟩ = x.dur := canon_unique _ _ ha.1 hx hv
    simp only [h0, this]

/-- every non-dynamical epoch, every uniform target scale (GNSS scales included, whose reference days are NOT
    Mondays — Sunday 1980-01-06 for GPST): `weekday_in_time_scale` is the weekday of the civil day count of the
    instant in that scale -/
theorem weekday_in_uniform_civil (d : Dur) (a b : TS) (hd : d.Canon) (ha : a.nonDyn = true) (hb : b.isUniform = true)
    (hs : Safe d.val) (hs6 : DMIN + 6 * NPCs ≤ d.val ∧ d.val ≤ DMAX - 6 * NPCs) :
    (Ep.mk d a).weekdayInCivil b =
      some (((instV a d.val - off b + (Cal.gregorianEpochOffset b).val) / 86400000000000) % 7) := by
  obtain ⟨r, r1, r2, r3⟩ := to_uniform_inst d a b hd ha hb hs
  unfold Ep.weekdayInCivil; rw [r1]; simp only
  have hg := gregOff_canon_val b
  have hob := off_bounds b
  have hrange : DMIN ≤ r.val + (Cal.gregorianEpochOffset b).val ∧ r.val + (Cal.gregorianEpochOffset b).val ≤ DMAX := by
    have hinst := instV_bounds a d.val
    unfold Safe at hs
    rw [r3]
    unfold DMIN DMAX at *; simp only [NPCs_eq] at *
    omega
  rw [weekday_civil_of_count r b r2 hrange, r3]

/-- the GPST reference epoch, 1980-01-06, is a Sunday (6), not a Monday: decided on the model -/
example : (Ep.mk ⟨0, 0⟩ .GPST).weekdayInCivil .GPST = some 6 ∧ (Ep.mk ⟨0, 0⟩ .GPST).weekdayIn .GPST = some 0 := by decide

end Hifi.C16
