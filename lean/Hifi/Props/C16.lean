import Hifi.Lemmas.EpochOrd
import Hifi.Lemmas.Calendar
import Hifi.Model.WeekdayAt
/-
  C16  Epoch weekday is the civil weekday of its date; weekday arithmetic is mod 7.
  Weekdays are 0 = Monday … 6 = Sunday (the `u8` encoding of `Weekday`).
-/
namespace Hifi.C16
open Hifi Hifi.Spec

theorem NPD_eq : Gen.NANOSECONDS_PER_DAY = 86400000000000 := rfl
theorem DPC_eq : Gen.DAYS_PER_CENTURY_I64 = 36525 := rfl

/-! ### ℤ/7 arithmetic: closed-form theorems over ALL u8 / i8 values (not a table) -/

theorem from_u8 (u : Int) (_h : 0 ≤ u ∧ u ≤ 255) : wdFromU8 u = u % 7 := rfl

theorem from_i8 (i : Int) (h : -128 ≤ i ∧ i ≤ 127) : wdFromI8 i = i % 7 := by
  unfold wdFromI8 wdFromU8; omega

theorem add_weekday (a b : Int) (ha : 0 ≤ a ∧ a ≤ 6) (hb : 0 ≤ b ∧ b ≤ 6) : wdAdd a b = (a + b) % 7 := rfl

/-- `Weekday + u8` never overflows and wraps around modulo 7 -/
theorem add_u8 (a u : Int) (ha : 0 ≤ a ∧ a ≤ 6) (hu : 0 ≤ u ∧ u ≤ 255) : wdAddU8 a u = .ok ((a + u) % 7) := by
  unfold wdAddU8 wdFromU8
  rw [if_neg (by omega)]; congr 1; omega

/-- `Weekday - u8` never overflows and wraps around modulo 7 -/
theorem sub_u8 (a u : Int) (ha : 0 ≤ a ∧ a ≤ 6) (hu : 0 ≤ u ∧ u ≤ 255) : wdSubU8 a u = .ok ((a - u) % 7) := by
  unfold wdSubU8 wdFromI8 wdFromU8
  rw [if_neg (by omega)]; congr 1; omega

/-- the difference of two weekdays is the 0–6 days from the first to the next occurrence of the second -/
theorem diff_weekdays (a b : Int) (ha : 0 ≤ a ∧ a ≤ 6) (hb : 0 ≤ b ∧ b ≤ 6) :
    (wdDiff a b).Canon ∧ (wdDiff a b).val = ((b - a) % 7) * 86400000000000 := by
  unfold wdDiff
  have hq : fitsI64 ((if b - a < 0 then b + 7 else b) - a) = true := by
    unfold fitsI64; simp only [decide_eq_true_eq]; split <;> omega
  have h := unitMulI64_spec Gen.NANOSECONDS_PER_DAY _ (by unfold unitFactors; simp) hq
  refine ⟨h.1, ?_⟩
  rw [h.2, NPD_eq, clampD_mid] <;> (split <;> omega)

/-! ### the weekday of an epoch -/

/-- the integer day count used by the code is the floored number of whole days of the duration,
    also for negative durations: the weekday is that of the civil day containing the instant -/
theorem weekday_of_duration (d : Dur) (hd : d.Canon) : weekdayOfDur d = (d.val / 86400000000000) % 7 := by
  obtain ⟨h1, h2, h3, h4⟩ := hd
  unfold weekdayOfDur Dur.val valP
  simp only [NPC_eq, NPCs_eq, NPD_eq, DPC_eq] at *
  omega

/-- … hence constant over the whole civil day, first and last nanosecond included -/
theorem weekday_constant_over_day (d1 d2 : Dur) (h1 : d1.Canon) (h2 : d2.Canon)
    (hday : d1.val / 86400000000000 = d2.val / 86400000000000) : weekdayOfDur d1 = weekdayOfDur d2 := by
  rw [weekday_of_duration d1 h1, weekday_of_duration d2 h2, hday]

/-- day 0 of the TAI/UTC/TT counts is 1900-01-01, a Monday; cross-checks: 1970-01-01 was a Thursday,
    2000-01-01 a Saturday, 2023-05-06 a Saturday -/
theorem anchors :
    civilDays 1900 1 1 = 0 ∧ civilDays 1970 1 1 % 7 = 3 ∧ civilDays 2000 1 1 % 7 = 5 ∧ civilDays 2023 5 6 % 7 = 5 := by
  decide

/-- a TAI epoch at any time of civil day number `n` (days from 1900-01-01) has weekday n mod 7 -/
theorem weekday_tai (d : Dur) (hd : d.Canon) : (Ep.mk d .TAI).weekdayIn .TAI = some ((d.val / 86400000000000) % 7) := by
  unfold Ep.weekdayIn Ep.to toTimeScale
  rw [if_pos rfl]; simp only
  rw [weekday_of_duration d hd]

/-- the weekday of any non-dynamical epoch in a uniform target scale is the civil weekday of the
    re-expressed count (default accessor: TAI) -/
theorem weekday_in_uniform (d : Dur) (a b : TS) (hd : d.Canon) (ha : a.nonDyn = true) (hb : b.isUniform = true)
    (hs : Safe d.val) :
    (Ep.mk d a).weekdayIn b = some (((instV a d.val - off b) / 86400000000000) % 7) := by
  obtain ⟨r, r1, r2, r3⟩ := to_uniform_inst d a b hd ha hb hs
  unfold Ep.weekdayIn; rw [r1]; simp only
  rw [weekday_of_duration r r2, r3]

/-! ### next / previous: see the end of the file (own-calendar semantics since fix 2e58fb7) -/

/-- UTC accessor: the weekday of a UTC epoch is the civil weekday of its UTC date … -/
theorem weekday_utc_own_scale (d : Dur) (hd : d.Canon) :
    (Ep.mk d .UTC).weekdayIn .UTC = some ((d.val / 86400000000000) % 7) := by
  unfold Ep.weekdayIn Ep.to toTimeScale
  rw [if_pos rfl]; simp only
  rw [weekday_of_duration d hd]

/-- … and it stays that weekday when the same instant is held in any uniform scale: for a UTC epoch
    `d` re-expressed in scale `a`, `weekday_utc` is still the civil weekday of the UTC date of `d`
    (TAI → UTC inverts UTC → TAI, C06) -/
theorem weekday_utc_of_converted (d : Dur) (a : TS) (hd : d.Canon) (ha : a.isUniform = true) (hs : Safe d.val) :
    ∃ e, (Ep.mk d .UTC).to a = some e ∧ e.weekdayIn .UTC = some ((d.val / 86400000000000) % 7) := by
  obtain ⟨r, r1, r2, r3⟩ := to_uniform_inst d .UTC a hd rfl ha hs
  refine ⟨_, r1, ?_⟩
  have hsd := hs
  unfold Safe DMIN DMAX at hs; simp only [NPCs_eq] at hs
  obtain ⟨p, p1, p2⟩ := Hifi.C06.utc_tai_utc_round_trip d hd (by unfold DMAX; simp only [NPCs_eq]; omega)
    (by unfold DMIN; simp only [NPCs_eq]; omega)
  -- the TAI duration of the converted epoch is the same `p`
  have hpc : ∃ pc, toTaiDur builtin d .UTC = some pc ∧ pc.Canon ∧ pc.val = instV .UTC d.val := toTaiDur_inst d .UTC hd rfl hsd
  obtain ⟨pc, pc1, pc2, pc3⟩ := hpc
  have hpp : pc = p := by rw [p1] at pc1; injection pc1 with h; exact h.symm
  subst hpp
  have hau : a ≠ .UTC := by intro h; subst h; simp [TS.isUniform] at ha
  obtain ⟨q, q1, q2, q3⟩ := toTaiDur_uniform builtin r a r2 ha
  have hi := instV_bounds .UTC d.val
  have ho := off_bounds a
  simp only [NPCs_eq] at hi ho
  have hq : q = pc := by
    apply canon_unique q pc q2 pc2
    rw [q3, r3, pc3, clampD_mid] <;> omega
  have hto : (Ep.mk r a).to .UTC = some ⟨d, .UTC⟩ := by
    unfold Ep.to toTimeScale
    simp only
    rw [if_neg (by intro h; exact hau h.symm)]
    simp only [q1, hq, p2]
  unfold Ep.weekdayIn; rw [hto]; simp only
  rw [weekday_of_duration d hd]

-- non-vacuity: the last nanosecond of Saturday 2023-05-06 TAI (the witness of repaired defect D17) is a Saturday
example : (Dur.mk 1 736646399999999999).Canon ∧ weekdayOfDur ⟨1, 736646399999999999⟩ = 5 := by
  unfold Dur.Canon; simp only [NPC_eq]; decide

end Hifi.C16

/-! ### `weekday_in_time_scale` after fix 151cc8f: the weekday of the calendar date in the target scale -/

namespace Hifi.C16
open Hifi Hifi.Spec

/-- the calendar offsets of the nine scales, as values (pinned in C08 `gregOff_pinned` to the reference dates of the
    specification calendar) -/
theorem gregOff_canon_val (ts : TS) :
    (Cal.gregorianEpochOffset ts).Canon ∧ 0 ≤ (Cal.gregorianEpochOffset ts).val ∧
    (Cal.gregorianEpochOffset ts).val ≤ 3345062400000000000 := by
  have h := Cal.gregOff_val ts
  have r := Cal.refOffset_range ts
  exact ⟨h.1, by rw [h.2]; exact r.1, by rw [h.2]; exact r.2⟩

/-- the weekday the code reports for a re-expressed count `x` in scale `ts` is the weekday of the CIVIL day count
    (count + the scale's reference date-time, whole days since Monday 1900-01-01), whenever no bound is hit -/
theorem weekday_civil_of_count (x : Dur) (ts : TS) (hx : x.Canon)
    (hr : DMIN ≤ x.val + (Cal.gregorianEpochOffset ts).val ∧ x.val + (Cal.gregorianEpochOffset ts).val ≤ DMAX) :
    weekdayOfDur (Dur.add x (Cal.gregorianEpochOffset ts))
      = ((x.val + (Cal.gregorianEpochOffset ts).val) / 86400000000000) % 7 := by
  have hg := (gregOff_canon_val ts).1
  have ha := add_spec x _ hx hg
  rw [weekday_of_duration _ ha.1, ha.2]
  unfold DMIN DMAX at hr; simp only [NPCs_eq] at hr
  rw [clampD_mid (by omega) (by omega)]

/-- for TAI, UTC and TT the calendar offset is zero: the civil weekday IS the weekday of the count, so the
    theorems above (stated with `weekdayIn`) are about the repaired code as well -/
theorem weekday_civil_eq_count (e : Ep) (ts : TS) (h : ts = .TAI ∨ ts = .UTC ∨ ts = .TT)
    (hc : ∀ x, e.to ts = some x → x.dur.Canon) :
    e.weekdayInCivil ts = e.weekdayIn ts := by
  unfold Ep.weekdayInCivil Ep.weekdayIn
  cases hto : e.to ts with
  | none => rfl
  | some x =>
    have hx := hc x hto
    have h0 : Cal.gregorianEpochOffset ts = ⟨0, 0⟩ := by rcases h with h | h | h <;> subst h <;> decide
    have hz : (⟨0, 0⟩ : Dur).Canon := by unfold Dur.Canon; simp only [NPC_eq]; omega
    have ha := add_spec x.dur ⟨0, 0⟩ hx hz
    have hv : (Dur.add x.dur ⟨0, 0⟩).val = x.dur.val := by
      rw [ha.2]
      have hr := canon_range x.dur hx
      unfold DMIN DMAX at hr; simp only [NPCs_eq] at hr
      have : (⟨0, 0⟩ : Dur).val = 0 := by unfold Dur.val valP; simp
      rw [this, Int.add_zero, clampD_mid (by omega) (by omega)]
    have : Dur.add x.dur ⟨0, 0⟩ = x.dur := canon_unique _ _ ha.1 hx hv
    simp only [h0, this]

/-- every non-dynamical epoch, every uniform target scale (GNSS scales included, whose reference days are NOT
    Mondays — Sunday 1980-01-06 for GPST): `weekday_in_time_scale` is the weekday of the civil day count of the
    instant in that scale -/
theorem weekday_in_uniform_civil (d : Dur) (a b : TS) (hd : d.Canon) (ha : a.nonDyn = true) (hb : b.isUniform = true)
    (hs : Safe d.val) (hs6 : DMIN + 6 * NPCs ≤ d.val ∧ d.val ≤ DMAX - 6 * NPCs) :
    (Ep.mk d a).weekdayInCivil b =
      some (((instV a d.val - off b + (Cal.gregorianEpochOffset b).val) / 86400000000000) % 7) := by
  obtain ⟨r, r1, r2, r3⟩ := to_uniform_inst d a b hd ha hb hs
  unfold Ep.weekdayInCivil; rw [r1]; simp only
  have hg := gregOff_canon_val b
  have hob := off_bounds b
  have hrange : DMIN ≤ r.val + (Cal.gregorianEpochOffset b).val ∧ r.val + (Cal.gregorianEpochOffset b).val ≤ DMAX := by
    have hinst := instV_bounds a d.val
    unfold Safe at hs
    rw [r3]
    unfold DMIN DMAX at *; simp only [NPCs_eq] at *
    omega
  rw [weekday_civil_of_count r b r2 hrange, r3]

/-- the GPST reference epoch, 1980-01-06, is a Sunday (6), not a Monday: decided on the model -/
example : (Ep.mk ⟨0, 0⟩ .GPST).weekdayInCivil .GPST = some 6 ∧ (Ep.mk ⟨0, 0⟩ .GPST).weekdayIn .GPST = some 0 := by decide


/-! ### `next` / `previous` (since fix 2e58fb7: weekday and whole days on the epoch's OWN calendar) — all nine scales -/

/-- own-calendar weekday of an epoch: the weekday of its civil day count -/
theorem weekdayOwn_spec (d : Dur) (ts : TS) (hd : d.Canon)
    (hr : DMIN ≤ d.val + (Cal.gregorianEpochOffset ts).val ∧ d.val + (Cal.gregorianEpochOffset ts).val ≤ DMAX) :
    (Ep.mk d ts).weekdayOwn = ((d.val + (Cal.gregorianEpochOffset ts).val) / 86400000000000) % 7 :=
  weekday_civil_of_count d ts hd hr

/-- **`next`**, EVERY time scale (ET/TDB and the GNSS scales included, before the reference as well): the result is
    the epoch plus k whole days of its own count, 1 ≤ k ≤ 7, same scale, and its calendar date in that scale falls on
    the requested weekday.  No hypothesis about leap seconds: the days are counted on the calendar the weekday is
    taken from (before the fix the weekday came from the TAI date, and a UTC epoch across an insertion could land on
    the requested weekday in neither calendar). -/
theorem next_spec_own (d : Dur) (ts : TS) (w : Int) (hd : d.Canon) (hw : 0 ≤ w ∧ w ≤ 6)
    (hlo : DMIN ≤ d.val) (hhi : d.val + (Cal.gregorianEpochOffset ts).val + 7 * 86400000000000 ≤ DMAX) :
    ∃ r k, (Ep.mk d ts).next w = some ⟨r, ts⟩ ∧ r.Canon ∧ 1 ≤ k ∧ k ≤ 7 ∧
      r.val = d.val + k * 86400000000000 ∧ (Ep.mk r ts).weekdayOwn = w := by
  have hg := gregOff_canon_val ts
  generalize hgv : (Cal.gregorianEpochOffset ts).val = g at hg hhi
  have hr0 : DMIN ≤ d.val + (Cal.gregorianEpochOffset ts).val ∧ d.val + (Cal.gregorianEpochOffset ts).val ≤ DMAX := by
    rw [hgv]; unfold DMIN DMAX at *; simp only [NPCs_eq] at *; omega
  have hcur := weekdayOwn_spec d ts hd hr0
  rw [hgv] at hcur
  unfold Ep.next Ep.nextOwn
  simp only [hcur]
  have hc : 0 ≤ ((d.val + g) / 86400000000000) % 7 ∧ ((d.val + g) / 86400000000000) % 7 ≤ 6 := by omega
  have hdiff := diff_weekdays (((d.val + g) / 86400000000000) % 7) w hc hw
  have hz : Dur.ZERO.Canon := by unfold Dur.Canon Dur.ZERO; simp only [NPC_eq]; decide
  have h7 := unitMulI64_spec Gen.NANOSECONDS_PER_DAY 7 (by unfold unitFactors; simp) (by decide)
  have h7v : (Dur.unitMulI64 Gen.NANOSECONDS_PER_DAY 7).val = 7 * 86400000000000 := by
    rw [h7.2, clampD_mid (x := 7 * Gen.NANOSECONDS_PER_DAY) (by decide) (by decide)]
  unfold DMIN DMAX at *; simp only [NPCs_eq] at *
  by_cases he : Dur.eqb (wdDiff (((d.val + g) / 86400000000000) % 7) w) Dur.ZERO = true
  · rw [if_pos he]
    have hv := (eqb_spec _ _ hdiff.1 hz).mp he
    have hzv : Dur.ZERO.val = 0 := by decide
    rw [hzv, hdiff.2] at hv
    have hk : (w - ((d.val + g) / 86400000000000) % 7) % 7 = 0 := by omega
    have ha := add_spec d _ hd h7.1
    have hrv : (Dur.add d (Dur.unitMulI64 Gen.NANOSECONDS_PER_DAY 7)).val = d.val + 7 * 86400000000000 := by
      rw [ha.2, h7v, clampD_mid (by omega) (by omega)]
    refine ⟨_, 7, rfl, ha.1, by omega, by omega, hrv, ?_⟩
    rw [weekdayOwn_spec _ ts ha.1 (by rw [hrv, hgv]; unfold DMIN DMAX; simp only [NPCs_eq]; omega), hrv, hgv]
    omega
  · rw [if_neg he]
    have hv : ¬ ((wdDiff (((d.val + g) / 86400000000000) % 7) w).val = 0) := by
      intro h0; apply he; apply (eqb_spec _ _ hdiff.1 hz).mpr; left; rw [h0]; decide
    rw [hdiff.2] at hv
    have hk : 1 ≤ (w - ((d.val + g) / 86400000000000) % 7) % 7 ∧ (w - ((d.val + g) / 86400000000000) % 7) % 7 ≤ 6 := by omega
    have ha := add_spec d _ hd hdiff.1
    have hrv : (Dur.add d (wdDiff (((d.val + g) / 86400000000000) % 7) w)).val
        = d.val + ((w - ((d.val + g) / 86400000000000) % 7) % 7) * 86400000000000 := by
      rw [ha.2, hdiff.2, clampD_mid (by omega) (by omega)]
    refine ⟨_, (w - ((d.val + g) / 86400000000000) % 7) % 7, rfl, ha.1, hk.1, by omega, hrv, ?_⟩
    rw [weekdayOwn_spec _ ts ha.1 (by rw [hrv, hgv]; unfold DMIN DMAX; simp only [NPCs_eq]; omega), hrv, hgv]
    omega

/-- **`previous`**, every time scale: k whole days earlier, 1 ≤ k ≤ 7, on the requested weekday of the own calendar -/
theorem previous_spec_own (d : Dur) (ts : TS) (w : Int) (hd : d.Canon) (hw : 0 ≤ w ∧ w ≤ 6)
    (hlo : DMIN ≤ d.val - 7 * 86400000000000) (hhi : d.val + (Cal.gregorianEpochOffset ts).val ≤ DMAX) :
    ∃ r k, (Ep.mk d ts).previous w = some ⟨r, ts⟩ ∧ r.Canon ∧ 1 ≤ k ∧ k ≤ 7 ∧
      r.val = d.val - k * 86400000000000 ∧ (Ep.mk r ts).weekdayOwn = w := by
  have hg := gregOff_canon_val ts
  generalize hgv : (Cal.gregorianEpochOffset ts).val = g at hg hhi
  have hr0 : DMIN ≤ d.val + (Cal.gregorianEpochOffset ts).val ∧ d.val + (Cal.gregorianEpochOffset ts).val ≤ DMAX := by
    rw [hgv]; unfold DMIN DMAX at *; simp only [NPCs_eq] at *; omega
  have hcur := weekdayOwn_spec d ts hd hr0
  rw [hgv] at hcur
  unfold Ep.previous Ep.previousOwn
  simp only [hcur]
  have hc : 0 ≤ ((d.val + g) / 86400000000000) % 7 ∧ ((d.val + g) / 86400000000000) % 7 ≤ 6 := by omega
  have hdiff := diff_weekdays w (((d.val + g) / 86400000000000) % 7) hw hc
  have hz : Dur.ZERO.Canon := by unfold Dur.Canon Dur.ZERO; simp only [NPC_eq]; decide
  have h7 := unitMulI64_spec Gen.NANOSECONDS_PER_DAY 7 (by unfold unitFactors; simp) (by decide)
  have h7v : (Dur.unitMulI64 Gen.NANOSECONDS_PER_DAY 7).val = 7 * 86400000000000 := by
    rw [h7.2, clampD_mid (x := 7 * Gen.NANOSECONDS_PER_DAY) (by decide) (by decide)]
  unfold DMIN DMAX at *; simp only [NPCs_eq] at *
  by_cases he : Dur.eqb (wdDiff w (((d.val + g) / 86400000000000) % 7)) Dur.ZERO = true
  · rw [if_pos he]
    have hv := (eqb_spec _ _ hdiff.1 hz).mp he
    have hzv : Dur.ZERO.val = 0 := by decide
    rw [hzv, hdiff.2] at hv
    have hk : (((d.val + g) / 86400000000000) % 7 - w) % 7 = 0 := by omega
    have ha := sub_spec d _ hd h7.1
    have hrv : (Dur.sub d (Dur.unitMulI64 Gen.NANOSECONDS_PER_DAY 7)).val = d.val - 7 * 86400000000000 := by
      rw [ha.2, h7v, clampD_mid (by omega) (by omega)]
    refine ⟨_, 7, rfl, ha.1, by omega, by omega, hrv, ?_⟩
    rw [weekdayOwn_spec _ ts ha.1 (by rw [hrv, hgv]; unfold DMIN DMAX; simp only [NPCs_eq]; omega), hrv, hgv]
    omega
  · rw [if_neg he]
    have hv : ¬ ((wdDiff w (((d.val + g) / 86400000000000) % 7)).val = 0) := by
      intro h0; apply he; apply (eqb_spec _ _ hdiff.1 hz).mpr; left; rw [h0]; decide
    rw [hdiff.2] at hv
    have hk : 1 ≤ (((d.val + g) / 86400000000000) % 7 - w) % 7 ∧ (((d.val + g) / 86400000000000) % 7 - w) % 7 ≤ 6 := by omega
    have ha := sub_spec d _ hd hdiff.1
    have hrv : (Dur.sub d (wdDiff w (((d.val + g) / 86400000000000) % 7))).val
        = d.val - ((((d.val + g) / 86400000000000) % 7 - w) % 7) * 86400000000000 := by
      rw [ha.2, hdiff.2, clampD_mid (by omega) (by omega)]
    refine ⟨_, (((d.val + g) / 86400000000000) % 7 - w) % 7, rfl, ha.1, hk.1, by omega, hrv, ?_⟩
    rw [weekdayOwn_spec _ ts ha.1 (by rw [hrv, hgv]; unfold DMIN DMAX; simp only [NPCs_eq]; omega), hrv, hgv]
    omega

/-- for a TAI epoch the own calendar is the TAI calendar: `next` lands on the requested `weekday()` -/
theorem next_spec (d : Dur) (w : Int) (hd : d.Canon) (hw : 0 ≤ w ∧ w ≤ 6) (hlo : DMIN ≤ d.val)
    (hhi : d.val + 7 * 86400000000000 ≤ DMAX) :
    ∃ r k, (Ep.mk d .TAI).next w = some ⟨r, .TAI⟩ ∧ r.Canon ∧ 1 ≤ k ∧ k ≤ 7 ∧
      r.val = d.val + k * 86400000000000 ∧ (r.val / 86400000000000) % 7 = w := by
  have h0 : (Cal.gregorianEpochOffset .TAI).val = 0 := by decide
  obtain ⟨r, k, h1, h2, h3, h4, h5, h6⟩ := next_spec_own d .TAI w hd hw hlo (by rw [h0]; omega)
  refine ⟨r, k, h1, h2, h3, h4, h5, ?_⟩
  have hr := canon_range r h2
  rw [weekdayOwn_spec r .TAI h2 (by rw [h0]; unfold DMIN DMAX at *; simp only [NPCs_eq] at *; omega), h0] at h6
  simpa using h6

-- non-vacuity: the 1972-01-01T23:59:56 UTC witness of the repaired defect now lands on a Wednesday of the UTC calendar
example : (Ep.mk ⟨0, 2272147195999999997⟩ .UTC).previous 2 = some ⟨⟨0, 2271887995999999997⟩, .UTC⟩ ∧
    (Ep.mk ⟨0, 2271887995999999997⟩ .UTC).weekdayOwn = 2 := by decide


/-! ### `next_weekday_at_midnight / _at_noon`, `previous_weekday_at_midnight / _at_noon` (Model/WeekdayAt.lean):
    `next(w)` / `previous(w)` followed by `with_hms_strict(h, 0, 0)` — formerly covered by the correspondence run only -/

/-- `with_hms_strict(h, 0, 0)`: the own-calendar midnight of the day that contains the epoch, plus h hours -/
theorem withHmsStrictCal_spec (d : Dur) (ts : TS) (h : Int) (hd : d.Canon) (hr : Cal.InCal d.val)
    (hh : 0 ≤ h ∧ h < 24) :
    ∃ r, withHmsStrictCal d ts h = .ok r ∧ r.Canon ∧
      r.val = d.val - (d.val + refOffsetNs ts.name) % 86400000000000 + h * 3600000000000 := by
  obtain ⟨y, mo, dd, hh', mi, s, ns, e1, hv, hy1, hy2, k1, k2, k3, k4, k5, k6, k7, k8, hval⟩ :=
    Cal.computeGregorian_spec d ts hd hr
  have hv' := (Cal.validDate_iff _).mp hv
  simp only at hv'
  have hcore := Cal.validCore_of_valid y mo dd 0 0 0 0 hv (by omega) (by omega) (by omega) (by omega)
  obtain ⟨mid, em, cm, vm⟩ := Cal.maybeFromGregorian_val y mo dd 0 0 0 0 ts ⟨hy1, hy2⟩ (by omega) (by omega)
    (by omega) (by omega) (by omega) (by omega) hcore
  obtain ⟨t, et, ct, vt⟩ := compose_spec 0 0 h 0 0 0 0 0
  have hor := Cal.refOffset_range ts
  unfold Cal.InCal at hr
  unfold withHmsStrictCal
  rw [e1]
  simp only [em, et]
  have ha := add_spec mid t cm ct
  refine ⟨_, rfl, ha.1, ?_⟩
  rw [ha.2, vm, vt]
  simp only [show ¬ ((0:Int) < 0) by omega, if_false]
  rw [clampD_mid (x := 1 * (0 * 86400000000000 + h * 3600000000000 + 0 * 60000000000 + 0 * 1000000000 + 0 * 1000000 + 0 * 1000 + 0)) (by omega) (by omega)]
  rw [clampD_mid (by omega) (by omega)]
  omega

/-- **`next_weekday_at_midnight` (h = 0) / `next_weekday_at_noon` (h = 12)**, every time scale, before the reference as
    well: the result is in the same scale, on the requested weekday of the epoch's OWN calendar, at h:00:00 of that
    civil day, strictly later than the epoch and less than eight days later. -/
theorem next_weekday_at_spec (d : Dur) (ts : TS) (w h : Int) (hd : d.Canon) (hw : 0 ≤ w ∧ w ≤ 6)
    (hh : 0 ≤ h ∧ h < 24) (hlo : -94000000000000000000000 ≤ d.val) (hhi : d.val ≤ 93000000000000000000000) :
    ∃ r, (Ep.mk d ts).nextWeekdayAt w h = .ok ⟨r, ts⟩ ∧ r.Canon ∧
      ((r.val + refOffsetNs ts.name) / 86400000000000) % 7 = w ∧
      (r.val + refOffsetNs ts.name) % 86400000000000 = h * 3600000000000 ∧
      d.val < r.val ∧ r.val < d.val + 8 * 86400000000000 := by
  have hg := Cal.gregOff_val ts
  have hor := Cal.refOffset_range ts
  obtain ⟨b, k, eb, cb, k1, k7, vb, wb⟩ := Hifi.C16.next_spec_own d ts w hd hw
    (by unfold DMIN; simp only [NPCs_eq]; omega) (by rw [hg.2]; unfold DMAX; simp only [NPCs_eq]; omega)
  have ebn : (Ep.mk d ts).nextOwn w = ⟨b, ts⟩ := by
    unfold Ep.next at eb; exact Option.some.inj eb
  rw [Hifi.C16.weekdayOwn_spec b ts cb (by rw [hg.2, vb]; unfold DMIN DMAX; simp only [NPCs_eq]; omega), hg.2] at wb
  obtain ⟨r, er, cr, vr⟩ := withHmsStrictCal_spec b ts h cb (by unfold Cal.InCal; omega) hh
  refine ⟨r, ?_, cr, ?_, ?_, ?_, ?_⟩
  · unfold Ep.nextWeekdayAt; rw [ebn]; simp only [er, resEp]
  all_goals (rw [vr]; omega)

/-- **`previous_weekday_at_midnight` / `_at_noon`**: same scale, requested weekday of the own calendar, h:00:00 of that
    civil day, strictly earlier than the epoch and less than eight days earlier. -/
theorem previous_weekday_at_spec (d : Dur) (ts : TS) (w h : Int) (hd : d.Canon) (hw : 0 ≤ w ∧ w ≤ 6)
    (hh : 0 ≤ h ∧ h < 24) (hlo : -93000000000000000000000 ≤ d.val) (hhi : d.val ≤ 94000000000000000000000) :
    ∃ r, (Ep.mk d ts).previousWeekdayAt w h = .ok ⟨r, ts⟩ ∧ r.Canon ∧
      ((r.val + refOffsetNs ts.name) / 86400000000000) % 7 = w ∧
      (r.val + refOffsetNs ts.name) % 86400000000000 = h * 3600000000000 ∧
      r.val < d.val ∧ d.val < r.val + 8 * 86400000000000 := by
  have hg := Cal.gregOff_val ts
  have hor := Cal.refOffset_range ts
  obtain ⟨b, k, eb, cb, k1, k7, vb, wb⟩ := Hifi.C16.previous_spec_own d ts w hd hw
    (by unfold DMIN; simp only [NPCs_eq]; omega) (by rw [hg.2]; unfold DMAX; simp only [NPCs_eq]; omega)
  have ebn : (Ep.mk d ts).previousOwn w = ⟨b, ts⟩ := by
    unfold Ep.previous at eb; exact Option.some.inj eb
  rw [Hifi.C16.weekdayOwn_spec b ts cb (by rw [hg.2, vb]; unfold DMIN DMAX; simp only [NPCs_eq]; omega), hg.2] at wb
  obtain ⟨r, er, cr, vr⟩ := withHmsStrictCal_spec b ts h cb (by unfold Cal.InCal; omega) hh
  refine ⟨r, ?_, cr, ?_, ?_, ?_, ?_⟩
  · unfold Ep.previousWeekdayAt; rw [ebn]; simp only [er, resEp]
  all_goals (rw [vr]; omega)


/-- the hypotheses are inhabited, before the GPST reference AND before 1900: Saturday 1899-12-30T16:59:41 on the GPST
    calendar, next Monday at noon = 1900-01-01T12:00:00 -/
example : (Ep.mk ⟨-1, 3155760000000000000 - 2524953619000000000 - 111600000000000⟩ .GPST).nextWeekdayAt 0 12
    = .ok ⟨⟨-1, 3155760000000000000 - 2524953619000000000 - 111600000000000 + 154800000000000 + 19000000000⟩, .GPST⟩ := by
  decide +kernel

end Hifi.C16
