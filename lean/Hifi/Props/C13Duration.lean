import Hifi.Lemmas.DurText
/-
  C13 (part): `Duration::from_str` is total.

  The model `parseDurationIdx` is byte-indexed: every `str` slice of the Rust code is a `sliceB`
  whose out-of-range / non-boundary case is the explicit outcome `panic`, every array store checks
  its index, `-duration` is the model's `Dur.neg` (which has a `panic` arm for the i16 overflow of
  the plain negation).  The theorem quantifies over ALL lists of natural numbers — in particular all
  lists of Unicode scalar values, of any length.  Termination is by construction: the loop is a
  structural recursion over the characters (so the real loop is bounded by the input length).

  Trusted (measured by the harness ops `lex_i64`, `lex_f64`, not proved): `lexical_core::parse`
  returns `Ok`/`Err` for every byte string (it does not panic) — see INTEGRATION.md.
-/
namespace Hifi.C13Duration
open Hifi Hifi.DurText

/-- for every string whatsoever, `Duration::from_str` returns an error or a canonical duration;
    it never panics (no bad slice, no index out of bounds, no overflow in the final negation) -/
theorem from_str_total (s : List Nat) :
    parseDurationIdx s = .err ∨ ∃ r, parseDurationIdx s = .ok r ∧ r.Canon :=
  parseDurationIdx_total s

/-- the statement in the form of DESIGN §6 C13 -/
theorem from_str_never_panics (s : List Nat) : parseDurationIdx s ≠ .panic := by
  rcases parseDurationIdx_total s with h | ⟨r, h, _⟩ <;> rw [h] <;> simp

/-- the same for the two sub-parsers on their own -/
theorem parse_offset_never_panics (bs : List Nat) : parseOffset bs ≠ .panic := by
  rcases parseOffset_total bs with h | ⟨r, h, _⟩ <;> rw [h] <;> simp

theorem parse_duration_never_panics (cs : List Nat) : parseDuration cs ≠ .panic := by
  rcases parseDuration_total cs with h | ⟨r, h, _⟩ <;> rw [h] <;> simp

/-- the slots the table can address all exist (`decomposed[pos]` cannot be out of bounds) -/
theorem units_slots_in_range : ∀ e ∈ Gen.DUR_UNITS, e.2 < 7 := units_pos_lt7

-- non-vacuity: strings that panicked on earlier revisions of the code are now plain errors or values
-- ("-aé", "+éé", "-99 μs" — the last one is the Display of −99 µs and parses to it)
example : parseDurationIdx [45, 97, 233] = .err := by decide
example : parseDurationIdx [43, 233, 233] = .err := by decide

end Hifi.C13Duration
