import Hifi.Lemmas.Duration
/-
  C01  Duration arithmetic is exact to the nanosecond and saturates at the bounds.

  Every theorem quantifies over ALL canonical durations (every value the public constructors can
  produce: `fromParts_canon` below) and, where a factor occurs, all i64 values.
-/
namespace Hifi.C01
open Hifi Hifi.Spec

/-- the constants the arithmetic is proved against are the ones the property speaks of -/
theorem consts_pinned :
    NPC = 36525 * 86400 * 1000000000 ∧ NPC = NPCs ∧
    Gen.DURATION_MIN = (-32768, 0) ∧ Gen.DURATION_MAX = (32767, NPC) ∧
    Dur.MIN.val = DMIN ∧ Dur.MAX.val = DMAX := by decide

/-- every (i16, u64) pair handed to the constructor yields a canonical duration of the clamped value -/
theorem fromParts_canon (c ns : Int) (hc : -32768 ≤ c ∧ c ≤ 32767) (hn : 0 ≤ ns ∧ ns ≤ 18446744073709551615) :
    (Dur.fromParts c ns).Canon ∧ (Dur.fromParts c ns).val = clampD (valP c ns) :=
  fromParts_spec c ns ⟨hc.1, hc.2, hn.1, hn.2⟩

/-- `a + b` (and `+=`): canonical, exactly the clamped sum -/
theorem add_exact (a b : Dur) (ha : a.Canon) (hb : b.Canon) :
    (Dur.add a b).Canon ∧ (Dur.add a b).val = clampD (a.val + b.val) := add_spec a b ha hb

/-- `a - b` (and `-=`): canonical, exactly the clamped difference -/
theorem sub_exact (a b : Dur) (ha : a.Canon) (hb : b.Canon) :
    (Dur.sub a b).Canon ∧ (Dur.sub a b).val = clampD (a.val - b.val) := sub_spec a b ha hb

/-- `-a`: never panics; canonical, exactly the clamped negation -/
theorem neg_exact (a : Dur) (ha : a.Canon) :
    ∃ r, Dur.neg a = .ok r ∧ r.Canon ∧ r.val = clampD (-a.val) := neg_spec a ha

/-- `a.abs()`: never panics; canonical, exactly the clamped magnitude -/
theorem abs_exact (a : Dur) (ha : a.Canon) :
    ∃ r, Dur.abs a = .ok r ∧ r.Canon ∧ r.val = clampD (if a.val < 0 then -a.val else a.val) :=
  abs_spec a ha

-- non-vacuity: the hypotheses are met by non-trivial values on both sides of zero and at the bounds
example : (Dur.mk (-3) 17).Canon ∧ (Dur.mk 32767 NPC).Canon ∧ (Dur.mk (-32768) 0).Canon := by
  unfold Dur.Canon; simp only [NPC_eq]; decide

end Hifi.C01
