import Hifi.Lemmas.Duration
/-
  C01  Duration arithmetic is exact to the nanosecond and saturates at the bounds.

  Every theorem quantifies over ALL canonical durations (every value the public constructors can
  produce: `fromParts_canon` below) and, where a factor occurs, all i64 values.
-/
namespace Hifi.C01
open Hifi Hifi.Spec

/-- the constants the arithmetic is proved against are the ones the property speaks of -/
theorem consts_pinned :
    NPC = 36525 * 86400 * 1000000000 ∧ NPC = NPCs ∧
    Gen.DURATION_MIN = (-32768, 0) ∧ Gen.DURATION_MAX = (32767, NPC) ∧
    Dur.MIN.val = DMIN ∧ Dur.MAX.val = DMAX := by decide

/-- every (i16, u64) pair handed to the constructor yields a canonical duration of the clamped value -/
theorem fromParts_canon (c ns : Int) (hc : -32768 ≤ c ∧ c ≤ 32767) (hn : 0 ≤ ns ∧ ns ≤ 18446744073709551615) :
    (Dur.fromParts c ns).Canon ∧ (Dur.fromParts c ns).val = clampD (valP c ns) :=
  fromParts_spec c ns ⟨hc.1, hc.2, hn.1, hn.2⟩

/-- `a + b` (and `+=`): canonical, exactly the clamped sum -/
theorem add_exact (a b : Dur) (ha : a.Canon) (hb : b.Canon) :
    (Dur.add a b).Canon ∧ (Dur.add a b).val = clampD (a.val + b.val) := add_spec a b ha hb

/-- `a - b` (and `-=`): canonical, exactly the clamped difference -/
theorem sub_exact (a b : Dur) (ha : a.Canon) (hb : b.Canon) :
    (Dur.sub a b).Canon ∧ (Dur.sub a b).val = clampD (a.val - b.val) := sub_spec a b ha hb

/-- `-a`: never panics; canonical, exactly the clamped negation -/
theorem neg_exact (a : Dur) (ha : a.Canon) :
    ∃ r, Dur.neg a = .ok r ∧ r.Canon ∧ r.val = clampD (-a.val) := neg_spec a ha

/-- `a.abs()`: never panics; canonical, exactly the clamped magnitude -/
theorem abs_exact (a : Dur) (ha : a.Canon) :
    ∃ r, Dur.abs a = .ok r ∧ r.Canon ∧ r.val = clampD (if a.val < 0 then -a.val else a.val) :=
  abs_spec a ha

theorem clampD_unit (f : Int) (hf : f ∈ unitFactors) : clampD (1 * f) = f := by
  rw [unitFactors_eq] at hf
  simp only [List.mem_cons, List.not_mem_nil, or_false] at hf
  rcases hf with h | h | h | h | h | h | h | h | h <;> subst h <;> decide

/-- `n * unit` for each of the nine units and every i64: canonical, exactly the clamped product -/
theorem unit_times_i64_exact (f q : Int) (hf : f ∈ unitFactors) (hq : fitsI64 q = true) :
    (Dur.unitMulI64 f q).Canon ∧ (Dur.unitMulI64 f q).val = clampD (q * f) := unitMulI64_spec f q hf hq

/-- `a ± Unit` is `a ± (1 * unit)`: exactly the clamped sum with the unit's length -/
theorem add_unit_exact (a : Dur) (f : Int) (ha : a.Canon) (hf : f ∈ unitFactors) :
    (Dur.add a (Dur.unitMulI64 f 1)).Canon ∧ (Dur.add a (Dur.unitMulI64 f 1)).val = clampD (a.val + f) := by
  have hu := unitMulI64_spec f 1 hf (by decide)
  have := add_spec a _ ha hu.1
  refine ⟨this.1, ?_⟩
  rw [this.2, hu.2, clampD_unit f hf]

theorem sub_unit_exact (a : Dur) (f : Int) (ha : a.Canon) (hf : f ∈ unitFactors) :
    (Dur.sub a (Dur.unitMulI64 f 1)).Canon ∧ (Dur.sub a (Dur.unitMulI64 f 1)).val = clampD (a.val - f) := by
  have hu := unitMulI64_spec f 1 hf (by decide)
  have := sub_spec a _ ha hu.1
  refine ⟨this.1, ?_⟩
  rw [this.2, hu.2, clampD_unit f hf]

/-- `a * q`, `q * a` for every i64 `q`: canonical, exactly the clamped product — PARTIAL: outside the
    recorded defect class D1 (an operand with centuries ≤ -2 and a non-zero nanosecond part reaching
    `total_nanoseconds`).  The full statement (without `h1 h2`) is false of the code, see
    `mul_counterexample`. -/
theorem mulI64_exact_partial (a : Dur) (q : Int) (ha : a.Canon) (hq : fitsI64 q = true)
    (h1 : Dur.d1class a = false) (h2 : Dur.d1class (Dur.unitMulI64 1 q) = false) :
    (Dur.mulI64 a q).Canon ∧ (Dur.mulI64 a q).val = clampD (a.val * q) := mulI64_spec a q ha hq h1 h2

/-- `a / q` for every non-zero i64 `q`: never panics, truncates toward zero — PARTIAL on D1 as above. -/
theorem divI64_exact_partial (a : Dur) (q : Int) (ha : a.Canon) (hq : fitsI64 q = true) (hq0 : q ≠ 0)
    (h1 : Dur.d1class a = false) (h2 : Dur.d1class (Dur.unitMulI64 1 q) = false) :
    ∃ r, Dur.divI64 a q = .ok r ∧ r.Canon ∧ r.val = clampD (Int.tdiv a.val q) :=
  divI64_spec a q ha hq hq0 h1 h2

/-- whatever the operands (D1 class included), `*` and `/` never panic and return canonical values -/
theorem mulI64_canon (a : Dur) (q : Int) : (Dur.mulI64 a q).Canon := (fromTotal_spec _).1

/-- the D1 hypothesis cannot be dropped: the code (and its faithful model) get (-2 c + 1 ns) * 1 wrong -/
theorem mul_counterexample :
    ¬ ((Dur.mulI64 ⟨-2, 1⟩ 1).val = clampD ((Dur.mk (-2) 1).val * 1)) := by decide

/-- the D1 class is exactly "more than a century below zero, not on a century boundary" -/
theorem d1class_iff (a : Dur) (ha : a.Canon) :
    Dur.d1class a = true ↔ (a.val < -NPCs ∧ a.val % NPCs ≠ 0) := by
  obtain ⟨a1, a2, a3, a4⟩ := ha
  unfold Dur.d1class Dur.val valP
  simp only [NPC_eq, NPCs_eq, decide_eq_true_eq] at *
  omega

-- non-vacuity: the hypotheses are met by non-trivial values on both sides of zero and at the bounds
example : Dur.d1class ⟨-1, 5⟩ = false ∧ Dur.d1class ⟨-7, 0⟩ = false ∧ Dur.d1class (Dur.unitMulI64 1 (-5)) = false := by decide
example : (Dur.mk (-3) 17).Canon ∧ (Dur.mk 32767 NPC).Canon ∧ (Dur.mk (-32768) 0).Canon := by
  unfold Dur.Canon; simp only [NPC_eq]; decide

end Hifi.C01
