import Hifi.Props.C13Duration
import Hifi.Props.C13Epoch
import Hifi.Props.C13Format
/-
  C13 "Parsers are total: any string yields a value or an error, never a panic".

  The property's parsers are modelled in three files (byte-indexed models in which every potential
  panic of the Rust code — slice out of range or off a character boundary, integer overflow,
  `unwrap` on `None`/`Err`, array index, `unreachable!`/`todo!`, failed `assert!` — is an explicit
  outcome `.panic`, and every loop is structural recursion on the list of code points, so
  termination is part of the definitions being accepted by Lean):

  * `Model/DurText.lean`   `Duration::from_str`                      theorems in `Props/C13Duration.lean`
  * `Model/Txt.lean` `Epoch::from_gregorian_str`, `Epoch::from_str`, `TimeScale/Weekday/MonthName::from_str`
                                                                     theorems in `Props/C13Epoch.lean`
  * `Model/Efmt.lean`      `Format::from_str`, `Format::parse`, `Epoch::from_format_str`
                                                                     theorems in `Props/C13Format.lean`

  This file states the property once, over all of them, for EVERY list of code points (no ASCII,
  length or validity hypothesis).  The external number parsers (`lexical_core`) are parameters of
  the models (oracles / exact integer models whose contract the correspondence run probes).
-/
namespace Hifi.C13
open Hifi Hifi.Spec

/-- **Totality**: every parser of the property returns a value or an error on every string. -/
theorem parsers_never_panic (s : List Nat) :
    DurText.parseDurationIdx s ≠ .panic ∧
    Txt.fromGregorianStrIdx s ≠ .panic ∧
    Txt.epochFromStrIdx s ≠ .panic ∧
    Efmt.formatFromStr s ≠ .panic :=
  ⟨C13Duration.from_str_never_panics s, C13Epoch.from_gregorian_str_never_panics s,
   C13Epoch.from_str_never_panics s, C13Format.format_from_str_never_panics s⟩

/-- … and so does parsing an epoch with a given format, for all pairs (format string, input string) and
    for every format value of at most 16 items (every constructible format, every predefined constant),
    whatever the external float parser answers -/
theorem parse_with_format_never_panics (O : Efmt.Oracles) (text fmt : List Nat) :
    Efmt.fromFormatStr O text fmt ≠ .panic :=
  C13Format.from_format_str_never_panics O text fmt

theorem format_parse_never_panics (O : Efmt.Oracles) (f : Efmt.Format) (s : List Nat) (hwf : f.items.length ≤ 16) :
    Efmt.formatParse O f s ≠ .panic :=
  C13Format.format_parse_never_panics O f s hwf

/-- value-or-error, with the value well formed (canonical duration) -/
theorem duration_from_str_total (s : List Nat) :
    DurText.parseDurationIdx s = .err ∨ ∃ r, DurText.parseDurationIdx s = .ok r ∧ r.Canon :=
  C13Duration.from_str_total s

theorem epoch_parsers_total (s : List Nat) :
    (Txt.fromGregorianStrIdx s = .err ∨ ∃ e, Txt.fromGregorianStrIdx s = .ok e) ∧
    (Txt.epochFromStrIdx s = .err ∨ ∃ e, Txt.epochFromStrIdx s = .ok e) :=
  ⟨C13Epoch.from_gregorian_str_total s, C13Epoch.from_str_total s⟩

/-- time scale, weekday and month-name parsers: table lookups after `trim`, total, values in range -/
theorem enum_parsers_total (s : List Nat) :
    (Txt.tsFromStr s = none ∨ ∃ t, Txt.tsFromStr s = some t) ∧
    (Txt.weekdayFromStr s = none ∨ ∃ w, Txt.weekdayFromStr s = some w ∧ w < 7) ∧
    (Txt.monthFromStr s = none ∨ ∃ m, Txt.monthFromStr s = some m ∧ 1 ≤ m ∧ m ≤ 12) :=
  C13Epoch.enum_parsers_total s

/-- **Rejection**: well-formed text (any of the five forms: plain, `Z`, `Z SCALE`, offset, offset + scale;
    0–9 fractional digits) whose fields the specification calendar rejects (month 13, hour 24+, minute 60,
    second 61+, day beyond the month) is an error — outside the recorded class D10 (30/31 February of a
    leap year, accepted; pinned by `test_range`; counterexample `C13Epoch.d10_counterexample`), hence
    `_partial` -/
theorem rejects_out_of_range_partial (f : Form) (y mo d h mi s : Int) (nd : Nat) (frac : Int) (neg : Bool) (oh om : Int)
    (ts : TS) (hy : 0 ≤ y ∧ y ≤ 9999) (hmo : 0 ≤ mo ∧ mo < 100) (hd : 0 ≤ d ∧ d < 100) (hh : 0 ≤ h ∧ h < 100)
    (hmi : 0 ≤ mi ∧ mi < 100) (hs : 0 ≤ s ∧ s < 100) (hnd : nd ≤ 9) (hf : 0 ≤ frac ∧ frac < 10 ^ nd)
    (hoh : 0 ≤ oh ∧ oh < 100) (hom : 0 ≤ om ∧ om < 100)
    (hrej : mustReject iersLeapDates ⟨y, mo, d⟩ h mi (if s = 60 then 59 else s) (fracNs nd frac) = true ∨ h = 24)
    (hD10 : Cal.d10class y mo d = false) :
    Txt.fromGregorianStrIdx (renderText f ⟨y, mo, d⟩ h mi s nd frac neg oh om ts.name) = .err ∧
    ∀ dur, Txt.epochFromStrWith dur (renderText f ⟨y, mo, d⟩ h mi s nd frac neg oh om ts.name) = .err :=
  C13Epoch.rejects_out_of_range_partial f y mo d h mi s nd frac neg oh om ts hy hmo hd hh hmi hs hnd hf hoh hom hrej hD10

/-- the same clause through `Format::parse`: decided instances (month 13, day 32, hour 25, minute 60,
    30 February are errors, the valid text is a value) — tests of the model, labelled as such; the
    universal statement for formats is `format_parse_rejects_out_of_range_partial` below -/
theorem format_parse_rejects_out_of_range_instances :
    Efmt.formatParse C13Format.O0 (C13Format.fmtOf "%Y-%m-%d %H:%M:%S") (Cal.strCodes "2015-13-07 11:22:33") = .err ∧
    Efmt.formatParse C13Format.O0 (C13Format.fmtOf "%Y-%m-%d %H:%M:%S") (Cal.strCodes "2015-02-32 11:22:33") = .err ∧
    Efmt.formatParse C13Format.O0 (C13Format.fmtOf "%Y-%m-%d %H:%M:%S") (Cal.strCodes "2015-02-07 25:22:33") = .err ∧
    Efmt.formatParse C13Format.O0 (C13Format.fmtOf "%Y-%m-%d %H:%M:%S") (Cal.strCodes "2015-02-07 11:60:33") = .err ∧
    Efmt.formatParse C13Format.O0 (C13Format.fmtOf "%Y-%m-%d %H:%M:%S") (Cal.strCodes "2015-02-30 11:22:33") = .err ∧
    Efmt.formatParse C13Format.O0 (C13Format.fmtOf "%Y-%m-%d %H:%M:%S") (Cal.strCodes "2015-02-07 11:22:33") = .ok ⟨⟨1, 476536953000000000⟩, .UTC⟩ :=
  C13Format.rejects_out_of_range

/-- **Rejection through `Format::parse`**, universal over the numeric class of formats (`Efmt.numClass`: the seven
    numeric tokens in any order, all present, every item but the last followed by one or two non-numeric ASCII
    separators) and over every well-formed text (`C13Format.printed`: each field at the formatter's width, ANY
    values): fields the specification calendar rejects, or hour 24, are an error — outside D10, hence `_partial`
    (counterexample `C13Format.format_parse_d10_counterexample`).  Behind it: on such text `Format::parse` IS
    `maybe_from_gregorian` of the fields (`C13Format.format_parse_is_from_gregorian`), and what must be accepted
    parses to the specified instant (`C13Format.format_parse_accepts`). -/
theorem format_parse_rejects_out_of_range_partial (O : Efmt.Oracles) (f : Efmt.Format) (hc : Efmt.numClass f = true)
    (y mo d h mi s ns : Int)
    (hy : 0 ≤ y ∧ y ≤ 9999) (hmo : 0 ≤ mo ∧ mo < 100) (hd : 0 ≤ d ∧ d < 100) (hh : 0 ≤ h ∧ h < 100)
    (hmi : 0 ≤ mi ∧ mi < 100) (hs : 0 ≤ s ∧ s < 100) (hns : 0 ≤ ns ∧ ns < 1000000000)
    (hrej : mustReject iersLeapDates ⟨y, mo, d⟩ h mi s ns = true ∨ h = 24)
    (hD10 : Cal.d10class y mo d = false) :
    Efmt.formatParse O f (C13Format.printed f y mo d h mi s ns) = .err :=
  C13Format.format_parse_rejects_out_of_range_partial O f hc y mo d h mi s ns hy hmo hd hh hmi hs hns hrej hD10

end Hifi.C13
