import Hifi.Lemmas.Duration
/-
  C14  floor / ceil / round snap to multiples of the step, on the correct side.

  `Spec.sfloor/sceil/sround` are the property's definitions on plain integers; the first group of
  theorems shows they say what the English says, the second that the code computes them.
-/
namespace Hifi.C14
open Hifi Hifi.Spec

/-- absent saturation the spec floor is a multiple of the step, not above x, and less than one
    step below it; it is the greatest such multiple -/
theorem sfloor_props (x s : Int) (hs : s ≠ 0) (h1 : DMIN ≤ x - x % s) (h2 : x ≤ DMAX) :
    sfloor x s % s = 0 ∧ sfloor x s ≤ x ∧ x < sfloor x s + (if s < 0 then -s else s) ∧
    (∀ m, m % s = 0 → m ≤ x → m ≤ sfloor x s) := by
  have hb := emod_bounds x s hs
  have hf : sfloor x s = x - x % s := by
    unfold sfloor; rw [if_neg hs]
    unfold DMIN DMAX at *; simp only [NPCs_eq] at *
    rw [clampD_mid] <;> omega
  rw [hf]
  refine ⟨?_, by omega, by omega, ?_⟩
  · have : x - x % s = s * (x / s) := by have := Int.mul_ediv_add_emod x s; omega
    rw [this]; exact Int.mul_emod_right s (x / s)
  · intro m hm hle
    -- m = s * k, x - x % s = s * (x / s); if m > x - x % s then m ≥ x - x % s + |s| > x
    have e1 : x - x % s = s * (x / s) := by have := Int.mul_ediv_add_emod x s; omega
    have e2 : m = s * (m / s) := by have := Int.mul_ediv_add_emod m s; omega
    by_cases hlt : m ≤ x - x % s
    · exact hlt
    · exfalso
      have hlt' : s * (x / s) < s * (m / s) := by omega
      have hstep : s * (x / s) + (if s < 0 then -s else s) ≤ s * (m / s) := by
        by_cases hsn : s < 0
        · rw [if_pos hsn]
          have : m / s < x / s := by
            by_cases hh : m / s < x / s
            · exact hh
            · exfalso
              have : x / s ≤ m / s := by omega
              have := Int.mul_le_mul_of_nonpos_left (a := s) (by omega) this
              omega
          have : m / s + 1 ≤ x / s := by omega
          have := Int.mul_le_mul_of_nonpos_left (a := s) (by omega) this
          rw [Int.mul_add] at this; omega
        · rw [if_neg hsn]
          have hsp : 0 < s := by omega
          have : x / s < m / s := by
            by_cases hh : x / s < m / s
            · exact hh
            · exfalso
              have : m / s ≤ x / s := by omega
              have := Int.mul_le_mul_of_nonneg_left this (by omega : 0 ≤ s)
              omega
          have : x / s + 1 ≤ m / s := by omega
          have := Int.mul_le_mul_of_nonneg_left this (by omega : 0 ≤ s)
          rw [Int.mul_add] at this; omega
      omega

/-- zero step yields zero -/
theorem zero_step (x : Int) : sfloor x 0 = 0 ∧ sceil x 0 = 0 ∧ sround x 0 = 0 := by
  have h1 : sfloor x 0 = 0 := by unfold sfloor; simp
  have h2 : sceil x 0 = 0 := by unfold sceil; rw [h1]; decide
  refine ⟨h1, h2, ?_⟩
  unfold sround; rw [h1, h2]; split <;> (split <;> rfl)

/-- `Duration::floor` — PARTIAL: operands outside defect class D1 -/
theorem floor_exact_partial (d s : Dur) (hd : d.Canon) (hs : s.Canon)
    (h1 : Dur.d1class d = false) (h2 : Dur.d1class s = false) :
    (Dur.floor d s).Canon ∧ (Dur.floor d s).val = sfloor d.val s.val := floor_spec d s hd hs h1 h2

/-- `Duration::ceil` = floor + |step| from the returned floor, saturated — PARTIAL on D1 -/
theorem ceil_exact_partial (d s : Dur) (hd : d.Canon) (hs : s.Canon)
    (h1 : Dur.d1class d = false) (h2 : Dur.d1class s = false) (h3 : Dur.d1class (Dur.floor d s) = false) :
    ∃ r, Dur.ceil d s = .ok r ∧ r.Canon ∧ r.val = sceil d.val s.val := ceil_spec d s hd hs h1 h2 h3

/-- `Duration::round`: the nearer of floor and ceil, ties up — PARTIAL on D1 -/
theorem round_exact_partial (d s : Dur) (hd : d.Canon) (hs : s.Canon)
    (h1 : Dur.d1class d = false) (h2 : Dur.d1class s = false) (h3 : Dur.d1class (Dur.floor d s) = false) :
    ∃ r, Dur.round d s = .ok r ∧ r.Canon ∧ r.val = sround d.val s.val := round_spec d s hd hs h1 h2 h3

/-- every duration not more than a century below zero is outside D1, and so is its floor for a step
    of at most a century: the partial theorems cover every epoch from one century before its
    reference onward -/
theorem d1_free_above_minus_century (d : Dur) (hd : d.Canon) (h : -NPCs ≤ d.val) : Dur.d1class d = false := by
  obtain ⟨a1, a2, a3, a4⟩ := hd
  unfold Dur.d1class Dur.val valP at *
  simp only [NPC_eq, NPCs_eq, decide_eq_false_iff_not] at *
  omega

/-- the D1 hypothesis cannot be dropped: floor((-2 c + 1 ns), 1 ns) must be the duration itself -/
theorem floor_counterexample :
    ¬ ((Dur.floor ⟨-2, 1⟩ ⟨0, 1⟩).val = sfloor (Dur.mk (-2) 1).val (Dur.mk 0 1).val) := by decide

example : sfloor (-5400) 3600 = -7200 ∧ sceil (-5400) 3600 = -3600 ∧ sround (-5400) 3600 = -3600 := by decide
example : sround 5400 3600 = 7200 ∧ sround 5399 3600 = 3600 := by decide

end Hifi.C14
