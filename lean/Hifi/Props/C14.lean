import Hifi.Lemmas.Duration
import Hifi.Model.Epoch
/-
  C14  floor / ceil / round snap to multiples of the step, on the correct side.

  `Spec.sfloor/sceil/sround` are the property's definitions on plain integers; the first group of
  theorems shows they say what the English says, the second that the code computes them.
-/
namespace Hifi.C14
open Hifi Hifi.Spec

/-- absent saturation the spec floor is a multiple of the step, not above x, and less than one
    step below it; it is the greatest such multiple -/
theorem sfloor_props (x s : Int) (hs : s ≠ 0) (h1 : DMIN ≤ x - x % s) (h2 : x ≤ DMAX) :
    sfloor x s % s = 0 ∧ sfloor x s ≤ x ∧ x < sfloor x s + (if s < 0 then -s else s) ∧
    (∀ m, m % s = 0 → m ≤ x → m ≤ sfloor x s) := by
  have hb := emod_bounds x s hs
  have hf : sfloor x s = x - x % s := by
    unfold sfloor; rw [if_neg hs]
    unfold DMIN DMAX at *; simp only [NPCs_eq] at *
    rw [clampD_mid] <;> omega
  rw [hf]
  refine ⟨?_, by omega, by omega, ?_⟩
  · have : x - x % s = s * (x / s) := by have := Int.mul_ediv_add_emod x s; omega
    rw [this]; exact Int.mul_emod_right s (x / s)
  · intro m hm hle
    -- m = s * k, x - x % s = s * (x / s); if m > x - x % s then m ≥ x - x % s + |s| > x
    have e1 : x - x % s = s * (x / s) := by have := Int.mul_ediv_add_emod x s; omega
    have e2 : m = s * (m / s) := by have := Int.mul_ediv_add_emod m s; omega
    by_cases hlt : m ≤ x - x % s
    · exact hlt
    · exfalso
      have hlt' : s * (x / s) < s * (m / s) := by omega
      have hstep : s * (x / s) + (if s < 0 then -s else s) ≤ s * (m / s) := by
        by_cases hsn : s < 0
        · rw [if_pos hsn]
          have : m / s < x / s := by
            by_cases hh : m / s < x / s
            · exact hh
            · exfalso
              have : x / s ≤ m / s := by omega
              have := Int.mul_le_mul_of_nonpos_left (a := s) (by omega) this
              omega
          have : m / s + 1 ≤ x / s := by omega
          have := Int.mul_le_mul_of_nonpos_left (a := s) (by omega) this
          rw [Int.mul_add] at this; omega
        · rw [if_neg hsn]
          have hsp : 0 < s := by omega
          have : x / s < m / s := by
            by_cases hh : x / s < m / s
            · exact hh
            · exfalso
              have : m / s ≤ x / s := by omega
              have := Int.mul_le_mul_of_nonneg_left this (by omega : 0 ≤ s)
              omega
          have : x / s + 1 ≤ m / s := by omega
          have := Int.mul_le_mul_of_nonneg_left this (by omega : 0 ≤ s)
          rw [Int.mul_add] at this; omega
      omega

/-- a positive multiple of `s` is at least `|s|` -/
theorem mul_pos_ge_abs (s k : Int) (h0 : 0 < s * k) : (if s < 0 then -s else s) ≤ s * k := by
  by_cases hs : s < 0
  · rw [if_pos hs]
    have hk : k ≤ -1 := by
      by_cases hk : k ≤ -1
      · exact hk
      · exfalso
        have h := Int.mul_le_mul_of_nonpos_left (a := s) (b := k) (c := 0) (by omega) (by omega)
        omega
    have h := Int.mul_le_mul_of_nonpos_left (a := s) (b := -1) (c := k) (by omega) hk
    omega
  · rw [if_neg hs]
    have hk : 1 ≤ k := by
      by_cases hk : 1 ≤ k
      · exact hk
      · exfalso
        have h := Int.mul_le_mul_of_nonneg_left (a := k) (b := 0) (c := s) (by omega) (by omega)
        omega
    have h := Int.mul_le_mul_of_nonneg_left (a := 1) (b := k) (c := s) hk (by omega)
    omega

/-- absent saturation the spec ceil is floor + |s|: a multiple of the step, STRICTLY greater than x, at most
    one step above it, and the LEAST multiple strictly greater than x (the reading of the property text:
    for x itself a multiple, ceil x = x + |s|, not x) -/
theorem sceil_props (x s : Int) (hs : s ≠ 0) (h1 : DMIN ≤ x - x % s)
    (h2 : x - x % s + (if s < 0 then -s else s) ≤ DMAX) :
    sceil x s = sfloor x s + (if s < 0 then -s else s) ∧
    sceil x s % s = 0 ∧ x < sceil x s ∧ sceil x s ≤ x + (if s < 0 then -s else s) ∧
    (∀ m, m % s = 0 → x < m → sceil x s ≤ m) := by
  have hb := emod_bounds x s hs
  have hx : x ≤ DMAX := by split at h2 <;> split at hb <;> omega
  have hfp := sfloor_props x s hs h1 hx
  have hf : sfloor x s = x - x % s := by
    unfold sfloor; rw [if_neg hs]
    unfold DMIN DMAX at *; simp only [NPCs_eq] at *
    rw [clampD_mid] <;> omega
  have hc : sceil x s = x - x % s + (if s < 0 then -s else s) := by
    unfold sceil; rw [hf]
    unfold DMIN DMAX at *; simp only [NPCs_eq] at *
    rw [clampD_mid] <;> (split at h2 <;> split at hb <;> omega)
  have e1 : x - x % s = s * (x / s) := by have := Int.mul_ediv_add_emod x s; omega
  refine ⟨by rw [hc, hf], ?_, by rw [hc]; omega, by rw [hc]; omega, ?_⟩
  · rw [hc, e1]
    by_cases hsn : s < 0
    · rw [if_pos hsn, show s * (x / s) + -s = s * (x / s - 1) by rw [Int.mul_sub]; omega]
      exact Int.mul_emod_right s _
    · rw [if_neg hsn, show s * (x / s) + s = s * (x / s + 1) by rw [Int.mul_add]; omega]
      exact Int.mul_emod_right s _
  · intro m hm hlt
    have e2 : m = s * (m / s) := by have := Int.mul_ediv_add_emod m s; omega
    have hpos : 0 < s * (m / s - x / s) := by rw [Int.mul_sub]; omega
    have := mul_pos_ge_abs s (m / s - x / s) hpos
    rw [Int.mul_sub] at this
    rw [hc]; omega

/-- absent saturation the spec round is one of floor and ceil; it is the floor exactly when x is closer to the
    floor than half a step (2·(x − floor) < |s|), the ceil otherwise — so the tie 2·(x − floor) = |s| goes UP —
    and it is a nearest multiple: no multiple of the step is closer to x -/
theorem sround_props (x s : Int) (hs : s ≠ 0) (h1 : DMIN ≤ x - x % s)
    (h2 : x - x % s + (if s < 0 then -s else s) ≤ DMAX) :
    (sround x s = sfloor x s ↔ 2 * (x - sfloor x s) < (if s < 0 then -s else s)) ∧
    (sround x s = sceil x s ↔ (if s < 0 then -s else s) ≤ 2 * (x - sfloor x s)) ∧
    sround x s % s = 0 ∧
    (∀ m, m % s = 0 → (if sround x s - x < 0 then -(sround x s - x) else sround x s - x) ≤ (if m - x < 0 then -(m - x) else m - x)) := by
  have hb := emod_bounds x s hs
  have hx : x ≤ DMAX := by split at h2 <;> split at hb <;> omega
  have hfp := sfloor_props x s hs h1 hx
  have hcp := sceil_props x s hs h1 h2
  have hf : sfloor x s = x - x % s := by
    unfold sfloor; rw [if_neg hs]
    unfold DMIN DMAX at *; simp only [NPCs_eq] at *
    rw [clampD_mid] <;> omega
  have habs : 0 < (if s < 0 then -s else s) := by split <;> omega
  have hr : sround x s = if 2 * (x - sfloor x s) < (if s < 0 then -s else s) then sfloor x s else sceil x s := by
    unfold sround
    have hcx : ¬ (sceil x s - x < 0) := by omega
    rw [if_neg hcx]
    by_cases h : 2 * (x - sfloor x s) < (if s < 0 then -s else s)
    · rw [if_pos h, if_pos (by omega)]
    · rw [if_neg h, if_neg (by omega)]
  refine ⟨?_, ?_, ?_, ?_⟩
  · rw [hr]; constructor
    · intro h; by_cases hh : 2 * (x - sfloor x s) < (if s < 0 then -s else s)
      · exact hh
      · rw [if_neg hh] at h; omega
    · intro h; rw [if_pos h]
  · rw [hr]; constructor
    · intro h; by_cases hh : 2 * (x - sfloor x s) < (if s < 0 then -s else s)
      · rw [if_pos hh] at h; omega
      · omega
    · intro h; rw [if_neg (by omega)]
  · rw [hr]; by_cases h : 2 * (x - sfloor x s) < (if s < 0 then -s else s)
    · rw [if_pos h]; exact hfp.1
    · rw [if_neg h]; exact hcp.2.1
  · intro m hm
    have hle := hfp.2.2.2 m hm
    have hge := hcp.2.2.2.2 m hm
    rw [hr]
    by_cases hmx : m ≤ x
    · have := hle hmx
      split <;> split <;> split <;> omega
    · have := hge (by omega)
      split <;> split <;> split <;> omega

/-- zero step yields zero -/
theorem zero_step (x : Int) : sfloor x 0 = 0 ∧ sceil x 0 = 0 ∧ sround x 0 = 0 := by
  have h1 : sfloor x 0 = 0 := by unfold sfloor; simp
  have h2 : sceil x 0 = 0 := by unfold sceil; rw [h1]; decide
  refine ⟨h1, h2, ?_⟩
  unfold sround; rw [h1, h2]; split <;> (split <;> rfl)

/-- `Duration::floor` — PARTIAL: operands outside defect class D1 -/
theorem floor_exact_partial (d s : Dur) (hd : d.Canon) (hs : s.Canon)
    (h1 : Dur.d1class d = false) (h2 : Dur.d1class s = false) :
    (Dur.floor d s).Canon ∧ (Dur.floor d s).val = sfloor d.val s.val := floor_spec d s hd hs h1 h2

/-- `Duration::ceil` = floor + |step| from the returned floor, saturated — PARTIAL on D1 -/
theorem ceil_exact_partial (d s : Dur) (hd : d.Canon) (hs : s.Canon)
    (h1 : Dur.d1class d = false) (h2 : Dur.d1class s = false) (h3 : Dur.d1class (Dur.floor d s) = false) :
    ∃ r, Dur.ceil d s = .ok r ∧ r.Canon ∧ r.val = sceil d.val s.val := ceil_spec d s hd hs h1 h2 h3

/-- `Duration::round`: the nearer of floor and ceil, ties up — PARTIAL on D1 -/
theorem round_exact_partial (d s : Dur) (hd : d.Canon) (hs : s.Canon)
    (h1 : Dur.d1class d = false) (h2 : Dur.d1class s = false) (h3 : Dur.d1class (Dur.floor d s) = false) :
    ∃ r, Dur.round d s = .ok r ∧ r.Canon ∧ r.val = sround d.val s.val := round_spec d s hd hs h1 h2 h3

/-- every duration not more than a century below zero is outside D1, and so is its floor for a step
    of at most a century: the partial theorems cover every epoch from one century before its
    reference onward -/
theorem d1_free_above_minus_century (d : Dur) (hd : d.Canon) (h : -NPCs ≤ d.val) : Dur.d1class d = false := by
  obtain ⟨a1, a2, a3, a4⟩ := hd
  unfold Dur.d1class Dur.val valP at *
  simp only [NPC_eq, NPCs_eq, decide_eq_false_iff_not] at *
  omega

/-- a sufficient, readable condition for the third hypothesis of `ceil_exact_partial` / `round_exact_partial`
    (`d1class (floor d s) = false`): the SPEC floor is not more than a century below zero — e.g. d ≥ −1 century
    and a step that divides a century, or any d ≥ 0 -/
theorem floor_d1_free (d s : Dur) (hd : d.Canon) (hs : s.Canon)
    (h1 : Dur.d1class d = false) (h2 : Dur.d1class s = false) (hf : -NPCs ≤ sfloor d.val s.val) :
    Dur.d1class (Dur.floor d s) = false := by
  have h := floor_spec d s hd hs h1 h2
  exact d1_free_above_minus_century _ h.1 (by rw [h.2]; exact hf)

/-- … and that third hypothesis cannot be dropped either: d = −1 century + 5 ns (outside D1) with the step
    1.5 centuries (outside D1) has the floor −1.5 centuries = (−2 c, ½ c), which IS in D1, and `ceil` / `round`
    then go through `total_nanoseconds` of that floor and miss the spec -/
theorem ceil_round_floor_in_d1_counterexample :
    Dur.d1class ⟨-1, 5⟩ = false ∧ Dur.d1class ⟨1, 1577880000000000000⟩ = false ∧
    Dur.d1class (Dur.floor ⟨-1, 5⟩ ⟨1, 1577880000000000000⟩) = true ∧
    Dur.ceil ⟨-1, 5⟩ ⟨1, 1577880000000000000⟩ ≠ .ok (Dur.fromTotal (sceil (Dur.mk (-1) 5).val (Dur.mk 1 1577880000000000000).val)) := by
  decide +kernel

/-! ### the Epoch wrappers (`Epoch::floor/ceil/round`, src/epoch/ops.rs), all nine time scales -/

/-- the wrappers apply the `Duration` operation to the elapsed time in the epoch's own scale and keep the
    scale — for EVERY epoch, step and time scale (ET and TDB included), no hypothesis -/
theorem epoch_wrappers (e : Ep) (s : Dur) :
    (Ep.floor e s).dur = Dur.floor e.dur s ∧ (Ep.floor e s).ts = e.ts ∧
    Ep.ceil e s = (match Dur.ceil e.dur s with | .ok r => .ok ⟨r, e.ts⟩ | .err => .err | .panic => .panic) ∧
    Ep.round e s = (match Dur.round e.dur s with | .ok r => .ok ⟨r, e.ts⟩ | .err => .err | .panic => .panic) :=
  ⟨rfl, rfl, rfl, rfl⟩

/-- hence the property's statement for epochs — PARTIAL on D1 like the `Duration` theorems: in every one of the
    nine scales, for an elapsed time and a step outside D1 whose floor is outside D1 and no bound hit, the floored
    epoch is never later than the epoch, the ceiled one is strictly later (exactly one |step| after the floored
    one), the rounded one is the nearer of the two (ties up), all three keep the scale and lie a whole multiple of
    the step away from that scale's reference epoch (value 0) — before the reference epoch as well as after it
    (no sign condition on the elapsed time beyond D1) -/
theorem epoch_floor_ceil_round_partial (e : Ep) (s : Dur) (he : e.dur.Canon) (hs : s.Canon) (hs0 : s.val ≠ 0)
    (h1 : Dur.d1class e.dur = false) (h2 : Dur.d1class s = false) (h3 : Dur.d1class (Dur.floor e.dur s) = false)
    (hlo : DMIN ≤ e.dur.val - e.dur.val % s.val)
    (hhi : e.dur.val - e.dur.val % s.val + (if s.val < 0 then -s.val else s.val) ≤ DMAX) :
    ∃ c r, Ep.ceil e s = .ok c ∧ Ep.round e s = .ok r ∧
      (Ep.floor e s).ts = e.ts ∧ c.ts = e.ts ∧ r.ts = e.ts ∧
      (Ep.floor e s).dur.val % s.val = 0 ∧ c.dur.val % s.val = 0 ∧ r.dur.val % s.val = 0 ∧
      (Ep.floor e s).dur.val ≤ e.dur.val ∧ e.dur.val < c.dur.val ∧
      c.dur.val = (Ep.floor e s).dur.val + (if s.val < 0 then -s.val else s.val) ∧
      (r = Ep.floor e s ∨ r = c) ∧
      (r = Ep.floor e s ↔ 2 * (e.dur.val - (Ep.floor e s).dur.val) < (if s.val < 0 then -s.val else s.val)) := by
  have hb := emod_bounds e.dur.val s.val hs0
  have hx : e.dur.val ≤ DMAX := by split at hhi <;> split at hb <;> omega
  have hf := floor_spec e.dur s he hs h1 h2
  obtain ⟨c, c1, c2, c3⟩ := ceil_spec e.dur s he hs h1 h2 h3
  obtain ⟨r, r1, r2, r3⟩ := round_spec e.dur s he hs h1 h2 h3
  have pf := sfloor_props e.dur.val s.val hs0 hlo hx
  have pc := sceil_props e.dur.val s.val hs0 hlo hhi
  have pr := sround_props e.dur.val s.val hs0 hlo hhi
  refine ⟨⟨c, e.ts⟩, ⟨r, e.ts⟩, by unfold Ep.ceil; rw [c1], by unfold Ep.round; rw [r1], rfl, rfl, rfl, ?_⟩
  have hfd : (Ep.floor e s).dur.val = sfloor e.dur.val s.val := hf.2
  have hfe : Ep.floor e s = ⟨Dur.floor e.dur s, e.ts⟩ := rfl
  simp only [hfd, c3, r3]
  refine ⟨pf.1, pc.2.1, pr.2.2.1, pf.2.1, pc.2.2.1, pc.1, ?_, ?_⟩
  · by_cases h : 2 * (e.dur.val - sfloor e.dur.val s.val) < (if s.val < 0 then -s.val else s.val)
    · left
      have : r = Dur.floor e.dur s := canon_unique _ _ r2 hf.1 (by rw [r3, hf.2]; exact pr.1.mpr h)
      rw [hfe, this]
    · right
      have : r = c := canon_unique _ _ r2 c2 (by rw [r3, c3]; exact pr.2.1.mpr (by omega))
      rw [this]
  · rw [hfe, ← pr.1]
    constructor
    · intro h
      have : r = Dur.floor e.dur s := by injection h
      rw [← r3, this, hf.2]
    · intro h
      have : r = Dur.floor e.dur s := canon_unique _ _ r2 hf.1 (by rw [r3, hf.2]; exact h)
      rw [this]

-- non-vacuity: an ET epoch 30 years BEFORE its reference (J2000), step −90 minutes (negative step): every hypothesis holds
example : (Dur.mk (-1) 2208988800000000000).Canon ∧ (Dur.mk (-1) 3155754600000000000).Canon ∧
    (Dur.mk (-1) 3155754600000000000).val = -5400000000000 ∧
    Dur.d1class ⟨-1, 2208988800000000000⟩ = false ∧ Dur.d1class ⟨-1, 3155754600000000000⟩ = false ∧
    Dur.d1class (Dur.floor ⟨-1, 2208988800000000000⟩ ⟨-1, 3155754600000000000⟩) = false ∧
    (Ep.floor ⟨⟨-1, 2208988800000000000⟩, .ET⟩ ⟨-1, 3155754600000000000⟩).ts = .ET := by
  unfold Dur.Canon; simp only [NPC_eq]; decide +kernel

/-- the D1 hypothesis cannot be dropped: floor((-2 c + 1 ns), 1 ns) must be the duration itself -/
theorem floor_counterexample :
    ¬ ((Dur.floor ⟨-2, 1⟩ ⟨0, 1⟩).val = sfloor (Dur.mk (-2) 1).val (Dur.mk 0 1).val) := by decide

example : sfloor (-5400) 3600 = -7200 ∧ sceil (-5400) 3600 = -3600 ∧ sround (-5400) 3600 = -3600 := by decide
example : sround 5400 3600 = 7200 ∧ sround 5399 3600 = 3600 := by decide

end Hifi.C14
