import Hifi.Props.C13Epoch
/-
  Pseudo-property C13E: lets `./check C13E quick` run the totality stream of the EPOCH and ENUM
  parsers on its own (`Epoch::from_str`, `Epoch::from_gregorian_str`, `TimeScale::from_str`,
  `Weekday::from_str`, `MonthName::from_str`).  The lead merges the stream and the theorems of
  `Props/C13Epoch.lean` into C13; this file can then be deleted.
-/
namespace Hifi.C13E
open Hifi Hifi.Spec Hifi.Txt

theorem from_gregorian_str_never_panics (s : List Nat) : fromGregorianStrIdx s ≠ .panic :=
  Hifi.C13Epoch.from_gregorian_str_never_panics s

theorem from_str_never_panics (s : List Nat) : epochFromStrIdx s ≠ .panic :=
  Hifi.C13Epoch.from_str_never_panics s

theorem from_gregorian_str_total (s : List Nat) : fromGregorianStrIdx s = .err ∨ ∃ e, fromGregorianStrIdx s = .ok e :=
  Hifi.C13Epoch.from_gregorian_str_total s

theorem from_str_total (s : List Nat) : epochFromStrIdx s = .err ∨ ∃ e, epochFromStrIdx s = .ok e :=
  Hifi.C13Epoch.from_str_total s

theorem enum_parsers_total (s : List Nat) :
    (tsFromStr s = none ∨ ∃ t, tsFromStr s = some t) ∧
    (weekdayFromStr s = none ∨ ∃ w, weekdayFromStr s = some w ∧ w < 7) ∧
    (monthFromStr s = none ∨ ∃ m, monthFromStr s = some m ∧ 1 ≤ m ∧ m ≤ 12) :=
  Hifi.C13Epoch.enum_parsers_total s


theorem rejects_out_of_range_partial (f : Form) (y mo d h mi s : Int) (nd : Nat) (frac : Int) (neg : Bool) (oh om : Int)
    (ts : TS) (hy : 0 ≤ y ∧ y ≤ 9999) (hmo : 0 ≤ mo ∧ mo < 100) (hd : 0 ≤ d ∧ d < 100) (hh : 0 ≤ h ∧ h < 100)
    (hmi : 0 ≤ mi ∧ mi < 100) (hs : 0 ≤ s ∧ s < 100) (hnd : nd ≤ 9) (hf : 0 ≤ frac ∧ frac < 10 ^ nd)
    (hoh : 0 ≤ oh ∧ oh < 100) (hom : 0 ≤ om ∧ om < 100)
    (hrej : mustReject iersLeapDates ⟨y, mo, d⟩ h mi (if s = 60 then 59 else s) (fracNs nd frac) = true ∨ h = 24)
    (hD10 : Cal.d10class y mo d = false) :
    fromGregorianStrIdx (renderText f ⟨y, mo, d⟩ h mi s nd frac neg oh om ts.name) = .err ∧
    ∀ dur, epochFromStrWith dur (renderText f ⟨y, mo, d⟩ h mi s nd frac neg oh om ts.name) = .err :=
  Hifi.C13Epoch.rejects_out_of_range_partial f y mo d h mi s nd frac neg oh om ts hy hmo hd hh hmi hs hnd hf hoh hom hrej hD10

end Hifi.C13E
