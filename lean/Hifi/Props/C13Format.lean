import Hifi.Lemmas.Efmt
/-
  C13 (format part)  Parsers are total: `Format::from_str`, `Format::parse`,
  `Epoch::from_str_with_format`, `Epoch::from_format_str`.

  "For any input string whatsoever … parsing a format specification … and parsing an epoch with a
  given format terminates and returns either a value or an error: it never panics, overflows,
  indexes out of bounds or loops forever."

  The model (`Hifi/Model/Efmt.lean`) transcribes the code after the repairs c5931b6, 77ab25e, c137eb9;
  every Rust operation that can panic is an explicit `panic` outcome of the model: the array index
  `self.items[cur_item_idx]`, the three `str` slices (begin ≤ end ≤ len on char boundaries — they are
  `get(..)` + `Err` since c5931b6), the i32 product of the sub-second scaling, the `try_into().unwrap()`
  conversions to u8/u32, the negation of the time-zone duration, the `unreachable!()` arms, and
  whatever `maybe_from_gregorian` can do.  The theorems below say none of them is reachable — for ALL
  strings (lists of arbitrary code points, any length), all format values with at most 16 items, and
  ANY behaviour of the two external parsers/conversions the model takes as oracles
  (`lexical_core::parse::<f64>` for `%J`, the TAI weekday for `%w`).
  Termination is by construction: every loop of the model is a structural recursion on the
  character list (the real loops are bounded by the input length).
-/
namespace Hifi.C13Format
open Hifi Hifi.Efmt

/-- `Format::from_str` never panics (it only uses `chars().nth(k)`, never a byte index, and stores at
    `items[num_items]` only while `num_items < 16`) … -/
theorem format_from_str_never_panics (s : List Nat) : formatFromStr s ≠ .panic := by
  rcases formatFromStr_spec s with h | ⟨f, h, _⟩ <;> rw [h] <;> simp

/-- … and returns an error or a format with at most `MAX_TOKENS` = 16 items (the invariant the index
    `self.items[cur_item_idx]` of `Format::parse` relies on) -/
theorem format_from_str_total (s : List Nat) :
    formatFromStr s = .err ∨ ∃ f, formatFromStr s = .ok f ∧ f.items.length ≤ 16 := by
  rcases formatFromStr_spec s with h | ⟨f, h, hwf⟩
  · left; exact h
  · right; exact ⟨f, h, by unfold Format.wf at hwf; exact of_decide_eq_true hwf⟩

example : formatFromStr (Cal.strCodes "%Y-%m-%dT%H:%M:%S.%f %T") ≠ .err := by decide +kernel
example : formatFromStr (Cal.strCodes "%Y %q") = .err := by decide +kernel
/-- seventeen tokens are one too many -/
example : formatFromStr (Cal.strCodes "%Y%m%d%H%M%S%f%Y%m%d%H%M%S%f%Y%m%d") = .err := by decide +kernel

/-- TOTALITY of `Format::parse` / `Epoch::from_str_with_format`: any format value with ≤ 16 items
    (in particular every value `from_str` can build and every predefined constant), any text -/
theorem format_parse_never_panics (O : Oracles) (f : Format) (s : List Nat) (hwf : f.items.length ≤ 16) :
    formatParse O f s ≠ .panic :=
  formatParse_no_panic O f s (by unfold Format.wf; exact decide_eq_true hwf)

/-- TOTALITY of `Epoch::from_format_str`: any (text, format string) pair -/
theorem from_format_str_never_panics (O : Oracles) (text fmt : List Nat) : fromFormatStr O text fmt ≠ .panic :=
  fromFormatStr_no_panic O text fmt

/-- every predefined constant is a well-formed format value, so parsing with it is total -/
theorem consts_parse_total (O : Oracles) (s : List Nat) :
    ∀ p ∈ Gen.EFMT_CONSTS, ∃ f, Format.ofGen p.2 = some f ∧ formatParse O f s ≠ .panic := by
  have hall : ∀ p ∈ Gen.EFMT_CONSTS, ∃ f, Format.ofGen p.2 = some f ∧ f.wf = true := by decide +kernel
  intro p hp
  obtain ⟨f, hf, hwf⟩ := hall p hp
  exact ⟨f, hf, formatParse_no_panic O f s hwf⟩

/-- the invariant behind the unwraps: whatever the loop stores is within the `value_ok` ranges, so
    the conversions `decomposed[k].try_into().unwrap()` to u8 / u32 cannot fail -/
theorem stored_fields_in_range (O : Oracles) (f : Format) (s : List Nat) (it : Item) (st : St)
    (hwf : f.items.length ≤ 16)
    (h : parseLoop O f s (byteLen s) s 0 (St.init it) = .ok st) :
    0 ≤ st.mo ∧ st.mo ≤ 13 ∧ 0 ≤ st.d ∧ st.d ≤ 31 ∧ 0 ≤ st.h ∧ st.h ≤ 23 ∧ 0 ≤ st.mi ∧ st.mi ≤ 59 ∧
    0 ≤ st.s ∧ st.s ≤ 60 ∧ 0 ≤ st.ns ∧ st.ns ≤ 2147483647 ∧ 0 ≤ st.oh ∧ st.oh ≤ 23 ∧ 0 ≤ st.om ∧ st.om ≤ 59 :=
  (parseLoop_good O f s (byteLen s) (by unfold Format.wf; exact decide_eq_true hwf) s 0 (St.init it) (init_inv it)).2 st h

/-! ### well-formed text with out-of-range fields is rejected; the repaired panics are errors now -/

/-- oracles for closed examples (`%J` and `%w` do not occur in them) -/
def O0 : Oracles := ⟨fun _ => 0, fun _ => none⟩

def fmtOf (s : String) : Format := match formatFromStr (Cal.strCodes s) with | .ok f => f | _ => ⟨[]⟩

/-- month 13, day 32, hour 25, minute 60, 30 February are errors, never another date -/
theorem rejects_out_of_range :
    formatParse O0 (fmtOf "%Y-%m-%d %H:%M:%S") (Cal.strCodes "2015-13-07 11:22:33") = .err ∧
    formatParse O0 (fmtOf "%Y-%m-%d %H:%M:%S") (Cal.strCodes "2015-02-32 11:22:33") = .err ∧
    formatParse O0 (fmtOf "%Y-%m-%d %H:%M:%S") (Cal.strCodes "2015-02-07 25:22:33") = .err ∧
    formatParse O0 (fmtOf "%Y-%m-%d %H:%M:%S") (Cal.strCodes "2015-02-07 11:60:33") = .err ∧
    formatParse O0 (fmtOf "%Y-%m-%d %H:%M:%S") (Cal.strCodes "2015-02-30 11:22:33") = .err ∧
    formatParse O0 (fmtOf "%Y-%m-%d %H:%M:%S") (Cal.strCodes "2015-02-07 11:22:33") = .ok ⟨⟨1, 476536953000000000⟩, .UTC⟩ := by
  decide +kernel

/-- the inputs on which the code used to panic (defects D24a–f, repaired by c5931b6) are errors now:
    non-ASCII text (byte slicing), `%w` (`todo!()`), `%y` + 2000 overflow, ten sub-second digits,
    an unrepresentable year with `%j` (`expect`), text after the 16th token (`items[16]`) -/
theorem repaired_panics_are_errors :
    formatParse O0 (fmtOf "%Y-%m-%d") [233, 50, 48, 49, 53, 45, 48, 50, 45, 48, 55] = .err ∧
    formatParse O0 (fmtOf "%w %Y-%m-%d") (Cal.strCodes "6 2015-02-07") = .err ∧
    formatParse O0 (fmtOf "%y-%m-%d") (Cal.strCodes "2147483647-02-07") = .err ∧
    formatParse O0 (fmtOf "%Y-%m-%dT%H:%M:%S.%f") (Cal.strCodes "2015-02-07T11:22:33.0000000000") = .err ∧
    formatParse O0 (fmtOf "%Y-%j") (Cal.strCodes "9999999-038") = .err ∧
    formatParse O0 (fmtOf "%Y-%m-%d %H:%M:%S.%f %Y-%m-%d %H:%M:%S.%f %Y-%m")
      (Cal.strCodes "2015-02-07 11:22:33.000000001 2015-02-07 11:22:33.000000001 2015-02x") ≠ .panic := by
  decide +kernel

end Hifi.C13Format
