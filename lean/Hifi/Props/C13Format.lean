import Hifi.Lemmas.EfmtBack
/-
  C13 (format part)  Parsers are total: `Format::from_str`, `Format::parse`,
  `Epoch::from_str_with_format`, `Epoch::from_format_str`.

  "For any input string whatsoever … parsing a format specification … and parsing an epoch with a
  given format terminates and returns either a value or an error: it never panics, overflows,
  indexes out of bounds or loops forever."

  The model (`Hifi/Model/Efmt.lean`) transcribes the current code (`src/efmt/*`);
  every Rust operation that can panic is an explicit `panic` outcome of the model: the array index
  `self.items[cur_item_idx]`, the three `str` slices (begin ≤ end ≤ len on char boundaries — they are
  `get(..)` + `Err` since c5931b6), the i32 product of the sub-second scaling, the `try_into().unwrap()`
  conversions to u8/u32, the negation of the time-zone duration, the `unreachable!()` arms, and
  whatever `maybe_from_gregorian` can do.  The theorems below say none of them is reachable — for ALL
  strings (lists of arbitrary code points, any length), all format values with at most 16 items, and
  ANY behaviour of the two external parsers/conversions the model takes as oracles
  (`lexical_core::parse::<f64>` for `%J`, the TAI weekday for `%w`).
  Termination is by construction: every loop of the model is a structural recursion on the
  character list (the real loops are bounded by the input length).
-/
namespace Hifi.C13Format
open Hifi Hifi.Efmt

/-- `Format::from_str` never panics (it only uses `chars().nth(k)`, never a byte index, and stores at
    `items[num_items]` only while `num_items < 16`) … -/
theorem format_from_str_never_panics (s : List Nat) : formatFromStr s ≠ .panic := by
  rcases formatFromStr_spec s with h | ⟨f, h, _⟩ <;> rw [h] <;> simp

/-- … and returns an error or a format with at most `MAX_TOKENS` = 16 items (the invariant the index
    `self.items[cur_item_idx]` of `Format::parse` relies on) -/
theorem format_from_str_total (s : List Nat) :
    formatFromStr s = .err ∨ ∃ f, formatFromStr s = .ok f ∧ f.items.length ≤ 16 := by
  rcases formatFromStr_spec s with h | ⟨f, h, hwf⟩
  · left; exact h
  · right; exact ⟨f, h, by unfold Format.wf at hwf; exact of_decide_eq_true hwf⟩

example : formatFromStr (Cal.strCodes "%Y-%m-%dT%H:%M:%S.%f %T") ≠ .err := by decide +kernel
example : formatFromStr (Cal.strCodes "%Y %q") = .err := by decide +kernel
/-- seventeen tokens are one too many -/
example : formatFromStr (Cal.strCodes "%Y%m%d%H%M%S%f%Y%m%d%H%M%S%f%Y%m%d") = .err := by decide +kernel

/-- TOTALITY of `Format::parse` / `Epoch::from_str_with_format`: any format value with ≤ 16 items
    (in particular every value `from_str` can build and every predefined constant), any text -/
theorem format_parse_never_panics (O : Oracles) (f : Format) (s : List Nat) (hwf : f.items.length ≤ 16) :
    formatParse O f s ≠ .panic :=
  formatParse_no_panic O f s (by unfold Format.wf; exact decide_eq_true hwf)

/-- TOTALITY of `Epoch::from_format_str`: any (text, format string) pair -/
theorem from_format_str_never_panics (O : Oracles) (text fmt : List Nat) : fromFormatStr O text fmt ≠ .panic :=
  fromFormatStr_no_panic O text fmt

/-- every predefined constant is a well-formed format value, so parsing with it is total -/
theorem consts_parse_total (O : Oracles) (s : List Nat) :
    ∀ p ∈ Gen.EFMT_CONSTS, ∃ f, Format.ofGen p.2 = some f ∧ formatParse O f s ≠ .panic := by
  have hall : ∀ p ∈ Gen.EFMT_CONSTS, ∃ f, Format.ofGen p.2 = some f ∧ f.wf = true := by decide +kernel
  intro p hp
  obtain ⟨f, hf, hwf⟩ := hall p hp
  exact ⟨f, hf, formatParse_no_panic O f s hwf⟩

/-- the invariant behind the unwraps: whatever the loop stores is within the `value_ok` ranges, so
    the conversions `decomposed[k].try_into().unwrap()` to u8 / u32 cannot fail -/
theorem stored_fields_in_range (O : Oracles) (f : Format) (s : List Nat) (it : Item) (st : St)
    (hwf : f.items.length ≤ 16)
    (h : parseLoop O f s (byteLen s) s 0 (St.init it) = .ok st) :
    0 ≤ st.mo ∧ st.mo ≤ 13 ∧ 0 ≤ st.d ∧ st.d ≤ 31 ∧ 0 ≤ st.h ∧ st.h ≤ 23 ∧ 0 ≤ st.mi ∧ st.mi ≤ 59 ∧
    0 ≤ st.s ∧ st.s ≤ 60 ∧ 0 ≤ st.ns ∧ st.ns ≤ 2147483647 ∧ 0 ≤ st.oh ∧ st.oh ≤ 23 ∧ 0 ≤ st.om ∧ st.om ≤ 59 :=
  (parseLoop_good O f s (byteLen s) (by unfold Format.wf; exact decide_eq_true hwf) s 0 (St.init it) (init_inv it)).2 st h

/-! ### well-formed text with out-of-range fields is rejected; the repaired panics are errors now -/

/-- oracles for closed examples (`%J` and `%w` do not occur in them) -/
def O0 : Oracles := ⟨fun _ => none, fun _ => []⟩

def fmtOf (s : String) : Format := match formatFromStr (Cal.strCodes s) with | .ok f => f | _ => ⟨[]⟩

/-- month 13, day 32, hour 25, minute 60, 30 February are errors, never another date -/
theorem rejects_out_of_range :
    formatParse O0 (fmtOf "%Y-%m-%d %H:%M:%S") (Cal.strCodes "2015-13-07 11:22:33") = .err ∧
    formatParse O0 (fmtOf "%Y-%m-%d %H:%M:%S") (Cal.strCodes "2015-02-32 11:22:33") = .err ∧
    formatParse O0 (fmtOf "%Y-%m-%d %H:%M:%S") (Cal.strCodes "2015-02-07 25:22:33") = .err ∧
    formatParse O0 (fmtOf "%Y-%m-%d %H:%M:%S") (Cal.strCodes "2015-02-07 11:60:33") = .err ∧
    formatParse O0 (fmtOf "%Y-%m-%d %H:%M:%S") (Cal.strCodes "2015-02-30 11:22:33") = .err ∧
    formatParse O0 (fmtOf "%Y-%m-%d %H:%M:%S") (Cal.strCodes "2015-02-07 11:22:33") = .ok ⟨⟨1, 476536953000000000⟩, .UTC⟩ := by
  decide +kernel

/-- the inputs on which the code used to panic (defects D24a–f, repaired by c5931b6) are errors now:
    non-ASCII text (byte slicing), `%w` (`todo!()`), `%y` + 2000 overflow, ten sub-second digits,
    an unrepresentable year with `%j` (`expect`), text after the 16th token (`items[16]`) -/
theorem repaired_panics_are_errors :
    formatParse O0 (fmtOf "%Y-%m-%d") [233, 50, 48, 49, 53, 45, 48, 50, 45, 48, 55] = .err ∧
    formatParse O0 (fmtOf "%w %Y-%m-%d") (Cal.strCodes "6 2015-02-07") = .err ∧
    formatParse O0 (fmtOf "%y-%m-%d") (Cal.strCodes "2147483647-02-07") = .err ∧
    formatParse O0 (fmtOf "%Y-%m-%dT%H:%M:%S.%f") (Cal.strCodes "2015-02-07T11:22:33.0000000000") = .err ∧
    formatParse O0 (fmtOf "%Y-%j") (Cal.strCodes "9999999-038") = .err ∧
    formatParse O0 (fmtOf "%Y-%m-%d %H:%M:%S.%f %Y-%m-%d %H:%M:%S.%f %Y-%m")
      (Cal.strCodes "2015-02-07 11:22:33.000000001 2015-02-07 11:22:33.000000001 2015-02x") ≠ .panic := by
  decide +kernel

/-- a day of year names ONE date (fixes D46, D47): a month / day of the month written next to it must be the ones of
    that day of the year; the time of day — a second 60 included — is valid or not on THAT date and is counted as
    without `%j`; the weekday is compared with that date.  A final field of one character is read (fix D48).
    Decided instances — tests of the model, labelled as such. -/
theorem day_of_year_names_one_date :
    formatParse O0 (fmtOf "%Y-%m-%d %j") (Cal.strCodes "2015-06-30 001") = .err ∧
    formatParse O0 (fmtOf "%Y-%m-%d %j") (Cal.strCodes "2015-06-30 181") =
      formatParse O0 (fmtOf "%Y-%m-%d") (Cal.strCodes "2015-06-30") ∧
    formatParse O0 (fmtOf "%Y-%j %B") (Cal.strCodes "2015-181 July") = .err ∧
    formatParse O0 (fmtOf "%Y-%j %H:%M:%S") (Cal.strCodes "2012-182 23:59:60") =
      formatParse O0 (fmtOf "%Y-%m-%d %H:%M:%S") (Cal.strCodes "2012-06-30 23:59:60") ∧
    formatParse O0 (fmtOf "%Y-%j %H:%M:%S") (Cal.strCodes "2012-182 23:59:60") ≠ .err ∧
    formatParse O0 (fmtOf "%Y-%j %H:%M:%S") (Cal.strCodes "2012-365 23:59:60") = .err ∧
    formatParse O0 (fmtOf "%Y-%j %H:%M:%S %a") (Cal.strCodes "2016-366 23:59:60 Sun") = .err ∧
    formatParse O0 (fmtOf "%Y-%j %H:%M:%S %a") (Cal.strCodes "2016-366 23:59:60 Sat") =
      formatParse O0 (fmtOf "%Y-%m-%d %H:%M:%S") (Cal.strCodes "2016-12-31 23:59:60") ∧
    formatParse O0 (fmtOf "%Y-%m-%d %H") (Cal.strCodes "2015-02-07 5") =
      formatParse O0 (fmtOf "%Y-%m-%d %H") (Cal.strCodes "2015-02-07 05") ∧
    formatParse O0 (fmtOf "%Y-%m-%d %H") (Cal.strCodes "2015-02-07 5") ≠
      formatParse O0 (fmtOf "%Y-%m-%d %H") (Cal.strCodes "2015-02-07 00") ∧
    formatParse O0 (fmtOf "%Y-%j") (Cal.strCodes "2015-7") = formatParse O0 (fmtOf "%Y-%j") (Cal.strCodes "2015-007") := by
  decide +kernel

/-- the date the day-of-year arm of `Format::parse` derives (fix D46) is THE date of that day of the year: for every
    year and every day of year `n` within that year, with the leap-year test the code uses, the derived month and day
    are a valid date of the specification calendar whose day number is that of 1 January plus `n − 1` -/
theorem day_of_year_is_that_date (y n : Int) (h1 : 1 ≤ n) (h2 : n ≤ (if Spec.isLeap y = true then 366 else 365)) :
    Spec.validDate ⟨y, (ordinalGo (Cal.isGregorianValidCore y 2 29 0 0 0 0) 16 1 n).1,
      (ordinalGo (Cal.isGregorianValidCore y 2 29 0 0 0 0) 16 1 n).2⟩ = true ∧
    Spec.dayNumber ⟨y, (ordinalGo (Cal.isGregorianValidCore y 2 29 0 0 0 0) 16 1 n).1,
      (ordinalGo (Cal.isGregorianValidCore y 2 29 0 0 0 0) 16 1 n).2⟩ = Spec.dayNumber ⟨y, 1, 1⟩ + n - 1 := by
  rw [leapTest_eq]
  exact ordinal_date_spec y n h1 h2

/-! ### accept / reject through `Format::parse`: universal over the numeric class of formats

  The driver's verdict (`Drive/Efmt.lean`, `parseOp`: "an error whenever the fields READ from the text must be
  rejected") is proved here for the formats of `numClass` — the seven numeric tokens `%Y %m %d %H %M %S %f` in
  ANY order, all present, repetitions allowed, at most 16 items, every item but the last followed by one or two
  non-numeric ASCII separators — and EVERY text that is well formed for such a format: four digits for `%Y`, two for
  `%m %d %H %M %S`, nine for `%f`, with ANY values (month 00..99, …), valid or not.  Not covered by a theorem
  (correspondence + spec verdict only): name tokens, `%j`, `%T`, `%z`, fields of other widths, junk. -/

/-- the text of the field values in the layout of `f` (the formatter's own rendering of each field, `C19`) -/
def printed (f : Format) (y mo d h mi s ns : Int) : List Nat :=
  concatItems (numText ⟨y, mo, d, h, mi, s, ns⟩) f.items

example : printed (fmtOf "%d/%m/%Y %H:%M:%S.%f") 2015 13 7 11 22 33 5 = Cal.strCodes "07/13/2015 11:22:33.000000005" := by
  decide +kernel

/-- **`Format::parse` of printed fields is `Epoch::maybe_from_gregorian` of the fields** (UTC, no offset), for every
    format of the class and every printable field tuple except hour 24 — error for error, value for value, and
    never a panic.  What `maybe_from_gregorian` accepts, rejects and returns is C08's subject. -/
theorem format_parse_is_from_gregorian (O : Oracles) (f : Format) (hc : numClass f = true) (y mo d h mi s ns : Int)
    (hy : 0 ≤ y ∧ y ≤ 9999) (hmo : 0 ≤ mo ∧ mo < 100) (hd : 0 ≤ d ∧ d < 100) (hh : 0 ≤ h ∧ h < 100)
    (hmi : 0 ≤ mi ∧ mi < 100) (hs : 0 ≤ s ∧ s < 100) (hns : 0 ≤ ns ∧ ns < 1000000000) (h24 : h ≠ 24) :
    formatParse O f (printed f y mo d h mi s ns) =
      match Cal.maybeFromGregorian y mo d h mi s ns TS.UTC with
      | .ok dur => .ok ⟨dur, TS.UTC⟩
      | .err => .err
      | .panic => .panic := by
  obtain ⟨hne, h16, h7, hgood, hfull⟩ := numClass_hyps f hc
  exact parse_num7_is_from_gregorian O f ⟨y, mo, d, h, mi, s, ns⟩ (by unfold Flds.Printable; simp only; omega)
    hne h16 h7 hgood hfull h24

/-- **Rejection** — PARTIAL (outside D10: 30/31 February of a leap year, which `is_gregorian_valid` lets through;
    counterexample below).  Well-formed text whose fields the specification calendar rejects — month 00 or 13+,
    day 00 or beyond the month, hour 25+, minute 60+, second 61+, second 60 where no leap second is — or whose hour
    is 24 is an ERROR, never another date. -/
theorem format_parse_rejects_out_of_range_partial (O : Oracles) (f : Format) (hc : numClass f = true)
    (y mo d h mi s ns : Int)
    (hy : 0 ≤ y ∧ y ≤ 9999) (hmo : 0 ≤ mo ∧ mo < 100) (hd : 0 ≤ d ∧ d < 100) (hh : 0 ≤ h ∧ h < 100)
    (hmi : 0 ≤ mi ∧ mi < 100) (hs : 0 ≤ s ∧ s < 100) (hns : 0 ≤ ns ∧ ns < 1000000000)
    (hrej : Spec.mustReject Spec.iersLeapDates ⟨y, mo, d⟩ h mi s ns = true ∨ h = 24)
    (hD10 : Cal.d10class y mo d = false) :
    formatParse O f (printed f y mo d h mi s ns) = .err := by
  by_cases h24 : h = 24
  · obtain ⟨hne, h16, h7, hgood, hfull⟩ := numClass_hyps f hc
    exact parse_num7_hour24 O f ⟨y, mo, d, h, mi, s, ns⟩ (by unfold Flds.Printable; simp only; omega)
      hne h16 h7 hgood hfull h24
  · have hr : Spec.mustReject Spec.iersLeapDates ⟨y, mo, d⟩ h mi s ns = true := by
      rcases hrej with h | h
      · exact h
      · exact absurd h h24
    rw [format_parse_is_from_gregorian O f hc y mo d h mi s ns hy hmo hd hh hmi hs hns h24,
      Cal.maybeFromGregorian_eq y mo d h mi s ns TS.UTC (by omega),
      Cal.validCore_rejects y mo d h mi s ns hmo.1 hd.1 hh.1 hmi.1 hs.1 hns.1 hD10 hr]
    rfl

/-- **Acceptance**: well-formed text whose fields the specification requires to be accepted (valid date, hour < 24,
    minute < 60, second < 60 or a leap second of the IERS table) parses to exactly the specified instant: UTC, the
    day number of the date times 86 400 s plus the time of day (a leap second counted once), from 1900-01-01. -/
theorem format_parse_accepts (O : Oracles) (f : Format) (hc : numClass f = true) (y mo d h mi s ns : Int)
    (hy : 0 ≤ y ∧ y ≤ 9999)
    (hacc : Spec.mustAccept Spec.iersLeapDates ⟨y, mo, d⟩ h mi s ns = true) :
    ∃ e, formatParse O f (printed f y mo d h mi s ns) = .ok e ∧ e.ts = TS.UTC ∧ e.dur.Canon ∧
      e.dur.val = Spec.dayNumber ⟨y, mo, d⟩ * 86400000000000 + h * 3600000000000 + mi * 60000000000 + s * 1000000000 + ns
        - (if s = 60 then 1000000000 else 0) - Spec.refOffsetNs TS.UTC.name := by
  have hacc' := hacc
  unfold Spec.mustAccept at hacc'
  simp only [Bool.and_eq_true, Bool.or_eq_true, decide_eq_true_eq] at hacc'
  obtain ⟨⟨hval, hh, hh24, hmi, hmi60, hns, hns9⟩, hsec⟩ := hacc'
  have hv := (Cal.validDate_iff _).mp hval
  simp only at hv
  have hml := Cal.monthLen_cases y mo
  have hs : 0 ≤ s ∧ s ≤ 60 := by rcases hsec with h | h <;> omega
  have hD10 : Cal.d10class y mo d = false := by
    unfold Cal.d10class
    rw [Cal.isLeapYear_eq]
    cases hl : Spec.isLeap y <;> simp
    intro h2
    rw [hl] at hml
    simp at hml
    omega
  have hvc := ((Cal.validCore_spec y mo d h mi s ns (by omega) (by omega) hh hmi hs.1 hns hD10 (by omega) (by omega)).1).mpr hacc
  obtain ⟨e, he, hcan, hvalue⟩ := Cal.maybeFromGregorian_val y mo d h mi s ns TS.UTC (by omega) (by omega) (by omega)
    hh hmi hs.1 hns hvc
  refine ⟨⟨e, TS.UTC⟩, ?_, rfl, hcan, hvalue⟩
  rw [format_parse_is_from_gregorian O f hc y mo d h mi s ns hy (by omega) (by omega) (by omega) (by omega) (by omega)
    (by omega) (by omega), he]

/-- the D10 hypothesis cannot be dropped: "2024-02-30 …" must be rejected, and `Format::parse` returns 1 March -/
theorem format_parse_d10_counterexample :
    numClass (fmtOf "%Y-%m-%d %H:%M:%S.%f") = true ∧
    Spec.mustReject Spec.iersLeapDates ⟨2024, 2, 30⟩ 0 0 0 0 = true ∧ Cal.d10class 2024 2 30 = true ∧
    formatParse O0 (fmtOf "%Y-%m-%d %H:%M:%S.%f") (printed (fmtOf "%Y-%m-%d %H:%M:%S.%f") 2024 2 30 0 0 0 0) ≠ .err ∧
    formatParse O0 (fmtOf "%Y-%m-%d %H:%M:%S.%f") (printed (fmtOf "%Y-%m-%d %H:%M:%S.%f") 2024 2 30 0 0 0 0) =
      formatParse O0 (fmtOf "%Y-%m-%d %H:%M:%S.%f") (Cal.strCodes "2024-03-01 00:00:00.000000000") := by
  decide +kernel

end Hifi.C13Format
