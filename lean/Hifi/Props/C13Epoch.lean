import Hifi.Lemmas.EpochText
/-
  C13 (epoch / enum part)  Parsers are total: any string yields a value or an error, never a panic.

  The model (`Hifi/Model/EpochText.lean`) is BYTE-INDEXED: every `&s[a..b]` is `slice`, which answers
  `panic` unless both ends are in range and on a character boundary; `try_into().unwrap()`,
  `10_i32.pow`, the i32 product of the sub-second scaling, `usize - usize` and the `assert!(is_finite)`
  of the numeric initializers are explicit `panic` outcomes.  Totality is therefore a theorem about
  EVERY list of code points (no validity or ASCII hypothesis).  Termination is by construction: the
  loop is structural recursion on the character list, i.e. the real loop is bounded by the input length.
-/
namespace Hifi.C13Epoch
open Hifi Hifi.Spec Hifi.Txt

/-- `Epoch::from_gregorian_str` never panics -/
theorem from_gregorian_str_never_panics (s : List Nat) : fromGregorianStrIdx s ≠ .panic :=
  fromGregorianStrIdx_ne_panic s

/-- `Epoch::from_str` never panics (whatever the float-valued tail of the numeric forms computes) -/
theorem from_str_never_panics (s : List Nat) : epochFromStrIdx s ≠ .panic :=
  epochFromStrWith_ne_panic numericDurF s

/-- … so each returns a value or an error -/
theorem from_gregorian_str_total (s : List Nat) : fromGregorianStrIdx s = .err ∨ ∃ e, fromGregorianStrIdx s = .ok e := by
  have := from_gregorian_str_never_panics s
  cases h : fromGregorianStrIdx s with
  | ok e => exact Or.inr ⟨e, rfl⟩
  | err => exact Or.inl rfl
  | panic => exact absurd h this

theorem from_str_total (s : List Nat) : epochFromStrIdx s = .err ∨ ∃ e, epochFromStrIdx s = .ok e := by
  have := from_str_never_panics s
  cases h : epochFromStrIdx s with
  | ok e => exact Or.inr ⟨e, rfl⟩
  | err => exact Or.inl rfl
  | panic => exact absurd h this

example : fromGregorianStrIdx [120, 233, 49, 50, 51, 52, 53] = .err := by decide   -- "xé12345"

/-! ### the three enum parsers: a table lookup after `trim`, no slicing at all -/

/-- `TimeScale::from_str`, `Weekday::from_str`, `MonthName::from_str` return a value or an error
    (in the model they are total functions into `Option`: there is no panic outcome to exclude) -/
theorem enum_parsers_total (s : List Nat) :
    (tsFromStr s = none ∨ ∃ t, tsFromStr s = some t) ∧
    (weekdayFromStr s = none ∨ ∃ w, weekdayFromStr s = some w ∧ w < 7) ∧
    (monthFromStr s = none ∨ ∃ m, monthFromStr s = some m ∧ 1 ≤ m ∧ m ≤ 12) := by
  refine ⟨?_, ?_, ?_⟩
  · cases h : tsFromStr s with
    | none => exact Or.inl rfl
    | some t => exact Or.inr ⟨t, rfl⟩
  · cases h : weekdayFromStr s with
    | none => exact Or.inl rfl
    | some w =>
      refine Or.inr ⟨w, rfl, ?_⟩
      have hm := lookup_mem _ _ _ h
      have : Gen.WEEKDAY_SPELLINGS.all (fun p => decide (p.2 < 7)) = true := by decide
      have := List.all_eq_true.mp this _ hm
      simpa using this
  · cases h : monthFromStr s with
    | none => exact Or.inl rfl
    | some m =>
      refine Or.inr ⟨m, rfl, ?_⟩
      have hm := lookup_mem _ _ _ h
      have : Gen.MONTH_SPELLINGS.all (fun p => decide (1 ≤ p.2 ∧ p.2 ≤ 12)) = true := by decide
      have := List.all_eq_true.mp this _ hm
      simpa using this

/-- the generated spelling tables are the ones the sources show: every `Display` name of a time
    scale parses back to that scale, and so do the RINEX spellings GPS / GAL / BDS / QZSS -/
theorem time_scale_spellings :
    (∀ ts : TS, tsFromStr (tsDisplay ts) = some ts) ∧
    tsFromStr [71, 80, 83] = some .GPST ∧ tsFromStr [71, 65, 76] = some .GST ∧
    tsFromStr [66, 68, 83] = some .BDT ∧ tsFromStr [81, 90, 83, 83] = some .QZSST ∧
    tsFromStr [32, 84, 84] = some .TT ∧ tsFromStr [32, 69, 84] = some .ET := by
  refine ⟨fun ts => by cases ts <;> decide, by decide, by decide, by decide, by decide, by decide, by decide⟩

/-! ### well-formed text whose fields are out of range is rejected

  Full statement (C13): every well-formed text with a field out of range is an error.
  It is FALSE for 30/31 February of a leap year (recorded defect D10, pinned by the suite's `test_range`):
  `rejects_out_of_range_partial` carries the decidable hypothesis `d10class = false`, and
  `d10_counterexample` decides a witness inside the class. -/

/-- month 13, hour 24/25, minute 60, second 61, 30 February of a common year, 31 April …: any text of the five
    forms (`Spec.renderText`; every field written with its two digits, the year with four, whatever the values;
    any fraction, offset, scale) whose date-time the calendar specification requires to be rejected is an ERROR
    — never another date — through `from_gregorian_str` AND through `from_str`, outside class D10.  A written
    second of 60 is judged here with 59 in its place (the rest must still be a valid date-time); whether the
    `:60` itself is allowed depends on the written offset: `second60_accepted_iff_leap_label` below. -/
theorem rejects_out_of_range_partial (f : Form) (y mo d h mi s : Int) (nd : Nat) (frac : Int) (neg : Bool) (oh om : Int)
    (ts : TS) (hy : 0 ≤ y ∧ y ≤ 9999) (hmo : 0 ≤ mo ∧ mo < 100) (hd : 0 ≤ d ∧ d < 100) (hh : 0 ≤ h ∧ h < 100)
    (hmi : 0 ≤ mi ∧ mi < 100) (hs : 0 ≤ s ∧ s < 100) (hnd : nd ≤ 9) (hf : 0 ≤ frac ∧ frac < 10 ^ nd)
    (hoh : 0 ≤ oh ∧ oh < 100) (hom : 0 ≤ om ∧ om < 100)
    (hrej : mustReject iersLeapDates ⟨y, mo, d⟩ h mi (if s = 60 then 59 else s) (fracNs nd frac) = true ∨ h = 24)
    (hD10 : Cal.d10class y mo d = false) :
    fromGregorianStrIdx (renderText f ⟨y, mo, d⟩ h mi s nd frac neg oh om ts.name) = .err ∧
    ∀ dur, epochFromStrWith dur (renderText f ⟨y, mo, d⟩ h mi s nd frac neg oh om ts.name) = .err :=
  rejects_out_of_range f y mo d h mi s nd frac neg oh om ts hy hmo hd hh hmi hs hnd hf hoh hom hrej hD10

example : mustReject iersLeapDates ⟨2019, 2, 30⟩ 0 0 0 (fracNs 0 0) = true ∧ Cal.d10class 2019 2 30 = false := by decide
example : mustReject iersLeapDates ⟨2017, 13, 1⟩ 0 0 0 (fracNs 0 0) = true ∧ Cal.d10class 2017 13 1 = false := by decide
example : mustReject iersLeapDates ⟨2017, 1, 14⟩ 25 0 0 (fracNs 0 0) = true := by decide
example : mustReject iersLeapDates ⟨2017, 1, 14⟩ 0 60 0 (fracNs 0 0) = true := by decide

/-- the rejection clause for `Epoch::from_str` as the driver runs it (corollary) -/
theorem from_str_rejects_out_of_range_partial (f : Form) (y mo d h mi s : Int) (nd : Nat) (frac : Int) (neg : Bool)
    (oh om : Int) (ts : TS) (hy : 0 ≤ y ∧ y ≤ 9999) (hmo : 0 ≤ mo ∧ mo < 100) (hd : 0 ≤ d ∧ d < 100)
    (hh : 0 ≤ h ∧ h < 100) (hmi : 0 ≤ mi ∧ mi < 100) (hs : 0 ≤ s ∧ s < 100) (hnd : nd ≤ 9)
    (hf : 0 ≤ frac ∧ frac < 10 ^ nd) (hoh : 0 ≤ oh ∧ oh < 100) (hom : 0 ≤ om ∧ om < 100)
    (hrej : mustReject iersLeapDates ⟨y, mo, d⟩ h mi (if s = 60 then 59 else s) (fracNs nd frac) = true ∨ h = 24)
    (hD10 : Cal.d10class y mo d = false) :
    epochFromStrIdx (renderText f ⟨y, mo, d⟩ h mi s nd frac neg oh om ts.name) = .err :=
  (rejects_out_of_range f y mo d h mi s nd frac neg oh om ts hy hmo hd hh hmi hs hnd hf hoh hom hrej hD10).2 numericDurF

/-- SECOND = 60 (fix 582282e, D38): with the other fields a valid date-time of the years 0001-9999, the text
    is accepted EXACTLY when its fields minus the written offset show 23:59 of a day that precedes an entry of
    the leap-second table (`Spec.leapLabelOwn`) — so `2017-01-01T09:59:60+10:00` is accepted and
    `2016-12-31T23:59:60+10:00`, `2016-12-30T23:59:60Z`, `2016-12-31T23:58:60Z` are errors — in every scale
    (C08 lets the constructors accept that label "in any time scale") and through both parsers -/
theorem second60_accepted_iff_leap_label (f : Form) (y mo d h mi : Int) (nd : Nat) (frac : Int) (neg : Bool)
    (oh om : Int) (ts : TS) (hg : inGrammar60 ⟨y, mo, d⟩ h mi nd frac oh om = true) :
    (leapLabelOwn iersLeapDates ⟨y, mo, d⟩ h mi (offsetMin f neg oh om) = false →
      fromGregorianStrIdx (renderText f ⟨y, mo, d⟩ h mi 60 nd frac neg oh om ts.name) = .err ∧
      epochFromStrIdx (renderText f ⟨y, mo, d⟩ h mi 60 nd frac neg oh om ts.name) = .err) ∧
    (leapLabelOwn iersLeapDates ⟨y, mo, d⟩ h mi (offsetMin f neg oh om) = true →
      ∃ e, fromGregorianStrIdx (renderText f ⟨y, mo, d⟩ h mi 60 nd frac neg oh om ts.name) = .ok e ∧
        epochFromStrIdx (renderText f ⟨y, mo, d⟩ h mi 60 nd frac neg oh om ts.name) = .ok e) := by
  obtain ⟨r, ts', _, _, _, h1, h2⟩ := second60_text f y mo d h mi nd frac neg oh om ts hg
  constructor
  · intro hl
    rw [hl] at h1 h2
    have h3 := h2 numericDurF
    simp only [Bool.false_eq_true, if_false] at h1 h3
    exact ⟨h1, h3⟩
  · intro hl
    rw [hl] at h1 h2
    have h3 := h2 numericDurF
    simp only [if_true] at h1 h3
    exact ⟨⟨r, ts'⟩, h1, h3⟩

example : inGrammar60 ⟨2017, 1, 1⟩ 9 59 0 0 10 0 = true ∧
    leapLabelOwn iersLeapDates ⟨2017, 1, 1⟩ 9 59 (offsetMin .O false 10 0) = true ∧
    leapLabelOwn iersLeapDates ⟨2016, 12, 31⟩ 23 59 (offsetMin .O false 10 0) = false := by decide

/-- D10 (recorded, pinned by `test_range`): "2020-02-30T00:00:00 UTC" is well formed, the specification
    requires it to be rejected, and the parser accepts it as 1 March -/
theorem d10_counterexample :
    mustReject iersLeapDates ⟨2020, 2, 30⟩ 0 0 0 0 = true ∧ Cal.d10class 2020 2 30 = true ∧
    fromGregorianStrIdx (renderText .D ⟨2020, 2, 30⟩ 0 0 0 0 0 false 0 0 "UTC") =
      fromGregorianStrIdx (renderText .D ⟨2020, 3, 1⟩ 0 0 0 0 0 false 0 0 "UTC") ∧
    fromGregorianStrIdx (renderText .D ⟨2020, 2, 30⟩ 0 0 0 0 0 false 0 0 "UTC") ≠ .err := by
  decide +kernel

/-! ### the panics repaired in /repo stay repaired (witnesses of D13, D28, D29 as decided facts) -/

/-- D29: year = i32::MAX on 31 December 23:59 (`january_years(year + 1)`) is an error, not an overflow -/
theorem d29_witness : fromGregorianStrIdx
    [50, 49, 52, 55, 52, 56, 51, 54, 52, 55, 45, 49, 50, 45, 51, 49, 84, 50, 51, 58, 53, 57, 58, 48, 48] = .err := by
  decide

/-- D28: "JD 1éGPS" — the 3-byte suffix `GPS` after a 2-byte character — is an error, not a slice panic -/
theorem d28_witness (dur : Nat → Nat → TS → Dur) : epochFromStrWith dur [74, 68, 32, 49, 233, 71, 80, 83] = .err := by
  rfl

/-- D13: more than nine sub-second digits -/
theorem d13_witness : fromGregorianStrIdx
    [50, 48, 49, 55, 45, 48, 49, 45, 49, 52, 84, 48, 48, 58, 51, 49, 58, 53, 53, 46, 49, 50, 51, 52, 53, 54, 55, 56, 57, 49, 32, 85, 84, 67] = .err := by
  decide

end Hifi.C13Epoch
