import Hifi.Model.Dynamical
import Mathlib.Analysis.SpecialFunctions.Trigonometric.Bounds
/-
  C07  ET and TDB match the NAIF and ESA closed forms and round-trip within nanoseconds.

  PARTIAL by nature: `f64::sin` is an unspecified libm routine, so nothing can be proved about the
  bits the code produces.  What is proved here is about the ALGORITHM — the very definitions of
  `Model/Dynamical.lean` (`periodic`, `iterate`, `etMinusTai`, `etMinusTaiBack`) that the driver runs
  at hardware `Float` — instantiated at ℝ with `Real.sin`: closed-form deviation, round trip and
  strict monotonicity, with the NAIF / ESA constants pinned to the sources and to naif0012.txt.
  The binary64 evaluation error is measured by the correspondence run (bit-for-bit against Rust) and
  judged by the property's closed forms with its 30 / 20 / 100 ns tolerances.
-/
namespace Hifi.C07
open Real Hifi.Dyn

/-- the constants in the sources are the ones of the NAIF leap second kernel shipped with them -/
theorem naif_constants_pinned :
    Gen.NAIF_K_SRC_RAT = Gen.NAIF_TXT_K_RAT ∧ Gen.NAIF_EB_SRC_RAT = Gen.NAIF_TXT_EB_RAT ∧
    Gen.NAIF_M0_SRC_RAT = Gen.NAIF_TXT_M0_RAT ∧ Gen.NAIF_M1_SRC_RAT = Gen.NAIF_TXT_M1_RAT ∧
    Gen.NAIF_TXT_DELTA_T_A_RAT = (32184, 1000) ∨ Gen.NAIF_TXT_DELTA_T_A_RAT = (4023, 125) := by decide

theorem naif_values :
    Gen.NAIF_K_SRC_RAT = (1657, 1000000) ∧ Gen.NAIF_EB_SRC_RAT = (1671, 100000) ∧
    Gen.NAIF_M0_SRC_RAT = (1559999, 250000) ∧ Gen.NAIF_M1_SRC_RAT = (199096871, 1000000000000000) ∧
    Gen.TT_OFFSET_MS = 32184 := by decide

/-- the ESA/TDB literals of `inner_g`: 0.001658, 0.0167, 357.528°, 1.990910018065731e-7 rad/s -/
theorem tdb_values :
    Gen.TDB_K_SRC_RAT = (829, 500000) ∧ Gen.TDB_EB_SRC_RAT = (167, 10000) ∧
    Gen.TDB_G0_DEG_SRC_RAT = (44691, 125) ∧ Gen.TDB_G1_SRC_RAT = (1990910018065731, 10000000000000000000000) := by decide

/-- J2000 = 2000-01-01 12:00:00 in the scale itself: the prime offset is 36524.5 days of 86400 s -/
theorem j2000_pinned :
    Gen.PRIME_OFFSET_ET_C = 0 ∧ Gen.PRIME_OFFSET_ET_NS = (36524 * 86400 + 43200) * 1000000000 ∧
    Gen.PRIME_OFFSET_TDB_C = 0 ∧ Gen.PRIME_OFFSET_TDB_NS = Gen.PRIME_OFFSET_ET_NS ∧ Gen.ET_EPOCH_S * 1000000000 = Gen.PRIME_OFFSET_ET_NS := by
  decide

variable (K EB M0 M1 : ℝ)

/-- the periodic term at ℝ -/
noncomputable def P (t : ℝ) : ℝ := periodic Real.sin K EB M0 M1 t

theorem P_abs_le (hK : 0 ≤ K) (t : ℝ) : |P K EB M0 M1 t| ≤ K := by
  unfold P periodic
  rw [abs_mul, abs_of_nonneg hK]
  exact mul_le_of_le_one_right hK (abs_sin_le_one _)

/-- Lipschitz constant of the periodic term: K(1+EB)M1 -/
theorem P_lipschitz (hK : 0 ≤ K) (hEB : 0 ≤ EB) (hM1 : 0 ≤ M1) (a b : ℝ) :
    |P K EB M0 M1 a - P K EB M0 M1 b| ≤ K * (1 + EB) * M1 * |a - b| := by
  unfold P periodic
  rw [← mul_sub, abs_mul, abs_of_nonneg hK]
  have h1 := abs_sin_sub_sin_le (M0 + M1 * a + EB * sin (M0 + M1 * a)) (M0 + M1 * b + EB * sin (M0 + M1 * b))
  have h2 := abs_sin_sub_sin_le (M0 + M1 * a) (M0 + M1 * b)
  have h3 : |M0 + M1 * a - (M0 + M1 * b)| = M1 * |a - b| := by
    rw [show M0 + M1 * a - (M0 + M1 * b) = M1 * (a - b) by ring, abs_mul, abs_of_nonneg hM1]
  have h4 : |M0 + M1 * a + EB * sin (M0 + M1 * a) - (M0 + M1 * b + EB * sin (M0 + M1 * b))|
      ≤ M1 * |a - b| + EB * (M1 * |a - b|) := by
    have : M0 + M1 * a + EB * sin (M0 + M1 * a) - (M0 + M1 * b + EB * sin (M0 + M1 * b))
        = (M0 + M1 * a - (M0 + M1 * b)) + EB * (sin (M0 + M1 * a) - sin (M0 + M1 * b)) := by ring
    rw [this]
    refine (abs_add_le _ _).trans ?_
    rw [abs_mul, abs_of_nonneg hEB, h3]
    have := mul_le_mul_of_nonneg_left (h2.trans_eq h3) hEB
    linarith
  calc K * |sin (M0 + M1 * a + EB * sin (M0 + M1 * a)) - sin (M0 + M1 * b + EB * sin (M0 + M1 * b))|
      ≤ K * (M1 * |a - b| + EB * (M1 * |a - b|)) := mul_le_mul_of_nonneg_left (h1.trans h4) hK
    _ = K * (1 + EB) * M1 * |a - b| := by ring

/-- each step of the loops moves the estimate by at most K: after n steps it is within n·K -/
theorem iterate_near (hK : 0 ≤ K) (sgn : ℝ) (hs : |sgn| = 1) (n : ℕ) (s : ℝ) :
    |iterate Real.sin K EB M0 M1 sgn n s - s| ≤ n * K := by
  induction n generalizing s with
  | zero => simp [iterate]
  | succ n ih =>
    unfold iterate
    have h1 := ih (s + sgn * periodic Real.sin K EB M0 M1 s)
    have h2 : |sgn * periodic Real.sin K EB M0 M1 s| ≤ K := by
      rw [abs_mul, hs, one_mul]; exact P_abs_le K EB M0 M1 hK s
    have : iterate Real.sin K EB M0 M1 sgn n (s + sgn * periodic Real.sin K EB M0 M1 s) - s =
        (iterate Real.sin K EB M0 M1 sgn n (s + sgn * periodic Real.sin K EB M0 M1 s) - (s + sgn * periodic Real.sin K EB M0 M1 s))
          + sgn * periodic Real.sin K EB M0 M1 s := by ring
    rw [this]
    refine (abs_add_le _ _).trans ?_
    push_cast; linarith

/-- (i) closed form: with `et = t + (ET−TAI)(t)` the ET seconds past J2000, the offset the algorithm
    adds differs from the NAIF closed form `tt + K sin E(et)` by at most K(1+EB)M1·6K -/
theorem closed_form_deviation (hK : 0 ≤ K) (hEB : 0 ≤ EB) (hM1 : 0 ≤ M1) (tt t : ℝ) :
    |etMinusTai Real.sin K EB M0 M1 tt t - (tt + P K EB M0 M1 (t + etMinusTai Real.sin K EB M0 M1 tt t))|
      ≤ K * (1 + EB) * M1 * (6 * K) := by
  unfold etMinusTai
  set s5 := iterate Real.sin K EB M0 M1 1 5 t with hs5
  have hn := iterate_near K EB M0 M1 hK 1 (by simp) 5 t
  rw [← hs5] at hn
  have hp := P_abs_le K EB M0 M1 hK (s5 + tt)
  have hl := P_lipschitz K EB M0 M1 hK hEB hM1 (s5 + tt) (t + (tt + P K EB M0 M1 (s5 + tt)))
  have hd : |s5 + tt - (t + (tt + P K EB M0 M1 (s5 + tt)))| ≤ 6 * K := by
    rw [show s5 + tt - (t + (tt + P K EB M0 M1 (s5 + tt))) = (s5 - t) + (- P K EB M0 M1 (s5 + tt)) by ring]
    refine (abs_add_le _ _).trans ?_
    rw [abs_neg]; push_cast at hn; linarith
  have hpos : 0 ≤ K * (1 + EB) * M1 := by positivity
  show |tt + P K EB M0 M1 (s5 + tt) - (tt + P K EB M0 M1 (t + (tt + P K EB M0 M1 (s5 + tt))))| ≤ _
  rw [show tt + P K EB M0 M1 (s5 + tt) - (tt + P K EB M0 M1 (t + (tt + P K EB M0 M1 (s5 + tt))))
      = P K EB M0 M1 (s5 + tt) - P K EB M0 M1 (t + (tt + P K EB M0 M1 (s5 + tt))) by ring]
  exact hl.trans (mul_le_mul_of_nonneg_left hd hpos)

/-- (ii) round trip TAI → ET → TAI on ℝ: the error is at most K(1+EB)M1·(tt + 11K)
    (the backward sine is evaluated `tt` seconds early) -/
theorem round_trip_error (hK : 0 ≤ K) (hEB : 0 ≤ EB) (hM1 : 0 ≤ M1) (tt t : ℝ) (htt : 0 ≤ tt) :
    let et := t + etMinusTai Real.sin K EB M0 M1 tt t
    |(et - etMinusTaiBack Real.sin K EB M0 M1 tt et) - t| ≤ K * (1 + EB) * M1 * (tt + 11 * K) := by
  intro et
  unfold etMinusTaiBack
  set s5 := iterate Real.sin K EB M0 M1 1 5 t with hs5
  set b5 := iterate Real.sin K EB M0 M1 (-1) 5 et with hb5
  have hn := iterate_near K EB M0 M1 hK 1 (by simp) 5 t
  have hnb := iterate_near K EB M0 M1 hK (-1) (by simp) 5 et
  rw [← hs5] at hn; rw [← hb5] at hnb
  have het : et = t + (tt + P K EB M0 M1 (s5 + tt)) := rfl
  have hp := P_abs_le K EB M0 M1 hK (s5 + tt)
  have hl := P_lipschitz K EB M0 M1 hK hEB hM1 (s5 + tt) (b5 - tt)
  have hd : |s5 + tt - (b5 - tt)| ≤ tt + 11 * K := by
    rw [show s5 + tt - (b5 - tt) = (s5 - t) + (-(b5 - et)) + (tt - P K EB M0 M1 (s5 + tt)) by rw [het]; ring]
    refine (abs_add_le _ _).trans ?_
    have h1 := abs_add_le (s5 - t) (-(b5 - et))
    rw [abs_neg] at h1
    have h2 : |tt - P K EB M0 M1 (s5 + tt)| ≤ tt + K := by
      refine (abs_sub _ _).trans ?_
      rw [abs_of_nonneg htt]; linarith
    push_cast at hn hnb; linarith
  have hpos : 0 ≤ K * (1 + EB) * M1 := by positivity
  show |et - (tt + P K EB M0 M1 (b5 - tt)) - t| ≤ _
  rw [show et - (tt + P K EB M0 M1 (b5 - tt)) - t = P K EB M0 M1 (s5 + tt) - P K EB M0 M1 (b5 - tt) by rw [het]; ring]
  exact hl.trans (mul_le_mul_of_nonneg_left hd hpos)

/-- every step `s ↦ s + sgn·P(s)` is (1 + L)-Lipschitz, so the n-step iterate is (1+L)ⁿ-Lipschitz -/
theorem iterate_lipschitz (hK : 0 ≤ K) (hEB : 0 ≤ EB) (hM1 : 0 ≤ M1) (sgn : ℝ) (hs : |sgn| = 1) (n : ℕ) (a b : ℝ) :
    |iterate Real.sin K EB M0 M1 sgn n a - iterate Real.sin K EB M0 M1 sgn n b|
      ≤ (1 + K * (1 + EB) * M1) ^ n * |a - b| := by
  induction n generalizing a b with
  | zero => simp [iterate]
  | succ n ih =>
    unfold iterate
    refine (ih _ _).trans ?_
    have hL : 0 ≤ K * (1 + EB) * M1 := by positivity
    have hstep : |a + sgn * periodic Real.sin K EB M0 M1 a - (b + sgn * periodic Real.sin K EB M0 M1 b)|
        ≤ (1 + K * (1 + EB) * M1) * |a - b| := by
      rw [show a + sgn * periodic Real.sin K EB M0 M1 a - (b + sgn * periodic Real.sin K EB M0 M1 b)
          = (a - b) + sgn * (P K EB M0 M1 a - P K EB M0 M1 b) by unfold P; ring]
      refine (abs_add_le _ _).trans ?_
      rw [abs_mul, hs, one_mul]
      have := P_lipschitz K EB M0 M1 hK hEB hM1 a b
      linarith
    calc (1 + K * (1 + EB) * M1) ^ n * |a + sgn * periodic Real.sin K EB M0 M1 a - (b + sgn * periodic Real.sin K EB M0 M1 b)|
        ≤ (1 + K * (1 + EB) * M1) ^ n * ((1 + K * (1 + EB) * M1) * |a - b|) :=
          mul_le_mul_of_nonneg_left hstep (by positivity)
      _ = (1 + K * (1 + EB) * M1) ^ (n + 1) * |a - b| := by ring

/-- (iii) the map TAI ↦ ET is strictly increasing whenever L(1+L)⁵ < 1 (L = K(1+EB)M1 ≈ 3.4·10⁻¹⁰),
    which gives order preservation beyond any evaluation error -/
theorem forward_strictly_increasing (hK : 0 ≤ K) (hEB : 0 ≤ EB) (hM1 : 0 ≤ M1) (tt : ℝ)
    (hsmall : K * (1 + EB) * M1 * (1 + K * (1 + EB) * M1) ^ 5 < 1) (t1 t2 : ℝ) (h : t1 < t2) :
    t1 + etMinusTai Real.sin K EB M0 M1 tt t1 < t2 + etMinusTai Real.sin K EB M0 M1 tt t2 := by
  unfold etMinusTai
  have hL : 0 ≤ K * (1 + EB) * M1 := by positivity
  have h1 := P_lipschitz K EB M0 M1 hK hEB hM1 (iterate Real.sin K EB M0 M1 1 5 t1 + tt) (iterate Real.sin K EB M0 M1 1 5 t2 + tt)
  have h2 := iterate_lipschitz K EB M0 M1 hK hEB hM1 1 (by simp) 5 t1 t2
  have h3 : |iterate Real.sin K EB M0 M1 1 5 t1 + tt - (iterate Real.sin K EB M0 M1 1 5 t2 + tt)|
      = |iterate Real.sin K EB M0 M1 1 5 t1 - iterate Real.sin K EB M0 M1 1 5 t2| := by congr 1; ring
  rw [h3] at h1
  have h4 : |t1 - t2| = t2 - t1 := by rw [abs_sub_comm, abs_of_pos (by linarith)]
  have h5 : |P K EB M0 M1 (iterate Real.sin K EB M0 M1 1 5 t1 + tt) - P K EB M0 M1 (iterate Real.sin K EB M0 M1 1 5 t2 + tt)|
      ≤ K * (1 + EB) * M1 * (1 + K * (1 + EB) * M1) ^ 5 * (t2 - t1) := by
    refine h1.trans ?_
    rw [← h4]
    calc K * (1 + EB) * M1 * |iterate Real.sin K EB M0 M1 1 5 t1 - iterate Real.sin K EB M0 M1 1 5 t2|
        ≤ K * (1 + EB) * M1 * ((1 + K * (1 + EB) * M1) ^ 5 * |t1 - t2|) := mul_le_mul_of_nonneg_left h2 hL
      _ = K * (1 + EB) * M1 * (1 + K * (1 + EB) * M1) ^ 5 * |t1 - t2| := by ring
  have h6 := abs_le.mp h5
  have h7 : K * (1 + EB) * M1 * (1 + K * (1 + EB) * M1) ^ 5 * (t2 - t1) < t2 - t1 := by
    have : 0 < t2 - t1 := by linarith
    calc K * (1 + EB) * M1 * (1 + K * (1 + EB) * M1) ^ 5 * (t2 - t1) < 1 * (t2 - t1) :=
          mul_lt_mul_of_pos_right hsmall this
      _ = t2 - t1 := one_mul _
  show t1 + (tt + P K EB M0 M1 (iterate Real.sin K EB M0 M1 1 5 t1 + tt)) < t2 + (tt + P K EB M0 M1 (iterate Real.sin K EB M0 M1 1 5 t2 + tt))
  linarith [h6.1, h6.2]

/-! ### the numbers, for the NAIF (ET) and ESA (TDB) constants -/

/-- ET: closed-form deviation ≤ 3.4·10⁻¹² s, round trip ≤ 1.09·10⁻⁸ s (< 20 ns), strictly increasing -/
theorem et_numbers :
    let K : ℝ := 1657 / 1000000; let EB : ℝ := 1671 / 100000; let M1 : ℝ := 199096871 / 1000000000000000
    let tt : ℝ := 32184 / 1000
    K * (1 + EB) * M1 * (6 * K) ≤ 34 / 10000000000000 ∧
    K * (1 + EB) * M1 * (tt + 11 * K) ≤ 109 / 10000000000 ∧
    K * (1 + EB) * M1 * (1 + K * (1 + EB) * M1) ^ 5 < 1 := by
  norm_num

/-- TDB (same shape of formula with the ESA constants; the mean anomaly rate is 1.99091…e-7 rad/s) -/
theorem tdb_numbers :
    let K : ℝ := 829 / 500000; let EB : ℝ := 167 / 10000; let M1 : ℝ := 1990910018065731 / 10000000000000000000000
    let tt : ℝ := 32184 / 1000
    K * (1 + EB) * M1 * (6 * K) ≤ 34 / 10000000000000 ∧
    K * (1 + EB) * M1 * (tt + 11 * K) ≤ 109 / 10000000000 ∧
    K * (1 + EB) * M1 * (1 + K * (1 + EB) * M1) ^ 5 < 1 := by
  norm_num

/-- ET: the three statements with the NAIF constants plugged in — PARTIAL: real arithmetic -/
theorem et_real_algorithm_partial (t : ℝ) :
    let K : ℝ := 1657 / 1000000; let EB : ℝ := 1671 / 100000; let M0 : ℝ := 1559999 / 250000
    let M1 : ℝ := 199096871 / 1000000000000000; let tt : ℝ := 32184 / 1000
    let et := t + etMinusTai Real.sin K EB M0 M1 tt t
    |etMinusTai Real.sin K EB M0 M1 tt t - (tt + P K EB M0 M1 et)| ≤ 34 / 10000000000000 ∧
    |(et - etMinusTaiBack Real.sin K EB M0 M1 tt et) - t| ≤ 109 / 10000000000 := by
  intro K EB M0 M1 tt et
  have hK : (0:ℝ) ≤ K := by norm_num [K]
  have hEB : (0:ℝ) ≤ EB := by norm_num [EB]
  have hM1 : (0:ℝ) ≤ M1 := by norm_num [M1]
  have hn := et_numbers
  simp only at hn
  exact ⟨(closed_form_deviation K EB M0 M1 hK hEB hM1 tt t).trans hn.1,
         (round_trip_error K EB M0 M1 hK hEB hM1 tt t (by norm_num [tt])).trans hn.2.1⟩

end Hifi.C07
