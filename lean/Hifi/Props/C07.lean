import Hifi.Model.Dynamical
import Mathlib.Analysis.SpecialFunctions.Trigonometric.Bounds
/-
  C07  ET and TDB match the NAIF and ESA closed forms and round-trip within nanoseconds.

  PARTIAL by nature: `f64::sin` is an unspecified libm routine, so nothing can be proved about the
  bits the code produces.  What is proved here is about the ALGORITHM: every floating-point expression
  of the ET/TDB arms is one generic definition of `Model/Dynamical.lean` (`deltaEtTaiG`, `innerGG`,
  `etStepSrcG`, `etStepTgtG`, `etSrcDeltaG`, `etTgtDeltaG`, `tdbLoopG`, `tdbTgtGammaG`); the executable
  model is their instance at hardware `Float` (`shared_definitions` below, by `rfl`) and the theorems are
  about their instance at ℝ with `Real.sin` and `|·|`: closed-form deviation, round trip and order of
  instants, for BOTH scales and BOTH directions, for any estimate the loops can exit with, with the
  NAIF / ESA constants pinned to the sources and to naif0012.txt.
  The binary64 evaluation error is measured by the correspondence run (bit-for-bit against Rust) and
  judged by the property's closed forms with its 30 / 20 / 100 ns tolerances.
-/
namespace Hifi.C07
open Real Hifi.Dyn

/-- the constants in the sources are the ones of the NAIF leap second kernel shipped with them:
    K, EB, M0, M1 literally, and DELTET/DELTA_T_A = 32.184 s = `TT_OFFSET_MS` ms -/
theorem naif_constants_pinned :
    Gen.NAIF_K_SRC_RAT = Gen.NAIF_TXT_K_RAT ∧ Gen.NAIF_EB_SRC_RAT = Gen.NAIF_TXT_EB_RAT ∧
    Gen.NAIF_M0_SRC_RAT = Gen.NAIF_TXT_M0_RAT ∧ Gen.NAIF_M1_SRC_RAT = Gen.NAIF_TXT_M1_RAT ∧
    Gen.NAIF_TXT_DELTA_T_A_RAT = (4023, 125) ∧
    Gen.NAIF_TXT_DELTA_T_A_RAT.1 * 1000 = Gen.TT_OFFSET_MS * Gen.NAIF_TXT_DELTA_T_A_RAT.2 := by decide

/-- every conjunct of `naif_constants_pinned` is needed: the kernel's own values -/
theorem naif_txt_values :
    Gen.NAIF_TXT_K_RAT = (1657, 1000000) ∧ Gen.NAIF_TXT_EB_RAT = (1671, 100000) ∧
    Gen.NAIF_TXT_M0_RAT = (1559999, 250000) ∧ Gen.NAIF_TXT_M1_RAT = (199096871, 1000000000000000) := by decide

theorem naif_values :
    Gen.NAIF_K_SRC_RAT = (1657, 1000000) ∧ Gen.NAIF_EB_SRC_RAT = (1671, 100000) ∧
    Gen.NAIF_M0_SRC_RAT = (1559999, 250000) ∧ Gen.NAIF_M1_SRC_RAT = (199096871, 1000000000000000) ∧
    Gen.TT_OFFSET_MS = 32184 := by decide

/-- the ESA/TDB literals of `inner_g`: 0.001658, 0.0167, 357.528°, 1.990910018065731e-7 rad/s -/
theorem tdb_values :
    Gen.TDB_K_SRC_RAT = (829, 500000) ∧ Gen.TDB_EB_SRC_RAT = (167, 10000) ∧
    Gen.TDB_G0_DEG_SRC_RAT = (44691, 125) ∧ Gen.TDB_G1_SRC_RAT = (1990910018065731, 10000000000000000000000) := by decide

/-- J2000 = 2000-01-01 12:00:00 in the scale itself: the prime offset is 36524.5 days of 86400 s -/
theorem j2000_pinned :
    Gen.PRIME_OFFSET_ET_C = 0 ∧ Gen.PRIME_OFFSET_ET_NS = (36524 * 86400 + 43200) * 1000000000 ∧
    Gen.PRIME_OFFSET_TDB_C = 0 ∧ Gen.PRIME_OFFSET_TDB_NS = Gen.PRIME_OFFSET_ET_NS ∧ Gen.ET_EPOCH_S * 1000000000 = Gen.PRIME_OFFSET_ET_NS := by
  decide

/-- THE SHARED DEFINITIONS.  The executable Float model the driver compares with the implementation is,
    definitionally, the hardware instance of the generic definitions the theorems below are about:
    the float part of every arm is ONE application of a `…G` definition to `Float.sin` / `Float.abs` and
    the binary64 constants, between `Duration::to_seconds` (`toSecondsF`) and `f64 * Unit::Second`
    (`secondsDur`); the rest is exact `Duration` arithmetic. -/
theorem shared_definitions :
    (∀ x, deltaEtTaiF x = deltaEtTaiG Float.sin fK fEB fM0 fM1 ttSecondsF x) ∧
    (∀ x, innerGF x = innerGG Float.sin fTAU f360 gG0 gG1 gK gEB x) ∧
    (∀ d, etToTai d = Dur.add (Dur.sub d (secondsDur
        (etSrcDeltaG Float.sin fK fEB fM0 fM1 ttSecondsF (toSecondsF d)))) etPrimeOffset) ∧
    (∀ p, taiToEt p = Dur.sub (Dur.add p (secondsDur
        (etTgtDeltaG Float.sin fK fEB fM0 fM1 ttSecondsF (toSecondsF (Dur.sub p etPrimeOffset))))) etPrimeOffset) ∧
    (∀ d, tdbToTai d = Dur.add (Dur.sub d (Dur.add (secondsDur
        (innerGG Float.sin fTAU f360 gG0 gG1 gK gEB (toSecondsF d))) ttOffset)) etPrimeOffset) ∧
    (∀ p, taiToTdb p = Dur.sub (Dur.add p (Dur.add (secondsDur
        (tdbTgtGammaG Float.sin Float.abs fTAU f360 gG0 gG1 gK gEB ttSecondsF f1em9 f1e8
          (toSecondsF (Dur.sub p etPrimeOffset)))) ttOffset)) etPrimeOffset) :=
  ⟨fun _ => rfl, fun _ => rfl, fun _ => rfl, fun _ => rfl, fun _ => rfl, fun _ => rfl⟩

variable (K EB M0 M1 : ℝ)

/-- the periodic term at ℝ -/
noncomputable def P (t : ℝ) : ℝ := periodic Real.sin K EB M0 M1 t

theorem P_abs_le (hK : 0 ≤ K) (t : ℝ) : |P K EB M0 M1 t| ≤ K := by
  unfold P periodic
  rw [abs_mul, abs_of_nonneg hK]
  exact mul_le_of_le_one_right hK (abs_sin_le_one _)

/-- Lipschitz constant of the periodic term: K(1+EB)M1 -/
theorem P_lipschitz (hK : 0 ≤ K) (hEB : 0 ≤ EB) (hM1 : 0 ≤ M1) (a b : ℝ) :
    |P K EB M0 M1 a - P K EB M0 M1 b| ≤ K * (1 + EB) * M1 * |a - b| := by
  unfold P periodic
  rw [← mul_sub, abs_mul, abs_of_nonneg hK]
  have h1 := abs_sin_sub_sin_le (M0 + M1 * a + EB * sin (M0 + M1 * a)) (M0 + M1 * b + EB * sin (M0 + M1 * b))
  have h2 := abs_sin_sub_sin_le (M0 + M1 * a) (M0 + M1 * b)
  have h3 : |M0 + M1 * a - (M0 + M1 * b)| = M1 * |a - b| := by
    rw [show M0 + M1 * a - (M0 + M1 * b) = M1 * (a - b) by ring, abs_mul, abs_of_nonneg hM1]
  have h4 : |M0 + M1 * a + EB * sin (M0 + M1 * a) - (M0 + M1 * b + EB * sin (M0 + M1 * b))|
      ≤ M1 * |a - b| + EB * (M1 * |a - b|) := by
    have : M0 + M1 * a + EB * sin (M0 + M1 * a) - (M0 + M1 * b + EB * sin (M0 + M1 * b))
        = (M0 + M1 * a - (M0 + M1 * b)) + EB * (sin (M0 + M1 * a) - sin (M0 + M1 * b)) := by ring
    rw [this]
    refine (abs_add_le _ _).trans ?_
    rw [abs_mul, abs_of_nonneg hEB, h3]
    have := mul_le_mul_of_nonneg_left (h2.trans_eq h3) hEB
    linarith
  calc K * |sin (M0 + M1 * a + EB * sin (M0 + M1 * a)) - sin (M0 + M1 * b + EB * sin (M0 + M1 * b))|
      ≤ K * (M1 * |a - b| + EB * (M1 * |a - b|)) := mul_le_mul_of_nonneg_left (h1.trans h4) hK
    _ = K * (1 + EB) * M1 * |a - b| := by ring

/-! ### the generic definitions at ℝ, in terms of the closed form `P` -/

theorem deltaEtTaiG_real (tt x : ℝ) : deltaEtTaiG Real.sin K EB M0 M1 tt x = tt + P K EB M0 M1 x := by
  unfold deltaEtTaiG P periodic
  simp only [mul_comm x M1]

/-- `inner_g` is the same closed form with `M0 := TAU/360·G0` (357.528° in radians when `TAU = 2π`), `M1 := G1` -/
theorem innerGG_real (TAU c360 G0 G1 x : ℝ) :
    innerGG Real.sin TAU c360 G0 G1 K EB x = P K EB (TAU / c360 * G0) G1 x := rfl

theorem etStepSrcG_real (s : ℝ) : etStepSrcG Real.sin K EB M0 M1 s = s - P K EB M0 M1 s := by
  unfold etStepSrcG P periodic; ring

theorem etStepTgtG_real (s : ℝ) : etStepTgtG Real.sin K EB M0 M1 s = s + P K EB M0 M1 s := by
  unfold etStepTgtG P periodic; ring

/-! ### every loop exits within 5K of its input -/

theorem etStepSrcG_near (hK : 0 ≤ K) (s : ℝ) : |etStepSrcG Real.sin K EB M0 M1 s - s| ≤ K := by
  rw [etStepSrcG_real, show s - P K EB M0 M1 s - s = -P K EB M0 M1 s by ring, abs_neg]
  exact P_abs_le K EB M0 M1 hK s

theorem etStepTgtG_near (hK : 0 ≤ K) (s : ℝ) : |etStepTgtG Real.sin K EB M0 M1 s - s| ≤ K := by
  rw [etStepTgtG_real, show s + P K EB M0 M1 s - s = P K EB M0 M1 s by ring]
  exact P_abs_le K EB M0 M1 hK s

/-- five applications of a map that moves its argument by at most K move it by at most 5K -/
theorem five_steps_near (f : ℝ → ℝ) (hf : ∀ s, |f s - s| ≤ K) (s : ℝ) : |f (f (f (f (f s)))) - s| ≤ 5 * K := by
  have h1 := abs_le.mp (hf s)
  have h2 := abs_le.mp (hf (f s))
  have h3 := abs_le.mp (hf (f (f s)))
  have h4 := abs_le.mp (hf (f (f (f s))))
  have h5 := abs_le.mp (hf (f (f (f (f s)))))
  rw [abs_le]; constructor <;> linarith [h1.1, h1.2, h2.1, h2.2, h3.1, h3.2, h4.1, h4.2, h5.1, h5.2]

/-- the TDB loop, WITH its early exit, returns a value within n·K of its input whatever the exit point,
    for any `g` bounded by K, any `eps` and any initial `delta` -/
theorem tdbLoopG_near (hK : 0 ≤ K) (g : ℝ → ℝ) (hg : ∀ x, |g x| ≤ K) (eps : ℝ) (n : ℕ) (s delta : ℝ) :
    |tdbLoopG (fun x : ℝ => |x|) g eps n s delta - s| ≤ n * K := by
  induction n generalizing s delta with
  | zero => simp [tdbLoopG]
  | succ n ih =>
    unfold tdbLoopG
    simp only []
    split
    · simp only [sub_self, abs_zero]; positivity
    · have h1 := ih (s - g s) |s - g s - s|
      have h2 : |s - g s - s| ≤ K := by rw [show s - g s - s = -g s by ring, abs_neg]; exact hg s
      have h3 := abs_le.mp h1
      have h4 := abs_le.mp h2
      push_cast
      rw [abs_le]; constructor <;> linarith [h3.1, h3.2, h4.1, h4.2]

/-! ### statements for ANY estimate `s` within 5K of the input (covers every exit point of every loop)

  `L = K(1+EB)M1` is the Lipschitz constant of the periodic term (≈ 3.4·10⁻¹⁰ for both scales). -/

/-- TARGET arms (TAI → ET, TAI → TDB).  The arm adds `off = tt + P(s + tt)` to the TAI seconds `t`, `s` being
    its loop's estimate.  The closed form of the property evaluated at the RESULT (`t + off` seconds past
    J2000 in ET/TDB) differs from `off` by at most L·6K; evaluated at TT (`t + tt`), by at most L·5K. -/
theorem target_deviation (hK : 0 ≤ K) (hEB : 0 ≤ EB) (hM1 : 0 ≤ M1) (tt t s : ℝ) (hs : |s - t| ≤ 5 * K) :
    let off := tt + P K EB M0 M1 (s + tt)
    |off - (tt + P K EB M0 M1 (t + off))| ≤ K * (1 + EB) * M1 * (6 * K) ∧
    |off - (tt + P K EB M0 M1 (t + tt))| ≤ K * (1 + EB) * M1 * (5 * K) := by
  intro off
  have hpos : 0 ≤ K * (1 + EB) * M1 := by positivity
  have hp := abs_le.mp (P_abs_le K EB M0 M1 hK (s + tt))
  have hs' := abs_le.mp hs
  constructor
  · have hl := P_lipschitz K EB M0 M1 hK hEB hM1 (s + tt) (t + off)
    have hd : |s + tt - (t + off)| ≤ 6 * K := by
      rw [show s + tt - (t + off) = (s - t) - P K EB M0 M1 (s + tt) by simp only [off]; ring, abs_le]
      constructor <;> linarith [hp.1, hp.2, hs'.1, hs'.2]
    rw [show off - (tt + P K EB M0 M1 (t + off)) = P K EB M0 M1 (s + tt) - P K EB M0 M1 (t + off) by
      simp only [off]; ring]
    exact hl.trans (mul_le_mul_of_nonneg_left hd hpos)
  · have hl := P_lipschitz K EB M0 M1 hK hEB hM1 (s + tt) (t + tt)
    rw [show s + tt - (t + tt) = s - t by ring] at hl
    rw [show off - (tt + P K EB M0 M1 (t + tt)) = P K EB M0 M1 (s + tt) - P K EB M0 M1 (t + tt) by
      simp only [off]; ring]
    exact hl.trans (mul_le_mul_of_nonneg_left hs hpos)

/-- ET SOURCE arm (ET → TAI).  The arm subtracts `off = tt + P(b − tt)` from the ET seconds `e`, `b` being its
    loop's estimate: the closed form at `e` differs from `off` by at most L·(tt + 5K) (the sine is evaluated
    `tt` seconds early), i.e. 10.9 ns with the NAIF constants. -/
theorem et_source_deviation (hK : 0 ≤ K) (hEB : 0 ≤ EB) (hM1 : 0 ≤ M1) (tt e b : ℝ) (htt : 0 ≤ tt)
    (hb : |b - e| ≤ 5 * K) :
    |(tt + P K EB M0 M1 (b - tt)) - (tt + P K EB M0 M1 e)| ≤ K * (1 + EB) * M1 * (tt + 5 * K) := by
  have hpos : 0 ≤ K * (1 + EB) * M1 := by positivity
  have hl := P_lipschitz K EB M0 M1 hK hEB hM1 (b - tt) e
  have hb' := abs_le.mp hb
  have hd : |b - tt - e| ≤ tt + 5 * K := by rw [abs_le]; constructor <;> linarith [hb'.1, hb'.2]
  rw [show tt + P K EB M0 M1 (b - tt) - (tt + P K EB M0 M1 e) = P K EB M0 M1 (b - tt) - P K EB M0 M1 e by ring]
  exact hl.trans (mul_le_mul_of_nonneg_left hd hpos)

/-- ET round trip TAI → ET → TAI, any two estimates: the error is at most L·(tt + 11K) -/
theorem et_round_trip (hK : 0 ≤ K) (hEB : 0 ≤ EB) (hM1 : 0 ≤ M1) (tt t s b : ℝ) (htt : 0 ≤ tt)
    (hs : |s - t| ≤ 5 * K) :
    let et := t + (tt + P K EB M0 M1 (s + tt))
    |b - et| ≤ 5 * K → |(et - (tt + P K EB M0 M1 (b - tt))) - t| ≤ K * (1 + EB) * M1 * (tt + 11 * K) := by
  intro et hb
  have hpos : 0 ≤ K * (1 + EB) * M1 := by positivity
  have hp := abs_le.mp (P_abs_le K EB M0 M1 hK (s + tt))
  have hs' := abs_le.mp hs
  have hb' := abs_le.mp hb
  have hl := P_lipschitz K EB M0 M1 hK hEB hM1 (s + tt) (b - tt)
  have hd : |s + tt - (b - tt)| ≤ tt + 11 * K := by
    rw [show s + tt - (b - tt) = (s - t) - (b - et) + (tt - P K EB M0 M1 (s + tt)) by simp only [et]; ring, abs_le]
    constructor <;> linarith [hp.1, hp.2, hs'.1, hs'.2, hb'.1, hb'.2]
  rw [show et - (tt + P K EB M0 M1 (b - tt)) - t = P K EB M0 M1 (s + tt) - P K EB M0 M1 (b - tt) by
    simp only [et]; ring]
  exact hl.trans (mul_le_mul_of_nonneg_left hd hpos)

/-- ET round trip in the other direction, ET → TAI → ET, any two estimates: same bound -/
theorem et_round_trip_rev (hK : 0 ≤ K) (hEB : 0 ≤ EB) (hM1 : 0 ≤ M1) (tt e b s : ℝ) (htt : 0 ≤ tt)
    (hb : |b - e| ≤ 5 * K) :
    let tai := e - (tt + P K EB M0 M1 (b - tt))
    |s - tai| ≤ 5 * K → |(tai + (tt + P K EB M0 M1 (s + tt))) - e| ≤ K * (1 + EB) * M1 * (tt + 11 * K) := by
  intro tai hs
  have hpos : 0 ≤ K * (1 + EB) * M1 := by positivity
  have hp := abs_le.mp (P_abs_le K EB M0 M1 hK (b - tt))
  have hs' := abs_le.mp hs
  have hb' := abs_le.mp hb
  have hl := P_lipschitz K EB M0 M1 hK hEB hM1 (s + tt) (b - tt)
  have hd : |s + tt - (b - tt)| ≤ tt + 11 * K := by
    rw [show s + tt - (b - tt) = (s - tai) - (b - e) + (tt - P K EB M0 M1 (b - tt)) by simp only [tai]; ring, abs_le]
    constructor <;> linarith [hp.1, hp.2, hs'.1, hs'.2, hb'.1, hb'.2]
  rw [show tai + (tt + P K EB M0 M1 (s + tt)) - e = P K EB M0 M1 (s + tt) - P K EB M0 M1 (b - tt) by
    simp only [tai]; ring]
  exact hl.trans (mul_le_mul_of_nonneg_left hd hpos)

/-- TDB round trips.  The TDB source arm subtracts exactly the closed form `tt + P(d)` at its own seconds `d`
    (no loop), so both round trips are within L·6K of the identity -/
theorem tdb_round_trip (hK : 0 ≤ K) (hEB : 0 ≤ EB) (hM1 : 0 ≤ M1) (tt t s : ℝ) (hs : |s - t| ≤ 5 * K) :
    let tdb := t + (tt + P K EB M0 M1 (s + tt))
    |(tdb - (tt + P K EB M0 M1 tdb)) - t| ≤ K * (1 + EB) * M1 * (6 * K) := by
  intro tdb
  have h := (target_deviation K EB M0 M1 hK hEB hM1 tt t s hs).1
  rw [show tdb - (tt + P K EB M0 M1 tdb) - t
      = tt + P K EB M0 M1 (s + tt) - (tt + P K EB M0 M1 (t + (tt + P K EB M0 M1 (s + tt)))) by simp only [tdb]; ring]
  exact h

theorem tdb_round_trip_rev (hK : 0 ≤ K) (hEB : 0 ≤ EB) (hM1 : 0 ≤ M1) (tt d s : ℝ) :
    let tai := d - (tt + P K EB M0 M1 d)
    |s - tai| ≤ 5 * K → |(tai + (tt + P K EB M0 M1 (s + tt))) - d| ≤ K * (1 + EB) * M1 * (6 * K) := by
  intro tai hs
  have hpos : 0 ≤ K * (1 + EB) * M1 := by positivity
  have hp := abs_le.mp (P_abs_le K EB M0 M1 hK d)
  have hs' := abs_le.mp hs
  have hl := P_lipschitz K EB M0 M1 hK hEB hM1 (s + tt) d
  have hd : |s + tt - d| ≤ 6 * K := by
    rw [show s + tt - d = (s - tai) - P K EB M0 M1 d by simp only [tai]; ring, abs_le]
    constructor <;> linarith [hp.1, hp.2, hs'.1, hs'.2]
  rw [show tai + (tt + P K EB M0 M1 (s + tt)) - d = P K EB M0 M1 (s + tt) - P K EB M0 M1 d by simp only [tai]; ring]
  exact hl.trans (mul_le_mul_of_nonneg_left hd hpos)

/-- ORDER, target arms, any two estimates (so also across different exit points of the TDB loop):
    instants further apart than L·(gap + 10K) keep their order — with either set of constants every
    gap ≥ 5.7·10⁻¹² s qualifies (`order_gap_numbers`), far below the property's 100 ns -/
theorem target_order (hK : 0 ≤ K) (hEB : 0 ≤ EB) (hM1 : 0 ≤ M1) (tt t1 t2 s1 s2 : ℝ)
    (h1 : |s1 - t1| ≤ 5 * K) (h2 : |s2 - t2| ≤ 5 * K) (hlt : t1 < t2)
    (hgap : K * (1 + EB) * M1 * ((t2 - t1) + 10 * K) < t2 - t1) :
    t1 + (tt + P K EB M0 M1 (s1 + tt)) < t2 + (tt + P K EB M0 M1 (s2 + tt)) := by
  have hpos : 0 ≤ K * (1 + EB) * M1 := by positivity
  have hl := P_lipschitz K EB M0 M1 hK hEB hM1 (s1 + tt) (s2 + tt)
  have h1' := abs_le.mp h1
  have h2' := abs_le.mp h2
  have hd : |s1 + tt - (s2 + tt)| ≤ (t2 - t1) + 10 * K := by
    rw [abs_le]; constructor <;> linarith [h1'.1, h1'.2, h2'.1, h2'.2]
  have h3 := abs_le.mp (hl.trans (mul_le_mul_of_nonneg_left hd hpos))
  linarith [h3.1, h3.2]

/-- ORDER, ET source arm, any two estimates -/
theorem et_source_order (hK : 0 ≤ K) (hEB : 0 ≤ EB) (hM1 : 0 ≤ M1) (tt e1 e2 b1 b2 : ℝ)
    (h1 : |b1 - e1| ≤ 5 * K) (h2 : |b2 - e2| ≤ 5 * K) (hlt : e1 < e2)
    (hgap : K * (1 + EB) * M1 * ((e2 - e1) + 10 * K) < e2 - e1) :
    e1 - (tt + P K EB M0 M1 (b1 - tt)) < e2 - (tt + P K EB M0 M1 (b2 - tt)) := by
  have hpos : 0 ≤ K * (1 + EB) * M1 := by positivity
  have hl := P_lipschitz K EB M0 M1 hK hEB hM1 (b1 - tt) (b2 - tt)
  have h1' := abs_le.mp h1
  have h2' := abs_le.mp h2
  have hd : |b1 - tt - (b2 - tt)| ≤ (e2 - e1) + 10 * K := by
    rw [abs_le]; constructor <;> linarith [h1'.1, h1'.2, h2'.1, h2'.2]
  have h3 := abs_le.mp (hl.trans (mul_le_mul_of_nonneg_left hd hpos))
  linarith [h3.1, h3.2]

/-- ORDER, TDB source arm: `d ↦ d − (tt + P d)` is strictly increasing as soon as L < 1 -/
theorem tdb_source_strictly_increasing (hK : 0 ≤ K) (hEB : 0 ≤ EB) (hM1 : 0 ≤ M1) (tt d1 d2 : ℝ)
    (hL : K * (1 + EB) * M1 < 1) (h : d1 < d2) :
    d1 - (tt + P K EB M0 M1 d1) < d2 - (tt + P K EB M0 M1 d2) := by
  have hl := P_lipschitz K EB M0 M1 hK hEB hM1 d1 d2
  rw [abs_sub_comm d1 d2, abs_of_pos (by linarith : 0 < d2 - d1)] at hl
  have h3 := abs_le.mp hl
  nlinarith [h3.1, h3.2]

/-! ### the loops of the code produce such estimates: shape of the three looping arms at ℝ -/

/-- ET target arm at ℝ: `tt + P(s + tt)` for an estimate `s` within 5K of the TAI seconds -/
theorem etTgtDeltaG_shape (hK : 0 ≤ K) (tt t : ℝ) :
    ∃ s, |s - t| ≤ 5 * K ∧ etTgtDeltaG Real.sin K EB M0 M1 tt t = tt + P K EB M0 M1 (s + tt) :=
  ⟨_, five_steps_near K _ (etStepTgtG_near K EB M0 M1 hK) t, by unfold etTgtDeltaG; exact deltaEtTaiG_real K EB M0 M1 tt _⟩

/-- ET source arm at ℝ: `tt + P(b − tt)` for an estimate `b` within 5K of the ET seconds -/
theorem etSrcDeltaG_shape (hK : 0 ≤ K) (tt e : ℝ) :
    ∃ b, |b - e| ≤ 5 * K ∧ etSrcDeltaG Real.sin K EB M0 M1 tt e = tt + P K EB M0 M1 (b - tt) :=
  ⟨_, five_steps_near K _ (etStepSrcG_near K EB M0 M1 hK) e, by unfold etSrcDeltaG; exact deltaEtTaiG_real K EB M0 M1 tt _⟩

/-- TDB target arm at ℝ, early exit included, for ANY threshold `eps` and initial `delta`:
    `P(s + tt)` (with `M0 := TAU/360·G0`, `M1 := G1`) for an estimate `s` within 5K of the TAI seconds -/
theorem tdbTgtGammaG_shape (hK : 0 ≤ K) (TAU c360 G0 G1 tt eps c1e8 t : ℝ) :
    ∃ s, |s - t| ≤ 5 * K ∧
      tdbTgtGammaG Real.sin (fun x : ℝ => |x|) TAU c360 G0 G1 K EB tt eps c1e8 t
        = P K EB (TAU / c360 * G0) G1 (s + tt) := by
  refine ⟨tdbLoopG (fun x : ℝ => |x|) (innerGG Real.sin TAU c360 G0 G1 K EB) eps 5 t c1e8, ?_, rfl⟩
  have h := tdbLoopG_near K hK (innerGG Real.sin TAU c360 G0 G1 K EB)
    (fun x => by rw [innerGG_real]; exact P_abs_le K EB _ G1 hK x) eps 5 t c1e8
  push_cast at h; exact h

/-! ### the statements of the property for the real-arithmetic algorithm (generic constants) -/

/-- (i) ET − TAI as computed by the TARGET arm vs the NAIF closed form at the resulting ET seconds -/
theorem et_target_closed_form (hK : 0 ≤ K) (hEB : 0 ≤ EB) (hM1 : 0 ≤ M1) (tt t : ℝ) :
    let off := etTgtDeltaG Real.sin K EB M0 M1 tt t
    |off - (tt + P K EB M0 M1 (t + off))| ≤ K * (1 + EB) * M1 * (6 * K) := by
  obtain ⟨s, hs, he⟩ := etTgtDeltaG_shape K EB M0 M1 hK tt t
  simp only [he]
  exact (target_deviation K EB M0 M1 hK hEB hM1 tt t s hs).1

/-- (i) ET − TAI as computed by the SOURCE arm vs the NAIF closed form at the given ET seconds -/
theorem et_source_closed_form (hK : 0 ≤ K) (hEB : 0 ≤ EB) (hM1 : 0 ≤ M1) (tt e : ℝ) (htt : 0 ≤ tt) :
    |etSrcDeltaG Real.sin K EB M0 M1 tt e - (tt + P K EB M0 M1 e)| ≤ K * (1 + EB) * M1 * (tt + 5 * K) := by
  obtain ⟨b, hb, he⟩ := etSrcDeltaG_shape K EB M0 M1 hK tt e
  rw [he]
  exact et_source_deviation K EB M0 M1 hK hEB hM1 tt e b htt hb

/-- (i) TDB − TAI as computed by the TARGET arm (`tt + gamma`) vs the ESA closed form at the resulting TDB seconds -/
theorem tdb_target_closed_form (hK : 0 ≤ K) (hEB : 0 ≤ EB) (TAU c360 G0 G1 tt eps c1e8 t : ℝ) (hG1 : 0 ≤ G1) :
    let off := tt + tdbTgtGammaG Real.sin (fun x : ℝ => |x|) TAU c360 G0 G1 K EB tt eps c1e8 t
    |off - (tt + P K EB (TAU / c360 * G0) G1 (t + off))| ≤ K * (1 + EB) * G1 * (6 * K) := by
  obtain ⟨s, hs, he⟩ := tdbTgtGammaG_shape K EB hK TAU c360 G0 G1 tt eps c1e8 t
  simp only [he]
  exact (target_deviation K EB _ G1 hK hEB hG1 tt t s hs).1

/-- (i) TDB − TAI as computed by the SOURCE arm IS the ESA closed form at the given TDB seconds -/
theorem tdb_source_closed_form (TAU c360 G0 G1 tt d : ℝ) :
    tt + innerGG Real.sin TAU c360 G0 G1 K EB d = tt + P K EB (TAU / c360 * G0) G1 d := rfl

/-- (ii) TAI → ET → TAI -/
theorem et_round_trip_real (hK : 0 ≤ K) (hEB : 0 ≤ EB) (hM1 : 0 ≤ M1) (tt t : ℝ) (htt : 0 ≤ tt) :
    let et := t + etTgtDeltaG Real.sin K EB M0 M1 tt t
    |(et - etSrcDeltaG Real.sin K EB M0 M1 tt et) - t| ≤ K * (1 + EB) * M1 * (tt + 11 * K) := by
  obtain ⟨s, hs, he⟩ := etTgtDeltaG_shape K EB M0 M1 hK tt t
  simp only [he]
  obtain ⟨b, hb, he'⟩ := etSrcDeltaG_shape K EB M0 M1 hK tt (t + (tt + P K EB M0 M1 (s + tt)))
  rw [he']
  exact et_round_trip K EB M0 M1 hK hEB hM1 tt t s b htt hs hb

/-- (ii) ET → TAI → ET -/
theorem et_round_trip_rev_real (hK : 0 ≤ K) (hEB : 0 ≤ EB) (hM1 : 0 ≤ M1) (tt e : ℝ) (htt : 0 ≤ tt) :
    let tai := e - etSrcDeltaG Real.sin K EB M0 M1 tt e
    |(tai + etTgtDeltaG Real.sin K EB M0 M1 tt tai) - e| ≤ K * (1 + EB) * M1 * (tt + 11 * K) := by
  obtain ⟨b, hb, he⟩ := etSrcDeltaG_shape K EB M0 M1 hK tt e
  simp only [he]
  obtain ⟨s, hs, he'⟩ := etTgtDeltaG_shape K EB M0 M1 hK tt (e - (tt + P K EB M0 M1 (b - tt)))
  rw [he']
  exact et_round_trip_rev K EB M0 M1 hK hEB hM1 tt e b s htt hb hs

/-- (ii) TAI → TDB → TAI -/
theorem tdb_round_trip_real (hK : 0 ≤ K) (hEB : 0 ≤ EB) (TAU c360 G0 G1 tt eps c1e8 t : ℝ) (hG1 : 0 ≤ G1) :
    let tdb := t + (tt + tdbTgtGammaG Real.sin (fun x : ℝ => |x|) TAU c360 G0 G1 K EB tt eps c1e8 t)
    |(tdb - (tt + innerGG Real.sin TAU c360 G0 G1 K EB tdb)) - t| ≤ K * (1 + EB) * G1 * (6 * K) := by
  obtain ⟨s, hs, he⟩ := tdbTgtGammaG_shape K EB hK TAU c360 G0 G1 tt eps c1e8 t
  simp only [he, innerGG_real]
  exact tdb_round_trip K EB _ G1 hK hEB hG1 tt t s hs

/-- (ii) TDB → TAI → TDB -/
theorem tdb_round_trip_rev_real (hK : 0 ≤ K) (hEB : 0 ≤ EB) (TAU c360 G0 G1 tt eps c1e8 d : ℝ) (hG1 : 0 ≤ G1) :
    let tai := d - (tt + innerGG Real.sin TAU c360 G0 G1 K EB d)
    |(tai + (tt + tdbTgtGammaG Real.sin (fun x : ℝ => |x|) TAU c360 G0 G1 K EB tt eps c1e8 tai)) - d|
      ≤ K * (1 + EB) * G1 * (6 * K) := by
  simp only [innerGG_real]
  obtain ⟨s, hs, he⟩ := tdbTgtGammaG_shape K EB hK TAU c360 G0 G1 tt eps c1e8 (d - (tt + P K EB (TAU / c360 * G0) G1 d))
  rw [he]
  exact tdb_round_trip_rev K EB _ G1 hK hEB hG1 tt d s hs

/-- (iii) order, TAI → ET -/
theorem et_target_order_real (hK : 0 ≤ K) (hEB : 0 ≤ EB) (hM1 : 0 ≤ M1) (tt t1 t2 : ℝ) (hlt : t1 < t2)
    (hgap : K * (1 + EB) * M1 * ((t2 - t1) + 10 * K) < t2 - t1) :
    t1 + etTgtDeltaG Real.sin K EB M0 M1 tt t1 < t2 + etTgtDeltaG Real.sin K EB M0 M1 tt t2 := by
  obtain ⟨s1, hs1, he1⟩ := etTgtDeltaG_shape K EB M0 M1 hK tt t1
  obtain ⟨s2, hs2, he2⟩ := etTgtDeltaG_shape K EB M0 M1 hK tt t2
  rw [he1, he2]
  exact target_order K EB M0 M1 hK hEB hM1 tt t1 t2 s1 s2 hs1 hs2 hlt hgap

/-- (iii) order, ET → TAI -/
theorem et_source_order_real (hK : 0 ≤ K) (hEB : 0 ≤ EB) (hM1 : 0 ≤ M1) (tt e1 e2 : ℝ) (hlt : e1 < e2)
    (hgap : K * (1 + EB) * M1 * ((e2 - e1) + 10 * K) < e2 - e1) :
    e1 - etSrcDeltaG Real.sin K EB M0 M1 tt e1 < e2 - etSrcDeltaG Real.sin K EB M0 M1 tt e2 := by
  obtain ⟨b1, hb1, he1⟩ := etSrcDeltaG_shape K EB M0 M1 hK tt e1
  obtain ⟨b2, hb2, he2⟩ := etSrcDeltaG_shape K EB M0 M1 hK tt e2
  rw [he1, he2]
  exact et_source_order K EB M0 M1 hK hEB hM1 tt e1 e2 b1 b2 hb1 hb2 hlt hgap

/-- (iii) order, TAI → TDB (the two instants may leave the loop at different rounds) -/
theorem tdb_target_order_real (hK : 0 ≤ K) (hEB : 0 ≤ EB) (TAU c360 G0 G1 tt eps c1e8 t1 t2 : ℝ) (hG1 : 0 ≤ G1) (hlt : t1 < t2)
    (hgap : K * (1 + EB) * G1 * ((t2 - t1) + 10 * K) < t2 - t1) :
    t1 + (tt + tdbTgtGammaG Real.sin (fun x : ℝ => |x|) TAU c360 G0 G1 K EB tt eps c1e8 t1)
      < t2 + (tt + tdbTgtGammaG Real.sin (fun x : ℝ => |x|) TAU c360 G0 G1 K EB tt eps c1e8 t2) := by
  obtain ⟨s1, hs1, he1⟩ := tdbTgtGammaG_shape K EB hK TAU c360 G0 G1 tt eps c1e8 t1
  obtain ⟨s2, hs2, he2⟩ := tdbTgtGammaG_shape K EB hK TAU c360 G0 G1 tt eps c1e8 t2
  rw [he1, he2]
  exact target_order K EB _ G1 hK hEB hG1 tt t1 t2 s1 s2 hs1 hs2 hlt hgap

/-- (iii) order, TDB → TAI: strictly increasing, no gap needed -/
theorem tdb_source_order_real (hK : 0 ≤ K) (hEB : 0 ≤ EB) (TAU c360 G0 G1 tt d1 d2 : ℝ) (hG1 : 0 ≤ G1)
    (hL : K * (1 + EB) * G1 < 1) (h : d1 < d2) :
    d1 - (tt + innerGG Real.sin TAU c360 G0 G1 K EB d1) < d2 - (tt + innerGG Real.sin TAU c360 G0 G1 K EB d2) := by
  simp only [innerGG_real]
  exact tdb_source_strictly_increasing K EB _ G1 hK hEB hG1 tt d1 d2 hL h

/-- (iii) sharper for ET, whose loop has no exit test: each loop body is (1+L)-Lipschitz, so TAI ↦ ET is
    STRICTLY increasing (no gap needed) whenever L(1+L)⁵ < 1 -/
theorem et_target_strictly_increasing (hK : 0 ≤ K) (hEB : 0 ≤ EB) (hM1 : 0 ≤ M1) (tt : ℝ)
    (hsmall : K * (1 + EB) * M1 * (1 + K * (1 + EB) * M1) ^ 5 < 1) (t1 t2 : ℝ) (h : t1 < t2) :
    t1 + etTgtDeltaG Real.sin K EB M0 M1 tt t1 < t2 + etTgtDeltaG Real.sin K EB M0 M1 tt t2 := by
  have hL : 0 ≤ K * (1 + EB) * M1 := by positivity
  have hstep : ∀ a b, |etStepTgtG Real.sin K EB M0 M1 a - etStepTgtG Real.sin K EB M0 M1 b|
      ≤ (1 + K * (1 + EB) * M1) * |a - b| := by
    intro a b
    rw [etStepTgtG_real, etStepTgtG_real,
      show a + P K EB M0 M1 a - (b + P K EB M0 M1 b) = (a - b) + (P K EB M0 M1 a - P K EB M0 M1 b) by ring]
    refine (abs_add_le _ _).trans ?_
    have := P_lipschitz K EB M0 M1 hK hEB hM1 a b
    linarith
  have h5 : ∀ a b, |etStepTgtG Real.sin K EB M0 M1 (etStepTgtG Real.sin K EB M0 M1 (etStepTgtG Real.sin K EB M0 M1
        (etStepTgtG Real.sin K EB M0 M1 (etStepTgtG Real.sin K EB M0 M1 a))))
      - etStepTgtG Real.sin K EB M0 M1 (etStepTgtG Real.sin K EB M0 M1 (etStepTgtG Real.sin K EB M0 M1
        (etStepTgtG Real.sin K EB M0 M1 (etStepTgtG Real.sin K EB M0 M1 b))))|
      ≤ (1 + K * (1 + EB) * M1) ^ 5 * |a - b| := by
    intro a b
    have hc : 0 ≤ 1 + K * (1 + EB) * M1 := by linarith
    refine (hstep _ _).trans ?_
    rw [show (1 + K * (1 + EB) * M1) ^ 5 * |a - b|
        = (1 + K * (1 + EB) * M1) * ((1 + K * (1 + EB) * M1) * ((1 + K * (1 + EB) * M1) *
          ((1 + K * (1 + EB) * M1) * ((1 + K * (1 + EB) * M1) * |a - b|)))) by ring]
    refine mul_le_mul_of_nonneg_left ((hstep _ _).trans ?_) hc
    refine mul_le_mul_of_nonneg_left ((hstep _ _).trans ?_) hc
    refine mul_le_mul_of_nonneg_left ((hstep _ _).trans ?_) hc
    exact mul_le_mul_of_nonneg_left (hstep _ _) hc
  unfold etTgtDeltaG
  simp only [deltaEtTaiG_real]
  have h1 := P_lipschitz K EB M0 M1 hK hEB hM1
    (etStepTgtG Real.sin K EB M0 M1 (etStepTgtG Real.sin K EB M0 M1 (etStepTgtG Real.sin K EB M0 M1
        (etStepTgtG Real.sin K EB M0 M1 (etStepTgtG Real.sin K EB M0 M1 t1)))) + tt)
    (etStepTgtG Real.sin K EB M0 M1 (etStepTgtG Real.sin K EB M0 M1 (etStepTgtG Real.sin K EB M0 M1
        (etStepTgtG Real.sin K EB M0 M1 (etStepTgtG Real.sin K EB M0 M1 t2)))) + tt)
  rw [add_sub_add_right_eq_sub] at h1
  have h2 := h5 t1 t2
  rw [abs_sub_comm t1 t2, abs_of_pos (by linarith : 0 < t2 - t1)] at h2
  have h3 := abs_le.mp (h1.trans (mul_le_mul_of_nonneg_left h2 hL))
  have h7 : K * (1 + EB) * M1 * ((1 + K * (1 + EB) * M1) ^ 5 * (t2 - t1)) < t2 - t1 := by
    have : 0 < t2 - t1 := by linarith
    calc K * (1 + EB) * M1 * ((1 + K * (1 + EB) * M1) ^ 5 * (t2 - t1))
        = K * (1 + EB) * M1 * (1 + K * (1 + EB) * M1) ^ 5 * (t2 - t1) := by ring
      _ < 1 * (t2 - t1) := mul_lt_mul_of_pos_right hsmall this
      _ = t2 - t1 := one_mul _
  linarith [h3.1, h3.2]

/-! ### the numbers, for the NAIF (ET) and ESA (TDB) constants -/

/-- ET: closed-form deviation ≤ 3.4·10⁻¹² s (target) and ≤ 1.09·10⁻⁸ s (source), round trip ≤ 1.09·10⁻⁸ s
    (< 20 ns), strictly increasing, and every gap ≥ 100 ns is an order-preserving gap -/
theorem et_numbers :
    let K : ℝ := 1657 / 1000000; let EB : ℝ := 1671 / 100000; let M1 : ℝ := 199096871 / 1000000000000000
    let tt : ℝ := 32184 / 1000
    K * (1 + EB) * M1 * (6 * K) ≤ 34 / 10000000000000 ∧
    K * (1 + EB) * M1 * (tt + 11 * K) ≤ 109 / 10000000000 ∧
    K * (1 + EB) * M1 * (1 + K * (1 + EB) * M1) ^ 5 < 1 ∧
    K * (1 + EB) * M1 * (tt + 5 * K) ≤ 109 / 10000000000 ∧
    K * (1 + EB) * M1 ≤ 4 / 10000000000 ∧ 10 * K ≤ 2 / 100 := by
  norm_num

/-- TDB (same shape of formula with the ESA constants; the mean anomaly rate is 1.99091…e-7 rad/s) -/
theorem tdb_numbers :
    let K : ℝ := 829 / 500000; let EB : ℝ := 167 / 10000; let M1 : ℝ := 1990910018065731 / 10000000000000000000000
    let tt : ℝ := 32184 / 1000
    K * (1 + EB) * M1 * (6 * K) ≤ 34 / 10000000000000 ∧
    K * (1 + EB) * M1 * (tt + 11 * K) ≤ 109 / 10000000000 ∧
    K * (1 + EB) * M1 * (1 + K * (1 + EB) * M1) ^ 5 < 1 ∧
    K * (1 + EB) * M1 * (tt + 5 * K) ≤ 109 / 10000000000 ∧
    K * (1 + EB) * M1 ≤ 4 / 10000000000 ∧ 10 * K ≤ 2 / 100 := by
  norm_num

/-- a gap of 100 ns or more is order preserving for any L ≤ 4·10⁻¹⁰ and 10K ≤ 0.02 -/
theorem order_gap_numbers (L K10 gap : ℝ) (hL0 : 0 ≤ L) (hL : L ≤ 4 / 10000000000) (hK : K10 ≤ 2 / 100)
    (hgap : 1 / 10000000 ≤ gap) : L * (gap + K10) < gap := by
  have h1 : L * (gap + K10) ≤ 4 / 10000000000 * (gap + 2 / 100) := by
    have hg : 0 ≤ gap + K10 ∨ gap + K10 < 0 := le_or_gt _ _
    rcases hg with hg | hg
    · exact (mul_le_mul_of_nonneg_right hL hg).trans (mul_le_mul_of_nonneg_left (by linarith) (by norm_num))
    · have : L * (gap + K10) ≤ 0 := mul_nonpos_of_nonneg_of_nonpos hL0 hg.le
      nlinarith
  linarith

/-- ET: the statements of the property with the NAIF constants plugged in — PARTIAL: real arithmetic.
    For every `t` (TAI seconds past J2000), `e` (ET seconds past J2000): closed form within 3.4·10⁻¹² s
    (TAI → ET) resp. 1.09·10⁻⁸ s (ET → TAI), both round trips within 1.09·10⁻⁸ s, order preserved (strictly
    for TAI → ET; for gaps of 100 ns or more for ET → TAI). -/
theorem et_real_algorithm_partial (t e : ℝ) :
    let K : ℝ := 1657 / 1000000; let EB : ℝ := 1671 / 100000; let M0 : ℝ := 1559999 / 250000
    let M1 : ℝ := 199096871 / 1000000000000000; let tt : ℝ := 32184 / 1000
    let toEt : ℝ → ℝ := fun t => t + etTgtDeltaG Real.sin K EB M0 M1 tt t
    let toTai : ℝ → ℝ := fun e => e - etSrcDeltaG Real.sin K EB M0 M1 tt e
    |(toEt t - t) - (tt + P K EB M0 M1 (toEt t))| ≤ 34 / 10000000000000 ∧
    |(e - toTai e) - (tt + P K EB M0 M1 e)| ≤ 109 / 10000000000 ∧
    |toTai (toEt t) - t| ≤ 109 / 10000000000 ∧
    |toEt (toTai e) - e| ≤ 109 / 10000000000 ∧
    (∀ t', t < t' → toEt t < toEt t') ∧
    (∀ e', e + 1 / 10000000 ≤ e' → toTai e < toTai e') := by
  intro K EB M0 M1 tt toEt toTai
  have hK : (0:ℝ) ≤ K := by norm_num [K]
  have hEB : (0:ℝ) ≤ EB := by norm_num [EB]
  have hM1 : (0:ℝ) ≤ M1 := by norm_num [M1]
  have htt : (0:ℝ) ≤ tt := by norm_num [tt]
  have hn := et_numbers
  simp only at hn
  refine ⟨?_, ?_, ?_, ?_, ?_, ?_⟩
  · have h := et_target_closed_form K EB M0 M1 hK hEB hM1 tt t
    simp only at h
    simp only [toEt, add_sub_cancel_left]
    exact h.trans hn.1
  · have h := et_source_closed_form K EB M0 M1 hK hEB hM1 tt e htt
    simp only [toTai, sub_sub_cancel]
    exact h.trans hn.2.2.2.1
  · exact (et_round_trip_real K EB M0 M1 hK hEB hM1 tt t htt).trans hn.2.1
  · exact (et_round_trip_rev_real K EB M0 M1 hK hEB hM1 tt e htt).trans hn.2.1
  · intro t' h
    exact et_target_strictly_increasing K EB M0 M1 hK hEB hM1 tt hn.2.2.1 t t' h
  · intro e' h
    refine et_source_order_real K EB M0 M1 hK hEB hM1 tt e e' (by linarith) ?_
    exact order_gap_numbers _ _ _ (by positivity) hn.2.2.2.2.1 hn.2.2.2.2.2 (by linarith)

/-- TDB: the statements of the property with the ESA constants plugged in (`TAU = 2π`, 357.528°, the loop's
    threshold 1e-9 and initial delta 1e8 as in the code; the theorem does not depend on these two) — PARTIAL:
    real arithmetic.  For every `t` (TAI seconds past J2000), `d` (TDB seconds past J2000): closed form within
    3.4·10⁻¹² s (TAI → TDB; exact for TDB → TAI), both round trips within 3.4·10⁻¹² s, order preserved
    (gaps of 100 ns or more for TAI → TDB, whose loop may exit at different rounds; strictly for TDB → TAI). -/
theorem tdb_real_algorithm_partial (t d : ℝ) :
    let K : ℝ := 829 / 500000; let EB : ℝ := 167 / 10000; let G0 : ℝ := 357528 / 1000
    let G1 : ℝ := 1990910018065731 / 10000000000000000000000; let tt : ℝ := 32184 / 1000
    let g0 : ℝ := 2 * Real.pi / 360 * G0
    let toTdb : ℝ → ℝ := fun t => t + (tt + tdbTgtGammaG Real.sin (fun x : ℝ => |x|) (2 * Real.pi) 360 G0 G1 K EB tt
                                          (1 / 1000000000) 100000000 t)
    let toTai : ℝ → ℝ := fun d => d - (tt + innerGG Real.sin (2 * Real.pi) 360 G0 G1 K EB d)
    |(toTdb t - t) - (tt + P K EB g0 G1 (toTdb t))| ≤ 34 / 10000000000000 ∧
    (d - toTai d) = tt + P K EB g0 G1 d ∧
    |toTai (toTdb t) - t| ≤ 34 / 10000000000000 ∧
    |toTdb (toTai d) - d| ≤ 34 / 10000000000000 ∧
    (∀ t', t + 1 / 10000000 ≤ t' → toTdb t < toTdb t') ∧
    (∀ d', d < d' → toTai d < toTai d') := by
  intro K EB G0 G1 tt g0 toTdb toTai
  have hK : (0:ℝ) ≤ K := by norm_num [K]
  have hEB : (0:ℝ) ≤ EB := by norm_num [EB]
  have hG1 : (0:ℝ) ≤ G1 := by norm_num [G1]
  have hn := tdb_numbers
  simp only at hn
  refine ⟨?_, ?_, ?_, ?_, ?_, ?_⟩
  · have h := tdb_target_closed_form K EB hK hEB (2 * Real.pi) 360 G0 G1 tt (1 / 1000000000) 100000000 t hG1
    simp only at h
    simp only [toTdb, add_sub_cancel_left]
    exact h.trans hn.1
  · simp only [toTai, sub_sub_cancel]; rfl
  · exact (tdb_round_trip_real K EB hK hEB (2 * Real.pi) 360 G0 G1 tt _ _ t hG1).trans hn.1
  · exact (tdb_round_trip_rev_real K EB hK hEB (2 * Real.pi) 360 G0 G1 tt _ _ d hG1).trans hn.1
  · intro t' h
    refine tdb_target_order_real K EB hK hEB (2 * Real.pi) 360 G0 G1 tt _ _ t t' hG1 (by linarith) ?_
    exact order_gap_numbers _ _ _ (by positivity) hn.2.2.2.2.1 hn.2.2.2.2.2 (by linarith)
  · intro d' h
    refine tdb_source_order_real K EB hK hEB (2 * Real.pi) 360 G0 G1 tt d d' hG1 ?_ h
    exact lt_of_le_of_lt hn.2.2.2.2.1 (by norm_num)

/-- the constants of the two theorems above are the ones of the sources (as exact rationals of the decimal
    literals), which `naif_constants_pinned` ties to naif0012.txt -/
theorem real_constants_are_the_sources :
    Gen.NAIF_K_SRC_RAT = (1657, 1000000) ∧ Gen.NAIF_EB_SRC_RAT = (1671, 100000) ∧
    Gen.NAIF_M0_SRC_RAT = (1559999, 250000) ∧ Gen.NAIF_M1_SRC_RAT = (199096871, 1000000000000000) ∧
    Gen.TDB_K_SRC_RAT = (829, 500000) ∧ Gen.TDB_EB_SRC_RAT = (167, 10000) ∧
    Gen.TDB_G0_DEG_SRC_RAT.1 * 1000 = 357528 * Gen.TDB_G0_DEG_SRC_RAT.2 ∧
    Gen.TDB_G1_SRC_RAT = (1990910018065731, 10000000000000000000000) ∧
    Gen.TT_OFFSET_MS * 1000 = 32184 * 1000 := by decide

end Hifi.C07
