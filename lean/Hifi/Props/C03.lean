import Hifi.Lemmas.Duration
/-
  C03  Duration ordering and equality agree with the signed value.
-/
namespace Hifi.C03
open Hifi Hifi.Spec

/-- derived `Ord` on canonical durations is the order of the signed counts -/
theorem cmp_is_value_order (a b : Dur) (ha : a.Canon) (hb : b.Canon) :
    Dur.cmp a b = (if a.val < b.val then -1 else if a.val > b.val then 1 else 0) := cmp_spec a b ha hb

theorem lt_iff (a b : Dur) (ha : a.Canon) (hb : b.Canon) : Dur.lt a b = true ↔ a.val < b.val := by
  unfold Dur.lt; rw [cmp_spec a b ha hb]; simp only [decide_eq_true_eq]; grind

theorem gt_iff (a b : Dur) (ha : a.Canon) (hb : b.Canon) : Dur.gt a b = true ↔ a.val > b.val := by
  unfold Dur.gt; rw [cmp_spec a b ha hb]; simp only [decide_eq_true_eq]; grind

/-- total order: exactly one of <, =, > on the values; antisymmetric; transitive (transport from ℤ) -/
theorem cmp_antisymm (a b : Dur) (ha : a.Canon) (hb : b.Canon) : Dur.cmp a b = - Dur.cmp b a := by
  rw [cmp_spec a b ha hb, cmp_spec b a hb ha]; grind

theorem cmp_trans (a b c : Dur) (ha : a.Canon) (hb : b.Canon) (hc : c.Canon)
    (h1 : Dur.cmp a b = -1) (h2 : Dur.cmp b c = -1) : Dur.cmp a c = -1 := by
  rw [cmp_spec _ _ ha hb] at h1; rw [cmp_spec _ _ hb hc] at h2; rw [cmp_spec _ _ ha hc]; grind

theorem cmp_eq_zero_iff (a b : Dur) (ha : a.Canon) (hb : b.Canon) : Dur.cmp a b = 0 ↔ a = b := by
  rw [cmp_spec a b ha hb]
  constructor
  · intro h; apply canon_unique a b ha hb; grind
  · intro h; subst h; simp

/-- `==` holds exactly for equal counts, and for exact opposites within one century of zero -/
theorem eq_iff (a b : Dur) (ha : a.Canon) (hb : b.Canon) :
    Dur.eqb a b = true ↔ (a.val = b.val ∨ (a.val = -b.val ∧ -NPCs < a.val ∧ a.val < NPCs)) :=
  eqb_spec a b ha hb

/-- hence `==` never holds between durations of different magnitude -/
theorem eq_same_magnitude (a b : Dur) (ha : a.Canon) (hb : b.Canon) (h : Dur.eqb a b = true) :
    a.val.natAbs = b.val.natAbs := by
  have := (eqb_spec a b ha hb).mp h; omega

/-- negative < zero < positive -/
theorem sign_order (a : Dur) (ha : a.Canon) :
    (a.val < 0 ↔ Dur.lt a Dur.ZERO = true) ∧ (a.val > 0 ↔ Dur.gt a Dur.ZERO = true) := by
  have hz : Dur.ZERO.Canon := by unfold Dur.Canon Dur.ZERO; simp only [NPC_eq]; decide
  have hv : Dur.ZERO.val = 0 := by decide
  rw [lt_iff a _ ha hz, gt_iff a _ ha hz, hv]; exact ⟨Iff.rfl, Iff.rfl⟩

/-- a + b > a exactly when b is positive, away from saturation -/
theorem add_gt_iff_pos (a b : Dur) (ha : a.Canon) (hb : b.Canon)
    (hns : DMIN ≤ a.val + b.val ∧ a.val + b.val ≤ DMAX) :
    Dur.gt (Dur.add a b) a = true ↔ b.val > 0 := by
  have hs := add_spec a b ha hb
  rw [gt_iff _ _ hs.1 ha, hs.2]
  unfold DMIN DMAX at hns; simp only [NPCs_eq] at hns
  rw [clampD_mid] <;> omega

/-- min / max return the operand with the smaller / larger count -/
theorem min_spec (a b : Dur) (ha : a.Canon) (hb : b.Canon) :
    (Dur.min a b).val = (if a.val < b.val then a.val else b.val) := by
  unfold Dur.min
  by_cases h : Dur.lt a b = true
  · rw [if_pos h, if_pos ((lt_iff a b ha hb).mp h)]
  · rw [if_neg h, if_neg (fun x => h ((lt_iff a b ha hb).mpr x))]

theorem max_spec (a b : Dur) (ha : a.Canon) (hb : b.Canon) :
    (Dur.max a b).val = (if a.val > b.val then a.val else b.val) := by
  unfold Dur.max
  by_cases h : Dur.gt a b = true
  · rw [if_pos h, if_pos ((gt_iff a b ha hb).mp h)]
  · rw [if_neg h, if_neg (fun x => h ((gt_iff a b ha hb).mpr x))]

-- non-vacuity / the documented non-identity is real: -15 min == +15 min
example : Dur.eqb ⟨-1, NPC - 900000000000⟩ ⟨0, 900000000000⟩ = true := by decide
-- and the repaired defect stays repaired in the model: (1, NPC/4) ≠ (0, 3 NPC/4)
example : Dur.eqb ⟨1, 788940000000000000⟩ ⟨0, 2366820000000000000⟩ = false := by decide

end Hifi.C03
