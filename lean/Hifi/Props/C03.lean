import Hifi.Lemmas.Duration
/-
  C03  Duration ordering and equality agree with the signed value.
-/
namespace Hifi.C03
open Hifi Hifi.Spec

/-- derived `Ord` on canonical durations is the order of the signed counts -/
theorem cmp_is_value_order (a b : Dur) (ha : a.Canon) (hb : b.Canon) :
    Dur.cmp a b = (if a.val < b.val then -1 else if a.val > b.val then 1 else 0) := cmp_spec a b ha hb

theorem lt_iff (a b : Dur) (ha : a.Canon) (hb : b.Canon) : Dur.lt a b = true ↔ a.val < b.val := by
  unfold Dur.lt; rw [cmp_spec a b ha hb]; simp only [decide_eq_true_eq]; grind

theorem gt_iff (a b : Dur) (ha : a.Canon) (hb : b.Canon) : Dur.gt a b = true ↔ a.val > b.val := by
  unfold Dur.gt; rw [cmp_spec a b ha hb]; simp only [decide_eq_true_eq]; grind

/-- total order: exactly one of <, =, > on the values; antisymmetric; transitive (transport from ℤ) -/
theorem cmp_antisymm (a b : Dur) (ha : a.Canon) (hb : b.Canon) : Dur.cmp a b = - Dur.cmp b a := by
  rw [cmp_spec a b ha hb, cmp_spec b a hb ha]; grind

theorem cmp_trans (a b c : Dur) (ha : a.Canon) (hb : b.Canon) (hc : c.Canon)
    (h1 : Dur.cmp a b = -1) (h2 : Dur.cmp b c = -1) : Dur.cmp a c = -1 := by
  rw [cmp_spec _ _ ha hb] at h1; rw [cmp_spec _ _ hb hc] at h2; rw [cmp_spec _ _ ha hc]; grind

theorem cmp_eq_zero_iff (a b : Dur) (ha : a.Canon) (hb : b.Canon) : Dur.cmp a b = 0 ↔ a = b := by
  rw [cmp_spec a b ha hb]
  constructor
  · intro h; apply canon_unique a b ha hb; grind
  · intro h; subst h; simp

/-- `==` holds exactly for equal counts, and for exact opposites within one century of zero -/
theorem eq_iff (a b : Dur) (ha : a.Canon) (hb : b.Canon) :
    Dur.eqb a b = true ↔ (a.val = b.val ∨ (a.val = -b.val ∧ -NPCs < a.val ∧ a.val < NPCs)) :=
  eqb_spec a b ha hb

/-- hence `==` never holds between durations of different magnitude -/
theorem eq_same_magnitude (a b : Dur) (ha : a.Canon) (hb : b.Canon) (h : Dur.eqb a b = true) :
    a.val.natAbs = b.val.natAbs := by
  have := (eqb_spec a b ha hb).mp h; omega

/-- negative < zero < positive -/
theorem sign_order (a : Dur) (ha : a.Canon) :
    (a.val < 0 ↔ Dur.lt a Dur.ZERO = true) ∧ (a.val > 0 ↔ Dur.gt a Dur.ZERO = true) := by
  have hz : Dur.ZERO.Canon := by unfold Dur.Canon Dur.ZERO; simp only [NPC_eq]; decide
  have hv : Dur.ZERO.val = 0 := by decide
  rw [lt_iff a _ ha hz, gt_iff a _ ha hz, hv]; exact ⟨Iff.rfl, Iff.rfl⟩

/-- a + b > a exactly when b is positive, away from saturation -/
theorem add_gt_iff_pos (a b : Dur) (ha : a.Canon) (hb : b.Canon)
    (hns : DMIN ≤ a.val + b.val ∧ a.val + b.val ≤ DMAX) :
    Dur.gt (Dur.add a b) a = true ↔ b.val > 0 := by
  have hs := add_spec a b ha hb
  rw [gt_iff _ _ hs.1 ha, hs.2]
  unfold DMIN DMAX at hns; simp only [NPCs_eq] at hns
  rw [clampD_mid] <;> omega

/-- min / max return the operand with the smaller / larger count -/
theorem min_spec (a b : Dur) (ha : a.Canon) (hb : b.Canon) :
    (Dur.min a b).val = (if a.val < b.val then a.val else b.val) := by
  unfold Dur.min
  by_cases h : Dur.lt a b = true
  · rw [if_pos h, if_pos ((lt_iff a b ha hb).mp h)]
  · rw [if_neg h, if_neg (fun x => h ((lt_iff a b ha hb).mpr x))]

theorem max_spec (a b : Dur) (ha : a.Canon) (hb : b.Canon) :
    (Dur.max a b).val = (if a.val > b.val then a.val else b.val) := by
  unfold Dur.max
  by_cases h : Dur.gt a b = true
  · rw [if_pos h, if_pos ((gt_iff a b ha hb).mp h)]
  · rw [if_neg h, if_neg (fun x => h ((gt_iff a b ha hb).mpr x))]

-- non-vacuity / the documented non-identity is real: -15 min == +15 min
example : Dur.eqb ⟨-1, NPC - 900000000000⟩ ⟨0, 900000000000⟩ = true := by decide
-- and the repaired defect stays repaired in the model: (1, NPC/4) ≠ (0, 3 NPC/4)
example : Dur.eqb ⟨1, 788940000000000000⟩ ⟨0, 2366820000000000000⟩ = false := by decide


/-! ### order and equality of RESULTS of arithmetic (the theorem behind the correspondence op `cmp_via`)

Every arithmetic entry point returns a canonical duration (C01), so comparing a result with any canonical duration is
comparing the (clamped) exact count with that duration's count — whatever the operands were.  A seeded change that left
`(c, one century of ns)` behind `+=` or `abs` breaks exactly the `Canon` conjunct these statements rest on. -/

theorem cmp_after_add (a b c : Dur) (ha : a.Canon) (hb : b.Canon) (hc : c.Canon) :
    Dur.cmp (Dur.add a b) c = (if clampD (a.val + b.val) < c.val then -1 else if clampD (a.val + b.val) > c.val then 1 else 0) := by
  have h := add_spec a b ha hb
  rw [cmp_spec _ _ h.1 hc, h.2]

theorem cmp_after_sub (a b c : Dur) (ha : a.Canon) (hb : b.Canon) (hc : c.Canon) :
    Dur.cmp (Dur.sub a b) c = (if clampD (a.val - b.val) < c.val then -1 else if clampD (a.val - b.val) > c.val then 1 else 0) := by
  have h := sub_spec a b ha hb
  rw [cmp_spec _ _ h.1 hc, h.2]

theorem cmp_after_neg_abs (a c : Dur) (ha : a.Canon) (hc : c.Canon) :
    (∃ r, Dur.neg a = .ok r ∧ Dur.cmp r c = (if clampD (-a.val) < c.val then -1 else if clampD (-a.val) > c.val then 1 else 0)) ∧
    (∃ r, Dur.abs a = .ok r ∧ Dur.cmp r c = (if clampD (if a.val < 0 then -a.val else a.val) < c.val then -1
        else if clampD (if a.val < 0 then -a.val else a.val) > c.val then 1 else 0)) := by
  obtain ⟨r1, e1, c1, v1⟩ := neg_spec a ha
  obtain ⟨r2, e2, c2, v2⟩ := abs_spec a ha
  exact ⟨⟨r1, e1, by rw [cmp_spec _ _ c1 hc, v1]⟩, ⟨r2, e2, by rw [cmp_spec _ _ c2 hc, v2]⟩⟩

/-- a result compared with the freshly built duration of the same count is EQUAL (cmp = 0, == holds): the century landing
    of the seeded changes, 36 524 days + 1 day against one century -/
theorem result_equals_rebuilt (a b : Dur) (ha : a.Canon) (hb : b.Canon) :
    Dur.cmp (Dur.add a b) (Dur.fromTotal (clampD (a.val + b.val))) = 0 ∧
    Dur.eqb (Dur.add a b) (Dur.fromTotal (clampD (a.val + b.val))) = true := by
  have h := add_spec a b ha hb
  have f := fromTotal_spec (clampD (a.val + b.val))
  have hv : (Dur.fromTotal (clampD (a.val + b.val))).val = clampD (a.val + b.val) := by
    rw [f.2]; have := clampD_range (a.val + b.val); exact clampD_mid this.1 this.2
  have he : Dur.add a b = Dur.fromTotal (clampD (a.val + b.val)) := canon_unique _ _ h.1 f.1 (by rw [h.2, hv])
  rw [← he]
  exact ⟨(cmp_eq_zero_iff _ _ h.1 h.1).mpr rfl, (eqb_spec _ _ h.1 h.1).mpr (Or.inl rfl)⟩

example : Dur.add ⟨0, 36524 * 86400000000000⟩ ⟨0, 86400000000000⟩ = ⟨1, 0⟩ := by decide +kernel

end Hifi.C03
