import Hifi.Lemmas.DurText
/-
  C11  Duration decomposition and text form are exact and parse back identically.

  Reading of the property (Spec/DurText.lean): the decomposition of a duration of `v` ns is THE tuple
  (days, h < 24, min < 60, s < 60, ms < 1000, µs < 1000, ns < 1000) whose weighted sum is |v|, with
  the sign of `v`; the text form is `Spec.DurText.render` of that tuple; parsing the text form gives
  the duration back; the documented spellings denote their units; offsets denote ±(h·3600+m·60+s) s.

  Every theorem quantifies over ALL canonical durations unless it says otherwise.
-/
namespace Hifi.C11
open Hifi Hifi.Spec Hifi.DurText Hifi.Spec.DurText

/-- the unit lengths the code uses are the ones the property speaks of -/
theorem consts_pinned :
    Gen.NANOSECONDS_PER_DAY = NS_PER_D ∧ Gen.NANOSECONDS_PER_HOUR = NS_PER_H ∧
    Gen.NANOSECONDS_PER_MINUTE = NS_PER_MIN ∧ Gen.NANOSECONDS_PER_SECOND = NS_PER_S ∧
    Gen.NANOSECONDS_PER_MILLISECOND = NS_PER_MS ∧ Gen.NANOSECONDS_PER_MICROSECOND = NS_PER_US ∧
    NS_PER_D = 24 * NS_PER_H ∧ NS_PER_H = 60 * NS_PER_MIN ∧ NS_PER_MIN = 60 * NS_PER_S ∧
    NS_PER_S = 1000 * NS_PER_MS ∧ NS_PER_MS = 1000 * NS_PER_US ∧ NS_PER_US = 1000 := by decide

-- ------------------------------------------------------------------------------------------
-- decomposition

/-- the decomposition is unique: two tuples in range with the same weighted sum are equal -/
theorem decomposition_unique (v d h m s ms us ns d' h' m' s' ms' us' ns' : Int)
    (h1 : IsDecomp v d h m s ms us ns) (h2 : IsDecomp v d' h' m' s' ms' us' ns') :
    d = d' ∧ h = h' ∧ m = m' ∧ s = s' ∧ ms = ms' ∧ us = us' ∧ ns = ns' :=
  isDecomp_unique v d h m s ms us ns d' h' m' s' ms' us' ns' h1 h2

/-- `decompose_sum`: for EVERY canonical duration (the whole range, not only ±10 000 years)
    `Duration::decompose` does not panic and returns components in their ranges whose weighted sum is
    exactly the magnitude of the duration.  The first component is `Duration::signum`, see below. -/
theorem decompose_sum (a : Dur) (ha : a.Canon) :
    ∃ d h m s ms us ns, Dur.decompose a = .ok (Dur.signum a, d, h, m, s, ms, us, ns) ∧
      IsDecomp a.val d h m s ms us ns := by
  refine ⟨_, _, _, _, _, _, _, decompose_spec a ha, ?_⟩
  exact decomp_isDecomp a.val

/-- whatever tuple satisfies the property's description, `decompose` returns exactly it -/
theorem decompose_is_the_decomposition (a : Dur) (ha : a.Canon) (d h m s ms us ns : Int)
    (hd : IsDecomp a.val d h m s ms us ns) :
    Dur.decompose a = .ok (Dur.signum a, d, h, m, s, ms, us, ns) := by
  obtain ⟨d', h', m', s', ms', us', ns', he, hd'⟩ := decompose_sum a ha
  obtain ⟨e1, e2, e3, e4, e5, e6, e7⟩ := isDecomp_unique _ _ _ _ _ _ _ _ _ _ _ _ _ _ _ hd hd'
  subst e1 e2 e3 e4 e5 e6 e7
  exact he

/-- the sign component is −1 exactly for negative durations (this is all `Display` uses) -/
theorem decompose_sign_negative (a : Dur) (ha : a.Canon) : Dur.signum a = -1 ↔ a.val < 0 :=
  signum_neg_iff a ha

/-- the sign component is the sign of the duration — PARTIAL: outside the recorded class D27
    (0 < duration < 1 century).  `Duration::signum` is the sign of the CENTURY field, so a positive
    duration shorter than a century has "sign" 0; the suite pins this (`test_decompose` asserts
    sign == 0 for +5 h 256 ms 1 ns).  Full statement: `∀ a, a.Canon → Dur.signum a = sgn a.val`;
    false of the code, see `sign_counterexample`. -/
theorem decompose_sign_partial (a : Dur) (ha : a.Canon) (h23 : ¬ (a.c = 0 ∧ a.ns > 0)) :
    Dur.signum a = sgn a.val := by
  obtain ⟨c1, c2, c3, c4⟩ := ha
  unfold Dur.signum sgn Dur.val valP
  simp only [NPC_eq, NPCs_eq] at *
  grind

/-- D27: one nanosecond is positive, its decomposition carries sign 0 -/
theorem sign_counterexample : ¬ (Dur.signum ⟨0, 1⟩ = sgn (Dur.mk 0 1).val) := by decide

/-- the D27 class is exactly "positive and shorter than one century" -/
theorem d27class_iff (a : Dur) (ha : a.Canon) : (a.c = 0 ∧ a.ns > 0) ↔ (0 < a.val ∧ a.val < NPCs) := by
  obtain ⟨c1, c2, c3, c4⟩ := ha
  unfold Dur.val valP
  simp only [NPC_eq, NPCs_eq] at *
  omega

-- ------------------------------------------------------------------------------------------
-- text form

/-- `display_spec`: `format!("{d}")` is the spec generator applied to the decomposition: the non-zero
    components with their unit names, single spaces, one leading '-' for negative durations, "0 ns"
    for zero, "day" for exactly one day — for every canonical duration -/
theorem display_is_render (a : Dur) (ha : a.Canon) : display a = .ok (renderValue a.val) :=
  display_spec a ha

/-- ROUND TRIP, whole range: for EVERY canonical duration — either sign, zero, `MIN` and `MAX`
    included — `Display` does not fail and `Duration::from_str` of the text returns the identical
    duration (identical parts, not merely `==`).  No magnitude bound: since fix D37 (f941bbd) every
    printed component is a plain integer numeral and is multiplied as an integer, exactly.  (Before
    D37 the numerals went through binary64 and the statement only held below 6 832 128 days.)
    The proof is an induction over the printed items on the byte-indexed parser model (`item_step`,
    `pending_loop`), with `parse_offset` shown to reject every rendering (`parseOffset_err`). -/
theorem display_parse_roundtrip (a : Dur) (ha : a.Canon) :
    ∃ s, display a = .ok s ∧ parseDurationIdx s = .ok a := display_parse a ha

/-- the same in the spec's words: parsing the generated text form of `v` ns gives the canonical
    duration of `v` ns -/
theorem parse_render (a : Dur) (ha : a.Canon) : parseDurationIdx (renderValue a.val) = .ok a := by
  obtain ⟨s, h1, h2⟩ := display_parse a ha
  rw [display_spec a ha] at h1
  simp only [Res.ok.injEq] at h1
  rw [h1]; exact h2

/-- serde: the serialized form is the text form as a JSON string and deserialization is `from_str`
    of the payload (serde_json trusted as the identity on a payload without escapes), so the serde
    round trip is `parse_render`; the driver checks the real serde_json on every `djson*` case. -/
theorem serde_payload_roundtrip (a : Dur) (ha : a.Canon) :
    ∃ s, renderJson a.val = [34] ++ s ++ [34] ∧ parseDurationIdx s = .ok a :=
  ⟨renderValue a.val, rfl, parse_render a ha⟩

/-- the bounds themselves round-trip: "-1196851200 days" is `MIN` -/
theorem roundtrip_at_the_bounds :
    display Dur.MAX = .ok [49, 49, 57, 54, 56, 53, 49, 50, 48, 48, 32, 100, 97, 121, 115] ∧
    parseDurationIdx [49, 49, 57, 54, 56, 53, 49, 50, 48, 48, 32, 100, 97, 121, 115] = .ok Dur.MAX ∧
    display Dur.MIN = .ok [45, 49, 49, 57, 54, 56, 53, 49, 50, 48, 48, 32, 100, 97, 121, 115] ∧
    parseDurationIdx [45, 49, 49, 57, 54, 56, 53, 49, 50, 48, 48, 32, 100, 97, 121, 115] = .ok Dur.MIN := by
  decide +kernel

-- ------------------------------------------------------------------------------------------
-- offsets

/-- `[+-]HH:MM`, `[+-]HHMM` and `[+-]HH:MM:SS` (any two-digit fields, as in the documented "+3615")
    parse to exactly ±(HH·3600 + MM·60 + SS) seconds: whatever `Spec.readOffset` reads is what the
    parser returns -/
theorem offset_value (s : List Nat) (v : Int) (h : readOffset s = some v) :
    ∃ r, parseDurationIdx s = .ok r ∧ r.Canon ∧ r.val = v := offset_denotes s v h

-- ------------------------------------------------------------------------------------------
-- the UNITS table

/-- every documented spelling (and the three undocumented extras, and "μs") is found by the
    first-match loop and selects the slot of the unit it denotes -/
theorem units_documented :
    ∀ p ∈ spellings ++ extraSpellings,
      (lookupUnit (utf8s (codes p.1)) 0 Gen.DUR_UNITS).map slotFactor = some p.2 := by decide

/-- conversely the table contains nothing else -/
theorem units_all_listed :
    ∀ e ∈ Gen.DUR_UNITS, ∃ p ∈ spellings ++ extraSpellings, utf8s (codes p.1) = e.1 ∧ slotFactor e.2 = p.2 := by
  decide

/-- the complete list of (earlier entry, later entry) pairs where the earlier spelling is a
    byte-prefix of the later one — `cmp_chars_to_str` is a PREFIX test, so the later entry is dead … -/
theorem units_prefix_pairs :
    (prefixPairs Gen.DUR_UNITS).map (fun p => (p.1.1, p.2.1)) =
      [ (utf8s (codes "d"), utf8s (codes "days")), (utf8s (codes "d"), utf8s (codes "day")),
        (utf8s (codes "h"), utf8s (codes "hours")), (utf8s (codes "h"), utf8s (codes "hour")),
        (utf8s (codes "h"), utf8s (codes "hr")),
        (utf8s (codes "min"), utf8s (codes "mins")), (utf8s (codes "min"), utf8s (codes "minute")),
        (utf8s (codes "min"), utf8s (codes "minutes")), (utf8s (codes "minute"), utf8s (codes "minutes")),
        (utf8s (codes "s"), utf8s (codes "second")), (utf8s (codes "s"), utf8s (codes "seconds")),
        (utf8s (codes "s"), utf8s (codes "sec")), (utf8s (codes "second"), utf8s (codes "seconds")),
        (utf8s (codes "millisecond"), utf8s (codes "milliseconds")),
        (utf8s (codes "microsecond"), utf8s (codes "microseconds")),
        (utf8s (codes "nanosecond"), utf8s (codes "nanoseconds")) ] := by decide

/-- … and in every such pair both entries denote the same unit: no spelling is shadowed by a
    different unit -/
theorem units_prefix_same_unit : ∀ p ∈ prefixPairs Gen.DUR_UNITS, p.1.2 = p.2.2 := by decide

/-- "Parsing also accepts the documented unit spellings … with the value they denote": for EVERY
    spelling of the table (the 21 documented ones, "μs", and hr/minutes/sec), EVERY integer numeral
    that fits an i128 (any number of leading-zero-free digits up to 39, so far beyond i64) and either
    sign, `from_str("[-]<n> <spelling>")` is the canonical duration of exactly clamp(±n · unit):
    exact to the nanosecond inside the Duration range, saturated outside.  No representability
    hypothesis (fix D37: integer numerals are multiplied as integers).  Fractional numerals: measured,
    see the driver's oracle. -/
theorem spelling_value (p : String × Int) (hp : p ∈ spellings ++ extraSpellings) (neg : Bool) (n : Nat)
    (hn : n ≤ 170141183460469231731687303715884105727) :
    ∃ r, parseDurationIdx ((if neg = true then [45] else []) ++ (numeral n ++ [32] ++ codes p.1)) = .ok r ∧
      r.Canon ∧ r.val = clampD ((if neg = true then -(n : Int) else (n : Int)) * p.2) := by
  obtain ⟨hgood, hslot⟩ := spellings_good p hp
  obtain ⟨hg, hedge⟩ := goodName_of_B _ hgood
  rw [← decDigits_eq_numeral, ← hslot]
  exact parse_single neg n (codes p.1) hn hg hedge

/-- in particular every i64 value, with no clamping when the product is within the Duration range -/
theorem spelling_value_i64 (p : String × Int) (hp : p ∈ spellings ++ extraSpellings) (neg : Bool) (n : Nat)
    (hn : n ≤ 9223372036854775807) (hr : (n : Int) * p.2 ≤ 103407943680000000000000) :
    ∃ r, parseDurationIdx ((if neg = true then [45] else []) ++ (numeral n ++ [32] ++ codes p.1)) = .ok r ∧
      r.Canon ∧ r.val = (if neg = true then -(n : Int) else (n : Int)) * p.2 := by
  obtain ⟨r, h1, h2, h3⟩ := spelling_value p hp neg n (by omega)
  refine ⟨r, h1, h2, ?_⟩
  rw [h3]
  have hall : ∀ q ∈ spellings ++ extraSpellings, 1 ≤ q.2 := by decide
  have hp2 := hall p hp
  have h0 : 0 ≤ (n : Int) * p.2 := Int.mul_nonneg (Int.natCast_nonneg n) (by omega)
  cases neg with
  | false => simp only [Bool.false_eq_true, if_false]; exact clampD_mid (by omega) hr
  | true =>
    simp only [if_true]
    rw [Int.neg_mul]
    exact clampD_mid (by omega) (by omega)

/-- the witnesses of D37 (numerals that the binary64 evaluation got wrong) are exact now:
    "4611686019 s", "9007199254740993 ns", "3155760000000000001 ns", "6832129 days" -/
theorem integer_numeral_witnesses :
    parseDurationIdx [52, 54, 49, 49, 54, 56, 54, 48, 49, 57, 32, 115] = .ok ⟨1, 1455926019000000000⟩ ∧
    parseDurationIdx [57, 48, 48, 55, 49, 57, 57, 50, 53, 52, 55, 52, 48, 57, 57, 51, 32, 110, 115] = .ok ⟨0, 9007199254740993⟩ ∧
    parseDurationIdx [51, 49, 53, 53, 55, 54, 48, 48, 48, 48, 48, 48, 48, 48, 48, 48, 48, 48, 49, 32, 110, 115] = .ok ⟨1, 1⟩ ∧
    parseDurationIdx [54, 56, 51, 50, 49, 50, 57, 32, 100, 97, 121, 115] = .ok ⟨187, 168825600000000000⟩ := by
  decide +kernel

/-- the white-space table dumped from the linked Rust std (what `trim` removes) is Unicode White_Space
    as written in the spec -/
theorem whitespace_pinned : Gen.WHITESPACE = whiteSpace := by decide

/-- `Duration::subdivision(unit)`: the component times its unit; `None` exactly for Week and Century -/
theorem subdivision_value (a : Dur) (ha : a.Canon) :
    (∃ r, subdivision a "d" = .ok (some r) ∧ r.Canon ∧ r.val = (decomp a.val).1 * NS_PER_D) ∧
    (∃ r, subdivision a "h" = .ok (some r) ∧ r.Canon ∧ r.val = (decomp a.val).2.1 * NS_PER_H) ∧
    (∃ r, subdivision a "min" = .ok (some r) ∧ r.Canon ∧ r.val = (decomp a.val).2.2.1 * NS_PER_MIN) ∧
    (∃ r, subdivision a "s" = .ok (some r) ∧ r.Canon ∧ r.val = (decomp a.val).2.2.2.1 * NS_PER_S) ∧
    (∃ r, subdivision a "ms" = .ok (some r) ∧ r.Canon ∧ r.val = (decomp a.val).2.2.2.2.1 * NS_PER_MS) ∧
    (∃ r, subdivision a "us" = .ok (some r) ∧ r.Canon ∧ r.val = (decomp a.val).2.2.2.2.2.1 * NS_PER_US) ∧
    (∃ r, subdivision a "ns" = .ok (some r) ∧ r.Canon ∧ r.val = (decomp a.val).2.2.2.2.2.2 * 1) ∧
    subdivision a "wk" = .ok none ∧ subdivision a "cy" = .ok none := subdivision_spec a ha

-- non-vacuity
example : (Dur.mk (-3) 17).Canon ∧ (Dur.mk 32767 NPC).Canon ∧ (Dur.mk (-32768) 0).Canon := by
  unfold Dur.Canon; simp only [NPC_eq]; decide
example : ¬ ((Dur.mk (-1) 5).c = 0 ∧ (Dur.mk (-1) 5).ns > 0) ∧ ¬ ((Dur.mk 7 5).c = 0 ∧ (Dur.mk 7 5).ns > 0) := by decide
example : ("minutes", NS_PER_MIN) ∈ spellings ++ extraSpellings ∧ (4611686019 : Nat) ≤ 9223372036854775807 := by decide
-- "-01:15:30" and "+3615" of the rustdoc
example : readOffset [45, 48, 49, 58, 49, 53, 58, 51, 48] = some (-(4530 * NS_PER_S)) := by decide
example : readOffset [43, 51, 54, 49, 53] = some ((36 * 3600 + 15 * 60) * NS_PER_S) := by decide
-- the Display of −99 µs ("-99 μs", once parsed as −99 h) and of MIN_POSITIVE
example : display ⟨-1, 3155759999999901000⟩ = .ok [45, 57, 57, 32, 956, 115] := by decide
example : parseDurationIdx [45, 57, 57, 32, 956, 115] = .ok ⟨-1, 3155759999999901000⟩ := by decide
example : IsDecomp (-90061001002003) 1 1 1 1 1 2 3 := by
  unfold IsDecomp InRange weighted mag NS_PER_D NS_PER_H NS_PER_MIN NS_PER_S NS_PER_MS NS_PER_US; decide

end Hifi.C11
