import Hifi.Lemmas.Calendar
/-
  C09  Epoch -> Gregorian fields exactly inverts construction; Display prints them.

  Domain: ALL canonical durations `d` with |d| ≤ 9.4·10^22 ns (`InCal`, about ±2 978 000 years
  around the reference; the whole `Duration` range is ±1.034·10^23 ns), in all nine time scales —
  no restriction on the sign, on the distance to midnight or on the position of the year in the
  4/100/400 cycle.  The property quantifies over years 0001–9999 and samples ±30 000.

  The specification side is `Hifi/Spec/Calendar.lean`: `validDate`, `dayNumber` (THE day count of the
  successor structure, C08.dayNumber_is_the_day_count), `refOffsetNs`, `renderDT`.
-/
namespace Hifi.C09
open Hifi Hifi.Spec Hifi.Cal

/-- FIELDS.  `compute_gregorian` never fails (no panic, the `while` loops terminate: their fuel is
    proved sufficient in `fixUnder_spec` / `fixOver_spec`) and yields a valid date with hour < 24,
    minute < 60, second < 60, nanosecond < 10^9 whose nanosecond count
    dayNumber·86400e9 + time of day − (reference offset of the scale) IS the epoch. -/
theorem fields_valid_and_exact (d : Dur) (ts : TS) (hd : d.Canon) (hr : InCal d.val) :
    ∃ y mo dd h mi s ns, Cal.computeGregorian d ts = .ok (y, mo, dd, h, mi, s, ns) ∧
      validDate ⟨y, mo, dd⟩ = true ∧
      0 ≤ h ∧ h < 24 ∧ 0 ≤ mi ∧ mi < 60 ∧ 0 ≤ s ∧ s < 60 ∧ 0 ≤ ns ∧ ns < 1000000000 ∧
      elapsedNs ts.name ⟨y, mo, dd⟩ h mi s ns = d.val := by
  obtain ⟨y, mo, dd, h, mi, s, ns, e, hv, _, _, a1, a2, a3, a4, a5, a6, a7, a8, hval⟩ :=
    computeGregorian_spec d ts hd hr
  refine ⟨y, mo, dd, h, mi, s, ns, e, hv, a1, a2, a3, a4, a5, a6, a7, a8, ?_⟩
  unfold elapsedNs timeOfDay NPDs
  omega

/-- the fields are a must-accept date-time of C08 (so building from them is in C08's domain) -/
theorem fields_are_acceptable (d : Dur) (ts : TS) (hd : d.Canon) (hr : InCal d.val) :
    ∃ y mo dd h mi s ns, Cal.computeGregorian d ts = .ok (y, mo, dd, h, mi, s, ns) ∧
      mustAccept [] ⟨y, mo, dd⟩ h mi s ns = true := by
  obtain ⟨y, mo, dd, h, mi, s, ns, e, hv, a1, a2, a3, a4, a5, a6, a7, a8, _⟩ := fields_valid_and_exact d ts hd hr
  refine ⟨y, mo, dd, h, mi, s, ns, e, ?_⟩
  unfold mustAccept
  simp only [hv, Bool.true_and, Bool.and_eq_true, Bool.or_eq_true, decide_eq_true_eq]
  exact ⟨⟨a1, a2, a3, a4, a7, a8⟩, Or.inl ⟨a5, a6⟩⟩

/-- ROUND TRIP (epoch → fields → epoch): building an epoch in the same time scale from the computed
    fields gives back the identical duration (same centuries, same nanoseconds). -/
theorem from_compute_roundtrip (d : Dur) (ts : TS) (hd : d.Canon) (hr : InCal d.val) :
    ∃ y mo dd h mi s ns, Cal.computeGregorian d ts = .ok (y, mo, dd, h, mi, s, ns) ∧
      Cal.maybeFromGregorian y mo dd h mi s ns ts = .ok d := from_compute d ts hd hr

/-- ROUND TRIP (fields → epoch → fields): the fields of an epoch built from valid fields
    (second < 60) are those fields, for every year in ±2 970 000. -/
theorem compute_from_roundtrip (y mo d h mi s ns : Int) (ts : TS) (hy : -2970000 ≤ y ∧ y ≤ 2970000)
    (hv : validDate ⟨y, mo, d⟩ = true)
    (hh : 0 ≤ h ∧ h < 24) (hmi : 0 ≤ mi ∧ mi < 60) (hs : 0 ≤ s ∧ s < 60) (hns : 0 ≤ ns ∧ ns < 1000000000) :
    ∃ e, Cal.maybeFromGregorian y mo d h mi s ns ts = .ok e ∧
      Cal.computeGregorian e ts = .ok (y, mo, d, h, mi, s, ns) := compute_from y mo d h mi s ns ts hy hv hh hmi hs hns

/-- the fields are unique: a valid date-time is determined by its nanosecond count -/
theorem fields_determined (y mo d h mi s ns y' mo' d' h' mi' s' ns' : Int) (scale : String)
    (hv : validDate ⟨y, mo, d⟩ = true) (hv' : validDate ⟨y', mo', d'⟩ = true)
    (hh : 0 ≤ h ∧ h < 24) (hmi : 0 ≤ mi ∧ mi < 60) (hs : 0 ≤ s ∧ s < 60) (hns : 0 ≤ ns ∧ ns < 1000000000)
    (hh' : 0 ≤ h' ∧ h' < 24) (hmi' : 0 ≤ mi' ∧ mi' < 60) (hs' : 0 ≤ s' ∧ s' < 60) (hns' : 0 ≤ ns' ∧ ns' < 1000000000)
    (heq : elapsedNs scale ⟨y, mo, d⟩ h mi s ns = elapsedNs scale ⟨y', mo', d'⟩ h' mi' s' ns') :
    y = y' ∧ mo = mo' ∧ d = d' ∧ h = h' ∧ mi = mi' ∧ s = s' ∧ ns = ns' := by
  unfold elapsedNs timeOfDay NPDs at heq
  exact fields_unique y mo d h mi s ns y' mo' d' h' mi' s' ns' hv hv' hh hmi hs hns hh' hmi' hs' hns' (by omega)

/-- DISPLAY.  The default text form is the rendering of exactly those fields … -/
theorem display_renders_fields (d : Dur) (ts : TS) :
    Cal.display d ts =
      (match Cal.computeGregorian d ts with
       | .ok (y, mo, dd, h, mi, s, ns) => .ok (Cal.renderFields y mo dd h mi s ns ts)
       | .err => .err
       | .panic => .panic) := by
  unfold Cal.display; rfl

/-- … and for calendar years 0000–9999 that rendering is the specification's text
    `YYYY-MM-DDTHH:MM:SS[.nnnnnnnnn] SCALE` (four-digit zero-padded year, two-digit fields, nine
    fractional digits exactly when the nanoseconds are non-zero, then the scale name):
    PARTIAL in the year only — outside 0..9999 the text has a sign or more than four digits, which the
    property's `YYYY` does not describe; that part is covered by the correspondence run
    (`Spec.yearText`). -/
theorem display_spec_partial (d : Dur) (ts : TS) (hd : d.Canon) (hr : InCal d.val) :
    ∃ y mo dd h mi s ns, Cal.computeGregorian d ts = .ok (y, mo, dd, h, mi, s, ns) ∧
      (0 ≤ y ∧ y ≤ 9999 → Cal.display d ts = .ok (renderDT ⟨y, mo, dd⟩ h mi s ns ts.name)) := by
  obtain ⟨y, mo, dd, h, mi, s, ns, e, hv, a1, a2, a3, a4, a5, a6, a7, a8, _⟩ := fields_valid_and_exact d ts hd hr
  refine ⟨y, mo, dd, h, mi, s, ns, e, ?_⟩
  intro hy
  have hv' := (validDate_iff _).mp hv
  simp only at hv'
  have hml := monthLen_range y mo hv'.1 hv'.2.1
  rw [display_renders_fields, e]
  simp only
  rw [render_eq y mo dd h mi s ns ts hy (by omega) (by omega) (by omega) (by omega) (by omega) ⟨a7, a8⟩]

/-- the text rendering in detail (what "YYYY-MM-DDTHH:MM:SS, nine fractional digits only when
    non-zero, then the scale name" means), e.g. 0001-02-03T04:05:06.000000007 -/
theorem render_examples :
    String.ofList ((renderDT ⟨1, 2, 3⟩ 4 5 6 7 "TAI").map Char.ofNat) = "0001-02-03T04:05:06.000000007 TAI" ∧
    String.ofList ((renderDT ⟨9999, 12, 31⟩ 23 59 59 0 "QZSST").map Char.ofNat) = "9999-12-31T23:59:59 QZSST" ∧
    String.ofList ((Cal.renderFields 2017 1 14 0 31 55 811000000 .UTC).map Char.ofNat) = "2017-01-14T00:31:55.811000000 UTC" := by
  decide

/-- ACCESSORS.  `year()` is the year field, `month_name()` is the English name of the month field … -/
theorem year_and_month_name (d : Dur) (ts : TS) (hd : d.Canon) (hr : InCal d.val) :
    ∃ y mo dd h mi s ns, Cal.computeGregorian d ts = .ok (y, mo, dd, h, mi, s, ns) ∧
      Cal.year d ts = .ok y ∧ Cal.monthName d ts = .ok (monthNames.getD (mo - 1).toNat "") := by
  obtain ⟨y, mo, dd, h, mi, s, ns, e, hv, _⟩ := fields_valid_and_exact d ts hd hr
  have hv' := (validDate_iff _).mp hv
  simp only at hv'
  refine ⟨y, mo, dd, h, mi, s, ns, e, ?_, ?_⟩
  · unfold Cal.year; rw [e]
  · unfold Cal.monthName; rw [e]; simp only; rw [monthName_eq mo hv'.1 hv'.2.1]

/-- … and `duration_in_year()` is exactly the time elapsed since 1 January 00:00:00 of that year
    (so `day_of_year()`, its f64 image `to_unit(Day) + 1`, starts at 1.0 on 1 January; the f64 itself is
    covered by the correspondence run only). -/
theorem duration_in_year_exact (d : Dur) (ts : TS) (hd : d.Canon) (hr : InCal d.val) :
    ∃ y mo dd h mi s ns r, Cal.computeGregorian d ts = .ok (y, mo, dd, h, mi, s, ns) ∧
      Cal.durationInYear d ts = .ok r ∧ r.Canon ∧
      r.val = (dayNumber ⟨y, mo, dd⟩ - dayNumber ⟨y, 1, 1⟩) * NPDs + timeOfDay h mi s ns ∧
      0 ≤ r.val ∧ r.val < 366 * NPDs := by
  obtain ⟨y, mo, dd, h, mi, s, ns, r, e, hr1, hr2, hr3⟩ := durationInYear_spec d ts hd hr
  obtain ⟨y2, mo2, dd2, h2, mi2, s2, ns2, e2, hv, a1, a2, a3, a4, a5, a6, a7, a8, _⟩ := fields_valid_and_exact d ts hd hr
  rw [e] at e2
  simp only [Res.ok.injEq, Prod.mk.injEq] at e2
  obtain ⟨rfl, rfl, rfl, rfl, rfl, rfl, rfl⟩ := e2
  have hiy := dayNumber_in_year y mo dd hv
  have hj : dayNumber ⟨y + 1, 1, 1⟩ - dayNumber ⟨y, 1, 1⟩ ≤ 366 := by
    rw [← modelDay_eq_dayNumber y 1 1 (by omega) (by omega), ← modelDay_eq_dayNumber (y + 1) 1 1 (by omega) (by omega),
      jan1_succ, cumulAt_eq y 1 (by omega) (by omega), cumulAt_eq (y + 1) 1 (by omega) (by omega)]
    unfold cumCommon yearLen
    simp; split <;> omega
  refine ⟨y, mo, dd, h, mi, s, ns, r, e, hr1, hr2, ?_, ?_, ?_⟩ <;>
    (rw [hr3]; (try simp only [NPDs, timeOfDay]); omega)

/-- the generated `MonthName` table is the English month list, `From<u8>` falling back to January -/
theorem month_names_pinned :
    Gen.MONTH_NAME_OF_U8 = ["January", "January", "February", "March", "April", "May", "June", "July", "August",
      "September", "October", "November", "December", "January"] := by decide

-- non-vacuity: the hypotheses hold for epochs on both sides of the reference, far away, and at the last
-- nanosecond of a day before 1900 (the code's "count backward" path)
example : (Dur.mk (-1) 3155759999999999999).Canon ∧ InCal (Dur.mk (-1) 3155759999999999999).val ∧
    (Dur.mk (-19) 132624000000000000).Canon ∧ InCal (Dur.mk (-19) 132624000000000000).val ∧
    (Dur.mk 29000 5).Canon ∧ InCal (Dur.mk 29000 5).val ∧ InCal (Dur.mk (-29000) 5).val := by
  unfold Dur.Canon InCal Dur.val valP; simp only [NPC_eq, NPCs_eq]; decide
set_option synthInstance.maxSize 1024 in
example : Cal.computeGregorian ⟨-1, 3155759999999999999⟩ .TAI = .ok (1899, 12, 31, 23, 59, 59, 999999999) ∧
    Cal.computeGregorian ⟨0, 0⟩ .ET = .ok (2000, 1, 1, 12, 0, 0, 0) ∧
    Cal.computeGregorian ⟨0, 0⟩ .GPST = .ok (1980, 1, 6, 0, 0, 0, 0) := by decide +kernel

end Hifi.C09
