import Hifi.Lemmas.EpochOrd
/-
  C04  Epoch ± Duration is exact in the epoch's own time scale; differences invert it.
-/
namespace Hifi.C04
open Hifi Hifi.Spec

/-- adding / subtracting a duration changes the elapsed time by exactly that duration (saturating)
    and never changes the time scale — all nine scales -/
theorem add_exact (e : Ep) (d : Dur) (he : e.dur.Canon) (hd : d.Canon) :
    (e.add d).ts = e.ts ∧ (e.add d).dur.Canon ∧ (e.add d).dur.val = clampD (e.dur.val + d.val) :=
  ⟨rfl, (add_spec e.dur d he hd).1, (add_spec e.dur d he hd).2⟩

theorem sub_exact (e : Ep) (d : Dur) (he : e.dur.Canon) (hd : d.Canon) :
    (e.subD d).ts = e.ts ∧ (e.subD d).dur.Canon ∧ (e.subD d).dur.val = clampD (e.dur.val - d.val) :=
  ⟨rfl, (sub_spec e.dur d he hd).1, (sub_spec e.dur d he hd).2⟩

/-- `e ± Unit` is `e ± (1 * unit)` -/
theorem add_unit_exact (e : Ep) (f : Int) (he : e.dur.Canon) (hf : f ∈ unitFactors) :
    (e.add (Dur.unitMulI64 f 1)).dur.val = clampD (e.dur.val + f) := by
  have hu := unitMulI64_spec f 1 hf (by decide)
  have h := add_spec e.dur _ he hu.1
  show (Dur.add e.dur (Dur.unitMulI64 f 1)).val = _
  rw [h.2, hu.2]
  rw [unitFactors_eq] at hf
  simp only [List.mem_cons, List.not_mem_nil, or_false] at hf
  rcases hf with h | h | h | h | h | h | h | h | h <;> subst h <;> rfl

/-- float seconds that are an exact integer `k` whose product with 10⁹ is exact in binary64
    (so that `k as f64 * Unit::Second` is `k·10⁹ ns`; holds for |k| < 2⁵³/5⁹ ≈ 4.6·10⁹ s): exact -/
theorem add_integer_seconds_exact (e : Ep) (k : Int) (he : e.dur.Canon)
    (hk : -9223372036 ≤ k ∧ k ≤ 9223372036) :
    (e.add (nsDur (k * 1000000000))).dur.val = clampD (e.dur.val + k * 1000000000) := by
  have hn := nsDur_spec (k * 1000000000) (by omega)
  have h := add_spec e.dur _ he hn.1
  show (Dur.add e.dur (nsDur (k * 1000000000))).val = _
  rw [h.2, hn.2]

/-- the difference of two epochs of the same scale is the difference of their elapsed times -/
theorem diff_same_scale (a b : Ep) (h : a.ts = b.ts) : Ep.diff a b = some (Dur.sub a.dur b.dur) := by
  unfold Ep.diff Ep.to toTimeScale; rw [if_pos h]

/-- (e + d) − e = d whenever no bound is hit -/
theorem add_then_diff (e : Ep) (d : Dur) (he : e.dur.Canon) (hd : d.Canon)
    (hns : DMIN ≤ e.dur.val + d.val ∧ e.dur.val + d.val ≤ DMAX) :
    Ep.diff (e.add d) e = some d := by
  rw [diff_same_scale (e.add d) e rfl]
  have h1 := add_spec e.dur d he hd
  have h2 := sub_spec (Dur.add e.dur d) e.dur h1.1 he
  have hr := canon_range d hd
  unfold DMIN DMAX at *; simp only [NPCs_eq] at *
  congr 1
  apply canon_unique _ _ h2.1 hd
  show (Dur.sub (Dur.add e.dur d) e.dur).val = d.val
  rw [h2.2, h1.2, clampD_mid (x := e.dur.val + d.val) (by omega) (by omega), clampD_mid] <;> omega

/-- (e + d) − d = e whenever no bound is hit -/
theorem add_then_sub (e : Ep) (d : Dur) (he : e.dur.Canon) (hd : d.Canon)
    (hns : DMIN ≤ e.dur.val + d.val ∧ e.dur.val + d.val ≤ DMAX) :
    (e.add d).subD d = e := by
  have h1 := add_spec e.dur d he hd
  have h2 := sub_spec (Dur.add e.dur d) d h1.1 hd
  have hr := canon_range e.dur he
  unfold DMIN DMAX at *; simp only [NPCs_eq] at *
  have : Dur.sub (Dur.add e.dur d) d = e.dur := by
    apply canon_unique _ _ h2.1 he
    rw [h2.2, h1.2, clampD_mid (x := e.dur.val + d.val) (by omega) (by omega), clampD_mid] <;> omega
  cases e; simp only [Ep.add, Ep.subD] at *; rw [this]

/-- e + (f − e) = f for epochs of the same scale whenever no bound is hit -/
theorem add_diff (e f : Ep) (he : e.dur.Canon) (hf : f.dur.Canon) (hts : e.ts = f.ts)
    (hns : DMIN ≤ f.dur.val - e.dur.val ∧ f.dur.val - e.dur.val ≤ DMAX) :
    ∃ x, Ep.diff f e = some x ∧ e.add x = f := by
  rw [diff_same_scale _ _ hts.symm]
  refine ⟨_, rfl, ?_⟩
  have h1 := sub_spec f.dur e.dur hf he
  have h2 := add_spec e.dur (Dur.sub f.dur e.dur) he h1.1
  have hr := canon_range f.dur hf
  unfold DMIN DMAX at *; simp only [NPCs_eq] at *
  have : Dur.add e.dur (Dur.sub f.dur e.dur) = f.dur := by
    apply canon_unique _ _ h2.1 hf
    rw [h2.2, h1.2, clampD_mid (x := f.dur.val - e.dur.val) (by omega) (by omega), clampD_mid] <;> omega
  cases e; cases f; simp only [Ep.add] at *; subst hts; rw [this]

/-- the difference is measured in the left operand's scale after re-expressing the right operand
    in it: for a uniform left scale it is the difference of the instants -/
theorem diff_cross_scale (a b : Ep) (ha : a.dur.Canon) (hb : b.dur.Canon) (hta : a.ts.isUniform = true)
    (htb : b.ts.nonDyn = true) (hsb : Safe b.dur.val) :
    ∃ x, Ep.diff a b = some x ∧ x.Canon ∧ x.val = clampD (a.inst - b.inst) := by
  obtain ⟨db, tb⟩ := b
  obtain ⟨r, r1, r2, r3⟩ := to_uniform_inst db tb a.ts hb htb hta hsb
  unfold Ep.diff; rw [r1]; simp only
  have h := sub_spec a.dur r ha r2
  refine ⟨_, rfl, h.1, ?_⟩
  rw [h.2, r3]; unfold Ep.inst; simp only; rw [instV_uniform a.ts a.dur.val hta]; congr 1; omega

-- non-vacuity: an epoch before its reference, a negative duration, no bound hit
example : (Dur.mk (-1) 5).Canon ∧ (Dur.mk (-3) 17).Canon ∧
    DMIN ≤ (Dur.mk (-1) 5).val + (Dur.mk (-3) 17).val ∧ (Dur.mk (-1) 5).val + (Dur.mk (-3) 17).val ≤ DMAX := by
  unfold Dur.Canon; simp only [NPC_eq]; decide

end Hifi.C04
