import Hifi.Lemmas.EpochOrd
import Hifi.Lemmas.ViewsFloat
import Hifi.Props.C12
/-
  C04  Epoch ± Duration is exact in the epoch's own time scale; differences invert it.
-/
namespace Hifi.C04
open Hifi Hifi.Spec

/-- adding / subtracting a duration changes the elapsed time by exactly that duration (saturating)
    and never changes the time scale — all nine scales -/
theorem add_exact (e : Ep) (d : Dur) (he : e.dur.Canon) (hd : d.Canon) :
    (e.add d).ts = e.ts ∧ (e.add d).dur.Canon ∧ (e.add d).dur.val = clampD (e.dur.val + d.val) :=
  ⟨rfl, (add_spec e.dur d he hd).1, (add_spec e.dur d he hd).2⟩

theorem sub_exact (e : Ep) (d : Dur) (he : e.dur.Canon) (hd : d.Canon) :
    (e.subD d).ts = e.ts ∧ (e.subD d).dur.Canon ∧ (e.subD d).dur.val = clampD (e.dur.val - d.val) :=
  ⟨rfl, (sub_spec e.dur d he hd).1, (sub_spec e.dur d he hd).2⟩

/-- `e ± Unit` is `e ± (1 * unit)` -/
theorem add_unit_exact (e : Ep) (f : Int) (he : e.dur.Canon) (hf : f ∈ unitFactors) :
    (e.add (Dur.unitMulI64 f 1)).dur.val = clampD (e.dur.val + f) := by
  have hu := unitMulI64_spec f 1 hf (by decide)
  have h := add_spec e.dur _ he hu.1
  show (Dur.add e.dur (Dur.unitMulI64 f 1)).val = _
  rw [h.2, hu.2]
  rw [unitFactors_eq] at hf
  simp only [List.mem_cons, List.not_mem_nil, or_false] at hf
  rcases hf with h | h | h | h | h | h | h | h | h <;> subst h <;> rfl

/-- float seconds that are an exact integer `k` — ANY integer-valued double, of any magnitude (the code
    takes `(seconds as i64) * Unit::Second`, a saturating cast and an exact integer product, since fix
    62d8753; before it the product was formed in binary64 and was off by 512 ns at k = 4 611 686 019):
    the elapsed time changes by exactly k seconds, saturating, and the scale is kept -/
theorem add_integer_seconds_exact (e : Ep) (k : Int) (he : e.dur.Canon) :
    (e.addWholeSeconds k).ts = e.ts ∧ (e.addWholeSeconds k).dur.Canon ∧
    (e.addWholeSeconds k).dur.val = clampD (e.dur.val + clampD (satI64 k * 1000000000)) := by
  have hq : fitsI64 (satI64 k) = true := by
    unfold fitsI64 satI64; simp only [decide_eq_true_eq]
    split
    · omega
    · split <;> omega
  have hu := unitMulI64_spec Gen.NANOSECONDS_PER_SECOND (satI64 k) (by decide) hq
  have h := add_spec e.dur _ he hu.1
  refine ⟨rfl, h.1, ?_⟩
  show (Dur.add e.dur _).val = _
  rw [h.2, hu.2]

/-- … hence by exactly `k` seconds whenever no bound is hit -/
theorem add_integer_seconds_in_range (e : Ep) (k : Int) (he : e.dur.Canon)
    (hk : DMIN ≤ k * 1000000000 ∧ k * 1000000000 ≤ DMAX)
    (hs : DMIN ≤ e.dur.val + k * 1000000000 ∧ e.dur.val + k * 1000000000 ≤ DMAX) :
    (e.addWholeSeconds k).dur.val = e.dur.val + k * 1000000000 := by
  have h := (add_integer_seconds_exact e k he).2.2
  have hsat : satI64 k = k := by
    unfold satI64; unfold DMIN DMAX at hk; simp only [NPCs_eq] at hk
    split
    · omega
    · split <;> omega
  unfold DMIN DMAX at hk hs; simp only [NPCs_eq] at hk hs
  have h1 : clampD (k * 1000000000) = k * 1000000000 := clampD_mid (by omega) (by omega)
  have h2 : clampD (e.dur.val + k * 1000000000) = e.dur.val + k * 1000000000 := clampD_mid (by omega) (by omega)
  rw [h, hsat, h1, h2]

example : (⟨⟨0, 0⟩, .TAI⟩ : Ep).addWholeSeconds 4611686019 = ⟨⟨1, 1455926019000000000⟩, .TAI⟩ := by decide

/-- the difference of two epochs of the same scale is the difference of their elapsed times -/
theorem diff_same_scale (a b : Ep) (h : a.ts = b.ts) : Ep.diff a b = some (Dur.sub a.dur b.dur) := by
  unfold Ep.diff Ep.to toTimeScale; rw [if_pos h]

/-- (e + d) − e = d whenever no bound is hit -/
theorem add_then_diff (e : Ep) (d : Dur) (he : e.dur.Canon) (hd : d.Canon)
    (hns : DMIN ≤ e.dur.val + d.val ∧ e.dur.val + d.val ≤ DMAX) :
    Ep.diff (e.add d) e = some d := by
  rw [diff_same_scale (e.add d) e rfl]
  have h1 := add_spec e.dur d he hd
  have h2 := sub_spec (Dur.add e.dur d) e.dur h1.1 he
  have hr := canon_range d hd
  unfold DMIN DMAX at *; simp only [NPCs_eq] at *
  congr 1
  apply canon_unique _ _ h2.1 hd
  show (Dur.sub (Dur.add e.dur d) e.dur).val = d.val
  rw [h2.2, h1.2, clampD_mid (x := e.dur.val + d.val) (by omega) (by omega), clampD_mid] <;> omega

/-- (e + d) − d = e whenever no bound is hit -/
theorem add_then_sub (e : Ep) (d : Dur) (he : e.dur.Canon) (hd : d.Canon)
    (hns : DMIN ≤ e.dur.val + d.val ∧ e.dur.val + d.val ≤ DMAX) :
    (e.add d).subD d = e := by
  have h1 := add_spec e.dur d he hd
  have h2 := sub_spec (Dur.add e.dur d) d h1.1 hd
  have hr := canon_range e.dur he
  unfold DMIN DMAX at *; simp only [NPCs_eq] at *
  have : Dur.sub (Dur.add e.dur d) d = e.dur := by
    apply canon_unique _ _ h2.1 he
    rw [h2.2, h1.2, clampD_mid (x := e.dur.val + d.val) (by omega) (by omega), clampD_mid] <;> omega
  cases e; simp only [Ep.add, Ep.subD] at *; rw [this]

/-- e + (f − e) = f for epochs of the same scale whenever no bound is hit -/
theorem add_diff (e f : Ep) (he : e.dur.Canon) (hf : f.dur.Canon) (hts : e.ts = f.ts)
    (hns : DMIN ≤ f.dur.val - e.dur.val ∧ f.dur.val - e.dur.val ≤ DMAX) :
    ∃ x, Ep.diff f e = some x ∧ e.add x = f := by
  rw [diff_same_scale _ _ hts.symm]
  refine ⟨_, rfl, ?_⟩
  have h1 := sub_spec f.dur e.dur hf he
  have h2 := add_spec e.dur (Dur.sub f.dur e.dur) he h1.1
  have hr := canon_range f.dur hf
  unfold DMIN DMAX at *; simp only [NPCs_eq] at *
  have : Dur.add e.dur (Dur.sub f.dur e.dur) = f.dur := by
    apply canon_unique _ _ h2.1 hf
    rw [h2.2, h1.2, clampD_mid (x := f.dur.val - e.dur.val) (by omega) (by omega), clampD_mid] <;> omega
  cases e; cases f; simp only [Ep.add] at *; subst hts; rw [this]

/-- the difference is measured in the left operand's scale after re-expressing the right operand
    in it: for a uniform left scale it is the difference of the instants -/
theorem diff_cross_scale (a b : Ep) (ha : a.dur.Canon) (hb : b.dur.Canon) (hta : a.ts.isUniform = true)
    (htb : b.ts.nonDyn = true) (hsb : Safe b.dur.val) :
    ∃ x, Ep.diff a b = some x ∧ x.Canon ∧ x.val = clampD (a.inst - b.inst) := by
  obtain ⟨db, tb⟩ := b
  obtain ⟨r, r1, r2, r3⟩ := to_uniform_inst db tb a.ts hb htb hta hsb
  unfold Ep.diff; rw [r1]; simp only
  have h := sub_spec a.dur r ha r2
  refine ⟨_, rfl, h.1, ?_⟩
  rw [h.2, r3]; unfold Ep.inst; simp only; rw [instV_uniform a.ts a.dur.val hta]; congr 1; omega

/-- the same under the WEAKEST hypothesis — the conversion of the right operand into the left operand's scale
    does not saturate (`ConvFits`, no margin; nothing demanded for operands of one scale); `diff_cross_scale`
    above is the corollary for four centuries of margin -/
theorem diff_cross_scale_nosat (a b : Ep) (ha : a.dur.Canon) (hb : b.dur.Canon) (hta : a.ts.isUniform = true)
    (htb : b.ts.nonDyn = true) (hf : ConvFits b.ts a.ts b.dur.val) :
    ∃ x, Ep.diff a b = some x ∧ x.Canon ∧ x.val = clampD (a.inst - b.inst) := by
  obtain ⟨db, tb⟩ := b
  obtain ⟨r, r1, r2, r3⟩ := to_uniform_inst_nosat db tb a.ts hb htb hta hf
  unfold Ep.diff; rw [r1]; simp only
  have h := sub_spec a.dur r ha r2
  refine ⟨_, rfl, h.1, ?_⟩
  rw [h.2, r3]; unfold Ep.inst; simp only; rw [instV_uniform a.ts a.dur.val hta]; congr 1; omega

/-- in the vocabulary of the independent specification: the difference of the `Spec.instant`s, saturating -/
theorem diff_cross_scale_spec (a b : Ep) (ha : a.dur.Canon) (hb : b.dur.Canon) (hta : a.ts.isUniform = true)
    (htb : b.ts.nonDyn = true) (hf : ConvFits b.ts a.ts b.dur.val) :
    ∃ x ia ib, Ep.diff a b = some x ∧ x.Canon ∧
      Spec.instant Hifi.C06.iersTbl a.ts.name a.dur.val = some ia ∧
      Spec.instant Hifi.C06.iersTbl b.ts.name b.dur.val = some ib ∧ x.val = clampD (ia - ib) := by
  obtain ⟨x, h1, h2, h3⟩ := diff_cross_scale_nosat a b ha hb hta htb hf
  have hna : a.ts.nonDyn = true := by cases a with | mk d t => cases t <;> simp_all [TS.isUniform, TS.nonDyn]
  exact ⟨x, _, _, h1, h2, Hifi.C12.inst_eq_spec a hna, Hifi.C12.inst_eq_spec b htb, h3⟩

/-- UTC LEFT operand.  `a − b` with `a` in UTC re-expresses `b` in UTC and subtracts the UTC counts: when the
    instant of `b` has a UTC pre-image `u` (`instV .UTC u = b.inst`: it lies outside the inserted seconds, where
    no UTC epoch denotes it — recorded finding D9b) the result is exactly `a.dur − u`, saturating, i.e. the
    difference "measured in the time scale of the left operand", which for UTC omits the leap seconds inserted
    between the two instants (second conjunct).  Hypothesis: the conversion does not saturate, no margin. -/
theorem diff_utc_left (a b : Ep) (ha : a.dur.Canon) (hb : b.dur.Canon) (hta : a.ts = .UTC)
    (htb : b.ts.nonDyn = true) (u : Int) (hu : instV .UTC u = b.inst)
    (hfit : b.ts = .UTC ∨ (DMIN ≤ u ∧ b.inst ≤ DMAX)) :
    ∃ x, Ep.diff a b = some x ∧ x.Canon ∧ x.val = clampD (a.dur.val - u) ∧
      a.dur.val - u = (a.inst - b.inst) - (Spec.leapAt Hifi.C06.iersTbl a.dur.val - Spec.leapAt Hifi.C06.iersTbl u) * 1000000000 := by
  obtain ⟨db, tb⟩ := b
  obtain ⟨r, r1, r2, r3⟩ := to_utc_inst_nosat db tb hb htb u hu hfit
  unfold Ep.diff; rw [hta, r1]; simp only
  have h := sub_spec a.dur r ha r2
  refine ⟨_, rfl, h.1, by rw [h.2, r3], ?_⟩
  rw [← hu]
  unfold Ep.inst instV
  rw [hta, if_pos rfl, if_pos rfl, Hifi.C06.builtin_L_eq_spec, Hifi.C06.builtin_L_eq_spec]
  omega

-- non-vacuity of `diff_cross_scale_nosat` at the very end of the range (not `Safe`), and of `diff_utc_left`:
-- the TAI epoch 2017-01-01T00:00:26 TAI is the instant of the UTC count 2016-12-31T23:59:50 (pre-image `u`)
example : ConvFits .TAI .TAI (Dur.MAX).val ∧ ConvFits .GPST .TAI 0 ∧ ¬ Safe (Dur.MAX).val := by
  unfold Safe; decide +kernel
example : instV .UTC 3692217590000000000 = (⟨⟨1, 536457626000000000⟩, .TAI⟩ : Ep).inst := by decide +kernel

/-! ### `Epoch + f64` seconds on SoftF64 (`impl Add<f64> for Epoch` as repaired by 62d8753:
    `if seconds.trunc() == seconds { (seconds as i64) * Unit::Second } else { seconds * Unit::Second }`) -/
open Hifi.F64 Hifi.ViewsF Hifi.DurFloat in
/-- **whole seconds of ANY magnitude**: for every integer-valued (canonical, finite) double x = k the elapsed
    time grows by exactly k·10^9 ns, saturating: clampD (e + clampD (k·10^9)); canonical; no 2^53 limit
    (the integer path: saturating `as i64`, exact integer product) -/
theorem add_float_whole_seconds_exact (e : Ep) (he : e.dur.Canon) (x : F64) (hw : x.wf = true)
    (hf : x.isFinite = true) (k : Int) (hk : toRat x = (k : Rat)) :
    (epochAddF e.dur x).Canon ∧ (epochAddF e.dur x).val = clampD (e.dur.val + clampD (k * 1000000000)) :=
  epochAddF_whole e.dur he x hw hf k hk

open Hifi.F64 Hifi.ViewsF Hifi.DurFloat in
/-- the float model and the integer model `Ep.addWholeSeconds` (above) are the same function on
    integer-valued doubles: the SoftF64 evaluation of `trunc == x` and of `x as i64` yields exactly `satI64 k` -/
theorem add_float_is_addWholeSeconds (e : Ep) (x : F64) (hw : x.wf = true) (hf : x.isFinite = true) (k : Int)
    (hk : toRat x = (k : Rat)) : epochAddF e.dur x = (e.addWholeSeconds k).dur := by
  obtain ⟨s, m, ex, rfl⟩ := exists_fin_of_isFinite hf
  have hb := brk_of_int s m ex hw k hk
  unfold epochAddF Ep.addWholeSeconds; rw [hb]; simp only [if_true]
  have hcast : toI64 (fin s m ex) = satI64 k := by
    unfold toI64 satI64; rw [toIntSat_fin, hk, truncQ_intCast]
    grind
  rw [hcast]

open Hifi.F64 Hifi.ViewsF Hifi.DurFloat in
/-- hence exactly e + k·10^9 whenever that is representable -/
theorem add_float_whole_seconds_in_range (e : Ep) (he : e.dur.Canon) (x : F64) (hw : x.wf = true)
    (hf : x.isFinite = true) (k : Int) (hk : toRat x = (k : Rat))
    (h1 : DMIN ≤ k * 1000000000 ∧ k * 1000000000 ≤ DMAX)
    (h2 : DMIN ≤ e.dur.val + k * 1000000000 ∧ e.dur.val + k * 1000000000 ≤ DMAX) :
    (epochAddF e.dur x).val = e.dur.val + k * 1000000000 := by
  rw [(epochAddF_whole e.dur he x hw hf k hk).2]
  unfold DMIN DMAX at h1 h2; simp only [NPCs_eq] at h1 h2
  rw [clampD_mid (x := k * 1000000000) (by omega) (by omega), clampD_mid (by omega) (by omega)]

open Hifi.F64 Hifi.ViewsF Hifi.DurFloat in
/-- +inf / -inf are "whole" for the test (`inf.trunc() == inf`): the cast and the sum saturate -/
theorem add_float_infinite (e : Ep) (he : e.dur.Canon) :
    (epochAddF e.dur (inf false)).val = clampD (e.dur.val + DMAX) ∧
    (epochAddF e.dur (inf true)).val = clampD (e.dur.val + DMIN) := by
  have h := epochAddF_inf e.dur he; exact ⟨h.1, h.2.1⟩

open Hifi.F64 Hifi.ViewsF Hifi.DurFloat in
/-- a finite double that is not a whole number takes the float path: the elapsed time grows by exactly
    the duration `x * Unit::Second` denotes (C18: t = clampD (trunc (rnd (x·10^9)))), saturating; canonical -/
theorem add_float_fractional_seconds (e : Ep) (he : e.dur.Canon) (x : F64) (hf : x.isFinite = true)
    (hb : brk x = false) :
    ∃ t, unitTimesF 1000000000 x = some t ∧ (epochAddF e.dur x).Canon ∧
      (epochAddF e.dur x).val = clampD (e.dur.val + t) := epochAddF_fractional e.dur he x hf hb

open Hifi.F64 Hifi.ViewsF Hifi.DurFloat in
/-- the test `seconds.trunc() == seconds` on a canonical finite double is exactly "integer-valued" -/
theorem whole_number_test (s : Bool) (m : Nat) (e : Int) (hw : wf (fin s m e) = true) :
    brk (fin s m e) = true ↔ ∃ N : Int, toRat (fin s m e) = (N : Rat) :=
  ⟨int_of_brk s m e hw, fun ⟨N, h⟩ => brk_of_int s m e hw N h⟩

open Hifi.F64 Hifi.ViewsF Hifi.DurFloat in
/-- `Epoch + f64` never panics, for any double (NaN adds nothing); the result is canonical -/
theorem add_float_total (e : Ep) (he : e.dur.Canon) (x : F64) :
    (epochAddF e.dur x).Canon ∧ epochAddF e.dur nan = Dur.add e.dur Dur.ZERO :=
  ⟨epochAddF_total e.dur he x, epochAddF_nan e.dur⟩

open Hifi.F64 Hifi.ViewsF Hifi.DurFloat in
/-- the repaired defect D19 stays repaired: 4611686019.0 s (whose product with 1e9 is not a double) now adds
    exactly 4 611 686 019·10^9 ns, and 1e300 s saturates -/
theorem add_float_d19_repaired :
    (epochAddF ⟨0, 0⟩ (F64.ofInt 4611686019)).val = 4611686019000000000 ∧
    epochAddF ⟨0, 0⟩ (F64.ofBits 0x7e37e43c8800759c) = Dur.MAX := by decide +kernel

-- non-vacuity: an epoch before its reference, a negative duration, no bound hit
example : (Dur.mk (-1) 5).Canon ∧ (Dur.mk (-3) 17).Canon ∧
    DMIN ≤ (Dur.mk (-1) 5).val + (Dur.mk (-3) 17).val ∧ (Dur.mk (-1) 5).val + (Dur.mk (-3) 17).val ≤ DMAX := by
  unfold Dur.Canon; simp only [NPC_eq]; decide

end Hifi.C04
