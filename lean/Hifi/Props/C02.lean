import Hifi.Lemmas.Duration
/-
  C02  Duration ↔ integer nanosecond count round-trips; one canonical representation.
-/
namespace Hifi.C02
open Hifi Hifi.Spec

/-- the nine unit factors are the ones the property means -/
theorem unit_factors_pinned :
    unitFactors = [1, 10^3, 10^6, 10^9, 60 * 10^9, 3600 * 10^9, 86400 * 10^9, 7 * 86400 * 10^9,
      36525 * 86400 * 10^9] := by decide

/-- one observable form per value: canonical durations with the same count are identical -/
theorem canonical_form_unique (a b : Dur) (ha : a.Canon) (hb : b.Canon) (h : a.val = b.val) : a = b :=
  canon_unique a b ha hb h

/-- a canonical duration denotes a count inside the representable interval -/
theorem canonical_in_range (a : Dur) (ha : a.Canon) : DMIN ≤ a.val ∧ a.val ≤ DMAX := canon_range a ha

/-- from an i128 (indeed any integer) count: canonical, the clamped count -/
theorem from_total_exact (n : Int) : (Dur.fromTotal n).Canon ∧ (Dur.fromTotal n).val = clampD n :=
  fromTotal_spec n

/-- from raw (i16, u64) parts: canonical, the clamped count -/
theorem from_parts_exact (c ns : Int) (hc : -32768 ≤ c ∧ c ≤ 32767) (hn : 0 ≤ ns ∧ ns ≤ 18446744073709551615) :
    (Dur.fromParts c ns).Canon ∧ (Dur.fromParts c ns).val = clampD (valP c ns) :=
  fromParts_spec c ns ⟨hc.1, hc.2, hn.1, hn.2⟩

/-- canonical parts are a fixed point of the constructor -/
theorem from_parts_of_canonical (a : Dur) (ha : a.Canon) : Dur.fromParts a.c a.ns = a :=
  normalize_of_canon a ha

/-- from an i64 count: exact (always representable) -/
theorem from_truncated_exact (n : Int) (h : fitsI64 n = true) :
    (Dur.fromTruncated n).Canon ∧ (Dur.fromTruncated n).val = n := fromTruncated_spec n h

/-- reading the count back — PARTIAL: outside defect class D1 (see C01.mul_counterexample) -/
theorem total_nanoseconds_exact_partial (a : Dur) (ha : a.Canon) (h : Dur.d1class a = false) :
    Dur.totalNs a = a.val := totalNs_spec a ha h

/-- round trip count → duration → count, for every count whose duration is not in class D1
    (all counts ≥ -1 century, and all whole centuries) -/
theorem total_of_from_total_partial (n : Int) (h : Dur.d1class (Dur.fromTotal n) = false) :
    Dur.totalNs (Dur.fromTotal n) = clampD n := by
  rw [totalNs_spec _ (fromTotal_spec n).1 h, (fromTotal_spec n).2]

/-- round trip duration → count → duration (outside D1) -/
theorem from_total_of_total_partial (a : Dur) (ha : a.Canon) (h : Dur.d1class a = false) :
    Dur.fromTotal (Dur.totalNs a) = a := by
  rw [totalNs_spec a ha h]
  have := fromTotal_spec a.val
  apply canon_unique _ _ this.1 ha
  rw [this.2]
  have hr := canon_range a ha
  unfold DMIN DMAX at hr; simp only [NPCs_eq] at hr
  rw [clampD_mid] <;> omega

/-- the failing 64-bit accessor: never panics, never a different number, succeeds within ±2 centuries,
    fails when the count does not fit an i64 -/
theorem try_truncated_exact (a : Dur) (ha : a.Canon) :
    Dur.tryTruncated a ≠ .panic ∧
    (∀ v, Dur.tryTruncated a = .ok v → v = a.val) ∧
    (-2 * NPCs ≤ a.val ∧ a.val ≤ 2 * NPCs → Dur.tryTruncated a = .ok a.val) ∧
    (fitsI64 a.val = false → Dur.tryTruncated a = .err) ∧
    -- since fix e4d86c7 (counts between i64::MIN and −2 centuries used to be refused): succeeds EXACTLY when the count fits
    (fitsI64 a.val = true → Dur.tryTruncated a = .ok a.val) := tryTruncated_spec a ha

/-- the non-failing accessor: the count, or the i64 bound of the same sign -/
theorem truncated_exact (a : Dur) (ha : a.Canon) :
    ∃ v, Dur.truncated a = .ok v ∧
      (-2 * NPCs ≤ a.val ∧ a.val ≤ 2 * NPCs → v = a.val) ∧
      (v = a.val ∨ (a.val < 0 ∧ v = I64MIN) ∨ (a.val ≥ 0 ∧ v = I64MAX)) ∧
      (fitsI64 a.val = false → (a.val < 0 ∧ v = I64MIN) ∨ (a.val ≥ 0 ∧ v = I64MAX)) := truncated_spec a ha

/-- an i64 number of any of the nine units -/
theorem unit_count_exact (f q : Int) (hf : f ∈ unitFactors) (hq : fitsI64 q = true) :
    (Dur.unitMulI64 f q).Canon ∧ (Dur.unitMulI64 f q).val = clampD (q * f) := unitMulI64_spec f q hf hq

/-- composed fields (any integers; the code's are u64): never panics, the clamped signed sum -/
theorem compose_exact (sign d h m s ms us ns : Int) :
    ∃ r, Dur.compose sign d h m s ms us ns = .ok r ∧ r.Canon ∧
      r.val = clampD ((if sign < 0 then -1 else 1) *
        (d * 86400000000000 + h * 3600000000000 + m * 60000000000 + s * 1000000000 + ms * 1000000 + us * 1000 + ns)) :=
  compose_spec sign d h m s ms us ns

/-- std::time::Duration in: clamped count -/
theorem from_std_exact (secs nanos : Int) (h1 : 0 ≤ secs ∧ secs ≤ 18446744073709551615)
    (h2 : 0 ≤ nanos ∧ nanos < 1000000000) :
    (Dur.fromStd secs nanos).Canon ∧ (Dur.fromStd secs nanos).val = clampD (secs * 1000000000 + nanos) :=
  fromStd_spec secs nanos h1 h2

/-- std::time::Duration out: zero for negative durations, else the split count (no D1 hypothesis:
    negative durations never reach `total_nanoseconds`) -/
theorem into_std_exact (a : Dur) (ha : a.Canon) :
    Dur.intoStd a = (if a.val < 0 then (0, 0) else (a.val / 1000000000, a.val % 1000000000)) :=
  intoStd_spec a ha

/-- the D1 hypothesis cannot be dropped -/
theorem total_counterexample : ¬ (Dur.totalNs ⟨-2, 1⟩ = (Dur.mk (-2) 1).val) := by decide

example : (Dur.mk (-2) 1).Canon ∧ Dur.d1class ⟨-2, 1⟩ = true ∧ Dur.d1class ⟨-1, 1⟩ = false := by
  unfold Dur.Canon; simp only [NPC_eq]; decide

end Hifi.C02

namespace Hifi.C02
open Hifi Hifi.Spec

/-- `truncated_nanoseconds` is the count clamped to the i64 range, for EVERY canonical duration (since fix e4d86c7
    also between i64::MIN and −2 centuries, where it used to answer i64::MIN: "never return a different number") -/
theorem truncated_is_clamp (a : Dur) (ha : a.Canon) :
    Dur.truncated a = .ok (if a.val < I64MIN then I64MIN else if a.val > I64MAX then I64MAX else a.val) := by
  have ht := tryTruncated_spec a ha
  obtain ⟨_, _, _, t4, t5⟩ := ht
  have hsign : a.c < 0 ↔ a.val < 0 := by
    obtain ⟨a1, a2, a3, a4⟩ := ha
    unfold Dur.val valP; simp only [NPC_eq, NPCs_eq] at *; omega
  unfold Dur.truncated
  by_cases hf : fitsI64 a.val = true
  · rw [t5 hf]
    simp only
    unfold fitsI64 at hf; simp only [decide_eq_true_eq] at hf
    have h1 : ¬ a.val < I64MIN := by unfold I64MIN; omega
    have h2 : ¬ a.val > I64MAX := by unfold I64MAX; omega
    rw [if_neg h1, if_neg h2]
  · have hf' : fitsI64 a.val = false := by simpa using hf
    rw [t4 hf']
    simp only
    unfold fitsI64 at hf'; simp only [decide_eq_false_iff_not] at hf'
    by_cases hc : a.c < 0
    · rw [if_pos hc]
      have hneg := hsign.mp hc
      have h1 : a.val < I64MIN := by unfold I64MIN; omega
      rw [if_pos h1]
    · rw [if_neg hc]
      have hnn : ¬ a.val < 0 := fun h => hc (hsign.mpr h)
      have h1 : ¬ a.val < I64MIN := by unfold I64MIN; omega
      have h2 : a.val > I64MAX := by unfold I64MAX; omega
      rw [if_neg h1, if_pos h2]

example : Dur.truncated ⟨-3, 1000000000000000000⟩ = .ok (-8467280000000000000) := by decide

end Hifi.C02
