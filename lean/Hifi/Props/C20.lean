import Hifi.Lemmas.EpochOrd
import Hifi.Lemmas.ViewsFloat
/-
  C20  GNSS week / time-of-week, nanosecond counters (integer parts).
  Day-of-year (floating point): theorems on the SoftF64 model at the end of this file (the exact
  integer `duration_in_year` is the business of C09; the driver runs `doy` lines with the hardware Float).
-/
namespace Hifi.C20
open Hifi Hifi.Spec

theorem NPD_eq : Gen.NANOSECONDS_PER_DAY = 86400000000000 := rfl

/-- one week in ns -/
local notation "W" => (604800000000000 : Int)

/-- an epoch built from (week, ns of week) lies exactly week × 7 days + ns after the reference
    (saturating), for every u32 week and u64 nanosecond count -/
theorem from_time_of_week_exact (week ns : Int) :
    (fromTimeOfWeek week ns).Canon ∧ (fromTimeOfWeek week ns).val = clampD (week * W + ns) := by
  unfold fromTimeOfWeek
  have h := fromTotal_spec (ns + week * 7 * Gen.NANOSECONDS_PER_DAY)
  refine ⟨h.1, ?_⟩
  rw [h.2, NPD_eq]; congr 1; omega

/-- decomposing an epoch at or after its reference returns the unique (week, ns < one week) pair;
    the casts to u32 / u64 are exact for every representable duration -/
theorem to_time_of_week_exact (d : Dur) (hd : d.Canon) (hpos : 0 ≤ d.val) :
    toTimeOfWeek d = (d.val / W, d.val % W) ∧ 0 ≤ d.val % W ∧ d.val % W < W ∧
    d.val = (d.val / W) * W + d.val % W := by
  have hc : 0 ≤ d.c := by
    obtain ⟨h1, h2, h3, h4⟩ := hd
    unfold Dur.val valP at hpos; simp only [NPC_eq, NPCs_eq] at *; omega
  have hcl : Dur.d1class d = false := by unfold Dur.d1class; simp only [decide_eq_false_iff_not]; omega
  have ht := totalNs_spec d hd hcl
  have hr := canon_range d hd
  unfold DMIN DMAX at hr; simp only [NPCs_eq] at hr
  unfold toTimeOfWeek
  simp only [NPD_eq]
  rw [ht]
  generalize d.val = v at *
  rw [Int.tdiv_eq_ediv_of_nonneg hpos, Int.tdiv_eq_ediv_of_nonneg (by omega)]
  have he : v / 86400000000000 / 7 = v / 604800000000000 := by omega
  rw [he]
  have hw : (v / 604800000000000) % 4294967296 = v / 604800000000000 := by omega
  have hn : v - v / 604800000000000 * 86400000000000 * 7 = v % 604800000000000 := by omega
  have hn2 : (v % 604800000000000) % 18446744073709551616 = v % 604800000000000 := by omega
  rw [hw, hn, hn2]
  exact ⟨rfl, by omega, by omega, by omega⟩

/-- the pair is unique -/
theorem week_pair_unique (w n w' n' : Int) (h1 : 0 ≤ n ∧ n < W) (h2 : 0 ≤ n' ∧ n' < W)
    (h : w * W + n = w' * W + n') : w = w' ∧ n = n' := by omega

/-- mutually inverse, (a): build from the decomposition of an epoch at or after the reference -/
theorem from_of_to (d : Dur) (hd : d.Canon) (hpos : 0 ≤ d.val) :
    fromTimeOfWeek (toTimeOfWeek d).1 (toTimeOfWeek d).2 = d := by
  have h := to_time_of_week_exact d hd hpos
  rw [h.1]
  have hf := from_time_of_week_exact (d.val / W) (d.val % W)
  apply canon_unique _ _ hf.1 hd
  have hr := canon_range d hd
  unfold DMIN DMAX at hr; simp only [NPCs_eq] at hr
  rw [hf.2, clampD_mid] <;> omega

/-- mutually inverse, (b): decompose an epoch built from a pair with ns < one week that is representable -/
theorem to_of_from (week ns : Int) (hw : 0 ≤ week) (hn : 0 ≤ ns ∧ ns < W) (hrep : week * W + ns ≤ DMAX) :
    toTimeOfWeek (fromTimeOfWeek week ns) = (week, ns) := by
  have hf := from_time_of_week_exact week ns
  unfold DMAX at hrep; simp only [NPCs_eq] at hrep
  have hv : (fromTimeOfWeek week ns).val = week * W + ns := by rw [hf.2, clampD_mid] <;> omega
  have h := to_time_of_week_exact _ hf.1 (by rw [hv]; omega)
  rw [h.1, hv]
  congr 1 <;> omega

/-- nanosecond counters since a GNSS reference: a count below one century round-trips exactly, a
    count of one century or more is an error — never a wrong number -/
theorem ns_counter_round_trip (n : Int) (ts : TS) (hn : 0 ≤ n ∧ n ≤ 18446744073709551615) :
    toNanosecondsIn ⟨Dur.fromParts 0 n, ts⟩ ts = some (if n < NPC then .ok n else .err) := by
  unfold toNanosecondsIn Ep.to toTimeScale
  rw [if_pos rfl]; simp only
  have h := fromParts_spec 0 n ⟨by show (-32768 : Int) ≤ 0; omega, by show (0 : Int) ≤ 32767; omega, hn.1, hn.2⟩
  obtain ⟨c1, c2, c3, c4⟩ := h.1
  have hv := h.2
  unfold Dur.val valP at hv
  simp only [NPC_eq, NPCs_eq] at *
  by_cases hlt : n < 3155760000000000000
  · rw [clampD_mid (by omega) (by omega)] at hv
    have hc0 : (Dur.fromParts 0 n).c = 0 := by omega
    rw [if_neg (by omega), if_pos hlt]; congr 2; omega
  · rw [clampD_mid (by omega) (by omega)] at hv
    have hc0 : (Dur.fromParts 0 n).c ≠ 0 := by omega
    rw [if_pos hc0, if_neg hlt]

/-- for any epoch: the counter is returned only when the elapsed time in that scale is within
    [0, one century), and then it is exactly that elapsed time; otherwise an error -/
theorem ns_counter_never_wrong (e : Ep) (ts : TS) (x : Ep) (hx : e.to ts = some x) (hc : x.dur.Canon) :
    toNanosecondsIn e ts = some (if 0 ≤ x.dur.val ∧ x.dur.val < NPCs then .ok x.dur.val else .err) := by
  unfold toNanosecondsIn; rw [hx]; simp only
  have hcond : (0 ≤ x.dur.val ∧ x.dur.val < NPCs) ↔ x.dur.c = 0 := by
    obtain ⟨c1, c2, c3, c4⟩ := hc
    unfold Dur.val valP; simp only [NPC_eq, NPCs_eq] at *; omega
  have hval : x.dur.c = 0 → x.dur.val = x.dur.ns := by
    intro h0; unfold Dur.val valP; rw [h0]; omega
  by_cases h0 : x.dur.c = 0
  · rw [if_neg (by omega), if_pos (hcond.mpr h0), hval h0]
  · rw [if_pos h0, if_neg (fun h => h0 (hcond.mp h))]

-- non-vacuity: GPS week 2238, 3 days in
example : toTimeOfWeek (fromTimeOfWeek 2238 259200000000000) = (2238, 259200000000000) := by decide +kernel

/-! ### `day_of_year` = `duration_in_year().to_unit(Unit::Day) + 1.0` on SoftF64 -/
open Hifi.F64 Hifi.ViewsF Hifi.DurFloat in
/-- day of year is 1-based: exactly 1.0 at the first nanosecond of the year -/
theorem day_of_year_starts_at_one : dayOfYear ⟨0, 0⟩ = one ∧ toRat one = 1 := by
  exact ⟨cDay_facts.2.2.2.2.1, cDay_facts.2.2.2.2.2.2.2.1⟩

open Hifi.F64 Hifi.ViewsF Hifi.DurFloat in
/-- for every duration into the year d (0 ≤ d < 366 days): finite, between 1 and 367, and within
    10·2^-53 (relative, i.e. five ulp) of the exact d/day + 1 -/
theorem day_of_year_accuracy (d : Dur) (hd : d.Canon) (h0 : 0 ≤ d.val) (h1 : d.val ≤ 366 * 86400000000000 - 1) :
    (dayOfYear d).isFinite = true ∧ 1 ≤ toRat (dayOfYear d) ∧ toRat (dayOfYear d) ≤ 367 ∧
    closeTo 10 (toRat (dayOfYear d)) ((d.val : Rat) / 86400000000000 + 1) 1 = true :=
  dayOfYear_spec d hd h0 h1

open Hifi.F64 Hifi.ViewsF Hifi.DurFloat in
/-- non-decreasing within the year -/
theorem day_of_year_monotone (d1 d2 : Dur) (h1 : d1.Canon) (h2 : d2.Canon) (h : d1.val ≤ d2.val) :
    F64.le (dayOfYear d1) (dayOfYear d2) = true := dayOfYear_mono d1 d2 h1 h2 h

open Hifi.F64 Hifi.ViewsF Hifi.DurFloat in
/-- the upper end is attained by rounding: in the last nanosecond of a leap (common) year the double
    nearest to 366.99999999999999 (365.99…) is 367.0 (366.0) — float precision, not a day count error -/
theorem day_of_year_last_nanosecond :
    dayOfYear ⟨0, 366 * 86400000000000 - 1⟩ = F64.ofInt 367 ∧
    dayOfYear ⟨0, 365 * 86400000000000 - 1⟩ = F64.ofInt 366 :=
  ⟨cDay_facts.2.2.2.2.2.1, cDay_facts.2.2.2.2.2.2.1⟩

end Hifi.C20
