import Hifi.Lemmas.DurFloat
/-
  C18  Duration float interop: rounded out, truncated to ns in, never panics.

  All theorems are about the executable model `Hifi/Model/DurFloat.lean` (a transcription of the
  current `/repo` code) with f64 = `F64` (Model/SoftF64.lean, IEEE-754 binary64 over exact
  rationals; tied bit for bit to the hardware by the F64 stream and to the code by the C18
  correspondence run).  `q.wf` ("canonical") holds for every value decoded from a bit pattern
  (`F64.ofBits_wf`) and every value the operations return.

  Reading of the property (Spec/DurFloat.lean): a float count `q` of a unit of `f` ns denotes
  `unitTimesF f q` = clampD (trunc (rnd (q·f))), ±inf ↦ the bounds, NaN open.
-/
namespace Hifi.C18
open Hifi Hifi.F64 Hifi.Spec Hifi.DurFloat

/-! ### constants -/

/-- the f64 factor of each of the nine units is exactly the unit's length in nanoseconds (so
    `NANOSECONDS_PER_X as f64` loses nothing), and the bound-check quotient `f64::MAX / factor`
    is a finite double whose product with the factor is beyond 2^100 ns -/
theorem unit_factors_pinned :
    unitTable.length = 9 ∧ unitTable.all (fun p => unitFactsOk p.2.1 p.2.2) = true := unitTable_ok

/-- the float constants of the code are the intended ones -/
theorem float_consts_pinned :
    maxF = ofBits 0x7fefffffffffffff ∧ minF = ofBits 0xffefffffffffffff ∧
    epsF = ofBits 0x3cb0000000000000 ∧ toRat epsF = pow2 (-52) ∧
    toRat i64MaxF = ((9223372036854775808 : Int) : Rat) ∧ toRat tenF = 10 ∧
    toRat SECONDS_PER_CENTURY = ((36525 * 86400 : Int) : Rat) ∧
    lit1em 9 = ofBits Gen.UNIT_IN_SECONDS_ns ∧ lit1em 6 = ofBits Gen.UNIT_IN_SECONDS_us ∧
    lit1em 3 = ofBits Gen.UNIT_IN_SECONDS_ms := by decide +kernel

/-- `Unit::in_seconds` as observed through the public API equals the modelled expression, and is
    the double nearest to the unit's exact length in seconds -/
theorem in_seconds_pinned :
    inSeconds "ns" = some (ofBits Gen.UNIT_IN_SECONDS_ns) ∧ inSeconds "us" = some (ofBits Gen.UNIT_IN_SECONDS_us) ∧
    inSeconds "ms" = some (ofBits Gen.UNIT_IN_SECONDS_ms) ∧ inSeconds "s" = some (ofBits Gen.UNIT_IN_SECONDS_s) ∧
    inSeconds "min" = some (ofBits Gen.UNIT_IN_SECONDS_min) ∧ inSeconds "h" = some (ofBits Gen.UNIT_IN_SECONDS_h) ∧
    inSeconds "d" = some (ofBits Gen.UNIT_IN_SECONDS_d) ∧ inSeconds "wk" = some (ofBits Gen.UNIT_IN_SECONDS_wk) ∧
    inSeconds "cy" = some (ofBits Gen.UNIT_IN_SECONDS_cy) ∧
    (["ns", "us", "ms", "s", "min", "h", "d", "wk", "cy"].all fun u =>
      match inSeconds u, unitNs u with
      | some x, some f => x == rnd ((f : Rat) / 1000000000)
      | _, _ => false) = true := by decide +kernel

/-! ### float count of a unit → Duration  (`Unit * f64`, `f64 * Unit`, `x.seconds()` …,
    `Duration::from_seconds(x)` …: all the same function) -/

/-- for EVERY finite double and each of the nine units the result is the canonical duration of
    clampD (trunc (rnd (q · factor))): the bound check and the i64/i128 cast split are invisible -/
theorem unit_times_f64_spec (u : String) (f : F64) (fs : Int) (hu : unitFactorF u = some f)
    (hs : unitNs u = some fs) (q : F64) (hq : q.isFinite = true) :
    (unitMulF64 f q).Canon ∧ some (unitMulF64 f q).val = unitTimesF fs q :=
  unitMulF64_gen f fs (unitFacts_of_unit hu hs) q hq

/-- hence exactly the product whenever that is a whole number of nanoseconds of magnitude ≤ 2^53 -/
theorem unit_times_f64_exact (u : String) (f : F64) (fs : Int) (hu : unitFactorF u = some f)
    (hs : unitNs u = some fs) (q : F64) (hq : q.isFinite = true) (n : Int)
    (hn : -9007199254740992 ≤ n ∧ n ≤ 9007199254740992) (hprod : toRat q * (fs : Rat) = (n : Rat)) :
    (unitMulF64 f q).Canon ∧ (unitMulF64 f q).val = n :=
  unitMulF64_exact_gen f fs (unitFacts_of_unit hu hs) q hq n hn hprod

/-- more generally: whenever the real product is itself a double `x` (an integer with at most 53
    significant bits of ANY size, e.g. 15020.0 days = 1 297 728 000 000 000 000 ns) nothing is
    rounded: the result is clampD (trunc x) -/
theorem unit_times_f64_representable (u : String) (f : F64) (fs : Int) (hu : unitFactorF u = some f)
    (hs : unitNs u = some fs) (q : F64) (hq : q.isFinite = true) (x : F64) (hx : x.isFinite = true)
    (hwx : x.wf = true) (hprod : toRat q * (fs : Rat) = toRat x) :
    (unitMulF64 f q).Canon ∧ some (unitMulF64 f q).val = truncNs x :=
  unitMulF64_representable_gen f fs (unitFacts_of_unit hu hs) q hq x hx hwx hprod

/-- +inf ↦ MAX, -inf ↦ MIN, NaN ↦ ZERO (the last is what the code gives; the property only asks
    for "no panic" there) -/
theorem unit_times_f64_nonfinite :
    unitTable.all (fun p => unitMulF64 p.2.1 (inf false) == Dur.MAX && unitMulF64 p.2.1 (inf true) == Dur.MIN &&
      unitMulF64 p.2.1 nan == Dur.ZERO) = true := by decide +kernel

/-- never a panic, for ANY double (NaN and infinities included): the model function is total (its
    only partial ingredients would be `from_truncated_nanoseconds` outside i64 and the casts, and
    `unit_times_f64_spec` shows the former is only reached below 2^63) and the result is canonical -/
theorem unit_times_f64_total (u : String) (f : F64) (fs : Int) (hu : unitFactorF u = some f)
    (hs : unitNs u = some fs) (q : F64) : (unitMulF64 f q).Canon := by
  cases q with
  | fin s m e => exact (unit_times_f64_spec u f fs hu hs (fin s m e) rfl).1
  | inf s =>
    have hall := unit_times_f64_nonfinite
    rw [List.all_eq_true] at hall
    have := hall _ (unit_cases hu hs)
    simp only [Bool.and_eq_true, beq_iff_eq] at this
    cases s
    · rw [this.1.1]; exact Dur_MAX_spec.1
    · rw [this.1.2]; exact Dur_MIN_spec.1
  | nan =>
    have hall := unit_times_f64_nonfinite
    rw [List.all_eq_true] at hall
    have := hall _ (unit_cases hu hs)
    simp only [Bool.and_eq_true, beq_iff_eq] at this
    rw [this.2]
    unfold Dur.ZERO Dur.Canon; simp only [NPC_eq]; decide

/-- the i64 cast is only ever applied to a value it holds exactly, whatever the input:
    `total_ns.abs() < i64::MAX as f64` implies the truncation fits an i64 -/
theorem i64_cast_in_range (t : F64) (h : F64.lt (F64.abs t) i64MaxF = true) :
    fitsI64 (toI64 t) = true ∧ (∀ s m e, t = fin s m e → toI64 t = truncQ (toRat t)) := by
  unfold toI64
  cases t with
  | nan => exact absurd h (by decide)
  | inf s => rw [i64MaxF_eq] at h; exact absurd h (by cases s <;> decide)
  | fin s m e =>
    rw [i64MaxF_eq, abs_fin, lt_fin_fin, decide_eq_true_eq, toRat_i64MaxF] at h
    have hnn := mag_nonneg m e
    have e0 : toRat (fin false m e) = (m : Rat) * pow2 e := by simp [toRat_fin]
    rw [e0] at h
    have hb : -9223372036854775808 < truncQ (toRat (fin s m e)) ∧
        truncQ (toRat (fin s m e)) < 9223372036854775808 := by
      rw [toRat_fin]
      cases s
      · simp only [Bool.false_eq_true, if_false]
        exact ⟨truncQ_gt (by decide) (by grind), truncQ_lt (by decide) h⟩
      · simp only [if_true]
        exact ⟨truncQ_gt (by decide) (by grind), truncQ_lt (by decide) (by grind)⟩
    rw [toIntSat_fin, if_neg (by omega), if_neg (by omega)]
    refine ⟨by unfold fitsI64; simp only [decide_eq_true_eq]; omega, fun _ _ _ _ => rfl⟩

/-- `Duration::compose_f64` on finite fields: never panics; canonical; the fields converted one
    by one and summed with saturation, negated for a negative sign -/
theorem compose_f64_spec (sign : Int) (d h m s ms us ns : F64)
    (hd : d.isFinite = true) (hh : h.isFinite = true) (hm : m.isFinite = true) (hs : s.isFinite = true)
    (hms : ms.isFinite = true) (hus : us.isFinite = true) (hns : ns.isFinite = true) :
    ∃ r, composeF64 sign d h m s ms us ns = .ok r ∧ r.Canon ∧ composeNs sign d h m s ms us ns = some r.val :=
  composeF64_spec sign d h m s ms us ns hd hh hm hs hms hus hns

/-! ### Duration → float -/

/-- `to_seconds` is finite, has exactly the sign of the duration (zero only for zero) … -/
theorem to_seconds_sign (d : Dur) (hd : d.Canon) :
    (toSeconds d).isFinite = true ∧ (0 < d.val → 0 < toRat (toSeconds d)) ∧
    (d.val < 0 → toRat (toSeconds d) < 0) ∧ (d.val = 0 → toRat (toSeconds d) = 0) := toSeconds_sign d hd

/-- … and is non-decreasing in the duration -/
theorem to_seconds_monotone (d1 d2 : Dur) (h1 : d1.Canon) (h2 : d2.Canon) (h : d1.val ≤ d2.val) :
    F64.le (toSeconds d1) (toSeconds d2) = true := toSeconds_mono d1 d2 h1 h2 h

/-- it never strays from the whole-second count by more than one second -/
theorem to_seconds_within_a_second (d : Dur) (hd : d.Canon) :
    ((d.val / 1000000000 : Int) : Rat) ≤ toRat (toSeconds d) ∧
    toRat (toSeconds d) ≤ ((d.val / 1000000000 + 1 : Int) : Rat) := by
  have h := toSeconds_bounds d hd
  have hv := val_secI d
  have : d.val / 1000000000 = secI d := by omega
  rw [this]; exact ⟨h.2.1, h.2.2.1⟩

/-- **accuracy of `to_seconds`**: within two ulp — precisely
    |to_seconds d − val/10^9| ≤ 4 · 2^-53 · max(|val/10^9|, 1),
    i.e. 4 half-ulps of the value, or of one second for sub-second values (`Spec.closeTo`) -/
theorem to_seconds_accuracy (d : Dur) (hd : d.Canon) :
    toSecondsOk 4 d.val (toSeconds d) = true := by
  unfold toSecondsOk signOk
  have hs := toSeconds_sign d hd
  rw [hs.1, toSeconds_err d hd]
  simp only [Bool.and_self, Bool.true_and, decide_eq_true_eq]
  exact ⟨hs.2.1, hs.2.2.1, hs.2.2.2⟩

/-- `to_unit` for each of the nine units: finite, exact sign, non-decreasing -/
theorem to_unit_sign (u : String) (c : F64) (hu : fromSecondsU u = some c) (d : Dur) (hd : d.Canon) :
    (toUnitWith d c).isFinite = true ∧ (0 < d.val → 0 < toRat (toUnitWith d c)) ∧
    (d.val < 0 → toRat (toUnitWith d c) < 0) ∧ (d.val = 0 → toRat (toUnitWith d c) = 0) :=
  toUnitWith_props c (fromSecOk_of_unit hu) d hd

theorem to_unit_monotone (u : String) (c : F64) (hu : fromSecondsU u = some c) (d1 d2 : Dur)
    (h1 : d1.Canon) (h2 : d2.Canon) (h : d1.val ≤ d2.val) :
    F64.le (toUnitWith d1 c) (toUnitWith d2 c) = true :=
  toUnitWith_mono c (fromSecOk_of_unit hu) d1 d2 h1 h2 h

/-- **accuracy of `to_unit`** for each of the nine units: within four ulp — precisely
    |to_unit d u − val/len(u)| ≤ 8 · 2^-53 · max(|val/len(u)|, one second expressed in u) -/
theorem to_unit_accuracy (u : String) (c : F64) (fs : Int) (hu : fromSecondsU u = some c)
    (hs : unitNs u = some fs) (d : Dur) (hd : d.Canon) :
    toUnitOk 8 fs d.val (toUnitWith d c) = true := by
  unfold toUnitOk signOk
  have hsg := to_unit_sign u c hu d hd
  rw [hsg.1, toUnit_err u c fs hu hs d hd]
  simp only [Bool.and_self, Bool.true_and, decide_eq_true_eq]
  exact ⟨hsg.2.1, hsg.2.2.1, hsg.2.2.2⟩

/-! ### Duration * f64  (code as repaired by e873242 and 6932a6a: exit `trunc(nv) == nv || p == 38`) -/

/-- the decimal precision search stops for EVERY double (NaN and the infinities included) with
    0 ≤ p ≤ 38 — so `10_i128.pow(p)` (which holds up to 10^38) cannot overflow and
    `p.try_into::<u32>()` cannot fail -/
theorem dmulf_search_terminates (q : F64) :
    ∃ p nv, precLoop 64 0 q q = .ok (p, nv) ∧ 0 ≤ p ∧ p ≤ 38 := precLoop_terminates q

/-- `Duration * f64` never panics and never hangs, for any duration (even outside the 10 000 year
    range) and any double; the result is canonical -/
theorem dmulf_total (d : Dur) (q : F64) : ∃ r, durMulF64 d q = .ok r ∧ r.Canon := durMulF64_total d q

/-- for finite canonical doubles the exit test means exactly "integer-valued" -/
theorem dmulf_exit_test (s : Bool) (m : Nat) (e : Int) (hw : wf (fin s m e) = true) :
    brk (fin s m e) = true ↔ ∃ N : Int, toRat (fin s m e) = (N : Rat) :=
  ⟨int_of_brk s m e hw, fun ⟨N, h⟩ => brk_of_int s m e hw N h⟩

/-- an integer-valued factor (any size: 3.0, -86400.0, 1e300 …) and a duration outside the recorded
    class D1 (any magnitude): the product is exact and saturating, clampD (d · q) -/
theorem dmulf_integer_factor_exact_partial (d : Dur) (hd : d.Canon) (hD1 : Dur.d1class d = false) (q : F64)
    (hw : q.wf = true) (hf : q.isFinite = true) (n : Int) (hn : toRat q = (n : Rat)) :
    ∃ r, durMulF64 d q = .ok r ∧ r.Canon ∧ r.val = clampD (d.val * n) :=
  durMulF64_int_exact d hd hD1 q hw hf n hn

/-- **value of `Duration * f64`**, PARTIAL on the recorded class D1 only: for every duration of
    magnitude ≤ 10 000 years outside D1 and EVERY finite double (tiny, subnormal, huge, fractional)
    the result is canonical and within 1 ns + 2^-50·|d·q| of the real product, saturating at the
    bounds (`Spec.durMulOk`).  The full statement (without `hD1`) is false of the code:
    `dmulf_d1_counterexample`. -/
theorem dmulf_value_partial (d : Dur) (hd : d.Canon) (hD1 : Dur.d1class d = false)
    (hV : -TENKY ≤ d.val ∧ d.val ≤ TENKY) (q : F64) (hw : q.wf = true) (hf : q.isFinite = true) :
    ∃ r, durMulF64 d q = .ok r ∧ r.Canon ∧ durMulOk d.val (toRat q) r.val = true :=
  durMulF64_value d hd hD1 hV q hw hf

/-- the repaired defect D21b stays repaired: 1 century * 1e-17 = 31 ns, 100 centuries * 2^-53 = 35035 ns,
    100 centuries * 5e-324 = 0, and NaN / ±inf end the search (ZERO / MAX / MIN) -/
theorem dmulf_tiny_factors :
    durMulF64 ⟨1, 0⟩ (ofBits 0x3c670ef54646d497) = .ok ⟨0, 31⟩ ∧
    durMulF64 ⟨100, 0⟩ (ofBits 0x3ca0000000000000) = .ok ⟨0, 35035⟩ ∧
    durMulF64 ⟨100, 0⟩ (ofBits 0x0000000000000001) = .ok ⟨0, 0⟩ ∧
    durMulF64 ⟨1, 0⟩ nan = .ok ⟨0, 0⟩ ∧ durMulF64 ⟨1, 0⟩ (inf false) = .ok Dur.MAX ∧
    durMulF64 ⟨1, 0⟩ (inf true) = .ok Dur.MIN := by decide +kernel

/-- D1 witness: (-2 centuries + half a century) * 1.0 comes back one century lower -/
theorem dmulf_d1_counterexample :
    durMulF64 ⟨-2, 1577880000000000000⟩ one = .ok ⟨-3, 1577880000000000000⟩ ∧
    durMulOk (Dur.mk (-2) 1577880000000000000).val (toRat one) (Dur.mk (-3) 1577880000000000000).val = false := by
  decide +kernel

/-- D42 (recorded finding, found by audit 2): "multiplying a duration by a finite float behaves likewise", i.e. is
    EXACT whenever the product is a whole number of nanoseconds below 2^53 — it is not: the decimal precision
    search stops on the ROUNDED integer q·10^p once the exact one needs more than 53 bits.
    1 day × (1 + 2^-20) = 86 401 318 359 375 ns exactly (a whole number, < 2^53), the code returns …374;
    `Unit::Day * (1 + 2^-20)` (the unit × float path) is exact.  The value theorem `dmulf_value_partial` (1 ns +
    2^-50 relative) is what holds in general. -/
theorem dmulf_whole_product_counterexample :
    durMulF64 ⟨0, 86400000000000⟩ (ofBits 0x3ff0001000000000) = .ok ⟨0, 86401318359374⟩ ∧
    ((86400000000000 : Int) : Rat) * toRat (ofBits 0x3ff0001000000000) = ((86401318359375 : Int) : Rat) ∧
    unitMulF64 (F64.ofInt Gen.NANOSECONDS_PER_DAY) (ofBits 0x3ff0001000000000) = ⟨0, 86401318359375⟩ := by
  decide +kernel

-- non-vacuity: hypotheses are met by non-trivial values
example : unitFactorF "wk" = some (F64.mul (F64.ofInt Gen.NANOSECONDS_PER_DAY) DAYS_PER_WEEK) ∧
    unitNs "wk" = some 604800000000000 := by decide +kernel
example : (ofBits 0xc0a3880000000000).isFinite = true ∧ (ofBits 0xc0a3880000000000).wf = true ∧
    unitTimesF 86400000000000 (ofBits 0xc0a3880000000000) = some (-216000000000000000) := by
  decide +kernel   -- -2500.0 days (2.16·10^17 ns, beyond 2^53 but exact all the same)
example : toRat (ofBits 0x3fd0000000000000) * ((3600000000000 : Int) : Rat) = ((900000000000 : Int) : Rat) := by
  decide +kernel   -- 0.25 h = 9·10^11 ns < 2^53: covered by `unit_times_f64_exact`
example : (Dur.mk (-3) 17).Canon ∧ (Dur.mk 32767 NPC).Canon ∧ (Dur.mk (-32768) 0).Canon := by
  unfold Dur.Canon; simp only [NPC_eq]; decide
example : fromSecondsU "d" = some (F64.div one SECONDS_PER_DAY) := by decide +kernel
-- MJD_J1900 = 15020.0 days: the product 1.297728·10^18 ns (> 2^53) is a double, hence exact
example : toRat (F64.ofInt 15020) * ((86400000000000 : Int) : Rat) = toRat (F64.ofInt 1297728000000000000) ∧
    truncNs (F64.ofInt 1297728000000000000) = some 1297728000000000000 := by decide +kernel
example : (ofBits 0xc0f5180000000000).wf = true ∧ toRat (ofBits 0xc0f5180000000000) = ((-86400 : Int) : Rat) ∧
    Dur.d1class ⟨-1, 5⟩ = false := by decide +kernel
-- a duration of -9 999 years + 1 ns is inside the quantifier of `dmulf_value_partial` only if outside D1:
example : Dur.d1class ⟨-100, 0⟩ = false ∧ -TENKY ≤ (Dur.mk (-100) 0).val ∧ (Dur.mk 99 3155759999999999999).val ≤ TENKY ∧
    Dur.d1class ⟨-1, 7⟩ = false := by decide

end Hifi.C18
