import Hifi.Lemmas.Leap
import Hifi.Lemmas.LeapFile
/-
  C06  UTC ↔ TAI follows the IERS leap-second table exactly, in both directions.
-/
namespace Hifi.C06
open Hifi Hifi.Spec

/-- the spec's table: the data lines of data/leap-seconds.list, `(NTP seconds, TAI−UTC)` -/
def iersTbl : List (Int × Int) := Gen.IERS_TEXT.map (fun e => (e.1, e.2.1))

/-- newest-first, in nanoseconds: the form the integer-level lemmas use -/
def builtinDesc : List (Int × Int) := toNs ((builtin.filter LeapEntry.iers).reverse)

/-! ### the table -/

/-- the IERS-flagged entries of the built-in table are exactly the entries of the IERS file -/
theorem builtin_iers_entries_eq_file :
    (builtin.filter LeapEntry.iers).map (fun (e : LeapEntry) => (e.ts, e.dns)) = iersTbl.map (fun e => (e.1, e.2 * 1000000000)) := by
  decide +kernel

/-- a provider loaded from the shipped IERS file (by the real parser) holds the same entries -/
theorem file_provider_eq_file :
    Gen.LEAP_FILE.map (fun (e : LeapEntry) => (e.ts, e.dns, e.iers)) = iersTbl.map (fun e => (e.1, e.2 * 1000000000, true)) := by
  decide +kernel

/-- hence both providers answer identically on IERS-only queries -/
theorem file_provider_eq_builtin_iers :
    Gen.LEAP_FILE.map (fun (e : LeapEntry) => (e.ts, e.dns)) = (builtin.filter LeapEntry.iers).map (fun (e : LeapEntry) => (e.ts, e.dns)) := by
  decide +kernel

/-- … and the same as the NAIF leap second kernel naif0012.txt (dates mapped through the calendar) -/
theorem naif_kernel_eq_file :
    Gen.NAIF_DELTA_AT.map (fun e => (civilDays e.2.1 e.2.2.1 e.2.2.2 * 86400, e.1)) = iersTbl := by
  decide +kernel

/-- the dates written in the IERS file are the dates of its NTP time stamps -/
theorem file_dates_consistent :
    Gen.IERS_TEXT.all (fun e => decide (civilDays e.2.2.2.2 e.2.2.2.1 e.2.2.1 * 86400 = e.1)) = true := by
  decide +kernel

/-- 28 entries, from 10 s on 1972-01-01 to 37 s on 2017-01-01, one more second each, time stamps increasing -/
theorem table_shape :
    iersTbl.length = 28 ∧ iersTbl.head? = some (civilDays 1972 1 1 * 86400, 10) ∧
    iersTbl.getLast? = some (civilDays 2017 1 1 * 86400, 37) ∧
    (iersTbl.zip iersTbl.tail).all (fun p => decide (p.1.1 < p.2.1 ∧ p.2.2 = p.1.2 + 1)) = true := by
  decide +kernel

theorem builtin_entries_ok : ∀ e ∈ builtin, EntryOK e :=
  EntryOK_of_all builtin (by decide +kernel)

theorem builtin_iers_rev_ok : ∀ e ∈ (builtin.filter LeapEntry.iers).reverse, EntryOK e := by
  intro e he
  exact builtin_entries_ok e (List.mem_filter.mp (List.mem_reverse.mp he)).1

theorem builtinDesc_ok : DescOK builtinDesc := DescOK_of_b _ (by decide +kernel)

theorem builtinDesc_eq_spec : builtinDesc = iersTbl.reverse.map (fun e => (e.1 * 1000000000, e.2 * 1000000000)) := by
  decide +kernel

theorem Ldesc_eq_stepDesc (r : List (Int × Int)) (u : Int) :
    Ldesc (r.map (fun e => (e.1 * 1000000000, e.2 * 1000000000))) u = stepDesc r u * 1000000000 := by
  induction r with
  | nil => simp [Ldesc, stepDesc]
  | cons e r ih =>
    obtain ⟨t, o⟩ := e
    simp only [List.map_cons, Ldesc, stepDesc]
    split <;> simp_all

/-- the model's offset lookup is the spec's step function of the IERS file -/
theorem builtin_L_eq_spec (u : Int) : Ldesc builtinDesc u = leapAt iersTbl u * 1000000000 := by
  rw [builtinDesc_eq_spec, Ldesc_eq_stepDesc]; rfl

/-- the SOFA pre-1972 entries cannot influence an IERS-only lookup — for EVERY table -/
theorem sofa_entries_do_not_influence (t : Dur) (tbl : List LeapEntry) :
    leapLookup t true tbl = leapLookup t false (tbl.filter LeapEntry.iers) := leapLookup_filter t tbl

/-- a provider loaded from an IERS-format file holds exactly the entries of the file: for EVERY table of
    (u64 time stamp, u8 offset) pairs, loading its IERS-format rendering (comment header, then
    `ts<TAB>offset<TAB># …` lines) with the model of `LeapSecondsFile::from_path` returns that table -/
theorem file_provider_loads_what_is_written (tbl : List (Nat × Nat))
    (h : ∀ e ∈ tbl, e.1 ≤ 18446744073709551615 ∧ e.2 ≤ 255) :
    Hifi.LeapFile.parseFile (Hifi.LeapFile.renderFile tbl) = .ok tbl :=
  Hifi.LeapFile.parseFile_renderFile tbl h

/-- … whatever the layout: any number of blank lines ("A blank line should be ignored", says the header of the
    IERS file) and comment lines before the data, between data lines and after them leaves the loaded table
    unchanged (a seeded change that rejected files with a blank line was first missed by the generated files) -/
theorem file_provider_ignores_blank_and_comment_lines (pre post : List (List Nat))
    (xs : List (List (List Nat) × (Nat × Nat)))
    (hpre : ∀ l ∈ pre, Hifi.LeapFile.skipLine l = true) (hpost : ∀ l ∈ post, Hifi.LeapFile.skipLine l = true)
    (hs : ∀ x ∈ xs, ∀ l ∈ x.1, Hifi.LeapFile.skipLine l = true)
    (h : ∀ x ∈ xs, x.2.1 ≤ 18446744073709551615 ∧ x.2.2 ≤ 255) :
    Hifi.LeapFile.parseFile (pre.flatMap (fun l => l ++ [10]) ++
        (Hifi.LeapFile.renderBodyG xs ++ post.flatMap (fun l => l ++ [10]))) = .ok (xs.map (·.2)) :=
  Hifi.LeapFile.parseFile_renderG pre post xs hpre hpost hs h

-- "# g\n\n2272060800\t10\t# x\n\n#h\n2287785600\t11\t# x\n\n": header comment, blank lines, a comment between entries
example : Hifi.LeapFile.parseFile ([[35, 32, 103], []].flatMap (fun l => l ++ [10]) ++
    (Hifi.LeapFile.renderBodyG [([], (2272060800, 10)), ([[], [35, 104]], (2287785600, 11))] ++ [[]].flatMap (fun l => l ++ [10])))
    = .ok [(2272060800, 10), (2287785600, 11)] := by decide

/-! ### UTC → TAI -/

/-- UTC → TAI adds exactly the TAI−UTC offset in force at that UTC time (0 before 1972-01-01, …) -/
theorem utc_to_tai_exact (d : Dur) (hd : d.Canon) (hns : d.val + 1000000000000 ≤ DMAX) :
    ∃ p, toTaiDur builtin d .UTC = some p ∧ p.Canon ∧ p.val = utcToTai iersTbl d.val := by
  have hl := leapDur_spec d hd builtin builtin_entries_ok
  have hs := add_spec d (leapDur d builtin) hd hl.1
  refine ⟨_, rfl, hs.1, ?_⟩
  have hr := Ldesc_range _ builtin_iers_rev_ok d.val
  have hc := canon_range d hd
  unfold DMIN DMAX at *; simp only [NPCs_eq] at *
  rw [hs.2, hl.2, clampD_mid (by omega) (by omega)]
  unfold utcToTai
  have := builtin_L_eq_spec d.val
  unfold builtinDesc at this
  rw [this]

/-- the same under the WEAKEST hypothesis — the exact sum is representable, no margin — of which
    `utc_to_tai_exact` is the corollary with a 1000 s margin -/
theorem utc_to_tai_exact_nosat (d : Dur) (hd : d.Canon) (hns : utcToTai iersTbl d.val ≤ DMAX) :
    ∃ p, toTaiDur builtin d .UTC = some p ∧ p.Canon ∧ p.val = utcToTai iersTbl d.val := by
  have hl := leapDur_spec d hd builtin builtin_entries_ok
  have hs := add_spec d (leapDur d builtin) hd hl.1
  refine ⟨_, rfl, hs.1, ?_⟩
  have hr := Ldesc_range _ builtin_iers_rev_ok d.val
  have hc := canon_range d hd
  have hL := builtin_L_eq_spec d.val
  unfold builtinDesc at hL
  unfold utcToTai at hns ⊢
  rw [← hL] at hns ⊢
  unfold DMIN DMAX at *; simp only [NPCs_eq] at *
  rw [hs.2, hl.2, clampD_mid (by omega) (by omega)]

/-- the offset is an IERS value: 0, or 10 … 37 seconds -/
theorem offset_values (u : Int) : 0 ≤ leapAt iersTbl u ∧ leapAt iersTbl u ≤ 37 := by
  have h := Ldesc_bounds builtinDesc u builtinDesc_ok
  rw [builtin_L_eq_spec] at h
  have : headD builtinDesc = 37000000000 := by decide +kernel
  omega

/-- so the conversion is strictly increasing: a later UTC count denotes a later instant -/
theorem utc_to_tai_strictly_increasing (u1 u2 : Int) (h : u1 < u2) : utcToTai iersTbl u1 < utcToTai iersTbl u2 := by
  have := forward_strict_mono builtinDesc u1 u2 builtinDesc_ok h
  rw [builtin_L_eq_spec, builtin_L_eq_spec] at this
  exact this

/-! ### TAI → UTC -/

/-- TAI → UTC of the instant of a UTC epoch returns that UTC epoch (the round trip is the identity) -/
theorem utc_tai_utc_round_trip (d : Dur) (hd : d.Canon) (hhi : d.val + 1000000000000 ≤ DMAX)
    (hlo : DMIN + 1000000000000 ≤ d.val) :
    ∃ p, toTaiDur builtin d .UTC = some p ∧ fromTaiDur builtin p .UTC = some d := by
  obtain ⟨p, p1, p2, p3⟩ := utc_to_tai_exact d hd hhi
  refine ⟨p, p1, ?_⟩
  have hoff := offset_values d.val
  have hp3 : p.val = d.val + Ldesc builtinDesc d.val := by rw [p3, builtin_L_eq_spec]; rfl
  have hgo := taiToUtcGo_val p p2 ((builtin.filter LeapEntry.iers).reverse) builtin_iers_rev_ok
    (by rw [p3]; unfold utcToTai; unfold DMIN at *; simp only [NPCs_eq] at *; omega)
  have hv : (taiToUtc p builtin).val = d.val := by
    unfold taiToUtc
    rw [hgo.2, hp3]
    exact goInt_roundtrip builtinDesc d.val builtinDesc_ok
  have : taiToUtc p builtin = d := canon_unique _ _ hgo.1 hd hv
  unfold fromTaiDur; rw [this]

/-- TAI → UTC never goes backwards — PARTIAL: on every pair of TAI instants that have a UTC
    pre-image, i.e. outside the inserted (leap) seconds, where it is even strictly increasing.
    Inside an inserted second the UTC count repeats the previous second (recorded finding D9b,
    pinned at the first table entry by test `utc_tai`). -/
theorem tai_to_utc_increasing_on_image_partial (u1 u2 : Int)
    (ht : utcToTai iersTbl u1 < utcToTai iersTbl u2) :
    goInt (utcToTai iersTbl u1) builtinDesc < goInt (utcToTai iersTbl u2) builtinDesc := by
  have h1 : utcToTai iersTbl u1 = u1 + Ldesc builtinDesc u1 := by rw [builtin_L_eq_spec]; rfl
  have h2 : utcToTai iersTbl u2 = u2 + Ldesc builtinDesc u2 := by rw [builtin_L_eq_spec]; rfl
  rw [h1, h2] at ht ⊢
  exact backward_strict_mono_on_image builtinDesc u1 u2 builtinDesc_ok ht

/-- inside an inserted second TAI → UTC does step back: the full monotonicity statement is false
    of the code (TAI 2017-01-01T00:00:35.5 ↦ UTC 23:59:59.5 after 00:00:35.4 ↦ 23:59:59.9 … no: see witness) -/
theorem monotonicity_counterexample :
    ¬ (goInt (3692217600 * 1000000000 + 35900000000) builtinDesc ≤ goInt (3692217600 * 1000000000 + 36000000000) builtinDesc) := by
  decide +kernel

/-! ### the same at the `Duration` level: the code's `taiToUtc` (the TAI → UTC arm of `to_time_scale`) -/

/-- the TAI → UTC arm on durations computes `goInt` of the value, under the WEAKEST hypothesis: its exact
    result is representable (the subtraction does not hit the lower bound) -/
theorem tai_to_utc_val (p : Dur) (hp : p.Canon) (hlo : DMIN ≤ goInt p.val builtinDesc) :
    fromTaiDur builtin p .UTC = some (taiToUtc p builtin) ∧
    (taiToUtc p builtin).Canon ∧ (taiToUtc p builtin).val = goInt p.val builtinDesc := by
  have h := taiToUtcGo_val_nosat p hp ((builtin.filter LeapEntry.iers).reverse) builtin_iers_rev_ok hlo
  exact ⟨rfl, h.1, h.2⟩

/-- TAI → UTC of the TAI duration of the instant of UTC count `u` is the canonical duration of value `u`:
    the Dur-level inverse of `utc_to_tai_exact`, for every representable `u` -/
theorem tai_to_utc_of_image (p : Dur) (hp : p.Canon) (u : Int) (hu : p.val = utcToTai iersTbl u) (hlo : DMIN ≤ u) :
    (taiToUtc p builtin).Canon ∧ (taiToUtc p builtin).val = u := by
  have hg : goInt p.val builtinDesc = u := by
    rw [hu]; unfold utcToTai; rw [← builtin_L_eq_spec]; exact goInt_roundtrip builtinDesc u builtinDesc_ok
  have h := tai_to_utc_val p hp (by rw [hg]; exact hlo)
  exact ⟨h.2.1, by rw [h.2.2, hg]⟩

/-- MONOTONICITY on durations — PARTIAL (recorded finding D9b): for two canonical TAI durations that both have
    a UTC pre-image (`u1`, `u2`: they lie outside the inserted seconds), `Duration`'s order of the converted
    values is the order of the inputs: strictly increasing, in particular never backwards -/
theorem tai_to_utc_dur_increasing_on_image_partial (p1 p2 : Dur) (hp1 : p1.Canon) (hp2 : p2.Canon) (u1 u2 : Int)
    (h1 : p1.val = utcToTai iersTbl u1) (h2 : p2.val = utcToTai iersTbl u2) (hlo1 : DMIN ≤ u1) (hlo2 : DMIN ≤ u2)
    (ht : Dur.cmp p1 p2 = -1) :
    Dur.cmp (taiToUtc p1 builtin) (taiToUtc p2 builtin) = -1 := by
  have r1 := tai_to_utc_of_image p1 hp1 u1 h1 hlo1
  have r2 := tai_to_utc_of_image p2 hp2 u2 h2 hlo2
  rw [cmp_spec p1 p2 hp1 hp2] at ht
  rw [cmp_spec _ _ r1.1 r2.1, r1.2, r2.2]
  have hlt : p1.val < p2.val := by grind
  rw [h1, h2] at hlt
  have := tai_to_utc_increasing_on_image_partial u1 u2 hlt
  have g1 : goInt (utcToTai iersTbl u1) builtinDesc = u1 := by
    unfold utcToTai; rw [← builtin_L_eq_spec]; exact goInt_roundtrip builtinDesc u1 builtinDesc_ok
  have g2 : goInt (utcToTai iersTbl u2) builtinDesc = u2 := by
    unfold utcToTai; rw [← builtin_L_eq_spec]; exact goInt_roundtrip builtinDesc u2 builtinDesc_ok
  rw [g1, g2] at this
  grind

/-- the full statement ("never goes backwards", for ALL pairs) is false of the code, on durations as well:
    TAI 2017-01-01T00:00:35.9 < 00:00:36.0 (the first lies inside the inserted second, D9b), and the
    converted UTC durations compare the other way round (…:59.9 then …:00.0 of the same UTC count second) -/
theorem monotonicity_counterexample_dur :
    (Dur.mk 1 536457635900000000).Canon ∧ (Dur.mk 1 536457636000000000).Canon ∧
    Dur.cmp ⟨1, 536457635900000000⟩ ⟨1, 536457636000000000⟩ = -1 ∧
    fromTaiDur builtin ⟨1, 536457635900000000⟩ .UTC = some ⟨1, 536457599900000000⟩ ∧
    fromTaiDur builtin ⟨1, 536457636000000000⟩ .UTC = some ⟨1, 536457599000000000⟩ ∧
    Dur.cmp (taiToUtc ⟨1, 536457635900000000⟩ builtin) (taiToUtc ⟨1, 536457636000000000⟩ builtin) = 1 := by
  unfold Dur.Canon; simp only [NPC_eq]; decide +kernel

/-- the same two theorems hold for ANY table with increasing time stamps and non-decreasing, non-negative offsets -/
theorem any_table_round_trip (r : List (Int × Int)) (u : Int) (h : DescOK r) : goInt (u + Ldesc r u) r = u :=
  goInt_roundtrip r u h

-- non-vacuity: 2016-12-31T23:59:40 UTC, the witness of repaired defect D9
example : (Dur.mk 1 536457580000000000).Canon ∧ (Dur.mk 1 536457580000000000).val + 1000000000000 ≤ DMAX ∧
    DMIN + 1000000000000 ≤ (Dur.mk 1 536457580000000000).val := by
  unfold Dur.Canon; simp only [NPC_eq]; decide

end Hifi.C06
