import Hifi.Lemmas.SoftF64
/-
  F64 (pseudo-property): the reusable facts about the IEEE-754 binary64 model `SoftF64`
  (Model/SoftF64.lean).  The model is tied bit for bit to the hardware by the `F64` correspondence
  stream (`./check F64 quick`); the theorems below are what the float-using properties
  (C04, C07, C17, C18, C20) build on.  Core Lean only; axioms ⊆ {propext, Classical.choice, Quot.sound}.
-/
namespace Hifi.PF64
open Hifi Hifi.F64

/-- decoding a 64-bit pattern always gives a canonical value -/
theorem decode_canonical (b : Nat) : wf (ofBits b) = true := ofBits_wf b

/-- encode ∘ decode = id on every non-NaN 64-bit pattern (all NaNs are identified) -/
theorem encode_decode (b : Nat) (hb : b < 18446744073709551616)
    (hnan : ¬ (b / 4503599627370496 % 2048 = 2047 ∧ b % 4503599627370496 ≠ 0)) :
    toBits (ofBits b) = b := toBits_ofBits b hb hnan

/-- decode ∘ encode = id on canonical values -/
theorem decode_encode (x : F64) (hw : wf x = true) : ofBits (toBits x) = x := ofBits_toBits x hw

/-- the landmark patterns -/
theorem landmarks :
    ofBits 0x3ff0000000000000 = one ∧ ofBits 0 = zero false ∧ ofBits 0x8000000000000000 = zero true ∧
    ofBits 0x7ff0000000000000 = inf false ∧ ofBits 0xfff0000000000000 = inf true ∧
    ofBits 0x7ff8000000000000 = nan ∧ ofBits 0xfff8000000000001 = nan ∧
    ofBits 0x0000000000000001 = fin false 1 (-1074) ∧ ofBits 0x7fefffffffffffff = fin false 9007199254740991 971 ∧
    toRat (ofBits 0x4024000000000000) = 10 ∧ rnd (1 / 10) = ofBits 0x3fb999999999999a := by decide +kernel

/-- `rnd` returns canonical values and never NaN -/
theorem rnd_canonical (x : Rat) : wf (rnd x) = true ∧ rnd x ≠ nan := ⟨rnd_wf x, rnd_ne_nan x⟩

/-- **rnd_int**: every integer of magnitude ≤ 2^53 is a fixed point of `rnd`
    (so `ofInt`, `+`, `*` are exact on integer-valued doubles while results stay ≤ 2^53) -/
theorem rnd_int (n : Int) (h : -9007199254740992 ≤ n ∧ n ≤ 9007199254740992) :
    (rnd (n : Rat)).isFinite = true ∧ wf (rnd (n : Rat)) = true ∧ toRat (rnd (n : Rat)) = (n : Rat) :=
  F64.rnd_int n h

/-- the cast `n as f64` is exact for |n| ≤ 2^53 -/
theorem ofInt_exact (n : Int) (h : -9007199254740992 ≤ n ∧ n ≤ 9007199254740992) :
    (ofInt n).isFinite = true ∧ toRat (ofInt n) = (n : Rat) := F64.ofInt_exact n h

/-- `a + b` and `a * b` of finite doubles are the rounding of the exact result (an exact zero
    takes the IEEE sign) … -/
theorem add_mul_rounded (a b : F64) (ha : a.isFinite = true) (hb : b.isFinite = true) :
    add a b = rndz (toRat a + toRat b) (a.sign && b.sign) ∧
    mul a b = rndz (toRat a * toRat b) (a.sign != b.sign) := ⟨add_finite ha hb, mul_finite ha hb⟩

/-- … hence exact whenever the exact result is an integer of magnitude ≤ 2^53 -/
theorem add_mul_int_exact (a b : F64) (ha : a.isFinite = true) (hb : b.isFinite = true) (n : Int)
    (hn : -9007199254740992 ≤ n ∧ n ≤ 9007199254740992) :
    (toRat a + toRat b = (n : Rat) → (add a b).isFinite = true ∧ toRat (add a b) = (n : Rat)) ∧
    (toRat a * toRat b = (n : Rat) → (mul a b).isFinite = true ∧ toRat (mul a b) = (n : Rat)) := by
  constructor
  · intro h; rw [add_finite ha hb, h]; exact rndz_int n _ hn
  · intro h; rw [mul_finite ha hb, h]; exact rndz_int n _ hn

/-- every canonical finite non-zero double is a fixed point of rounding its own value -/
theorem rnd_fixed (s : Bool) (m : Nat) (e : Int) (hw : wf (fin s m e) = true) (hm : m ≠ 0) :
    rnd (toRat (fin s m e)) = fin s m e := rnd_toRat_fin hw hm

/-- **rnd_mono**: rounding is monotone (IEEE order: -0 = +0, infinities at the ends) -/
theorem rnd_mono (x y : Rat) (h : x ≤ y) : le (rnd x) (rnd y) = true := F64.rnd_mono h

/-- absolute error: at most half a unit in the last place, for every finite result -/
theorem rnd_abs_err (x : Rat) (hf : (rnd x).isFinite = true) :
    absR (toRat (rnd x) - x) * 2 ≤ pow2 (expOf x) := F64.rnd_abs_err hf

/-- **rnd_rel_err**: |rnd x − x| ≤ 2^-53 · |x| in the normal range -/
theorem rnd_rel_err (x : Rat) (hlo : pow2 (-1022) ≤ absR x) (hf : (rnd x).isFinite = true) :
    absR (toRat (rnd x) - x) * pow2 53 ≤ absR x := F64.rnd_rel_err hlo hf

/-- the result is finite exactly when the rounded magnitude stays below 2^1024 -/
theorem rnd_finite_iff (x : Rat) (hx : x ≠ 0) : (rnd x).isFinite = true ↔ Rv x < pow2 1024 :=
  rnd_isFinite_iff hx

-- non-vacuity
example : wf (fin true 4503599627370497 (-60)) = true ∧ (4503599627370497 : Nat) ≠ 0 := by decide
example : pow2 (-1022) ≤ absR (1 / 3) ∧ (rnd (1 / 3)).isFinite = true := by decide +kernel
example : toRat (rnd (-9007199254740992 : Int)) = -9007199254740992 := by decide +kernel
-- 2^53 + 1 is NOT a fixed point: the bound of `rnd_int` is sharp
example : toRat (rnd ((9007199254740993 : Int) : Rat)) ≠ ((9007199254740993 : Int) : Rat) := by decide +kernel

end Hifi.PF64
