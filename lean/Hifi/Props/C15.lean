import Hifi.Lemmas.EpochOrd
/-
  C15  TimeSeries yields exactly start + k·step, in order, up to the end bound.
-/
namespace Hifi.C15
open Hifi Hifi.Spec

/-- the k-th item: computed from the start (no accumulation) -/
def item (s : Series) (k : Int) : Ep := ⟨Dur.add s.start.dur (Dur.mulI64 s.step k), s.start.ts⟩

/-- how many k ≥ c satisfy k·step < D (exclusive) resp. k·step ≤ D (inclusive) -/
def remaining (incl : Bool) (D sv c : Int) : Nat :=
  ((if incl then D / sv + 1 else (D + sv - 1) / sv) - c).toNat

theorem lt_iff_excl (D sv c : Int) (hs : 0 < sv) : c * sv < D ↔ c < (D + sv - 1) / sv := by
  constructor
  · intro h
    have : c + 1 ≤ (D + sv - 1) / sv := (Int.le_ediv_iff_mul_le hs).mpr (by rw [Int.add_mul]; omega)
    omega
  · intro h
    have : c + 1 ≤ (D + sv - 1) / sv := by omega
    have := (Int.le_ediv_iff_mul_le hs).mp this
    rw [Int.add_mul] at this; omega

theorem le_iff_incl (D sv c : Int) (hs : 0 < sv) : c * sv ≤ D ↔ c < D / sv + 1 := by
  constructor
  · intro h
    have : c ≤ D / sv := (Int.le_ediv_iff_mul_le hs).mpr h
    omega
  · intro h
    have : c ≤ D / sv := by omega
    exact (Int.le_ediv_iff_mul_le hs).mp this

/-- positive steps are never in defect class D1, and multiplying by an in-range index is exact -/
theorem offset_val (step : Dur) (c : Int) (hst : step.Canon) (hpos : 0 < step.val) (hc : 0 ≤ c ∧ c ≤ 9223372036854775807) :
    (Dur.mulI64 step c).Canon ∧ (Dur.mulI64 step c).val = clampD (step.val * c) := by
  have h1 : Dur.d1class step = false := by
    obtain ⟨a1, a2, a3, a4⟩ := hst
    unfold Dur.d1class Dur.val valP at *; simp only [NPC_eq, NPCs_eq, decide_eq_false_iff_not] at *; omega
  have hq : fitsI64 c = true := by unfold fitsI64; simp only [decide_eq_true_eq]; omega
  have hu := unitMulI64_spec 1 c (by unfold unitFactors; simp) hq
  have h2 : Dur.d1class (Dur.unitMulI64 1 c) = false := by
    obtain ⟨a1, a2, a3, a4⟩ := hu.1
    have hv := hu.2
    rw [clampD_mid (by omega) (by omega)] at hv
    unfold Dur.d1class Dur.val valP at *; simp only [NPC_eq, NPCs_eq, decide_eq_false_iff_not] at *; omega
  exact mulI64_spec step c hst hq h1 h2

/-- the stop test of `next` is exactly "k·step ≥ D" (exclusive) resp. "k·step > D" (inclusive),
    also when k·step itself is beyond the representable range -/
theorem clamp_cmp (x D : Int) (hx : 0 ≤ x) (hD : DMIN ≤ D ∧ D < DMAX) :
    (clampD x < D ↔ x < D) ∧ (D < clampD x ↔ D < x) := by
  unfold DMIN DMAX at hD; simp only [NPCs_eq] at hD
  by_cases h : x ≤ 103407943680000000000000
  · rw [clampD_mid (by omega) h]; exact ⟨Iff.rfl, Iff.rfl⟩
  · rw [clampD_hi (by omega)]; constructor <;> constructor <;> intro <;> omega

theorem stop_iff (s : Series) (hst : s.step.Canon) (hD : s.duration.Canon) (hpos : 0 < s.step.val)
    (hDlt : s.duration.val < DMAX) (hc : 0 ≤ s.cur ∧ s.cur ≤ 9223372036854775807) :
    ((s.incl = false ∧ Dur.cmp (Dur.mulI64 s.step s.cur) s.duration ≠ -1) ∨
     (s.incl = true ∧ Dur.cmp (Dur.mulI64 s.step s.cur) s.duration = 1)) ↔
    ¬ (if s.incl then s.cur * s.step.val ≤ s.duration.val else s.cur * s.step.val < s.duration.val) := by
  have ho := offset_val s.step s.cur hst hpos hc
  have hr := canon_range s.duration hD
  rw [cmp_spec _ _ ho.1 hD, ho.2]
  have hmul : s.step.val * s.cur = s.cur * s.step.val := Int.mul_comm _ _
  rw [hmul]
  have hnn : 0 ≤ s.cur * s.step.val := Int.mul_nonneg hc.1 (by omega)
  have hcc := clamp_cmp (s.cur * s.step.val) s.duration.val hnn ⟨hr.1, hDlt⟩
  generalize s.cur * s.step.val = x at *
  generalize clampD x = y at *
  cases s.incl
  · simp only [Bool.false_eq_true, if_false, true_and, false_and, or_false]
    constructor
    · intro h hlt; apply h; rw [if_pos (hcc.1.mpr hlt)]
    · intro h hc'; apply h; apply hcc.1.mp
      by_cases hy : y < s.duration.val
      · exact hy
      · rw [if_neg hy] at hc'; split at hc' <;> omega
  · simp only [if_true, true_and, false_and, false_or, Bool.true_eq_false]
    constructor
    · intro h hle
      by_cases hy : y < s.duration.val
      · rw [if_pos hy] at h; omega
      · rw [if_neg hy] at h
        by_cases hy2 : y > s.duration.val
        · have := hcc.2.mp hy2; omega
        · rw [if_neg hy2] at h; omega
    · intro h
      have : s.duration.val < x := by omega
      have := hcc.2.mpr this
      rw [if_neg (by omega), if_pos this]

/-- MAIN: running the iterator from index `c` for at most `n` calls yields exactly the items
    `start + k·step` for k = c, c+1, …, as many as satisfy the bound (and at most `n`), in that order;
    each item is computed from the start. -/
theorem run_spec (n : Nat) (s : Series) (hst : s.step.Canon) (hD : s.duration.Canon) (hpos : 0 < s.step.val)
    (hDlt : s.duration.val < DMAX) (hc : 0 ≤ s.cur) (hfit : s.cur + n ≤ 9223372036854775807) :
    Series.run n s =
      (List.range (min n (remaining s.incl s.duration.val s.step.val s.cur))).map (fun (k : Nat) => item s (s.cur + (k : Int))) := by
  induction n generalizing s with
  | zero => simp [Series.run]
  | succ n ih =>
    have hcur : 0 ≤ s.cur ∧ s.cur ≤ 9223372036854775807 := ⟨hc, by omega⟩
    have hstop := stop_iff s hst hD hpos hDlt hcur
    have hcount : (if s.incl then s.cur * s.step.val ≤ s.duration.val else s.cur * s.step.val < s.duration.val) ↔
        s.cur < (if s.incl then s.duration.val / s.step.val + 1 else (s.duration.val + s.step.val - 1) / s.step.val) := by
      cases s.incl
      · simp only [Bool.false_eq_true, if_false]; exact lt_iff_excl _ _ _ hpos
      · simp only [if_true]; exact le_iff_incl _ _ _ hpos
    unfold Series.run Series.next
    simp only
    by_cases hs : (s.incl = false ∧ Dur.cmp (Dur.mulI64 s.step s.cur) s.duration ≠ -1) ∨
        (s.incl = true ∧ Dur.cmp (Dur.mulI64 s.step s.cur) s.duration = 1)
    · rw [if_pos hs]
      have := hstop.mp hs
      have hz : remaining s.incl s.duration.val s.step.val s.cur = 0 := by
        have hn : ¬ (s.cur < (if s.incl then s.duration.val / s.step.val + 1 else (s.duration.val + s.step.val - 1) / s.step.val)) :=
          fun h => this (hcount.mpr h)
        unfold remaining
        generalize (if s.incl then s.duration.val / s.step.val + 1 else (s.duration.val + s.step.val - 1) / s.step.val) = B at *
        omega
      rw [hz]; simp
    · rw [if_neg hs]
      have hgo : s.cur < (if s.incl then s.duration.val / s.step.val + 1 else (s.duration.val + s.step.val - 1) / s.step.val) :=
        hcount.mp (by by_cases h : (if s.incl then s.cur * s.step.val ≤ s.duration.val else s.cur * s.step.val < s.duration.val)
                      · exact h
                      · exact absurd (hstop.mpr h) hs)
      simp only
      have ih' := ih { s with cur := s.cur + 1 } hst hD hpos hDlt (by simp only; omega) (by simp only; omega)
      rw [ih']
      have hrem : remaining s.incl s.duration.val s.step.val s.cur =
          remaining s.incl s.duration.val s.step.val (s.cur + 1) + 1 := by
        unfold remaining
        generalize (if s.incl then s.duration.val / s.step.val + 1 else (s.duration.val + s.step.val - 1) / s.step.val) = B at *
        omega
      rw [hrem]
      have hmin : min (n + 1) (remaining s.incl s.duration.val s.step.val (s.cur + 1) + 1) =
          min n (remaining s.incl s.duration.val s.step.val (s.cur + 1)) + 1 := Nat.add_min_add_right n _ 1
      rw [hmin, List.range_succ_eq_map, List.map_cons, List.map_map]
      simp only [item, Int.add_zero, Int.natCast_zero]
      congr 1
      apply List.map_congr_left
      intro k _
      simp only [Function.comp, Nat.succ_eq_add_one, Int.natCast_add, Int.natCast_one]
      have hk : s.cur + 1 + (k : Int) = s.cur + ((k : Int) + 1) := by omega
      rw [hk]

/-- corollary: the number of items produced by unboundedly many calls is the number of admissible k,
    then `None` forever (the list does not grow with more calls) -/
theorem count_spec (n : Nat) (s : Series) (hst : s.step.Canon) (hD : s.duration.Canon) (hpos : 0 < s.step.val)
    (hDlt : s.duration.val < DMAX) (hc : s.cur = 0) (hfit : (n : Int) ≤ 9223372036854775807) :
    (Series.run n s).length = min n (remaining s.incl s.duration.val s.step.val 0) := by
  rw [run_spec n s hst hD hpos hDlt (by omega) (by omega), hc]; simp

/-- items are strictly increasing while they are representable -/
theorem items_increasing (s : Series) (k : Int) (hst : s.step.Canon) (hsd : s.start.dur.Canon) (hpos : 0 < s.step.val)
    (hk : 0 ≤ k ∧ k + 1 ≤ 9223372036854775807)
    (hrep : s.start.dur.val + (k + 1) * s.step.val ≤ DMAX) (hoff : (k + 1) * s.step.val ≤ DMAX) :
    Dur.cmp (item s k).dur (item s (k + 1)).dur = -1 := by
  have o1 := offset_val s.step k hst hpos ⟨hk.1, by omega⟩
  have o2 := offset_val s.step (k + 1) hst hpos ⟨by omega, hk.2⟩
  have a1 := add_spec s.start.dur _ hsd o1.1
  have a2 := add_spec s.start.dur _ hsd o2.1
  show Dur.cmp (Dur.add s.start.dur (Dur.mulI64 s.step k)) (Dur.add s.start.dur (Dur.mulI64 s.step (k + 1))) = -1
  rw [cmp_spec _ _ a1.1 a2.1, a1.2, a2.2, o1.2, o2.2]
  have h1 : 0 ≤ s.step.val * k := Int.mul_nonneg (by omega) hk.1
  have h2 : s.step.val * (k + 1) = s.step.val * k + s.step.val := by rw [Int.mul_add]; omega
  have h3 : (k + 1) * s.step.val = s.step.val * k + s.step.val := by rw [Int.mul_comm, h2]
  have hr := canon_range s.start.dur hsd
  rw [h3] at hrep hoff
  rw [h2]
  generalize s.step.val * k = x at *
  unfold DMIN DMAX at *; simp only [NPCs_eq] at *
  rw [clampD_mid (x := x) (by omega) (by omega), clampD_mid (x := x + s.step.val) (by omega) (by omega),
      clampD_mid (x := s.start.dur.val + x) (by omega) (by omega),
      clampD_mid (x := s.start.dur.val + (x + s.step.val)) (by omega) (by omega)]
  rw [if_pos (by omega)]

/-- value of the k-th item: start + k·step, exactly -/
theorem item_val (s : Series) (k : Int) (hst : s.step.Canon) (hsd : s.start.dur.Canon) (hpos : 0 < s.step.val)
    (hk : 0 ≤ k ∧ k ≤ 9223372036854775807) :
    (item s k).ts = s.start.ts ∧ (item s k).dur.val = clampD (s.start.dur.val + clampD (s.step.val * k)) := by
  have o1 := offset_val s.step k hst hpos hk
  have a1 := add_spec s.start.dur _ hsd o1.1
  exact ⟨rfl, by show (Dur.add s.start.dur (Dur.mulI64 s.step k)).val = _; rw [a1.2, o1.2]⟩

-- non-vacuity: a 1 ns step over a 10 ns span, inclusive: 11 items
example : (Series.run 20 ⟨⟨⟨1, 5⟩, .UTC⟩, ⟨0, 10⟩, ⟨0, 1⟩, 0, true⟩).length = 11 := by decide +kernel

end Hifi.C15
