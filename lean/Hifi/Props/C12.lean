import Hifi.Lemmas.EpochOrd
/-
  C12  Epoch equality and ordering are chronological, whatever the time scales.

  Proved for the seven non-dynamical scales (TAI, TT, UTC, GPST, GST, BDT, QZSST), for every pair of
  epochs for which the ONE conversion the comparison performs does not saturate (`CmpFits`, built from
  `ConvFits`: the TAI count of the converted operand and its value in the other scale are representable —
  no margin; `saturation_counterexample` shows that this hypothesis cannot be dropped).  The earlier
  statements under `Safe` (four centuries of margin) are kept as corollaries.
  "Instant" is `Spec.instant` (`inst_eq_spec`).
  ET/TDB operands go through `f64::sin`; for them the property's 100 ns statement rests on C07 and on
  the correspondence run.
-/
namespace Hifi.C12
open Hifi Hifi.Spec Hifi.C06

/-! ### what "instant" means: tie of the lemmas' vocabulary to the independent specification -/

/-- the model-level offsets `off` (read off the generated constants of the sources) are the ones the
    specification states from the calendar (`Spec.scaleOff`), for the seven non-dynamical scales -/
theorem off_eq_spec (ts : TS) (h : ts.nonDyn = true) : scaleOff ts.name = some (off ts) := by
  cases ts <;> first | (exact absurd h (by decide)) | decide

/-- `Ep.inst` / `instV` (`Lemmas/EpochOrd.lean`, built from the model's constants and the built-in table) IS
    the instant the independent specification assigns (`Spec.instant`: calendar offsets of `Spec/Epoch.lean`
    and the step function of the raw IERS file), for every epoch of a non-dynamical scale.  All theorems of
    C12 and C04 that mention `inst` are therefore statements about `Spec.instant`. -/
theorem inst_eq_spec (e : Ep) (h : e.ts.nonDyn = true) :
    Spec.instant iersTbl e.ts.name e.dur.val = some e.inst := by
  obtain ⟨d, ts⟩ := e
  simp only at h
  unfold Ep.inst instV Spec.instant
  simp only
  by_cases hu : ts = .UTC
  · subst hu
    rw [if_pos rfl, if_pos (by decide), builtin_L_eq_spec]; rfl
  · have hn : ¬ (ts.name = "UTC") := by cases ts <;> first | (exact absurd rfl hu) | decide
    rw [if_neg hu, if_neg hn, off_eq_spec ts h]

/-- the dynamical scales have no `Spec.instant` (they go through `f64::sin`: C07) -/
theorem inst_spec_none_dynamical (v : Int) : Spec.instant iersTbl "ET" v = none ∧ Spec.instant iersTbl "TDB" v = none := by
  constructor <;> rfl

/-- `cmp` answers the chronological question about the instants denoted -/
theorem cmp_is_chronological (a b : Ep) (ha : a.dur.Canon) (hb : b.dur.Canon)
    (hta : a.ts.nonDyn = true) (htb : b.ts.nonDyn = true) (hsa : Safe a.dur.val) (hsb : Safe b.dur.val) :
    Ep.cmp a b = some (cmpI a.inst b.inst) := Ep_cmp_spec a b ha hb hta htb hsa hsb

/-- `==` holds exactly when both denote the same instant -/
theorem eq_iff_same_instant (a b : Ep) (ha : a.dur.Canon) (hb : b.dur.Canon)
    (hta : a.ts.nonDyn = true) (htb : b.ts.nonDyn = true) (hsa : Safe a.dur.val) (hsb : Safe b.dur.val) :
    Ep.eqb a b = some (decide (a.inst = b.inst)) := Ep_eqb_spec a b ha hb hta htb hsa hsb

/-- equality and ordering are mutually consistent: exactly one of <, ==, > holds -/
theorem consistent (a b : Ep) (ha : a.dur.Canon) (hb : b.dur.Canon)
    (hta : a.ts.nonDyn = true) (htb : b.ts.nonDyn = true) (hsa : Safe a.dur.val) (hsb : Safe b.dur.val) :
    ∃ c e, Ep.cmp a b = some c ∧ Ep.eqb a b = some e ∧ (e = true ↔ c = 0) ∧ (c = -1 ∨ c = 0 ∨ c = 1) := by
  refine ⟨_, _, Ep_cmp_spec a b ha hb hta htb hsa hsb, Ep_eqb_spec a b ha hb hta htb hsa hsb, ?_, ?_⟩
  · unfold cmpI; simp only [decide_eq_true_eq]; grind
  · unfold cmpI; grind

/-- independent of which operand is on the left -/
theorem cmp_antisymmetric (a b : Ep) (ha : a.dur.Canon) (hb : b.dur.Canon)
    (hta : a.ts.nonDyn = true) (htb : b.ts.nonDyn = true) (hsa : Safe a.dur.val) (hsb : Safe b.dur.val) :
    ∃ c, Ep.cmp a b = some c ∧ Ep.cmp b a = some (-c) := by
  refine ⟨_, Ep_cmp_spec a b ha hb hta htb hsa hsb, ?_⟩
  rw [Ep_cmp_spec b a hb ha htb hta hsb hsa]; unfold cmpI; congr 1; grind

theorem eq_symmetric (a b : Ep) (ha : a.dur.Canon) (hb : b.dur.Canon)
    (hta : a.ts.nonDyn = true) (htb : b.ts.nonDyn = true) (hsa : Safe a.dur.val) (hsb : Safe b.dur.val) :
    Ep.eqb a b = Ep.eqb b a := by
  rw [Ep_eqb_spec a b ha hb hta htb hsa hsb, Ep_eqb_spec b a hb ha htb hta hsb hsa]
  congr 1; simp only [decide_eq_decide]; exact eq_comm

/-- transitive -/
theorem cmp_transitive (a b c : Ep) (ha : a.dur.Canon) (hb : b.dur.Canon) (hc : c.dur.Canon)
    (hta : a.ts.nonDyn = true) (htb : b.ts.nonDyn = true) (htc : c.ts.nonDyn = true)
    (hsa : Safe a.dur.val) (hsb : Safe b.dur.val) (hsc : Safe c.dur.val)
    (h1 : Ep.cmp a b = some (-1)) (h2 : Ep.cmp b c = some (-1)) : Ep.cmp a c = some (-1) := by
  rw [Ep_cmp_spec a b ha hb hta htb hsa hsb] at h1
  rw [Ep_cmp_spec b c hb hc htb htc hsb hsc] at h2
  rw [Ep_cmp_spec a c ha hc hta htc hsa hsc]
  unfold cmpI at *; simp only [Option.some.injEq] at *; grind

/-- preserved by converting an operand into any uniform scale: conversion keeps the instant -/
theorem conversion_preserves_instant (d : Dur) (a b : TS) (hd : d.Canon) (ha : a.nonDyn = true)
    (hb : b.isUniform = true) (hs : Safe d.val) :
    ∃ r, (Ep.mk d a).to b = some r ∧ r.inst = (Ep.mk d a).inst := by
  obtain ⟨r, r1, r2, r3⟩ := to_uniform_inst d a b hd ha hb hs
  refine ⟨_, r1, ?_⟩
  unfold Ep.inst; simp only; rw [instV_uniform b r.val hb, r3]; omega

/-- … and a UTC epoch converted to TAI and back is the same epoch (C06), so converting the UTC
    operand of a comparison is harmless as well -/
theorem utc_operand_round_trip (d : Dur) (hd : d.Canon) (hhi : d.val + 1000000000000 ≤ DMAX)
    (hlo : DMIN + 1000000000000 ≤ d.val) :
    ∃ p, toTaiDur builtin d .UTC = some p ∧ fromTaiDur builtin p .UTC = some d :=
  utc_tai_utc_round_trip d hd hhi hlo

/-- min / max return the operand whose instant is smaller / larger (either one when equal) -/
theorem min_max_spec (a b : Ep) (ha : a.dur.Canon) (hb : b.dur.Canon)
    (hta : a.ts.nonDyn = true) (htb : b.ts.nonDyn = true) (hsa : Safe a.dur.val) (hsb : Safe b.dur.val) :
    ∃ m M, Ep.min a b = some m ∧ Ep.max a b = some M ∧
      m.inst = (if a.inst < b.inst then a.inst else b.inst) ∧ M.inst = (if a.inst > b.inst then a.inst else b.inst) := by
  unfold Ep.min Ep.max
  rw [Ep_cmp_spec a b ha hb hta htb hsa hsb]
  simp only
  refine ⟨_, _, rfl, rfl, ?_, ?_⟩ <;> (unfold cmpI; grind)

/-! ### the same under the weakest hypothesis: "no conversion saturates" (`CmpFits` / `ConvFits`, no margin) -/

/-- `cmp` answers the chronological question about the instants denoted -/
theorem cmp_is_chronological_nosat (a b : Ep) (ha : a.dur.Canon) (hb : b.dur.Canon)
    (hta : a.ts.nonDyn = true) (htb : b.ts.nonDyn = true) (hf : CmpFits a b) :
    Ep.cmp a b = some (cmpI a.inst b.inst) := Ep_cmp_spec_nosat a b ha hb hta htb hf

/-- `==` holds exactly when both denote the same instant -/
theorem eq_iff_same_instant_nosat (a b : Ep) (ha : a.dur.Canon) (hb : b.dur.Canon)
    (hta : a.ts.nonDyn = true) (htb : b.ts.nonDyn = true) (hf : CmpFits a b) :
    Ep.eqb a b = some (decide (a.inst = b.inst)) := Ep_eqb_spec_nosat a b ha hb hta htb hf

/-- in the vocabulary of the independent specification: `cmp` is the order of `Spec.instant` -/
theorem cmp_is_spec_order (a b : Ep) (ha : a.dur.Canon) (hb : b.dur.Canon)
    (hta : a.ts.nonDyn = true) (htb : b.ts.nonDyn = true) (hf : CmpFits a b) :
    ∃ ia ib, Spec.instant iersTbl a.ts.name a.dur.val = some ia ∧ Spec.instant iersTbl b.ts.name b.dur.val = some ib ∧
      Ep.cmp a b = some (cmpI ia ib) ∧ Ep.eqb a b = some (decide (ia = ib)) :=
  ⟨_, _, inst_eq_spec a hta, inst_eq_spec b htb, Ep_cmp_spec_nosat a b ha hb hta htb hf,
    Ep_eqb_spec_nosat a b ha hb hta htb hf⟩

/-- equality and ordering are mutually consistent: exactly one of <, ==, > holds -/
theorem consistent_nosat (a b : Ep) (ha : a.dur.Canon) (hb : b.dur.Canon)
    (hta : a.ts.nonDyn = true) (htb : b.ts.nonDyn = true) (hf : CmpFits a b) :
    ∃ c e, Ep.cmp a b = some c ∧ Ep.eqb a b = some e ∧ (e = true ↔ c = 0) ∧ (c = -1 ∨ c = 0 ∨ c = 1) := by
  refine ⟨_, _, Ep_cmp_spec_nosat a b ha hb hta htb hf, Ep_eqb_spec_nosat a b ha hb hta htb hf, ?_, ?_⟩
  · unfold cmpI; simp only [decide_eq_true_eq]; grind
  · unfold cmpI; grind

/-- independent of which operand is on the left (each order performs its own conversion) -/
theorem cmp_antisymmetric_nosat (a b : Ep) (ha : a.dur.Canon) (hb : b.dur.Canon)
    (hta : a.ts.nonDyn = true) (htb : b.ts.nonDyn = true) (hf : CmpFits a b) (hf' : CmpFits b a) :
    ∃ c, Ep.cmp a b = some c ∧ Ep.cmp b a = some (-c) := by
  refine ⟨_, Ep_cmp_spec_nosat a b ha hb hta htb hf, ?_⟩
  rw [Ep_cmp_spec_nosat b a hb ha htb hta hf']; unfold cmpI; congr 1; grind

theorem eq_symmetric_nosat (a b : Ep) (ha : a.dur.Canon) (hb : b.dur.Canon)
    (hta : a.ts.nonDyn = true) (htb : b.ts.nonDyn = true) (hf : CmpFits a b) (hf' : CmpFits b a) :
    Ep.eqb a b = Ep.eqb b a := by
  rw [Ep_eqb_spec_nosat a b ha hb hta htb hf, Ep_eqb_spec_nosat b a hb ha htb hta hf']
  congr 1; simp only [decide_eq_decide]; exact eq_comm

/-- transitive -/
theorem cmp_transitive_nosat (a b c : Ep) (ha : a.dur.Canon) (hb : b.dur.Canon) (hc : c.dur.Canon)
    (hta : a.ts.nonDyn = true) (htb : b.ts.nonDyn = true) (htc : c.ts.nonDyn = true)
    (hab : CmpFits a b) (hbc : CmpFits b c) (hac : CmpFits a c)
    (h1 : Ep.cmp a b = some (-1)) (h2 : Ep.cmp b c = some (-1)) : Ep.cmp a c = some (-1) := by
  rw [Ep_cmp_spec_nosat a b ha hb hta htb hab] at h1
  rw [Ep_cmp_spec_nosat b c hb hc htb htc hbc] at h2
  rw [Ep_cmp_spec_nosat a c ha hc hta htc hac]
  unfold cmpI at *; simp only [Option.some.injEq] at *; grind

/-- preserved by converting an operand into any uniform scale: conversion keeps the instant -/
theorem conversion_preserves_instant_nosat (d : Dur) (a b : TS) (hd : d.Canon) (ha : a.nonDyn = true)
    (hb : b.isUniform = true) (hs : ConvFits a b d.val) :
    ∃ r, (Ep.mk d a).to b = some r ∧ r.ts = b ∧ r.dur.Canon ∧ r.inst = (Ep.mk d a).inst := by
  obtain ⟨r, r1, r2, r3⟩ := to_uniform_inst_nosat d a b hd ha hb hs
  refine ⟨_, r1, rfl, r2, ?_⟩
  unfold Ep.inst; simp only; rw [instV_uniform b r.val hb, r3]; omega

/-- … and by converting an operand into UTC, whenever its instant has a UTC pre-image `u` (i.e. outside the
    inserted seconds, where no UTC epoch denotes the instant: recorded finding D9b) -/
theorem conversion_to_utc_preserves_instant (d : Dur) (a : TS) (hd : d.Canon) (ha : a.nonDyn = true) (u : Int)
    (hu : instV .UTC u = (Ep.mk d a).inst) (hfit : a = .UTC ∨ (DMIN ≤ u ∧ (Ep.mk d a).inst ≤ DMAX)) :
    ∃ r, (Ep.mk d a).to .UTC = some r ∧ r.ts = .UTC ∧ r.dur.Canon ∧ r.inst = (Ep.mk d a).inst := by
  obtain ⟨r, r1, r2, r3⟩ := to_utc_inst_nosat d a hd ha u hu hfit
  refine ⟨_, r1, rfl, r2, ?_⟩
  show instV .UTC r.val = _
  rw [r3]; exact hu

/-- hence the whole clause "preserved by converting either operand" for the order: converting the right operand
    into any uniform scale first does not change the answer -/
theorem cmp_preserved_by_conversion (a b : Ep) (c : TS) (ha : a.dur.Canon) (hb : b.dur.Canon)
    (hta : a.ts.nonDyn = true) (htb : b.ts.nonDyn = true) (hc : c.isUniform = true)
    (hconv : ConvFits b.ts c b.dur.val) (hf : CmpFits a b) :
    ∃ b', b.to c = some b' ∧ (CmpFits a b' → Ep.cmp a b' = Ep.cmp a b) := by
  obtain ⟨db, tb⟩ := b
  obtain ⟨r, r1, r2, r3, r4⟩ := conversion_preserves_instant_nosat db tb c hb htb hc hconv
  refine ⟨r, r1, fun hf' => ?_⟩
  have htr : r.ts.nonDyn = true := by rw [r2]; cases c <;> simp_all [TS.isUniform, TS.nonDyn]
  rw [Ep_cmp_spec_nosat a r ha r3 hta htr hf', Ep_cmp_spec_nosat a _ ha hb hta htb hf, r4]

/-- min / max return the operand whose instant is smaller / larger (either one when equal) -/
theorem min_max_spec_nosat (a b : Ep) (ha : a.dur.Canon) (hb : b.dur.Canon)
    (hta : a.ts.nonDyn = true) (htb : b.ts.nonDyn = true) (hf : CmpFits a b) :
    ∃ m M, Ep.min a b = some m ∧ Ep.max a b = some M ∧
      m.inst = (if a.inst < b.inst then a.inst else b.inst) ∧ M.inst = (if a.inst > b.inst then a.inst else b.inst) := by
  unfold Ep.min Ep.max
  rw [Ep_cmp_spec_nosat a b ha hb hta htb hf]
  simp only
  refine ⟨_, _, rfl, rfl, ?_, ?_⟩ <;> (unfold cmpI; grind)

/-- the hypothesis is implied by the old one, and is strictly weaker: the epochs at the very bounds of the
    representable range are comparable with each other in one scale, and the last representable TAI epoch is
    comparable with epochs of scales whose zero lies later -/
theorem CmpFits_from_Safe (a b : Ep) (hsa : Safe a.dur.val) (hsb : Safe b.dur.val) : CmpFits a b :=
  CmpFits_of_Safe a b hsa hsb

/-- without it the statement is false of the code: a saturated conversion makes distinct instants compare
    equal (GPST's last representable epoch converted to TAI clamps onto TAI's last representable epoch) -/
theorem saturation_counterexample :
    Ep.eqb ⟨Dur.MAX, .TAI⟩ ⟨Dur.MAX, .GPST⟩ = some true ∧ Ep.cmp ⟨Dur.MAX, .TAI⟩ ⟨Dur.MAX, .GPST⟩ = some 0 ∧
    (⟨Dur.MAX, .TAI⟩ : Ep).inst < (⟨Dur.MAX, .GPST⟩ : Ep).inst ∧ ¬ CmpFits ⟨Dur.MAX, .TAI⟩ ⟨Dur.MAX, .GPST⟩ := by
  decide +kernel

-- non-vacuity of the weaker hypothesis beyond `Safe`: the two ends of the range in one scale, and the last
-- representable TAI epoch against the GPST reference epoch, in both orders (`Dur.MAX` is NOT `Safe`)
example : CmpFits ⟨Dur.MIN, .UTC⟩ ⟨Dur.MAX, .UTC⟩ ∧ ¬ Safe (Dur.MAX).val ∧
    CmpFits ⟨Dur.MAX, .TAI⟩ ⟨⟨0, 0⟩, .GPST⟩ ∧ CmpFits ⟨⟨0, 0⟩, .GPST⟩ ⟨Dur.MAX, .TAI⟩ := by
  unfold Safe; decide +kernel

-- non-vacuity: the pair of the repaired defect D15 (symmetric about the reference) is in the domain,
-- and the model orders it chronologically
example : Safe (Dur.mk (-1) (NPC - 900000000000)).val ∧ Safe (Dur.mk 0 900000000000).val ∧
    Ep.eqb ⟨⟨-1, NPC - 900000000000⟩, .TAI⟩ ⟨⟨0, 900000000000⟩, .TAI⟩ = some false := by
  unfold Safe; decide +kernel

end Hifi.C12
