import Hifi.Lemmas.EpochOrd
/-
  C12  Epoch equality and ordering are chronological, whatever the time scales.

  Proved for the seven non-dynamical scales (TAI, TT, UTC, GPST, GST, BDT, QZSST), for every pair of
  epochs at least four centuries inside the duration bounds (`Safe`, so that no conversion saturates).
  ET/TDB operands go through `f64::sin`; for them the property's 100 ns statement rests on C07 and on
  the correspondence run.
-/
namespace Hifi.C12
open Hifi Hifi.Spec Hifi.C06

/-- `cmp` answers the chronological question about the instants denoted -/
theorem cmp_is_chronological (a b : Ep) (ha : a.dur.Canon) (hb : b.dur.Canon)
    (hta : a.ts.nonDyn = true) (htb : b.ts.nonDyn = true) (hsa : Safe a.dur.val) (hsb : Safe b.dur.val) :
    Ep.cmp a b = some (cmpI a.inst b.inst) := Ep_cmp_spec a b ha hb hta htb hsa hsb

/-- `==` holds exactly when both denote the same instant -/
theorem eq_iff_same_instant (a b : Ep) (ha : a.dur.Canon) (hb : b.dur.Canon)
    (hta : a.ts.nonDyn = true) (htb : b.ts.nonDyn = true) (hsa : Safe a.dur.val) (hsb : Safe b.dur.val) :
    Ep.eqb a b = some (decide (a.inst = b.inst)) := Ep_eqb_spec a b ha hb hta htb hsa hsb

/-- equality and ordering are mutually consistent: exactly one of <, ==, > holds -/
theorem consistent (a b : Ep) (ha : a.dur.Canon) (hb : b.dur.Canon)
    (hta : a.ts.nonDyn = true) (htb : b.ts.nonDyn = true) (hsa : Safe a.dur.val) (hsb : Safe b.dur.val) :
    ∃ c e, Ep.cmp a b = some c ∧ Ep.eqb a b = some e ∧ (e = true ↔ c = 0) ∧ (c = -1 ∨ c = 0 ∨ c = 1) := by
  refine ⟨_, _, Ep_cmp_spec a b ha hb hta htb hsa hsb, Ep_eqb_spec a b ha hb hta htb hsa hsb, ?_, ?_⟩
  · unfold cmpI; simp only [decide_eq_true_eq]; grind
  · unfold cmpI; grind

/-- independent of which operand is on the left -/
theorem cmp_antisymmetric (a b : Ep) (ha : a.dur.Canon) (hb : b.dur.Canon)
    (hta : a.ts.nonDyn = true) (htb : b.ts.nonDyn = true) (hsa : Safe a.dur.val) (hsb : Safe b.dur.val) :
    ∃ c, Ep.cmp a b = some c ∧ Ep.cmp b a = some (-c) := by
  refine ⟨_, Ep_cmp_spec a b ha hb hta htb hsa hsb, ?_⟩
  rw [Ep_cmp_spec b a hb ha htb hta hsb hsa]; unfold cmpI; congr 1; grind

theorem eq_symmetric (a b : Ep) (ha : a.dur.Canon) (hb : b.dur.Canon)
    (hta : a.ts.nonDyn = true) (htb : b.ts.nonDyn = true) (hsa : Safe a.dur.val) (hsb : Safe b.dur.val) :
    Ep.eqb a b = Ep.eqb b a := by
  rw [Ep_eqb_spec a b ha hb hta htb hsa hsb, Ep_eqb_spec b a hb ha htb hta hsb hsa]
  congr 1; simp only [decide_eq_decide]; exact eq_comm

/-- transitive -/
theorem cmp_transitive (a b c : Ep) (ha : a.dur.Canon) (hb : b.dur.Canon) (hc : c.dur.Canon)
    (hta : a.ts.nonDyn = true) (htb : b.ts.nonDyn = true) (htc : c.ts.nonDyn = true)
    (hsa : Safe a.dur.val) (hsb : Safe b.dur.val) (hsc : Safe c.dur.val)
    (h1 : Ep.cmp a b = some (-1)) (h2 : Ep.cmp b c = some (-1)) : Ep.cmp a c = some (-1) := by
  rw [Ep_cmp_spec a b ha hb hta htb hsa hsb] at h1
  rw [Ep_cmp_spec b c hb hc htb htc hsb hsc] at h2
  rw [Ep_cmp_spec a c ha hc hta htc hsa hsc]
  unfold cmpI at *; simp only [Option.some.injEq] at *; grind

/-- preserved by converting an operand into any uniform scale: conversion keeps the instant -/
theorem conversion_preserves_instant (d : Dur) (a b : TS) (hd : d.Canon) (ha : a.nonDyn = true)
    (hb : b.isUniform = true) (hs : Safe d.val) :
    ∃ r, (Ep.mk d a).to b = some r ∧ r.inst = (Ep.mk d a).inst := by
  obtain ⟨r, r1, r2, r3⟩ := to_uniform_inst d a b hd ha hb hs
  refine ⟨_, r1, ?_⟩
  unfold Ep.inst; simp only; rw [instV_uniform b r.val hb, r3]; omega

/-- … and a UTC epoch converted to TAI and back is the same epoch (C06), so converting the UTC
    operand of a comparison is harmless as well -/
theorem utc_operand_round_trip (d : Dur) (hd : d.Canon) (hhi : d.val + 1000000000000 ≤ DMAX)
    (hlo : DMIN + 1000000000000 ≤ d.val) :
    ∃ p, toTaiDur builtin d .UTC = some p ∧ fromTaiDur builtin p .UTC = some d :=
  utc_tai_utc_round_trip d hd hhi hlo

/-- min / max return the operand whose instant is smaller / larger (either one when equal) -/
theorem min_max_spec (a b : Ep) (ha : a.dur.Canon) (hb : b.dur.Canon)
    (hta : a.ts.nonDyn = true) (htb : b.ts.nonDyn = true) (hsa : Safe a.dur.val) (hsb : Safe b.dur.val) :
    ∃ m M, Ep.min a b = some m ∧ Ep.max a b = some M ∧
      m.inst = (if a.inst < b.inst then a.inst else b.inst) ∧ M.inst = (if a.inst > b.inst then a.inst else b.inst) := by
  unfold Ep.min Ep.max
  rw [Ep_cmp_spec a b ha hb hta htb hsa hsb]
  simp only
  refine ⟨_, _, rfl, rfl, ?_, ?_⟩ <;> (unfold cmpI; grind)

-- non-vacuity: the pair of the repaired defect D15 (symmetric about the reference) is in the domain,
-- and the model orders it chronologically
example : Safe (Dur.mk (-1) (NPC - 900000000000)).val ∧ Safe (Dur.mk 0 900000000000).val ∧
    Ep.eqb ⟨⟨-1, NPC - 900000000000⟩, .TAI⟩ ⟨⟨0, 900000000000⟩, .TAI⟩ = some false := by
  unfold Safe; decide +kernel

end Hifi.C12
