import Hifi.Lemmas.EpochText
/-
  C10  Epoch text and serde round trip: parse(format(e)) == e, to the nanosecond.

  Model: `Hifi/Model/EpochText.lean` (byte-indexed transcription of `Epoch::from_gregorian_str`,
  `impl FromStr for Epoch`, `to_rfc3339`, `to_gregorian_str`, Display, the ISO8601 formatter constant,
  serde through the Display string).  The theorems below are about ALL epochs whose calendar year in
  their own scale is 0000–9999 (the property asks for 0001–9999), at nanosecond resolution, in all nine
  time scales; they rest on the calendar round trip `Cal.from_compute` (C09 lemmas) and on the
  tokenizer lemmas of `Hifi/Lemmas/EpochText.lean`.
-/
namespace Hifi.C10
open Hifi Hifi.Spec Hifi.Txt

/-- the domain of the round-trip theorems: a canonical duration inside the calendar range whose year
    (`Epoch::year`, characterised against the specification calendar by the C09 theorems) is 0000..9999 -/
def InDomain (d : Dur) (ts : TS) : Prop :=
  d.Canon ∧ Cal.InCal d.val ∧ ∃ y, Cal.year d ts = .ok y ∧ 0 ≤ y ∧ y ≤ 9999

/-- DISPLAY: `Epoch::from_str(&format!("{e}")) == Ok(e)` and the same through `from_gregorian_str`:
    same time scale, same duration (hence the same elapsed time to the nanosecond).  `dur` is the
    float-valued tail of the numeric forms, irrelevant here: the statement holds for any. -/
theorem display_round_trip (d : Dur) (ts : TS) (h : InDomain d ts) :
    ∃ txt, displayEpoch d ts = .ok txt ∧ fromGregorianStrIdx txt = .ok ⟨d, ts⟩ ∧
      ∀ dur, epochFromStrWith dur txt = .ok ⟨d, ts⟩ := by
  obtain ⟨hc, hr, y, hy, hy1, hy2⟩ := h
  exact display_parse d ts hc hr y hy ⟨hy1, hy2⟩

example : InDomain ⟨-1, 3155759999999999999⟩ .TAI := by
  refine ⟨by unfold Dur.Canon; simp only [NPC_eq]; omega, by unfold Cal.InCal Dur.val valP; simp only [NPCs_eq]; omega, 1899, by decide, by omega, by omega⟩


/-- TO_GREGORIAN_STR in the epoch's own scale is the Display text -/
theorem gregorian_str_round_trip (d : Dur) (ts : TS) (h : InDomain d ts) :
    ∃ txt, toGregorianStr d ts = .ok txt ∧ fromGregorianStrIdx txt = .ok ⟨d, ts⟩ ∧
      ∀ dur, epochFromStrWith dur txt = .ok ⟨d, ts⟩ := display_round_trip d ts h

/-- ISO 8601 FORMATTER (`Formatter::new(e, ISO8601)`): nine fractional digits always -/
theorem iso8601_formatter_round_trip (d : Dur) (ts : TS) (h : InDomain d ts) :
    ∃ txt, isoFormatterOutput d ts = .ok txt ∧ fromGregorianStrIdx txt = .ok ⟨d, ts⟩ ∧
      ∀ dur, epochFromStrWith dur txt = .ok ⟨d, ts⟩ := by
  obtain ⟨hc, hr, y, hy, hy1, hy2⟩ := h
  exact iso_parse d ts hc hr y hy ⟨hy1, hy2⟩

/-- JSON: `serde_json::to_string` writes the Display text between double quotes; the text contains
    nothing JSON escapes (no quote, no backslash, no control character), so the payload read back is
    that same text, and `Deserialize` (= `Epoch::from_str` of the payload) returns the identical epoch -/
theorem json_round_trip (d : Dur) (ts : TS) (h : InDomain d ts) :
    ∃ txt, jsonOfEpoch d ts = .ok ([34] ++ txt ++ [34]) ∧
      (∀ c ∈ txt, c ≠ 34 ∧ c ≠ 92 ∧ 32 ≤ c ∧ c < 127) ∧
      ∀ dur, epochFromStrWith dur txt = .ok ⟨d, ts⟩ := by
  obtain ⟨txt, h1, _, h3⟩ := display_round_trip d ts h
  refine ⟨txt, by unfold jsonOfEpoch; rw [h1], ?_, h3⟩
  -- the characters of the Display text: digits, `- T : . blank` and capital letters
  obtain ⟨hc, hr, y, hy, hy1, hy2⟩ := h
  obtain ⟨y0, mo, dd, hh, mi, s, ns, e, _, b1, b2, b3, b4, b5, b6, b7, b8, b9, b10, b11, b12⟩ := compute_facts d ts hc hr
  have hyy : y0 = y := by unfold Cal.year at hy; rw [e] at hy; simpa using hy
  subst hyy
  unfold displayEpoch at h1
  rw [e] at h1
  simp only [Res.ok.injEq] at h1
  subst h1
  rw [renderGreg_eq y0 mo dd hh mi s ns ts (by omega) (by omega) (by omega) b5 b7 b9 b11]
  have hall : ∀ (l : List Nat), l.all (fun c => decide (c ≠ 34 ∧ c ≠ 92 ∧ 32 ≤ c ∧ c < 127)) = true →
      ∀ c ∈ l, c ≠ 34 ∧ c ≠ 92 ∧ 32 ≤ c ∧ c < 127 := by
    intro l hl c hcm
    have := List.all_eq_true.mp hl c hcm
    simpa using this
  apply hall
  have hdig : ∀ (w n : Nat), n < 10 ^ w →
      (Cal.fmtNat w n).all (fun c => decide (c ≠ 34 ∧ c ≠ 92 ∧ 32 ≤ c ∧ c < 127)) = true := by
    intro w n hn
    rw [List.all_eq_true]
    intro c hcm
    have := fmtNat_digits w n hn c hcm
    simp only [decide_eq_true_eq]; omega
  have hts : (tsDisplay ts).all (fun c => decide (c ≠ 34 ∧ c ≠ 92 ∧ 32 ≤ c ∧ c < 127)) = true := by
    cases ts <;> decide
  unfold stamp5 fracN
  simp only [List.all_append, List.all_cons, List.all_nil, Bool.and_true, Bool.and_eq_true,
    hdig 4 y0.toNat (by omega), hdig 2 mo.toNat (by omega), hdig 2 dd.toNat (by omega), hdig 2 hh.toNat (by omega),
    hdig 2 mi.toNat (by omega), hdig 2 s.toNat (by omega), hts, true_and]
  refine ⟨by decide, ?_, by decide⟩
  by_cases h0 : ns = 0
  · simp [h0]
  · simp only [h0, if_false]
    have e9 : ¬ ((9 : Nat) = 0) := by omega
    rw [if_neg e9]
    simp only [List.all_cons, hdig 9 ns.toNat (by omega), Bool.and_true]; decide

/-- RFC 3339 OF A UTC EPOCH: `Epoch::from_str(&e.to_rfc3339()) == Ok(e)` -/
theorem rfc3339_round_trip (d : Dur) (h : InDomain d .UTC) :
    ∃ txt, toRfc3339 d = .ok txt ∧ fromGregorianStrIdx txt = .ok ⟨d, .UTC⟩ ∧
      ∀ dur, epochFromStrWith dur txt = .ok ⟨d, .UTC⟩ := by
  obtain ⟨hc, hr, y, hy, hy1, hy2⟩ := h
  exact rfc3339_parse d hc hr y hy ⟨hy1, hy2⟩

/-- RFC 3339 / ISO 8601 GRAMMAR (specification generator `Spec.renderText`): for every valid date-time
    of the years 0001-9999 (second < 60), every fraction length 0..9, every offset ±00:00..±23:59, `Z`,
    with or without a time-scale suffix, in all nine scales, the text parses to the canonical epoch in the
    scale the text names (UTC when none) whose count is EXACTLY the one the text denotes: the fields' count
    in that scale minus the written offset; fewer fractional digits are trailing zeros (`Spec.denoted`). -/
theorem rfc3339_text_denotes (f : Form) (y mo d h mi s : Int) (nd : Nat) (frac : Int) (neg : Bool) (oh om : Int) (ts : TS)
    (hg : inGrammar ⟨y, mo, d⟩ h mi s nd frac oh om = true) :
    ∃ r ts', ts'.name = f.scaleOf ts.name ∧
      fromGregorianStrIdx (renderText f ⟨y, mo, d⟩ h mi s nd frac neg oh om ts.name) = .ok ⟨r, ts'⟩ ∧
      (∀ dur, epochFromStrWith dur (renderText f ⟨y, mo, d⟩ h mi s nd frac neg oh om ts.name) = .ok ⟨r, ts'⟩) ∧
      r.Canon ∧ r.val = denoted f ts.name ⟨y, mo, d⟩ h mi s nd frac neg oh om :=
  text_denotes f y mo d h mi s nd frac neg oh om ts hg

example : inGrammar ⟨2017, 1, 14⟩ 0 31 55 3 811 23 59 = true := by decide

/-- D30 (repaired by bc27c0b) as a decided fact: `2017-01-14T00:31:55+10:00` is ten hours before the same
    text without offset -/
theorem d30_witness :
    fromGregorianStrIdx [50, 48, 49, 55, 45, 48, 49, 45, 49, 52, 84, 48, 48, 58, 51, 49, 58, 53, 53, 43, 49, 48, 58, 48, 48]
      = .ok ⟨⟨1, 537546715000000000⟩, .UTC⟩ ∧
    fromGregorianStrIdx [50, 48, 49, 55, 45, 48, 49, 45, 49, 52, 84, 48, 48, 58, 51, 49, 58, 53, 53]
      = .ok ⟨⟨1, 537582715000000000⟩, .UTC⟩ := by
  constructor <;> decide +kernel

/-! ### second = 60 — PARTIAL on D9b (UTC)

  Full statement: a text whose second is 60 and whose fields minus the written offset are 23:59 of a
  leap-second day denotes, in UTC, the instant INSIDE the inserted second (one second after 23:59:59.f), and
  must parse to it; any other `:60` must be an error.  The library's UTC count has no value inside an
  inserted second (recorded finding D9b): the parser reads the label as 23:59:59.f.  Proved: exactly which
  `:60` texts are accepted (after fix 582282e / D38: the label is checked once the offset is removed) and
  which epoch they give; decided: that epoch is NOT the denoted instant in UTC. -/

/-- SECOND = 60, every form, offset and scale: accepted iff `Spec.leapLabelOwn`; the epoch is canonical, in
    the scale the text names, with the count of 23:59:59.f of that minute (for the eight scales without leap
    seconds this is what C08 demands of the constructors; for UTC it is one second before the instant denoted) -/
theorem second60_partial (f : Form) (y mo d h mi : Int) (nd : Nat) (frac : Int) (neg : Bool) (oh om : Int) (ts : TS)
    (hg : inGrammar60 ⟨y, mo, d⟩ h mi nd frac oh om = true) :
    ∃ r ts', ts'.name = f.scaleOf ts.name ∧ r.Canon ∧
      r.val = lastLabelNs ⟨y, mo, d⟩ h mi (offsetMin f neg oh om) nd frac - refOffsetNs ts'.name ∧
      fromGregorianStrIdx (renderText f ⟨y, mo, d⟩ h mi 60 nd frac neg oh om ts.name) =
        (if leapLabelOwn iersLeapDates ⟨y, mo, d⟩ h mi (offsetMin f neg oh om) = true then .ok ⟨r, ts'⟩ else .err) ∧
      ∀ dur, epochFromStrWith dur (renderText f ⟨y, mo, d⟩ h mi 60 nd frac neg oh om ts.name) =
        (if leapLabelOwn iersLeapDates ⟨y, mo, d⟩ h mi (offsetMin f neg oh om) = true then .ok ⟨r, ts'⟩ else .err) :=
  second60_text f y mo d h mi nd frac neg oh om ts hg

example : inGrammar60 ⟨2016, 12, 31⟩ 23 59 1 5 0 0 = true ∧
    leapLabelOwn iersLeapDates ⟨2016, 12, 31⟩ 23 59 (offsetMin .Z false 0 0) = true := by decide

/-- D9b for C10 (counterexample of the full statement): `2016-12-31T23:59:60Z` and `2016-12-31T23:59:59Z`
    denote instants one second apart (`Spec.denotedLeapInstant` vs `Spec.utcToTai` of the count) and parse to
    the SAME epoch; D38 (repaired): with an offset the same label is accepted, the local look-alike is not -/
theorem d9b_second60_counterexample :
    fromGregorianStrIdx (renderText .Z ⟨2016, 12, 31⟩ 23 59 60 0 0 false 0 0 "UTC") =
      fromGregorianStrIdx (renderText .Z ⟨2016, 12, 31⟩ 23 59 59 0 0 false 0 0 "UTC") ∧
    fromGregorianStrIdx (renderText .Z ⟨2016, 12, 31⟩ 23 59 60 0 0 false 0 0 "UTC") = .ok ⟨⟨1, 536457599000000000⟩, .UTC⟩ ∧
    denotedLeapInstant (Gen.IERS_TEXT.map (fun e => (e.1, e.2.1))) ⟨2016, 12, 31⟩ 23 59 0 0 0 ≠
      utcToTai (Gen.IERS_TEXT.map (fun e => (e.1, e.2.1))) (valP 1 536457599000000000) ∧
    fromGregorianStrIdx (renderText .O ⟨2017, 1, 1⟩ 9 59 60 0 0 false 10 0 "UTC") = .ok ⟨⟨1, 536457599000000000⟩, .UTC⟩ ∧
    fromGregorianStrIdx (renderText .O ⟨2016, 12, 31⟩ 23 59 60 0 0 false 10 0 "UTC") = .err := by
  decide +kernel

/-! ### the formatter models used here are the ones of C09 / C19 -/

/-- `Txt.displayEpoch` (Display as this property's model writes it) IS `Cal.display` (the C09 model) -/
theorem display_models_agree (d : Dur) (ts : TS) : displayEpoch d ts = Cal.display d ts :=
  displayEpoch_eq_display d ts

/-- `Txt.isoFormatterOutput` IS the general formatter model of C19 applied to the generated constant ISO8601 -/
theorem iso_formatter_models_agree (O : Efmt.Oracles) (f : Efmt.Format)
    (hf : Efmt.Format.ofGen Gen.EFMT_ISO8601 = some f) (d : Dur) (ts : TS) :
    Efmt.formatterOutput O f ⟨d, ts⟩ none = isoFormatterOutput d ts :=
  isoFormatterOutput_eq_formatter O f hf d ts

/-! ### the numeric forms `JD x SCALE`, `MJD x SCALE`, `SEC x SCALE` — PARTIAL

  Full statement (not proved in the kernel): for the accepted (prefix, scale) pairs and every decimal
  numeral `x` over the span of the years 0001-9999, the epoch returned is within the resolution of a
  binary64 of that magnitude of the instant `x` denotes.  The value is computed with `f64` arithmetic
  (`lexical_core::parse::<f64>`, a subtraction, `Unit::Day * f64`), which the model evaluates with
  hardware doubles in the driver (bit-for-bit equal to the implementation on every generated case)
  and which `Spec.withinResolution` judges in exact integer arithmetic.  What IS proved: every
  (prefix, scale) pair is accepted with the written scale, and the numeral and scale handed on are the
  ones written — for any value of the float-valued part. -/

/-- every (prefix, scale) pair is accepted (since fix bfd663d / D44) and the result carries the written scale:
    JD and MJD call `from_jde_in_time_scale` / `from_mjd_in_time_scale` for whatever scale is written, SEC
    counts from the scale's own reference; never an error, never another scale — for any finite value -/
theorem numeric_forms_partial (bits : Nat) (dur : TS → Dur) (hf : finiteBits bits = true) :
    ∀ fmt ts, numericEpoch fmt ts bits dur = .ok ⟨dur ts, ts⟩ := by
  intro fmt ts
  unfold numericEpoch
  simp only [hf, Bool.true_eq_false, if_false]
  split
  · rfl
  · split <;> rfl

/-- D44 (repaired by bfd663d) as decided facts: the ten required pairs that were errors are read, with the
    written scale and the numeral written (any float-valued tail `dur`) -/
theorem d44_witness (dur : Nat → Nat → TS → Dur) :
    epochFromStrWith dur (Cal.strCodes "JD 2451545.0 TT") = .ok ⟨dur 0 0x4142b42c80000000 .TT, .TT⟩ ∧
    epochFromStrWith dur (Cal.strCodes "JD 2451545.0 GST") = .ok ⟨dur 0 0x4142b42c80000000 .GST, .GST⟩ ∧
    epochFromStrWith dur (Cal.strCodes "MJD 51544.5 TT") = .ok ⟨dur 1 0x40e92b1000000000 .TT, .TT⟩ ∧
    epochFromStrWith dur (Cal.strCodes "MJD 51544.5 GPST") = .ok ⟨dur 1 0x40e92b1000000000 .GPST, .GPST⟩ ∧
    epochFromStrWith dur (Cal.strCodes "SEC 5 GPST") = .ok ⟨dur 2 0x4014000000000000 .GPST, .GPST⟩ ∧
    epochFromStrWith dur (Cal.strCodes "SEC 5 QZSST") = .ok ⟨dur 2 0x4014000000000000 .QZSST, .QZSST⟩ := by
  refine ⟨?_, ?_, ?_, ?_, ?_, ?_⟩ <;> rfl

/-- NUMERIC FORMS, the text-level part (proved for every numeral text): in `PREFIX␣x␣SCALE` — `x` any
    non-empty ASCII text without blanks, `SCALE` ANY of the thirteen spellings accepted by
    `TimeScale::from_str` (the nine Display names and GPS GAL BDS QZSS; the suffix search over the last 5, 4,
    3 bytes finds it) — `Epoch::from_str` hands exactly `x` to `lexical_core::parse::<f64>`, rejects a
    non-finite or malformed numeral, and calls the initializer of the written prefix with the written scale
    (`numericEpoch`, theorem above) -/
theorem numeric_forms_read_what_is_written (dur : Nat → Nat → TS → Dur) (pfx : List Nat) (start fmt : Nat)
    (hp : (pfx = [74, 68] ∧ start = 2 ∧ fmt = 0) ∨ (pfx = [77, 74, 68] ∧ start = 3 ∧ fmt = 1) ∨
          (pfx = [83, 69, 67] ∧ start = 3 ∧ fmt = 2))
    (x sfx : List Nat) (ts : TS) (hsfx : (sfx, ts) ∈ Gen.TIMESCALE_SPELLINGS)
    (hxa : isAscii x = true) (hxne : x ≠ []) (hxw : ∀ c ∈ x, isWhitespace c = false) :
    epochFromStrWith dur (pfx ++ 32 :: (x ++ 32 :: sfx)) =
      match lexF64 x with
      | some bits => if finiteBits bits = true then numericEpoch fmt ts bits (dur fmt bits) else .err
      | none => .err :=
  numeric_text_reads dur pfx start fmt hp x sfx ts hsfx hxa hxne hxw

/-- the texts of the theorem above are the specification's `renderNumeric` with one blank -/
example (x : List Nat) : renderNumeric "MJD" x 1 "GPS" = [77, 74, 68] ++ 32 :: (x ++ 32 :: [71, 80, 83]) := by
  have e1 : scaleCodes "MJD" = [77, 74, 68] := by decide
  have e2 : scaleCodes "GPS" = [71, 80, 83] := by decide
  unfold renderNumeric; rw [e1, e2]; simp
example : ([71, 80, 83], TS.GPST) ∈ Gen.TIMESCALE_SPELLINGS := by decide

/-- the decimal-to-binary64 conversion of the model on the documented examples (bit patterns as the
    implementation's `lexical_core` returns them) -/
theorem lexF64_examples :
    lexF64 [53, 49, 53, 52, 52, 46, 53] = some 0x40e92b1000000000 ∧                 -- 51544.5
    lexF64 [48, 46, 49] = some 0x3fb999999999999a ∧                                   -- 0.1
    lexF64 [49, 101, 52, 48, 48] = some 0x7ff0000000000000 ∧                          -- 1e400 = inf
    lexF64 [110, 97, 110] = some 0x7ff8000000000000 ∧ lexF64 [49, 101] = none := by   -- nan, "1e"
  decide

/-- A text whose WRITTEN date is 0000-12-31 (RFC 3339 allows year 0000) with a negative offset that carries it past
    midnight (`Spec.inGrammarYear0`, the labels the driver counts inside the quantifier although their written year
    is not 0001–9999) denotes an instant of 0001-01-01 of the scale it is read in: an epoch of calendar year 0001,
    inside "all epochs with calendar year 0001-9999". -/
theorem year0_label_denotes_an_epoch_of_year_1 (f : Form) (hf : f.hasOffset = true) (scale : String) (d : Date)
    (h mi s : Int) (nd : Nat) (frac : Int) (oh om : Int) (hg : inGrammarYear0 d h mi s nd frac true oh om = true) :
    elapsedNs (f.scaleOf scale) ⟨1, 1, 1⟩ 0 0 0 0 ≤ denoted f scale d h mi s nd frac true oh om ∧
    denoted f scale d h mi s nd frac true oh om < elapsedNs (f.scaleOf scale) ⟨1, 1, 2⟩ 0 0 0 0 := by
  unfold inGrammarYear0 at hg
  simp only [decide_eq_true_eq, Bool.true_and] at hg
  obtain ⟨hy, hm, hd, a1, a2, a3, a4, a5, a6, a7, a8, a9, a10, a11, a12, a13, a14⟩ := hg
  have hfb := fracNs_bound nd frac a7 ⟨a8, a9⟩
  have hd0 : dayNumber d = dayNumber ⟨1, 1, 1⟩ - 1 := by
    obtain ⟨y, m, dd⟩ := d
    simp only at hy hm hd
    subst hy; subst hm; subst hd
    decide
  have hd2 : dayNumber ⟨1, 1, 2⟩ = dayNumber ⟨1, 1, 1⟩ + 1 := by decide
  unfold denoted elapsedNs
  rw [hf, hd0, hd2]
  simp only [if_true, offsetNs, timeOfDay, fracNs, NPDs]
  constructor <;> omega

-- the hypothesis is satisfiable: 0000-12-31T23:30:00-01:00
example : inGrammarYear0 ⟨0, 12, 31⟩ 23 30 0 0 0 true 1 0 = true := by decide

end Hifi.C10
