import Hifi.Props.C13Format
/-
  Pseudo-property C13F: lets `./check C13F quick` run the FORMAT stream of C13 (`Format::from_str`,
  `Format::parse`, `Epoch::from_format_str`, `Epoch::from_str_with_format`) on its own.  The lead
  merges the stream and the theorems of `Props/C13Format.lean` into C13; this file can then be deleted.
-/
namespace Hifi.C13F
open Hifi Hifi.Efmt

theorem format_from_str_never_panics (s : List Nat) : formatFromStr s ≠ .panic :=
  Hifi.C13Format.format_from_str_never_panics s

theorem format_from_str_total (s : List Nat) :
    formatFromStr s = .err ∨ ∃ f, formatFromStr s = .ok f ∧ f.items.length ≤ 16 :=
  Hifi.C13Format.format_from_str_total s

theorem format_parse_never_panics (O : Oracles) (f : Format) (s : List Nat) (hwf : f.items.length ≤ 16) :
    formatParse O f s ≠ .panic :=
  Hifi.C13Format.format_parse_never_panics O f s hwf

theorem from_format_str_never_panics (O : Oracles) (text fmt : List Nat) : fromFormatStr O text fmt ≠ .panic :=
  Hifi.C13Format.from_format_str_never_panics O text fmt

/-- `Format::parse` of well-formed text (numeric class of formats, any field values but hour 24) is
    `Epoch::maybe_from_gregorian` of the fields -/
theorem format_parse_is_from_gregorian (O : Oracles) (f : Format) (hc : numClass f = true) (y mo d h mi s ns : Int)
    (hy : 0 ≤ y ∧ y ≤ 9999) (hmo : 0 ≤ mo ∧ mo < 100) (hd : 0 ≤ d ∧ d < 100) (hh : 0 ≤ h ∧ h < 100)
    (hmi : 0 ≤ mi ∧ mi < 100) (hs : 0 ≤ s ∧ s < 100) (hns : 0 ≤ ns ∧ ns < 1000000000) (h24 : h ≠ 24) :
    formatParse O f (Hifi.C13Format.printed f y mo d h mi s ns) =
      match Cal.maybeFromGregorian y mo d h mi s ns TS.UTC with
      | .ok dur => .ok ⟨dur, TS.UTC⟩
      | .err => .err
      | .panic => .panic :=
  Hifi.C13Format.format_parse_is_from_gregorian O f hc y mo d h mi s ns hy hmo hd hh hmi hs hns h24

/-- rejection through `Format::parse`, universal over the numeric class; partial on D10 -/
theorem format_parse_rejects_out_of_range_partial (O : Oracles) (f : Format) (hc : numClass f = true)
    (y mo d h mi s ns : Int)
    (hy : 0 ≤ y ∧ y ≤ 9999) (hmo : 0 ≤ mo ∧ mo < 100) (hd : 0 ≤ d ∧ d < 100) (hh : 0 ≤ h ∧ h < 100)
    (hmi : 0 ≤ mi ∧ mi < 100) (hs : 0 ≤ s ∧ s < 100) (hns : 0 ≤ ns ∧ ns < 1000000000)
    (hrej : Spec.mustReject Spec.iersLeapDates ⟨y, mo, d⟩ h mi s ns = true ∨ h = 24)
    (hD10 : Cal.d10class y mo d = false) :
    formatParse O f (Hifi.C13Format.printed f y mo d h mi s ns) = .err :=
  Hifi.C13Format.format_parse_rejects_out_of_range_partial O f hc y mo d h mi s ns hy hmo hd hh hmi hs hns hrej hD10

/-- the D10 hypothesis cannot be dropped -/
theorem format_parse_d10_counterexample :
    Spec.mustReject Spec.iersLeapDates ⟨2024, 2, 30⟩ 0 0 0 0 = true ∧
    formatParse Hifi.C13Format.O0 (Hifi.C13Format.fmtOf "%Y-%m-%d %H:%M:%S.%f")
      (Hifi.C13Format.printed (Hifi.C13Format.fmtOf "%Y-%m-%d %H:%M:%S.%f") 2024 2 30 0 0 0 0) ≠ .err :=
  ⟨Hifi.C13Format.format_parse_d10_counterexample.2.1, Hifi.C13Format.format_parse_d10_counterexample.2.2.2.1⟩

/-- acceptance through `Format::parse`: the specified instant -/
theorem format_parse_accepts (O : Oracles) (f : Format) (hc : numClass f = true) (y mo d h mi s ns : Int)
    (hy : 0 ≤ y ∧ y ≤ 9999)
    (hacc : Spec.mustAccept Spec.iersLeapDates ⟨y, mo, d⟩ h mi s ns = true) :
    ∃ e, formatParse O f (Hifi.C13Format.printed f y mo d h mi s ns) = .ok e ∧ e.ts = TS.UTC ∧ e.dur.Canon ∧
      e.dur.val = Spec.dayNumber ⟨y, mo, d⟩ * 86400000000000 + h * 3600000000000 + mi * 60000000000 + s * 1000000000 + ns
        - (if s = 60 then 1000000000 else 0) - Spec.refOffsetNs TS.UTC.name :=
  Hifi.C13Format.format_parse_accepts O f hc y mo d h mi s ns hy hacc

end Hifi.C13F
