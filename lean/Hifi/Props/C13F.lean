import Hifi.Props.C13Format
/-
  Pseudo-property C13F: lets `./check C13F quick` run the FORMAT stream of C13 (`Format::from_str`,
  `Format::parse`, `Epoch::from_format_str`, `Epoch::from_str_with_format`) on its own.  The lead
  merges the stream and the theorems of `Props/C13Format.lean` into C13; this file can then be deleted.
-/
namespace Hifi.C13F
open Hifi Hifi.Efmt

theorem format_from_str_never_panics (s : List Nat) : formatFromStr s ≠ .panic :=
  Hifi.C13Format.format_from_str_never_panics s

theorem format_from_str_total (s : List Nat) :
    formatFromStr s = .err ∨ ∃ f, formatFromStr s = .ok f ∧ f.items.length ≤ 16 :=
  Hifi.C13Format.format_from_str_total s

theorem format_parse_never_panics (O : Oracles) (f : Format) (s : List Nat) (hwf : f.items.length ≤ 16) :
    formatParse O f s ≠ .panic :=
  Hifi.C13Format.format_parse_never_panics O f s hwf

theorem from_format_str_never_panics (O : Oracles) (text fmt : List Nat) : fromFormatStr O text fmt ≠ .panic :=
  Hifi.C13Format.from_format_str_never_panics O text fmt

end Hifi.C13F
