import Hifi.Lemmas.EfmtBack
/-
  C19  strftime-style formatting prints the right field per token; consts match docs.

  Model: `Hifi/Model/Efmt.lean` (the code after the repairs 05ce775, 013aee2, c5931b6, 5f24444,
  77ab25e, c137eb9).  Specification vocabulary: `Hifi/Spec/Efmt.lean` (token letters, field texts,
  documented strings) and `Hifi/Spec/Calendar.lean` (the Gregorian fields of an epoch).

  Recorded findings that remain (see `known_findings.json`):
    D22i  `Formatter(ISO8601)` differs from the default Display when the nanoseconds are zero
          (pinned both ways by the suite) — `iso8601_vs_display_partial` + decided counterexample;
    D25   parse-back fails for classes of plain full-date formats — see the parse-back section.
-/
namespace Hifi.C19
open Hifi Hifi.Efmt Hifi.Spec

/-! ### the tables of the code are the ones the property speaks of -/

/-- the token enum, the character → token arms of `Format::from_str`, `MAX_TOKENS` -/
theorem tokens_pinned :
    Token.all.map Token.debugName = Gen.EFMT_TOKEN_NAMES ∧
    [89, 109, 100, 72, 77, 83, 102, 106, 65, 97, 66, 98, 84, 122].map Token.ofChar? =
      [some .Year, some .Month, some .Day, some .Hour, some .Minute, some .Second, some .Subsecond,
       some .DayOfYearInteger, some .Weekday, some .WeekdayShort, some .MonthName, some .MonthNameShort,
       some .Timescale, some .OffsetHours] ∧
    [121, 119, 74].map Token.ofChar? = [some .YearShort, some .WeekdayDecimal, some .DayOfYear] ∧
    (List.range 128).all (fun c => (Token.ofChar? c).isSome ==
      [89, 121, 109, 98, 66, 100, 106, 74, 65, 97, 72, 77, 83, 102, 84, 119, 122].contains c) = true ∧
    MAX_TOKENS = 16 := by decide +kernel

/-- the supported letters map to the tokens whose Debug names the spec uses -/
theorem token_names_match_spec :
    [89, 109, 100, 72, 77, 83, 102, 106, 65, 97, 66, 98, 84, 122].all
      (fun c => match Token.ofChar? c with
        | some t => t.debugName == Spec.Efmt.tokenDebugName c && Token.supported t
        | none => false) = true := by decide +kernel

/-- English names: what `Weekday` / `MonthName` print (`{}` and `{:x}`) are the names of the spec, the
    short forms being the first three letters; the time scales print their names -/
theorem names_pinned :
    Gen.EFMT_WEEKDAY_LONG = Spec.Efmt.weekdayNames ∧ Gen.EFMT_MONTH_LONG = Spec.monthNames ∧
    Gen.EFMT_WEEKDAY_SHORT.map Cal.strCodes = Spec.Efmt.weekdayNames.map Spec.Efmt.short ∧
    Gen.EFMT_MONTH_SHORT.map Cal.strCodes = Spec.monthNames.map Spec.Efmt.short ∧
    TS.all.map TS.name = ["TAI", "TT", "ET", "TDB", "UTC", "GPST", "GST", "BDT", "QZSST"] := by decide +kernel

/-! ### each predefined format is identical to the format string it documents -/

def constIs (p : String × List Nat) : Bool :=
  match constByName? p.1, formatFromStr p.2 with
  | some c, .ok f => decide (c = f)
  | _, _ => false

/-- every (constant, string) pair of the rustdoc example of `Format`: `Format::from_str(string)` IS the
    constant (ISO8601, ISO8601_DATE, ISO8601_ORDINAL, RFC2822, RFC2822_LONG) … -/
theorem consts_match_rustdoc : Gen.EFMT_DOC.all constIs = true := by decide +kernel

/-- … and every pair the suite asserts (adds ISO8601_FLEX and RFC3339) -/
theorem consts_match_suite : Gen.EFMT_TESTED.all constIs = true := by decide +kernel

/-- the strings found in the sources are the ones written in the specification, and all nine
    constants are well-formed format values (≤ 16 items, known tokens) -/
theorem documented_strings_pinned :
    (Gen.EFMT_DOC ++ Gen.EFMT_TESTED).all
      (fun p => Spec.Efmt.documented.any (fun q => q.1 == p.1 && Spec.Efmt.codes q.2 == p.2)) = true ∧
    Gen.EFMT_CONSTS.map (·.1) = Spec.Efmt.documented.map (·.1) ∧
    Gen.EFMT_CONSTS.all (fun p => match Format.ofGen p.2 with | some f => f.wf | none => false) = true := by
  decide +kernel

/-- the two constants without a documented string are exactly what their doc comments describe ("The RFC3339
    format unless the subseconds are zero", "The ISO8601 format without the time scale"; `ISO8601_STD` since
    fix D41 — before, it carried a trailing separator) -/
theorem undocumented_consts :
    constIs ("RFC3339_FLEX", Cal.strCodes "%Y-%m-%dT%H:%M:%S.%f?%z") = true ∧
    constIs ("ISO8601_STD", Cal.strCodes "%Y-%m-%dT%H:%M:%S.%f") = true := by decide +kernel

/-- hence ALL nine constants are `Format::from_str` of the string the specification writes down for them -/
theorem all_consts_match_spec_strings :
    Spec.Efmt.documented.all (fun p => constIs (p.1, Spec.Efmt.codes p.2)) = true := by decide +kernel

/-! ### per token output -/

/-- FORMATTER OUTPUT.  For EVERY format of supported, non-optional tokens (any number of items, any
    separators — in particular 1 to 16 tokens with 0 to 2 ASCII separators), in whichever branch of
    `Formatter::fmt`, the output is exactly: text of token 1, separators of item 1, text of token 2, …,
    text of the last token — each text being `tokBytes` of the epoch's Gregorian fields in its own scale
    (`compute_gregorian`), of the day of year and of the offset text. -/
theorem output_is_tokens_and_separators (O : Oracles) (f : Format) (e : Ep) (off : Dur)
    (y mo d h mi s ns : Int) (zt : List Nat) (doy : Int)
    (hne : f.items ≠ [])
    (hall : ∀ it ∈ f.items, Token.supported it.token = true ∧ it.optional = false)
    (hg : Cal.computeGregorian e.dur e.ts = .ok (y, mo, d, h, mi, s, ns))
    (hz : offsetText off = .ok zt) (hd : dayOfYearInt e = .ok doy) :
    formatterFmt O f e off =
      .ok (concatItems (fun it => tokBytes it.token y mo d h mi s ns e zt doy) f.items) :=
  formatterFmt_concat O f e off y mo d h mi s ns zt doy hne hall hg hz hd

example : concatItems (fun it => [it.sep1.getD 0]) [⟨.Year, some 45, none, false⟩, ⟨.Month, some 47, some 32, false⟩, ⟨.Day, none, none, false⟩]
    = [45, 45, 47, 47, 32, 0] := by decide

/-- the formatter never panics: the `unreachable!()` of the branch without Gregorian tokens is
    unreachable (repaired defect D22), whatever the format -/
theorem formatter_never_panics (O : Oracles) (f : Format) (e : Ep) (off : Dur)
    (hg : Cal.computeGregorian e.dur e.ts ≠ .panic)
    (hz : offsetText off ≠ .panic) (hd : dayOfYearInt e ≠ .panic) :
    formatterFmt O f e off ≠ .panic :=
  formatterFmt_no_panic O f e off hg hz hd

/-- `%j` is the ordinal of the date in its year, computed exactly (repaired defect D23): for every
    canonical epoch in range it is (day number of the date) − (day number of 1 January) + 1 -/
theorem day_of_year_exact (e : Ep) (hd : e.dur.Canon) (hr : Cal.InCal e.dur.val) :
    ∃ y mo dd h mi s ns, Cal.computeGregorian e.dur e.ts = .ok (y, mo, dd, h, mi, s, ns) ∧
      dayOfYearInt e = .ok (dayNumber ⟨y, mo, dd⟩ - dayNumber ⟨y, 1, 1⟩ + 1) :=
  dayOfYearInt_spec e hd hr

/-- PER TOKEN OUTPUT, at the strength of the property text.  `s` a format string of the property's
    quantifier (starts with `%`; 1 to 16 tokens of `Y m d H M S f j A a B b T z`, each followed by 0 to 2
    ASCII separators) without optional markers; `e` ANY canonical epoch in range, in ANY of the nine
    scales, whose year in its own scale is 0000–9999; `z` any offset of whole minutes in −23:59..+23:59;
    `F` THE fields of `e` (valid date and time of day of the specification calendar whose elapsed time is
    the epoch, weekday and ordinal of that date: `Spec.Efmt.IsFields`, unique).  Then
    `Format::from_str(s)` succeeds and `Formatter` (epoch `e`, offset `z`: `Formatter::new` for `z` = 0,
    `with_timezone` for the shifted epoch) prints exactly the specification's text: zero-padded
    `%Y %m %d %H %M %S`, nine-digit `%f`, three-digit `%j`, English `%A %a %B %b`, `%T` scale, `%z` offset,
    separated by exactly the separators of the format.  FULL (no recorded class left: D22, D22w, D23
    repaired). -/
theorem formatting_prints_the_right_field_per_token (O : Oracles) (s : List Nat)
    (items : List Spec.Efmt.SItem) (e : Ep) (z : Dur) (F : Spec.Efmt.Fields)
    (hread : Spec.Efmt.readFormat s = some items) (hopt : ∀ it ∈ items, it.optional = false)
    (hd : e.dur.Canon) (hr : Cal.InCal e.dur.val)
    (hF : Spec.Efmt.IsFields e.ts.name e.dur.val F) (hy : 0 ≤ F.y ∧ F.y ≤ 9999)
    (hzc : z.Canon) (hzm : z.val % 60000000000 = 0) (hzr : -86400000000000 < z.val ∧ z.val < 86400000000000) :
    ∃ f text, formatFromStr s = .ok f ∧ formatterFmt O f e z = .ok text ∧
      Spec.Efmt.render items F z.val = some text :=
  formatter_prints_spec_text O s items e z F hread hopt hd hr hF hy hzc hzm hzr

/-- the hypotheses are satisfiable by a non-trivial value: "%A, %d %B %Y %H:%M:%S.%f %j%z" is a format of the
    property with ten non-optional items -/
example : (match Spec.Efmt.readFormat (Cal.strCodes "%A, %d %B %Y %H:%M:%S.%f %j%z") with
    | some its => its.length == 10 && its.all (fun it => !it.optional) | none => false) = true := by decide +kernel

/-- the fields exist and are unique (so "THE fields" is meaningful), and the searched-and-certified
    fields the driver's specification computes are those fields -/
theorem fields_exist_and_are_unique (e : Ep) (hd : e.dur.Canon) (hr : Cal.InCal e.dur.val) :
    (∃ F, Spec.Efmt.IsFields e.ts.name e.dur.val F) ∧
    (∀ F G, Spec.Efmt.IsFields e.ts.name e.dur.val F → Spec.Efmt.IsFields e.ts.name e.dur.val G → F = G) ∧
    (∀ F, Spec.Efmt.fieldsOf e.ts.name e.dur.val = some F → Spec.Efmt.IsFields e.ts.name e.dur.val F) := by
  obtain ⟨y, mo, dd, h, mi, s, ns, doy, _, _, hF⟩ := model_fields_spec e hd hr
  exact ⟨⟨_, hF⟩, fun F G hF hG => isFields_unique _ _ F G hF hG, fun F h => fieldsOf_sound _ _ F h⟩

/-- what is printed is the Gregorian representation of the epoch IN ITS OWN SCALE, the weekday is the
    weekday of THAT date (repaired defect D22w), the day of year its ordinal (repaired defect D23) -/
theorem printed_fields_are_the_epochs_fields (e : Ep) (hd : e.dur.Canon) (hr : Cal.InCal e.dur.val) :
    ∃ y mo dd h mi s ns doy, Cal.computeGregorian e.dur e.ts = .ok (y, mo, dd, h, mi, s, ns) ∧
      dayOfYearInt e = .ok doy ∧
      Spec.Efmt.IsFields e.ts.name e.dur.val ⟨y, mo, dd, h, mi, s, ns, weekdayOfDate e, doy, e.ts.name⟩ :=
  model_fields_spec e hd hr

/-! ### optional tokens; the ISO 8601 formatter and the default Display -/

/-- `ISO8601_FLEX` ("%Y-%m-%dT%H:%M:%S.%f? %T?"): the optional sub-seconds are left out, with the `.`
    before them, when they are zero; the optional time scale is left out, with the space before it,
    when it is UTC — for every epoch -/
theorem optional_tokens_of_iso8601_flex (O : Oracles) (e : Ep) (y mo d h mi s ns : Int)
    (hg : Cal.computeGregorian e.dur e.ts = .ok (y, mo, d, h, mi, s, ns)) :
    constByName? "ISO8601_FLEX" = some iso8601Flex ∧
    formatterOutput O iso8601Flex e none =
      .ok (Cal.fmtInt 4 y ++ [45] ++ Cal.fmtInt 2 mo ++ [45] ++ Cal.fmtInt 2 d ++ [84] ++ Cal.fmtInt 2 h ++ [58]
        ++ Cal.fmtInt 2 mi ++ [58] ++ Cal.fmtInt 2 s ++ (if ns > 0 then [46] ++ Cal.fmtInt 9 ns else [])
        ++ (if e.ts ≠ TS.UTC then [32] ++ Cal.strCodes e.ts.name else [])) :=
  ⟨iso8601Flex_is_const, iso8601Flex_output O e y mo d h mi s ns hg⟩

/-- `RFC3339_FLEX` ("%Y-%m-%dT%H:%M:%S.%f?%z"): the optional sub-seconds are left out with their `.` when zero,
    the offset follows directly — for every epoch and offset -/
theorem optional_token_of_rfc3339_flex (O : Oracles) (e : Ep) (off : Dur) (y mo d h mi s ns : Int) (zt : List Nat)
    (hg : Cal.computeGregorian e.dur e.ts = .ok (y, mo, d, h, mi, s, ns)) (hz : offsetText off = .ok zt) :
    constByName? "RFC3339_FLEX" = some rfc3339Flex ∧
    formatterFmt O rfc3339Flex e off =
      .ok (Cal.fmtInt 4 y ++ [45] ++ Cal.fmtInt 2 mo ++ [45] ++ Cal.fmtInt 2 d ++ [84] ++ Cal.fmtInt 2 h ++ [58]
        ++ Cal.fmtInt 2 mi ++ [58] ++ Cal.fmtInt 2 s ++ (if ns > 0 then [46] ++ Cal.fmtInt 9 ns else []) ++ zt) :=
  ⟨rfc3339Flex_is_const, rfc3339Flex_output O e off y mo d h mi s ns zt hg hz⟩

/-- `Epoch::to_isoformat` (`Formatter::new(e, ISO8601_STD)` cut after 26 bytes): for every canonical epoch in
    range, in any scale, with year 0000–9999 it is `YYYY-MM-DDTHH:MM:SS.ffffff` of THE fields of the epoch in its
    own scale — six sub-second digits, truncated, never a panic of the byte slice -/
theorem to_isoformat_spec (O : Oracles) (e : Ep) (F : Spec.Efmt.Fields) (hd : e.dur.Canon) (hr : Cal.InCal e.dur.val)
    (hF : Spec.Efmt.IsFields e.ts.name e.dur.val F) (hy : 0 ≤ F.y ∧ F.y ≤ 9999) :
    constByName? "ISO8601_STD" = some iso8601Std ∧
    ∃ text, toIsoformat O iso8601Std e = .ok text ∧ Spec.Efmt.isoformatText F = some text :=
  ⟨iso8601Std_is_const, toIsoformat_spec O e F hd hr hF hy⟩

/-
  FULL statement of the property's clause (quoted):

    def iso8601_equals_display_full : Prop :=
      ∀ O e, formatterOutput O iso8601 e none = Cal.display e.dur e.ts

  It is FALSE on the current tree (recorded finding D22i, pinned both ways by the suite): `ISO8601`
  always prints nine sub-second digits, `Display` prints none when they are zero.
-/

/-- PARTIAL (D22i): `Formatter::new(e, ISO8601)` prints exactly the default Display of `e` whenever the
    nanoseconds of `e` within the second are not zero — every epoch, every scale -/
theorem iso8601_equals_display_partial (O : Oracles) (e : Ep) (y mo d h mi s ns : Int)
    (hg : Cal.computeGregorian e.dur e.ts = .ok (y, mo, d, h, mi, s, ns)) (hns : ns ≠ 0) :
    constByName? "ISO8601" = some iso8601 ∧
    formatterOutput O iso8601 e none = Cal.display e.dur e.ts := by
  refine ⟨iso8601_is_const, ?_⟩
  rw [iso8601_output O e y mo d h mi s ns hg]
  unfold Cal.display Cal.renderFields
  rw [hg]
  simp [hns, List.append_assoc]

/-- the hypotheses are satisfiable: 1900-01-01T00:00:00.000000037 TAI -/
example : (match Cal.computeGregorian ⟨0, 37⟩ .TAI with | .ok f => decide (f = (1900, 1, 1, 0, 0, 0, 37)) | _ => false) = true := by
  decide +kernel

/-- the counterexample of the full statement: 1900-01-01T00:00:00 TAI -/
theorem iso8601_equals_display_counterexample :
    formatterOutput ⟨fun _ => none, fun _ => []⟩ iso8601 ⟨⟨0, 0⟩, .TAI⟩ none ≠ Cal.display ⟨0, 0⟩ .TAI := by
  decide +kernel

/-! ### parse back -/

/-
  FULL statement of the clause (quoted): for UTC epochs, parsing the output of a format without
  optional tokens that contains the full date and time, with that same format, returns the epoch:

    def parse_back_full : Prop :=
      ∀ O (s : List Nat) items f (e : Ep) text, Spec.Efmt.readFormat s = some items →
        Spec.Efmt.backDomain items = true → formatFromStr s = .ok f → e.ts = TS.UTC → (year of e in 1..9999) →
        formatterOutput O f e none = .ok text → formatParse O f text = .ok e

  It is FALSE on the current tree: recorded finding D25 (classes of formats the separator-driven
  tokenizer of `Format::parse` cannot read back; `Drive/Efmt.backOk` is the complement, see
  INTEGRATION.md).  Proved: the numeric class `numClass` below; decided counterexamples for the
  recorded classes.
-/

/-- PARTIAL (D25): parse-back on the NUMERIC class.  For every format of the class `numClass` — 1 to 16
    items, each one of `%Y %m %d %H %M %S %f` (any order, repetitions allowed, all seven present, none
    optional), every item but the last followed by one or two non-numeric ASCII separators — and EVERY
    canonical UTC epoch in range whose year is 0000–9999: `Formatter::new(e, f)` prints a text which
    `f.parse` reads back as exactly `e` (same centuries, same nanoseconds, UTC). -/
theorem parse_back_partial (O : Oracles) (f : Format) (e : Ep) (hc : numClass f = true) (hutc : e.ts = TS.UTC)
    (hd : e.dur.Canon) (hr : Cal.InCal e.dur.val)
    (hy : ∀ y mo dd h mi s ns, Cal.computeGregorian e.dur e.ts = .ok (y, mo, dd, h, mi, s, ns) → 0 ≤ y ∧ y ≤ 9999) :
    ∃ text, formatterOutput O f e none = .ok text ∧ formatParse O f text = .ok e :=
  parse_back_numClass O f e hc hutc hd hr hy

/-- PARTIAL (D25): the same with a final `%T` — formats of the class `numTClass` (numeric items as above,
    then a non-optional `%T`; the numeric item before it has exactly one separator) — for epochs in ANY of
    the nine time scales (beyond the letter of the clause: the final `%T` is read since fix D39, so the text
    determines the epoch and the result is the epoch itself, same scale) -/
theorem parse_back_with_time_scale_partial (O : Oracles) (f : Format) (e : Ep) (hc : numTClass f = true)
    (hd : e.dur.Canon) (hr : Cal.InCal e.dur.val)
    (hy : ∀ y mo dd h mi s ns, Cal.computeGregorian e.dur e.ts = .ok (y, mo, dd, h, mi, s, ns) → 0 ≤ y ∧ y ≤ 9999) :
    ∃ text, formatterOutput O f e none = .ok text ∧ formatParse O f text = .ok e :=
  parse_back_numTClass O f e hc hd hr hy

/-- in particular the predefined `ISO8601` (the default text form) parses back for EVERY canonical epoch in
    range with year 0000–9999 IN ANY TIME SCALE, and `ISO8601_STD` for every such UTC epoch -/
theorem iso8601_parses_back (O : Oracles) (e : Ep) (hd : e.dur.Canon) (hr : Cal.InCal e.dur.val)
    (hy : ∀ y mo dd h mi s ns, Cal.computeGregorian e.dur e.ts = .ok (y, mo, dd, h, mi, s, ns) → 0 ≤ y ∧ y ≤ 9999) :
    (∃ f text, constByName? "ISO8601" = some f ∧ formatterOutput O f e none = .ok text ∧ formatParse O f text = .ok e) ∧
    (e.ts = TS.UTC →
      ∃ f text, constByName? "ISO8601_STD" = some f ∧ formatterOutput O f e none = .ok text ∧ formatParse O f text = .ok e) := by
  have h1 : ∃ f, constByName? "ISO8601" = some f ∧ numTClass f = true := by decide +kernel
  have h2 : ∃ f, constByName? "ISO8601_STD" = some f ∧ numClass f = true := by decide +kernel
  obtain ⟨f1, hf1, hc1⟩ := h1
  obtain ⟨f2, hf2, hc2⟩ := h2
  obtain ⟨t1, ht1⟩ := parse_back_numTClass O f1 e hc1 hd hr hy
  refine ⟨⟨f1, t1, hf1, ht1⟩, fun hutc => ?_⟩
  obtain ⟨t2, ht2⟩ := parse_back_numClass O f2 e hc2 hutc hd hr hy
  exact ⟨f2, t2, hf2, ht2⟩

/-- PARTIAL (D25): parse back WITH A TIME-ZONE OFFSET — formats of the class `numZClass` (numeric items with
    separators, a last numeric item without separator, a final non-optional `%z`: the layout of RFC 3339), any
    canonical UTC epoch in range, any canonical offset of whole minutes in −23:59..+23:59 (the shifted epoch
    in range with year 0000–9999): `Formatter::with_timezone(e, off, f)` prints local time and offset, and
    `f.parse` of that text is exactly `e` (repaired defect D25z: the offset is read and undone). -/
theorem parse_back_with_offset_partial (O : Oracles) (f : Format) (e : Ep) (off : Dur) (hc : numZClass f = true)
    (hutc : e.ts = TS.UTC) (hd : e.dur.Canon) (hre : Cal.InCal e.dur.val)
    (hoc : off.Canon) (hom : off.val % 60000000000 = 0) (hor : -86400000000000 < off.val ∧ off.val < 86400000000000)
    (hr : Cal.InCal (e.add off).dur.val)
    (hy : ∀ y mo dd h mi s ns, Cal.computeGregorian (e.add off).dur e.ts = .ok (y, mo, dd, h, mi, s, ns) → 0 ≤ y ∧ y ≤ 9999) :
    ∃ text, formatterOutput O f e (some off) = .ok text ∧ formatParse O f text = .ok e :=
  parse_back_numZClass O f e off hc hutc hd hre hoc hom hor hr hy

/-- in particular the predefined `RFC3339` parses back for every such epoch and EVERY offset −23:59..+23:59 -/
theorem rfc3339_parses_back (O : Oracles) (e : Ep) (off : Dur)
    (hutc : e.ts = TS.UTC) (hd : e.dur.Canon) (hre : Cal.InCal e.dur.val)
    (hoc : off.Canon) (hom : off.val % 60000000000 = 0) (hor : -86400000000000 < off.val ∧ off.val < 86400000000000)
    (hr : Cal.InCal (e.add off).dur.val)
    (hy : ∀ y mo dd h mi s ns, Cal.computeGregorian (e.add off).dur e.ts = .ok (y, mo, dd, h, mi, s, ns) → 0 ≤ y ∧ y ≤ 9999) :
    ∃ f text, constByName? "RFC3339" = some f ∧ formatterOutput O f e (some off) = .ok text ∧
      formatParse O f text = .ok e := by
  have h1 : ∃ f, constByName? "RFC3339" = some f ∧ numZClass f = true := by decide +kernel
  obtain ⟨f, hf, hc⟩ := h1
  obtain ⟨t, ht⟩ := parse_back_numZClass O f e off hc hutc hd hre hoc hom hor hr hy
  exact ⟨f, t, hf, ht⟩

def fmtOf (s : String) : Format := match formatFromStr (Cal.strCodes s) with | .ok f => f | _ => ⟨[]⟩
def O0 : Oracles := ⟨fun _ => none, fun _ => []⟩
def backOf (s : String) (e : Ep) : Res Ep :=
  match formatterOutput O0 (fmtOf s) e none with
  | .ok t => formatParse O0 (fmtOf s) t
  | .err => .err
  | .panic => .panic

/-- the class is inhabited by non-trivial formats (ISO 8601 without scale, a day-first format with two
    separators, `Z` as a separator, the sub-seconds first) -/
example : numClass (fmtOf "%Y-%m-%dT%H:%M:%S.%f") = true ∧ numClass (fmtOf "%d/%m/%Y, %H:%M:%S.%f") = true ∧
    numClass (fmtOf "%Y-%m-%dZ%H:%M:%S.%f") = true ∧ numClass (fmtOf "%f|%S;%M;%H %d.%m.%Y") = true := by
  decide +kernel

/-- … and the theorem's conclusion on a concrete epoch, through the whole model: 1900-01-02T00:00:00.000000037 UTC -/
example : backOf "%d/%m/%Y, %H:%M:%S.%f" ⟨⟨0, 86400000000037⟩, .UTC⟩ = .ok ⟨⟨0, 86400000000037⟩, .UTC⟩ := by
  decide +kernel

/-- counterexamples of the full statement, one per recorded class of D25 (all formats are plain
    full-date formats of the property; epoch 1900-01-02T00:00:00.000000037 UTC, a Tuesday):
    (a) numeric tokens without separator; (b) `%T` not last; (d) a name token whose separator letter
    occurs in the name (`%AT`, "Tuesday"); (d') a non-white second separator before a name token.
    (The former class (f), a month name in last place, is repaired: D39.) -/
theorem parse_back_counterexamples :
    backOf "%Y%m%d%H%M%S%f" ⟨⟨0, 86400000000037⟩, .UTC⟩ ≠ .ok ⟨⟨0, 86400000000037⟩, .UTC⟩ ∧
    backOf "%Y-%m-%d %T %H:%M:%S.%f" ⟨⟨0, 86400000000037⟩, .UTC⟩ ≠ .ok ⟨⟨0, 86400000000037⟩, .UTC⟩ ∧
    backOf "%AT%Y-%m-%d %H:%M:%S.%f" ⟨⟨0, 86400000000037⟩, .UTC⟩ ≠ .ok ⟨⟨0, 86400000000037⟩, .UTC⟩ ∧
    backOf "%Y-%m-%d,;%A %H:%M:%S.%f" ⟨⟨0, 86400000000037⟩, .UTC⟩ ≠ .ok ⟨⟨0, 86400000000037⟩, .UTC⟩ := by
  decide +kernel

/-- the offset theorem on a concrete case through the whole model: 1900-01-02T00:00:00.000000037 UTC printed
    at −05:30 (`1900-01-01T18:30:00.000000037-05:30`) parses back -/
example : (match formatterOutput O0 (fmtOf "%Y-%m-%dT%H:%M:%S.%f%z") ⟨⟨0, 86400000000037⟩, .UTC⟩ (some ⟨-1, 3155740200000000000⟩) with
    | .ok t => formatParse O0 (fmtOf "%Y-%m-%dT%H:%M:%S.%f%z") t
    | _ => .err) = .ok ⟨⟨0, 86400000000037⟩, .UTC⟩ := by decide +kernel

/-- … while formats outside `numClass` but inside `backOk` do parse back on that epoch (names with
    harmless separators, `%j`, a final `%T`, `%z`): exercised on every run by the correspondence check -/
example : backOf "%A, %d %B %Y %H:%M:%S.%f" ⟨⟨0, 86400000000037⟩, .UTC⟩ = .ok ⟨⟨0, 86400000000037⟩, .UTC⟩ ∧
    backOf "%Y-%j %H:%M:%S.%f %T" ⟨⟨0, 86400000000037⟩, .UTC⟩ = .ok ⟨⟨0, 86400000000037⟩, .UTC⟩ ∧
    backOf "%Y-%m-%dT%H:%M:%S.%f%z" ⟨⟨0, 86400000000037⟩, .UTC⟩ = .ok ⟨⟨0, 86400000000037⟩, .UTC⟩ ∧
    -- repaired by D39: a final month name, a final weekday after a number without separator, a final `%T` in TAI
    backOf "%Y %d %H:%M:%S.%f %B" ⟨⟨0, 86400000000037⟩, .UTC⟩ = .ok ⟨⟨0, 86400000000037⟩, .UTC⟩ ∧
    backOf "%Y-%m-%d %H:%M:%S.%f%a" ⟨⟨0, 86400000000037⟩, .UTC⟩ = .ok ⟨⟨0, 86400000000037⟩, .UTC⟩ ∧
    backOf "%Y-%m-%dT%H:%M:%S.%f %T" ⟨⟨0, 86400000000037⟩, .TAI⟩ = .ok ⟨⟨0, 86400000000037⟩, .TAI⟩ := by
  decide +kernel

end Hifi.C19
