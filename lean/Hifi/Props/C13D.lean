import Hifi.Props.C13Duration
/-
  Pseudo-property C13D: lets `./check C13D quick` run the `Duration::from_str` totality stream on
  its own.  The lead merges the stream and the theorems of `Props/C13Duration.lean` into C13; this
  file can then be deleted.
-/
namespace Hifi.C13D
open Hifi Hifi.DurText

theorem duration_from_str_never_panics (s : List Nat) : parseDurationIdx s ≠ .panic :=
  Hifi.C13Duration.from_str_never_panics s

theorem duration_from_str_total (s : List Nat) :
    parseDurationIdx s = .err ∨ ∃ r, parseDurationIdx s = .ok r ∧ r.Canon :=
  Hifi.C13Duration.from_str_total s

end Hifi.C13D
