import Hifi.Model.DurText
import Hifi.Model.Epoch
/-
  `LeapSecondsFile::from_path` (src/epoch/leap_seconds_file.rs): the line grammar of an IERS
  leap-seconds.list, on the file's content as a list of code points.  Import-free.

  External contract assumed (measured with the harness): `lexical_core::parse::<u64>` / `::<u8>`
  accept an optional '+', then at least one ASCII digit (leading zeros allowed), the whole input must be
  consumed, and the value must fit the type; `str::lines` splits at '\n' and strips one trailing '\r';
  `split_whitespace` splits at `char::is_whitespace` (table dumped from the linked std).
-/
namespace Hifi.LeapFile
open Hifi Hifi.DurText

def stripCR (l : List Nat) : List Nat := if l.getLast? = some 13 then l.dropLast else l

/-- `str::lines()` (first argument: rest of the text; second: the current line so far) -/
def linesGo : List Nat → List Nat → List (List Nat)
  | [], cur => if cur = [] then [] else [stripCR cur]
  | c :: rest, cur => if c = 10 then stripCR cur :: linesGo rest [] else linesGo rest (cur ++ [c])

/-- `str::split_whitespace()` -/
def wordsGo : List Nat → List Nat → List (List Nat)
  | [], cur => if cur = [] then [] else [cur]
  | c :: rest, cur =>
    if isWs c then (if cur = [] then wordsGo rest [] else cur :: wordsGo rest [])
    else wordsGo rest (cur ++ [c])

/-- `lexical_core::parse::<uN>` with maximum `max` -/
def parseUnsigned (max : Nat) (w : List Nat) : Option Nat :=
  let ds := match w with | 43 :: r => r | _ => w
  if ds ≠ [] ∧ allDigits ds = true ∧ valDigits ds 0 ≤ max then some (valDigits ds 0) else none

/-- one line: `none` = skipped (empty or comment) -/
def parseLine (l : List Nat) : Res (Option (Nat × Nat)) :=
  match l with
  | [] => .ok none
  | c :: _ =>
    if c = 35 then .ok none
    else match wordsGo l [] with
      | a :: b :: _ =>
        (match parseUnsigned 18446744073709551615 a, parseUnsigned 255 b with
         | some t, some o => .ok (some (t, o))
         | _, _ => .err)
      | _ => .err

def parseLines : List (List Nat) → Res (List (Nat × Nat))
  | [] => .ok []
  | l :: rest =>
    match parseLine l with
    | .ok none => parseLines rest
    | .ok (some e) => (match parseLines rest with | .ok es => .ok (e :: es) | .err => .err | .panic => .panic)
    | .err => .err
    | .panic => .panic

/-- the provider's data: (time stamp, ΔAT) pairs in file order -/
def parseFile (s : List Nat) : Res (List (Nat × Nat)) := parseLines (linesGo s [])

/-- IERS-format rendering of a table (a comment header, then `ts<TAB>off<TAB># x` lines) -/
def renderLine (e : Nat × Nat) : List Nat := decDigits e.1 ++ [9] ++ decDigits e.2 ++ [9, 35, 32, 120]

def renderBody : List (Nat × Nat) → List Nat
  | [] => []
  | e :: rest => renderLine e ++ [10] ++ renderBody rest

def header : List Nat := [35, 32, 103, 10, 35, 36, 32, 49, 10]   -- "# g\n#$ 1\n"

def renderFile (tbl : List (Nat × Nat)) : List Nat := header ++ renderBody tbl

end Hifi.LeapFile
