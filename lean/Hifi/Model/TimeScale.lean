/-
  `hifitime::TimeScale` (src/timescale/mod.rs).  Import-free.
-/
namespace Hifi

inductive TS where
  | TAI | TT | ET | TDB | UTC | GPST | GST | BDT | QZSST
deriving DecidableEq, Repr, Inhabited

namespace TS

def all : List TS := [TAI, TT, ET, TDB, UTC, GPST, GST, BDT, QZSST]

/-- protocol / `Display` name -/
def name : TS → String
  | TAI => "TAI" | TT => "TT" | ET => "ET" | TDB => "TDB" | UTC => "UTC"
  | GPST => "GPST" | GST => "GST" | BDT => "BDT" | QZSST => "QZSST"

def ofString? : String → Option TS
  | "TAI" => some TAI | "TT" => some TT | "ET" => some ET | "TDB" => some TDB | "UTC" => some UTC
  | "GPST" => some GPST | "GST" => some GST | "BDT" => some BDT | "QZSST" => some QZSST
  | _ => none

/-- `TimeScale::uses_leap_seconds` -/
def usesLeapSeconds : TS → Bool
  | UTC => true
  | _ => false

/-- `TimeScale::is_gnss` -/
def isGnss : TS → Bool
  | GPST | GST | BDT | QZSST => true
  | _ => false

/-- the uniform atomic scales of property C05 -/
def isUniform : TS → Bool
  | TAI | TT | GPST | GST | BDT | QZSST => true
  | _ => false

end TS
end Hifi
