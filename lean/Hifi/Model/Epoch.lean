import Hifi.Model.Duration
import Hifi.Model.TimeScale
import Hifi.Model.Calendar
import Hifi.Gen.Leap
import Hifi.Gen.Epoch
/-
  Executable model of `hifitime::Epoch` for the seven non-dynamical time scales
  (src/epoch/mod.rs `to_time_scale`, `leap_seconds_with`; src/epoch/ops.rs; src/epoch/initializers.rs;
  src/timeseries.rs; src/weekday.rs).  ET/TDB go through `f64::sin` and are modelled separately
  (Model/Dynamical.lean); here they yield `none`.

  f64 values that occur here are integer-valued (leap second time stamps and IERS offsets) and
  their products with 1e9 are exactly representable (checked when the tables are generated), so
  `x * Unit::Second` is modelled as the exact integer product.
-/
namespace Hifi

structure Ep where
  dur : Dur
  ts : TS
deriving DecidableEq, Repr, Inhabited

/-- a leap second table entry: (time stamp s, ΔAT ns, announced_by_iers, ΔAT f64 bits) -/
abbrev LeapEntry := Int × Int × Bool × String

namespace LeapEntry
def ts (e : LeapEntry) : Int := e.1
def dns (e : LeapEntry) : Int := e.2.1
def iers (e : LeapEntry) : Bool := e.2.2.1
def bits (e : LeapEntry) : String := e.2.2.2
end LeapEntry

/-- `x * Unit::Second` / `x.seconds()` for an f64 `x` whose product with 1e9 is the exact integer `ns`
    (|ns| < i64::MAX): `Duration::from_truncated_nanoseconds(ns as i64)`. -/
def nsDur (ns : Int) : Dur := Dur.fromTruncated ns

/-- `Epoch::leap_seconds_with`, scanning the provider in reverse: first entry (from the end) whose
    time stamp is ≤ the TAI duration and that passes the IERS filter.  Argument: the reversed table. -/
def leapLookup (tai : Dur) (iersOnly : Bool) : List LeapEntry → Option LeapEntry
  | [] => none
  | e :: rest =>
    if Dur.cmp tai (nsDur (e.ts * 1000000000)) ≠ -1 ∧ (iersOnly = false ∨ e.iers = true) then some e
    else leapLookup tai iersOnly rest

/-- `leap_seconds(true).unwrap_or(0.0).seconds()` -/
def leapDur (tai : Dur) (tbl : List LeapEntry) : Dur :=
  match leapLookup tai true tbl.reverse with
  | some e => nsDur e.dns
  | none => nsDur 0

/-- TAI → UTC arm of `to_time_scale` (reverse scan of the IERS entries with a peek at the previous
    one: entry k is in force once TAI ≥ tsₖ + ΔATₖ₋₁).  Argument: reversed, IERS-filtered table. -/
def headDns : List LeapEntry → Int
  | [] => 0
  | x :: _ => x.dns

def taiToUtcGo (p : Dur) : List LeapEntry → Dur
  | [] => p
  | e :: rest =>
    -- `iter.peek().map_or(0.0, |prev| prev.delta_at)`
    if Dur.cmp p (nsDur (e.ts * 1000000000 + headDns rest)) ≠ -1
    then Dur.sub p (nsDur e.dns)
    else taiToUtcGo p rest

def taiToUtc (p : Dur) (tbl : List LeapEntry) : Dur :=
  taiToUtcGo p ((tbl.filter LeapEntry.iers).reverse)

/-- `X_REF_EPOCH.to_tai_duration()` for the GNSS scales (the constants are TAI epochs) -/
def refTai : TS → Dur
  | .GPST => ⟨Gen.GPST_REF_EPOCH_C, Gen.GPST_REF_EPOCH_NS⟩
  | .QZSST => ⟨Gen.QZSST_REF_EPOCH_C, Gen.QZSST_REF_EPOCH_NS⟩
  | .GST => ⟨Gen.GST_REF_EPOCH_C, Gen.GST_REF_EPOCH_NS⟩
  | .BDT => ⟨Gen.BDT_REF_EPOCH_C, Gen.BDT_REF_EPOCH_NS⟩
  | _ => Dur.ZERO

/-- `TT_OFFSET_MS.milliseconds()` -/
def ttOffset : Dur := Dur.unitMulI64 Gen.NANOSECONDS_PER_MILLISECOND Gen.TT_OFFSET_MS

/-- first half of `to_time_scale`: the duration past the TAI prime epoch (`none`: ET/TDB) -/
def toTaiDur (tbl : List LeapEntry) (d : Dur) : TS → Option Dur
  | .TAI => some d
  | .TT => some (Dur.sub d ttOffset)
  | .UTC => some (Dur.add d (leapDur d tbl))
  | .GPST => some (Dur.add d (refTai .GPST))
  | .GST => some (Dur.add d (refTai .GST))
  | .BDT => some (Dur.add d (refTai .BDT))
  | .QZSST => some (Dur.add d (refTai .QZSST))
  | .ET | .TDB => none

/-- second half of `to_time_scale`: from the TAI duration to the target scale -/
def fromTaiDur (tbl : List LeapEntry) (p : Dur) : TS → Option Dur
  | .TAI => some p
  | .TT => some (Dur.add p ttOffset)
  | .UTC => some (taiToUtc p tbl)
  | .GPST => some (Dur.sub p (refTai .GPST))
  | .GST => some (Dur.sub p (refTai .GST))
  | .BDT => some (Dur.sub p (refTai .BDT))
  | .QZSST => some (Dur.sub p (refTai .QZSST))
  | .ET | .TDB => none

/-- `Epoch::to_time_scale` -/
def toTimeScale (tbl : List LeapEntry) (e : Ep) (ts : TS) : Option Ep :=
  if ts = e.ts then some e
  else match toTaiDur tbl e.dur e.ts with
    | none => none
    | some p => match fromTaiDur tbl p ts with
      | none => none
      | some d => some ⟨d, ts⟩

/-- the built-in provider -/
def builtin : List LeapEntry := Gen.LEAP_BUILTIN

def Ep.to (e : Ep) (ts : TS) : Option Ep := toTimeScale builtin e ts

/-- `Epoch::leap_seconds_with(iers_only, provider)` → the table entry found -/
def leapSecondsWith (tbl : List LeapEntry) (e : Ep) (iersOnly : Bool) : Option (Option LeapEntry) :=
  match toTimeScale builtin e .TAI with
  | none => none
  | some t => some (leapLookup t.dur iersOnly tbl.reverse)

/-- `Epoch + Duration`, `Epoch - Duration` (also `+=`, `-=`, `± Unit` through `unit * 1`) -/
def Ep.add (e : Ep) (d : Dur) : Ep := ⟨Dur.add e.dur d, e.ts⟩
def Ep.subD (e : Ep) (d : Dur) : Ep := ⟨Dur.sub e.dur d, e.ts⟩

/-- `seconds as i64` for an integer-valued double of value `k` (saturating cast) -/
def satI64 (k : Int) : Int :=
  if k > 9223372036854775807 then 9223372036854775807 else if k < -9223372036854775808 then -9223372036854775808 else k

/-- `Epoch + f64` for an integer-valued double of value `k` (`seconds.trunc() == seconds` arm):
    `self.duration + (seconds as i64) * Unit::Second` -/
def Ep.addWholeSeconds (e : Ep) (k : Int) : Ep := ⟨Dur.add e.dur (Dur.unitMulI64 Gen.NANOSECONDS_PER_SECOND (satI64 k)), e.ts⟩

/-- `Epoch::floor` / `ceil` / `round` (src/epoch/ops.rs): `Self::from_duration(self.duration.floor(step), self.time_scale)`
    — the `Duration` operation on the elapsed time in the epoch's OWN scale, the scale kept; all nine scales -/
def Ep.floor (e : Ep) (s : Dur) : Ep := ⟨Dur.floor e.dur s, e.ts⟩
def Ep.ceil (e : Ep) (s : Dur) : Res Ep :=
  match Dur.ceil e.dur s with
  | .ok r => .ok ⟨r, e.ts⟩
  | .err => .err
  | .panic => .panic
def Ep.round (e : Ep) (s : Dur) : Res Ep :=
  match Dur.round e.dur s with
  | .ok r => .ok ⟨r, e.ts⟩
  | .err => .err
  | .panic => .panic

/-- `Epoch - Epoch` -/
def Ep.diff (a b : Ep) : Option Dur :=
  match b.to a.ts with
  | none => none
  | some b' => some (Dur.sub a.dur b'.dur)

/-- `impl PartialEq for Epoch` (total order of durations; UTC operand converted toward the other scale) -/
def Ep.eqb (a b : Ep) : Option Bool :=
  if a.ts = b.ts then some (decide (Dur.cmp a.dur b.dur = 0))
  else if a.ts.usesLeapSeconds ≠ b.ts.usesLeapSeconds then
    if a.ts.usesLeapSeconds then
      match a.to b.ts with
      | none => none
      | some a' => some (decide (Dur.cmp a'.dur b.dur = 0))
    else
      match b.to a.ts with
      | none => none
      | some b' => some (decide (Dur.cmp a.dur b'.dur = 0))
  else
    match b.to a.ts with
    | none => none
    | some b' => some (decide (Dur.cmp a.dur b'.dur = 0))

/-- `impl Ord for Epoch` -/
def Ep.cmp (a b : Ep) : Option Int :=
  if a.ts.usesLeapSeconds ∧ ¬ b.ts.usesLeapSeconds then
    match a.to b.ts with
    | none => none
    | some a' => some (Dur.cmp a'.dur b.dur)
  else
    match b.to a.ts with
    | none => none
    | some b' => some (Dur.cmp a.dur b'.dur)

/-- `Epoch::min` / `max` -/
def Ep.min (a b : Ep) : Option Ep := match Ep.cmp a b with | none => none | some c => some (if c = -1 then a else b)
def Ep.max (a b : Ep) : Option Ep := match Ep.cmp a b with | none => none | some c => some (if c = 1 then a else b)

/-! ### weekdays (src/weekday.rs, src/epoch/ops.rs) — weekdays are 0 = Monday … 6 = Sunday -/

/-- `Weekday::from(u8)` -/
def wdFromU8 (u : Int) : Int := u % 7
/-- `Weekday::from(i8)`: `(i.rem_euclid(7) + 7) as u8` then `from(u8)`; the i8 sum cannot overflow -/
def wdFromI8 (i : Int) : Int := wdFromU8 (i % 7 + 7)
/-- `Weekday + Weekday`, u8 addition ≤ 12 -/
def wdAdd (a b : Int) : Int := wdFromU8 (a + b)
/-- `Weekday + u8`; `panic` if the u8 addition overflows (it cannot: ≤ 6 + 6) -/
def wdAddU8 (a u : Int) : Res Int := if a + u % 7 > 255 then .panic else .ok (wdFromU8 (a + u % 7))
/-- `Weekday - u8`; i8 arithmetic -/
def wdSubU8 (a u : Int) : Res Int :=
  if a - u % 7 < -128 then .panic else .ok (wdFromI8 (a - u % 7))
/-- `Weekday - Weekday` → Duration (days from self to the next rhs) -/
def wdDiff (a b : Int) : Dur :=
  Dur.unitMulI64 Gen.NANOSECONDS_PER_DAY ((if b - a < 0 then b + 7 else b) - a)

/-- `Epoch::weekday_in_time_scale`: integer day count from the parts -/
def weekdayOfDur (d : Dur) : Int :=
  (d.c * Gen.DAYS_PER_CENTURY_I64 + d.ns / Gen.NANOSECONDS_PER_DAY) % 7

/-- the day count of the re-expressed epoch taken from that scale's own zero — what `weekday_in_time_scale` did
    before fix 151cc8f; it is still the code's answer for TAI, UTC and TT, whose calendar offset is zero
    (`C16.weekday_civil_eq_count`), and the theorems about those three scales are stated with it -/
def Ep.weekdayIn (e : Ep) (ts : TS) : Option Int :=
  match e.to ts with
  | none => none
  | some x => some (weekdayOfDur x.dur)

/-- `Epoch::weekday_in_time_scale` (since fix 151cc8f): whole days since 1900-01-01, a Monday, on the calendar of
    the target scale: `(to_duration_in_time_scale(ts) + ts.gregorian_epoch_offset()).to_parts()` -/
def Ep.weekdayInCivil (e : Ep) (ts : TS) : Option Int :=
  match e.to ts with
  | none => none
  | some x => some (weekdayOfDur (Dur.add x.dur (Cal.gregorianEpochOffset ts)))

/-- `Epoch::weekday_of_gregorian_date`: weekday of the date in the epoch's own scale -/
def Ep.weekdayOwn (e : Ep) : Int := weekdayOfDur (Dur.add e.dur (Cal.gregorianEpochOffset e.ts))

/-- `Epoch::next(weekday)` (since fix 2e58fb7): the weekday is that of the calendar date in the epoch's OWN scale,
    the one in whose count the whole days are then added -/
def Ep.nextOwn (e : Ep) (w : Int) : Ep :=
  let delta := wdDiff e.weekdayOwn w
  ⟨Dur.add e.dur (if Dur.eqb delta Dur.ZERO then Dur.unitMulI64 Gen.NANOSECONDS_PER_DAY 7 else delta), e.ts⟩

/-- `Epoch::previous(weekday)` -/
def Ep.previousOwn (e : Ep) (w : Int) : Ep :=
  let delta := wdDiff w e.weekdayOwn
  ⟨Dur.sub e.dur (if Dur.eqb delta Dur.ZERO then Dur.unitMulI64 Gen.NANOSECONDS_PER_DAY 7 else delta), e.ts⟩

def Ep.next (e : Ep) (w : Int) : Option Ep := some (e.nextOwn w)
def Ep.previous (e : Ep) (w : Int) : Option Ep := some (e.previousOwn w)

/-- arithmetic fallback of `with_hms_strict` (taken only if the calendar date cannot be rebuilt): for a negative duration
    the day that contains it starts at the whole days at or below it -/
def withHmsStrict (d : Dur) (h : Int) : Res Dur :=
  match Dur.decompose d with
  | .ok (sg, days, hh, mm, ss, ms, us, ns) =>
    if sg < 0 then
      match Dur.compose 0 days 0 0 0 0 0 0, Dur.compose 0 1 0 0 0 0 0 0, Dur.compose 0 0 h 0 0 0 0 0 with
      | .ok w, .ok one, .ok t =>
        (match Dur.neg w with
         | .ok whole =>
           let dayStart := if hh = 0 ∧ mm = 0 ∧ ss = 0 ∧ ms = 0 ∧ us = 0 ∧ ns = 0 then whole else Dur.sub whole one
           .ok (Dur.add dayStart t)
         | .err => .err | .panic => .panic)
      | _, _, _ => .panic
    else Dur.compose sg days h 0 0 0 0 0
  | .err => .err
  | .panic => .panic

/-- `Epoch::with_hms_strict(h, 0, 0)` (since fix 256c054): midnight of the calendar day that contains the epoch in
    its own scale (`compute_gregorian` then `maybe_from_gregorian(y, m, d, 0, 0, 0, 0, ts)`) plus the time -/
def withHmsStrictCal (d : Dur) (ts : TS) (h : Int) : Res Dur :=
  match Cal.computeGregorian d ts with
  | .ok (y, mo, dd, _, _, _, _) =>
    (match Cal.maybeFromGregorian y mo dd 0 0 0 0 ts with
     | .ok mid => (match Dur.compose 0 0 h 0 0 0 0 0 with
        | .ok t => .ok (Dur.add mid t) | .err => .err | .panic => .panic)
     | .err => withHmsStrict d h
     | .panic => .panic)
  | .err => .panic
  | .panic => .panic

/-! ### GNSS week / time of week, nanosecond counters (src/epoch/initializers.rs, ops.rs) -/

/-- `Epoch::from_time_of_week` (week : u32, nanoseconds : u64) -/
def fromTimeOfWeek (week ns : Int) : Dur :=
  Dur.fromTotal (ns + week * 7 * Gen.NANOSECONDS_PER_DAY)

/-- `Epoch::to_time_of_week`: i128 truncating divisions, then `as u32` / `as u64` (wrapping casts) -/
def toTimeOfWeek (d : Dur) : Int × Int :=
  let t := Dur.totalNs d
  let w := Int.tdiv (Int.tdiv t Gen.NANOSECONDS_PER_DAY) 7
  (w % 4294967296, (t - w * Gen.NANOSECONDS_PER_DAY * 7) % 18446744073709551616)

/-- `to_nanoseconds_in_time_scale` -/
def toNanosecondsIn (e : Ep) (ts : TS) : Option (Res Int) :=
  match e.to ts with
  | none => none
  | some x => some (if x.dur.c ≠ 0 then .err else .ok x.dur.ns)

/-! ### TimeSeries (src/timeseries.rs) -/

structure Series where
  start : Ep
  duration : Dur
  step : Dur
  cur : Int
  incl : Bool

/-- `Iterator::next`: (item, new state) -/
def Series.next (s : Series) : Option Ep × Series :=
  let off := Dur.mulI64 s.step s.cur
  if (s.incl = false ∧ Dur.cmp off s.duration ≠ -1) ∨ (s.incl = true ∧ Dur.cmp off s.duration = 1) then (none, s)
  else (some ⟨Dur.add s.start.dur off, s.start.ts⟩, { s with cur := s.cur + 1 })

/-- run the iterator for at most `fuel` items: (count, items) -/
def Series.run : Nat → Series → List Ep
  | 0, _ => []
  | n + 1, s => match s.next with
    | (none, _) => []
    | (some e, s') => e :: Series.run n s'

/-- run the iterator to exhaustion (at most `fuel` items) keeping only the count, the last item and whether
    every item was later than the one before (for series of millions of items) -/
def Series.runLast : Nat → Series → Nat → Option Ep → Bool → Nat × Option Ep × Bool
  | 0, _, n, last, ord => (n, last, ord)
  | f + 1, s, n, last, ord => match s.next with
    | (none, _) => (n, last, ord)
    | (some e, s') =>
      Series.runLast f s' (n + 1) (some e) (ord && (match last with | none => true | some l => Dur.cmp l.dur e.dur == -1))

end Hifi
