/-
  SoftF64: IEEE-754 binary64 over exact rationals.  Import-free (core Lean only), computable (the
  driver runs it and the correspondence check compares bit patterns with the hardware) and
  transparent to the kernel (no well-founded recursion, no opaque `Float`), so that
  `Hifi/Lemmas/SoftF64.lean` can prove `rnd_int`, `rnd_mono`, `rnd_rel_err` once and for all.

  A finite value is `fin s m e` = (-1)^s · m · 2^e in CANONICAL form:
      m < 2^53,  -1074 ≤ e ≤ 971,  (2^52 ≤ m  ∨  e = -1074)
  so that every double has exactly one representation (±0 is `fin s 0 (-1074)`) and derived
  equality is bit equality.  All NaNs are the single value `nan`.

  Every arithmetic operation is "exact rational result, then `rnd`", where
  `rnd : Rat → F64` is round-to-nearest, ties-to-even, to 53 bits with exponent range
  [-1074, 971] (of the integer mantissa) and overflow to ±inf.
-/
namespace Hifi

inductive F64 where
  | fin (s : Bool) (m : Nat) (e : Int)
  | inf (s : Bool)
  | nan
deriving DecidableEq, Repr, Inhabited

namespace F64

abbrev P52 : Nat := 4503599627370496
abbrev P53 : Nat := 9007199254740992

/-- 2^e as a rational (written without `zpow` so that the lemmas do not depend on which
    `Pow Rat Int` instance is in scope) -/
def pow2 (e : Int) : Rat :=
  if 0 ≤ e then ((2 ^ e.toNat : Nat) : Rat) else 1 / ((2 ^ (-e).toNat : Nat) : Rat)

def absR (x : Rat) : Rat := if x < 0 then -x else x

def zero (s : Bool) : F64 := fin s 0 (-1074)
def one : F64 := fin false P52 (-52)

def isNaN : F64 → Bool
  | nan => true
  | _ => false
def isFinite : F64 → Bool
  | fin _ _ _ => true
  | _ => false
def isZero : F64 → Bool
  | fin _ 0 _ => true
  | _ => false
/-- IEEE sign bit (false for NaN) -/
def sign : F64 → Bool
  | fin s _ _ => s
  | inf s => s
  | nan => false

/-- canonical form of a finite value (every value produced by `ofBits`, `rnd` and the operations
    is canonical: `Lemmas/SoftF64.lean`) -/
def wf : F64 → Bool
  | fin _ m e => decide (m < P53 ∧ -1074 ≤ e ∧ e ≤ 971 ∧ (e = -1074 ∨ P52 ≤ m))
  | _ => true

/-- the real value of a finite double (0 for inf/nan: callers test `isFinite` first) -/
def toRat : F64 → Rat
  | fin s m e => if s then -((m : Rat) * pow2 e) else (m : Rat) * pow2 e
  | _ => 0

/-! ### bit patterns -/

def toBits : F64 → Nat
  | fin s m e =>
    (if s then 9223372036854775808 else 0) +
      (if m < P52 then m else (e + 1075).toNat * P52 + (m - P52))
  | inf s => (if s then 9223372036854775808 else 0) + 9218868437227405312
  | nan => 9221120237041090560

def ofBits (b : Nat) : F64 :=
  if b / P52 % 2048 = 2047 then
    (if b % P52 = 0 then inf (decide (b / 9223372036854775808 % 2 = 1)) else nan)
  else if b / P52 % 2048 = 0 then fin (decide (b / 9223372036854775808 % 2 = 1)) (b % P52) (-1074)
  else fin (decide (b / 9223372036854775808 % 2 = 1)) (P52 + b % P52) ((b / P52 % 2048 : Nat) - 1075)

/-! ### rounding -/

/-- ⌊log2 |x|⌋ for x ≠ 0: the candidate from the bit lengths is either right or one too big -/
def ilog2 (x : Rat) : Int :=
  if pow2 ((x.num.natAbs.log2 : Int) - (x.den.log2 : Int)) ≤ absR x then
    (x.num.natAbs.log2 : Int) - (x.den.log2 : Int)
  else (x.num.natAbs.log2 : Int) - (x.den.log2 : Int) - 1

/-- exponent of the unit in the last place of the double nearest to x -/
def expOf (x : Rat) : Int := if ilog2 x < -1022 then -1074 else ilog2 x - 52

/-- round to nearest integer, ties to even (symmetric about zero) -/
def rne (y : Rat) : Int :=
  if 2 * (y - (y.floor : Rat)) < 1 then y.floor
  else if 1 < 2 * (y - (y.floor : Rat)) then y.floor + 1
  else if y.floor % 2 = 0 then y.floor else y.floor + 1

/-- packs a rounded mantissa `m ≤ 2^53` at exponent `e`: renormalises 2^53, overflows to inf -/
def mkFin (s : Bool) (m : Nat) (e : Int) : F64 :=
  if m = P53 then (if e ≥ 971 then inf s else fin s P52 (e + 1))
  else if e > 971 then inf s else fin s m e

/-- round-to-nearest-even of an exact rational (a zero result of a NON-zero x keeps x's sign;
    x = 0 gives +0: the operations decide the sign of exact zeros themselves) -/
def rnd (x : Rat) : F64 :=
  if x = 0 then zero false
  else mkFin (decide (x < 0)) (rne (absR x / pow2 (expOf x))).toNat (expOf x)

/-! ### arithmetic -/

def neg : F64 → F64
  | fin s m e => fin (!s) m e
  | inf s => inf (!s)
  | nan => nan

def abs : F64 → F64
  | fin _ m e => fin false m e
  | inf _ => inf false
  | nan => nan

def add : F64 → F64 → F64
  | nan, _ => nan
  | _, nan => nan
  | inf a, inf b => if a = b then inf a else nan
  | inf a, fin _ _ _ => inf a
  | fin _ _ _, inf b => inf b
  | fin s1 m1 e1, fin s2 m2 e2 =>
    if toRat (fin s1 m1 e1) + toRat (fin s2 m2 e2) = 0 then zero (s1 && s2)
    else rnd (toRat (fin s1 m1 e1) + toRat (fin s2 m2 e2))

def sub (x y : F64) : F64 := add x (neg y)

def mul : F64 → F64 → F64
  | nan, _ => nan
  | _, nan => nan
  | inf a, inf b => inf (a != b)
  | inf a, fin s m _ => if m = 0 then nan else inf (a != s)
  | fin s m _, inf b => if m = 0 then nan else inf (s != b)
  | fin s1 m1 e1, fin s2 m2 e2 =>
    if m1 = 0 ∨ m2 = 0 then zero (s1 != s2)
    else rnd (toRat (fin s1 m1 e1) * toRat (fin s2 m2 e2))

def div : F64 → F64 → F64
  | nan, _ => nan
  | _, nan => nan
  | inf _, inf _ => nan
  | inf a, fin s _ _ => inf (a != s)
  | fin s _ _, inf b => zero (s != b)
  | fin s1 m1 e1, fin s2 m2 e2 =>
    if m2 = 0 then (if m1 = 0 then nan else inf (s1 != s2))
    else if m1 = 0 then zero (s1 != s2)
    else rnd (toRat (fin s1 m1 e1) / toRat (fin s2 m2 e2))

/-- an integer-valued result of magnitude ≤ 2^53 (exact by `rnd_int`), keeping the sign for zero -/
def ofIntSigned (s : Bool) (k : Int) : F64 := if k = 0 then zero s else rnd (k : Rat)

/-- `f64::floor` -/
def floor : F64 → F64
  | fin s m e => if 0 ≤ e then fin s m e else ofIntSigned s (toRat (fin s m e)).floor
  | x => x

/-- truncation of a rational toward zero -/
def truncR (x : Rat) : Int := Int.tdiv x.num x.den

/-- `f64::trunc` -/
def trunc : F64 → F64
  | fin s m e => if 0 ≤ e then fin s m e else ofIntSigned s (truncR (toRat (fin s m e)))
  | x => x

/-- `f64::round`: half away from zero -/
def round : F64 → F64
  | fin s m e =>
    if 0 ≤ e then fin s m e
    else ofIntSigned s (if s then -((((m : Rat) * pow2 e) + 1/2).floor) else (((m : Rat) * pow2 e) + 1/2).floor)
  | x => x

/-! ### comparisons (IEEE: any comparison with NaN is false, -0 = +0) -/

def lt : F64 → F64 → Bool
  | nan, _ => false
  | _, nan => false
  | inf a, inf b => a && !b
  | inf a, fin _ _ _ => a
  | fin _ _ _, inf b => !b
  | fin s1 m1 e1, fin s2 m2 e2 => decide (toRat (fin s1 m1 e1) < toRat (fin s2 m2 e2))

def le : F64 → F64 → Bool
  | nan, _ => false
  | _, nan => false
  | inf a, inf b => a || !b
  | inf a, fin _ _ _ => a
  | fin _ _ _, inf b => !b
  | fin s1 m1 e1, fin s2 m2 e2 => decide (toRat (fin s1 m1 e1) ≤ toRat (fin s2 m2 e2))

def gt (x y : F64) : Bool := lt y x
def ge (x y : F64) : Bool := le y x

def eq : F64 → F64 → Bool
  | nan, _ => false
  | _, nan => false
  | inf a, inf b => a == b
  | inf _, fin _ _ _ => false
  | fin _ _ _, inf _ => false
  | fin s1 m1 e1, fin s2 m2 e2 => decide (toRat (fin s1 m1 e1) = toRat (fin s2 m2 e2))

/-! ### casts -/

/-- Rust `f64 as <int>`: NaN ↦ 0, truncate toward zero, saturate at [lo, hi] -/
def toIntSat (lo hi : Int) : F64 → Int
  | nan => 0
  | inf s => if s then lo else hi
  | fin s m e =>
    if truncR (toRat (fin s m e)) < lo then lo
    else if truncR (toRat (fin s m e)) > hi then hi
    else truncR (toRat (fin s m e))

def toI64 (x : F64) : Int := toIntSat (-9223372036854775808) 9223372036854775807 x
def toI128 (x : F64) : Int :=
  toIntSat (-170141183460469231731687303715884105728) 170141183460469231731687303715884105727 x
def toU64 (x : F64) : Int := toIntSat 0 18446744073709551615 x
def toI32 (x : F64) : Int := toIntSat (-2147483648) 2147483647 x
def toU8 (x : F64) : Int := toIntSat 0 255 x
def toU16 (x : F64) : Int := toIntSat 0 65535 x
def toI16 (x : F64) : Int := toIntSat (-32768) 32767 x
def toU32 (x : F64) : Int := toIntSat 0 4294967295 x

/-- Rust `<int> as f64` (i16/i32/i64/u64/i128: all far below the overflow threshold) -/
def ofInt (n : Int) : F64 := rnd (n : Rat)

/-! ### powi: the algorithm of compiler-rt / compiler_builtins `__powidf2` -/

def powiLoop : Nat → Nat → F64 → F64 → F64
  | 0, _, _, acc => acc
  | fuel + 1, p, a, acc =>
    if p / 2 = 0 then (if p % 2 = 1 then mul acc a else acc)
    else powiLoop fuel (p / 2) (mul a a) (if p % 2 = 1 then mul acc a else acc)

/-- `f64::powi(a, b)` for an i32 exponent -/
def powi (a : F64) (b : Int) : F64 :=
  if b < 0 then div one (powiLoop 32 b.natAbs a one) else powiLoop 32 b.natAbs a one

/-! ### text protocol: 16 hex digits of the bit pattern -/

def hexDigit (c : Char) : Option Nat :=
  if '0' ≤ c ∧ c ≤ '9' then some (c.toNat - 48)
  else if 'a' ≤ c ∧ c ≤ 'f' then some (c.toNat - 87)
  else if 'A' ≤ c ∧ c ≤ 'F' then some (c.toNat - 55)
  else none

def parseHex? (s : String) : Option F64 :=
  if s.length ≠ 16 then none
  else (s.toList.foldl (fun acc c => match acc, hexDigit c with
      | some a, some d => some (a * 16 + d)
      | _, _ => none) (some 0)).map ofBits

def hexChar (n : Nat) : Char := if n < 10 then Char.ofNat (48 + n) else Char.ofNat (87 + n)

def showHex (x : F64) : String :=
  String.ofList ((List.range 16).map (fun i => hexChar (toBits x / 16 ^ (15 - i) % 16)))

end F64
end Hifi
