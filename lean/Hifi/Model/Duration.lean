import Hifi.Model.Basic
import Hifi.Gen.Consts
/-
  Executable model of `hifitime::Duration` (src/duration/mod.rs, src/duration/ops.rs,
  src/timeunits.rs, src/duration/std.rs), transcribed branch by branch.

  Machine integers are `Int` with explicit range tests.  `as` casts that are exact on the
  reachable range are noted where they occur; the theorems in `Props/` prove that the range
  tests that would panic are never hit on canonical inputs.
-/
namespace Hifi

/-- `NANOSECONDS_PER_CENTURY` (generated from the repository on every run). -/
abbrev NPC : Int := Gen.NANOSECONDS_PER_CENTURY

/-- A `Duration`: `centuries : i16`, `nanoseconds : u64`. -/
structure Dur where
  c : Int
  ns : Int
deriving DecidableEq, Repr, Inhabited

namespace Dur

def ZERO : Dur := ⟨0, 0⟩
def MAX : Dur := ⟨32767, NPC⟩
def MIN : Dur := ⟨-32768, 0⟩

/-- `impl PartialEq for Duration` (hand written, zero-crossing special case). -/
def eqb (a b : Dur) : Bool :=
  if a.c = b.c then decide (a.ns = b.ns)
  else if (a.c = -1 ∧ b.c = 0) ∨ (a.c = 0 ∧ b.c = -1) then
    if a.c < 0 then decide (NPC - a.ns = b.ns) else decide (NPC - b.ns = a.ns)
  else false

/-- derived `Ord`: lexicographic on (centuries, nanoseconds). Returns -1, 0, 1. -/
def cmp (a b : Dur) : Int :=
  if a.c < b.c then -1 else if a.c > b.c then 1
  else if a.ns < b.ns then -1 else if a.ns > b.ns then 1 else 0

def lt (a b : Dur) : Bool := decide (cmp a b = -1)
def gt (a b : Dur) : Bool := decide (cmp a b = 1)

/-- `Duration::normalize` (&mut self becomes a returned value). -/
def normalize (d : Dur) : Dur :=
  if d.ns / NPC > 0 then
    if d.c = 32767 then
      -- `self.nanoseconds.saturating_add(rem_nanos) > Self::MAX.nanoseconds`
      if (if d.ns + d.ns % NPC > U64MAX then U64MAX else d.ns + d.ns % NPC) > NPC then MAX else d
    else if !(eqb d MAX) && !(eqb d MIN) then
      -- `extra_centuries as i16` is exact: extra ≤ u64::MAX / NPC = 5
      if fitsI16 (d.c + d.ns / NPC) then ⟨d.c + d.ns / NPC, d.ns % NPC⟩
      else if d.c ≥ 0 then MAX else MIN
    else d
  else d

/-- `Duration::from_parts` -/
def fromParts (c ns : Int) : Dur := normalize ⟨c, ns⟩

/-- `Duration::from_total_nanoseconds` (argument: any i128) -/
def fromTotal (n : Int) : Dur :=
  if n = 0 then ZERO
  else if n / NPC > 32767 then MAX
  else if n / NPC < -32768 then MIN
  else fromParts (n / NPC) (n % NPC)

/-- `Duration::from_truncated_nanoseconds` (argument: any i64) -/
def fromTruncated (n : Int) : Dur :=
  if n < 0 then
    -- ns = n.unsigned_abs(); `extra_centuries as i16` exact (≤ 2)
    fromParts (-1 - (-n) / NPC) (NPC - (-n) % NPC)
  else fromParts 0 n

/-- `Duration::total_nanoseconds`.  NOTE the third arm subtracts the nanoseconds: this is
    recorded defect D1 (pinned by the suite), mirrored here on purpose. -/
def totalNs (d : Dur) : Int :=
  if d.c = -1 then -(NPC - d.ns)
  else if d.c ≥ 0 then d.c * NPC + d.ns
  else d.c * NPC - d.ns

/-- defect tag: the call passes through `total_nanoseconds` on the mis-handled class. -/
def d1class (d : Dur) : Bool := decide (d.c ≤ -2 ∧ d.ns ≠ 0)

/-- `impl Add for Duration` (body after the two `normalize()` calls) -/
def addCore (a b : Dur) : Dur :=
  if fitsI16 (a.c + b.c) then
    -- `self.nanoseconds < Self::MIN.nanoseconds` (u64 < 0) is never true: dead branch omitted,
    -- `checked_add` of two u64 below 2·NPC cannot fail: fallback arm unreachable (theorem).
    if a.ns + b.ns > U64MAX then
      -- fallback transcribed: re-normalise rhs, add
      if fitsI16 (a.c + b.c + (normalize b).c) then normalize ⟨a.c + b.c + (normalize b).c, a.ns + (normalize b).ns⟩
      else MAX
    else normalize ⟨a.c + b.c, a.ns + b.ns⟩
  else if a.c < 0 then
    if a.c + b.c = -32769 ∧ a.ns + b.ns ≥ NPC then fromParts (-32768) (a.ns + b.ns - NPC)
    else MIN
  else MAX

def add (a b : Dur) : Dur := addCore (normalize a) (normalize b)

/-- `impl Sub for Duration` -/
def subCore (a b : Dur) : Dur :=
  if fitsI16 (a.c - b.c) then
    if a.ns < b.ns then
      if fitsI16 (a.c - b.c - 1) then normalize ⟨a.c - b.c - 1, a.ns + (NPC - b.ns)⟩
      else MIN
    else normalize ⟨a.c - b.c, a.ns - b.ns⟩
  else if b.c < 0 then
    if a.c - b.c = 32768 ∧ a.ns < b.ns then fromParts 32767 (a.ns + (NPC - b.ns))
    else MAX
  else MIN

def sub (a b : Dur) : Dur := subCore (normalize a) (normalize b)

/-- `impl Neg for Duration`; `panic` marks the u64/i16 overflows of the plain operators. -/
def neg (d : Dur) : Res Dur :=
  if eqb d MIN then .ok MAX
  else if eqb d MAX then .ok MIN
  else if d.ns ≤ NPC then
    if fitsI16 (-1 - d.c) then .ok (fromParts (-1 - d.c) (NPC - d.ns)) else .panic
  else if gt d ZERO then .ok (add MIN (sub MAX d))
  else .ok (sub MAX (add MIN d))

/-- `Duration::abs` -/
def abs (d : Dur) : Res Dur := if d.c < 0 then neg d else .ok d

def signum (d : Dur) : Int := if d.c < 0 then -1 else if d.c > 0 then 1 else 0

/-- `impl Mul<i64> for Unit`, `f` the unit's factor. -/
def unitMulI64 (f q : Int) : Dur :=
  if fitsI64 (q * f) then
    -- `total_ns.unsigned_abs() < i64::MAX as u64`
    if (if q * f < 0 then -(q * f) else q * f) < I64MAX then fromTruncated (q * f)
    else fromTotal (q * f)
  else if fitsI128 (q * f) then fromTotal (q * f)
  else if q < 0 then MIN else MAX

/-- `impl Mul<i64> for Duration` -/
def mulI64 (d : Dur) (q : Int) : Dur :=
  fromTotal (satI128 (totalNs d * totalNs (unitMulI64 1 q)))

/-- `impl Div<i64> for Duration`; division by zero panics. -/
def divI64 (d : Dur) (q : Int) : Res Dur :=
  if totalNs (unitMulI64 1 q) = 0 then .panic
  else .ok (fromTotal (satI128 (Int.tdiv (totalNs d) (totalNs (unitMulI64 1 q)))))

/-- `Duration::try_truncated_nanoseconds` -/
def tryTruncated (d : Dur) : Res Int :=
  if d.c ≥ 3 ∨ d.c < -3 then .err
  else if d.c = -1 then .ok (-(NPC - d.ns))       -- `as i64` exact: below 2^63
  else if d.c ≥ 0 then
    if fitsI64 (d.c * NPC) then
      if fitsI64 (d.c * NPC + d.ns) then .ok (d.c * NPC + d.ns) else .err
    else .err
  else
    -- centuries −2 or −3 (since fix e4d86c7): `i64::try_from(c·NPC + ns as i128)`, an underflow error when it does not fit
    if fitsI64 (d.c * NPC + d.ns) then .ok (d.c * NPC + d.ns) else .err

/-- `Duration::truncated_nanoseconds` -/
def truncated (d : Dur) : Res Int :=
  match tryTruncated d with
  | .ok v => .ok v
  | .err => if d.c < 0 then .ok I64MIN else .ok I64MAX
  | .panic => .panic

/-- `Duration::compose` (integer arithmetic; fields are u64) -/
def compose (sign d h m s ms us ns : Int) : Res Dur :=
  let t := d * Gen.NANOSECONDS_PER_DAY + h * Gen.NANOSECONDS_PER_HOUR + m * Gen.NANOSECONDS_PER_MINUTE
    + s * Gen.NANOSECONDS_PER_SECOND + ms * Gen.NANOSECONDS_PER_MILLISECOND
    + us * Gen.NANOSECONDS_PER_MICROSECOND + ns
  if sign < 0 then neg (fromTotal t) else .ok (fromTotal t)

/-- `From<std::time::Duration> for Duration`: `as_nanos()` is a u128. -/
def fromStd (secs nanos : Int) : Dur :=
  let t := secs * 1000000000 + nanos
  fromTotal (if t > I128MAX then I128MAX else t)

/-- `From<Duration> for std::time::Duration` → (secs, subsec_nanos) -/
def intoStd (d : Dur) : Int × Int :=
  if signum d = -1 then (0, 0)
  else
    let u := if totalNs d < 0 then 0 else totalNs d
    (if u / 1000000000 > U64MAX then U64MAX else u / 1000000000, u % 1000000000)

/-- `Duration::floor` -/
def floor (d s : Dur) : Dur :=
  fromTotal (if totalNs s = 0 then 0 else totalNs d - (totalNs d) % (totalNs s))

/-- `Duration::ceil` -/
def ceil (d s : Dur) : Res Dur :=
  match abs s with
  | .ok sa =>
    if fitsI128 (totalNs (floor d s) + totalNs sa) then .ok (fromTotal (totalNs (floor d s) + totalNs sa))
    else .ok MAX
  | .err => .err
  | .panic => .panic

/-- `Duration::round` -/
def round (d s : Dur) : Res Dur :=
  match ceil d s with
  | .ok ce =>
    match abs (sub ce d) with
    | .ok x => if lt (sub d (floor d s)) x then .ok (floor d s) else .ok ce
    | .err => .err
    | .panic => .panic
  | .err => .err
  | .panic => .panic

/-- `Duration::min` / `max` -/
def min (a b : Dur) : Dur := if lt a b then a else b
def max (a b : Dur) : Dur := if gt a b then a else b

/-- `Duration::decompose` (integer arithmetic) → (sign, days, h, min, s, ms, us, ns) -/
def decompose (d : Dur) : Res (Int × Int × Int × Int × Int × Int × Int × Int) :=
  match abs d with
  | .ok a =>
    -- `centuries.unsigned_abs()`; abs() is non-negative so this is the century count
    let t := (if a.c < 0 then -a.c else a.c) * NPC + a.ns
    let r0 := t % Gen.NANOSECONDS_PER_DAY
    let r1 := r0 % Gen.NANOSECONDS_PER_HOUR
    let r2 := r1 % Gen.NANOSECONDS_PER_MINUTE
    let r3 := r2 % Gen.NANOSECONDS_PER_SECOND
    let r4 := r3 % Gen.NANOSECONDS_PER_MILLISECOND
    .ok (signum d, t / Gen.NANOSECONDS_PER_DAY, r0 / Gen.NANOSECONDS_PER_HOUR,
      r1 / Gen.NANOSECONDS_PER_MINUTE, r2 / Gen.NANOSECONDS_PER_SECOND,
      r3 / Gen.NANOSECONDS_PER_MILLISECOND, r4 / Gen.NANOSECONDS_PER_MICROSECOND,
      r4 % Gen.NANOSECONDS_PER_MICROSECOND)
  | .err => .err
  | .panic => .panic

end Dur

/-- The factor table of `impl Mul<i64> for Unit`, by protocol name; it refers to the generated
    constants by the names the Rust code uses. -/
def unitFactor : String → Option Int
  | "ns" => some 1
  | "us" => some Gen.NANOSECONDS_PER_MICROSECOND
  | "ms" => some Gen.NANOSECONDS_PER_MILLISECOND
  | "s" => some Gen.NANOSECONDS_PER_SECOND
  | "min" => some Gen.NANOSECONDS_PER_MINUTE
  | "h" => some Gen.NANOSECONDS_PER_HOUR
  | "d" => some Gen.NANOSECONDS_PER_DAY
  | "wk" => some (Gen.NANOSECONDS_PER_DAY * Gen.DAYS_PER_WEEK_I64)
  | "cy" => some Gen.NANOSECONDS_PER_CENTURY
  | _ => none

end Hifi
