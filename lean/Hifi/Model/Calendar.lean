import Hifi.Model.Duration
import Hifi.Model.TimeScale
import Hifi.Gen.Scales
import Hifi.Gen.Calendar
/-
  Executable model of the calendar code (C08, C09), transcribed from the CURRENT sources:
    src/epoch/gregorian.rs   is_leap_year, usual_days_per_month, january_years, july_years,
                             is_gregorian_valid, Epoch::maybe_from_gregorian (+ wrappers),
                             Epoch::compute_gregorian (with the `while` corrections), to_gregorian_str
    src/timescale/mod.rs     prime_epoch_offset, gregorian_epoch_offset
    src/epoch/formatting.rs  Display (and the Debug/LowerHex/UpperHex/LowerExp/UpperExp bodies,
                             which are the same text for an epoch already in the target scale)
    src/epoch/mod.rs         year, month_name, duration_in_year, div_rem_f64

  Import-free (core Lean only).  Machine integers are `Int`; fields are i32 (year), u8 (month,
  day, hour, minute, second), u32 (nanos).

  f64 bookkeeping of `compute_gregorian`: `days`, `days_in_year`, `day` are doubles in the code.
  They only ever hold INTEGER values of magnitude < 2^31 (|days| ≤ 32768·36525 + 1, the other two
  are bounded by it), every operation applied to them (`+ 1.0`, `- 1.0`, `± 365.0`, `%`, the
  quotient `/ 365.0` followed by `trunc`) is exact on such values — the only rounded operation is
  the quotient, whose relative error 2^-53 cannot move it across an integer because the nearest
  non-integer quotient is 1/365 away — so they are modelled by `Int`.
  `Epoch::day_of_year` (a genuinely fractional f64) is NOT modelled here: it is covered by the
  correspondence run only (Drive/Calendar.lean evaluates it with hardware doubles).
-/
namespace Hifi
namespace Cal

abbrev NPD : Int := Gen.NANOSECONDS_PER_DAY
abbrev NPH : Int := Gen.NANOSECONDS_PER_HOUR
abbrev NPMIN : Int := Gen.NANOSECONDS_PER_MINUTE
abbrev NPS : Int := Gen.NANOSECONDS_PER_SECOND
abbrev NPMS : Int := Gen.NANOSECONDS_PER_MILLISECOND
abbrev NPUS : Int := Gen.NANOSECONDS_PER_MICROSECOND
abbrev REF_YEAR : Int := Gen.HIFITIME_REF_YEAR
abbrev DPY : Int := Gen.DAYS_PER_YEAR_NLD

def fitsI32 (x : Int) : Bool := decide (-2147483648 ≤ x ∧ x ≤ 2147483647)
/-- `f64 as i32` / `as u16` / `as u8` on an integer-valued double: saturating -/
def satI32 (x : Int) : Int := if x < -2147483648 then -2147483648 else if x > 2147483647 then 2147483647 else x
def satU16 (x : Int) : Int := if x < 0 then 0 else if x > 65535 then 65535 else x
def satU8 (x : Int) : Int := if x < 0 then 0 else if x > 255 then 255 else x

/-- `is_leap_year` (`%` on i32 truncates toward zero) -/
def isLeapYear (y : Int) : Bool :=
  decide ((Int.tmod y 4 = 0 ∧ Int.tmod y 100 ≠ 0) ∨ Int.tmod y 400 = 0)

/-- `usual_days_per_month`, `january_years`, `july_years`: generated from the source -/
abbrev usualDaysPerMonth := Gen.usual_days_per_month
abbrev januaryYears := Gen.january_years
abbrev julyYears := Gen.july_years

/-! ### is_gregorian_valid -/

/-- `january_years(year + 1)` is a plain i32 addition, evaluated (short-circuit `&&`/`||`) exactly
    when month = 12, day = 31, hour = 23, minute = 59 — and, since fix b159cb8, only when
    `year < i32::MAX`: the overflow test below can therefore never fire (repaired defect D29). -/
def validPanics (y mo d h mi : Int) : Bool :=
  decide (mo = 12 ∧ d = usualDaysPerMonth mo ∧ h = 23 ∧ mi = 59 ∧ y < 2147483647 ∧ y + 1 > 2147483647)

def maxSeconds (y mo d h mi : Int) : Int :=
  if (mo = 12 ∨ mo = 6) ∧ d = usualDaysPerMonth mo ∧ h = 23 ∧ mi = 59 ∧
      ((mo = 6 ∧ julyYears y = true) ∨ (mo = 12 ∧ januaryYears (y + 1) = true)) then 60 else 59

/-- body of `is_gregorian_valid`.  NOTE the last test lets every day ≤ 31 through in February of a
    leap year: 30 and 31 February are accepted — recorded defect D10 (pinned by the suite's
    `test_range`), mirrored here on purpose. -/
def isGregorianValidCore (y mo d h mi s ns : Int) : Bool :=
  if mo = 0 ∨ mo > 12 ∨ d = 0 ∨ d > 31 ∨ h > 24 ∨ mi > 59 ∨ s > maxSeconds y mo d h mi
      ∨ ns > Gen.NANOSECONDS_PER_SECOND then false
  else if d > usualDaysPerMonth mo ∧ (mo ≠ 2 ∨ isLeapYear y = false) then false
  else true

def isGregorianValid (y mo d h mi s ns : Int) : Res Bool :=
  if validPanics y mo d h mi then .panic else .ok (isGregorianValidCore y mo d h mi s ns)

/-- defect tag D10: February, leap year, day 30 or 31 -/
def d10class (y mo d : Int) : Bool := decide (mo = 2 ∧ (d = 30 ∨ d = 31)) && isLeapYear y

/-! ### time-scale offsets -/

/-- `TimeScale::prime_epoch_offset` (values generated from the match arms) -/
def primeEpochOffset : TS → Dur
  | .TAI => ⟨Gen.PRIME_C_TAI, Gen.PRIME_NS_TAI⟩
  | .TT => ⟨Gen.PRIME_C_TT, Gen.PRIME_NS_TT⟩
  | .ET => ⟨Gen.PRIME_C_ET, Gen.PRIME_NS_ET⟩
  | .TDB => ⟨Gen.PRIME_C_TDB, Gen.PRIME_NS_TDB⟩
  | .UTC => ⟨Gen.PRIME_C_UTC, Gen.PRIME_NS_UTC⟩
  | .GPST => ⟨Gen.PRIME_C_GPST, Gen.PRIME_NS_GPST⟩
  | .GST => ⟨Gen.PRIME_C_GST, Gen.PRIME_NS_GST⟩
  | .BDT => ⟨Gen.PRIME_C_BDT, Gen.PRIME_NS_BDT⟩
  | .QZSST => ⟨Gen.PRIME_C_QZSST, Gen.PRIME_NS_QZSST⟩

/-- `Duration::subdivision(Unit::Second)`: the seconds field of `decompose`, times one second -/
def subdivisionSecond (d : Dur) : Res Dur :=
  match Dur.decompose d with
  | .ok (_, _, _, _, s, _, _, _) => .ok (Dur.unitMulI64 NPS s)
  | .err => .err
  | .panic => .panic

/-- `TimeScale::gregorian_epoch_offset` = prime − prime.subdivision(Second).unwrap() -/
def gregorianEpochOffsetR (ts : TS) : Res Dur :=
  match subdivisionSecond (primeEpochOffset ts) with
  | .ok s => .ok (Dur.sub (primeEpochOffset ts) s)
  | .err => .panic
  | .panic => .panic

/-- the same as a plain value (the `Res` never fails on the nine constants: `C08.gregOff_pinned`) -/
def gregorianEpochOffset (ts : TS) : Dur :=
  match gregorianEpochOffsetR ts with
  | .ok d => d
  | _ => primeEpochOffset ts

/-! ### Epoch::maybe_from_gregorian -/

/-- `Unit::Day * q` -/
def dayDur (q : Int) : Dur := Dur.unitMulI64 NPD q

/-- `for y in REF..year { if is_leap_year(y) { d += Unit::Day } }`: `n` years starting at `y` -/
def addLeapDays : Nat → Int → Dur → Dur
  | 0, _, d => d
  | n + 1, y, d => addLeapDays n (y + 1) (if isLeapYear y then Dur.add d (dayDur 1) else d)

/-- `for y in year..REF { if is_leap_year(y) { d -= Unit::Day } }` -/
def subLeapDays : Nat → Int → Dur → Dur
  | 0, _, d => d
  | n + 1, y, d => subLeapDays n (y + 1) (if isLeapYear y then Dur.sub d (dayDur 1) else d)

/-- the duration after the two year steps: 365-day years since 1900, then the leap days -/
def gregYearPart (y : Int) : Dur :=
  if y ≥ REF_YEAR then addLeapDays (y - REF_YEAR).toNat REF_YEAR (dayDur ((y - REF_YEAR) * DPY))
  else subLeapDays (REF_YEAR - y).toNat y (dayDur ((y - REF_YEAR) * DPY))

/-- the cumulative-days table selected by the year -/
def cumulDays (y : Int) : List Int :=
  if isLeapYear y then Gen.CUMULATIVE_DAYS_FOR_MONTH_LEAP_YEARS else Gen.CUMULATIVE_DAYS_FOR_MONTH

/-- `cumul_days[(month - 1) as usize]` (month is 1..12 wherever this is reached) -/
def cumulAt (y mo : Int) : Int := (cumulDays y).getD (mo - 1).toNat 0

/-- `Unit::Day * (day-1) + Unit::Hour * hour + Unit::Minute * minute + Unit::Second * second + Unit::Nanosecond * nanos` -/
def gregTimePart (d h mi s ns : Int) : Dur :=
  Dur.add (Dur.add (Dur.add (Dur.add (dayDur (d - 1)) (Dur.unitMulI64 NPH h)) (Dur.unitMulI64 NPMIN mi))
    (Dur.unitMulI64 NPS s)) (Dur.unitMulI64 1 ns)

/-- `if second == 60 { d -= Unit::Second }` -/
def leapSecondAdj (s : Int) (d : Dur) : Dur := if s = 60 then Dur.sub d (Dur.unitMulI64 NPS 1) else d

/-- everything after the year loops; `yp` is the value of `duration_wrt_ref` at that point -/
def gregFinish (yp : Dur) (y mo d h mi s ns : Int) (ts : TS) : Dur :=
  Dur.sub (leapSecondAdj s (Dur.add (Dur.add yp (dayDur (cumulAt y mo))) (gregTimePart d h mi s ns)))
    (gregorianEpochOffset ts)

/-- `Epoch::maybe_from_gregorian` with the year part supplied (lets a caller share the year loops
    between the days of one month; `maybeFromGregorian_with` below) -/
def maybeFromGregorianWith (yp : Dur) (y mo d h mi s ns : Int) (ts : TS) : Res Dur :=
  if validPanics y mo d h mi then .panic
  else if isGregorianValidCore y mo d h mi s ns = false then .err
  else if fitsI32 (y - REF_YEAR) = false then .err              -- `year.checked_sub(HIFITIME_REF_YEAR)`
  else if fitsI32 ((y - REF_YEAR) * DPY) = false then .err      -- `.checked_mul(DAYS_PER_YEAR_NLD as i32)`
  else .ok (gregFinish yp y mo d h mi s ns ts)

/-- `Epoch::maybe_from_gregorian`: the duration of the resulting epoch (its scale is `ts`) -/
def maybeFromGregorian (y mo d h mi s ns : Int) (ts : TS) : Res Dur :=
  if validPanics y mo d h mi then .panic
  else if isGregorianValidCore y mo d h mi s ns = false then .err
  else if fitsI32 (y - REF_YEAR) = false then .err
  else if fitsI32 ((y - REF_YEAR) * DPY) = false then .err
  else .ok (gregFinish (gregYearPart y) y mo d h mi s ns ts)

theorem maybeFromGregorian_with (y mo d h mi s ns : Int) (ts : TS) :
    maybeFromGregorian y mo d h mi s ns ts = maybeFromGregorianWith (gregYearPart y) y mo d h mi s ns ts := rfl

/-- `Epoch::from_gregorian*`: `.expect("invalid Gregorian date")` -/
def fromGregorian (y mo d h mi s ns : Int) (ts : TS) : Res Dur :=
  match maybeFromGregorian y mo d h mi s ns ts with
  | .ok e => .ok e
  | .err => .panic
  | .panic => .panic

/-! ### Epoch::compute_gregorian -/

/-- the first block of `compute_gregorian`: (days, hours, minutes, seconds, ms, µs, ns) with `days`
    the signed integer held in the f64 -/
def splitDays (w : Dur) : Res (Int × Int × Int × Int × Int × Int × Int) :=
  if Dur.signum w < 0 then
    match Dur.decompose w with
    | .ok (_, days, h, mi, s, ms, us, ns) =>
      match Dur.compose 0 0 h mi s ms us ns with
      | .ok time =>
        match Dur.decompose (Dur.sub (Dur.unitMulI64 NPH 24) time) with
        | .ok (_, _, h2, mi2, s2, ms2, us2, ns2) =>
          .ok (if Dur.gt time Dur.ZERO then -(days + 1) else -days, h2, mi2, s2, ms2, us2, ns2)
        | .err => .err
        | .panic => .panic
      | .err => .err
      | .panic => .panic
    | .err => .err
    | .panic => .panic
  else
    match Dur.decompose w with
    | .ok (_, days, h, mi, s, ms, us, ns) => .ok (days, h, mi, s, ms, us, ns)
    | .err => .err
    | .panic => .panic

/-- `div_euclid_f64(lhs, rhs)` / `rem_euclid_f64` for integer-valued doubles and `rhs > 0`
    (`rhs` is the constant 365.0): `(lhs / rhs).trunc()` is the truncated quotient, `lhs % rhs` the
    truncated remainder -/
def divEuclidF64 (a b : Int) : Int := if Int.tmod a b < 0 then Int.tdiv a b - 1 else Int.tdiv a b
def remEuclidF64 (a b : Int) : Int := if Int.tmod a b < 0 then Int.tmod a b + b else Int.tmod a b

/-- `for y in REF..year { if is_leap_year(y) { days_in_year -= 1.0 } }` -/
def subLeaps : Nat → Int → Int → Int
  | 0, _, r => r
  | n + 1, y, r => subLeaps n (y + 1) (if isLeapYear y then r - 1 else r)

/-- `for y in year..REF { if is_leap_year(y) { days_in_year += 1.0 } }` -/
def addLeaps : Nat → Int → Int → Int
  | 0, _, r => r
  | n + 1, y, r => addLeaps n (y + 1) (if isLeapYear y then r + 1 else r)

/-- `while days_in_year < 0.0 { year -= 1; days_in_year += 365.0; if is_leap_year(year) { days_in_year += 1.0 } }`
    The first argument is fuel; `yearOf` supplies `(-days_in_year)` which `Lemmas/Calendar` proves
    sufficient (`fixUnder_done`), i.e. the loop terminates. -/
def fixUnder : Nat → Int → Int → Int × Int
  | 0, y, r => (y, r)
  | f + 1, y, r =>
    if r < 0 then fixUnder f (y - 1) (if isLeapYear (y - 1) then r + DPY + 1 else r + DPY)
    else (y, r)

/-- `while (diy >= 365.0 && !leap(year)) || (diy >= 366.0 && leap(year)) { if leap(year) { diy -= 1.0 } year += 1; diy -= 365.0 }` -/
def fixOver : Nat → Int → Int → Int × Int
  | 0, y, r => (y, r)
  | f + 1, y, r =>
    if (r ≥ DPY ∧ isLeapYear y = false) ∨ (r ≥ DPY + 1 ∧ isLeapYear y = true) then
      fixOver f (y + 1) (if isLeapYear y then r - 1 - DPY else r - DPY)
    else (y, r)

/-- year estimate by 365-day years and its leap-day correction: (year, zero-based day in year) -/
def yearOfGe (y0 r0 : Int) : Int × Int :=
  fixUnder (-(subLeaps (y0 - REF_YEAR).toNat REF_YEAR r0)).toNat y0 (subLeaps (y0 - REF_YEAR).toNat REF_YEAR r0)
def yearOfLt (y0 r0 : Int) : Int × Int :=
  fixOver (addLeaps (REF_YEAR - y0).toNat y0 r0).toNat y0 (addLeaps (REF_YEAR - y0).toNat y0 r0)
def yearOf (days : Int) : Int × Int :=
  if satI32 (divEuclidF64 days DPY) + REF_YEAR ≥ REF_YEAR then
    yearOfGe (satI32 (divEuclidF64 days DPY) + REF_YEAR) (remEuclidF64 days DPY)
  else yearOfLt (satI32 (divEuclidF64 days DPY) + REF_YEAR) (remEuclidF64 days DPY)

/-- `cumul_days.binary_search(&x)` followed by `Ok(i) => i + 1, Err(ip) => ip`.  The table is
    strictly increasing, so the std contract determines the result: the index of `x` if present,
    else the number of entries below `x`. -/
def searchMonth (tbl : List Int) (x : Int) : Int :=
  if tbl.contains x then (tbl.idxOf x : Int) + 1 else ((tbl.filter (fun t => decide (t < x))).length : Int)

def monthOf (y r : Int) : Int := searchMonth (cumulDays y) (satU16 r)
/-- `days_in_year - cumul_days[month - 1] as f64 + 1.0`, then `as u8` -/
def dayOf (y r : Int) : Int := satU8 (r - cumulAt y (monthOf y r) + 1)

/-- `Epoch::compute_gregorian(duration, time_scale)` → (year, month, day, hour, minute, second, nanos).
    The `as u8` / `as u32` casts of the time fields are exact (hours < 24, …, nanos < 10^9). -/
def computeGregorian (dur : Dur) (ts : TS) : Res (Int × Int × Int × Int × Int × Int × Int) :=
  match splitDays (Dur.add dur (gregorianEpochOffset ts)) with
  | .ok (days, h, mi, s, ms, us, ns) =>
    .ok ((yearOf days).1, monthOf (yearOf days).1 (yearOf days).2, dayOf (yearOf days).1 (yearOf days).2,
         h, mi, s, ns + us * NPUS + ms * NPMS)
  | .err => .err
  | .panic => .panic

/-! ### text -/

/-- `{:0w}` of an unsigned integer: the `w` low digits, preceded by further digits if the value
    does not fit (code points) -/
def fmtNat : Nat → Nat → List Nat
  | 0, n => if n = 0 then [] else (Nat.toDigits 10 n).map Char.toNat
  | w + 1, n => fmtNat w (n / 10) ++ [48 + n % 10]

/-- `{:0w}` of a signed integer: the sign counts toward the width (Rust's sign-aware zero padding) -/
def fmtInt (w : Nat) (x : Int) : List Nat :=
  if x < 0 then 45 :: fmtNat (w - 1) x.natAbs else fmtNat w x.toNat

def strCodes (s : String) : List Nat := s.toList.map Char.toNat

/-- `"{:04}-{:02}-{:02}T{:02}:{:02}:{:02} {}"` or, when nanos ≠ 0, `"….{:09} {}"` -/
def renderFields (y mo d h mi s ns : Int) (ts : TS) : List Nat :=
  fmtInt 4 y ++ [45] ++ fmtInt 2 mo ++ [45] ++ fmtInt 2 d ++ [84] ++ fmtInt 2 h ++ [58] ++ fmtInt 2 mi ++ [58]
    ++ fmtInt 2 s ++ (if ns = 0 then [] else 46 :: fmtInt 9 ns) ++ [32] ++ strCodes ts.name

/-- `impl Display for Epoch`; also `to_gregorian_str(own scale)` and the other five formatting
    traits applied to an epoch that already is in their target scale -/
def display (dur : Dur) (ts : TS) : Res (List Nat) :=
  match computeGregorian dur ts with
  | .ok (y, mo, d, h, mi, s, ns) => .ok (renderFields y mo d h mi s ns ts)
  | .err => .err
  | .panic => .panic

/-! ### accessors -/

/-- `Epoch::year` -/
def year (dur : Dur) (ts : TS) : Res Int :=
  match computeGregorian dur ts with
  | .ok (y, _, _, _, _, _, _) => .ok y
  | .err => .err
  | .panic => .panic

/-- `Epoch::month_name` as the `Debug` name of the `MonthName` (`From<u8>`: 1..12, anything else January) -/
def monthName (dur : Dur) (ts : TS) : Res String :=
  match computeGregorian dur ts with
  | .ok (_, mo, _, _, _, _, _) => .ok (Gen.MONTH_NAME_OF_U8.getD mo.toNat (Gen.MONTH_NAME_OF_U8.getD 0 ""))
  | .err => .err
  | .panic => .panic

/-- `Epoch::duration_in_year`: `self.duration - from_gregorian(self.year(), 1, 1, 0, 0, 0, 0, ts).duration` -/
def durationInYear (dur : Dur) (ts : TS) : Res Dur :=
  match year dur ts with
  | .ok y =>
    match fromGregorian y 1 1 0 0 0 0 ts with
    | .ok st => .ok (Dur.sub dur st)
    | .err => .err
    | .panic => .panic
  | .err => .err
  | .panic => .panic

end Cal
end Hifi
