import Hifi.Model.Views
/-
  `Epoch::to_jde_et_duration` / `to_jde_tdb_duration` (src/epoch/mod.rs), after the conversion into ET / TDB:
  `x + Unit::Day * (MJD_J1900 + MJD_OFFSET) + TimeScale::ET.prime_epoch_offset()`  (TDB has the same prime-epoch offset).
  `Unit::Day * 2415020.5` is exact in binary64 (C17 `jd_products_exact`) and is written as the integer count here.
  Kept in its own file so that the lemma files over `Model/Views.lean` are not rebuilt.
-/
namespace Hifi.Views
open Hifi Hifi.Dyn

/-- the Julian-date view of a count `x` held in (or converted into) ET / TDB -/
def toJdeDyn (x : Dur) : Dur := Dur.add (Dur.add x jdeJ1900) etPrimeOffset

end Hifi.Views
