import Hifi.Model.Duration
import Hifi.Gen.Unicode
import Hifi.Gen.DurUnits
/-
  Executable model of the text side of `hifitime::Duration`
  (src/duration/mod.rs `impl Display`, src/duration/parse.rs `impl FromStr`, `parse_duration`,
  `parse_offset`, `cmp_chars_to_str`, the `UNITS` table; src/timeunits.rs `impl Mul<f64> for Unit`;
  `Duration::compose_f64`), transcribed branch by branch from the CURRENT /repo.

  Strings are lists of Unicode code points (`List Nat`).  The parser is BYTE-INDEXED like the Rust
  code: the code points are UTF-8 encoded (`utf8s`), indices are byte offsets, and a `str` slice whose
  bounds are out of range or not on a char boundary is the explicit outcome `Res.panic`
  (`sliceB`); `str::get` returns `none` instead (`getB`).

  External calls (trusted contract, measured by the harness ops `lex_i64` / `lex_f64`, recorded in
  INTEGRATION.md):
  * `lexical_core::parse::<i64>`  = `parseI64`: optional sign `+`/`-`, at least one ASCII digit,
    whole input consumed, leading zeros allowed, error outside the i64 range.
  * `lexical_core::parse::<i128>` = `parseI128`: the same grammar with the i128 range (used by
    `Numeral::parse` since fix D37, f941bbd: a plain integer numeral is multiplied as an integer).
  * `lexical_core::parse::<f64>`  = `parseF64`: `[+-]? (digits [. digits*] | . digits+) ([eE] [+-]? digits+)?`
    or `[+-]? (nan | inf | infinity)` (case-insensitive), whole input consumed, correctly rounded
    (nearest, ties to even) to binary64, overflow to ±inf, underflow to 0.

  binary64 is modelled by `F64` with exact integer/dyadic arithmetic (no Lean `Float`): every
  operation is "exact result, then round to nearest even" (`rndPos`).  Values that are integers are
  kept in the constructor `F64.int`, and `unitMulF64` has a first branch for the case where the
  exact product is representable (`exact53`): that branch is the only float reasoning the
  round-trip theorem needs.
-/
namespace Hifi.DurText
open Hifi

-- ------------------------------------------------------------------------------------------
-- UTF-8 and byte-indexed slicing

/-- `char::len_utf8` -/
def utf8Size (c : Nat) : Nat :=
  if c < 0x80 then 1 else if c < 0x800 then 2 else if c < 0x10000 then 3 else 4

/-- UTF-8 encoding of one code point -/
def utf8 (c : Nat) : List Nat :=
  if c < 0x80 then [c]
  else if c < 0x800 then [0xC0 + c / 64, 0x80 + c % 64]
  else if c < 0x10000 then [0xE0 + c / 4096, 0x80 + c / 64 % 64, 0x80 + c % 64]
  else [0xF0 + c / 262144, 0x80 + c / 4096 % 64, 0x80 + c / 64 % 64, 0x80 + c % 64]

def utf8s : List Nat → List Nat
  | [] => []
  | c :: cs => utf8 c ++ utf8s cs

/-- a Unicode scalar value: below 0x110000 and not a surrogate -/
def isScalar (c : Nat) : Bool := decide (c < 0xD800 ∨ (0xE000 ≤ c ∧ c < 0x110000))

/-- UTF-8 continuation byte (`10xxxxxx`) -/
def isCont (b : Nat) : Bool := decide (0x80 ≤ b ∧ b < 0xC0)

/-- `str::is_char_boundary` on the byte string `bs` -/
def isBoundary (bs : List Nat) (i : Nat) : Bool :=
  if i = 0 then true
  else if i = bs.length then true
  else if i > bs.length then false
  else !(isCont (bs.getD i 0))

/-- `&s[a..b]`: panics when out of range or not on char boundaries -/
def sliceB (bs : List Nat) (a b : Nat) : Res (List Nat) :=
  if a ≤ b ∧ b ≤ bs.length ∧ isBoundary bs a = true ∧ isBoundary bs b = true then .ok ((bs.drop a).take (b - a))
  else .panic

/-- `s.get(a..b)` -/
def getB (bs : List Nat) (a b : Nat) : Option (List Nat) :=
  if a ≤ b ∧ b ≤ bs.length ∧ isBoundary bs a = true ∧ isBoundary bs b = true then some ((bs.drop a).take (b - a))
  else none

/-- `s.get(a..)` -/
def getFromB (bs : List Nat) (a : Nat) : Option (List Nat) :=
  if a ≤ bs.length ∧ isBoundary bs a = true then some (bs.drop a) else none

-- ------------------------------------------------------------------------------------------
-- `str::trim`

def isWs (c : Nat) : Bool := Gen.WHITESPACE.contains c

def trimStart : List Nat → List Nat
  | [] => []
  | c :: cs => if isWs c then trimStart cs else c :: cs

def trim (s : List Nat) : List Nat := (trimStart (trimStart s).reverse).reverse

-- ------------------------------------------------------------------------------------------
-- decimal digits

def isDigit (b : Nat) : Bool := decide (48 ≤ b ∧ b ≤ 57)

def allDigits : List Nat → Bool
  | [] => true
  | c :: cs => isDigit c && allDigits cs

/-- value of a digit string, most significant first (accumulator after the list) -/
def valDigits : List Nat → Nat → Nat
  | [], acc => acc
  | c :: cs, acc => valDigits cs (acc * 10 + (c - 48))

/-- `lexical_core::parse::<i64>` after the optional sign -/
def parseI64Digits (neg : Bool) (ds : List Nat) : Option Int :=
  if ds = [] then none
  else if allDigits ds = false then none
  else if neg then (if fitsI64 (-(valDigits ds 0 : Int)) then some (-(valDigits ds 0 : Int)) else none)
  else (if fitsI64 (valDigits ds 0 : Int) then some (valDigits ds 0 : Int) else none)

/-- `lexical_core::parse::<i64>` (bytes in, `none` = `Err`) -/
def parseI64 (bs : List Nat) : Option Int :=
  match bs with
  | [] => none
  | c :: ds => if c = 45 then parseI64Digits true ds
               else if c = 43 then parseI64Digits false ds
               else parseI64Digits false (c :: ds)

/-- `lexical_core::parse::<i128>` after the optional sign -/
def parseI128Digits (neg : Bool) (ds : List Nat) : Option Int :=
  if ds = [] then none
  else if allDigits ds = false then none
  else if neg then (if fitsI128 (-(valDigits ds 0 : Int)) then some (-(valDigits ds 0 : Int)) else none)
  else (if fitsI128 (valDigits ds 0 : Int) then some (valDigits ds 0 : Int) else none)

/-- `lexical_core::parse::<i128>` (bytes in, `none` = `Err`): same grammar as `parse::<i64>` -/
def parseI128 (bs : List Nat) : Option Int :=
  match bs with
  | [] => none
  | c :: ds => if c = 45 then parseI128Digits true ds
               else if c = 43 then parseI128Digits false ds
               else parseI128Digits false (c :: ds)

-- ------------------------------------------------------------------------------------------
-- binary64

/-- a binary64 value.  `int z`: finite and exactly the integer `z`; `fin neg m e`: finite,
    `(-1)^neg · m · 2^e` (also −0.0 as `m = 0`); infinities; NaN (sign kept for the bit pattern). -/
inductive F64 where
  | int (z : Int)
  | fin (neg : Bool) (m : Nat) (e : Int)
  | inf (neg : Bool)
  | nan (neg : Bool)
deriving Repr, DecidableEq, Inhabited

/-- `m = 2^k · o` with `o < 2^53`: the natural number is exactly representable (exponent range
    aside; callers bound the magnitude).  `fuel` bounds the number of halvings. -/
def exact53 : Nat → Nat → Bool
  | 0, m => decide (m < 9007199254740992)
  | fuel + 1, m => if m < 9007199254740992 then true else if m % 2 = 0 then exact53 fuel (m / 2) else false

/-- `p / (d · 2^e)` as a fraction of naturals -/
def scaleNum (p : Nat) (e : Int) : Nat := if e ≥ 0 then p else p * 2 ^ (-e).toNat
def scaleDen (d : Nat) (e : Int) : Nat := if e ≥ 0 then d * 2 ^ e.toNat else d

/-- mantissa of `n/dd` rounded to an integer, ties to even -/
def roundHalfEven (n dd : Nat) : Nat :=
  if 2 * (n % dd) > dd ∨ (2 * (n % dd) = dd ∧ n / dd % 2 = 1) then n / dd + 1 else n / dd

/-- binary exponent such that `2^52 ≤ p/(d·2^e) < 2^53`, not below the subnormal exponent -/
def binExp (p d : Nat) : Int :=
  if scaleNum p ((p.log2 : Int) - (d.log2 : Int) - 52) < 4503599627370496 * scaleDen d ((p.log2 : Int) - (d.log2 : Int) - 52)
  then (if (p.log2 : Int) - (d.log2 : Int) - 53 < -1074 then -1074 else (p.log2 : Int) - (d.log2 : Int) - 53)
  else (if (p.log2 : Int) - (d.log2 : Int) - 52 < -1074 then -1074 else (p.log2 : Int) - (d.log2 : Int) - 52)

/-- `p/d` (`p, d > 0`) rounded to binary64, nearest-even: `some (m, e)` = `m·2^e` with `m ≤ 2^53`,
    `none` = overflow to infinity -/
def rndPos (p d : Nat) : Option (Nat × Int) :=
  if roundHalfEven (scaleNum p (binExp p d)) (scaleDen d (binExp p d)) = 9007199254740992 then
    (if binExp p d + 1 > 971 then none else some (4503599627370496, binExp p d + 1))
  else
    (if binExp p d > 971 then none
     else some (roundHalfEven (scaleNum p (binExp p d)) (scaleDen d (binExp p d)), binExp p d))

/-- `m·2^e` as a fraction -/
def dyNum (m : Nat) (e : Int) : Nat := if e ≥ 0 then m * 2 ^ e.toNat else m
def dyDen (e : Int) : Nat := if e ≥ 0 then 1 else 2 ^ (-e).toNat

/-- round the non-negative dyadic `m·2^e` -/
def rndDy (neg : Bool) (m : Nat) (e : Int) : F64 :=
  if m = 0 then .fin neg 0 0
  else match rndPos (dyNum m e) (dyDen e) with
    | none => .inf neg
    | some (mm, ee) => .fin neg mm ee

/-- number of decimal digits of `n` (0 for 0), by fuel -/
def numDigits : Nat → Nat → Nat
  | 0, _ => 0
  | fuel + 1, n => if n = 0 then 0 else 1 + numDigits fuel (n / 10)

/-- the decimal `m10 · 10^ex` correctly rounded -/
def rndDec (neg : Bool) (m10 : Nat) (ex : Int) : F64 :=
  if m10 = 0 then .fin neg 0 0
  else if ex + (numDigits m10 m10 : Int) > 310 then .inf neg
  else if ex + (numDigits m10 m10 : Int) < -326 then .fin neg 0 0
  else if ex ≥ 0 then
    (match rndPos (m10 * 10 ^ ex.toNat) 1 with
     | none => .inf neg
     | some (mm, ee) => .fin neg mm ee)
  else
    (match rndPos m10 (10 ^ (-ex).toNat) with
     | none => .inf neg
     | some (mm, ee) => .fin neg mm ee)

def lower (c : Nat) : Nat := if 65 ≤ c ∧ c ≤ 90 then c + 32 else c

/-- leading digits of a byte string and the rest -/
def spanDigits : List Nat → List Nat × List Nat
  | [] => ([], [])
  | c :: cs => if isDigit c then ((c :: (spanDigits cs).1), (spanDigits cs).2) else ([], c :: cs)

/-- the exponent part: `[eE][+-]?digits+` up to the end of input, or nothing at all -/
def parseExp (bs : List Nat) : Option Int :=
  match bs with
  | [] => some 0
  | c :: r =>
    if c = 101 ∨ c = 69 then
      match r with
      | [] => none
      | s :: ds =>
        if s = 45 then (if ds ≠ [] ∧ allDigits ds = true then some (-(valDigits ds 0 : Int)) else none)
        else if s = 43 then (if ds ≠ [] ∧ allDigits ds = true then some (valDigits ds 0 : Int) else none)
        else (if allDigits (s :: ds) = true then some (valDigits (s :: ds) 0 : Int) else none)
    else none

/-- `lexical_core::parse::<f64>` after the optional sign (general path) -/
def parseF64Unsigned (neg : Bool) (bs : List Nat) : Option F64 :=
  if bs.map lower = [110, 97, 110] then some (.nan neg)
  else if bs.map lower = [105, 110, 102] then some (.inf neg)
  else if bs.map lower = [105, 110, 102, 105, 110, 105, 116, 121] then some (.inf neg)
  else
    match (spanDigits bs).2 with
    | 46 :: r =>  -- '.'
      if (spanDigits bs).1 = [] ∧ (spanDigits r).1 = [] then none
      else match parseExp (spanDigits r).2 with
        | none => none
        | some ex => some (rndDec neg (valDigits ((spanDigits bs).1 ++ (spanDigits r).1) 0) (ex - ((spanDigits r).1.length : Int)))
    | r =>
      if (spanDigits bs).1 = [] then none
      else match parseExp r with
        | none => none
        | some ex => some (rndDec neg (valDigits (spanDigits bs).1 0) ex)

/-- `lexical_core::parse::<f64>` (bytes in, `none` = `Err`).  First branch: a plain digit string
    below 2^53 is that integer, exactly. -/
def parseF64 (bs : List Nat) : Option F64 :=
  if bs ≠ [] ∧ allDigits bs = true ∧ valDigits bs 0 < 9007199254740992 then some (.int (valDigits bs 0))
  else match bs with
    | [] => none
    | c :: r => if c = 45 then parseF64Unsigned true r
                else if c = 43 then parseF64Unsigned false r
                else parseF64Unsigned false (c :: r)

/-- `m₁·2^e₁ ≥ m₂·2^e₂` -/
def dyGe (m1 : Nat) (e1 : Int) (m2 : Nat) (e2 : Int) : Bool :=
  if e1 ≥ e2 then decide (m1 * 2 ^ (e1 - e2).toNat ≥ m2) else decide (m1 ≥ m2 * 2 ^ (e2 - e1).toNat)

/-- `f64::MAX = (2^53 − 1)·2^971` -/
def F64MAX_NUM : Nat := 9007199254740991 * 2 ^ 971

/-- truncation toward zero of `m·2^e` -/
def dyTrunc (m : Nat) (e : Int) : Nat := if e ≥ 0 then m * 2 ^ e.toNat else m / 2 ^ (-e).toNat

/-- `Unit * f64`, general path: `f` the unit's factor in nanoseconds (exactly representable),
    `q = (-1)^neg·m·2^e` finite. -/
def unitMulFin (f : Nat) (neg : Bool) (m : Nat) (e : Int) : Dur :=
  if m = 0 then Dur.fromTruncated 0
  else
    -- `q >= f64::MAX / factor` resp. `q <= f64::MIN / factor`
    match rndPos F64MAX_NUM f with
    | none => Dur.ZERO  -- unreachable: the quotient is below f64::MAX
    | some (tm, te) =>
      if dyGe m e tm te then (if neg then Dur.MIN else Dur.MAX)
      else
        -- `total_ns = q * factor`, rounded
        match rndPos (dyNum (m * f) e) (dyDen e) with
        | none => if neg then Dur.fromTotal I128MIN else Dur.fromTotal I128MAX
        | some (pm, pe) =>
          -- `total_ns.abs() < i64::MAX as f64` (= 2^63)
          if dyGe pm pe 9223372036854775808 0 = false then
            Dur.fromTruncated (if neg then -(dyTrunc pm pe : Int) else (dyTrunc pm pe : Int))
          else Dur.fromTotal (satI128 (if neg then -(dyTrunc pm pe : Int) else (dyTrunc pm pe : Int)))

/-- `impl Mul<f64> for Unit` with the unit's nanosecond factor `f` (> 0). -/
def unitMulF64 (f : Int) (q : F64) : Dur :=
  match q with
  | .int z =>
    if exact53 128 (z * f).natAbs = true ∧ (z * f).natAbs < 170141183460469231731687303715884105728 then
      -- the product is exact; neither bound test fires (|q| < 2^127 ≪ f64::MAX / factor)
      (if (z * f).natAbs < 9223372036854775808 then Dur.fromTruncated (z * f) else Dur.fromTotal (z * f))
    else unitMulFin f.toNat (decide (z < 0)) z.natAbs 0
  | .fin neg m e => unitMulFin f.toNat neg m e
  | .inf neg => if neg then Dur.MIN else Dur.MAX
  | .nan _ => Dur.fromTotal 0   -- every comparison is false; `NaN as i128 = 0`

/-- `Duration::compose_f64(1, …)`: the seven products added left to right -/
def composeF64 (dec : List F64) : Res Dur :=
  match dec with
  | [d, h, m, s, ms, us, ns] =>
    .ok (Dur.add (Dur.add (Dur.add (Dur.add (Dur.add (Dur.add
      (unitMulF64 Gen.NANOSECONDS_PER_DAY d) (unitMulF64 Gen.NANOSECONDS_PER_HOUR h))
      (unitMulF64 Gen.NANOSECONDS_PER_MINUTE m)) (unitMulF64 Gen.NANOSECONDS_PER_SECOND s))
      (unitMulF64 Gen.NANOSECONDS_PER_MILLISECOND ms)) (unitMulF64 Gen.NANOSECONDS_PER_MICROSECOND us))
      (unitMulF64 1 ns))
  | _ => .panic  -- the array has seven entries: unreachable (theorem)

-- ------------------------------------------------------------------------------------------
-- numerals of `parse_duration` (src/duration/parse.rs `enum Numeral`)

/-- `enum Numeral { Integer(i128), Float(f64) }` -/
inductive Num where
  | int (z : Int)
  | flt (x : F64)
deriving Repr, Inhabited

/-- `Numeral::parse`: a plain integer (optional sign, digits, fits i128) stays an integer; anything
    else (fraction, exponent, `inf`/`nan`, too many digits) goes through `parse::<f64>` -/
def parseNumeral (bs : List Nat) : Option Num :=
  match parseI128 bs with
  | some z => some (.int z)
  | none => match parseF64 bs with
    | some x => some (.flt x)
    | none => none

/-- `UNIT_OF_POS[pos]` as the unit's length in ns (the index is checked by `setDec`) -/
def slotFactor : Nat → Int
  | 0 => Gen.NANOSECONDS_PER_DAY
  | 1 => Gen.NANOSECONDS_PER_HOUR
  | 2 => Gen.NANOSECONDS_PER_MINUTE
  | 3 => Gen.NANOSECONDS_PER_SECOND
  | 4 => Gen.NANOSECONDS_PER_MILLISECOND
  | 5 => Gen.NANOSECONDS_PER_MICROSECOND
  | _ => 1

/-- `Numeral::times(unit)`: an integer is multiplied exactly
    (`from_total_nanoseconds(val.saturating_mul((1 * unit).total_nanoseconds()))`), a float as before -/
def numTimes (f : Int) (v : Num) : Dur :=
  match v with
  | .int z => Dur.fromTotal (satI128 (z * f))
  | .flt x => unitMulF64 f x

/-- `decomposed[0] + decomposed[1] + … + decomposed[6]` (the summation order of `compose_f64`) -/
def sumDec (dec : List Dur) : Res Dur :=
  match dec with
  | [d, h, m, s, ms, us, ns] =>
    .ok (Dur.add (Dur.add (Dur.add (Dur.add (Dur.add (Dur.add d h) m) s) ms) us) ns)
  | _ => .panic  -- the array has seven entries: unreachable (theorem)

-- ------------------------------------------------------------------------------------------
-- `parse_duration`

/-- `cmp_chars_to_str(s, start_idx, cmp_str)`: byte comparison, no boundary requirement -/
def cmpAt (bs : List Nat) (start : Nat) (u : List Nat) : Bool :=
  if start + u.length > bs.length then false else decide ((bs.drop start).take u.length = u)

/-- `for &(unit_str, pos) in UNITS { if cmp_chars_to_str(..) { … break } }` -/
def lookupUnit (bs : List Nat) (start : Nat) : List (List Nat × Nat) → Option Nat
  | [] => none
  | e :: t => if cmpAt bs start e.1 = true then some e.2 else lookupUnit bs start t

/-- loop state of `parse_duration` -/
structure PSt where
  prev : Nat            -- prev_idx
  seeking : Bool        -- seeking_number
  latest : Num          -- latest_value
  pcws : Bool           -- prev_char_was_space
  dec : List Dur        -- decomposed: [Duration; 7]
deriving Repr

def PSt.init : PSt :=
  ⟨0, true, .int 0, false, [Dur.ZERO, Dur.ZERO, Dur.ZERO, Dur.ZERO, Dur.ZERO, Dur.ZERO, Dur.ZERO]⟩

/-- `decomposed[pos] = latest_value.times(UNIT_OF_POS[pos])` (index out of bounds panics) -/
def setDec (st : PSt) (pos : Nat) : Res (List Dur) :=
  if pos < st.dec.length then .ok (st.dec.set pos (numTimes (slotFactor pos) st.latest)) else .panic

/-- one iteration of `for (idx, char) in s.char_indices()` -/
def pdStep (bs : List Nat) (idx c : Nat) (st : PSt) : Res PSt :=
  if c = 32 then
    if st.seeking = true then
      if st.pcws = false then
        if st.prev = idx then .err
        else match sliceB bs st.prev idx with
          | .panic => .panic
          | .err => .err
          | .ok num => match parseNumeral num with
            | none => .err
            | some v => .ok ⟨st.prev, false, v, true, st.dec⟩
      else .ok ⟨st.prev, st.seeking, st.latest, true, st.dec⟩
    else
      -- `s[idx..].char_indices().next()` is `Some((0, ' '))`: end_idx = idx
      match sliceB bs idx bs.length with
      | .panic => .panic
      | .err => .err
      | .ok _ => match lookupUnit bs st.prev Gen.DUR_UNITS with
        | none => .err
        | some pos => match setDec st pos with
          | .ok dec => .ok ⟨idx, true, st.latest, true, dec⟩
          | .err => .err
          | .panic => .panic
  else .ok ⟨if st.pcws = true then idx else st.prev, st.seeking, st.latest, false, st.dec⟩

/-- the loop: recursion on the remaining characters, carrying the byte index -/
def pdLoop (bs : List Nat) : List Nat → Nat → PSt → Res PSt
  | [], _, st => .ok st
  | c :: cs, idx, st =>
    match pdStep bs idx c st with
    | .ok st' => pdLoop bs cs (idx + utf8Size c) st'
    | .err => .err
    | .panic => .panic

/-- after the loop: the last element -/
def pdFinish (bs : List Nat) (st : PSt) : Res Dur :=
  if st.seeking = false then
    match lookupUnit bs st.prev Gen.DUR_UNITS with
    | none => .err
    | some pos => match setDec st pos with
      | .ok dec => sumDec dec
      | .err => .err
      | .panic => .panic
  else if st.prev < bs.length then .err
  else sumDec st.dec

/-- `parse_duration(s)`, `cs` the code points of `s` -/
def parseDuration (cs : List Nat) : Res Dur :=
  match pdLoop (utf8s cs) cs 0 PSt.init with
  | .ok st => pdFinish (utf8s cs) st
  | .err => .err
  | .panic => .panic

-- ------------------------------------------------------------------------------------------
-- `parse_offset`

/-- `hours * Unit::Hour + minutes * Unit::Minute + seconds * Unit::Second` -/
def offsetDur (h m s : Int) : Dur :=
  Dur.add (Dur.add (Dur.unitMulI64 Gen.NANOSECONDS_PER_HOUR h) (Dur.unitMulI64 Gen.NANOSECONDS_PER_MINUTE m))
    (Dur.unitMulI64 Gen.NANOSECONDS_PER_SECOND s)

/-- body of `parse_offset` after the length test; `colon` ∈ {0, 1} -/
def parseOffsetCore (bs : List Nat) (colon : Nat) : Res Dur :=
  match sliceB bs 1 3 with
  | .panic => .panic
  | .err => .err
  | .ok hs =>
    match parseI64 hs with
    | none => .err
    | some h =>
      match getB bs (3 + colon) (5 + colon) with
      | none => .ok (offsetDur h 0 0)
      | some ms =>
        match parseI64 ms with
        | none => .err
        | some m =>
          match getFromB bs (5 + 2 * colon) with
          | none => .ok (offsetDur h m 0)
          | some ss =>
            if ss = [] then .ok (offsetDur h m 0)
            else match parseI64 ss with
              | none => .err
              | some s => .ok (offsetDur h m s)

/-- `parse_offset(s)` on the bytes of `s` -/
def parseOffset (bs : List Nat) : Res Dur :=
  if bs.all (fun b => decide (b < 128)) = false then .err
  else if bs.length = 3 ∨ bs.length = 5 ∨ bs.length = 7 then parseOffsetCore bs 0
  else if bs.length = 4 ∨ bs.length = 6 ∨ bs.length = 9 then parseOffsetCore bs 1
  else .err

-- ------------------------------------------------------------------------------------------
-- `impl FromStr for Duration`

def negRes (r : Res Dur) : Res Dur :=
  match r with
  | .ok d => Dur.neg d
  | .err => .err
  | .panic => .panic

/-- `from_str` after `trim` -/
def fromStrCore (s : List Nat) : Res Dur :=
  match s with
  | [] => .err
  | c :: cs =>
    if c = 45 then
      match parseOffset (utf8s (c :: cs)) with
      | .ok d => Dur.neg d
      | .panic => .panic
      | .err =>
        -- `&s[skip..]`, skip = 1
        match sliceB (utf8s (c :: cs)) 1 (utf8s (c :: cs)).length with
        | .ok _ => negRes (parseDuration cs)
        | .err => .err
        | .panic => .panic
    else if c = 43 then
      match parseOffset (utf8s (c :: cs)) with
      | .ok d => .ok d
      | .panic => .panic
      | .err => parseDuration (c :: cs)   -- skip = 0: the `+` stays in the text
    else parseDuration (c :: cs)

/-- `Duration::from_str` on an arbitrary list of code points -/
def parseDurationIdx (s : List Nat) : Res Dur := fromStrCore (trim s)

-- ------------------------------------------------------------------------------------------
-- `impl Display for Duration`

/-- decimal digits of `n`, most significant first, by fuel (`decDigits n = decDigitsF n n`) -/
def decDigitsF : Nat → Nat → List Nat
  | 0, n => [48 + n % 10]
  | fuel + 1, n => if n < 10 then [48 + n] else decDigitsF fuel (n / 10) ++ [48 + n % 10]

/-- `format!("{}", n)` for an unsigned integer -/
def decDigits (n : Nat) : List Nat := decDigitsF n n

/-- the loop over `values.iter().zip(units.iter())`: (value, unit name) pairs, `insert_space` -/
def displayItems : List (Int × List Nat) → Bool → List Nat
  | [], _ => []
  | it :: t, sp =>
    if it.1 > 0 then (if sp = true then [32] else []) ++ decDigits it.1.toNat ++ [32] ++ it.2 ++ displayItems t true
    else displayItems t sp

def nameDays : List Nat := [100, 97, 121, 115]
def nameDay : List Nat := [100, 97, 121]
def nameH : List Nat := [104]
def nameMin : List Nat := [109, 105, 110]
def nameS : List Nat := [115]
def nameMs : List Nat := [109, 115]
def nameUs : List Nat := [956, 115]     -- "μs": U+03BC GREEK SMALL LETTER MU, 's'
def nameNs : List Nat := [110, 115]

/-- `format!("{d}")` as code points -/
def display (d : Dur) : Res (List Nat) :=
  if Dur.totalNs d = 0 then .ok [48, 32, 110, 115]
  else match Dur.decompose d with
    | .ok (sg, dd, h, m, s, ms, us, ns) =>
      .ok ((if sg = -1 then [45] else []) ++
        displayItems [(dd, if dd > 1 then nameDays else nameDay), (h, nameH), (m, nameMin), (s, nameS),
                      (ms, nameMs), (us, nameUs), (ns, nameNs)] false)
    | .err => .err
    | .panic => .panic

/-- the text of `format!("{d}")` as a plain list of code points (empty if the model's `abs` panics,
    which `display_spec` shows never happens for a canonical duration) -/
def displayText (d : Dur) : List Nat :=
  match display d with
  | .ok s => s
  | _ => []

/-- `Duration::subdivision(unit)`: `none` for Week and Century -/
def subdivision (d : Dur) (unit : String) : Res (Option Dur) :=
  match Dur.decompose d with
  | .ok (_, dd, h, m, s, ms, us, ns) =>
    match unit with
    | "ns" => .ok (some (Dur.unitMulI64 1 ns))
    | "us" => .ok (some (Dur.unitMulI64 Gen.NANOSECONDS_PER_MICROSECOND us))
    | "ms" => .ok (some (Dur.unitMulI64 Gen.NANOSECONDS_PER_MILLISECOND ms))
    | "s" => .ok (some (Dur.unitMulI64 Gen.NANOSECONDS_PER_SECOND s))
    | "min" => .ok (some (Dur.unitMulI64 Gen.NANOSECONDS_PER_MINUTE m))
    | "h" => .ok (some (Dur.unitMulI64 Gen.NANOSECONDS_PER_HOUR h))
    | "d" => .ok (some (Dur.unitMulI64 Gen.NANOSECONDS_PER_DAY dd))
    | _ => .ok none
  | .err => .err
  | .panic => .panic

-- ------------------------------------------------------------------------------------------
-- bit pattern of an `F64` (only used to compare with the harness op `lex_f64`)

/-- normalise `m·2^e` (m > 0, exactly representable) to a mantissa in [2^52, 2^53) or the subnormal exponent -/
def normDy : Nat → Nat → Int → Nat × Int
  | 0, m, e => (m, e)
  | fuel + 1, m, e =>
    if m ≥ 9007199254740992 then normDy fuel (m / 2) (e + 1)
    else if m < 4503599627370496 ∧ e > -1074 then normDy fuel (m * 2) (e - 1)
    else (m, e)

def bitsOfDy (neg : Bool) (m : Nat) (e : Int) : Nat :=
  (if neg then 9223372036854775808 else 0) +
  (if m = 0 then 0
   else if (normDy 2200 m e).1 ≥ 4503599627370496 then
     ((normDy 2200 m e).2 + 1075).toNat * 4503599627370496 + ((normDy 2200 m e).1 - 4503599627370496)
   else (normDy 2200 m e).1)

def F64.bits : F64 → Nat
  | .int z => bitsOfDy (decide (z < 0)) z.natAbs 0
  | .fin neg m e => bitsOfDy neg m e
  | .inf neg => (if neg then 9223372036854775808 else 0) + 2047 * 4503599627370496
  | .nan neg => (if neg then 9223372036854775808 else 0) + 2047 * 4503599627370496 + 2251799813685248

end Hifi.DurText
