import Hifi.Model.Epoch
import Hifi.Gen.Dyn
/-
  ET and TDB (src/epoch/mod.rs: `delta_et_tai`, `inner_g`, the ET/TDB arms of `to_time_scale`).

  The algorithm is written ONCE, generically over a carrier `α` with `+ - *`, a sine and decimal
  literals.  Instantiated at Lean's hardware `Float` (with the platform `sin`, as Rust's `f64::sin`)
  it runs in the driver and is compared with the implementation; instantiated at `ℝ` (Mathlib's
  `Real.sin`) it is what `Props/C07` proves theorems about.  Import-free.
-/
namespace Hifi.Dyn

/-- the periodic term `K·sin(E)`, `E = M + EB·sin M`, `M = M0 + M1·t` -/
def periodic {α} [Add α] [Mul α] (sin : α → α) (K EB M0 M1 t : α) : α :=
  K * sin (M0 + M1 * t + EB * sin (M0 + M1 * t))

/-- n steps `s ← s + sgn·periodic(s)` (the code's "Newton Raphson" loops: 5 steps) -/
def iterate {α} [Add α] [Mul α] (sin : α → α) (K EB M0 M1 sgn : α) : Nat → α → α
  | 0, s => s
  | n + 1, s => iterate sin K EB M0 M1 sgn n (s + sgn * periodic sin K EB M0 M1 s)

/-- TAI → ET on seconds past J2000: the offset `ET − TAI` the code adds, for TAI seconds `t`
    (`tt` = 32.184): five steps `s += K sin E(s)`, then `tt + K sin E(s + tt)` -/
def etMinusTai {α} [Add α] [Mul α] [OfNat α 1] (sin : α → α) (K EB M0 M1 tt t : α) : α :=
  tt + periodic sin K EB M0 M1 (iterate sin K EB M0 M1 1 5 t + tt)

/-- ET → TAI: the offset the code subtracts, for ET seconds `e`: five steps `s −= K sin E(s)`,
    then `tt + K sin E(s − tt)` -/
def etMinusTaiBack {α} [Add α] [Sub α] [Mul α] [Neg α] [OfNat α 1] (sin : α → α) (K EB M0 M1 tt e : α) : α :=
  tt + periodic sin K EB M0 M1 (iterate sin K EB M0 M1 (-1) 5 e - tt)

/-! ### hardware instance -/

def fK : Float := Float.ofBits Gen.NAIF_K_BITS
def fEB : Float := Float.ofBits Gen.NAIF_EB_BITS
def fM0 : Float := Float.ofBits Gen.NAIF_M0_BITS
def fM1 : Float := Float.ofBits Gen.NAIF_M1_BITS
def fSPC : Float := Float.ofBits Gen.SECONDS_PER_CENTURY_BITS
def fTAU : Float := Float.ofBits Gen.TAU_BITS
def f1em9 : Float := Float.ofBits Gen.LIT_1EM9_BITS
def f1e9 : Float := Float.ofBits Gen.LIT_1E9_BITS
def f360 : Float := Float.ofBits Gen.LIT_360_BITS
def f1e8 : Float := Float.ofBits Gen.LIT_1E8_BITS
def fI64MAX : Float := Float.ofBits Gen.LIT_I64MAX_BITS
def gG0 : Float := Float.ofBits Gen.TDB_G0_DEG_BITS
def gG1 : Float := Float.ofBits Gen.TDB_G1_BITS
def gK : Float := Float.ofBits Gen.TDB_K_BITS
def gEB : Float := Float.ofBits Gen.TDB_EB_BITS

/-- `Duration::to_seconds` in binary64 -/
def toSecondsF (d : Dur) : Float :=
  let secs := d.ns / 1000000000
  let sub := d.ns % 1000000000
  if d.c = 0 then Float.ofInt secs + Float.ofInt sub * f1em9
  else Float.ofInt d.c * fSPC + Float.ofInt secs + Float.ofInt sub * f1em9

/-- exact integer part (toward zero) of a finite double, from its bits -/
def truncToInt (x : Float) : Int :=
  let bits := x.toBits.toNat
  let sign := bits >>> 63
  let ex := (bits >>> 52) % 2048
  let mant := bits % (1 <<< 52)
  if ex == 0 then 0
  else
    let m := mant + (1 <<< 52)
    let e : Int := (ex : Int) - 1075
    let mag : Nat := if e ≥ 0 then m <<< e.toNat else m >>> (-e).toNat
    if sign == 1 then -(mag : Int) else (mag : Int)

def f64MAX : Float := Float.ofBits 0x7fefffffffffffff

/-- `x * Unit::Second` (`impl Mul<f64> for Unit`), finite `x` -/
def secondsDur (x : Float) : Dur :=
  if x ≥ f64MAX / f1e9 then Dur.MAX
  else if x ≤ (-f64MAX) / f1e9 then Dur.MIN
  else
    let t := x * f1e9
    if t.abs < fI64MAX then Dur.fromTruncated (truncToInt t)
    else Dur.fromTotal (satI128 (truncToInt t))

/-- `(TT_OFFSET_MS * Unit::Millisecond).to_seconds()` -/
def ttSecondsF : Float := toSecondsF ttOffset

/-- `Epoch::delta_et_tai` -/
def deltaEtTaiF (seconds : Float) : Float :=
  let m := fM0 + seconds * fM1
  let e := m + fEB * m.sin
  ttSecondsF + fK * e.sin

/-- `Epoch::inner_g` -/
def innerGF (seconds : Float) : Float :=
  let g := fTAU / f360 * gG0 + gG1 * seconds
  gK * (g + gEB * g.sin).sin

def etPrimeOffset : Dur := ⟨Gen.PRIME_OFFSET_ET_C, Gen.PRIME_OFFSET_ET_NS⟩

/-- ET source arm: duration past J2000 ET → TAI duration past 1900 -/
def etToTai (d : Dur) : Dur :=
  let s0 := toSecondsF d
  let step (s : Float) : Float := s + (-fK) * (fM0 + fM1 * s + fEB * (fM0 + fM1 * s).sin).sin
  let s5 := step (step (step (step (step s0))))
  let delta := deltaEtTaiF (s5 - ttSecondsF)
  Dur.add (Dur.sub d (secondsDur delta)) etPrimeOffset

/-- TDB source arm -/
def tdbToTai (d : Dur) : Dur :=
  let gamma := innerGF (toSecondsF d)
  let delta := Dur.add (secondsDur gamma) ttOffset
  Dur.add (Dur.sub d delta) etPrimeOffset

/-- ET target arm: TAI duration past 1900 → ET duration past J2000 -/
def taiToEt (p : Dur) : Dur :=
  let s0 := toSecondsF (Dur.sub p etPrimeOffset)
  let step (s : Float) : Float := s - (-fK) * (fM0 + fM1 * s + fEB * (fM0 + fM1 * s).sin).sin
  let s5 := step (step (step (step (step s0))))
  let delta := deltaEtTaiF (s5 + ttSecondsF)
  Dur.sub (Dur.add p (secondsDur delta)) etPrimeOffset

/-- TDB target arm (iteration with early exit) -/
def taiToTdb (p : Dur) : Dur :=
  let s0 := toSecondsF (Dur.sub p etPrimeOffset)
  let rec loop (n : Nat) (seconds delta : Float) : Float :=
    match n with
    | 0 => seconds
    | n + 1 =>
      let next := seconds - innerGF seconds
      let newDelta := (next - seconds).abs
      if (newDelta - delta).abs < f1em9 then seconds else loop n next newDelta
  let s := loop 5 s0 f1e8
  let gamma := innerGF (s + ttSecondsF)
  let delta := Dur.add (secondsDur gamma) ttOffset
  Dur.sub (Dur.add p delta) etPrimeOffset

/-- `to_time_scale` including the dynamical scales (hardware floats: not usable in proofs) -/
def toTimeScaleF (e : Ep) (ts : TS) : Option Ep :=
  if ts = e.ts then some e
  else
    let prime : Option Dur := match e.ts with
      | .ET => some (etToTai e.dur)
      | .TDB => some (tdbToTai e.dur)
      | _ => toTaiDur builtin e.dur e.ts
    match prime with
    | none => none
    | some p => match ts with
      | .ET => some ⟨taiToEt p, ts⟩
      | .TDB => some ⟨taiToTdb p, ts⟩
      | _ => (fromTaiDur builtin p ts).map (fun d => ⟨d, ts⟩)

end Hifi.Dyn
