import Hifi.Model.Epoch
import Hifi.Gen.Dyn
/-
  ET and TDB (src/epoch/mod.rs: `delta_et_tai`, `inner_g`, the ET/TDB arms of `to_time_scale`).

  Every floating-point expression of the Rust code is written ONCE, generically over a carrier `α`
  with `+ - * /`, negation, a sine, an absolute value and a decidable `<`, operation for operation and in
  the order of the source (`…G` definitions below).  The executable model is the instance at Lean's
  hardware `Float` (with the platform `sin`, as Rust's `f64::sin`): `deltaEtTaiF`, `innerGF`, `etToTai`,
  `taiToEt`, `tdbToTai`, `taiToTdb` are defined as applications of the `…G` definitions and nothing else
  touches a float between `Duration::to_seconds` and `f64 * Unit::Second`.  The instance at `ℝ` (Mathlib's
  `Real.sin`, `|·|`) is what `Props/C07` proves theorems about.  Import-free.
-/
namespace Hifi.Dyn

/-- the closed form of the property text: the periodic term `K·sin(E)`, `E = M + EB·sin M`, `M = M0 + M1·t`
    (specification vocabulary for `Props/C07`; the code-shaped definitions follow) -/
def periodic {α} [Add α] [Mul α] (sin : α → α) (K EB M0 M1 t : α) : α :=
  K * sin (M0 + M1 * t + EB * sin (M0 + M1 * t))

/-! ### the Rust expressions, generically (one definition per source expression) -/

/-- `Epoch::delta_et_tai(seconds)`:
    `let m = NAIF_M0 + seconds * NAIF_M1; let e = m + NAIF_EB * m.sin(); tt + NAIF_K * e.sin()` -/
def deltaEtTaiG {α} [Add α] [Mul α] (sin : α → α) (K EB M0 M1 tt seconds : α) : α :=
  let m := M0 + seconds * M1
  let e := m + EB * sin m
  tt + K * sin e

/-- `Epoch::inner_g(seconds)`:
    `let g = TAU / 360.0 * 357.528 + 1.990_910_018_065_731e-7 * seconds; 1.658e-3 * (g + 1.67e-2 * g.sin()).sin()` -/
def innerGG {α} [Add α] [Mul α] [Div α] (sin : α → α) (TAU c360 G0 G1 K EB seconds : α) : α :=
  let g := TAU / c360 * G0 + G1 * seconds
  K * sin (g + EB * sin g)

/-- body of the loop of the ET SOURCE arm:
    `s += -NAIF_K * (NAIF_M0 + NAIF_M1 * s + NAIF_EB * (NAIF_M0 + NAIF_M1 * s).sin()).sin()` -/
def etStepSrcG {α} [Add α] [Mul α] [Neg α] (sin : α → α) (K EB M0 M1 s : α) : α :=
  s + (-K) * sin (M0 + M1 * s + EB * sin (M0 + M1 * s))

/-- body of the loop of the ET TARGET arm: `s -= -NAIF_K * (… same …).sin()` -/
def etStepTgtG {α} [Add α] [Sub α] [Mul α] [Neg α] (sin : α → α) (K EB M0 M1 s : α) : α :=
  s - (-K) * sin (M0 + M1 * s + EB * sin (M0 + M1 * s))

/-- ET source arm, the float part: `s0 = self.duration.to_seconds()`, five loop bodies, then
    `delta_et_tai(s5 - tt)`; the result is the `ET − TAI` the arm subtracts -/
def etSrcDeltaG {α} [Add α] [Sub α] [Mul α] [Neg α] (sin : α → α) (K EB M0 M1 tt s0 : α) : α :=
  let s5 := etStepSrcG sin K EB M0 M1 (etStepSrcG sin K EB M0 M1 (etStepSrcG sin K EB M0 M1
              (etStepSrcG sin K EB M0 M1 (etStepSrcG sin K EB M0 M1 s0))))
  deltaEtTaiG sin K EB M0 M1 tt (s5 - tt)

/-- ET target arm, the float part: `s0 = (tai - J2000).to_seconds()`, five loop bodies, then
    `delta_et_tai(s5 + tt)`; the result is the `ET − TAI` the arm adds -/
def etTgtDeltaG {α} [Add α] [Sub α] [Mul α] [Neg α] (sin : α → α) (K EB M0 M1 tt s0 : α) : α :=
  let s5 := etStepTgtG sin K EB M0 M1 (etStepTgtG sin K EB M0 M1 (etStepTgtG sin K EB M0 M1
              (etStepTgtG sin K EB M0 M1 (etStepTgtG sin K EB M0 M1 s0))))
  deltaEtTaiG sin K EB M0 M1 tt (s5 + tt)

/-- the loop of the TDB target arm (`g` = `inner_g`, `eps` = 1e-9), `n` remaining rounds:
    `let next = seconds - g(seconds); let new_delta = (next - seconds).abs();
     if (new_delta - delta).abs() < 1e-9 { break } seconds = next; delta = new_delta` -/
def tdbLoopG {α} [Sub α] [LT α] [∀ a b : α, Decidable (a < b)] (abs g : α → α) (eps : α) : Nat → α → α → α
  | 0, seconds, _ => seconds
  | n + 1, seconds, delta =>
    let next := seconds - g seconds
    let newDelta := abs (next - seconds)
    if abs (newDelta - delta) < eps then seconds else tdbLoopG abs g eps n next newDelta

/-- TDB target arm, the float part: `s0 = (tai - J2000).to_seconds()`, the loop (5 rounds, `delta = 1e8`),
    then `inner_g(seconds + tt)`; the result is `gamma`, and the arm adds `gamma.seconds() + 32.184 s` -/
def tdbTgtGammaG {α} [Add α] [Sub α] [Mul α] [Div α] [LT α] [∀ a b : α, Decidable (a < b)]
    (sin abs : α → α) (TAU c360 G0 G1 K EB tt eps c1e8 s0 : α) : α :=
  let s := tdbLoopG abs (innerGG sin TAU c360 G0 G1 K EB) eps 5 s0 c1e8
  innerGG sin TAU c360 G0 G1 K EB (s + tt)

/-! ### hardware instance -/

def fK : Float := Float.ofBits Gen.NAIF_K_BITS
def fEB : Float := Float.ofBits Gen.NAIF_EB_BITS
def fM0 : Float := Float.ofBits Gen.NAIF_M0_BITS
def fM1 : Float := Float.ofBits Gen.NAIF_M1_BITS
def fSPC : Float := Float.ofBits Gen.SECONDS_PER_CENTURY_BITS
def fTAU : Float := Float.ofBits Gen.TAU_BITS
def f1em9 : Float := Float.ofBits Gen.LIT_1EM9_BITS
def f1e9 : Float := Float.ofBits Gen.LIT_1E9_BITS
def f360 : Float := Float.ofBits Gen.LIT_360_BITS
def f1e8 : Float := Float.ofBits Gen.LIT_1E8_BITS
def fI64MAX : Float := Float.ofBits Gen.LIT_I64MAX_BITS
def gG0 : Float := Float.ofBits Gen.TDB_G0_DEG_BITS
def gG1 : Float := Float.ofBits Gen.TDB_G1_BITS
def gK : Float := Float.ofBits Gen.TDB_K_BITS
def gEB : Float := Float.ofBits Gen.TDB_EB_BITS

/-- `Duration::to_seconds` in binary64 -/
def toSecondsF (d : Dur) : Float :=
  let secs := d.ns / 1000000000
  let sub := d.ns % 1000000000
  if d.c = 0 then Float.ofInt secs + Float.ofInt sub * f1em9
  else Float.ofInt d.c * fSPC + Float.ofInt secs + Float.ofInt sub * f1em9

/-- exact integer part (toward zero) of a finite double, from its bits -/
def truncToInt (x : Float) : Int :=
  let bits := x.toBits.toNat
  let sign := bits >>> 63
  let ex := (bits >>> 52) % 2048
  let mant := bits % (1 <<< 52)
  if ex == 0 then 0
  else
    let m := mant + (1 <<< 52)
    let e : Int := (ex : Int) - 1075
    let mag : Nat := if e ≥ 0 then m <<< e.toNat else m >>> (-e).toNat
    if sign == 1 then -(mag : Int) else (mag : Int)

def f64MAX : Float := Float.ofBits 0x7fefffffffffffff

/-- `x * Unit::Second` (`impl Mul<f64> for Unit`), finite `x` -/
def secondsDur (x : Float) : Dur :=
  if x ≥ f64MAX / f1e9 then Dur.MAX
  else if x ≤ (-f64MAX) / f1e9 then Dur.MIN
  else
    let t := x * f1e9
    if t.abs < fI64MAX then Dur.fromTruncated (truncToInt t)
    else Dur.fromTotal (satI128 (truncToInt t))

/-- `(TT_OFFSET_MS * Unit::Millisecond).to_seconds()` -/
def ttSecondsF : Float := toSecondsF ttOffset

/-- `Epoch::delta_et_tai` at binary64 -/
def deltaEtTaiF (seconds : Float) : Float :=
  deltaEtTaiG Float.sin fK fEB fM0 fM1 ttSecondsF seconds

/-- `Epoch::inner_g` at binary64 -/
def innerGF (seconds : Float) : Float :=
  innerGG Float.sin fTAU f360 gG0 gG1 gK gEB seconds

def etPrimeOffset : Dur := ⟨Gen.PRIME_OFFSET_ET_C, Gen.PRIME_OFFSET_ET_NS⟩

/-- ET source arm: duration past J2000 ET → TAI duration past 1900 -/
def etToTai (d : Dur) : Dur :=
  let delta := etSrcDeltaG Float.sin fK fEB fM0 fM1 ttSecondsF (toSecondsF d)
  Dur.add (Dur.sub d (secondsDur delta)) etPrimeOffset

/-- TDB source arm -/
def tdbToTai (d : Dur) : Dur :=
  let gamma := innerGF (toSecondsF d)
  let delta := Dur.add (secondsDur gamma) ttOffset
  Dur.add (Dur.sub d delta) etPrimeOffset

/-- ET target arm: TAI duration past 1900 → ET duration past J2000 -/
def taiToEt (p : Dur) : Dur :=
  let delta := etTgtDeltaG Float.sin fK fEB fM0 fM1 ttSecondsF (toSecondsF (Dur.sub p etPrimeOffset))
  Dur.sub (Dur.add p (secondsDur delta)) etPrimeOffset

/-- TDB target arm (iteration with early exit) -/
def taiToTdb (p : Dur) : Dur :=
  let gamma := tdbTgtGammaG Float.sin Float.abs fTAU f360 gG0 gG1 gK gEB ttSecondsF f1em9 f1e8
                 (toSecondsF (Dur.sub p etPrimeOffset))
  let delta := Dur.add (secondsDur gamma) ttOffset
  Dur.sub (Dur.add p delta) etPrimeOffset

/-- `to_time_scale` including the dynamical scales (hardware floats: not usable in proofs) -/
def toTimeScaleF (e : Ep) (ts : TS) : Option Ep :=
  if ts = e.ts then some e
  else
    let prime : Option Dur := match e.ts with
      | .ET => some (etToTai e.dur)
      | .TDB => some (tdbToTai e.dur)
      | _ => toTaiDur builtin e.dur e.ts
    match prime with
    | none => none
    | some p => match ts with
      | .ET => some ⟨taiToEt p, ts⟩
      | .TDB => some ⟨taiToTdb p, ts⟩
      | _ => (fromTaiDur builtin p ts).map (fun d => ⟨d, ts⟩)

end Hifi.Dyn
