import Hifi.Model.Calendar
import Hifi.Model.Epoch
import Hifi.Model.Views
import Hifi.Gen.UnicodeRanges
/-
  Executable model of the epoch text code (C10, C13), transcribed from the CURRENT sources
  (which contain the repairs 815794b, 8359eac, bc27c0b, 3686660, b159cb8, e8a14ed, 582282e, bfd663d):
    src/epoch/gregorian.rs   Epoch::from_gregorian_str (tokenizer loop), to_gregorian_str
    src/parser.rs            Token::advance_with, Token::value_ok, Token::gregorian_position
    src/epoch/mod.rs         impl FromStr for Epoch (JD / MJD / SEC prefixes, 3-byte scale suffix),
                             to_rfc3339, Serialize / Deserialize through the Display string
    src/epoch/initializers.rs from_jde_* / from_mjd_* / from_*_seconds reached from from_str
    src/efmt/formatter.rs    Display for Formatter, specialised to the constant efmt::consts::ISO8601
    src/timescale/fmt.rs     TimeScale::from_str / Display;  src/weekday.rs, src/month.rs  from_str

  Import-free (core Lean only).  Strings are lists of code points; the code mixes
  `chars().enumerate()` indices with BYTE slicing, so the model keeps UTF-8 byte sizes and every
  slice goes through `slice` / `sliceOpt`, which answer `panic` / `none` unless both ends are in
  range and on a character boundary — Rust's rule.  Plain machine arithmetic that can overflow
  (`10_i32.pow`, `val * …`, `usize - usize`) and `try_into().unwrap()` are explicit `panic` outcomes.

  External code, recorded as a contract (established with the harness ops `elex_i32 elex_i64 elex_f64`,
  which call the same `lexical_core` build hifitime links):
    lexical_core::parse::<i32>(bytes)  = optional `+`/`-`, then ≥ 1 ASCII digits, nothing else
                                         (no blanks, no `_`), leading zeros allowed, value must fit;
    lexical_core::parse::<f64>(bytes)  = optional sign, then `nan` | `inf` | `infinity` (any letter
                                         case) or digits[.digits][(e|E)[+|-]digits] with at least one
                                         mantissa digit and, if an exponent marker is present, at least
                                         one exponent digit; the result is the correctly rounded
                                         (nearest, ties to even) binary64 of the decimal, ±inf on overflow,
                                         ±0 on underflow (`lexF64` computes the bits in exact arithmetic).
  serde_json is the identity on the string payload (the Display text contains no character that
  JSON escapes).
-/
namespace Hifi
namespace Txt

/-! ### strings as code points with UTF-8 byte offsets -/

def utf8Size (c : Nat) : Nat := if c < 128 then 1 else if c < 2048 then 2 else if c < 65536 then 3 else 4

/-- `str::len` (bytes) -/
def byteLen : List Nat → Nat
  | [] => 0
  | c :: r => utf8Size c + byteLen r

def inRanges : List (Nat × Nat) → Nat → Bool
  | [], _ => false
  | p :: r, c => decide (p.1 ≤ c ∧ c ≤ p.2) || inRanges r c

/-- `char::is_whitespace`, `char::is_numeric`: tables dumped from the linked std -/
def isWhitespace (c : Nat) : Bool := inRanges Gen.UNICODE_WHITESPACE c
def isNumeric (c : Nat) : Bool := inRanges Gen.UNICODE_NUMERIC c

/-- `str::is_ascii` -/
def isAscii (s : List Nat) : Bool := s.all (fun c => decide (c < 128))

/-- `str::trim` -/
def trimStart (s : List Nat) : List Nat := s.dropWhile isWhitespace
def trimEnd (s : List Nat) : List Nat := (s.reverse.dropWhile isWhitespace).reverse
def trim (s : List Nat) : List Nat := trimEnd (trimStart s)

/-- the rest of `s` from byte offset `n`; `none` when `n` is out of range or inside a character -/
def dropBytes : List Nat → Nat → Option (List Nat)
  | s, 0 => some s
  | [], _ + 1 => none
  | c :: r, n + 1 => if utf8Size c ≤ n + 1 then dropBytes r (n + 1 - utf8Size c) else none

/-- the first `n` bytes of `s` as characters; `none` when out of range or inside a character -/
def takeBytes : List Nat → Nat → Option (List Nat)
  | _, 0 => some []
  | [], _ + 1 => none
  | c :: r, n + 1 =>
    if utf8Size c ≤ n + 1 then
      match takeBytes r (n + 1 - utf8Size c) with
      | some t => some (c :: t)
      | none => none
    else none

/-- `s.get(a..b)` -/
def sliceOpt (s : List Nat) (a b : Nat) : Option (List Nat) :=
  if a ≤ b then
    match dropBytes s a with
    | some t => takeBytes t (b - a)
    | none => none
  else none

/-- `&s[a..b]`: panics where `get` returns `None` -/
def slice (s : List Nat) (a b : Nat) : Res (List Nat) :=
  match sliceOpt s a b with
  | some t => .ok t
  | none => .panic

/-- `str::starts_with(&str)` -/
def startsWith : List Nat → List Nat → Bool
  | _, [] => true
  | [], _ :: _ => false
  | c :: r, p :: q => decide (c = p) && startsWith r q

/-! ### lexical_core (external, by contract) -/

def isDigit (c : Nat) : Bool := decide (48 ≤ c ∧ c ≤ 57)

/-- value of a run of ASCII digits, most significant first -/
def digitsVal : List Nat → Nat → Nat
  | [], acc => acc
  | c :: r, acc => digitsVal r (acc * 10 + (c - 48))

/-- unsigned part: at least one digit, digits only -/
def lexNat (s : List Nat) : Option Nat :=
  if s ≠ [] ∧ s.all isDigit = true then some (digitsVal s 0) else none

/-- `lexical_core::parse::<iN>` with the range `[lo, hi]` -/
def lexInt (lo hi : Int) (s : List Nat) : Option Int :=
  match s with
  | 45 :: r =>
    (match lexNat r with
     | some v => if lo ≤ -(v : Int) then some (-(v : Int)) else none
     | none => none)
  | 43 :: r =>
    (match lexNat r with
     | some v => if (v : Int) ≤ hi then some (v : Int) else none
     | none => none)
  | _ =>
    (match lexNat s with
     | some v => if (v : Int) ≤ hi then some (v : Int) else none
     | none => none)

def lexI32 (s : List Nat) : Option Int := lexInt (-2147483648) 2147483647 s
def lexI64 (s : List Nat) : Option Int := lexInt (-9223372036854775808) 9223372036854775807 s

/-- ASCII lower case of a code point -/
def lowerA (c : Nat) : Nat := if 65 ≤ c ∧ c ≤ 90 then c + 32 else c

/-- ⌊log₂ (n/d)⌋ for positive `n`, `d` -/
def log2Ratio (n d : Nat) : Int :=
  if (if (n.log2 : Int) - (d.log2 : Int) + 1 ≥ 0 then decide (n ≥ d * 2 ^ ((n.log2 : Int) - (d.log2 : Int) + 1).toNat)
      else decide (n * 2 ^ (-((n.log2 : Int) - (d.log2 : Int) + 1)).toNat ≥ d)) then (n.log2 : Int) - (d.log2 : Int) + 1
  else if (if (n.log2 : Int) - (d.log2 : Int) ≥ 0 then decide (n ≥ d * 2 ^ ((n.log2 : Int) - (d.log2 : Int)).toNat)
      else decide (n * 2 ^ (-((n.log2 : Int) - (d.log2 : Int))).toNat ≥ d)) then (n.log2 : Int) - (d.log2 : Int)
  else (n.log2 : Int) - (d.log2 : Int) - 1

def F64_INF : Nat := 0x7ff0000000000000

/-- quotient rounded to nearest, ties to even -/
def divRoundEven (num den : Nat) : Nat :=
  if 2 * (num % den) > den ∨ (2 * (num % den) = den ∧ num / den % 2 = 1) then num / den + 1 else num / den

/-- binary64 bits (sign bit clear) of the positive rational `n/d` rounded to nearest-even; `ee` is the
    exponent of the binade used for the quantum (−1022 for subnormals) -/
def roundBitsAt (n d : Nat) (ee : Int) : Nat :=
  -- the significand in units of 2^(ee-52); `(ee + 1022) · 2^52 + q` is the bit pattern for normal,
  -- subnormal and carried values alike
  if ee - 52 ≥ 0 then (ee + 1022).toNat * 2 ^ 52 + divRoundEven n (d * 2 ^ (ee - 52).toNat)
  else (ee + 1022).toNat * 2 ^ 52 + divRoundEven (n * 2 ^ (52 - ee).toNat) d

def roundBits (n d : Nat) : Nat :=
  if n = 0 then 0
  else if log2Ratio n d > 1023 then F64_INF
  else if roundBitsAt n d (if log2Ratio n d < -1022 then -1022 else log2Ratio n d) ≥ F64_INF then F64_INF
  else roundBitsAt n d (if log2Ratio n d < -1022 then -1022 else log2Ratio n d)

/-- number of significant digits of a digit run: leading zeros do not count -/
def sigLen (ds : List Nat) : Nat := (ds.dropWhile (fun c => decide (c = 48))).length

/-- bits of the correctly rounded `m · 10^e` (`m` with `nd` significant decimal digits, so that
    10^(nd-1) ≤ m < 10^nd) -/
def decimalBits (m : Nat) (nd : Nat) (e : Int) : Nat :=
  if m = 0 then 0
  else if (nd : Int) + e > 310 then F64_INF          -- ≥ 10^309 > f64::MAX
  else if (nd : Int) + e < -330 then 0                -- < 10^-330 < half the least subnormal
  else if e ≥ 0 then roundBits (m * 10 ^ e.toNat) 1
  else roundBits m (10 ^ (-e).toNat)

/-- the leading run of ASCII digits and the rest -/
def spanDigits : List Nat → List Nat × List Nat
  | [] => ([], [])
  | c :: r => if isDigit c then (c :: (spanDigits r).1, (spanDigits r).2) else ([], c :: r)

/-- exponent part after `e`/`E`: optional sign, ≥ 1 digits, nothing else -/
def lexExp (s : List Nat) : Option Int :=
  match s with
  | 45 :: r => (match lexNat r with | some v => some (-(v : Int)) | none => none)
  | 43 :: r => (match lexNat r with | some v => some (v : Int) | none => none)
  | _ => (match lexNat s with | some v => some (v : Int) | none => none)

/-- unsigned body of a float literal → bits -/
def lexF64Body (s : List Nat) : Option Nat :=
  if s.map lowerA = [110, 97, 110] then some 0x7ff8000000000000
  else if s.map lowerA = [105, 110, 102] ∨ s.map lowerA = [105, 110, 102, 105, 110, 105, 116, 121] then some F64_INF
  else
    match (spanDigits s).2 with
    | [] =>
      if (spanDigits s).1 = [] then none
      else some (decimalBits (digitsVal (spanDigits s).1 0) (sigLen (spanDigits s).1) 0)
    | 46 :: r =>
      (if (spanDigits s).1 = [] ∧ (spanDigits r).1 = [] then none
       else match (spanDigits r).2 with
         | [] => some (decimalBits (digitsVal ((spanDigits s).1 ++ (spanDigits r).1) 0)
                   (sigLen ((spanDigits s).1 ++ (spanDigits r).1)) (-((spanDigits r).1.length : Int)))
         | x :: t =>
           if x = 101 ∨ x = 69 then
             (match lexExp t with
              | some e => some (decimalBits (digitsVal ((spanDigits s).1 ++ (spanDigits r).1) 0)
                   (sigLen ((spanDigits s).1 ++ (spanDigits r).1)) (e - ((spanDigits r).1.length : Int)))
              | none => none)
           else none)
    | x :: t =>
      if (spanDigits s).1 = [] then none
      else if x = 101 ∨ x = 69 then
        (match lexExp t with
         | some e => some (decimalBits (digitsVal (spanDigits s).1 0) (sigLen (spanDigits s).1) e)
         | none => none)
      else none

/-- `lexical_core::parse::<f64>`: bit pattern of the result -/
def lexF64 (s : List Nat) : Option Nat :=
  match s with
  | 45 :: r => (match lexF64Body r with | some b => some (b + 0x8000000000000000) | none => none)
  | 43 :: r => lexF64Body r
  | _ => lexF64Body s

/-- `f64::is_finite` on a bit pattern -/
def finiteBits (b : Nat) : Bool := decide (b / 2 ^ 52 % 2048 ≠ 2047)

/-! ### the three enum parsers -/

def lookup {α} : List (List Nat × α) → List Nat → Option α
  | [], _ => none
  | p :: r, s => if p.1 = s then some p.2 else lookup r s

/-- `TimeScale::from_str` -/
def tsFromStr (s : List Nat) : Option TS := lookup Gen.TIMESCALE_SPELLINGS (trim s)
/-- `Weekday::from_str` (Monday = 0) -/
def weekdayFromStr (s : List Nat) : Option Nat := lookup Gen.WEEKDAY_SPELLINGS (trim s)
/-- `MonthName::from_str` (January = 1) -/
def monthFromStr (s : List Nat) : Option Nat := lookup Gen.MONTH_SPELLINGS (trim s)

/-- `impl Display for TimeScale` -/
def tsDisplay (ts : TS) : List Nat :=
  match Gen.TIMESCALE_DISPLAY.find? (fun p => p.1 = ts) with
  | some p => p.2
  | none => []

/-! ### Token (src/parser.rs), restricted to the tokens `from_gregorian_str` can reach -/

inductive Tok where
  | year | month | day | hour | minute | second | subsecond | offH | offM | timescale
deriving DecidableEq, Repr, Inhabited

/-- `Token::advance_with`: `none` = `Err` -/
def advanceWith (t : Tok) (c : Nat) : Option Tok :=
  match t with
  | .year => if c = 45 then some .month else none
  | .month => if c = 45 then some .day else none
  | .day => if c = 84 ∨ c = 32 then some .hour else none
  | .hour => if c = 58 then some .minute else none
  | .minute => if c = 58 then some .second else none
  | .second =>
    if c = 46 then some .subsecond
    else if c = 32 ∨ c = 90 then some .timescale
    else if c = 45 ∨ c = 43 then some .offH
    else none
  | .subsecond =>
    if c = 32 ∨ c = 90 then some .timescale
    else if c = 45 ∨ c = 43 then some .offH
    else none
  | .offH => if c = 58 then some .offM else none
  | .offM => if c = 32 ∨ c = 90 then some .timescale else none
  | .timescale => some .timescale

/-- `Token::value_ok` -/
def valueOk (t : Tok) (v : Int) : Bool :=
  match t with
  | .year => true
  | .month => decide (0 ≤ v ∧ v ≤ 13)
  | .day => decide (0 ≤ v ∧ v ≤ 31)
  | .hour => decide (0 ≤ v ∧ v ≤ 23)
  | .offH => decide (0 ≤ v ∧ v ≤ 23)
  | .minute => decide (0 ≤ v ∧ v ≤ 59)
  | .offM => decide (0 ≤ v ∧ v ≤ 59)
  | .second => decide (0 ≤ v ∧ v ≤ 60)
  | .subsecond => decide (0 ≤ v)
  | .timescale => true

/-- the local variables of `from_gregorian_str`: `decomposed[0..9]`, `offset_sign`, `ts`, `prev_idx`, `cur_token` -/
structure GSt where
  y : Int
  mo : Int
  d : Int
  h : Int
  mi : Int
  sec : Int
  ns : Int
  oh : Int
  om : Int
  sign : Int
  ts : TS
  prev : Nat
  tok : Tok
deriving DecidableEq, Repr, Inhabited

def GSt.init : GSt := ⟨0, 0, 0, 0, 0, 0, 0, 0, 0, 1, .UTC, 0, .year⟩

/-- `decomposed[tok.gregorian_position().unwrap()] = v` -/
def setField (st : GSt) (t : Tok) (v : Int) : GSt :=
  match t with
  | .year => { st with y := v }
  | .month => { st with mo := v }
  | .day => { st with d := v }
  | .hour => { st with h := v }
  | .minute => { st with mi := v }
  | .second => { st with sec := v }
  | .subsecond => { st with ns := v }
  | .offH => { st with oh := v }
  | .offM => { st with om := v }
  | .timescale => st

/-- outcome of one iteration of the `for (idx, char)` loop -/
inductive Step where
  | cont (st : GSt)
  | stop (r : Res GSt)

/-- end of a field iteration: `prev_idx = idx + 1` and, when the token just entered is OffsetHours,
    the sign is read from `&s[idx..idx + 1]` -/
def afterField (s : List Nat) (idx : Nat) (cur : Tok) (st : GSt) : Step :=
  if cur = .offH then
    match slice s idx (idx + 1) with
    | .ok t => .cont { st with tok := cur, prev := idx + 1, sign := if t = [45] then -1 else st.sign }
    | .err => .stop .panic
    | .panic => .stop .panic
  else .cont { st with tok := cur, prev := idx + 1 }

/-- `lexical_core::parse(s[prev_idx..end_idx])`, `value_ok`, the sub-second scaling -/
def fieldParse (s : List Nat) (idx endIdx : Nat) (cur : Tok) (st : GSt) : Step :=
  if st.prev > endIdx then .stop .err
  else
    match slice s st.prev endIdx with
    | .ok sub =>
      (match lexI32 sub with
       | none => .stop .err
       | some v =>
         if valueOk st.tok v = false then .stop .err
         else if st.tok = .subsecond then
           (if endIdx - st.prev > 9 then .stop .err
            else if endIdx - st.prev ≠ 9 then
              (if Cal.fitsI32 (10 ^ (9 - (endIdx - st.prev))) = true ∧
                  Cal.fitsI32 (v * 10 ^ (9 - (endIdx - st.prev))) = true then
                 afterField s idx cur (setField st .subsecond (v * 10 ^ (9 - (endIdx - st.prev))))
               else .stop .panic)
            else afterField s idx cur (setField st .subsecond v))
         else afterField s idx cur (setField st st.tok v))
    | .err => .stop .panic
    | .panic => .stop .panic

/-- the branch of the loop body that closes a numeric field -/
def fieldStep (s : List Nat) (len : Nat) (c idx : Nat) (st : GSt) : Step :=
  if idx ≠ len - 1 ∨ isNumeric c = false then
    match advanceWith st.tok c with
    | none => .stop .err
    | some tok' => fieldParse s idx idx tok' st
  else fieldParse s idx (idx + 1) st.tok st

/-- one iteration: `len = s.len()` (bytes), `idx` the `enumerate()` index of `c` -/
def gregStep (s : List Nat) (len : Nat) (c idx : Nat) (st : GSt) : Step :=
  if len = 0 then .stop .panic                              -- `s.len() - 1` (never reached: the loop body needs a character)
  else if isNumeric c = true ∧ idx ≠ len - 1 then .cont st
  else if st.tok = .timescale then
    (if idx ≠ len - 1 then
       match slice s idx len with
       | .ok t =>
         (match tsFromStr t with
          | some ts => .stop (.ok { st with ts := ts })
          | none => .stop .err)
       | .err => .stop .panic
       | .panic => .stop .panic
     else .stop (.ok st))
  else fieldStep s len c idx st

def gregLoop (s : List Nat) (len : Nat) : List Nat → Nat → GSt → Res GSt
  | [], _, st => .ok st
  | c :: rest, idx, st =>
    match gregStep s len c idx st with
    | .cont st' => gregLoop s len rest (idx + 1) st'
    | .stop r => r

def fitsU8 (x : Int) : Bool := decide (0 ≤ x ∧ x ≤ 255)
def fitsU32 (x : Int) : Bool := decide (0 ≤ x ∧ x ≤ 4294967295)

/-- `i64::from(decomposed[7]) * Unit::Hour + i64::from(decomposed[8]) * Unit::Minute`, negated when the
    sign in the text is `+` -/
def tzOf (st : GSt) : Res Dur :=
  if st.sign > 0 then Dur.neg (Dur.add (Dur.unitMulI64 Cal.NPH st.oh) (Dur.unitMulI64 Cal.NPMIN st.om))
  else .ok (Dur.add (Dur.unitMulI64 Cal.NPH st.oh) (Dur.unitMulI64 Cal.NPMIN st.om))

/-- the check made when the text had second = 60 (fix 582282e): the epoch, once the offset is removed,
    must show 23:59:59 of a day on which `is_gregorian_valid` allows a 60th second -/
def leapLabelOk (e : Dur) (ts : TS) : Res Bool :=
  match Cal.computeGregorian e ts with
  | .ok (y, m, d, hh, mm, ss, _) =>
    if hh = 23 ∧ mm = 59 ∧ ss = 59 then Cal.isGregorianValid y m d 23 59 60 0 else .ok false
  | .err => .panic          -- `compute_gregorian` returns a tuple, not a `Result`
  | .panic => .panic

/-- everything after the loop: `decomposed[5] = 59` when it was 60, the `try_into().unwrap()`s,
    `maybe_from_gregorian(...)? + tz`, the leap-second label check -/
def finishGreg (st : GSt) : Res Ep :=
  match tzOf st with
  | .ok tz =>
    if fitsU8 st.mo = true ∧ fitsU8 st.d = true ∧ fitsU8 st.h = true ∧ fitsU8 st.mi = true ∧ fitsU8 st.sec = true
        ∧ fitsU32 st.ns = true then
      match Cal.maybeFromGregorian st.y st.mo st.d st.h st.mi (if st.sec = 60 then 59 else st.sec) st.ns st.ts with
      | .ok d =>
        if st.sec = 60 then
          match leapLabelOk (Dur.add d tz) st.ts with
          | .ok true => .ok ⟨Dur.add d tz, st.ts⟩
          | .ok false => .err
          | .err => .err
          | .panic => .panic
        else .ok ⟨Dur.add d tz, st.ts⟩
      | .err => .err
      | .panic => .panic
    else .panic
  | .err => .panic
  | .panic => .panic

/-- `Epoch::from_gregorian_str` -/
def fromGregorianStrIdx (sIn : List Nat) : Res Ep :=
  if isAscii (trim sIn) = false then .err
  else
    match gregLoop (trim sIn) (byteLen (trim sIn)) (trim sIn) 0 GSt.init with
    | .ok st => finishGreg st
    | .err => .err
    | .panic => .panic

/-! ### the numeric forms -/

/-- the numeric initializers reached from `from_str`; each starts with `assert!(x.is_finite())`.
    `dur` is the float-valued part (a duration computed with hardware doubles, see `numericDurF` below),
    passed in so that this definition stays transparent.  Since fix bfd663d the JD and MJD forms call
    `from_jde_in_time_scale` / `from_mjd_in_time_scale` for whatever scale is written. -/
def numericEpoch (fmt : Nat) (ts : TS) (bits : Nat) (dur : TS → Dur) : Res Ep :=
  if fmt = 0 ∨ fmt = 1 then
    (if finiteBits bits = false then .panic else .ok ⟨dur ts, ts⟩)
  else
    -- from_tai_seconds / from_tdb_seconds / from_tt_seconds assert; from_et_seconds and
    -- `value * Unit::Second` + from_duration do not
    (if ts = .TAI ∨ ts = .TDB ∨ ts = .TT then (if finiteBits bits = false then .panic else .ok ⟨dur ts, ts⟩)
     else .ok ⟨dur ts, ts⟩)

/-- the time scale suffix (fix bfd663d): the first of the last 5, 4, 3 bytes that exists (`checked_sub`, `get`:
    in range and on a character boundary) and that `TimeScale::from_str` accepts; with it the bytes read -/
def suffixTs (s : List Nat) : List Nat → Option (TS × List Nat)
  | [] => none
  | n :: rest =>
    if byteLen s < n then suffixTs s rest
    else
      match sliceOpt s (byteLen s - n) (byteLen s) with
      | some t =>
        (match tsFromStr t with
         | some ts => some (ts, t)
         | none => suffixTs s rest)
      | none => suffixTs s rest

/-- `impl FromStr for Epoch`, numeric branch: `start` = `format.len()`, `fmt` 0 JD, 1 MJD, 2 SEC -/
def numericForm (s : List Nat) (start fmt : Nat) (dur : Nat → Nat → TS → Dur) : Res Ep :=
  match suffixTs s [5, 4, 3] with
  | none => .err
  | some (ts, tsStr) =>
    if byteLen s < byteLen (trim tsStr) then .panic        -- `s.len() - ts_str.trim().len()`
    else
      match slice s start (byteLen s - byteLen (trim tsStr)) with
      | .ok num =>
        (match lexF64 (trim num) with
         | some bits => if finiteBits bits = true then numericEpoch fmt ts bits (dur fmt bits) else .err
         | none => .err)
      | .err => .panic
      | .panic => .panic

/-- `impl FromStr for Epoch` -/
def epochFromStrWith (dur : Nat → Nat → TS → Dur) (sIn : List Nat) : Res Ep :=
  if byteLen (trim sIn) < 7 then .err
  else if startsWith (trim sIn) [74, 68] = true then numericForm (trim sIn) 2 0 dur
  else if startsWith (trim sIn) [77, 74, 68] = true then numericForm (trim sIn) 3 1 dur
  else if startsWith (trim sIn) [83, 69, 67] = true then numericForm (trim sIn) 3 2 dur
  else fromGregorianStrIdx sIn

/-! ### hardware-float part of the numeric initializers (executable only) -/

def fMjdJ1900 : Float := Float.ofInt Gen.MJD_J1900
/-- MJD_OFFSET = 2400000.5, built exactly -/
def fMjdOffset : Float := Float.ofInt 4800001 / Float.ofInt 2

/-- the duration of the epoch each initializer builds (`bits` finite) -/
def numericDurF (fmt : Nat) (bits : Nat) (ts : TS) : Dur :=
  if fmt = 0 then
    Dur.sub (Views.unitMulF Views.dayF (Float.ofBits (UInt64.ofNat bits) - fMjdJ1900 - fMjdOffset))
      (Cal.gregorianEpochOffset ts)
  else if fmt = 1 then
    Dur.sub (Views.unitMulF Views.dayF (Float.ofBits (UInt64.ofNat bits) - fMjdJ1900)) (Cal.gregorianEpochOffset ts)
  else Dyn.secondsDur (Float.ofBits (UInt64.ofNat bits))

/-- `Epoch::from_str` as the driver runs it -/
def epochFromStrIdx (s : List Nat) : Res Ep := epochFromStrWith numericDurF s

/-! ### formatting -/

/-- `to_rfc3339`: fields of the epoch in UTC, `+00:00` -/
def renderRfc3339 (y mo d h mi s ns : Int) : List Nat :=
  Cal.fmtInt 4 y ++ [45] ++ Cal.fmtInt 2 mo ++ [45] ++ Cal.fmtInt 2 d ++ [84] ++ Cal.fmtInt 2 h ++ [58] ++ Cal.fmtInt 2 mi
    ++ [58] ++ Cal.fmtInt 2 s ++ (if ns = 0 then [] else 46 :: Cal.fmtInt 9 ns) ++ [43, 48, 48, 58, 48, 48]

/-- `Epoch::to_rfc3339` for an epoch already in UTC (`to_duration_in_time_scale(UTC)` is then the identity) -/
def toRfc3339 (dur : Dur) : Res (List Nat) :=
  match Cal.computeGregorian dur .UTC with
  | .ok (y, mo, d, h, mi, s, ns) => .ok (renderRfc3339 y mo d h mi s ns)
  | .err => .err
  | .panic => .panic

/-- the format strings of `to_gregorian_str` / Display with the scale printed by `impl Display for TimeScale` -/
def renderGreg (y mo d h mi s ns : Int) (ts : TS) : List Nat :=
  Cal.fmtInt 4 y ++ [45] ++ Cal.fmtInt 2 mo ++ [45] ++ Cal.fmtInt 2 d ++ [84] ++ Cal.fmtInt 2 h ++ [58] ++ Cal.fmtInt 2 mi
    ++ [58] ++ Cal.fmtInt 2 s ++ (if ns = 0 then [] else 46 :: Cal.fmtInt 9 ns) ++ [32] ++ tsDisplay ts

/-- `impl Display for Epoch` (= `Cal.display` with the generated Display table of the scales) -/
def displayEpoch (dur : Dur) (ts : TS) : Res (List Nat) :=
  match Cal.computeGregorian dur ts with
  | .ok (y, mo, d, h, mi, s, ns) => .ok (renderGreg y mo d h mi s ns ts)
  | .err => .err
  | .panic => .panic

/-- `Epoch::to_gregorian_str(ts)` for `ts` = the epoch's own scale -/
def toGregorianStr (dur : Dur) (ts : TS) : Res (List Nat) := displayEpoch dur ts

/-- `format!("{}", Formatter::new(e, ISO8601))`: the eight items Year- Month- DayT Hour: Minute: Second.
    Subsecond(space) Timescale of the constant; none is optional, so nine fractional digits and the scale
    are always printed -/
def renderIso (y mo d h mi s ns : Int) (ts : TS) : List Nat :=
  Cal.fmtInt 4 y ++ [45] ++ Cal.fmtInt 2 mo ++ [45] ++ Cal.fmtInt 2 d ++ [84] ++ Cal.fmtInt 2 h ++ [58] ++ Cal.fmtInt 2 mi
    ++ [58] ++ Cal.fmtInt 2 s ++ [46] ++ Cal.fmtInt 9 ns ++ [32] ++ tsDisplay ts

def isoFormatterOutput (dur : Dur) (ts : TS) : Res (List Nat) :=
  match Cal.computeGregorian dur ts with
  | .ok (y, mo, d, h, mi, s, ns) => .ok (renderIso y mo d h mi s ns ts)
  | .err => .err
  | .panic => .panic

/-- `serde_json::to_string(&epoch)`: the Display text between double quotes -/
def jsonOfEpoch (dur : Dur) (ts : TS) : Res (List Nat) :=
  match displayEpoch dur ts with
  | .ok t => .ok ([34] ++ t ++ [34])
  | .err => .err
  | .panic => .panic

end Txt
end Hifi
