import Hifi.Model.Epoch
/-
  `Epoch::next_weekday_at_midnight / _at_noon / previous_weekday_at_midnight / _at_noon` (src/epoch/ops.rs):
  `self.next(weekday).with_hms_strict(h, 0, 0)` resp. `self.previous(weekday).with_hms_strict(h, 0, 0)` with h = 0 / 12.
  Kept in its own file so that the (large) lemma files over `Model/Epoch.lean` are not rebuilt.
-/
namespace Hifi

def resEp (r : Res Dur) (ts : TS) : Res Ep :=
  match r with
  | .ok d => .ok ⟨d, ts⟩
  | .err => .err
  | .panic => .panic

/-- `self.next(w).with_hms_strict(h, 0, 0)` -/
def Ep.nextWeekdayAt (e : Ep) (w h : Int) : Res Ep :=
  resEp (withHmsStrictCal (e.nextOwn w).dur e.ts h) e.ts

/-- `self.previous(w).with_hms_strict(h, 0, 0)` -/
def Ep.previousWeekdayAt (e : Ep) (w h : Int) : Res Ep :=
  resEp (withHmsStrictCal (e.previousOwn w).dur e.ts h) e.ts

end Hifi
