import Hifi.Model.Calendar
import Hifi.Model.Epoch
import Hifi.Gen.Efmt
/-
  Executable model of the strftime-style formatting code (C19, C13-format), transcribed from the
  CURRENT sources:
    src/parser.rs            Token, is_numeric, value_ok, gregorian_position
    src/efmt/formatter.rs    Item, Item::new, sep_char_is…, Formatter::{new, with_timezone}, impl Display for Formatter
    src/efmt/format.rs       Format, need_gregorian, impl FromStr for Format, Format::parse
    src/efmt/consts.rs       the predefined formats (values generated into Gen/Efmt.lean)
    src/weekday.rs, src/month.rs, src/timescale/fmt.rs   Display / LowerHex names, from_str spellings
    src/epoch/initializers.rs  from_format_str, from_str_with_format, from_day_of_year
    src/epoch/mod.rs         to_isoformat

  Import-free (core Lean only).  Strings are lists of code points; wherever the code uses a
  `chars().enumerate()` index as a BYTE offset (`Format::parse`) the model slices by UTF-8 byte
  offsets and yields `panic` exactly when Rust's `str` indexing does (begin > end, end > len, not a
  char boundary).

  Two quantities are inputs of the model (`Oracles`) because the code computes them through `f64`:
  `lexical_core::parse::<f64>` for parsing a `%J`, and the text `{}` of the f64 `day_of_year()` that `%J`
  prints.  `%J` is not among the fourteen tokens property C19 names; the driver supplies the oracles
  (Drive/Efmt.lean: for the printed `%J` any numeral the spec accepts that makes the whole text equal) and every
  theorem holds for ANY oracle.  Everything else is exact integer arithmetic (`%w` too since fix a63ccdc):
  `%j` = `duration_in_year().total_nanoseconds() / NANOSECONDS_PER_DAY + 1` (fix 013aee2), `%A %a` =
  `Epoch::weekday_of_gregorian_date` (fix 5f24444).

  The model transcribes the code AFTER the repairs 05ce775 (formatter branch without Gregorian
  tokens), 013aee2 (`%j`), c5931b6 (`Format::parse` returns errors instead of panicking), 5f24444
  (weekday of the printed date), 77ab25e (`Format::parse` reads the `%z` offset), c137eb9 (a `Z` that is the
  format's separator is a separator; a stray `Z` stores the pending field before it ends the input).  Remaining recorded findings: D22i (ISO8601 vs Display), D25
  (parse-back classes) — see Props/C19.lean.
-/
namespace Hifi.Efmt
open Hifi

/-! ### tokens -/

inductive Token where
  | Year | YearShort | Month | Day | Hour | Minute | Second | Subsecond | OffsetHours | OffsetMinutes
  | Timescale | DayOfYearInteger | DayOfYear | Weekday | WeekdayShort | WeekdayDecimal | MonthName | MonthNameShort
deriving DecidableEq, Repr, Inhabited

namespace Token

def all : List Token :=
  [Year, YearShort, Month, Day, Hour, Minute, Second, Subsecond, OffsetHours, OffsetMinutes,
   Timescale, DayOfYearInteger, DayOfYear, Weekday, WeekdayShort, WeekdayDecimal, MonthName, MonthNameShort]

/-- `{:?}` of the token (derived Debug) -/
def debugName : Token → String
  | Year => "Year" | YearShort => "YearShort" | Month => "Month" | Day => "Day" | Hour => "Hour"
  | Minute => "Minute" | Second => "Second" | Subsecond => "Subsecond" | OffsetHours => "OffsetHours"
  | OffsetMinutes => "OffsetMinutes" | Timescale => "Timescale" | DayOfYearInteger => "DayOfYearInteger"
  | DayOfYear => "DayOfYear" | Weekday => "Weekday" | WeekdayShort => "WeekdayShort"
  | WeekdayDecimal => "WeekdayDecimal" | MonthName => "MonthName" | MonthNameShort => "MonthNameShort"

def ofName? (s : String) : Option Token := all.find? (fun t => t.debugName == s)

/-- `Token::is_numeric` -/
def isNumeric : Token → Bool
  | Timescale | Weekday | WeekdayShort | MonthName | MonthNameShort => false
  | _ => true

/-- `Token::gregorian_position` -/
def gregorianPosition : Token → Option Nat
  | Year | YearShort => some 0
  | Month => some 1
  | Day => some 2
  | Hour => some 3
  | Minute => some 4
  | Second => some 5
  | Subsecond => some 6
  | OffsetHours => some 7
  | OffsetMinutes => some 8
  | _ => none

/-- `Token::value_ok(val).is_ok()` -/
def valueOk : Token → Int → Bool
  | Year, _ | YearShort, _ => true
  | Month, v => decide (0 ≤ v ∧ v ≤ 13)
  | Day, v => decide (0 ≤ v ∧ v ≤ 31)
  | Hour, v | OffsetHours, v => decide (0 ≤ v ∧ v ≤ 23)
  | Minute, v | OffsetMinutes, v => decide (0 ≤ v ∧ v ≤ 59)
  | Second, v => decide (0 ≤ v ∧ v ≤ 60)
  | Subsecond, v => decide (0 ≤ v)
  | Timescale, _ => true
  | DayOfYearInteger, v => decide (0 ≤ v ∧ v ≤ 366)
  | WeekdayDecimal, _ => true
  | Weekday, _ | WeekdayShort, _ | MonthName, _ | MonthNameShort, _ | DayOfYear, _ => false

/-- the arms of `impl FromStr for Format` (generated table: character ↦ token) -/
def ofChar? (c : Nat) : Option Token :=
  match Gen.EFMT_TOKEN_OF_CHAR.find? (fun p => p.1 == c) with
  | some p => ofName? p.2
  | none => none

/-- the tokens `Format::need_gregorian` returns `true` for -/
def needsGregorian : Token → Bool
  | Year | YearShort | Month | MonthName | MonthNameShort | Day | Hour | Minute | Second | Subsecond
  | OffsetHours | OffsetMinutes => true
  | _ => false

end Token

/-! ### items and formats -/

structure Item where
  token : Token
  sep1 : Option Nat      -- sep_char
  sep2 : Option Nat      -- second_sep_char
  optional : Bool
deriving DecidableEq, Repr, Inhabited

namespace Item

/-- `Item::new(token, sep_char, second_sep_char)`: a `?` (63) in either place marks the item optional
    and is removed; a lone second separator moves to the first place -/
def new (t : Token) (c1 c2 : Option Nat) : Item :=
  if (if c1 = some 63 then none else c1) = none ∧ (if c2 = some 63 then none else c2) ≠ none then
    ⟨t, if c2 = some 63 then none else c2, none, decide (c1 = some 63) || decide (c2 = some 63)⟩
  else
    ⟨t, if c1 = some 63 then none else c1, if c2 = some 63 then none else c2,
      decide (c1 = some 63) || decide (c2 = some 63)⟩

def sepIs (it : Item) (c : Nat) : Bool := decide (it.sep1 = some c)
def sepIsNot (it : Item) (c : Nat) : Bool := it.sep1.isSome && !decide (it.sep1 = some c)
def sep2Is (it : Item) (c : Nat) : Bool := decide (it.sep2 = some c)
def sep2IsNot (it : Item) (c : Nat) : Bool := it.sep2.isSome && !decide (it.sep2 = some c)

/-- the two separators as text (what `write_sep` prints for the previous item) -/
def sepText (it : Item) : List Nat := it.sep1.toList ++ it.sep2.toList

def ofGen (g : Gen.EfmtItem) : Option Item :=
  match Token.ofName? g.1 with
  | some t => some ⟨t, g.2.1, g.2.2.1, g.2.2.2⟩
  | none => none

end Item

/-- `Format { items: [Option<Item>; 16], num_items }` with the shape every constructible value has
    (`from_str`, the constants): the first `num_items` slots are `Some`, the rest `None`.
    `items.length` is `num_items`; well-formed values have at most `MAX_TOKENS` items. -/
structure Format where
  items : List Item
deriving DecidableEq, Repr, Inhabited

abbrev MAX_TOKENS : Nat := Gen.EFMT_MAX_TOKENS

def Format.wf (f : Format) : Bool := decide (f.items.length ≤ MAX_TOKENS)

/-- `Format::need_gregorian` -/
def Format.needGregorian (f : Format) : Bool := f.items.any (fun it => it.token.needsGregorian)

/-- a predefined constant from its generated item list -/
def Format.ofGen (g : List Gen.EfmtItem) : Option Format := (g.mapM Item.ofGen).map Format.mk

def constByName? (n : String) : Option Format :=
  match Gen.EFMT_CONSTS.find? (fun p => p.1 == n) with
  | some p => Format.ofGen p.2
  | none => none

/-- `impl Debug for Format` -/
def Format.debug (f : Format) : List Nat :=
  Cal.strCodes "EpochFormat:`" ++
  f.items.flatMap (fun it => Cal.strCodes it.token.debugName ++ it.sep1.toList ++ it.sep2.toList ++
    (if it.optional then [63] else [])) ++ [96]

/-! ### Format::from_str -/

/-- `s.split('%')` (37): the pieces between the separators (always at least one piece) -/
def splitPct : List Nat → List (List Nat)
  | [] => [[]]
  | c :: cs =>
    if c = 37 then [] :: splitPct cs
    else match splitPct cs with
      | [] => [[c]]
      | p :: ps => (c :: p) :: ps

/-- the loop of `from_str` over the pieces; `n` = `me.num_items` so far.  An empty piece is skipped
    (`None => continue`); a non-empty piece when 16 items are stored is `UnknownFormat`; an unknown
    first character is `UnknownToken`.  `chars().nth(1)`, `.nth(2)` are `tl[0]?`, `tl[1]?`: there is no
    byte indexing here and `me.items[me.num_items]` is only reached with `num_items < 16`. -/
def fromStrGo : List (List Nat) → Nat → Res (List Item)
  | [], _ => .ok []
  | [] :: rest, n => fromStrGo rest n
  | (c :: tl) :: rest, n =>
    if n = MAX_TOKENS then .err
    else match Token.ofChar? c with
      | none => .err
      | some t =>
        match fromStrGo rest (n + 1) with
        | .ok is => .ok (Item.new t tl[0]? tl[1]? :: is)
        | .err => .err
        | .panic => .panic

/-- `Format::from_str` -/
def formatFromStr (s : List Nat) : Res Format :=
  match fromStrGo (splitPct s) 0 with
  | .ok is => .ok ⟨is⟩
  | .err => .err
  | .panic => .panic

/-! ### names -/

def weekdayLong (w : Int) : List Nat := Cal.strCodes (Gen.EFMT_WEEKDAY_LONG.getD w.toNat "")
def weekdayShort (w : Int) : List Nat := Cal.strCodes (Gen.EFMT_WEEKDAY_SHORT.getD w.toNat "")
/-- `MonthName::from(u8)`: 1..12, anything else January; Display = Debug name, `{:x}` = short name -/
def monthIdx (mo : Int) : Nat := if 1 ≤ mo ∧ mo ≤ 12 then (mo - 1).toNat else 0
def monthLong (mo : Int) : List Nat := Cal.strCodes (Gen.EFMT_MONTH_LONG.getD (monthIdx mo) "")
def monthShort (mo : Int) : List Nat := Cal.strCodes (Gen.EFMT_MONTH_SHORT.getD (monthIdx mo) "")

/-! ### the oracles -/

/-- a day of year `days` (an f64) as `Format::parse` uses it: `days as u16` — its whole days; the cast saturates
    and sends a NaN to 0, so that `days >= 1.0 && days < n + 1.0` is `1 ≤ days as u16 ≤ n` for every f64 and
    n = 365, 366 — and the duration `(days - f64::from(days as u16)) * Unit::Day` of its fraction of a day -/
abbrev DoyV := Int × Dur

structure Oracles where
  /-- `lexical_core::parse::<f64>(text)` = `days`; `none` = parse error, else
      (`days as u16`, `(days - f64::from(days as u16)) * Unit::Day`) -/
  lexDoy : List Nat → Option DoyV
  /-- `{}` (`Display`) of the f64 `epoch.day_of_year()`: the text `%J` prints -/
  doyText : Ep → List Nat

/-- `Epoch::weekday_of_gregorian_date`: `from_tai_duration(duration + gregorian_epoch_offset()).weekday()`,
    i.e. the integer day count of the duration shifted to 1900-01-01 of the epoch's own scale, mod 7 -/
def weekdayOfDate (e : Ep) : Int := weekdayOfDur (Dur.add e.dur (Cal.gregorianEpochOffset e.ts))

/-- `duration_in_year().total_nanoseconds() / i128::from(NANOSECONDS_PER_DAY) + 1` (i128 division truncates) -/
def dayOfYearInt (e : Ep) : Res Int :=
  match Cal.durationInYear e.dur e.ts with
  | .ok d => .ok (Int.tdiv (Dur.totalNs d) Cal.NPD + 1)
  | .err => .err
  | .panic => .panic

/-! ### impl Display for Formatter -/

/-- the offset text of `%z`: sign, `{:02}:{:02}` of hours (+ 24·days) and minutes, then the seconds
    (two digits, no separator) when they are non-zero -/
def offsetText (off : Dur) : Res (List Nat) :=
  match Dur.decompose off with
  | .ok (sign, days, h, mi, s, _, _, _) =>
    .ok ((if sign ≥ 0 then [43] else [45]) ++ Cal.fmtInt 2 (if days > 0 then h + 24 * days else h) ++ [58]
          ++ Cal.fmtInt 2 mi ++ (if s > 0 then Cal.fmtInt 2 s else []))
  | .err => .err
  | .panic => .panic

/-- what one token prints in the Gregorian branch: `ok none` = nothing at all (an optional token that
    is zero / UTC: the separator before it is not printed either), `err` = `fmt::Error` -/
def tokText (O : Oracles) (it : Item) (y mo d h mi s ns : Int) (e : Ep) (off : Dur) : Res (Option (List Nat)) :=
  match it.token with
  | .Year => .ok (some (Cal.fmtInt 4 y))
  | .YearShort => .ok (some (Cal.fmtInt 2 y))
  | .Month => .ok (some (Cal.fmtInt 2 mo))
  | .Day => .ok (some (Cal.fmtInt 2 d))
  | .Hour => .ok (some (Cal.fmtInt 2 h))
  | .Minute => .ok (some (Cal.fmtInt 2 mi))
  | .Second => .ok (some (Cal.fmtInt 2 s))
  | .Subsecond => if !it.optional || decide (ns > 0) then .ok (some (Cal.fmtInt 9 ns)) else .ok none
  | .OffsetHours =>
    match offsetText off with
    | .ok t => .ok (some t)
    | .err => .err
    | .panic => .panic
  | .OffsetMinutes => .err
  | .Timescale => if !it.optional || decide (e.ts ≠ TS.UTC) then .ok (some (Cal.strCodes e.ts.name)) else .ok none
  | .DayOfYearInteger =>
    match dayOfYearInt e with
    | .ok n => .ok (some (Cal.fmtInt 3 n))
    | .err => .err
    | .panic => .panic
  | .DayOfYear => .ok (some (O.doyText e))   -- `{}` of the f64 `day_of_year()`: an oracle
  | .Weekday => .ok (some (weekdayLong (weekdayOfDate e)))
  | .WeekdayShort => .ok (some (weekdayShort (weekdayOfDate e)))
  -- `weekday_of_gregorian_date().to_c89_weekday()` (fix a63ccdc, D50): Sunday = 0
  | .WeekdayDecimal => .ok (some (Cal.fmtInt 1 ((weekdayOfDate e + 1) % 7)))
  | .MonthName => .ok (some (monthLong mo))
  | .MonthNameShort => .ok (some (monthShort mo))

/-- the Gregorian branch: `prev` is the separator text of the previous item (`write_sep`) -/
def gregGo (O : Oracles) (y mo d h mi s ns : Int) (e : Ep) (off : Dur) : List Item → List Nat → Res (List Nat)
  | [], _ => .ok []
  | it :: rest, prev =>
    match tokText O it y mo d h mi s ns e off with
    | .ok none => gregGo O y mo d h mi s ns e off rest it.sepText
    | .ok (some t) =>
      match gregGo O y mo d h mi s ns e off rest it.sepText with
      | .ok r => .ok (prev ++ t ++ r)
      | .err => .err
      | .panic => .panic
    | .err => .err
    | .panic => .panic

/-- the other branch (`need_gregorian()` false): the same loop restricted to the tokens that do not
    need the Gregorian fields (`%z` is listed although it cannot occur here); anything else is
    `unreachable!()` — and indeed unreachable, because `need_gregorian` is true for every other token
    (`Lemmas/Efmt.plainGo_no_panic`). -/
def plainTok (O : Oracles) (it : Item) (e : Ep) (off : Dur) : Res (Option (List Nat)) :=
  match it.token with
  | .OffsetHours | .OffsetMinutes | .Timescale | .DayOfYearInteger | .DayOfYear | .WeekdayDecimal
  | .Weekday | .WeekdayShort => tokText O it 0 0 0 0 0 0 0 e off
  | _ => .panic

def plainGo (O : Oracles) (e : Ep) (off : Dur) : List Item → List Nat → Res (List Nat)
  | [], _ => .ok []
  | it :: rest, prev =>
    match plainTok O it e off with
    | .ok none => plainGo O e off rest it.sepText
    | .ok (some t) =>
      match plainGo O e off rest it.sepText with
      | .ok r => .ok (prev ++ t ++ r)
      | .err => .err
      | .panic => .panic
    | .err => .err
    | .panic => .panic

/-- `impl Display for Formatter`; `e` is the formatter's epoch (already shifted by the offset) -/
def formatterFmt (O : Oracles) (f : Format) (e : Ep) (off : Dur) : Res (List Nat) :=
  if f.needGregorian then
    match Cal.computeGregorian e.dur e.ts with
    | .ok (y, mo, d, h, mi, s, ns) => gregGo O y mo d h mi s ns e off f.items []
    | .err => .err
    | .panic => .panic
  else plainGo O e off f.items []

/-- `Formatter::new(epoch, format)` / `Formatter::with_timezone(epoch, offset, format)` then Display -/
def formatterOutput (O : Oracles) (f : Format) (e : Ep) (off : Option Dur) : Res (List Nat) :=
  match off with
  | none => formatterFmt O f e Dur.ZERO
  | some o => formatterFmt O f (e.add o) o

/-- `Epoch::to_isoformat`: `format!("{}", Formatter::new(*self, ISO8601_STD))[..26]` (byte slice: the
    text is ASCII; it panics when shorter than 26 bytes, which cannot happen: at least 29) -/
def toIsoformat (O : Oracles) (std : Format) (e : Ep) : Res (List Nat) :=
  match formatterOutput O std e none with
  | .ok t => if t.length < 26 ∨ t.any (· ≥ 128) then .panic else .ok (t.take 26)
  | .err => .err
  | .panic => .panic

/-! ### byte-indexed strings -/

def utf8Size (c : Nat) : Nat := if c < 128 then 1 else if c < 2048 then 2 else if c < 65536 then 3 else 4

def byteLen : List Nat → Nat
  | [] => 0
  | c :: cs => utf8Size c + byteLen cs

/-- the text from byte offset `k` on; `none` if `k` is beyond the end or inside a character -/
def dropBytes : List Nat → Nat → Option (List Nat)
  | [], k => if k = 0 then some [] else none
  | c :: cs, k => if k = 0 then some (c :: cs) else if utf8Size c ≤ k then dropBytes cs (k - utf8Size c) else none

/-- the first `k` bytes; `none` if `k` is beyond the end or inside a character -/
def takeBytes : List Nat → Nat → Option (List Nat)
  | [], k => if k = 0 then some [] else none
  | c :: cs, k =>
    if k = 0 then some []
    else if utf8Size c ≤ k then (match takeBytes cs (k - utf8Size c) with | some t => some (c :: t) | none => none)
    else none

/-- `&s[a..b]`: `none` = panic (begin > end, out of range, not on a char boundary) -/
def slice (s : List Nat) (a b : Nat) : Option (List Nat) :=
  if a ≤ b then
    match dropBytes s a with
    | some t => takeBytes t (b - a)
    | none => none
  else none

def inRanges (tbl : List (Nat × Nat)) (c : Nat) : Bool := tbl.any (fun r => decide (r.1 ≤ c ∧ c ≤ r.2))

/-- `char::is_numeric`, `char::is_whitespace` (tables of the linked std) -/
def isNum (c : Nat) : Bool := inRanges Gen.EFMT_IS_NUMERIC c
def isWs (c : Nat) : Bool := inRanges Gen.EFMT_IS_WHITESPACE c

def trimStart : List Nat → List Nat
  | [] => []
  | c :: cs => if isWs c then trimStart cs else c :: cs

/-- `str::trim` -/
def trim (s : List Nat) : List Nat := (trimStart (trimStart s).reverse).reverse

/-! ### the small parsers -/

def digitsVal : List Nat → Int → Option Int
  | [], acc => some acc
  | c :: cs, acc => if 48 ≤ c ∧ c ≤ 57 then digitsVal cs (acc * 10 + ((c : Int) - 48)) else none

/-- `lexical_core::parse::<i32>` and `str::parse::<i32>`: optional `+`/`-`, at least one ASCII digit,
    nothing else, value within i32 -/
def lexI32 (s : List Nat) : Option Int :=
  match s with
  | [] => none
  | 43 :: ds => if ds.isEmpty then none else
      match digitsVal ds 0 with
      | some v => if v ≤ 2147483647 then some v else none
      | none => none
  | 45 :: ds => if ds.isEmpty then none else
      match digitsVal ds 0 with
      | some v => if v ≤ 2147483648 then some (-v) else none
      | none => none
  | ds =>
      match digitsVal ds 0 with
      | some v => if v ≤ 2147483647 then some v else none
      | none => none

def lookup {α} (tbl : List (List Nat × α)) (s : List Nat) : Option α :=
  match tbl.find? (fun p => p.1 == s) with
  | some p => some p.2
  | none => none

/-- `Weekday::from_str`, `MonthName::from_str` (`month as u8`, January = 0), `TimeScale::from_str` -/
def weekdayFromStr (s : List Nat) : Option Int := lookup Gen.EFMT_WEEKDAY_FROM_STR (trim s)
def monthFromStr (s : List Nat) : Option Int := lookup Gen.EFMT_MONTH_FROM_STR (trim s)
def timescaleFromStr (s : List Nat) : Option TS :=
  match lookup Gen.EFMT_TIMESCALE_FROM_STR (trim s) with
  | some n => TS.ofString? n
  | none => none

/-! ### Format::parse -/

/-- the state of the parse loop -/
structure St where
  y : Int           -- decomposed[0]
  mo : Int
  d : Int
  h : Int
  mi : Int
  s : Int
  ns : Int
  oh : Int          -- decomposed[7]
  om : Int          -- decomposed[8]
  ts : TS
  offNeg : Bool     -- offset_sign = -1
  doy : Option DoyV -- day_of_year
  wd : Option Int
  prevIdx : Nat
  curIdx : Nat
  cur : Item        -- cur_item
  tok : Token       -- cur_token (differs from `cur.token` only while the minutes of an offset are read)
  prev : Item
deriving Repr

def St.init (it : Item) : St :=
  ⟨0, 0, 0, 0, 0, 0, 0, 0, 0, TS.UTC, false, none, none, 0, 0, it, it.token, it⟩

inductive Step where
  | cont (st : St)       -- go on with the next character
  | brk (st : St)        -- `break`
  | err
  | panic

/-- `decomposed[pos] = v` -/
def St.setPos (st : St) (pos : Nat) (v : Int) : St :=
  match pos with
  | 0 => { st with y := v }
  | 1 => { st with mo := v }
  | 2 => { st with d := v }
  | 3 => { st with h := v }
  | 4 => { st with mi := v }
  | 5 => { st with s := v }
  | 6 => { st with ns := v }
  | 7 => { st with oh := v }
  | _ => { st with om := v }

/-- the `match prev_token { … }` of the loop body: store the text `sub` (`n` = `end_idx - prev_idx` bytes).
    Explicit `panic` outcomes that remain: the i32 product of the sub-second scaling and the two
    `unreachable!()`-style arms — `Lemmas/Efmt` proves none of them can be reached. -/
def store (O : Oracles) (tok : Token) (sub : List Nat) (n : Nat) (st : St) : Step :=
  match tok with
  | .YearShort =>
    -- `parse::<i32>().ok().and_then(|year| year.checked_add(2000)).ok_or(..)?`
    match lexI32 sub with
    | none => .err
    | some v => if v + 2000 > 2147483647 then .err else .cont { st with y := v + 2000 }
  | .DayOfYear =>
    match O.lexDoy sub with
    | none => .err
    | some dd => .cont { st with doy := some dd }
  | .Weekday | .WeekdayShort =>
    match weekdayFromStr sub with
    | none => .err
    | some w => .cont { st with wd := some w }
  | .WeekdayDecimal => .err                       -- UnknownToken { token: 'w' }
  | .MonthName | .MonthNameShort =>
    match monthFromStr sub with
    | none => .err
    | some m => .cont { st with mo := m + 1 }
  | .Timescale =>
    -- never reached (`cur_token == Timescale` breaks before); the arm would end in `unreachable!()`
    match lexI32 sub with
    | none => .err
    | some _ => .panic
  | .DayOfYearInteger =>
    match lexI32 sub with
    | none => .err
    | some v =>
      if tok.valueOk v = false then .err
      -- `Some(val as f64)` with 0 ≤ val ≤ 366: `days as u16` = val, and the fraction `0.0 * Unit::Day` is zero
      else .cont { st with doy := some (v, Dur.ZERO) }
  | .Subsecond =>
    match lexI32 sub with
    | none => .err
    | some v =>
      if tok.valueOk v = false then .err
      else if n > 9 then .err                     -- "more than nine subsecond digits"
      else if n = 9 then .cont { st with ns := v }
      -- `val * 10_i32.pow((9 - n) as u32)`: i32 arithmetic
      else if v * 10 ^ (9 - n) > 2147483647 then .panic
      else .cont { st with ns := v * 10 ^ (9 - n) }
  | _ =>
    match lexI32 sub with
    | none => .err
    | some v =>
      if tok.valueOk v = false then .err
      else match tok.gregorianPosition with
        | some pos => .cont (st.setPos pos v)
        | none => .panic

/-- the part of the loop body after `end_idx` is known: `s.get(prev_idx..end_idx)` (an `Err` when it is
    not a valid range of the text), store, move `prev_idx`, read the sign of an hours offset that comes next -/
def afterEnd (O : Oracles) (s : List Nat) (idx endIdx : Nat) (tok : Token) (zulu : Bool) (st : St) : Step :=
  match slice s st.prevIdx endIdx with
  | none => .err
  | some sub =>
    match store O tok sub (endIdx - st.prevIdx) st with
    | .cont st1 =>
      if zulu then .brk st1                       -- `if zulu { break; }`
      else if st1.tok = .OffsetHours then
        -- without a separator, the character that ended the previous token is the sign
        match slice s idx (idx + 1) with
        | none => .err
        | some sg => .cont { st1 with offNeg := st1.offNeg || (st1.prev.sep1.isNone && decide (sg = [45])), prevIdx := idx + 1 }
      -- a character that ended a numeric field without being its separator is the first one of the name that follows
      else .cont { st1 with prevIdx := if endIdx = idx ∧ st1.tok.isNumeric = false ∧ st1.prev.sep1 = none then idx else idx + 1 }
    | r => r

/-- the condition under which the loop body does anything: end of the text, a non-numeric character
    while a numeric token is read, or the first separator of a name token.  `len` = `s.len()` in BYTES,
    `idx` counts CHARACTERS (the code compares and slices with it as if it were a byte offset) -/
def trigger (len c idx : Nat) (st : St) : Bool :=
  decide (idx + 1 = len) || ((st.tok.isNumeric && !isNum c) || (!st.tok.isNumeric && st.cur.sepIs c))

/-- `cur_token == Token::Timescale`: the time scale is the rest of the text — from the separator of this item
    on, or the whole field (from `prev_idx`) at the last character —, trimmed, freed from second separators
    of the previous item that still stand in front, trimmed again; then `break` -/
def stepTimescale (s : List Nat) (len idx : Nat) (st : St) : Step :=
  match dropBytes s (if idx + 1 ≠ len then idx else st.prevIdx) with       -- `s.get(start..)`
  | none => .err
  | some rest =>
    match timescaleFromStr ((trim rest).dropWhile (fun c => decide (st.prev.sep2 = some c))) with
    | none => .err
    | some ts => .brk { st with ts := ts }

/-- `cur_token == OffsetHours && char == ':'`: `+HH:MM`, the hours end here and the minutes follow
    within the same item -/
def stepHours (s : List Nat) (idx : Nat) (st : St) : Step :=
  match slice s st.prevIdx idx with
  | none => .err
  | some sub =>
    match lexI32 sub with
    | none => .err
    | some v =>
      if Token.OffsetHours.valueOk v = false then .err
      else .cont { st with oh := v, tok := .OffsetMinutes, prevIdx := idx + 1 }

/-- the ordinary case: the field of the current token ends at this character.  Before the end of the
    text (or on a non-numeric last character) the character must be a separator of the current item
    and the next item becomes current; on a numeric last character the field includes it. -/
def stepField (O : Oracles) (f : Format) (s : List Nat) (len c idx : Nat) (st : St) : Step :=
  if idx + 1 ≠ len ∨ (isNum c = false ∧ (st.tok.isNumeric = true ∨ st.cur.sep1 = some c)) then
    if st.cur.sepIsNot c && (st.cur.sep2.isNone || st.cur.sep2IsNot c) then .err
    else if st.curIdx + 1 ≥ f.items.length then .brk st     -- `cur_item_idx + 1 >= self.num_items`
    else if st.curIdx + 1 ≥ MAX_TOKENS then .panic          -- `self.items[cur_item_idx]`: impossible for a well-formed format
    else
      match f.items[st.curIdx + 1]? with
      | none => .brk st
      | some it => afterEnd O s idx idx st.tok false { st with prev := st.cur, curIdx := st.curIdx + 1, cur := it, tok := it.token }
  else afterEnd O s idx (idx + 1) st.tok false { st with prev := st.cur }

/-- `s.as_bytes().get(k).map_or(false, |b| b.is_ascii_digit())`: every byte of a multi-byte character is ≥ 128 -/
def byteIsDigitAt : List Nat → Nat → Bool
  | [], _ => false
  | c :: cs, k => if k < utf8Size c then decide (48 ≤ c ∧ c ≤ 57) else byteIsDigitAt cs (k - utf8Size c)

/-- the body of the loop once `trigger` holds, in the order of the code -/
def stepBody (O : Oracles) (f : Format) (s : List Nat) (len c idx : Nat) (st : St) : Step :=
  -- the sign of an hours offset that follows the separators of the previous token
  if st.tok = .OffsetHours ∧ idx = st.prevIdx ∧ (c = 43 ∨ c = 45) ∧ byteIsDigitAt s (idx + 1) = true then
    .cont { st with offNeg := st.offNeg || decide (c = 45), prevIdx := st.prevIdx + 1 }
  -- the second separator of the previous token (the last character of the text is not one when it belongs to
  -- the field: a field of one character)
  else if idx = st.prevIdx ∧
      ¬ (idx + 1 = len ∧ (isNum c = true ∨ ¬ (st.tok.isNumeric = true ∨ st.cur.sep1 = some c))) ∧
      (st.prev.sep2 = none ∨ st.prev.sep2 = some c) then
    .cont { st with prevIdx := st.prevIdx + 1 }
  else if st.tok = .Timescale then stepTimescale s len idx st
  -- a `Z` (90) that is not the separator the format asks for stands for UTC and ends the input:
  -- the field in front of it (if any) is stored, then `break`
  else if c = 90 ∧ st.cur.sep1 ≠ some c then
    if idx = st.prevIdx then .brk st
    else afterEnd O s idx idx st.tok true { st with prev := st.cur }
  else if st.tok = .OffsetHours ∧ c = 58 then stepHours s idx st
  else stepField O f s len c idx st

/-- the body of `for (idx, char) in s.chars().enumerate()` -/
def stepChar (O : Oracles) (f : Format) (s : List Nat) (len : Nat) (c idx : Nat) (st : St) : Step :=
  if trigger len c idx st then stepBody O f s len c idx st else .cont st

/-- the `for` loop: `ok st` = the loop ended (exhausted or `break`) in state `st` -/
def parseLoop (O : Oracles) (f : Format) (s : List Nat) (len : Nat) : List Nat → Nat → St → Res St
  | [], _, st => .ok st
  | c :: cs, idx, st =>
    match stepChar O f s len c idx st with
    | .cont st1 => parseLoop O f s len cs (idx + 1) st1
    | .brk st1 => .ok st1
    | .err => .err
    | .panic => .panic

/-- `x.try_into().unwrap()` to u8 / u32 -/
def toU8 (x : Int) : Option Int := if 0 ≤ x ∧ x ≤ 255 then some x else none
def toU32 (x : Int) : Option Int := if 0 ≤ x ∧ x ≤ 4294967295 then some x else none

/-- `days_in_month` of the loop below -/
def daysInMonth (leap : Bool) (m : Int) : Int :=
  if m = 4 ∨ m = 6 ∨ m = 9 ∨ m = 11 then 30 else if m = 2 then (if leap then 29 else 28) else 31

/-- the `loop` that turns a day of the year into (month, day of the month): while the count exceeds the month's
    length, take the length off and go to the next month.  `fuel`: 16 passes are never used up, each pass takes at
    least 28 days off a count of at most 366 (`u8`/`u16` arithmetic: the month stays ≤ 14, the count decreases) -/
def ordinalGo (leap : Bool) : Nat → Int → Int → Int × Int
  | 0, m, d => (m, d)
  | fuel + 1, m, d =>
    if d ≤ daysInMonth leap m then (m, d) else ordinalGo leap fuel (m + 1) (d - daysInMonth leap m)

/-- `for item in self.items…`: a month (number or name) or a day of the month the FORMAT asks for must be the
    derived one (a field the text did not reach is still 0, hence an error, as it is without a day of year) -/
def agreesWithOrdinal (f : Format) (st : St) (m d : Int) : Bool :=
  f.items.all (fun it =>
    match it.token with
    | .Month | .MonthName | .MonthNameShort => decide (st.mo = m)
    | .Day => decide (st.d = d)
    | _ => true)

/-- the epoch built after the loop (before the weekday check and the time zone).  With a day of year (fixes D33,
    D46): the day must be one of that year (`is_gregorian_valid(year, 2, 29, ..)` tells a leap year); the month
    and the day of the month are derived from it, must agree with those the format asks for, and the epoch is
    `maybe_from_gregorian` of THAT date with the time of day read, plus the fraction of a day of a `%J`. -/
def buildEpoch (f : Format) (st : St) : Res Dur :=
  match st.doy with
  | some (whole, frac) =>
    let leap := Cal.isGregorianValidCore st.y 2 29 0 0 0 0
    if ¬ (1 ≤ whole ∧ whole ≤ (if leap then 366 else 365)) then .err
    else
      let md := ordinalGo leap 16 1 whole
      if agreesWithOrdinal f st md.1 md.2 = false then .err
      else
        match toU8 st.h, toU8 st.mi, toU8 st.s, toU32 st.ns with
        | some h, some mi, some s, some ns =>
          match Cal.maybeFromGregorian st.y md.1 md.2 h mi s ns st.ts with
          | .ok e => .ok (Dur.add e frac)
          | .err => .err
          | .panic => .panic
        | _, _, _, _ => .panic
  | none =>
    match toU8 st.mo, toU8 st.d, toU8 st.h, toU8 st.mi, toU8 st.s, toU32 st.ns with
    | some mo, some d, some h, some mi, some s, some ns => Cal.maybeFromGregorian st.y mo d h mi s ns st.ts
    | _, _, _, _, _, _ => .panic

/-- everything after the loop -/
def finish (f : Format) (st : St) : Res Ep :=
  match buildEpoch f st with
  | .ok e =>
    -- `weekday != epoch.weekday_of_gregorian_date()`
    if (match st.wd with | some w => decide (w ≠ weekdayOfDate ⟨e, st.ts⟩) | none => false) then .err
    else
      -- `tz`: minus (hours + minutes) for a `+` sign, plus for a `-` sign
      if st.offNeg then
        .ok ⟨Dur.add e (Dur.add (Dur.unitMulI64 Cal.NPH st.oh) (Dur.unitMulI64 Cal.NPMIN st.om)), st.ts⟩
      else
        match Dur.neg (Dur.add (Dur.unitMulI64 Cal.NPH st.oh) (Dur.unitMulI64 Cal.NPMIN st.om)) with
        | .ok tz => .ok ⟨Dur.add e tz, st.ts⟩
        | .err => .err
        | .panic => .panic
  | .err => .err
  | .panic => .panic

/-- `Format::parse` / `Epoch::from_str_with_format` -/
def formatParse (O : Oracles) (f : Format) (sIn : List Nat) : Res Ep :=
  match f.items with
  | [] => .err                                    -- `self.items[0]` is `None`: NothingToParse
  | it :: _ =>
    match parseLoop O f (trim sIn) (byteLen (trim sIn)) (trim sIn) 0 (St.init it) with
    | .ok st => finish f st
    | .err => .err
    | .panic => .panic

/-- `Epoch::from_format_str(s_in, format_str)` -/
def fromFormatStr (O : Oracles) (sIn fmt : List Nat) : Res Ep :=
  match formatFromStr fmt with
  | .ok f => formatParse O f sIn
  | .err => .err
  | .panic => .panic

end Hifi.Efmt
