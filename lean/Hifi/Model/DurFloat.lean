import Hifi.Model.Duration
import Hifi.Model.SoftF64
import Hifi.Gen.FloatConsts
/-
  Executable model of the float interop of `hifitime::Duration` (property C18), transcribed from
  the CURRENT sources:
    src/timeunits.rs     impl Mul<f64> for Unit, Unit::in_seconds / from_seconds
    src/duration/mod.rs  to_seconds, to_unit, from_days … from_nanoseconds, compose_f64
    src/duration/ops.rs  impl Mul<f64> for Duration (decimal precision search loop, as repaired by
                         e873242 `floor`→`trunc` and 6932a6a exit `trunc == new_val || p == 38`)
  f64 is `F64` (Model/SoftF64.lean).
-/
namespace Hifi
open F64

namespace DurFloat

/-- `f64::MAX` -/
def maxF : F64 := .fin false 9007199254740991 971
/-- `f64::MIN` -/
def minF : F64 := .fin true 9007199254740991 971
/-- `f64::EPSILON` = 2^-52 -/
def epsF : F64 := .fin false P52 (-104)
/-- `i64::MAX as f64` = 2^63 -/
def i64MaxF : F64 := F64.ofInt 9223372036854775807
/-- the literal `10.0` -/
def tenF : F64 := F64.ofInt 10

def SECONDS_PER_CENTURY : F64 := ofBits Gen.F64_SECONDS_PER_CENTURY
def SECONDS_PER_DAY : F64 := ofBits Gen.F64_SECONDS_PER_DAY
def SECONDS_PER_HOUR : F64 := ofBits Gen.F64_SECONDS_PER_HOUR
def SECONDS_PER_MINUTE : F64 := ofBits Gen.F64_SECONDS_PER_MINUTE
def DAYS_PER_CENTURY : F64 := ofBits Gen.F64_DAYS_PER_CENTURY
def DAYS_PER_WEEK : F64 := ofBits Gen.F64_DAYS_PER_WEEK

/-- a decimal literal `1e-k` of the source text (rustc rounds literals correctly) -/
def lit1em (k : Nat) : F64 := rnd (1 / ((10 ^ k : Nat) : Rat))

/-- the `factor` of `impl Mul<f64> for Unit`, by protocol unit name -/
def unitFactorF : String → Option F64
  | "ns" => some one
  | "us" => some (F64.ofInt Gen.NANOSECONDS_PER_MICROSECOND)
  | "ms" => some (F64.ofInt Gen.NANOSECONDS_PER_MILLISECOND)
  | "s" => some (F64.ofInt Gen.NANOSECONDS_PER_SECOND)
  | "min" => some (F64.ofInt Gen.NANOSECONDS_PER_MINUTE)
  | "h" => some (F64.ofInt Gen.NANOSECONDS_PER_HOUR)
  | "d" => some (F64.ofInt Gen.NANOSECONDS_PER_DAY)
  | "wk" => some (F64.mul (F64.ofInt Gen.NANOSECONDS_PER_DAY) DAYS_PER_WEEK)
  | "cy" => some (F64.ofInt Gen.NANOSECONDS_PER_CENTURY)
  | _ => none

/-- `Unit::in_seconds` -/
def inSeconds : String → Option F64
  | "cy" => some (F64.mul DAYS_PER_CENTURY SECONDS_PER_DAY)
  | "wk" => some (F64.mul DAYS_PER_WEEK SECONDS_PER_DAY)
  | "d" => some SECONDS_PER_DAY
  | "h" => some SECONDS_PER_HOUR
  | "min" => some SECONDS_PER_MINUTE
  | "s" => some one
  | "ms" => some (lit1em 3)
  | "us" => some (lit1em 6)
  | "ns" => some (lit1em 9)
  | _ => none

/-- `Unit::from_seconds` = `1.0 / self.in_seconds()` -/
def fromSecondsU (u : String) : Option F64 := (inSeconds u).map (F64.div one)

/-- `impl Mul<f64> for Unit` (`factor` is the unit's f64 factor; `f64 * Unit`, `x.seconds()` …,
    `Duration::from_seconds(x)` … are wrappers of it) -/
def unitMulF64 (factor q : F64) : Dur :=
  if F64.ge q (F64.div maxF factor) then Dur.MAX
  else if F64.le q (F64.div minF factor) then Dur.MIN
  else if F64.lt (F64.abs (F64.mul q factor)) i64MaxF then Dur.fromTruncated (toI64 (F64.mul q factor))
  else Dur.fromTotal (toI128 (F64.mul q factor))

/-- `Duration::to_seconds` -/
def toSeconds (d : Dur) : F64 :=
  if d.c = 0 then
    F64.add (F64.ofInt (d.ns / Gen.NANOSECONDS_PER_SECOND))
      (F64.mul (F64.ofInt (d.ns % Gen.NANOSECONDS_PER_SECOND)) (lit1em 9))
  else
    F64.add (F64.add (F64.mul (F64.ofInt d.c) SECONDS_PER_CENTURY) (F64.ofInt (d.ns / Gen.NANOSECONDS_PER_SECOND)))
      (F64.mul (F64.ofInt (d.ns % Gen.NANOSECONDS_PER_SECOND)) (lit1em 9))

/-- `Duration::to_unit` (argument: `unit.from_seconds()`) -/
def toUnitWith (d : Dur) (fromSec : F64) : F64 := F64.mul (toSeconds d) fromSec

def toUnit (d : Dur) (u : String) : Option F64 := (fromSecondsU u).map (toUnitWith d)

/-- outcome of the precision search / of `Duration * f64` -/
inductive Out (α : Type) where
  | ok (a : α)
  | panic
  | hang
deriving Repr, DecidableEq, Inhabited

/-- the float part of the loop exit test: `new_val.trunc() == new_val` (IEEE `==`: false for NaN) -/
def brk (nv : F64) : Bool := F64.eq (F64.trunc nv) nv

/-- the `loop { … }` of `impl Mul<f64> for Duration`: state (p, new_val); exit when
    `new_val.trunc() == new_val || p == 38`.  `fuel` bounds the number of iterations explored;
    running out of it would be the outcome `hang` — `precLoop_terminates` shows that 39 rounds always
    suffice (the `p == 38` cap), for every double including NaN and the infinities. -/
def precLoop : Nat → Int → F64 → F64 → Out (Int × F64)
  | 0, _, _, _ => .hang
  | fuel + 1, p, q, nv =>
    if brk nv || decide (p = 38) then .ok (p, nv)
    else precLoop fuel (p + 1) q (F64.mul q (F64.powi tenF (p + 1)))

/-- the final expression: `total_nanoseconds().saturating_mul(new_val as i128)
    .saturating_div(10_i128.pow(p.try_into().unwrap()))`, then `from_total_nanoseconds` -/
def mulFinish (d : Dur) (p : Int) (nv : F64) : Out Dur :=
  if p < 0 then .panic                                           -- `try_into::<u32>().unwrap()`
  else if 10 ^ p.toNat > I128MAX then .panic                     -- `10_i128.pow(p)` overflow
  else .ok (Dur.fromTotal (Int.tdiv (satI128 (Dur.totalNs d * toI128 nv)) (10 ^ p.toNat)))

/-- the code after the loop, given the loop's outcome -/
def durMulAfter (d : Dur) : Out (Int × F64) → Out Dur
  | .ok (p, nv) => mulFinish d p nv
  | .panic => .panic
  | .hang => .hang

/-- `impl Mul<f64> for Duration` -/
def durMulF64 (d : Dur) (q : F64) : Out Dur := durMulAfter d (precLoop 64 0 q q)

/-- `Duration::compose_f64` -/
def composeF64 (sign : Int) (d h m s ms us ns : F64) : Res Dur :=
  if sign < 0 then
    Dur.neg (Dur.add (Dur.add (Dur.add (Dur.add (Dur.add (Dur.add
      (unitMulF64 (F64.ofInt Gen.NANOSECONDS_PER_DAY) d)
      (unitMulF64 (F64.ofInt Gen.NANOSECONDS_PER_HOUR) h))
      (unitMulF64 (F64.ofInt Gen.NANOSECONDS_PER_MINUTE) m))
      (unitMulF64 (F64.ofInt Gen.NANOSECONDS_PER_SECOND) s))
      (unitMulF64 (F64.ofInt Gen.NANOSECONDS_PER_MILLISECOND) ms))
      (unitMulF64 (F64.ofInt Gen.NANOSECONDS_PER_MICROSECOND) us))
      (unitMulF64 one ns))
  else
    .ok (Dur.add (Dur.add (Dur.add (Dur.add (Dur.add (Dur.add
      (unitMulF64 (F64.ofInt Gen.NANOSECONDS_PER_DAY) d)
      (unitMulF64 (F64.ofInt Gen.NANOSECONDS_PER_HOUR) h))
      (unitMulF64 (F64.ofInt Gen.NANOSECONDS_PER_MINUTE) m))
      (unitMulF64 (F64.ofInt Gen.NANOSECONDS_PER_SECOND) s))
      (unitMulF64 (F64.ofInt Gen.NANOSECONDS_PER_MILLISECOND) ms))
      (unitMulF64 (F64.ofInt Gen.NANOSECONDS_PER_MICROSECOND) us))
      (unitMulF64 one ns))

end DurFloat
end Hifi
