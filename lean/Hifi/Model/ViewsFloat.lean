import Hifi.Model.Views
import Hifi.Model.DurFloat
/-
  The float-valued views of an epoch and the float constructors on `Hifi.F64` (SoftF64) — the same
  expressions as the code (src/epoch/mod.rs accessors, src/epoch/initializers.rs, src/epoch/ops.rs
  `impl Add<f64> for Epoch`, `day_of_year`), so that the float clauses of C17 / C04 / C20 can be
  PROVED (Lemmas/ViewsFloat.lean) instead of only executed with the hardware `Float`.
  Arguments of the accessors: the elapsed duration of the epoch already expressed in the accessor's
  time scale (that conversion is the business of C05/C06).
-/
namespace Hifi.ViewsF
open Hifi F64 DurFloat Views

/-- `MJD_J1900: f64 = 15_020.0` -/
def MJD_J1900F : F64 := F64.ofInt Gen.MJD_J1900
/-- `MJD_OFFSET: f64 = 2_400_000.5` (an exact binary fraction; rustc rounds literals correctly) -/
def MJD_OFFSETF : F64 := F64.rnd (4800001 / 2)
/-- the f64 factors of `impl Mul<f64> for Unit` -/
def dayFac : F64 := F64.ofInt Gen.NANOSECONDS_PER_DAY
def secFac : F64 := F64.ofInt Gen.NANOSECONDS_PER_SECOND
def msFac : F64 := F64.ofInt Gen.NANOSECONDS_PER_MILLISECOND

/-- `Unit::Day * MJD_J1900`, `Unit::Day * MJD_OFFSET`, `Unit::Day * (MJD_J1900 + MJD_OFFSET)` as the
    code computes them (f64 products); `Lemmas/ViewsFloat.lean` proves they are the exact constants
    `Views.mjdJ1900`, `Views.mjdOffset`, `Views.jdeJ1900` -/
def dayMjd : Dur := unitMulF64 dayFac MJD_J1900F
def dayOffset : Dur := unitMulF64 dayFac MJD_OFFSETF
def dayJde : Dur := unitMulF64 dayFac (F64.add MJD_J1900F MJD_OFFSETF)

/-- the 22 float-valued accessors (`to_tai_seconds` … `to_gpst_days`) -/
inductive Acc where
  | taiSeconds
  | taiDays
  | utcSeconds
  | utcDays
  | mjdTaiDays
  | mjdTaiSeconds
  | mjdUtcDays
  | mjdUtcSeconds
  | jdeTaiDays
  | jdeTaiSeconds
  | jdeUtcDays
  | jdeUtcSeconds
  | ttSeconds
  | ttDays
  | ttCenturiesJ2k
  | jdeTtDays
  | mjdTtDays
  | unixSeconds
  | unixMilliseconds
  | unixDays
  | gpstSeconds
  | gpstDays
deriving DecidableEq, Repr

def Acc.all : List Acc := [.taiSeconds, .taiDays, .utcSeconds, .utcDays, .mjdTaiDays, .mjdTaiSeconds, .mjdUtcDays, .mjdUtcSeconds, .jdeTaiDays, .jdeTaiSeconds, .jdeUtcDays, .jdeUtcSeconds, .ttSeconds, .ttDays, .ttCenturiesJ2k, .jdeTtDays, .mjdTtDays, .unixSeconds, .unixMilliseconds, .unixDays, .gpstSeconds, .gpstDays]

def Acc.name : Acc → String
  | .taiSeconds => "to_tai_seconds"
  | .taiDays => "to_tai_days"
  | .utcSeconds => "to_utc_seconds"
  | .utcDays => "to_utc_days"
  | .mjdTaiDays => "to_mjd_tai_days"
  | .mjdTaiSeconds => "to_mjd_tai_seconds"
  | .mjdUtcDays => "to_mjd_utc_days"
  | .mjdUtcSeconds => "to_mjd_utc_seconds"
  | .jdeTaiDays => "to_jde_tai_days"
  | .jdeTaiSeconds => "to_jde_tai_seconds"
  | .jdeUtcDays => "to_jde_utc_days"
  | .jdeUtcSeconds => "to_jde_utc_seconds"
  | .ttSeconds => "to_tt_seconds"
  | .ttDays => "to_tt_days"
  | .ttCenturiesJ2k => "to_tt_centuries_j2k"
  | .jdeTtDays => "to_jde_tt_days"
  | .mjdTtDays => "to_mjd_tt_days"
  | .unixSeconds => "to_unix_seconds"
  | .unixMilliseconds => "to_unix_milliseconds"
  | .unixDays => "to_unix_days"
  | .gpstSeconds => "to_gpst_seconds"
  | .gpstDays => "to_gpst_days"

def Acc.ofString? (s : String) : Option Acc := Acc.all.find? (fun a => a.name == s)

/-- the duration a float accessor reads (x = elapsed time in the accessor's scale) -/
def accDur (a : Acc) (x : Dur) : Dur :=
  match a with
  | .taiSeconds | .taiDays | .utcSeconds | .utcDays | .ttSeconds | .ttDays | .gpstSeconds | .gpstDays => x
  | .mjdTaiDays | .mjdTaiSeconds | .mjdUtcDays | .mjdUtcSeconds | .mjdTtDays => Dur.add x dayMjd
  | .jdeTaiDays | .jdeTaiSeconds => Dur.add (Dur.add x dayMjd) dayOffset
  | .jdeUtcDays | .jdeUtcSeconds | .jdeTtDays => Dur.add x dayJde
  | .ttCenturiesJ2k => Dur.sub x etEpoch
  | .unixSeconds | .unixMilliseconds | .unixDays => Dur.sub x unixRef

/-- the unit it is read in; `none`: the accessor calls `to_seconds()` directly -/
def accUnit (a : Acc) : Option String :=
  match a with
  | .taiSeconds | .jdeUtcSeconds | .ttSeconds | .gpstSeconds => none
  | .utcSeconds | .mjdTaiSeconds | .mjdUtcSeconds | .jdeTaiSeconds | .unixSeconds => some "s"
  | .taiDays | .utcDays | .ttDays | .gpstDays | .mjdTaiDays | .mjdUtcDays | .mjdTtDays | .jdeTaiDays
  | .jdeUtcDays | .jdeTtDays | .unixDays => some "d"
  | .ttCenturiesJ2k => some "cy"
  | .unixMilliseconds => some "ms"

/-- the float accessor itself -/
def accF (a : Acc) (x : Dur) : Option F64 :=
  match accUnit a with
  | none => some (toSeconds (accDur a x))
  | some u => toUnit (accDur a x) u

/-- `from_mjd_in_time_scale(days, ts).duration`, g = `ts.gregorian_epoch_offset()`:
    `(days - MJD_J1900) * Unit::Day - g` -/
def fromMjdDur (g : Dur) (days : F64) : Dur :=
  Dur.sub (unitMulF64 dayFac (F64.sub days MJD_J1900F)) g

/-- `from_jde_in_time_scale`: `(days - MJD_J1900 - MJD_OFFSET) * Unit::Day - g` -/
def fromJdeDur (g : Dur) (days : F64) : Dur :=
  Dur.sub (unitMulF64 dayFac (F64.sub (F64.sub days MJD_J1900F) MJD_OFFSETF)) g

/-- `from_unix_seconds` / `from_unix_milliseconds`: `UNIX_REF_EPOCH.to_utc_duration() + x * Unit` -/
def fromUnixSecondsDur (x : F64) : Dur := Dur.add unixRef (unitMulF64 secFac x)
def fromUnixMillisecondsDur (x : F64) : Dur := Dur.add unixRef (unitMulF64 msFac x)

/-- `impl Add<f64> for Epoch` (as repaired by 62d8753): a whole number of seconds
    (`seconds.trunc() == seconds`, true for ±inf, false for NaN) goes through the integer path
    `(seconds as i64) * Unit::Second`, anything else through `seconds * Unit::Second`; then
    `self.duration + duration` (time scale unchanged) -/
def epochAddF (d : Dur) (seconds : F64) : Dur :=
  Dur.add d (if brk seconds then Dur.unitMulI64 Gen.NANOSECONDS_PER_SECOND (toI64 seconds)
             else unitMulF64 secFac seconds)

/-- `Epoch::day_of_year`: `duration_in_year().to_unit(Unit::Day) + 1.0` -/
def dayOfYear (diy : Dur) : F64 := F64.add (toUnitWith diy (F64.div one SECONDS_PER_DAY)) one

end Hifi.ViewsF
