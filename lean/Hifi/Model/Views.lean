import Hifi.Model.Dynamical
/-
  Julian Date, Modified Julian Date and UNIX views (src/epoch/mod.rs accessors, src/epoch/initializers.rs).
  Duration-valued accessors are exact integer arithmetic (usable in proofs); float-valued accessors and
  float constructors are evaluated with hardware `Float` (driver only).
-/
namespace Hifi.Views
open Hifi Hifi.Dyn

/-- `Unit::Day * 15020.0` (MJD_J1900): 15020·86400·10⁹ is exactly representable in binary64 and below
    2⁶³, so the product is `from_truncated_nanoseconds` of exactly that count -/
def mjdJ1900 : Dur := Dur.fromTruncated (15020 * 86400000000000)
/-- `Unit::Day * 2400000.5` (MJD_OFFSET): exactly representable; ≥ 2⁶³ so it takes the i128 branch -/
def mjdOffset : Dur := Dur.fromTotal (2400000 * 86400000000000 + 43200000000000)
/-- `Unit::Day * (MJD_J1900 + MJD_OFFSET)` = 2415020.5 days: exactly representable (odd part < 2⁵³) -/
def jdeJ1900 : Dur := Dur.fromTotal (2415020 * 86400000000000 + 43200000000000)
/-- `Unit::Second * ET_EPOCH_S` (i64) -/
def etEpoch : Dur := Dur.unitMulI64 Gen.NANOSECONDS_PER_SECOND Gen.ET_EPOCH_S
/-- `UNIX_REF_EPOCH.to_utc_duration()`: a TAI epoch before 1972, so its UTC count is the same -/
def unixRef : Dur := ⟨Gen.UNIX_REF_EPOCH_C, Gen.UNIX_REF_EPOCH_NS⟩

/-- duration-valued accessors, from the duration already expressed in the relevant scale -/
def toJdeTai (tai : Dur) : Dur := Dur.add (Dur.add tai mjdJ1900) mjdOffset
def toJdeUtc (utc : Dur) : Dur := Dur.add utc jdeJ1900
def toJdeTt (tt : Dur) : Dur := Dur.add tt jdeJ1900
def toMjdTt (tt : Dur) : Dur := Dur.add tt mjdJ1900
def toTtSinceJ2k (tt : Dur) : Dur := Dur.sub tt etEpoch
def toUnixDur (utc : Dur) : Dur := Dur.sub utc unixRef
def fromUnixDur (d : Dur) : Dur := Dur.add unixRef d

/-- `TimeScale::prime_epoch_offset` -/
def primeOffset : TS → Dur
  | .ET => ⟨Gen.PRIME_OFFSET_ET_C, Gen.PRIME_OFFSET_ET_NS⟩
  | .TDB => ⟨Gen.PRIME_OFFSET_TDB_C, Gen.PRIME_OFFSET_TDB_NS⟩
  | .GPST => ⟨Gen.PRIME_OFFSET_GPST_C, Gen.PRIME_OFFSET_GPST_NS⟩
  | .QZSST => ⟨Gen.PRIME_OFFSET_QZSST_C, Gen.PRIME_OFFSET_QZSST_NS⟩
  | .GST => ⟨Gen.PRIME_OFFSET_GST_C, Gen.PRIME_OFFSET_GST_NS⟩
  | .BDT => ⟨Gen.PRIME_OFFSET_BDT_C, Gen.PRIME_OFFSET_BDT_NS⟩
  | _ => Dur.ZERO

/-- `TimeScale::gregorian_epoch_offset`: prime offset minus its seconds subdivision -/
def gregorianEpochOffset (ts : TS) : Res Dur :=
  match Dur.decompose (primeOffset ts) with
  | .ok (_, _, _, _, s, _, _, _) => .ok (Dur.sub (primeOffset ts) (Dur.unitMulI64 Gen.NANOSECONDS_PER_SECOND s))
  | .err => .err
  | .panic => .panic

/-! ### hardware-float part -/

def f1em3 : Float := Float.ofBits Gen.LIT_1EM3_BITS
def f1em6 : Float := Float.ofBits Gen.LIT_1EM6_BITS

/-- `Unit::in_seconds` -/
def inSeconds : String → Option Float
  | "cy" => some (36525.0 * 86400.0)
  | "wk" => some (7.0 * 86400.0)
  | "d" => some 86400.0
  | "h" => some 3600.0
  | "min" => some 60.0
  | "s" => some 1.0
  | "ms" => some f1em3
  | "us" => some f1em6
  | "ns" => some f1em9
  | _ => none

/-- `Duration::to_unit` -/
def toUnitF (d : Dur) (u : String) : Option Float := (inSeconds u).map (fun s => toSecondsF d * (1.0 / s))

/-- `impl Mul<f64> for Unit` with the unit's factor as f64 (exact integers) -/
def unitMulF (factor x : Float) : Dur :=
  if x ≥ f64MAX / factor then Dur.MAX
  else if x ≤ (-f64MAX) / factor then Dur.MIN
  else
    let t := x * factor
    if t.abs < fI64MAX then Dur.fromTruncated (truncToInt t)
    else Dur.fromTotal (satI128 (truncToInt t))

def dayF : Float := 86400000000000.0

end Hifi.Views
