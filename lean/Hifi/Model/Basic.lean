/-
  Shared vocabulary of the executable model.  Import-free (core Lean only) so that the
  driver links as a native executable.
-/
namespace Hifi

/-- Outcome of a modelled call: a value, the Rust `Err(_)`, or a panic
    (overflow under overflow checks, slice out of bounds, `unwrap` on `None`, `unreachable!`). -/
inductive Res (α : Type) where
  | ok (a : α)
  | err
  | panic
deriving Repr, DecidableEq, Inhabited

namespace Res
def map {α β} (f : α → β) : Res α → Res β
  | ok a => ok (f a)
  | err => err
  | panic => panic
def bind {α β} (r : Res α) (f : α → Res β) : Res β :=
  match r with
  | ok a => f a
  | err => err
  | panic => panic
instance : Monad Res where
  pure := Res.ok
  bind := Res.bind
def isOk {α} : Res α → Bool
  | ok _ => true
  | _ => false
end Res

def I16MIN : Int := -32768
def I16MAX : Int := 32767
def I64MIN : Int := -9223372036854775808
def I64MAX : Int := 9223372036854775807
def U64MAX : Int := 18446744073709551615
def I128MIN : Int := -170141183460469231731687303715884105728
def I128MAX : Int := 170141183460469231731687303715884105727

def fitsI16 (x : Int) : Bool := decide (-32768 ≤ x ∧ x ≤ 32767)
def fitsI64 (x : Int) : Bool := decide (-9223372036854775808 ≤ x ∧ x ≤ 9223372036854775807)
def fitsU64 (x : Int) : Bool := decide (0 ≤ x ∧ x ≤ 18446744073709551615)
def fitsI128 (x : Int) : Bool :=
  decide (-170141183460469231731687303715884105728 ≤ x ∧ x ≤ 170141183460469231731687303715884105727)

/-- `i128::saturating_*` result for an exact mathematical value. -/
def satI128 (x : Int) : Int :=
  if x < -170141183460469231731687303715884105728 then -170141183460469231731687303715884105728
  else if x > 170141183460469231731687303715884105727 then 170141183460469231731687303715884105727
  else x

end Hifi
