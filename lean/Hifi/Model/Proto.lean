import Hifi.Model.Duration
/-
  Line protocol helpers (driver side): decoding of arguments and encoding of results.
-/
namespace Hifi.Proto

structure Ans where
  model : String
  spec : String := "na"
  cls : String := "-"
  branch : String := "-"

def Ans.render (a : Ans) : String := a.model ++ "\t" ++ a.spec ++ "\t" ++ a.cls ++ "\t" ++ a.branch

def parseInt? (s : String) : Option Int := s.toInt?

def parseDur? (s : String) : Option Dur :=
  match s.splitOn ":" with
  | [c, ns] => do
    let c ← c.toInt?
    let ns ← ns.toInt?
    pure ⟨c, ns⟩
  | _ => none

def showDur (d : Dur) : String := toString d.c ++ ":" ++ toString d.ns

def showResDur : Res Dur → String
  | .ok d => "ok " ++ showDur d
  | .err => "err"
  | .panic => "panic"

def showResInt : Res Int → String
  | .ok d => "ok " ++ toString d
  | .err => "err"
  | .panic => "panic"

/-- impl result decoded: `ok` + value tokens, or a bare outcome word -/
inductive Impl where
  | ok (vals : List String)
  | other (w : String)

def parseImpl (s : String) : Impl :=
  match s.trimAscii.toString.splitOn " " with
  | "ok" :: vs => .ok vs
  | w :: _ => .other w
  | [] => .other ""

def bool01 (b : Bool) : String := if b then "1" else "0"

def verdict (clauses : List (String × Bool)) : String :=
  match clauses.find? (fun p => !p.2) with
  | some (n, _) => "FAIL:" ++ n
  | none => "ok"

end Hifi.Proto
