import Hifi.Spec.DurFloat
import Hifi.Model.ViewsFloat
/-
  Spec vocabulary for the float views (C17): which exact quantity each float accessor reports.
  (Only the enumeration `Acc` of accessor names is shared with the model.)
-/
namespace Hifi.Spec
open Hifi.ViewsF

/-- (constant added to the elapsed time of the accessor's scale, in ns; unit of the reading):
    MJD of 1900-01-01 00:00 is 15 020 d, JD = MJD + 2 400 000.5 d, J2000 is 3 155 716 800 s after
    1900-01-01 00:00, UNIX time counts from 1970-01-01 = 2 208 988 800 s after it -/
def accConst (a : Acc) : Int × String :=
  match a with
  | .taiSeconds | .utcSeconds | .ttSeconds | .gpstSeconds => (0, "s")
  | .taiDays | .utcDays | .ttDays | .gpstDays => (0, "d")
  | .mjdTaiDays | .mjdUtcDays | .mjdTtDays => (15020 * (86400 * 10^9), "d")
  | .mjdTaiSeconds | .mjdUtcSeconds => (15020 * (86400 * 10^9), "s")
  | .jdeTaiDays | .jdeUtcDays | .jdeTtDays => (2415020 * (86400 * 10^9) + 43200 * 10^9, "d")
  | .jdeTaiSeconds | .jdeUtcSeconds => (2415020 * (86400 * 10^9) + 43200 * 10^9, "s")
  | .ttCenturiesJ2k => (-(3155716800 * 10^9), "cy")
  | .unixSeconds => (-(2208988800 * 10^9), "s")
  | .unixMilliseconds => (-(2208988800 * 10^9), "ms")
  | .unixDays => (-(2208988800 * 10^9), "d")

end Hifi.Spec
