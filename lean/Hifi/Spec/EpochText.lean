import Hifi.Spec.Calendar
import Hifi.Spec.Epoch
/-
  Independent specification of the epoch text forms (C10, C13).  Import-free apart from the
  specification calendar.  Grammars are GENERATORS: a text is in the grammar iff it is `render…` of
  some fields; what the text DENOTES is a function of those fields.  Nothing here mentions the model,
  a tokenizer, byte offsets or a table generated from the code.

    YYYY-MM-DDTHH:MM:SS[.f{1,9}]␣SCALE            Display / to_gregorian_str / ISO8601 formatter / JSON payload
    YYYY-MM-DDTHH:MM:SS[.f{1,9}]Z[␣SCALE]         RFC 3339, UTC designator
    YYYY-MM-DDTHH:MM:SS[.f{1,9}]±hh:mm[␣SCALE]    RFC 3339, numeric offset
    JD␣x␣SCALE   MJD␣x␣SCALE   SEC␣x␣SCALE        numeric forms, x a decimal numeral

  Denotation: the date-time fields are read in SCALE's own calendar (UTC when no scale is written);
  fewer than nine fractional digits mean trailing zeros; a written offset +hh:mm means the fields
  are hh:mm AHEAD of the scale's own clock, so the count denoted is the fields' count minus hh:mm
  (plus for `-`).  The shift is applied to the scale's own count (for UTC this is the civil reading
  of RFC 3339: the labels differ by exactly hh:mm).
-/
namespace Hifi.Spec

/-- `k` decimal digits of `v` (0 ≤ v < 10^k), most significant first -/
def digitsK : Nat → Int → List Nat
  | 0, _ => []
  | k + 1, v => digitsK k (v / 10) ++ [dig v]

def scaleCodes (scale : String) : List Nat := scale.toList.map Char.toNat

/-- `YYYY-MM-DDTHH:MM:SS[.f…]`: `nd` fractional digits holding the value `frac` (`nd = 0`: no point) -/
def renderStamp (d : Date) (h mi s : Int) (nd : Nat) (frac : Int) : List Nat :=
  yearText d.y ++ [45] ++ dig2 d.m ++ [45] ++ dig2 d.d ++ [84] ++ dig2 h ++ [58] ++ dig2 mi ++ [58] ++ dig2 s
    ++ (if nd = 0 then [] else 46 :: digitsK nd frac)

/-- `+hh:mm` / `-hh:mm` -/
def renderOffset (neg : Bool) (oh om : Int) : List Nat :=
  [if neg then 45 else 43] ++ dig2 oh ++ [58] ++ dig2 om

/-- the five forms of the property -/
inductive Form where
  | D | Z | ZT | O | OT
deriving DecidableEq, Repr

def Form.ofString? : String → Option Form
  | "D" => some .D | "Z" => some .Z | "ZT" => some .ZT | "O" => some .O | "OT" => some .OT | _ => none

def renderText (f : Form) (d : Date) (h mi s : Int) (nd : Nat) (frac : Int) (neg : Bool) (oh om : Int)
    (scale : String) : List Nat :=
  renderStamp d h mi s nd frac ++
    (match f with
     | .D => [32] ++ scaleCodes scale
     | .Z => [90]
     | .ZT => [90, 32] ++ scaleCodes scale
     | .O => renderOffset neg oh om
     | .OT => renderOffset neg oh om ++ [32] ++ scaleCodes scale)

/-- nanoseconds written by `nd` fractional digits of value `frac`: trailing zeros are implied -/
def fracNs (nd : Nat) (frac : Int) : Int := frac * 10 ^ (9 - nd)

/-- the written offset in nanoseconds, signed as written -/
def offsetNs (neg : Bool) (oh om : Int) : Int := (if neg then -1 else 1) * ((oh * 60 + om) * 60 * 1000000000)

/-- the count (ns from the scale's reference date-time) the text denotes -/
def denotedNs (scale : String) (d : Date) (h mi s : Int) (nd : Nat) (frac : Int) (neg : Bool) (oh om : Int) : Int :=
  elapsedNs scale d h mi s (fracNs nd frac) - offsetNs neg oh om

/-- does the form carry a written offset? -/
def Form.hasOffset : Form → Bool
  | .O | .OT => true
  | _ => false

/-- the scale a text of this form names: UTC when none is written -/
def Form.scaleOf (f : Form) (scale : String) : String :=
  match f with
  | .Z | .O => "UTC"
  | _ => scale

/-- the count a text of form `f` denotes, in the scale `f.scaleOf scale` -/
def denoted (f : Form) (scale : String) (d : Date) (h mi s : Int) (nd : Nat) (frac : Int) (neg : Bool) (oh om : Int) : Int :=
  elapsedNs (f.scaleOf scale) d h mi s (fracNs nd frac) - (if f.hasOffset then offsetNs neg oh om else 0)

/-- the fields are inside the quantifier of C10: a valid date of the years 0001-9999, a time of day
    with second < 60, a fraction that fits its digits, an offset up to 23:59 -/
def inGrammar (d : Date) (h mi s : Int) (nd : Nat) (frac : Int) (oh om : Int) : Bool :=
  validDate d && decide (1 ≤ d.y ∧ d.y ≤ 9999 ∧ 0 ≤ h ∧ h < 24 ∧ 0 ≤ mi ∧ mi < 60 ∧ 0 ≤ s ∧ s < 60 ∧
    nd ≤ 9 ∧ 0 ≤ frac ∧ frac < 10 ^ nd ∧ 0 ≤ oh ∧ oh < 24 ∧ 0 ≤ om ∧ om < 60)

/-- the quantifier is over EPOCHS of the calendar years 0001-9999: a text whose WRITTEN (local) date is 0000-12-31 (RFC 3339
    allows year 0000) with a negative offset that carries it past midnight denotes an epoch of 0001-01-01 and is inside it -/
def inGrammarYear0 (d : Date) (h mi s : Int) (nd : Nat) (frac : Int) (neg : Bool) (oh om : Int) : Bool :=
  neg && decide (d.y = 0 ∧ d.m = 12 ∧ d.d = 31 ∧ 0 ≤ h ∧ h < 24 ∧ 0 ≤ mi ∧ mi < 60 ∧ 0 ≤ s ∧ s < 60 ∧
    nd ≤ 9 ∧ 0 ≤ frac ∧ frac < 10 ^ nd ∧ 0 ≤ oh ∧ oh < 24 ∧ 0 ≤ om ∧ om < 60 ∧ h * 60 + mi + oh * 60 + om ≥ 1440)

/-! ### second = 60 (RFC 3339 §5.7: "60 is only allowed at the end of months in which a leap second occurs")

  `:60` labels an INSERTED second, and the label is that of the scale's own clock: with a written offset
  the local fields show `:60` at hh:mm = 23:59 + offset (RFC 3339 §5.8 gives `1990-12-31T15:59:60-08:00`).
  So a text with second 60 is valid exactly when its fields MINUS the written offset are 23:59 of a day
  whose next day is an entry of the leap-second table (`leapLabelOwn`); every other `:60` (another minute,
  another day) must be rejected.
  * In UTC the text then denotes the instant one second after 23:59:59.f of that day, INSIDE the inserted
    second (`denotedLeapInstant`).
  * The other eight scales have no inserted seconds, but C08 requires the constructors to accept
    second = 60 at 23:59 of those days "in any time scale" (pinned by the suite for TAI) and they give
    the count of 23:59:59.f; the parser must agree with the constructors: same acceptance, that count
    (`lastLabelNs − refOffsetNs`). -/

/-- the written offset in minutes, signed as written (0 for the forms without offset) -/
def offsetMin (f : Form) (neg : Bool) (oh om : Int) : Int :=
  if f.hasOffset then (if neg then -1 else 1) * (oh * 60 + om) else 0

/-- minutes from 1900-01-01T00:00 of the label the fields show in the scale's own clock -/
def ownMinute (d : Date) (h mi : Int) (offMin : Int) : Int := dayNumber d * 1440 + h * 60 + mi - offMin

/-- do the fields, once the offset is removed, show 23:59 of a day that precedes an entry of the table? -/
def leapLabelOwn (leapDates : List Date) (d : Date) (h mi : Int) (offMin : Int) : Bool :=
  decide (ownMinute d h mi offMin % 1440 = 1439) &&
  leapDates.any (fun L => decide (dayNumber L = ownMinute d h mi offMin / 1440 + 1))

/-- is `:60` of these fields the label of an inserted second (UTC only)? -/
def leapSecondLabel (leapDates : List Date) (scale : String) (d : Date) (h mi : Int) (offMin : Int) : Bool :=
  decide (scale = "UTC") && leapLabelOwn leapDates d h mi offMin

/-- ns from 1900-01-01T00:00:00 of the scale's calendar to `:59.f` of that minute: the last label before
    the inserted second (for UTC this is the UTC count itself) -/
def lastLabelNs (d : Date) (h mi : Int) (offMin : Int) (nd : Nat) (frac : Int) : Int :=
  (ownMinute d h mi offMin * 60 + 59) * 1000000000 + fracNs nd frac

/-- the instant (TAI ns) a valid `:60.f` text denotes: one second after the instant of `:59.f`
    (`tbl`: the IERS table as (NTP seconds, TAI−UTC)) -/
def denotedLeapInstant (tbl : List (Int × Int)) (d : Date) (h mi : Int) (offMin : Int) (nd : Nat) (frac : Int) : Int :=
  utcToTai tbl (lastLabelNs d h mi offMin nd frac) + 1000000000

/-- the fields of a second-60 text are otherwise inside the quantifier -/
def inGrammar60 (d : Date) (h mi : Int) (nd : Nat) (frac : Int) (oh om : Int) : Bool :=
  validDate d && decide (1 ≤ d.y ∧ d.y ≤ 9999 ∧ 0 ≤ h ∧ h < 24 ∧ 0 ≤ mi ∧ mi < 60 ∧
    nd ≤ 9 ∧ 0 ≤ frac ∧ frac < 10 ^ nd ∧ 0 ≤ oh ∧ oh < 24 ∧ 0 ≤ om ∧ om < 60)

/-! ### the RFC 3339 text of a UTC epoch and the ISO 8601 formatter text -/

/-- `to_rfc3339`: the UTC fields with `+00:00`; nine fractional digits iff the nanoseconds are non-zero -/
def renderRfcUtc (d : Date) (h mi s ns : Int) : List Nat :=
  renderStamp d h mi s (if ns = 0 then 0 else 9) ns ++ renderOffset false 0 0

/-- the ISO8601 formatter constant: always nine fractional digits, then the scale -/
def renderIso8601 (d : Date) (h mi s ns : Int) (scale : String) : List Nat :=
  renderStamp d h mi s 9 ns ++ [32] ++ scaleCodes scale

/-! ### decimal numerals (numeric forms) -/

def isDig (c : Nat) : Bool := decide (48 ≤ c ∧ c ≤ 57)

def natOfDigits (cs : List Nat) : Nat := cs.foldl (fun a c => a * 10 + (c - 48)) 0

/-- `[+|-]digits[.digits][(e|E)[+|-]digits]` → (sign, mantissa as integer, decimal exponent):
    the numeral denotes `sign · mant · 10^exp` -/
def readDecimal (s : List Nat) : Option (Int × Nat × Int) :=
  let (sg, body) : Int × List Nat := match s with
    | 45 :: r => (-1, r)
    | 43 :: r => (1, r)
    | _ => (1, s)
  let ip := body.takeWhile isDig
  let r1 := body.dropWhile isDig
  let (fp, r2) : List Nat × List Nat := match r1 with
    | 46 :: r => (r.takeWhile isDig, r.dropWhile isDig)
    | _ => ([], r1)
  if ip.isEmpty && fp.isEmpty then none else
  let mant := natOfDigits (ip ++ fp)
  match r2 with
  | [] => some (sg, mant, -(fp.length : Int))
  | x :: t =>
    if x = 101 ∨ x = 69 then
      let (esg, ed) : Int × List Nat := match t with
        | 45 :: r => (-1, r)
        | 43 :: r => (1, r)
        | _ => (1, t)
      if ed.isEmpty ∨ !(ed.all isDig) then none
      else some (sg, mant, esg * (natOfDigits ed : Int) - (fp.length : Int))
    else none

/-- `PREFIX␣x␣SCALE` (one or two blanks before the scale) -/
def renderNumeric (pfx : String) (dec : List Nat) (blanks : Nat) (sfx : String) : List Nat :=
  scaleCodes pfx ++ [32] ++ dec ++ List.replicate blanks 32 ++ scaleCodes sfx

/-- the quantity a numeric form measures, in ns per unit, and the constant (ns) to subtract so that the
    result counts from 1900-01-01T00:00:00 of the scale's calendar: JD 2415020.5 d, MJD 15020 d;
    SEC counts seconds from the scale's own reference and needs no calendar -/
def numericUnit (pfx : String) : Option (Int × Int) :=
  if pfx = "JD" then some (86400000000000, 2415020 * 86400000000000 + 43200000000000)
  else if pfx = "MJD" then some (86400000000000, 15020 * 86400000000000)
  else if pfx = "SEC" then some (1000000000, 0)
  else none

/-- is `got` (ns in `scale`) the instant `sg · mant · 10^ex` units denote, to within the resolution of a
    binary64 of that magnitude?  Exact integer arithmetic.  The tolerance is `ulps` units in the last
    place of a double of magnitude max(|x|, c) (c = the constant the conversion subtracts, in units;
    at least 1), converted to ns, plus 1 ns for the truncation to the nanosecond grid. -/
def withinResolution (pfx scale : String) (sg : Int) (mant : Nat) (ex : Int) (got : Int) (ulps : Nat) : Bool :=
  match numericUnit pfx with
  | none => false
  | some (unit, cst) =>
    -- x = sg · mant · 10^ex = sg · N / D
    let N : Int := if ex ≥ 0 then (mant : Int) * 10 ^ ex.toNat else (mant : Int)
    let D : Int := if ex ≥ 0 then 1 else 10 ^ (-ex).toNat
    let off : Int := if pfx = "SEC" then 0 else refOffsetNs scale
    -- wanted ns · D
    let wantD : Int := sg * N * unit - (cst + off) * D
    -- magnitude for the ulp: max(⌊|x|⌋, c in units, 1)
    let mag : Nat := max (max (N / D).toNat (cst / unit).toNat) 1
    let b : Nat := mag.log2 + 1                       -- the difference may be one binade above
    -- ulp = 2^(b-52) units; tolerance·D·2^52 = (ulps · 2^b · unit + 2^52) · D
    let lhs : Int := (got * D - wantD).natAbs * 2 ^ 52
    let rhs : Int := ((ulps : Int) * 2 ^ b * unit + 2 ^ 52) * D
    decide (lhs ≤ rhs)

/-! ### reading a stamp back (used to recognise WELL-FORMED text in the totality stream) -/

def twoDigits (cs : List Nat) : Option (Int × List Nat) :=
  match cs with
  | a :: b :: r => if isDig a && isDig b then some (((a - 48) * 10 + (b - 48) : Nat), r) else none
  | _ => none

/-- `YYYY-MM-DD(T|␣)HH:MM:SS` followed by anything: the six fields and the rest -/
def readStamp (cs : List Nat) : Option (Date × Int × Int × Int × List Nat) :=
  let yd := cs.takeWhile isDig
  if yd.length < 4 ∨ yd.length > 9 then none else
  match cs.dropWhile isDig with
  | 45 :: r1 =>
    match twoDigits r1 with
    | some (mo, 45 :: r2) =>
      match twoDigits r2 with
      | some (d, sep :: r3) =>
        if sep ≠ 84 ∧ sep ≠ 32 then none else
        match twoDigits r3 with
        | some (h, 58 :: r4) =>
          match twoDigits r4 with
          | some (mi, 58 :: r5) =>
            match twoDigits r5 with
            | some (s, rest) => some (⟨(natOfDigits yd : Int), mo, d⟩, h, mi, s, rest)
            | none => none
          | _ => none
        | _ => none
      | _ => none
    | _ => none
  | _ => none

/-- is `rest` a well-formed tail: `[.f{1,9}]` then nothing | `Z` | `±hh:mm` | `␣SCALE`, optionally `␣SCALE`
    after `Z` / offset, with SCALE one of the nine names? -/
def wellFormedTail (rest : List Nat) : Bool :=
  let r1 : List Nat := match rest with
    | 46 :: r => if (r.takeWhile isDig).length ≥ 1 ∧ (r.takeWhile isDig).length ≤ 9 then r.dropWhile isDig else [0]
    | _ => rest
  let scales : List (List Nat) := ["TAI", "TT", "ET", "TDB", "UTC", "GPST", "GST", "BDT", "QZSST"].map scaleCodes
  let scaleTail (r : List Nat) : Bool := r.isEmpty || (match r with | 32 :: t => scales.contains t | _ => false)
  match r1 with
  | [] => true
  | 90 :: r => scaleTail r
  | 32 :: t => scales.contains t
  | sgn :: r =>
    if sgn = 43 ∨ sgn = 45 then
      match twoDigits r with
      | some (oh, 58 :: r2) =>
        (match twoDigits r2 with
         | some (om, r3) => decide (oh < 24 ∧ om < 60) && scaleTail r3
         | none => false)
      | _ => false
    else false

/-- the offset (minutes, signed as written) of a well-formed tail; 0 when none is written -/
def tailOffsetMin (rest : List Nat) : Int :=
  let r1 : List Nat := match rest with
    | 46 :: r => r.dropWhile isDig
    | _ => rest
  match r1 with
  | sgn :: r =>
    if sgn = 43 ∨ sgn = 45 then
      match twoDigits r with
      | some (oh, 58 :: r2) =>
        (match twoDigits r2 with
         | some (om, _) => (if sgn = 45 then -1 else 1) * (oh * 60 + om)
         | none => 0)
      | _ => 0
    else 0
  | [] => 0

/-- must a well-formed stamp be rejected?  Out-of-range fields (a second of 60 judged as 59), or a second of
    60 whose label, once the written offset is removed, is not 23:59 of a leap-second day -/
def stampMustReject (leapDates : List Date) (d : Date) (h mi s : Int) (rest : List Nat) : Bool :=
  if s = 60 then mustReject leapDates d h mi 59 0 || !(leapLabelOwn leapDates d h mi (tailOffsetMin rest))
  else mustReject leapDates d h mi s 0

end Hifi.Spec
