/-
  Independent specification vocabulary for durations: a duration *is* a signed integer number
  of nanoseconds, clamped to the representable interval.  Nothing here refers to the model or
  to constants generated from the code.
-/
namespace Hifi.Spec

/-- nanoseconds per Julian century, from first principles -/
def NPCs : Int := 36525 * 86400 * 1000000000
def DMIN : Int := -32768 * NPCs
def DMAX : Int := 32768 * NPCs

/-- saturation at the duration bounds -/
def clampD (x : Int) : Int := if x < DMIN then DMIN else if x > DMAX then DMAX else x

/-- the value denoted by (centuries, nanoseconds) parts -/
def valP (c ns : Int) : Int := c * NPCs + ns

/-- canonical parts: i16 centuries, 0 ≤ ns < one century, except the maximum which carries a full century -/
def canonP (c ns : Int) : Bool :=
  decide (-32768 ≤ c ∧ c ≤ 32767 ∧ 0 ≤ ns ∧ (ns < NPCs ∨ (c = 32767 ∧ ns = NPCs)))

end Hifi.Spec
