/-
  Independent specification vocabulary for durations: a duration *is* a signed integer number
  of nanoseconds, clamped to the representable interval.  Nothing here refers to the model or
  to constants generated from the code.
-/
namespace Hifi.Spec

/-- nanoseconds per Julian century, from first principles -/
def NPCs : Int := 36525 * 86400 * 1000000000
def DMIN : Int := -32768 * NPCs
def DMAX : Int := 32768 * NPCs

/-- saturation at the duration bounds -/
def clampD (x : Int) : Int := if x < DMIN then DMIN else if x > DMAX then DMAX else x

/-- the value denoted by (centuries, nanoseconds) parts -/
def valP (c ns : Int) : Int := c * NPCs + ns

/-- canonical parts: i16 centuries, 0 ≤ ns < one century, except the maximum which carries a full century -/
def canonP (c ns : Int) : Bool :=
  decide (-32768 ≤ c ∧ c ≤ 32767 ∧ 0 ≤ ns ∧ (ns < NPCs ∨ (c = 32767 ∧ ns = NPCs)))

/-- greatest multiple of |s| not above x (0 for a zero step), saturated -/
def sfloor (x s : Int) : Int := if s = 0 then 0 else clampD (x - x % s)
/-- floor plus |s|, computed from the returned (saturated) floor, saturated -/
def sceil (x s : Int) : Int := clampD (sfloor x s + (if s < 0 then -s else s))
/-- whichever of floor and ceil is nearer, ties going up -/
def sround (x s : Int) : Int :=
  if x - sfloor x s < (if sceil x s - x < 0 then -(sceil x s - x) else sceil x s - x) then sfloor x s else sceil x s

end Hifi.Spec
