import Hifi.Spec.Calendar
/-
  Independent specification of the strftime-style formatting (C19).  Import-free apart from the
  specification calendar (`Spec/Calendar.lean`); nothing here mentions the model, `Item`s, the
  code's tables or generated constants.

  * A FORMAT of the property is read directly off its string: `%`, a token letter, then the separator
    characters up to the next `%` (at most two; a `?` among them marks the token optional).
  * The FIELDS of an epoch are those of its Gregorian representation in its own time scale: the date
    of the specification calendar whose day number is ⌊(value + reference offset) / 86400 s⌋, the
    time of day, the weekday of that date (1900-01-01 was a Monday) and its ordinal in the year.
  * The TEXT the property demands is, token by token, the zero-padded field / English name / scale /
    offset, the tokens separated by exactly the separators of the format, an optional token that is
    zero (sub-seconds) or UTC (time scale) being left out together with the separators before it.
-/
namespace Hifi.Spec.Efmt
open Hifi.Spec

structure Fields where
  y : Int
  mo : Int
  d : Int
  h : Int
  mi : Int
  s : Int
  ns : Int
  /-- 0 = Monday … 6 = Sunday -/
  wd : Int
  /-- 1 = 1 January -/
  doy : Int
  scale : String
deriving Repr, DecidableEq

/-- the fields of the epoch with value `v` (ns past the reference of `scale`); `none` only if the
    date search of `Spec/Calendar` fails to certify its answer (it never does in range) -/
def fieldsOf (scale : String) (v : Int) : Option Fields :=
  let a := v + refOffsetNs scale
  let n := a / NPDs
  let t := a % NPDs
  let dt := dateOfDayNumber n
  if certifiesDate dt n then
    some ⟨dt.y, dt.m, dt.d, t / 3600000000000, t / 60000000000 % 60, t / 1000000000 % 60, t % 1000000000,
          n % 7, n - dayNumber ⟨dt.y, 1, 1⟩ + 1, scale⟩
  else none

/-- `F` ARE the fields of the epoch with value `v` (ns past the reference of `scale`): a valid date and
    time of day whose elapsed time is `v` (unique: `C09.fields_determined`), the weekday of that date
    (1900-01-01, day number 0, was a Monday), its ordinal in the year, the scale -/
def IsFields (scale : String) (v : Int) (F : Fields) : Prop :=
  validDate ⟨F.y, F.mo, F.d⟩ = true ∧ 0 ≤ F.h ∧ F.h < 24 ∧ 0 ≤ F.mi ∧ F.mi < 60 ∧ 0 ≤ F.s ∧ F.s < 60 ∧
  0 ≤ F.ns ∧ F.ns < 1000000000 ∧
  elapsedNs scale ⟨F.y, F.mo, F.d⟩ F.h F.mi F.s F.ns = v ∧
  F.wd = dayNumber ⟨F.y, F.mo, F.d⟩ % 7 ∧
  F.doy = dayNumber ⟨F.y, F.mo, F.d⟩ - dayNumber ⟨F.y, 1, 1⟩ + 1 ∧
  F.scale = scale

def weekdayNames : List String := ["Monday", "Tuesday", "Wednesday", "Thursday", "Friday", "Saturday", "Sunday"]

def codes (s : String) : List Nat := s.toList.map Char.toNat

/-- the English short forms are the first three letters -/
def short (s : String) : List Nat := (codes s).take 3

def dig3 (v : Int) : List Nat := [dig (v / 100), dig (v / 10), dig v]

/-- one item of a format: token letter, separators, optional flag -/
structure SItem where
  letter : Nat
  seps : List Nat
  optional : Bool
deriving Repr, DecidableEq

/-- the 14 supported tokens: Y m d H M S f j A a B b T z -/
def supported (c : Nat) : Bool := [89, 109, 100, 72, 77, 83, 102, 106, 65, 97, 66, 98, 84, 122].contains c

def splitAt37 : List Nat → List (List Nat)
  | [] => [[]]
  | c :: cs =>
    if c = 37 then [] :: splitAt37 cs
    else match splitAt37 cs with
      | [] => [[c]]
      | p :: ps => (c :: p) :: ps

def readPiece : List Nat → Option SItem
  | [] => none
  | c :: rest =>
    if supported c ∧ rest.length ≤ 2 ∧ rest.all (fun x => decide (x < 128)) then
      some ⟨c, rest.filter (· ≠ 63), rest.contains 63⟩
    else none

/-- a format string of the property: it starts with `%`, every piece is a supported letter followed by
    at most two ASCII characters (separators, `?`); 1 to 16 tokens -/
def readPieces : List (List Nat) → Option (List SItem)
  | [] => some []
  | p :: ps =>
    match readPiece p, readPieces ps with
    | some it, some r => some (it :: r)
    | _, _ => none

def readFormat (s : List Nat) : Option (List SItem) :=
  match splitAt37 s with
  | [] :: pieces =>
    if 1 ≤ pieces.length ∧ pieces.length ≤ 16 then readPieces pieces else none
  | _ => none

/-- the quantifier of the per-token clause: no optional token, no separator after the last token -/
def plainFormat (items : List SItem) : Bool :=
  items.all (fun it => !it.optional) && (match items.getLast? with | some l => l.seps.isEmpty | none => false)

/-- the text of one token; `off` = time-zone offset in ns (whole minutes, |off| < 24 h) -/
def tokenText (c : Nat) (F : Fields) (off : Int) : Option (List Nat) :=
  if c = 89 then (if 0 ≤ F.y ∧ F.y ≤ 9999 then some (dig4 F.y) else none)
  else if c = 109 then some (dig2 F.mo)
  else if c = 100 then some (dig2 F.d)
  else if c = 72 then some (dig2 F.h)
  else if c = 77 then some (dig2 F.mi)
  else if c = 83 then some (dig2 F.s)
  else if c = 102 then some (dig9 F.ns)
  else if c = 106 then some (dig3 F.doy)
  else if c = 65 then some (codes (weekdayNames.getD F.wd.toNat ""))
  else if c = 97 then some (short (weekdayNames.getD F.wd.toNat ""))
  else if c = 66 then some (codes (monthNames.getD (F.mo - 1).toNat ""))
  else if c = 98 then some (short (monthNames.getD (F.mo - 1).toNat ""))
  else if c = 84 then some (codes F.scale)
  else if c = 122 then
    (if off % 60000000000 = 0 ∧ -86400000000000 < off ∧ off < 86400000000000 then
      some ((if off < 0 then [45] else [43]) ++ dig2 (off.natAbs / 3600000000000) ++ [58]
            ++ dig2 (off.natAbs / 60000000000 % 60))
    else none)
  else none

/-- is an optional token left out?  sub-seconds when zero, the time scale when UTC -/
def omitted (it : SItem) (F : Fields) : Bool :=
  it.optional && ((it.letter == 102 && F.ns == 0) || (it.letter == 84 && F.scale == "UTC"))

/-- the demanded text: printed tokens, each preceded (except the first item of the format) by the
    separators that stand before it in the format -/
def renderGo (F : Fields) (off : Int) : List SItem → List Nat → Option (List Nat)
  | [], _ => some []
  | it :: rest, before =>
    if omitted it F then renderGo F off rest it.seps
    else
      match tokenText it.letter F off, renderGo F off rest it.seps with
      | some t, some r => some (before ++ t ++ r)
      | _, _ => none

def render (items : List SItem) (F : Fields) (off : Int) : Option (List Nat) := renderGo F off items []

/-- plain formats: the concatenation token, separators, token, … (what `render` is on them) -/
def renderPlain (F : Fields) (off : Int) : List SItem → Option (List Nat)
  | [] => some []
  | it :: rest =>
    match tokenText it.letter F off, renderPlain F off rest with
    | some t, some r => some (t ++ it.seps ++ r)
    | _, _ => none

/-! ### the predefined formats as the documentation gives them -/

/-- rustdoc of `Format` (ISO8601, ISO8601_DATE, ISO8601_ORDINAL, RFC2822, RFC2822_LONG), the unit test
    beside it (ISO8601_FLEX), tests/epoch.rs (RFC3339); RFC3339_FLEX and ISO8601_STD by their doc
    comments ("The RFC3339 format unless the subseconds are zero", "The ISO8601 format without the time scale") -/
def documented : List (String × String) :=
  [("ISO8601", "%Y-%m-%dT%H:%M:%S.%f %T"),
   ("ISO8601_FLEX", "%Y-%m-%dT%H:%M:%S.%f? %T?"),
   ("RFC3339", "%Y-%m-%dT%H:%M:%S.%f%z"),
   ("RFC3339_FLEX", "%Y-%m-%dT%H:%M:%S.%f?%z"),
   ("ISO8601_DATE", "%Y-%m-%d"),
   ("ISO8601_ORDINAL", "%Y-%j"),
   ("RFC2822", "%a, %d %b %Y %H:%M:%S"),
   ("RFC2822_LONG", "%A, %d %B %Y %H:%M:%S"),
   ("ISO8601_STD", "%Y-%m-%dT%H:%M:%S.%f")]

def documentedItems (name : String) : Option (List SItem) :=
  match documented.find? (fun p => p.1 == name) with
  | some p => readFormat (codes p.2)
  | none => none

/-! ### `Debug` of a format (what `Format::from_str` must have understood) -/

def tokenDebugName (c : Nat) : String :=
  if c = 89 then "Year" else if c = 109 then "Month" else if c = 100 then "Day" else if c = 72 then "Hour"
  else if c = 77 then "Minute" else if c = 83 then "Second" else if c = 102 then "Subsecond"
  else if c = 106 then "DayOfYearInteger" else if c = 65 then "Weekday" else if c = 97 then "WeekdayShort"
  else if c = 66 then "MonthName" else if c = 98 then "MonthNameShort" else if c = 84 then "Timescale"
  else if c = 122 then "OffsetHours" else "?"

def debugText (items : List SItem) : List Nat :=
  codes "EpochFormat:`" ++
  items.flatMap (fun it => codes (tokenDebugName it.letter) ++ it.seps ++ (if it.optional then [63] else [])) ++ [96]

/-! ### parse back -/

/-- "contains the full date and time": year, month (number or name) and day — or the day of year —,
    hour, minute, second and sub-second -/
def fullDateTime (items : List SItem) : Bool :=
  let has := fun (c : Nat) => items.any (fun it => it.letter == c)
  has 89 && ((has 109 || has 66 || has 98) && has 100 || has 106) && has 72 && has 77 && has 83 && has 102

/-- the formats of the parse-back clause -/
def backDomain (items : List SItem) : Bool := plainFormat items && fullDateTime items

/-- `to_isoformat`: the ISO text with six digits of sub-seconds -/
def isoformatText (F : Fields) : Option (List Nat) :=
  if 0 ≤ F.y ∧ F.y ≤ 9999 then
    some (dig4 F.y ++ [45] ++ dig2 F.mo ++ [45] ++ dig2 F.d ++ [84] ++ dig2 F.h ++ [58] ++ dig2 F.mi ++ [58] ++ dig2 F.s
          ++ [46] ++ (dig9 F.ns).take 6)
  else none

end Hifi.Spec.Efmt
