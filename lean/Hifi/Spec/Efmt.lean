import Hifi.Spec.Calendar
/-
  Independent specification of the strftime-style formatting (C19).  Import-free apart from the
  specification calendar (`Spec/Calendar.lean`); nothing here mentions the model, `Item`s, the
  code's tables or generated constants.

  * A FORMAT of the property is read directly off its string: `%`, a token letter, then the separator
    characters up to the next `%` (at most two; a `?` among them marks the token optional).
  * The FIELDS of an epoch are those of its Gregorian representation in its own time scale: the date
    of the specification calendar whose day number is ⌊(value + reference offset) / 86400 s⌋, the
    time of day, the weekday of that date (1900-01-01 was a Monday) and its ordinal in the year.
  * The TEXT the property demands is, token by token, the zero-padded field / English name / scale /
    offset, the tokens separated by exactly the separators of the format, an optional token that is
    zero (sub-seconds) or UTC (time scale) being left out together with the separators before it.
-/
namespace Hifi.Spec.Efmt
open Hifi.Spec

structure Fields where
  y : Int
  mo : Int
  d : Int
  h : Int
  mi : Int
  s : Int
  ns : Int
  /-- 0 = Monday … 6 = Sunday -/
  wd : Int
  /-- 1 = 1 January -/
  doy : Int
  scale : String
deriving Repr, DecidableEq

/-- the fields of the epoch with value `v` (ns past the reference of `scale`); `none` only if the
    date search of `Spec/Calendar` fails to certify its answer (it never does in range) -/
def fieldsOf (scale : String) (v : Int) : Option Fields :=
  let a := v + refOffsetNs scale
  let n := a / NPDs
  let t := a % NPDs
  let dt := dateOfDayNumber n
  if certifiesDate dt n then
    some ⟨dt.y, dt.m, dt.d, t / 3600000000000, t / 60000000000 % 60, t / 1000000000 % 60, t % 1000000000,
          n % 7, n - dayNumber ⟨dt.y, 1, 1⟩ + 1, scale⟩
  else none

/-- `F` ARE the fields of the epoch with value `v` (ns past the reference of `scale`): a valid date and
    time of day whose elapsed time is `v` (unique: `C09.fields_determined`), the weekday of that date
    (1900-01-01, day number 0, was a Monday), its ordinal in the year, the scale -/
def IsFields (scale : String) (v : Int) (F : Fields) : Prop :=
  validDate ⟨F.y, F.mo, F.d⟩ = true ∧ 0 ≤ F.h ∧ F.h < 24 ∧ 0 ≤ F.mi ∧ F.mi < 60 ∧ 0 ≤ F.s ∧ F.s < 60 ∧
  0 ≤ F.ns ∧ F.ns < 1000000000 ∧
  elapsedNs scale ⟨F.y, F.mo, F.d⟩ F.h F.mi F.s F.ns = v ∧
  F.wd = dayNumber ⟨F.y, F.mo, F.d⟩ % 7 ∧
  F.doy = dayNumber ⟨F.y, F.mo, F.d⟩ - dayNumber ⟨F.y, 1, 1⟩ + 1 ∧
  F.scale = scale

def weekdayNames : List String := ["Monday", "Tuesday", "Wednesday", "Thursday", "Friday", "Saturday", "Sunday"]

def codes (s : String) : List Nat := s.toList.map Char.toNat

/-- the English short forms are the first three letters -/
def short (s : String) : List Nat := (codes s).take 3

def dig3 (v : Int) : List Nat := [dig (v / 100), dig (v / 10), dig v]

/-- one item of a format: token letter, separators, optional flag -/
structure SItem where
  letter : Nat
  seps : List Nat
  optional : Bool
deriving Repr, DecidableEq

/-- the 14 supported tokens: Y m d H M S f j A a B b T z -/
def supported (c : Nat) : Bool := [89, 109, 100, 72, 77, 83, 102, 106, 65, 97, 66, 98, 84, 122].contains c

def splitAt37 : List Nat → List (List Nat)
  | [] => [[]]
  | c :: cs =>
    if c = 37 then [] :: splitAt37 cs
    else match splitAt37 cs with
      | [] => [[c]]
      | p :: ps => (c :: p) :: ps

def readPiece : List Nat → Option SItem
  | [] => none
  | c :: rest =>
    if supported c ∧ rest.length ≤ 2 ∧ rest.all (fun x => decide (x < 128)) then
      some ⟨c, rest.filter (· ≠ 63), rest.contains 63⟩
    else none

/-- a format string of the property: it starts with `%`, every piece is a supported letter followed by
    at most two ASCII characters (separators, `?`); 1 to 16 tokens -/
def readPieces : List (List Nat) → Option (List SItem)
  | [] => some []
  | p :: ps =>
    match readPiece p, readPieces ps with
    | some it, some r => some (it :: r)
    | _, _ => none

def readFormat (s : List Nat) : Option (List SItem) :=
  match splitAt37 s with
  | [] :: pieces =>
    if 1 ≤ pieces.length ∧ pieces.length ≤ 16 then readPieces pieces else none
  | _ => none

/-- the quantifier of the per-token clause: no optional token, no separator after the last token -/
def plainFormat (items : List SItem) : Bool :=
  items.all (fun it => !it.optional) && (match items.getLast? with | some l => l.seps.isEmpty | none => false)

/-- the text of one token; `off` = time-zone offset in ns (whole minutes, |off| < 24 h) -/
def tokenText (c : Nat) (F : Fields) (off : Int) : Option (List Nat) :=
  if c = 89 then (if 0 ≤ F.y ∧ F.y ≤ 9999 then some (dig4 F.y) else none)
  else if c = 109 then some (dig2 F.mo)
  else if c = 100 then some (dig2 F.d)
  else if c = 72 then some (dig2 F.h)
  else if c = 77 then some (dig2 F.mi)
  else if c = 83 then some (dig2 F.s)
  else if c = 102 then some (dig9 F.ns)
  else if c = 106 then some (dig3 F.doy)
  else if c = 65 then some (codes (weekdayNames.getD F.wd.toNat ""))
  else if c = 97 then some (short (weekdayNames.getD F.wd.toNat ""))
  else if c = 66 then some (codes (monthNames.getD (F.mo - 1).toNat ""))
  else if c = 98 then some (short (monthNames.getD (F.mo - 1).toNat ""))
  else if c = 84 then some (codes F.scale)
  else if c = 122 then
    (if off % 60000000000 = 0 ∧ -86400000000000 < off ∧ off < 86400000000000 then
      some ((if off < 0 then [45] else [43]) ++ dig2 (off.natAbs / 3600000000000) ++ [58]
            ++ dig2 (off.natAbs / 60000000000 % 60))
    else none)
  else none

/-- is an optional token left out?  sub-seconds when zero, the time scale when UTC -/
def omitted (it : SItem) (F : Fields) : Bool :=
  it.optional && ((it.letter == 102 && F.ns == 0) || (it.letter == 84 && F.scale == "UTC"))

/-- the demanded text: printed tokens, each preceded (except the first item of the format) by the
    separators that stand before it in the format -/
def renderGo (F : Fields) (off : Int) : List SItem → List Nat → Option (List Nat)
  | [], _ => some []
  | it :: rest, before =>
    if omitted it F then renderGo F off rest it.seps
    else
      match tokenText it.letter F off, renderGo F off rest it.seps with
      | some t, some r => some (before ++ t ++ r)
      | _, _ => none

def render (items : List SItem) (F : Fields) (off : Int) : Option (List Nat) := renderGo F off items []

/-- plain formats: the concatenation token, separators, token, … (what `render` is on them) -/
def renderPlain (F : Fields) (off : Int) : List SItem → Option (List Nat)
  | [] => some []
  | it :: rest =>
    match tokenText it.letter F off, renderPlain F off rest with
    | some t, some r => some (t ++ it.seps ++ r)
    | _, _ => none

/-! ### the predefined formats as the documentation gives them -/

/-- rustdoc of `Format` (ISO8601, ISO8601_DATE, ISO8601_ORDINAL, RFC2822, RFC2822_LONG), the unit test
    beside it (ISO8601_FLEX), tests/epoch.rs (RFC3339); RFC3339_FLEX and ISO8601_STD by their doc
    comments ("The RFC3339 format unless the subseconds are zero", "The ISO8601 format without the time scale") -/
def documented : List (String × String) :=
  [("ISO8601", "%Y-%m-%dT%H:%M:%S.%f %T"),
   ("ISO8601_FLEX", "%Y-%m-%dT%H:%M:%S.%f? %T?"),
   ("RFC3339", "%Y-%m-%dT%H:%M:%S.%f%z"),
   ("RFC3339_FLEX", "%Y-%m-%dT%H:%M:%S.%f?%z"),
   ("ISO8601_DATE", "%Y-%m-%d"),
   ("ISO8601_ORDINAL", "%Y-%j"),
   ("RFC2822", "%a, %d %b %Y %H:%M:%S"),
   ("RFC2822_LONG", "%A, %d %B %Y %H:%M:%S"),
   ("ISO8601_STD", "%Y-%m-%dT%H:%M:%S.%f")]

def documentedItems (name : String) : Option (List SItem) :=
  match documented.find? (fun p => p.1 == name) with
  | some p => readFormat (codes p.2)
  | none => none

/-! ### `Debug` of a format (what `Format::from_str` must have understood) -/

def tokenDebugName (c : Nat) : String :=
  if c = 89 then "Year" else if c = 109 then "Month" else if c = 100 then "Day" else if c = 72 then "Hour"
  else if c = 77 then "Minute" else if c = 83 then "Second" else if c = 102 then "Subsecond"
  else if c = 106 then "DayOfYearInteger" else if c = 65 then "Weekday" else if c = 97 then "WeekdayShort"
  else if c = 66 then "MonthName" else if c = 98 then "MonthNameShort" else if c = 84 then "Timescale"
  else if c = 122 then "OffsetHours" else "?"

def debugText (items : List SItem) : List Nat :=
  codes "EpochFormat:`" ++
  items.flatMap (fun it => codes (tokenDebugName it.letter) ++ it.seps ++ (if it.optional then [63] else [])) ++ [96]

/-! ### parse back -/

/-- "contains the full date and time": year, month (number or name) and day — or the day of year —,
    hour, minute, second and sub-second -/
def fullDateTime (items : List SItem) : Bool :=
  let has := fun (c : Nat) => items.any (fun it => it.letter == c)
  has 89 && ((has 109 || has 66 || has 98) && has 100 || has 106) && has 72 && has 77 && has 83 && has 102

/-- the formats of the parse-back clause -/
def backDomain (items : List SItem) : Bool := plainFormat items && fullDateTime items

/-- `to_isoformat`: the ISO text with six digits of sub-seconds -/
def isoformatText (F : Fields) : Option (List Nat) :=
  if 0 ≤ F.y ∧ F.y ≤ 9999 then
    some (dig4 F.y ++ [45] ++ dig2 F.mo ++ [45] ++ dig2 F.d ++ [84] ++ dig2 F.h ++ [58] ++ dig2 F.mi ++ [58] ++ dig2 F.s
          ++ [46] ++ (dig9 F.ns).take 6)
  else none

/-! ### reading a text against a format (C13: out-of-range fields are rejected)

  `readText items text` reads `text` as the STRICT rendering grammar of the format: per item the field (a
  non-empty run of ASCII digits for a numeric token; an English weekday / month name, a time-scale name,
  `±HH:MM`), then exactly the separators of the item; nothing may remain.  It answers `none` whenever the
  text is not of that form or the form is ambiguous (a numeric field running into the next numeric field,
  a letter separator after a name, a field given twice with different values): then nothing is demanded. -/

structure TFields where
  y : Option Int := none
  mo : Option Int := none
  d : Option Int := none
  h : Option Int := none
  mi : Option Int := none
  s : Option Int := none
  ns : Option Int := none
  doy : Option Int := none
  wd : Option Int := none
  scale : Option String := none
  off : Option Int := none
deriving Repr, DecidableEq

def isDig (c : Nat) : Bool := decide (48 ≤ c ∧ c ≤ 57)
def isLetter (c : Nat) : Bool := decide ((65 ≤ c ∧ c ≤ 90) ∨ (97 ≤ c ∧ c ≤ 122))
def numericLetter (c : Nat) : Bool := [89, 109, 100, 72, 77, 83, 102, 106].contains c

def digitsValue (ds : List Nat) : Int := ds.foldl (fun (a : Int) (c : Nat) => a * 10 + ((c : Int) - 48)) 0

/-- set a field; `none` if it is already set to another value -/
def setOnce (old : Option Int) (v : Int) : Option (Option Int) :=
  match old with
  | none => some (some v)
  | some w => if w = v then some (some v) else none

def indexOfName (names : List String) (txt : List Nat) : Option Int :=
  match (List.range names.length).find? (fun i => codes (names.getD i "") == txt || short (names.getD i "") == txt) with
  | some i => some (i : Int)
  | none => none

def scaleNames : List String := ["TAI", "TT", "ET", "TDB", "UTC", "GPST", "GST", "BDT", "QZSST"]

def dropPrefix : List Nat → List Nat → Option (List Nat)
  | [], t => some t
  | _ :: _, [] => none
  | a :: as, b :: bs => if a = b then dropPrefix as bs else none

/-- one field: the updated fields and the rest of the text -/
def readField (it : SItem) (nextNumeric : Bool) (F : TFields) (t : List Nat) : Option (TFields × List Nat) :=
  if numericLetter it.letter then
    let ds := t.takeWhile isDig
    let r := t.dropWhile isDig
    if ds.isEmpty || (it.seps.isEmpty && nextNumeric) || ds.length > 18 then none
    else
      let v := digitsValue ds
      if it.letter = 89 then (setOnce F.y v).map (fun x => ({ F with y := x }, r))
      else if it.letter = 109 then (setOnce F.mo v).map (fun x => ({ F with mo := x }, r))
      else if it.letter = 100 then (setOnce F.d v).map (fun x => ({ F with d := x }, r))
      else if it.letter = 72 then (setOnce F.h v).map (fun x => ({ F with h := x }, r))
      else if it.letter = 77 then (setOnce F.mi v).map (fun x => ({ F with mi := x }, r))
      else if it.letter = 83 then (setOnce F.s v).map (fun x => ({ F with s := x }, r))
      else if it.letter = 102 then
        (if ds.length > 9 then none else (setOnce F.ns (v * 10 ^ (9 - ds.length))).map (fun x => ({ F with ns := x }, r)))
      else (setOnce F.doy v).map (fun x => ({ F with doy := x }, r))
  else if it.letter = 65 ∨ it.letter = 97 ∨ it.letter = 66 ∨ it.letter = 98 ∨ it.letter = 84 then
    let ls := t.takeWhile isLetter
    let r := t.dropWhile isLetter
    if (match it.seps.head? with | some c => isLetter c | none => false) then none
    else if it.letter = 65 ∨ it.letter = 97 then
      (match indexOfName weekdayNames ls with
       | some i => (setOnce F.wd i).map (fun x => ({ F with wd := x }, r))
       | none => none)
    else if it.letter = 66 ∨ it.letter = 98 then
      (match indexOfName monthNames ls with
       | some i => (setOnce F.mo (i + 1)).map (fun x => ({ F with mo := x }, r))
       | none => none)
    else
      (match scaleNames.find? (fun n => codes n == ls) with
       | some n => if F.scale.isNone ∨ F.scale = some n then some ({ F with scale := some n }, r) else none
       | none => none)
  else if it.letter = 122 then
    match t with
    | sg :: a :: b :: 58 :: c :: e :: r =>
      if (sg = 43 ∨ sg = 45) ∧ isDig a ∧ isDig b ∧ isDig c ∧ isDig e ∧ ¬ (it.seps.isEmpty ∧ nextNumeric = true) then
        (setOnce F.off ((if sg = 45 then -1 else 1) * (digitsValue [a, b] * 60 + digitsValue [c, e]))).map
          (fun x => ({ F with off := x }, r))
      else none
    | _ => none
  else none

def readTextGo : List SItem → TFields → List Nat → Option TFields
  | [], F, t => if t.isEmpty then some F else none
  | it :: rest, F, t =>
    match readField it (match rest.head? with | some n => numericLetter n.letter || n.letter == 122 | none => false) F t with
    | some (F', r) =>
      (match rest with
       | [] => if r.isEmpty then some F' else none
       | _ => match dropPrefix it.seps r with
         | some r' => readTextGo rest F' r'
         | none => none)
    | none => none

/-- white space around the text does not count (Unicode White_Space) -/
def isSpace (c : Nat) : Bool :=
  decide ((9 ≤ c ∧ c ≤ 13) ∨ c = 32 ∨ c = 133 ∨ c = 160 ∨ c = 5760 ∨ (8192 ≤ c ∧ c ≤ 8202) ∨ c = 8232 ∨ c = 8233
    ∨ c = 8239 ∨ c = 8287 ∨ c = 12288)

def strip (t : List Nat) : List Nat := ((t.dropWhile isSpace).reverse.dropWhile isSpace).reverse

def readText (items : List SItem) (text : List Nat) : Option TFields :=
  if items.all (fun it => !it.optional) then readTextGo items {} (strip text) else none

/-- the clause under which the property demands an ERROR for a text with these fields (`none`: nothing is
    demanded): a date (year, month, day) or an ordinal date (year, day of year) with out-of-range fields in
    the sense of `Spec.mustReject` (month 13, day beyond the month, hour > 24, minute > 59, second > 60, a leap
    second where there is none — on the ONE date the text names), a day of year outside 1..365/366, a month or a
    day of the month written next to a day of year that is not the month / day of that day of the year, or a weekday
    that is not the weekday of the date.  Hour 24 stays open, as in C08.  Years beyond ±3 000 000 — the range over
    which C08 states anything; the representable range ends near ±3 276 000 years from 1900 and results saturate
    there, "a bound is hit" — are left open altogether. -/
def mustRejectText (F : TFields) : Option String :=
  let h := F.h.getD 0
  let mi := F.mi.getD 0
  let s := F.s.getD 0
  let ns := F.ns.getD 0
  match F.y, F.doy with
  | some y, some j =>
    if y < -3000000 ∨ y > 3000000 then none
    else if j < 1 ∨ j > (if isLeap y then 366 else 365) then some "day_of_year_out_of_range"
    else if (match F.mo, F.d with | some m, some d => !(validDate ⟨y, m, d⟩) | _, _ => false) then some "invalid_date"
    else
      let dt := dateOfDayNumber (dayNumber ⟨y, 1, 1⟩ + j - 1)
      if (match F.mo with | some m => decide (m ≠ dt.m) | none => false) ||
         (match F.d with | some d => decide (d ≠ dt.d) | none => false) then some "date_and_day_of_year_disagree"
      else if mustReject iersLeapDates dt h mi s ns then some "time_out_of_range"
      else if (match F.wd with | some w => decide (w ≠ dayNumber dt % 7) | none => false) then some "weekday_mismatch"
      else none
  | some y, none =>
    if y < -3000000 ∨ y > 3000000 then none
    else
    (match F.mo, F.d with
     | some m, some d =>
       if mustReject iersLeapDates ⟨y, m, d⟩ h mi s ns then
         some (if validDate ⟨y, m, d⟩ then "time_out_of_range" else "invalid_date")
       else if (match F.wd with | some w => decide (w ≠ dayNumber ⟨y, m, d⟩ % 7) | none => false) then
         some "weekday_mismatch"
       else none
     | _, _ => none)
  | none, _ => none

/-! ### the three tokens the statement does not name: `%w`, `%y`, `%J` (audit 3, A2)

  C19's statement lists fourteen tokens; `Format::from_str` knows three more.  They get their own layer here so that
  everything above — the statement's own quantifier, over which the theorems are proved — stays as it is.

  * `%w`: the rustdoc says "Weekday in decimal form with C89 standard": ONE decimal digit, 0 = Sunday … 6 = Saturday,
    of the weekday of the printed date (the statement's general sentence: the field of the epoch's Gregorian
    representation in its own time scale) — the same day `%A` names.
  * `%J`: the rustdoc says "Full day of year as a double": a decimal numeral `digits[.digits]` (Rust's `Display` of an
    f64 never uses an exponent) within `2·10⁻¹²` of the exact day of year, 1 + (time since 1 January 00:00:00 of the
    printed date's year) / 1 day.  The tolerance is the one C09 / C20 use for `day_of_year()`: the float expression
    is proved within 10·2⁻⁵³ relative (< 4.1·10⁻¹³ below 367) and the shortest round-trip numeral is within half an
    ulp (< 2.9·10⁻¹⁴) of the double.  One-based like `%j` (the rustdoc EXAMPLES of both are zero-based: "059" /
    "59.62…" for 29 February, day 60 — an inaccuracy of the examples, not of the code).
  * `%y`: the statement is SILENT (not among its tokens; a two-digit year is not "the full date"), and the rustdoc
    ("on two digits | 23") and the code have differed.  Nothing is demanded beyond "an optional `-` and ASCII
    digits": what exactly is printed is tied to the model only. -/

def supportedX (c : Nat) : Bool := supported c || c == 119 || c == 121 || c == 74

def readPieceX : List Nat → Option SItem
  | [] => none
  | c :: rest =>
    if supportedX c ∧ rest.length ≤ 2 ∧ rest.all (fun x => decide (x < 128)) then
      some ⟨c, rest.filter (· ≠ 63), rest.contains 63⟩
    else none

def readPiecesX : List (List Nat) → Option (List SItem)
  | [] => some []
  | p :: ps =>
    match readPieceX p, readPiecesX ps with
    | some it, some r => some (it :: r)
    | _, _ => none

/-- a format string of 1 to 16 tokens of the seventeen -/
def readFormatX (s : List Nat) : Option (List SItem) :=
  match splitAt37 s with
  | [] :: pieces =>
    if 1 ≤ pieces.length ∧ pieces.length ≤ 16 then readPiecesX pieces else none
  | _ => none

def tokenDebugNameX (c : Nat) : String :=
  if c = 119 then "WeekdayDecimal" else if c = 121 then "YearShort" else if c = 74 then "DayOfYear"
  else tokenDebugName c

def debugTextX (items : List SItem) : List Nat :=
  codes "EpochFormat:`" ++
  items.flatMap (fun it => codes (tokenDebugNameX it.letter) ++ it.seps ++ (if it.optional then [63] else [])) ++ [96]

/-- what the text must be at one place -/
inductive Piece where
  /-- exactly this text -/
  | lit (t : List Nat)
  /-- `%y`: an optional `-` and a non-empty run of ASCII digits, nothing more is demanded -/
  | anyInt
  /-- `%J`: a decimal numeral `digits[.digits]` within `2·10⁻¹²` of `num / den` (`den > 0`) -/
  | real (num den : Int)

def tokenPiece (c : Nat) (F : Fields) (off : Int) : Option Piece :=
  if c = 119 then some (.lit [dig ((F.wd + 1) % 7)])
  else if c = 121 then some .anyInt
  else if c = 74 then some (.real ((F.doy - 1) * NPDs + timeOfDay F.h F.mi F.s F.ns + NPDs) NPDs)
  else (tokenText c F off).map .lit

def piecesGo (F : Fields) (off : Int) : List SItem → List Nat → Option (List Piece)
  | [], _ => some []
  | it :: rest, before =>
    if omitted it F then piecesGo F off rest it.seps
    else
      match tokenPiece it.letter F off, piecesGo F off rest it.seps with
      | some p, some r => some (.lit before :: p :: r)
      | _, _ => none

/-- the demanded shape of the text, as `render` above but with open places -/
def pieces (items : List SItem) (F : Fields) (off : Int) : Option (List Piece) := piecesGo F off items []

def digitsNat (t : List Nat) : Nat := t.foldl (fun a c => a * 10 + (c - 48)) 0

/-- `digits[.digits]` read exactly: (numerator, denominator = a power of ten) -/
def decimalOf (t : List Nat) : Option (Int × Int) :=
  let ip := t.takeWhile isDig
  let r := t.dropWhile isDig
  if ip.isEmpty then none
  else match r with
    | [] => some ((digitsNat ip : Int), 1)
    | 46 :: fp =>
      if fp.isEmpty || !(fp.all isDig) then none
      else some ((digitsNat (ip ++ fp) : Int), ((10 ^ fp.length : Nat) : Int))
    | _ => none

/-- `|n/p − num/den| ≤ 2·10⁻¹²`, in integers -/
def closeTo (n p num den : Int) : Bool :=
  decide ((n * den - num * p).natAbs * 1000000000000 ≤ 2 * (den * p).natAbs)

/-- does the text have the demanded shape?  (an open place may end wherever the rest still matches) -/
def matchGo : List Piece → List Nat → Bool
  | [], t => t.isEmpty
  | .lit l :: ps, t =>
    (match dropPrefix l t with
     | some r => matchGo ps r
     | none => false)
  | .anyInt :: ps, t =>
    let t' := match t with | 45 :: r => r | _ => t
    (List.range (t'.takeWhile isDig).length).any (fun k => matchGo ps (t'.drop (k + 1)))
  | .real num den :: ps, t =>
    (List.range t.length).any (fun k =>
      match decimalOf (t.take (k + 1)) with
      | some (n, p) => closeTo n p num den && matchGo ps (t.drop (k + 1))
      | none => false)

end Hifi.Spec.Efmt
