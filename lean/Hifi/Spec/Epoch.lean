import Hifi.Spec.Duration
/-
  Independent specification vocabulary for epochs: an epoch of a non-dynamical time scale denotes
  an *instant*, a signed integer number of nanoseconds on the TAI count from 1900-01-01T00:00:00 TAI.
  Nothing here refers to the model; the only data taken from the repository is the raw text of the
  IERS leap second file (passed in as a parameter).
-/
namespace Hifi.Spec

/-- days from 1900-01-01 to the proleptic Gregorian date y-m-d (Hinnant's days-from-civil, shifted);
    `Spec/Calendar` characterises the day number by the successor structure, and `Props/C05` checks
    the handful of dates used here against it. -/
def civilDays (y m d : Int) : Int :=
  let y' := if m ≤ 2 then y - 1 else y
  let era := y' / 400
  let yoe := y' - era * 400
  let mp := (m + 9) % 12
  let doy := (153 * mp + 2) / 5 + d - 1
  let doe := yoe * 365 + yoe / 4 - yoe / 100 + doy
  era * 146097 + doe - 719468 + 25567

def nsPerDay : Int := 86400 * 1000000000

/-- TAI count (ns) of the zero of each uniform scale, as the property states it:
    TT − TAI = 32.184 s; GPST/QZSST zero at 1980-01-06 00:00:00 (in the scale itself), 19 s behind TAI;
    GST at 1999-08-22, 19 s; BDT at 2006-01-01, 33 s; TAI and TT count from 1900-01-01 00:00:00. -/
def scaleOff : String → Option Int
  | "TAI" => some 0
  | "UTC" => some 0
  | "TT" => some (-32184000000)
  | "GPST" => some (civilDays 1980 1 6 * nsPerDay + 19 * 1000000000)
  | "QZSST" => some (civilDays 1980 1 6 * nsPerDay + 19 * 1000000000)
  | "GST" => some (civilDays 1999 8 22 * nsPerDay + 19 * 1000000000)
  | "BDT" => some (civilDays 2006 1 1 * nsPerDay + 33 * 1000000000)
  | _ => none

/-- TAI − UTC (s) in force at UTC count `u` (ns since 1900-01-01 UTC): the step function of the
    IERS table `(NTP seconds, offset)` (sorted by time): the offset of the last entry at or before `u`,
    0 before the first entry. -/
def leapAtAux : List (Int × Int) → Int → Int → Int
  | [], _, acc => acc
  | (t, off) :: rest, u, acc => leapAtAux rest u (if t * 1000000000 ≤ u then off else acc)

/-- the same step function, searching backwards from the newest entry (argument: newest first) -/
def stepDesc : List (Int × Int) → Int → Int
  | [], _ => 0
  | (t, o) :: rest, u => if t * 1000000000 ≤ u then o else stepDesc rest u

def leapAt (tbl : List (Int × Int)) (u : Int) : Int := stepDesc tbl.reverse u

/-- instant (TAI ns) denoted by a UTC count -/
def utcToTai (tbl : List (Int × Int)) (u : Int) : Int := u + leapAt tbl u * 1000000000

/-- is the TAI instant `t` inside an inserted (leap) second, i.e. without a UTC pre-image? -/
def inInserted (tbl : List (Int × Int)) (t : Int) : Bool :=
  tbl.any (fun e => decide (e.1 * 1000000000 + leapAt tbl (e.1 * 1000000000 - 1) * 1000000000 ≤ t ∧
                            t < e.1 * 1000000000 + e.2 * 1000000000))

/-- instant of an epoch (value `v` in scale `ts`) -/
def instant (tbl : List (Int × Int)) (ts : String) (v : Int) : Option Int :=
  if ts = "UTC" then some (utcToTai tbl v)
  else match scaleOff ts with
    | some o => some (v + o)
    | none => none

/-- is `v` the value, in scale `ts`, of the instant `t`? -/
def denotes (tbl : List (Int × Int)) (ts : String) (v t : Int) : Bool :=
  match instant tbl ts v with
  | some i => i == t
  | none => false

end Hifi.Spec
