/-
  C11: the property's reading of "decomposition" and "text form", independent of the model.

  * A duration is a signed integer number of nanoseconds `v`.
  * Its decomposition is THE tuple (sign, days, h < 24, min < 60, s < 60, ms < 1000, µs < 1000,
    ns < 1000) whose weighted sum is |v| (`IsDecomp`; uniqueness is a theorem in Props/C11).
  * The text form is written as a GENERATOR (`render`): filter the non-zero components, write each
    as `<decimal numeral> <unit name>`, join with single spaces, one leading '-' for negative values,
    "0 ns" for zero.  It shares nothing with the model's loop (no `insert_space` flag, its own
    numeral function).
  * `[+-]HH:MM[:SS]` (and the compact `[+-]HHMM` of the documented example "+3615") denote
    ±(HH·3600 + MM·60 + SS) seconds.
  * The documented unit spellings and the unit each denotes (`spellings`).
  * `denote`: the exact rational value (in ns) of a text of the documented grammar
    `['-'] <number> <unit> (' ' <number> <unit>)*`, used by the driver to judge parses of fractional
    numerals.
  Nothing here refers to the model, to byte indices, to the `UNITS` table of the code or to floats.
-/
namespace Hifi.Spec.DurText

def NS_PER_US : Int := 1000
def NS_PER_MS : Int := 1000000
def NS_PER_S : Int := 1000000000
def NS_PER_MIN : Int := 60 * 1000000000
def NS_PER_H : Int := 3600 * 1000000000
def NS_PER_D : Int := 86400 * 1000000000

def sgn (v : Int) : Int := if v < 0 then -1 else if v > 0 then 1 else 0
def mag (v : Int) : Int := if v < 0 then -v else v

/-- the weighted sum of the seven components, in nanoseconds -/
def weighted (d h m s ms us ns : Int) : Int :=
  d * NS_PER_D + h * NS_PER_H + m * NS_PER_MIN + s * NS_PER_S + ms * NS_PER_MS + us * NS_PER_US + ns

/-- components in their ranges -/
def InRange (d h m s ms us ns : Int) : Prop :=
  0 ≤ d ∧ (0 ≤ h ∧ h < 24) ∧ (0 ≤ m ∧ m < 60) ∧ (0 ≤ s ∧ s < 60) ∧
  (0 ≤ ms ∧ ms < 1000) ∧ (0 ≤ us ∧ us < 1000) ∧ (0 ≤ ns ∧ ns < 1000)

/-- "(d, h, …, ns) is the decomposition of the magnitude of v" -/
def IsDecomp (v : Int) (d h m s ms us ns : Int) : Prop :=
  InRange d h m s ms us ns ∧ weighted d h m s ms us ns = mag v

/-- executable form of `IsDecomp` plus the sign, for the driver -/
def isDecompB (v : Int) (sg d h m s ms us ns : Int) : List (String × Bool) :=
  [("range", decide (0 ≤ d ∧ 0 ≤ h ∧ h < 24 ∧ 0 ≤ m ∧ m < 60 ∧ 0 ≤ s ∧ s < 60 ∧
      0 ≤ ms ∧ ms < 1000 ∧ 0 ≤ us ∧ us < 1000 ∧ 0 ≤ ns ∧ ns < 1000)),
   ("sum", decide (weighted d h m s ms us ns = mag v)),
   ("sign", decide (sg = sgn v))]

/-- the decomposition as a function (greedy division); `Props/C11` proves it satisfies `IsDecomp`
    and that `IsDecomp` has at most one solution -/
def decomp (v : Int) : Int × Int × Int × Int × Int × Int × Int :=
  (mag v / NS_PER_D, mag v % NS_PER_D / NS_PER_H, mag v % NS_PER_H / NS_PER_MIN,
   mag v % NS_PER_MIN / NS_PER_S, mag v % NS_PER_S / NS_PER_MS, mag v % NS_PER_MS / NS_PER_US,
   mag v % NS_PER_US)

-- ------------------------------------------------------------------------------------------
-- text form

/-- the decimal numeral of a natural number (no sign, no leading zeros, "0" for zero) -/
def numeral (n : Nat) : List Nat :=
  if n < 10 then [48 + n] else numeral (n / 10) ++ [48 + n % 10]
decreasing_by omega

/-- value of a digit string -/
def digitsValue (ds : List Nat) : Nat := ds.foldl (fun acc c => acc * 10 + (c - 48)) 0

def joinSp : List (List Nat) → List Nat
  | [] => []
  | [x] => x
  | x :: y :: t => x ++ [32] ++ joinSp (y :: t)

/-- unit names of the human-readable form, as code points; "μs" is U+03BC followed by 's' -/
def unitNames (days : Int) : List (List Nat) :=
  [if days = 1 then "day".toList.map Char.toNat else "days".toList.map Char.toNat,
   [104], [109, 105, 110], [115], [109, 115], [0x3BC, 115], [110, 115]]

def item (p : Int × List Nat) : List Nat := numeral p.1.toNat ++ [32] ++ p.2

/-- the human-readable form of the value with sign `neg` and components `d … ns` -/
def render (neg : Bool) (d h m s ms us ns : Int) : List Nat :=
  if d = 0 ∧ h = 0 ∧ m = 0 ∧ s = 0 ∧ ms = 0 ∧ us = 0 ∧ ns = 0 then [48, 32, 110, 115]
  else (if neg then [45] else []) ++
    joinSp ((([d, h, m, s, ms, us, ns].zip (unitNames d)).filter (fun p => p.1 ≠ 0)).map item)

/-- the text form of the duration of `v` nanoseconds -/
def renderValue (v : Int) : List Nat :=
  match decomp v with
  | (d, h, m, s, ms, us, ns) => render (decide (v < 0)) d h m s ms us ns

/-- serde: the JSON text is the string form between double quotes (no character of a rendering
    needs escaping; "μ" is written as is, in UTF-8) -/
def renderJson (v : Int) : List Nat := [34] ++ renderValue v ++ [34]

-- ------------------------------------------------------------------------------------------
-- offsets

/-- value in ns denoted by an offset with the given sign and two-digit fields -/
def offsetValue (neg : Bool) (hh mm ss : Int) : Int :=
  (if neg then -1 else 1) * ((hh * 3600 + mm * 60 + ss) * NS_PER_S)

def isDig (c : Nat) : Bool := decide (48 ≤ c ∧ c ≤ 57)
def two (a b : Nat) : Int := ((a - 48) * 10 + (b - 48) : Nat)

/-- reads `[+-]HH:MM`, `[+-]HHMM`, `[+-]HH:MM:SS`; `none` for any other text -/
def readOffset (s : List Nat) : Option Int :=
  match s with
  | [sg, a, b, 58, c, d] =>
    if (sg = 43 ∨ sg = 45) ∧ isDig a ∧ isDig b ∧ isDig c ∧ isDig d then some (offsetValue (sg = 45) (two a b) (two c d) 0) else none
  | [sg, a, b, c, d] =>
    if (sg = 43 ∨ sg = 45) ∧ isDig a ∧ isDig b ∧ isDig c ∧ isDig d then some (offsetValue (sg = 45) (two a b) (two c d) 0) else none
  | [sg, a, b, 58, c, d, 58, e, f] =>
    if (sg = 43 ∨ sg = 45) ∧ isDig a ∧ isDig b ∧ isDig c ∧ isDig d ∧ isDig e ∧ isDig f then
      some (offsetValue (sg = 45) (two a b) (two c d) (two e f)) else none
  | _ => none

-- ------------------------------------------------------------------------------------------
-- unit spellings

/-- the documented spellings (rustdoc of `FromStr for Duration`) plus "μs", which the
    human-readable form itself emits, each with the length of the unit in ns -/
def spellings : List (String × Int) :=
  [("d", NS_PER_D), ("days", NS_PER_D), ("day", NS_PER_D),
   ("h", NS_PER_H), ("hours", NS_PER_H), ("hour", NS_PER_H),
   ("min", NS_PER_MIN), ("mins", NS_PER_MIN), ("minute", NS_PER_MIN),
   ("s", NS_PER_S), ("second", NS_PER_S), ("seconds", NS_PER_S),
   ("ms", NS_PER_MS), ("millisecond", NS_PER_MS), ("milliseconds", NS_PER_MS),
   ("us", NS_PER_US), ("microsecond", NS_PER_US), ("microseconds", NS_PER_US), ("μs", NS_PER_US),
   ("ns", 1), ("nanosecond", 1), ("nanoseconds", 1)]

/-- spellings the parser's table has beyond the documented ones (accepted, same reading) -/
def extraSpellings : List (String × Int) :=
  [("hr", NS_PER_H), ("minutes", NS_PER_MIN), ("sec", NS_PER_S)]

def codes (s : String) : List Nat := s.toList.map Char.toNat

def spellingFactor (name : List Nat) : Option Int :=
  ((spellings ++ extraSpellings).find? (fun p => codes p.1 == name)).map (·.2)

-- ------------------------------------------------------------------------------------------
-- exact value of a text of the documented grammar (driver only)

/-- a non-negative rational `num / den` -/
structure Q where
  num : Nat
  den : Nat
deriving Repr

def takeDigits : List Nat → List Nat × List Nat
  | [] => ([], [])
  | c :: cs => if isDig c then (c :: (takeDigits cs).1, (takeDigits cs).2) else ([], c :: cs)

/-- `digits[.digits][(e|E)[+-]digits]` (at least one digit before the point) → exact value and
    whether the numeral is a plain integer -/
def readNumberU (s : List Nat) : Option (Q × Bool) :=
  let (ip, r1) := takeDigits s
  if ip = [] then none else
  let (fp, r2, hasFrac) := match r1 with
    | 46 :: r => let (f, r') := takeDigits r; (f, r', true)
    | r => ([], r, false)
  if hasFrac ∧ fp = [] then none else
  let mant := digitsValue (ip ++ fp)
  let scale := fp.length
  match r2 with
  | [] => some (⟨mant, 10 ^ scale⟩, !hasFrac)
  | c :: r =>
    if c = 101 ∨ c = 69 then
      let (neg, ds) := match r with
        | 45 :: ds => (true, ds)
        | 43 :: ds => (false, ds)
        | ds => (false, ds)
      if ds = [] ∨ !(ds.all isDig) ∨ ds.length > 4 then none
      else
        let e := digitsValue ds
        if neg then some (⟨mant, 10 ^ (scale + e)⟩, false)
        else some (⟨mant * 10 ^ e, 10 ^ scale⟩, false)
    else none

/-- a numeral may carry an explicit `+` (the number parsers accept it): it denotes the same value -/
def readNumber (s : List Nat) : Option (Q × Bool) :=
  match s with
  | 43 :: r => (match r with | c :: _ => if isDig c then readNumberU r else none | [] => none)
  | _ => readNumberU s

def splitSp (s : List Nat) : List (List Nat) :=
  (s.foldr (fun c acc => if c = 32 then [] :: acc else match acc with
    | [] => [[c]]
    | w :: t => (c :: w) :: t) [[]])

/-- what the parse of one text must be: exact sum of the items (as a fraction of ns per item,
    truncated toward zero item by item as the integer value of a duration is), the tolerance in ns,
    and a tag -/
structure Denoted where
  lo : Int      -- smallest acceptable value in ns
  hi : Int      -- largest acceptable value in ns
  exact : Bool  -- every numeral is a plain integer whose product with the unit is exact in binary64
  items : Nat

/-- `n = 2^k·o` with `o < 2^53` -/
def exactInBinary64 (n : Nat) : Bool :=
  n == 0 || (let k := n.log2 - 52; n.log2 < 53 || n % 2 ^ k == 0)

/-- unit in the last place (in ns, as a rational ≥ 2^-1074) of a positive product: 2^(⌊log2 x⌋-52) -/
def ulpCeilNs (p d : Nat) : Nat :=
  -- an upper bound of the ulp, rounded up to a whole number of ns (≥ 1 when x ≥ 2^52)
  if p = 0 then 0 else (p / d) / 2 ^ 52 + 1

/-- items `<number> <unit>` with distinct units; `none` = not a text of the documented grammar -/
def denoteItems : List (List Nat) → List Int → Option (List (Q × Bool × Int))
  | [], _ => some []
  | [_], _ => none
  | n :: u :: t, used =>
    match readNumber n, spellingFactor u with
    | some (q, isInt), some f =>
      if used.contains f then none
      else (denoteItems t (f :: used)).map (fun l => (q, isInt, f) :: l)
    | _, _ => none

/-- the interval of acceptable results for a text `['-'] item (' ' item)*`:
    an item whose numeral is a plain integer (digits only, ANY length) contributes exactly `n·f`
    (tolerance 0; the driver clamps the exact sum to the Duration range); an item with a
    fractional/exponent numeral contributes
    trunc(q·f) within ± (1 ns + 1 ulp of the product) — the value "it denotes" up to the rounding of
    the documented f64 evaluation (`Unit * f64`, doc example `Unit::Day * 10.598`). -/
def denote (s : List Nat) : Option Denoted :=
  let (neg, body) := match s with
    | 45 :: r => (true, r)
    | r => (false, r)
  match denoteItems (splitSp body) [] with
  | none => none
  | some [] => none
  | some its =>
    let acc := its.foldl (fun (a : Int × Int × Bool) (it : Q × Bool × Int) =>
      let (q, isInt, f) := it
      let p := q.num * f.toNat
      let t : Int := (p / q.den : Nat)
      -- EVERY plain integer numeral (any number of digits) denotes exactly n·unit: tolerance 0
      let ex := isInt && q.den == 1
      let tol : Int := if ex then 0 else 1 + (ulpCeilNs p q.den : Nat)
      (a.1 + t - tol, a.2.1 + t + tol, a.2.2 && ex)) (0, 0, true)
    some (if neg then ⟨-acc.2.1, -acc.1, acc.2.2, its.length⟩ else ⟨acc.1, acc.2.1, acc.2.2, its.length⟩)

-- ------------------------------------------------------------------------------------------
-- blanks

/-- Unicode White_Space (what "the parser trims" means), written out here; `Props/C11` pins the
    table dumped from the Rust std to it -/
def whiteSpace : List Nat :=
  [9, 10, 11, 12, 13, 32, 133, 160, 5760, 8192, 8193, 8194, 8195, 8196, 8197, 8198, 8199, 8200, 8201, 8202,
   8232, 8233, 8239, 8287, 12288]

def stripLeft : List Nat → List Nat
  | [] => []
  | c :: cs => if whiteSpace.contains c then stripLeft cs else c :: cs

/-- runs of U+0020 collapsed to a single one -/
def collapse : List Nat → List Nat
  | [] => []
  | [c] => [c]
  | a :: b :: t => if a = 32 ∧ b = 32 then collapse (b :: t) else a :: collapse (b :: t)

/-- the unpadded form of a text: white space removed at both ends, runs of blanks collapsed.
    A padded text must parse to the value of its unpadded form, or be rejected. -/
def unpad (s : List Nat) : List Nat := collapse (stripLeft (stripLeft s).reverse).reverse

/-- white space removed at both ends only ("the parser trims": such a text must parse to the value
    of the trimmed text, an error is not acceptable) -/
def trimEnds (s : List Nat) : List Nat := (stripLeft (stripLeft s).reverse).reverse

end Hifi.Spec.DurText
