/-
  Independent specification of the proleptic Gregorian calendar (C08, C09).  Import-free.

  The calendar is a SUCCESSOR STRUCTURE: month lengths + the 4/100/400 rule define which
  (year, month, day) triples are dates and what the day after a date is.  "The exact number of
  days from 1900-01-01 to a date" is the number of `nextDay` steps, i.e. the function characterised by

      dayNumber ⟨1900,1,1⟩ = 0        dayNumber (nextDay d) = dayNumber d + 1   (d a valid date)

  `dayNumber` below is written as a closed formula (the classical "days from civil" computation on
  a March-based year and 400-year eras, which shares no table, loop or intermediate quantity with
  the code under test) and the two characterising facts — together with `nextDay` being a bijection
  of the valid dates, so that they determine `dayNumber` on every valid date — are PROVED for all
  valid dates in `Hifi/Lemmas/Calendar.lean` (`dayNumber_ref`, `dayNumber_nextDay`,
  `nextDay_valid`, `nextDay_surj`, `nextDay_inj`, `dayNumber_unique`).
  Nothing here mentions the model, the code's tables or the generated constants.
-/
namespace Hifi.Spec

/-- the 4/100/400 rule -/
def isLeap (y : Int) : Bool := decide ((y % 4 = 0 ∧ y % 100 ≠ 0) ∨ y % 400 = 0)

/-- length of month `m` of year `y` (0 for a month number outside 1..12) -/
def monthLen (y m : Int) : Int :=
  if m = 1 ∨ m = 3 ∨ m = 5 ∨ m = 7 ∨ m = 8 ∨ m = 10 ∨ m = 12 then 31
  else if m = 4 ∨ m = 6 ∨ m = 9 ∨ m = 11 then 30
  else if m = 2 then (if isLeap y then 29 else 28)
  else 0

structure Date where
  y : Int
  m : Int
  d : Int
deriving DecidableEq, Repr, Inhabited

/-- `d` is a date of the proleptic Gregorian calendar -/
def validDate (d : Date) : Bool := decide (1 ≤ d.m ∧ d.m ≤ 12 ∧ 1 ≤ d.d ∧ d.d ≤ monthLen d.y d.m)

/-- the day after `d` -/
def nextDay (d : Date) : Date :=
  if d.d < monthLen d.y d.m then ⟨d.y, d.m, d.d + 1⟩
  else if d.m < 12 then ⟨d.y, d.m + 1, 1⟩
  else ⟨d.y + 1, 1, 1⟩

/-- the day before `d` -/
def prevDay (d : Date) : Date :=
  if 1 < d.d then ⟨d.y, d.m, d.d - 1⟩
  else if 1 < d.m then ⟨d.y, d.m - 1, monthLen d.y (d.m - 1)⟩
  else ⟨d.y - 1, 12, 31⟩

/-- number of days from 1900-01-01 to `d` (negative before), "days from civil":
    the year is taken to start on 1 March (so the leap day is its last day), years are grouped in
    eras of 400 years = 146 097 days. -/
def dayNumber (d : Date) : Int :=
  (if d.m ≤ 2 then d.y - 1 else d.y) / 400 * 146097
    + ((if d.m ≤ 2 then d.y - 1 else d.y) % 400 * 365
        + (if d.m ≤ 2 then d.y - 1 else d.y) % 400 / 4
        - (if d.m ≤ 2 then d.y - 1 else d.y) % 400 / 100
        + ((153 * (if d.m > 2 then d.m - 3 else d.m + 9) + 2) / 5 + d.d - 1))
    - 693901

/-- nanoseconds in a day / the time of day in nanoseconds, from first principles -/
def NPDs : Int := 86400 * 1000000000
def timeOfDay (h mi s ns : Int) : Int := ((h * 60 + mi) * 60 + s) * 1000000000 + ns

/-- A date-time the property requires to be ACCEPTED: a valid date, hour < 24, minute < 60,
    nanosecond < 10^9, and second < 60 — or second = 60 at 23:59 of a day whose next day is an
    entry of the leap-second table (`leapDates`: the dates at which a new TAI−UTC takes effect). -/
def mustAccept (leapDates : List Date) (d : Date) (h mi s ns : Int) : Bool :=
  validDate d && decide (0 ≤ h ∧ h < 24 ∧ 0 ≤ mi ∧ mi < 60 ∧ 0 ≤ ns ∧ ns < 1000000000) &&
  (decide (0 ≤ s ∧ s < 60) || (decide (s = 60 ∧ h = 23 ∧ mi = 59) && leapDates.contains (nextDay d)))

/-- A date-time the property requires to be REJECTED (with an error, never a shifted date):
    month 0 or > 12, day 0 or beyond the month's length, hour > 24, minute > 59, second > 60,
    nanosecond > 10^9, or second = 60 at any other time of day or on a date that does not
    immediately precede an entry of the leap-second table.
    hour = 24 and nanosecond = 10^9 (with everything else fine) are neither: the property leaves them open. -/
def mustReject (leapDates : List Date) (d : Date) (h mi s ns : Int) : Bool :=
  !(validDate d) || decide (h > 24 ∨ mi > 59 ∨ s > 60 ∨ ns > 1000000000) ||
  (decide (s = 60) && !(decide (h = 23 ∧ mi = 59) && leapDates.contains (nextDay d)))

/-- The dates at which IERS changed TAI−UTC (Bulletin C / `leap-seconds.list`): the first is the
    initial 10 s of 1972-01-01, each later one follows an inserted leap second 23:59:60 on the day before. -/
def iersLeapDates : List Date :=
  [⟨1972,1,1⟩, ⟨1972,7,1⟩, ⟨1973,1,1⟩, ⟨1974,1,1⟩, ⟨1975,1,1⟩, ⟨1976,1,1⟩, ⟨1977,1,1⟩, ⟨1978,1,1⟩,
   ⟨1979,1,1⟩, ⟨1980,1,1⟩, ⟨1981,7,1⟩, ⟨1982,7,1⟩, ⟨1983,7,1⟩, ⟨1985,7,1⟩, ⟨1988,1,1⟩, ⟨1990,1,1⟩,
   ⟨1991,1,1⟩, ⟨1992,7,1⟩, ⟨1993,7,1⟩, ⟨1994,7,1⟩, ⟨1996,1,1⟩, ⟨1997,7,1⟩, ⟨1999,1,1⟩, ⟨2006,1,1⟩,
   ⟨2009,1,1⟩, ⟨2012,7,1⟩, ⟨2015,7,1⟩, ⟨2017,1,1⟩]

/-- The reference DATE-TIME of each time scale's day count as (date, nanoseconds into that day):
    TAI/TT/UTC count from 1900-01-01 00:00:00, ET/TDB from J2000 = 2000-01-01 12:00:00,
    GPST/QZSST from 1980-01-06, GST from 1999-08-22, BDT from 2006-01-01, all at 00:00:00.
    Indexed by the scale's name so that this file stays independent of the model. -/
def refDateTime (scale : String) : Date × Int :=
  if scale = "ET" ∨ scale = "TDB" then (⟨2000, 1, 1⟩, 12 * 3600 * 1000000000)
  else if scale = "GPST" ∨ scale = "QZSST" then (⟨1980, 1, 6⟩, 0)
  else if scale = "GST" then (⟨1999, 8, 22⟩, 0)
  else if scale = "BDT" then (⟨2006, 1, 1⟩, 0)
  else (⟨1900, 1, 1⟩, 0)

/-- nanoseconds from 1900-01-01 00:00:00 to the scale's reference date-time -/
def refOffsetNs (scale : String) : Int :=
  dayNumber (refDateTime scale).1 * NPDs + (refDateTime scale).2

/-- The elapsed time the property demands for a valid date-time with second < 60 in `scale`:
    (exact number of days from the scale's reference date) × 86 400 s + time of day, in nanoseconds. -/
def elapsedNs (scale : String) (d : Date) (h mi s ns : Int) : Int :=
  dayNumber d * NPDs + timeOfDay h mi s ns - refOffsetNs scale

/-! ### from a day number back to the date (C09)

  `dateOfDayNumber n` SEARCHES for the date with day number `n` (year by estimate and stepping, month by
  scanning); it is only ever used together with the check `certifiesDate`, which makes the answer
  self-certifying: a VALID date whose `dayNumber` is `n` is THE date of day `n`
  (`dayNumber` is injective on valid dates, `Lemmas/Calendar.dayNumber_inj`). -/

def stepYearDown : Nat → Int → Int → Int
  | 0, y, _ => y
  | f + 1, y, n => if dayNumber ⟨y, 1, 1⟩ > n then stepYearDown f (y - 1) n else y
def stepYearUp : Nat → Int → Int → Int
  | 0, y, _ => y
  | f + 1, y, n => if dayNumber ⟨y + 1, 1, 1⟩ ≤ n then stepYearUp f (y + 1) n else y
def scanMonth : Nat → Int → Int → Int
  | 0, _, _ => 1
  | m + 1, y, n => if dayNumber ⟨y, (m : Int) + 1, 1⟩ ≤ n then (m : Int) + 1 else scanMonth m y n

def dateOfDayNumber (n : Int) : Date :=
  let y := stepYearUp 4 (stepYearDown 4 (1900 + n * 400 / 146097 + 1) n) n
  let m := scanMonth 12 y n
  ⟨y, m, n - dayNumber ⟨y, m, 1⟩ + 1⟩

def certifiesDate (d : Date) (n : Int) : Bool := validDate d && decide (dayNumber d = n)

/-! ### text form (C09) -/

/-- ASCII digit -/
def dig (v : Int) : Nat := 48 + (v % 10).toNat

/-- two / four / nine decimal digits by position (values below 10^2, 10^4, 10^9) -/
def dig2 (v : Int) : List Nat := [dig (v / 10), dig v]
def dig4 (v : Int) : List Nat := [dig (v / 1000), dig (v / 100), dig (v / 10), dig v]
def dig9 (v : Int) : List Nat :=
  [dig (v / 100000000), dig (v / 10000000), dig (v / 1000000), dig (v / 100000), dig (v / 10000),
   dig (v / 1000), dig (v / 100), dig (v / 10), dig v]

/-- the year: four digits for 0..9999; otherwise (outside the YYYY grammar of the property) the
    decimal number, sign first, zero padded to four characters in all -/
def yearText (y : Int) : List Nat :=
  if 0 ≤ y ∧ y ≤ 9999 then dig4 y
  else if y < 0 then
    45 :: (List.replicate (3 - (toString y.natAbs).length) 48 ++ (toString y.natAbs).toList.map Char.toNat)
  else (toString y.natAbs).toList.map Char.toNat

/-- `YYYY-MM-DDTHH:MM:SS[.nnnnnnnnn] SCALE` as code points: 4-digit zero padded year, nine
    fractional digits only when the nanoseconds are non-zero, a space, the scale name -/
def renderDT (d : Date) (h mi s ns : Int) (scale : String) : List Nat :=
  yearText d.y ++ [45] ++ dig2 d.m ++ [45] ++ dig2 d.d ++ [84] ++ dig2 h ++ [58] ++ dig2 mi ++ [58] ++ dig2 s
    ++ (if ns = 0 then [] else 46 :: dig9 ns) ++ [32] ++ scale.toList.map Char.toNat

/-- English month names, January = 1 -/
def monthNames : List String :=
  ["January", "February", "March", "April", "May", "June", "July", "August", "September", "October",
   "November", "December"]

end Hifi.Spec
