import Hifi.Spec.Duration
import Hifi.Model.SoftF64
/-
  Specification vocabulary of property C18 (Duration ↔ float).  Durations are single `Int`
  nanosecond counts (`clampD`), unit lengths come from first principles, doubles are `F64`
  values (the IEEE-754 semantics of Model/SoftF64.lean: `rnd` = "rounded to the nearest double").
  Nothing here mentions the code's bound checks, cast split, precision loop or constants.
-/
namespace Hifi.Spec
open Hifi

/-- length of the nine units in nanoseconds, from first principles -/
def unitNs : String → Option Int
  | "ns" => some 1
  | "us" => some (10^3)
  | "ms" => some (10^6)
  | "s" => some (10^9)
  | "min" => some (60 * 10^9)
  | "h" => some (3600 * 10^9)
  | "d" => some (86400 * 10^9)
  | "wk" => some (7 * 86400 * 10^9)
  | "cy" => some (36525 * 86400 * 10^9)
  | _ => none

def absQ (x : Rat) : Rat := if x < 0 then -x else x

/-- truncation of a rational toward zero -/
def truncQ (x : Rat) : Int := Int.tdiv x.num x.den

/-- a double truncated toward zero to a whole nanosecond count and saturated at the duration
    bounds; the infinities go to the bounds; NaN has no reading -/
def truncNs : F64 → Option Int
  | .nan => none
  | .inf s => some (if s then DMIN else DMAX)
  | .fin s m e => some (clampD (truncQ (F64.toRat (.fin s m e))))

/-- "a float count `q` of a unit of `f` nanoseconds, converted to a duration": the real product
    rounded to the nearest double, truncated toward zero to a whole nanosecond, saturated;
    infinities map to the bounds; NaN is left open (`none`) -/
def unitTimesF (f : Int) (q : F64) : Option Int :=
  match q with
  | .nan => none
  | .inf s => some (if s then DMIN else DMAX)
  | .fin s m e => truncNs (F64.rnd (F64.toRat (.fin s m e) * (f : Rat)))

/-- saturating sum of two counts -/
def satAdd (a b : Int) : Int := clampD (a + b)

/-- `compose_f64`: each field converted on its own (as `unitTimesF`), summed left to right with
    saturation, negated (saturating) for a negative sign; `none` if a field is NaN -/
def composeNs (sign : Int) (d h m s ms us ns : F64) : Option Int :=
  (unitTimesF 86400000000000 d).bind fun a =>
  (unitTimesF 3600000000000 h).bind fun b =>
  (unitTimesF 60000000000 m).bind fun c =>
  (unitTimesF 1000000000 s).bind fun e =>
  (unitTimesF 1000000 ms).bind fun f =>
  (unitTimesF 1000 us).bind fun g =>
  (unitTimesF 1 ns).bind fun k =>
  some (if sign < 0 then clampD (-(satAdd (satAdd (satAdd (satAdd (satAdd (satAdd a b) c) e) f) g) k))
        else satAdd (satAdd (satAdd (satAdd (satAdd (satAdd a b) c) e) f) g) k)

/-- `got` is within `k` half-units-in-the-last-place of `exact`, the unit being taken at
    magnitude max(|exact|, floorMag):  |got − exact| ≤ k · 2^-53 · max(|exact|, floorMag).
    (One ulp of a double x is between 2^-53·|x| and 2^-52·|x|, so k = 4 is "two ulp".) -/
def closeTo (k : Nat) (got exact floorMag : Rat) : Bool :=
  decide (absQ (got - exact) * 9007199254740992 ≤
    (k : Rat) * (if absQ exact < floorMag then floorMag else absQ exact))

/-- strict sign agreement of a float reading with an integer count -/
def signOk (got : Rat) (v : Int) : Bool :=
  decide ((v > 0 → got > 0) ∧ (v < 0 → got < 0) ∧ (v = 0 → got = 0))

/-- `Duration::to_seconds`: finite, within `k` half-ulps of the exact value (of one second for
    sub-second values), correct sign -/
def toSecondsOk (k : Nat) (v : Int) (got : F64) : Bool :=
  got.isFinite && closeTo k got.toRat ((v : Rat) / 1000000000) 1 && signOk got.toRat v

/-- `Duration::to_unit` for a unit of `f` ns: same, the floor being one second expressed in the unit -/
def toUnitOk (k : Nat) (f v : Int) (got : F64) : Bool :=
  got.isFinite && closeTo k got.toRat ((v : Rat) / (f : Rat)) ((1000000000 : Rat) / (f : Rat)) && signOk got.toRat v

/-- saturation of a real nanosecond count at the duration bounds -/
def clampQ (x : Rat) : Rat := if x < (DMIN : Rat) then DMIN else if x > (DMAX : Rat) then DMAX else x

/-- tolerance of `Duration * f64`: one nanosecond plus float rounding (2^-50 relative) -/
def mulTol (exact : Rat) : Rat := 1 + absQ exact / 1125899906842624

/-- `Duration * f64`: the result lies within the tolerance of the saturated real product -/
def durMulOk (v : Int) (q : Rat) (got : Int) : Bool :=
  decide (clampQ ((v : Rat) * q - mulTol ((v : Rat) * q)) ≤ (got : Rat) ∧
          (got : Rat) ≤ clampQ ((v : Rat) * q + mulTol ((v : Rat) * q)))

/-- ten thousand Julian years in nanoseconds: the magnitude bound of the `Duration * f64` quantifier -/
def TENKY : Int := 10000 * 36525 * 864000000000

end Hifi.Spec
