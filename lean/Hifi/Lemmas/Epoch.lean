import Hifi.Lemmas.Duration
import Hifi.Model.Epoch
import Hifi.Spec.Epoch
/-
  Helper lemmas about the epoch model: uniform-scale conversions (C05).
-/
namespace Hifi
open Spec

/-- TAI count (ns) of the zero of a uniform scale, read off the MODEL's constants -/
def off : TS → Int
  | .TAI => 0
  | .TT => -(Gen.TT_OFFSET_MS * Gen.NANOSECONDS_PER_MILLISECOND)
  | .GPST => Gen.GPST_REF_EPOCH_C * NPC + Gen.GPST_REF_EPOCH_NS
  | .QZSST => Gen.QZSST_REF_EPOCH_C * NPC + Gen.QZSST_REF_EPOCH_NS
  | .GST => Gen.GST_REF_EPOCH_C * NPC + Gen.GST_REF_EPOCH_NS
  | .BDT => Gen.BDT_REF_EPOCH_C * NPC + Gen.BDT_REF_EPOCH_NS
  | _ => 0

theorem ttOffset_spec : ttOffset.Canon ∧ ttOffset.val = 32184000000 := by
  have := unitMulI64_spec Gen.NANOSECONDS_PER_MILLISECOND Gen.TT_OFFSET_MS (by decide) (by decide)
  refine ⟨this.1, ?_⟩
  unfold ttOffset; rw [this.2]; decide

theorem refTai_spec (ts : TS) (h : ts.isGnss = true) : (refTai ts).Canon ∧ (refTai ts).val = off ts := by
  cases ts <;> simp [TS.isGnss] at h <;> (unfold refTai off Dur.Canon Dur.val valP; simp only [NPC_eq, NPCs_eq]; decide)

/-- first half of `to_time_scale` on the uniform scales: clamped shift by the scale's offset -/
theorem toTaiDur_uniform (tbl : List LeapEntry) (d : Dur) (a : TS) (hd : d.Canon) (ha : a.isUniform = true) :
    ∃ p, toTaiDur tbl d a = some p ∧ p.Canon ∧ p.val = clampD (d.val + off a) := by
  cases a <;> simp [TS.isUniform] at ha
  · exact ⟨d, rfl, hd, by
      have := canon_range d hd; unfold DMIN DMAX at this; simp only [NPCs_eq] at this
      have ho : off .TAI = 0 := rfl
      rw [ho, clampD_mid] <;> omega⟩
  · have h := sub_spec d ttOffset hd ttOffset_spec.1
    refine ⟨_, rfl, h.1, ?_⟩
    rw [h.2, ttOffset_spec.2]; unfold off; congr 1
  all_goals
    first
    | (have hr := refTai_spec .GPST rfl
       have h := add_spec d (refTai .GPST) hd hr.1
       exact ⟨_, rfl, h.1, by rw [h.2, hr.2]⟩)
    | (have hr := refTai_spec .GST rfl
       have h := add_spec d (refTai .GST) hd hr.1
       exact ⟨_, rfl, h.1, by rw [h.2, hr.2]⟩)
    | (have hr := refTai_spec .BDT rfl
       have h := add_spec d (refTai .BDT) hd hr.1
       exact ⟨_, rfl, h.1, by rw [h.2, hr.2]⟩)
    | (have hr := refTai_spec .QZSST rfl
       have h := add_spec d (refTai .QZSST) hd hr.1
       exact ⟨_, rfl, h.1, by rw [h.2, hr.2]⟩)

/-- second half of `to_time_scale` on the uniform scales -/
theorem fromTaiDur_uniform (tbl : List LeapEntry) (p : Dur) (b : TS) (hp : p.Canon) (hb : b.isUniform = true) :
    ∃ r, fromTaiDur tbl p b = some r ∧ r.Canon ∧ r.val = clampD (p.val - off b) := by
  cases b <;> simp [TS.isUniform] at hb
  · exact ⟨p, rfl, hp, by
      have := canon_range p hp; unfold DMIN DMAX at this; simp only [NPCs_eq] at this
      have ho : off .TAI = 0 := rfl
      rw [ho, clampD_mid] <;> omega⟩
  · have h := add_spec p ttOffset hp ttOffset_spec.1
    refine ⟨_, rfl, h.1, ?_⟩
    rw [h.2, ttOffset_spec.2]; unfold off; congr 1
  all_goals
    first
    | (have hr := refTai_spec .GPST rfl
       have h := sub_spec p (refTai .GPST) hp hr.1
       exact ⟨_, rfl, h.1, by rw [h.2, hr.2]⟩)
    | (have hr := refTai_spec .GST rfl
       have h := sub_spec p (refTai .GST) hp hr.1
       exact ⟨_, rfl, h.1, by rw [h.2, hr.2]⟩)
    | (have hr := refTai_spec .BDT rfl
       have h := sub_spec p (refTai .BDT) hp hr.1
       exact ⟨_, rfl, h.1, by rw [h.2, hr.2]⟩)
    | (have hr := refTai_spec .QZSST rfl
       have h := sub_spec p (refTai .QZSST) hp hr.1
       exact ⟨_, rfl, h.1, by rw [h.2, hr.2]⟩)

/-- no bound is hit on the way from scale `a` to scale `b` -/
def NoSat (v : Int) (a b : TS) : Prop :=
  DMIN ≤ v + off a ∧ v + off a ≤ DMAX ∧ DMIN ≤ v + off a - off b ∧ v + off a - off b ≤ DMAX

/-- `to_time_scale` between uniform scales: exact constant shift -/
theorem toTimeScale_uniform (tbl : List LeapEntry) (d : Dur) (a b : TS) (hd : d.Canon)
    (ha : a.isUniform = true) (hb : b.isUniform = true) (hns : NoSat d.val a b) :
    ∃ r, toTimeScale tbl ⟨d, a⟩ b = some ⟨r, b⟩ ∧ r.Canon ∧ r.val = d.val + off a - off b := by
  unfold toTimeScale
  by_cases hab : b = a
  · subst hab
    rw [if_pos rfl]
    exact ⟨d, rfl, hd, by omega⟩
  · rw [if_neg hab]
    obtain ⟨p, p1, p2, p3⟩ := toTaiDur_uniform tbl d a hd ha
    obtain ⟨r, r1, r2, r3⟩ := fromTaiDur_uniform tbl p b p2 hb
    simp only [p1, r1]
    refine ⟨r, rfl, r2, ?_⟩
    obtain ⟨n1, n2, n3, n4⟩ := hns
    unfold DMIN DMAX at *; simp only [NPCs_eq] at *
    rw [r3, p3, clampD_mid (x := d.val + off a) (by omega) (by omega), clampD_mid] <;> omega

end Hifi
