import Hifi.Lemmas.DurFloat
import Hifi.Lemmas.EpochOrd
import Hifi.Model.ViewsFloat
import Hifi.Spec.ViewsFloat
/-
  Lemmas for the float clauses of C17 / C04 / C20 on SoftF64: the float-valued views of an epoch
  (`accF`), the float constructors (`fromMjdDur`, `fromJdeDur`, `fromUnix…Dur`), `Epoch + f64`
  (`epochAddF`) and `day_of_year`.  Built on Lemmas/SoftF64.lean and Lemmas/DurFloat.lean; core Lean only.
-/
namespace Hifi
open F64 Spec DurFloat Views ViewsF

/-! ### the f64 day constants are exact -/

theorem day_consts_exact : dayMjd = mjdJ1900 ∧ dayOffset = mjdOffset ∧ dayJde = jdeJ1900 ∧
    toRat MJD_J1900F = ((15020 : Int) : Rat) ∧ toRat MJD_OFFSETF = 4800001 / 2 ∧
    MJD_J1900F.isFinite = true ∧ MJD_OFFSETF.isFinite = true ∧
    toRat (F64.add MJD_J1900F MJD_OFFSETF) = 4830041 / 2 := by decide +kernel

theorem view_consts : mjdJ1900.Canon ∧ mjdOffset.Canon ∧ jdeJ1900.Canon ∧ etEpoch.Canon ∧ unixRef.Canon ∧
    mjdJ1900.val = 1297728000000000000 ∧ mjdOffset.val = 207360043200000000000 ∧
    jdeJ1900.val = 208657771200000000000 ∧ etEpoch.val = 3155716800000000000 ∧
    unixRef.val = 2208988800000000000 := by
  refine ⟨(fromTruncated_spec _ (by decide)).1, (fromTotal_spec _).1, (fromTotal_spec _).1,
    (unitMulI64_spec _ _ (by decide) (by decide)).1, ?_, by decide +kernel, by decide +kernel, by decide +kernel,
    by decide +kernel, by decide +kernel⟩
  unfold Dur.Canon unixRef; simp only [NPC_eq]; decide

theorem closeTo_mono {k k' : Nat} (h : k ≤ k') {got exact fl : Rat} (hfl : 0 ≤ fl)
    (hc : closeTo k got exact fl = true) : closeTo k' got exact fl = true := by
  unfold closeTo at hc ⊢
  rw [decide_eq_true_eq] at hc ⊢
  have hk : (k : Rat) ≤ (k' : Rat) := Rat.natCast_le_natCast.mpr h
  have hm : 0 ≤ (if absQ exact < fl then fl else absQ exact) := by
    split
    · exact hfl
    · rw [absQ_eq_absR]; exact absR_nonneg _
  have := Rat.mul_le_mul_of_nonneg_right hk hm
  grind

/-- a direct `to_seconds()` reading also satisfies the (looser) `to_unit(Second)` bound -/
theorem toSecondsOk_toUnitOk (v : Int) (f : F64) (h : toSecondsOk 4 v f = true) :
    toUnitOk 8 1000000000 v f = true := by
  unfold toSecondsOk at h; unfold toUnitOk
  simp only [Bool.and_eq_true] at h ⊢
  obtain ⟨⟨h1, h2⟩, h3⟩ := h
  refine ⟨⟨h1, ?_⟩, h3⟩
  have e1 : ((1000000000 : Int) : Rat) = 1000000000 := rfl
  have e2 : (1000000000 : Rat) / 1000000000 = 1 := by decide +kernel
  rw [e1, e2]
  exact closeTo_mono (by decide) (by decide) h2


/-! ### float accessors -/

theorem toUnitWith_ok (u : String) (c : F64) (fs : Int) (hu : fromSecondsU u = some c) (hs : unitNs u = some fs)
    (D : Dur) (hD : D.Canon) : toUnitOk 8 fs D.val (toUnitWith D c) = true := by
  unfold toUnitOk signOk
  have hsg := toUnitWith_props c (fromSecOk_of_unit hu) D hD
  rw [hsg.1, toUnit_err u c fs hu hs D hD]
  simp only [Bool.and_self, Bool.true_and, decide_eq_true_eq]
  exact ⟨hsg.2.1, hsg.2.2.1, hsg.2.2.2⟩

theorem toSeconds_ok (D : Dur) (hD : D.Canon) : toSecondsOk 4 D.val (toSeconds D) = true := by
  unfold toSecondsOk signOk
  have hs := toSeconds_sign D hD
  rw [hs.1, toSeconds_err D hD]
  simp only [Bool.and_self, Bool.true_and, decide_eq_true_eq]
  exact ⟨hs.2.1, hs.2.2.1, hs.2.2.2⟩

theorem fromSecondsU_of_unitNs {u : String} {fs : Int} (hs : unitNs u = some fs) :
    ∃ c, fromSecondsU u = some c := by
  unfold unitNs at hs
  split at hs
  all_goals first | exact ⟨_, rfl⟩ | cases hs

theorem toUnit_ok (D : Dur) (hD : D.Canon) (u : String) (fs : Int) (hs : unitNs u = some fs) :
    ∃ f, toUnit D u = some f ∧ toUnitOk 8 fs D.val f = true := by
  obtain ⟨c, hc⟩ := fromSecondsU_of_unitNs hs
  unfold toUnit; rw [hc]
  exact ⟨_, rfl, toUnitWith_ok u c fs hc hs D hD⟩

theorem toUnit_mono (D1 D2 : Dur) (h1 : D1.Canon) (h2 : D2.Canon) (h : D1.val ≤ D2.val) (u : String) (fs : Int)
    (hs : unitNs u = some fs) :
    ∃ f1 f2, toUnit D1 u = some f1 ∧ toUnit D2 u = some f2 ∧ F64.le f1 f2 = true := by
  obtain ⟨c, hc⟩ := fromSecondsU_of_unitNs hs
  unfold toUnit; rw [hc]
  exact ⟨_, _, rfl, rfl, toUnitWith_mono c (fromSecOk_of_unit hc) D1 D2 h1 h2 h⟩

/-- the durations the accessors read: canonical, exactly the elapsed time plus the constant -/
theorem view_durs (d : Dur) (hd : d.Canon) (hs : Safe d.val) (hjd : d.val ≤ DMAX - 70 * NPCs) :
    ((Dur.add d dayMjd).Canon ∧ (Dur.add d dayMjd).val = d.val + 1297728000000000000) ∧
    ((Dur.add (Dur.add d dayMjd) dayOffset).Canon ∧
      (Dur.add (Dur.add d dayMjd) dayOffset).val = d.val + 208657771200000000000) ∧
    ((Dur.add d dayJde).Canon ∧ (Dur.add d dayJde).val = d.val + 208657771200000000000) ∧
    ((Dur.sub d etEpoch).Canon ∧ (Dur.sub d etEpoch).val = d.val - 3155716800000000000) ∧
    ((Dur.sub d unixRef).Canon ∧ (Dur.sub d unixRef).val = d.val - 2208988800000000000) := by
  obtain ⟨e1, e2, e3, _⟩ := day_consts_exact
  obtain ⟨c1, c2, c3, c4, c5, v1, v2, v3, v4, v5⟩ := view_consts
  rw [e1, e2, e3]
  unfold Safe DMIN DMAX at hs; simp only [NPCs_eq] at hs
  unfold DMAX at hjd; simp only [NPCs_eq] at hjd
  have a1 := add_spec d mjdJ1900 hd c1
  have a1v : (Dur.add d mjdJ1900).val = d.val + 1297728000000000000 := by
    rw [a1.2, v1, clampD_mid] <;> omega
  have a2 := add_spec (Dur.add d mjdJ1900) mjdOffset a1.1 c2
  have a3 := add_spec d jdeJ1900 hd c3
  have a4 := sub_spec d etEpoch hd c4
  have a5 := sub_spec d unixRef hd c5
  refine ⟨⟨a1.1, a1v⟩, ⟨a2.1, ?_⟩, ⟨a3.1, ?_⟩, ⟨a4.1, ?_⟩, ⟨a5.1, ?_⟩⟩
  · rw [a2.2, a1v, v2, clampD_mid] <;> omega
  · rw [a3.2, v3, clampD_mid] <;> omega
  · rw [a4.2, v4, clampD_mid] <;> omega
  · rw [a5.2, v5, clampD_mid] <;> omega

theorem consts_eval : (15020 : Int) * (86400 * 10 ^ 9) = 1297728000000000000 ∧
    (2415020 : Int) * (86400 * 10 ^ 9) + 43200 * 10 ^ 9 = 208657771200000000000 ∧
    -((3155716800 : Int) * 10 ^ 9) = -3155716800000000000 ∧ -((2208988800 : Int) * 10 ^ 9) = -2208988800000000000 := by
  decide

/-- the duration each accessor reads is canonical and equals elapsed time + constant -/
theorem accDur_spec (a : Acc) (d : Dur) (hd : d.Canon) (hs : Safe d.val) (hjd : d.val ≤ DMAX - 70 * NPCs) :
    (accDur a d).Canon ∧ (accDur a d).val = d.val + (accConst a).1 := by
  obtain ⟨⟨m1, m2⟩, ⟨o1, o2⟩, ⟨j1, j2⟩, ⟨t1, t2⟩, ⟨x1, x2⟩⟩ := view_durs d hd hs hjd
  obtain ⟨k1, k2, k3, k4⟩ := consts_eval
  cases a <;> simp only [accDur, accConst, k1, k2, k3, k4] <;>
    first
    | exact ⟨hd, by omega⟩
    | exact ⟨m1, m2⟩
    | exact ⟨o1, o2⟩
    | exact ⟨j1, j2⟩
    | exact ⟨t1, by omega⟩
    | exact ⟨x1, by omega⟩

theorem accUnit_consistent (a : Acc) :
    (accUnit a = none ∧ (accConst a).2 = "s") ∨ accUnit a = some (accConst a).2 := by
  cases a <;> simp [accUnit, accConst]

/-- **accuracy of the 22 float accessors**: each returns a finite double with the sign of the exact
    quantity (elapsed time + constant) and within 8·2^-53·max(|exact|, one second in the unit) of it;
    the four that call `to_seconds()` directly within 4·2^-53·max(|exact|, 1) -/
theorem accF_spec (a : Acc) (fs : Int) (hu : unitNs (accConst a).2 = some fs) (d : Dur) (hd : d.Canon)
    (hs : Safe d.val) (hjd : d.val ≤ DMAX - 70 * NPCs) :
    ∃ f, accF a d = some f ∧ toUnitOk 8 fs (d.val + (accConst a).1) f = true ∧
      (accUnit a = none → toSecondsOk 4 (d.val + (accConst a).1) f = true) := by
  obtain ⟨hD, hv⟩ := accDur_spec a d hd hs hjd
  rw [← hv]
  unfold accF
  rcases accUnit_consistent a with ⟨h1, h2⟩ | h1
  · rw [h1]
    rw [h2] at hu
    have : fs = 1000000000 := by
      have : unitNs "s" = some 1000000000 := by decide
      rw [this] at hu; exact (Option.some.inj hu).symm
    subst this
    exact ⟨_, rfl, toSecondsOk_toUnitOk _ _ (toSeconds_ok _ hD), fun _ => toSeconds_ok _ hD⟩
  · rw [h1]
    obtain ⟨f, e1, e2⟩ := toUnit_ok _ hD _ _ hu
    exact ⟨f, e1, e2, fun h => by cases h⟩

/-- every accessor is non-decreasing in the elapsed time -/
theorem accF_mono (a : Acc) (d1 d2 : Dur) (h1 : d1.Canon) (h2 : d2.Canon) (hs1 : Safe d1.val) (hs2 : Safe d2.val)
    (hj1 : d1.val ≤ DMAX - 70 * NPCs) (hj2 : d2.val ≤ DMAX - 70 * NPCs) (h : d1.val ≤ d2.val) :
    ∃ f1 f2, accF a d1 = some f1 ∧ accF a d2 = some f2 ∧ F64.le f1 f2 = true := by
  obtain ⟨hD1, hv1⟩ := accDur_spec a d1 h1 hs1 hj1
  obtain ⟨hD2, hv2⟩ := accDur_spec a d2 h2 hs2 hj2
  have hle : (accDur a d1).val ≤ (accDur a d2).val := by omega
  unfold accF
  cases hu : accUnit a with
  | none => exact ⟨_, _, rfl, rfl, toSeconds_mono _ _ hD1 hD2 hle⟩
  | some u =>
    have : ∃ fs, unitNs u = some fs := by
      rcases accUnit_consistent a with ⟨h1, _⟩ | h1
      · rw [h1] at hu; cases hu
      · rw [h1] at hu; injection hu with hu; subst hu
        cases a <;> exact ⟨_, rfl⟩
    obtain ⟨fs, hfs⟩ := this
    exact toUnit_mono _ _ hD1 hD2 hle u fs hfs


/-! ### exactly representable values -/

/-- a rational of the form ±M·2^e' with M < 2^53, e' ≥ -1074, below 2^1024 is a double: rounding is exact -/
theorem rnd_exact_of_dyadic {x : Rat} (M : Nat) (e' : Int) (hM : M < 9007199254740992) (he : -1074 ≤ e')
    (habs : absR x = (M : Rat) * pow2 e') (hlt : absR x < pow2 1024) :
    (rnd x).isFinite = true ∧ wf (rnd x) = true ∧ toRat (rnd x) = x := by
  by_cases hx : x = 0
  · subst hx; rw [rnd_zero]; exact ⟨rfl, by decide, toRat_zero false⟩
  · have hexp : expOf x ≤ e' := by
      have hs := ilog2_spec hx
      have h1 : absR x < pow2 (53 + e') := by
        rw [habs, pow2_add, pow2_53]
        exact mul_lt_mul_pos_right (pow2_pos e') (natCast_lt_intCast (by omega))
      have : pow2 (ilog2 x) < pow2 (53 + e') := by grind
      have := pow2_lt_iff.mp this
      unfold expOf; split <;> omega
    exact rnd_of_sc_int hx (sc_of_dyadic M e' habs hexp) hlt

/-- an integer k·2^j·c with |k|·c < 2^53 is a double -/
theorem rnd_exact_int_mul (n : Int) (M : Nat) (j : Nat) (hM : M < 9007199254740992)
    (hn : n.natAbs = M * 2 ^ j) (hj : j ≤ 900) :
    (rnd (n : Rat)).isFinite = true ∧ toRat (rnd (n : Rat)) = (n : Rat) := by
  have habs : absR (n : Rat) = (M : Rat) * pow2 (j : Int) := by
    rw [pow2_natCast, ← Rat.natCast_mul, ← hn]
    unfold absR
    by_cases hneg : n < 0
    · have : (n : Rat) < 0 := Rat.intCast_neg_iff.mpr hneg
      rw [if_pos this, ← Rat.intCast_natCast, ← Rat.intCast_neg]; congr 1; omega
    · have : ¬ (n : Rat) < 0 := fun hh => hneg (Rat.intCast_neg_iff.mp hh)
      rw [if_neg this, ← Rat.intCast_natCast]; congr 1; omega
  have hlt : absR (n : Rat) < pow2 1024 := by
    rw [habs]
    have h1 : (M : Rat) * pow2 (j : Int) < pow2 53 * pow2 (j : Int) := by
      rw [pow2_53]; exact mul_lt_mul_pos_right (pow2_pos _) (natCast_lt_intCast (by omega))
    rw [← pow2_add] at h1
    have : pow2 (53 + (j : Int)) ≤ pow2 1024 := pow2_mono (by omega)
    grind
  have := rnd_exact_of_dyadic M (j : Int) hM (by omega) habs hlt
  exact ⟨this.1, this.2.2⟩

/-! ### unit-factor facts for the constructors -/

theorem secFac_ok : unitFactsOk secFac 1000000000 = true ∧ unitFactsOk dayFac 86400000000000 = true ∧
    unitFactsOk msFac 1000000 = true := by decide +kernel

/-! ### generic error steps -/

theorem absR_zero : absR 0 = 0 := by decide +kernel

/-- relative error of one rounding step, zero included -/
theorem rndz_rel (x : Rat) (s : Bool) (hx : x = 0 ∨ pow2 (-1022) ≤ absR x) (hf : (rndz x s).isFinite = true) :
    absR (toRat (rndz x s) - x) * 9007199254740992 ≤ absR x := by
  unfold rndz at hf ⊢
  by_cases hz : x = 0
  · rw [if_pos hz, toRat_zero, hz]; decide +kernel
  · rw [if_neg hz] at hf ⊢
    rcases hx with h | h
    · exact absurd h hz
    · have := rnd_rel_err h hf
      rw [k9_err_facts.2.2.2.1] at this; exact this

/-- magnitude bound of one rounding step against a double c ≥ 0 -/
theorem rndz_abs_le (x : Rat) (s : Bool) {mc : Nat} {ec : Int} (hwc : wf (fin false mc ec) = true) (hmc : mc ≠ 0)
    (h : absR x ≤ toRat (fin false mc ec)) :
    (rndz x s).isFinite = true ∧ absR (toRat (rndz x s)) ≤ toRat (fin false mc ec) := by
  unfold rndz
  by_cases hz : x = 0
  · rw [if_pos hz, toRat_zero, absR_zero]
    refine ⟨rfl, ?_⟩
    have := mag_nonneg mc ec; simp [toRat_fin]; exact this
  · rw [if_neg hz]; exact rnd_abs_le hwc hmc h

theorem rndz_abs_ge (x : Rat) (s : Bool) (hx : x ≠ 0) {mc : Nat} {ec : Int} (hwc : wf (fin false mc ec) = true)
    (hmc : mc ≠ 0) (h : toRat (fin false mc ec) ≤ absR x) (hf : (rndz x s).isFinite = true) :
    toRat (fin false mc ec) ≤ absR (toRat (rndz x s)) := by
  unfold rndz at hf ⊢
  rw [if_neg hx] at hf ⊢
  exact rnd_abs_ge hwc hmc h hf

/-- the difference between a canonical double and a constant B = Bz·2^-60 with |B| ≥ 2 is either 0
    or at least 2^-60 in magnitude (so its rounding is in the normal range) -/
theorem sub_const_normal (s : Bool) (m : Nat) (e : Int) (hw : wf (fin s m e) = true) (Bz : Int)
    (hB : 2 ≤ absR ((Bz : Rat) * pow2 (-60))) :
    toRat (fin s m e) - (Bz : Rat) * pow2 (-60) = 0 ∨
    pow2 (-60) ≤ absR (toRat (fin s m e) - (Bz : Rat) * pow2 (-60)) := by
  unfold wf at hw; simp only [P52_eq, P53_eq, decide_eq_true_eq] at hw
  obtain ⟨w1, _, _, _⟩ := hw
  have hp := pow2_pos (-60)
  by_cases he : -60 ≤ e
  · -- everything is an integer multiple of 2^-60
    have hm : (m : Rat) * pow2 e = (((m : Int) * ((2 ^ (e + 60).toNat : Nat) : Int) : Int) : Rat) * pow2 (-60) := by
      rw [Rat.intCast_mul, Rat.intCast_natCast, Rat.intCast_natCast, ← pow2_natCast, Rat.mul_assoc, ← pow2_add]
      congr 2; omega
    have hZ : ∃ Z : Int, toRat (fin s m e) - (Bz : Rat) * pow2 (-60) = (Z : Rat) * pow2 (-60) := by
      rw [toRat_fin, hm]
      cases s
      · refine ⟨(m : Int) * ((2 ^ (e + 60).toNat : Nat) : Int) - Bz, ?_⟩
        simp only [Bool.false_eq_true, if_false]; rw [Rat.intCast_sub]; grind
      · refine ⟨-((m : Int) * ((2 ^ (e + 60).toNat : Nat) : Int)) - Bz, ?_⟩
        simp only [if_true]; rw [Rat.intCast_sub, Rat.intCast_neg]; grind
    obtain ⟨Z, hZ⟩ := hZ
    rw [hZ]
    by_cases hz : Z = 0
    · left; rw [hz]; rw [show ((0 : Int) : Rat) = 0 from rfl, Rat.zero_mul]
    · right
      rw [absR_mul_pos _ _ hp]
      have h1 : (1 : Rat) ≤ absR (Z : Rat) := by
        unfold absR
        by_cases hneg : (Z : Rat) < 0
        · rw [if_pos hneg]
          have : Z < 0 := Rat.intCast_neg_iff.mp hneg
          have : ((1 : Int) : Rat) ≤ ((-Z : Int) : Rat) := Rat.intCast_le_intCast.mpr (by omega)
          rw [Rat.intCast_neg] at this; exact this
        · rw [if_neg hneg]
          have : ¬ Z < 0 := fun h => hneg (Rat.intCast_neg_iff.mpr h)
          have : ((1 : Int) : Rat) ≤ (Z : Rat) := Rat.intCast_le_intCast.mpr (by omega)
          exact this
      have := Rat.mul_le_mul_of_nonneg_right h1 (Rat.le_of_lt hp)
      grind
  · -- |a| < 1: the difference is at least |B| - 1 ≥ 1
    right
    have ha : (m : Rat) * pow2 e < 1 := by
      have h1 : pow2 e ≤ pow2 (-61) := pow2_mono (by omega)
      have h2 : (m : Rat) < ((9007199254740992 : Int) : Rat) := natCast_lt_intCast (by omega)
      have h3 := Rat.mul_le_mul_of_nonneg_left h1 (Rat.natCast_nonneg (a := m))
      have h4 := mul_lt_mul_pos_right (pow2_pos (-61)) h2
      have h5 : ((9007199254740992 : Int) : Rat) * pow2 (-61) ≤ 1 := by decide +kernel
      grind
    have hann := mag_nonneg m e
    have h60 : pow2 (-60) ≤ 1 := by decide +kernel
    have habs := absR_toRat_fin s m e
    generalize toRat (fin s m e) = a at *
    generalize (Bz : Rat) * pow2 (-60) = B at *
    unfold absR at *
    split at habs <;> split at hB <;> split <;> grind



theorem truncQ_close (y : Rat) : absR (((truncQ y : Int) : Rat) - y) < 1 := by
  by_cases hy : 0 ≤ y
  · rw [truncQ_of_nonneg hy]
    have := floor_bounds y
    unfold absR; split <;> grind
  · have hny : 0 ≤ -y := by grind
    have h1 := truncQ_of_nonneg hny
    rw [truncQ_neg] at h1
    have hb := floor_bounds (-y)
    have e : ((truncQ y : Int) : Rat) = -(((-y).floor : Int) : Rat) := by
      rw [← Rat.intCast_neg]; congr 1; omega
    rw [e]
    unfold absR; split <;> grind

theorem c76_facts : wf (fin false 4503599627370496 24) = true ∧
    toRat (fin false 4503599627370496 24) = pow2 76 ∧
    pow2 76 = ((75557863725914323419136 : Int) : Rat) ∧ pow2 (-1022) ≤ pow2 (-60) ∧
    wf (fin false 4503599627370496 (-112)) = true ∧ toRat (fin false 4503599627370496 (-112)) = pow2 (-60) ∧
    wf (fin false 4503599627370496 (-28)) = true ∧ toRat (fin false 4503599627370496 (-28)) = pow2 24 ∧
    pow2 53 = 9007199254740992 ∧ pow2 (-53) * 9007199254740992 = 1 ∧ pow2 (-51) = 4 * pow2 (-53) ∧
    pow2 23 + 2415021 ≤ pow2 24 ∧ pow2 24 * 86400000000000 ≤ pow2 76 ∧ 0 < pow2 (-53) ∧ pow2 (-53) ≤ 1 := by
  decide +kernel

/-- one `q * Unit` step in error form: for a finite count q that is 0 or ≥ 2^-60 in magnitude and whose
    product with the unit stays below 2^76 ns (no saturation): the result is an integer t within
    1 ns + 2^-53·|q·len| of the real product -/
theorem unitMul_err (f : F64) (fs : Int) (hok : unitFactsOk f fs = true) (hfs : 1 ≤ fs) (q : F64)
    (hq : q.isFinite = true) (hnz : toRat q = 0 ∨ pow2 (-60) ≤ absR (toRat q))
    (hsmall : absR (toRat q) * (fs : Rat) ≤ pow2 76) :
    (unitMulF64 f q).Canon ∧
    absR (((unitMulF64 f q).val : Rat) - toRat q * (fs : Rat)) ≤ 1 + absR (toRat q * (fs : Rat)) * pow2 (-53) ∧
    -75557863725914323419137 ≤ (unitMulF64 f q).val ∧ (unitMulF64 f q).val ≤ 75557863725914323419137 := by
  obtain ⟨c1, c2, c3, c4, _, _, _, _, c9, c10, _, _, _, c14, _⟩ := c76_facts
  obtain ⟨hc, hv⟩ := unitMulF64_gen f fs hok q hq
  refine ⟨hc, ?_⟩
  obtain ⟨s, m, e, rfl⟩ := exists_fin_of_isFinite hq
  have hsp : unitTimesF fs (fin s m e) = truncNs (rnd (toRat (fin s m e) * (fs : Rat))) := rfl
  rw [hsp] at hv
  have hfsr : (1 : Rat) ≤ (fs : Rat) := by
    have : ((1 : Int) : Rat) ≤ (fs : Rat) := Rat.intCast_le_intCast.mpr hfs
    exact this
  have hXabs : absR (toRat (fin s m e) * (fs : Rat)) = absR (toRat (fin s m e)) * (fs : Rat) :=
    absR_mul_pos _ _ (by grind)
  generalize hX : toRat (fin s m e) * (fs : Rat) = X at *
  by_cases hz : X = 0
  · rw [hz, rnd_zero] at hv
    unfold zero at hv; rw [truncNs_fin, toRat_fin_zero] at hv
    have : truncQ 0 = 0 := truncQ_intCast 0
    rw [this, clampD_zero] at hv
    have hv0 : (unitMulF64 f (fin s m e)).val = 0 := Option.some.inj hv
    rw [hv0, hz, show ((0 : Int) : Rat) = 0 from rfl, absR_zero]
    have : (0 : Rat) - 0 = 0 := by grind
    rw [this, absR_zero]
    exact ⟨by grind, by omega, by omega⟩
  · have hnorm : pow2 (-1022) ≤ absR X := by
      rcases hnz with h | h
      · exfalso; apply hz; rw [← hX, h, Rat.zero_mul]
      · rw [hXabs]
        have := Rat.mul_le_mul_of_nonneg_left hfsr (absR_nonneg (toRat (fin s m e)))
        grind
    have hle := rnd_abs_le (X := X) c1 (by decide) (by rw [c2, hXabs]; exact hsmall)
    obtain ⟨sy, my, ey, hr⟩ := exists_fin_of_isFinite hle.1
    have hrel := rnd_rel_err hnorm hle.1
    rw [c9] at hrel
    rw [hr] at hv hle hrel
    rw [truncNs_fin] at hv
    generalize hy : toRat (fin sy my ey) = y at *
    have hyb := hle.2
    rw [c2, c3] at hyb
    have l1 : truncQ y < 75557863725914323419137 :=
      truncQ_lt (by decide) (by
        have : ((75557863725914323419137 : Int) : Rat) = ((75557863725914323419136 : Int) : Rat) + 1 := by decide +kernel
        unfold absR at hyb; split at hyb <;> grind)
    have l2 : -75557863725914323419137 < truncQ y :=
      truncQ_gt (by decide) (by
        have : ((75557863725914323419137 : Int) : Rat) = ((75557863725914323419136 : Int) : Rat) + 1 := by decide +kernel
        unfold absR at hyb; split at hyb <;> grind)
    rw [clampD_mid (by omega) (by omega)] at hv
    have hv' : (unitMulF64 f (fin s m e)).val = truncQ y := Option.some.inj hv
    rw [hv']
    refine ⟨?_, by omega, by omega⟩
    have htc := truncQ_close y
    have htri := absR_add_le (((truncQ y : Int) : Rat) - y) (y - X)
    have : ((truncQ y : Int) : Rat) - y + (y - X) = ((truncQ y : Int) : Rat) - X := by grind
    rw [this] at htri
    generalize absR (((truncQ y : Int) : Rat) - X) = A at *
    generalize absR (((truncQ y : Int) : Rat) - y) = B at *
    generalize absR (y - X) = C at *
    generalize absR X = AX at *
    generalize pow2 (-53) = u at *
    have : AX * u * 9007199254740992 = AX := by
      have : AX * u * 9007199254740992 = AX * (u * 9007199254740992) := by grind
      rw [this, c10, Rat.mul_one]
    grind



/-! ### float constructors (C17) -/

theorem mjd_consts : MJD_J1900F.isFinite = true ∧ MJD_OFFSETF.isFinite = true ∧
    toRat MJD_J1900F = ((17316880999194841579520 : Int) : Rat) * pow2 (-60) ∧
    toRat MJD_OFFSETF = ((2767012187517185045823488 : Int) : Rat) * pow2 (-60) ∧
    toRat MJD_J1900F = 15020 ∧ toRat MJD_OFFSETF = 4800001 / 2 ∧
    2 ≤ absR (((17316880999194841579520 : Int) : Rat) * pow2 (-60)) ∧
    2 ≤ absR (((2767012187517185045823488 : Int) : Rat) * pow2 (-60)) := by decide +kernel

/-- one `x - constant` step: finite, exact-or-normal, relative error 2^-53, magnitude ≤ 2^24 -/
theorem sub_const_step (x : F64) (hx : x.isFinite = true) (hwx : x.wf = true) (c : F64) (hc : c.isFinite = true)
    (Bz : Int) (hcB : toRat c = (Bz : Rat) * pow2 (-60)) (hB : 2 ≤ absR ((Bz : Rat) * pow2 (-60)))
    (hb : absR (toRat x - toRat c) ≤ pow2 24) :
    (F64.sub x c).isFinite = true ∧ (F64.sub x c).wf = true ∧
    (toRat (F64.sub x c) = 0 ∨ pow2 (-60) ≤ absR (toRat (F64.sub x c))) ∧
    absR (toRat (F64.sub x c) - (toRat x - toRat c)) * 9007199254740992 ≤ absR (toRat x - toRat c) ∧
    absR (toRat (F64.sub x c)) ≤ pow2 24 := by
  obtain ⟨_, _, _, c4, c5, c6, c7, c8, _⟩ := c76_facts
  rw [sub_finite hx hc]
  generalize (x.sign && !c.sign) = sg
  obtain ⟨s, m, e, rfl⟩ := exists_fin_of_isFinite hx
  have hn := sub_const_normal s m e hwx Bz hB
  rw [← hcB] at hn
  generalize toRat (fin s m e) - toRat c = D at *
  have hle := rndz_abs_le D sg c7 (by decide) (by rw [c8]; exact hb)
  rw [c8] at hle
  have hn' : D = 0 ∨ pow2 (-1022) ≤ absR D := by
    rcases hn with h | h
    · left; exact h
    · right; grind
  refine ⟨hle.1, rndz_wf D sg, ?_, rndz_rel D sg hn' hle.1, hle.2⟩
  rcases hn with h | h
  · left; rw [h, toRat_rndz_zero]
  · right
    have hD0 : D ≠ 0 := by
      intro h0; rw [h0, absR_zero] at h; have := pow2_pos (-60); grind
    have := rndz_abs_ge D sg hD0 c5 (by decide) (by rw [c6]; exact h) hle.1
    rw [c6] at this; exact this

/-- **`from_mjd_*` within the resolution of the double**: for every finite MJD day count of magnitude
    ≤ 2^23 (±23 000 years) the epoch's elapsed time r satisfies
    |r + g − (days − 15020)·86400·10^9| ≤ 1 ns + 2^-51·|days − 15020|·86400·10^9
    (g = the scale's reference-date offset); canonical -/
theorem fromMjdDur_err (g : Dur) (hg : g.Canon) (hgs : -6311520000000000000 ≤ g.val ∧ g.val ≤ 6311520000000000000)
    (days : F64) (hf : days.isFinite = true) (hw : days.wf = true) (hb : absR (toRat days) ≤ pow2 23) :
    (fromMjdDur g days).Canon ∧
    absR ((((fromMjdDur g days).val + g.val : Int) : Rat) - (toRat days - 15020) * 86400000000000) ≤
      1 + absR (toRat days - 15020) * 86400000000000 * pow2 (-51) := by
  obtain ⟨_, _, _, _, _, _, _, _, _, c10, c11, c12, c13, c14, c15⟩ := c76_facts
  obtain ⟨m1, _, m3, _, m5, _, m7, _⟩ := mjd_consts
  have hbD : absR (toRat days - toRat MJD_J1900F) ≤ pow2 24 := by
    rw [m5]
    have := absR_add_le (toRat days) (-15020)
    have e1 : toRat days + -15020 = toRat days - 15020 := by grind
    have e2 : absR (-15020 : Rat) = 15020 := by decide +kernel
    rw [e1, e2] at this
    grind
  obtain ⟨qf, qw, qn, qrel, qb⟩ := sub_const_step days hf hw MJD_J1900F m1 _ m3 m7 hbD
  rw [m5] at qrel
  generalize hq : F64.sub days MJD_J1900F = q at *
  have hsmall : absR (toRat q) * ((86400000000000 : Int) : Rat) ≤ pow2 76 := by
    have := Rat.mul_le_mul_of_nonneg_right qb (show (0 : Rat) ≤ ((86400000000000 : Int) : Rat) by decide +kernel)
    have e : ((86400000000000 : Int) : Rat) = 86400000000000 := rfl
    grind
  obtain ⟨uc, uerr, ulo, uhi⟩ := unitMul_err dayFac 86400000000000 secFac_ok.2.1 (by decide) q qf qn hsmall
  unfold fromMjdDur; rw [hq]
  have hs := sub_spec _ g uc hg
  refine ⟨hs.1, ?_⟩
  rw [hs.2, clampD_mid (by omega) (by omega)]
  have e : ((86400000000000 : Int) : Rat) = 86400000000000 := rfl
  rw [e] at uerr
  have ecast : (((unitMulF64 dayFac q).val - g.val + g.val : Int) : Rat) = ((unitMulF64 dayFac q).val : Rat) := by
    congr 1; omega
  rw [ecast]
  generalize ((unitMulF64 dayFac q).val : Rat) = t at *
  generalize hD : toRat days - 15020 = D at *
  -- t − D·DAY = (t − q·DAY) + (q − D)·DAY
  have hdec : t - D * 86400000000000 = (t - toRat q * 86400000000000) + (toRat q - D) * 86400000000000 := by grind
  have htri := absR_add_le (t - toRat q * 86400000000000) ((toRat q - D) * 86400000000000)
  rw [← hdec, absR_mul_pos _ _ (by decide : (0 : Rat) < 86400000000000)] at htri
  have hqabs : absR (toRat q * 86400000000000) = absR (toRat q) * 86400000000000 :=
    absR_mul_pos _ _ (by decide)
  rw [hqabs] at uerr
  have hqD := absR_add_le (toRat q - D) D
  have : toRat q - D + D = toRat q := by grind
  rw [this] at hqD
  rw [c11]
  have hDn := absR_nonneg D
  generalize absR (t - D * 86400000000000) = A at *
  generalize absR (t - toRat q * 86400000000000) = B at *
  generalize absR (toRat q - D) = E at *
  generalize absR (toRat q) = Q at *
  generalize absR D = AD at *
  generalize pow2 (-53) = u at *
  -- A ≤ B + E·DAY,  B ≤ 1 + Q·DAY·u,  E·2^53 ≤ AD,  Q ≤ E + AD, u·2^53 = 1
  have hE : E ≤ AD * u := by
    have : AD * u * 9007199254740992 = AD := by
      have : AD * u * 9007199254740992 = AD * (u * 9007199254740992) := by grind
      rw [this, c10, Rat.mul_one]
    grind
  have p1 := Rat.mul_le_mul_of_nonneg_right hE (show (0 : Rat) ≤ 86400000000000 by decide)
  have p2 := Rat.mul_le_mul_of_nonneg_right hqD (show (0 : Rat) ≤ 86400000000000 * u by
    have := Rat.mul_le_mul_of_nonneg_left (Rat.le_of_lt c14) (show (0 : Rat) ≤ 86400000000000 by decide); grind)
  have p3 : AD * u * (86400000000000 * u) ≤ AD * u * 86400000000000 := by
    have h0 : 0 ≤ AD * u := by
      have := Rat.mul_le_mul_of_nonneg_left (Rat.le_of_lt c14) hDn; grind
    have := Rat.mul_le_mul_of_nonneg_left (show 86400000000000 * u ≤ 86400000000000 by
      have := Rat.mul_le_mul_of_nonneg_left c15 (show (0 : Rat) ≤ 86400000000000 by decide); grind) h0
    exact this
  have p4 := Rat.mul_le_mul_of_nonneg_right hE (show (0 : Rat) ≤ 86400000000000 * u by
    have := Rat.mul_le_mul_of_nonneg_left (Rat.le_of_lt c14) (show (0 : Rat) ≤ 86400000000000 by decide); grind)
  have hW0 : 0 ≤ AD * 86400000000000 * u := by
    have h0 : 0 ≤ AD * 86400000000000 := by
      have := Rat.mul_le_mul_of_nonneg_left (show (0 : Rat) ≤ 86400000000000 by decide) hDn; grind
    have := Rat.mul_le_mul_of_nonneg_left (Rat.le_of_lt c14) h0; grind
  generalize hW : AD * 86400000000000 * u = W at *
  have w1 : AD * u * 86400000000000 = W := by rw [← hW]; grind
  have w2 : AD * (86400000000000 * u) = W := by rw [← hW]; grind
  have w3 : Q * 86400000000000 * u = Q * (86400000000000 * u) := by grind
  have w4 : AD * 86400000000000 * (4 * u) = 4 * W := by rw [← hW]; grind
  rw [w4]
  rw [w1] at p1 p3
  rw [w3] at uerr
  have w5 : (E + AD) * (86400000000000 * u) = E * (86400000000000 * u) + W := by rw [← w2]; grind
  rw [w5] at p2
  grind



theorem num_facts : pow2 (-53) = 1 / 9007199254740992 ∧ pow2 (-51) = 1 / 2251799813685248 ∧
    pow2 23 = 8388608 ∧ pow2 24 = 16777216 := by decide +kernel

theorem absR_sub_le (a b : Rat) : absR (a - b) ≤ absR a + absR b := by
  unfold absR; split <;> split <;> split <;> grind

/-- **`from_jde_*` within the resolution of the double**: for every finite JD day count of magnitude
    ≤ 2^23 the elapsed time r satisfies
    |r + g − (days − 2415020.5)·86400·10^9| ≤ 1 ns + 2^-51·(|days| + 2415021)·86400·10^9
    (JD doubles near 2.4·10^6 resolve 2^-31 day ≈ 40 µs: the bound is of that order); canonical -/
theorem fromJdeDur_err (g : Dur) (hg : g.Canon) (hgs : -6311520000000000000 ≤ g.val ∧ g.val ≤ 6311520000000000000)
    (days : F64) (hf : days.isFinite = true) (hw : days.wf = true) (hb : absR (toRat days) ≤ pow2 23) :
    (fromJdeDur g days).Canon ∧
    absR ((((fromJdeDur g days).val + g.val : Int) : Rat) - (toRat days - 4830041 / 2) * 86400000000000) ≤
      1 + (absR (toRat days) + 2415021) * 86400000000000 * pow2 (-51) := by
  obtain ⟨n1, n2, n3, n4⟩ := num_facts
  obtain ⟨m1, m2, m3, m4, m5, m6, m7, m8⟩ := mjd_consts
  rw [n3] at hb
  -- first subtraction
  have t1 := absR_sub_le (toRat days) (15020 : Rat)
  have e15 : absR (15020 : Rat) = 15020 := by decide +kernel
  rw [e15] at t1
  have hbD1 : absR (toRat days - toRat MJD_J1900F) ≤ pow2 24 := by rw [m5, n4]; grind
  obtain ⟨q1f, q1w, _, q1rel, _⟩ := sub_const_step days hf hw MJD_J1900F m1 _ m3 m7 hbD1
  rw [m5] at q1rel
  generalize hq1 : F64.sub days MJD_J1900F = q1 at *
  have t2 := absR_add_le (toRat q1 - (toRat days - 15020)) (toRat days - 15020)
  have : toRat q1 - (toRat days - 15020) + (toRat days - 15020) = toRat q1 := by grind
  rw [this] at t2
  -- second subtraction
  have t3 := absR_sub_le (toRat q1) (4800001 / 2 : Rat)
  have e24 : absR (4800001 / 2 : Rat) = 4800001 / 2 := by decide +kernel
  rw [e24] at t3
  have hbD2 : absR (toRat q1 - toRat MJD_OFFSETF) ≤ pow2 24 := by rw [m6, n4]; grind
  obtain ⟨q2f, q2w, q2n, q2rel, q2b⟩ := sub_const_step q1 q1f q1w MJD_OFFSETF m2 _ m4 m8 hbD2
  rw [m6] at q2rel
  generalize hq2 : F64.sub q1 MJD_OFFSETF = q2 at *
  -- product
  have hsmall : absR (toRat q2) * ((86400000000000 : Int) : Rat) ≤ pow2 76 := by
    have := Rat.mul_le_mul_of_nonneg_right q2b (show (0 : Rat) ≤ ((86400000000000 : Int) : Rat) by decide +kernel)
    have e : ((86400000000000 : Int) : Rat) = 86400000000000 := rfl
    have := c76_facts.2.2.2.2.2.2.2.2.2.2.2.2.1
    grind
  obtain ⟨uc, uerr, ulo, uhi⟩ := unitMul_err dayFac 86400000000000 secFac_ok.2.1 (by decide) q2 q2f q2n hsmall
  unfold fromJdeDur; rw [hq1, hq2]
  have hs := sub_spec _ g uc hg
  refine ⟨hs.1, ?_⟩
  rw [hs.2, clampD_mid (by omega) (by omega)]
  have e : ((86400000000000 : Int) : Rat) = 86400000000000 := rfl
  rw [e] at uerr
  have ecast : (((unitMulF64 dayFac q2).val - g.val + g.val : Int) : Rat) = ((unitMulF64 dayFac q2).val : Rat) := by
    congr 1; omega
  rw [ecast]
  generalize ((unitMulF64 dayFac q2).val : Rat) = t at *
  have hqabs : absR (toRat q2 * 86400000000000) = absR (toRat q2) * 86400000000000 :=
    absR_mul_pos _ _ (by decide)
  rw [hqabs] at uerr
  -- q2 − D = (q2 − (q1 − c2)) + (q1 − (days − c1))
  have t4 := absR_add_le (toRat q2 - (toRat q1 - 4800001 / 2)) (toRat q1 - (toRat days - 15020))
  have : toRat q2 - (toRat q1 - 4800001 / 2) + (toRat q1 - (toRat days - 15020)) =
      toRat q2 - (toRat days - 4830041 / 2) := by grind
  rw [this] at t4
  have t5 := absR_add_le (toRat q2 - (toRat days - 4830041 / 2)) (toRat days - 4830041 / 2)
  have : toRat q2 - (toRat days - 4830041 / 2) + (toRat days - 4830041 / 2) = toRat q2 := by grind
  rw [this] at t5
  have t6 := absR_sub_le (toRat days) (4830041 / 2 : Rat)
  have e48 : absR (4830041 / 2 : Rat) = 4830041 / 2 := by decide +kernel
  rw [e48] at t6
  have hdec : t - (toRat days - 4830041 / 2) * 86400000000000 =
      (t - toRat q2 * 86400000000000) + (toRat q2 - (toRat days - 4830041 / 2)) * 86400000000000 := by grind
  have t7 := absR_add_le (t - toRat q2 * 86400000000000) ((toRat q2 - (toRat days - 4830041 / 2)) * 86400000000000)
  rw [← hdec, absR_mul_pos _ _ (by decide : (0 : Rat) < 86400000000000)] at t7
  rw [n1] at uerr; rw [n2]
  have hx0 := absR_nonneg (toRat days)
  generalize absR (t - (toRat days - 4830041 / 2) * 86400000000000) = A at *
  generalize absR (t - toRat q2 * 86400000000000) = B at *
  generalize absR (toRat q2 - (toRat days - 4830041 / 2)) = Eq at *
  generalize absR (toRat q2 - (toRat q1 - 4800001 / 2)) = E2 at *
  generalize absR (toRat q1 - (toRat days - 15020)) = E1 at *
  generalize absR (toRat q1 - 4800001 / 2) = AD2 at *
  generalize absR (toRat days - 15020) = AD1 at *
  generalize absR (toRat days - 4830041 / 2) = AD at *
  generalize absR (toRat q2) = Q2 at *
  generalize absR (toRat q1) = Q1 at *
  generalize absR (toRat days) = X0 at *
  grind



/-- a whole number k of days, |k| ≤ 2^22 (±11 483 years), times `Unit::Day` is exactly k·86400·10^9 ns
    (k·86400·10^9 = (|k|·1318359375)·2^16 is a double) -/
theorem dayMul_integer (q : F64) (hq : q.isFinite = true) (k : Int) (hk : -4194304 ≤ k ∧ k ≤ 4194304)
    (hv : toRat q = (k : Rat)) :
    (unitMulF64 dayFac q).Canon ∧ (unitMulF64 dayFac q).val = k * 86400000000000 := by
  have hrep := rnd_exact_int_mul (k * 86400000000000) (k.natAbs * 1318359375) 16 (by omega)
    (by rw [Int.natAbs_mul]; have : (86400000000000 : Int).natAbs = 1318359375 * 2 ^ 16 := by decide
        rw [this, Nat.mul_assoc]) (by omega)
  have hw := rnd_wf ((k * 86400000000000 : Int) : Rat)
  obtain ⟨hc, hval⟩ := unitMulF64_representable_gen dayFac 86400000000000 secFac_ok.2.1 q hq
    (rnd ((k * 86400000000000 : Int) : Rat)) hrep.1 hw (by rw [hv, hrep.2, Rat.intCast_mul])
  refine ⟨hc, ?_⟩
  obtain ⟨s, m, e, hr⟩ := exists_fin_of_isFinite hrep.1
  rw [hr] at hval hrep
  rw [truncNs_fin, hrep.2, truncQ_intCast, clampD_mid (by omega) (by omega)] at hval
  exact Option.some.inj hval

/-- **`from_mjd_*` is exact on whole MJD days** n with |n − 15020| ≤ 2^22: the elapsed time is
    (n − 15020) days minus the scale's reference-date offset, to the nanosecond -/
theorem fromMjdDur_integer_days (g : Dur) (hg : g.Canon)
    (hgs : -6311520000000000000 ≤ g.val ∧ g.val ≤ 6311520000000000000) (n : Int)
    (hn : -4194304 ≤ n - 15020 ∧ n - 15020 ≤ 4194304) :
    (fromMjdDur g (F64.ofInt n)).Canon ∧
    (fromMjdDur g (F64.ofInt n)).val = (n - 15020) * 86400000000000 - g.val := by
  obtain ⟨m1, _, _, _, m5, _⟩ := mjd_consts
  obtain ⟨nf, nv⟩ := ofInt_exact n (by omega)
  have hsub := sub_finite nf m1
  rw [nv, m5] at hsub
  have e1 : (n : Rat) - 15020 = ((n - 15020 : Int) : Rat) := by rw [Rat.intCast_sub]; rfl
  rw [e1] at hsub
  obtain ⟨qf, qv⟩ := rndz_int (n - 15020) ((F64.ofInt n).sign && !MJD_J1900F.sign) (by omega)
  rw [← hsub] at qf qv
  obtain ⟨uc, uv⟩ := dayMul_integer _ qf (n - 15020) hn qv
  unfold fromMjdDur
  have hs := sub_spec _ g uc hg
  refine ⟨hs.1, ?_⟩
  rw [hs.2, uv, clampD_mid (by omega) (by omega)]

/-- **`from_jde_*` is exact on Julian dates at midnight** (n + 0.5, the usual civil-day boundary) with
    |n − 2415020| ≤ 2^22: the elapsed time is (n − 2415020) days minus the offset, to the nanosecond -/
theorem fromJdeDur_midnight (g : Dur) (hg : g.Canon)
    (hgs : -6311520000000000000 ≤ g.val ∧ g.val ≤ 6311520000000000000) (days : F64) (hf : days.isFinite = true)
    (n : Int) (hd : toRat days = (n : Rat) + 1 / 2) (hn : -4194304 ≤ n - 2415020 ∧ n - 2415020 ≤ 4194304) :
    (fromJdeDur g days).Canon ∧ (fromJdeDur g days).val = (n - 2415020) * 86400000000000 - g.val := by
  obtain ⟨m1, m2, _, _, m5, m6, _⟩ := mjd_consts
  -- days − 15020 = (2n − 30039)/2 : a double
  have hsub1 := sub_finite hf m1
  rw [hd, m5] at hsub1
  have hx1 : (n : Rat) + 1 / 2 - 15020 = ((2 * n - 30039 : Int) : Rat) * pow2 (-1) := by
    rw [Rat.intCast_sub, Rat.intCast_mul]
    have : pow2 (-1) = 1 / 2 := by decide +kernel
    rw [this]; have : ((2 : Int) : Rat) = 2 := rfl
    have : ((30039 : Int) : Rat) = 30039 := rfl
    grind
  have habs1 : absR ((n : Rat) + 1 / 2 - 15020) = (((2 * n - 30039).natAbs : Nat) : Rat) * pow2 (-1) := by
    rw [hx1, absR_mul_pos _ _ (pow2_pos (-1))]
    congr 1
    unfold absR
    by_cases hneg : 2 * n - 30039 < 0
    · have : ((2 * n - 30039 : Int) : Rat) < 0 := Rat.intCast_neg_iff.mpr hneg
      rw [if_pos this, ← Rat.intCast_natCast, ← Rat.intCast_neg]; congr 1; omega
    · have : ¬ ((2 * n - 30039 : Int) : Rat) < 0 := fun hh => hneg (Rat.intCast_neg_iff.mp hh)
      rw [if_neg this, ← Rat.intCast_natCast]; congr 1; omega
  have hlt1 : absR ((n : Rat) + 1 / 2 - 15020) < pow2 1024 := by
    rw [habs1]
    have h1 : (((2 * n - 30039).natAbs : Nat) : Rat) < ((9007199254740992 : Int) : Rat) := natCast_lt_intCast (by omega)
    have h2 := mul_lt_mul_pos_right (pow2_pos (-1)) h1
    have h3 : ((9007199254740992 : Int) : Rat) * pow2 (-1) ≤ pow2 1024 := by decide +kernel
    grind
  have hex1 := rnd_exact_of_dyadic (x := (n : Rat) + 1 / 2 - 15020) (2 * n - 30039).natAbs (-1) (by omega) (by omega)
    habs1 hlt1
  have hq1 : (F64.sub days MJD_J1900F).isFinite = true ∧ toRat (F64.sub days MJD_J1900F) = (n : Rat) + 1 / 2 - 15020 := by
    rw [hsub1]; unfold rndz
    have hnz : (n : Rat) + 1 / 2 - 15020 ≠ 0 := by
      intro h; rw [h, absR_zero] at habs1
      have h1 : ((1 : Int) : Rat) ≤ (((2 * n - 30039).natAbs : Nat) : Rat) := intCast_le_natCast (by omega)
      have := Rat.mul_le_mul_of_nonneg_right h1 (Rat.le_of_lt (pow2_pos (-1)))
      have := pow2_pos (-1); grind
    rw [if_neg hnz]; exact ⟨hex1.1, hex1.2.2⟩
  -- minus 2400000.5: the integer n − 2415020
  have hsub2 := sub_finite hq1.1 m2
  rw [hq1.2, m6] at hsub2
  have e2 : (n : Rat) + 1 / 2 - 15020 - 4800001 / 2 = ((n - 2415020 : Int) : Rat) := by
    rw [Rat.intCast_sub]; have : ((2415020 : Int) : Rat) = 2415020 := rfl
    grind
  rw [e2] at hsub2
  obtain ⟨qf, qv⟩ := rndz_int (n - 2415020) ((F64.sub days MJD_J1900F).sign && !MJD_OFFSETF.sign) (by omega)
  rw [← hsub2] at qf qv
  obtain ⟨uc, uv⟩ := dayMul_integer _ qf (n - 2415020) hn qv
  unfold fromJdeDur
  have hs := sub_spec _ g uc hg
  refine ⟨hs.1, ?_⟩
  rw [hs.2, uv, clampD_mid (by omega) (by omega)]

/-- `from_unix_seconds(x)` / `from_unix_milliseconds(x)` for a finite x: 1970-01-01 plus the duration
    the count denotes (clampD (trunc (rnd (x·len)))), saturating; canonical -/
theorem fromUnix_spec (x : F64) (hx : x.isFinite = true) :
    (∃ t, unitTimesF 1000000000 x = some t ∧ (fromUnixSecondsDur x).Canon ∧
      (fromUnixSecondsDur x).val = clampD (2208988800000000000 + t)) ∧
    (∃ t, unitTimesF 1000000 x = some t ∧ (fromUnixMillisecondsDur x).Canon ∧
      (fromUnixMillisecondsDur x).val = clampD (2208988800000000000 + t)) := by
  obtain ⟨_, _, _, _, c5, _, _, _, _, v5⟩ := view_consts
  obtain ⟨h1, h1v⟩ := unitMulF64_gen secFac 1000000000 secFac_ok.1 x hx
  obtain ⟨h2, h2v⟩ := unitMulF64_gen msFac 1000000 secFac_ok.2.2 x hx
  have a1 := add_spec unixRef _ c5 h1
  have a2 := add_spec unixRef _ c5 h2
  rw [v5] at a1 a2
  exact ⟨⟨_, h1v.symm, a1.1, a1.2⟩, ⟨_, h2v.symm, a2.1, a2.2⟩⟩

/-! ### `day_of_year` (C20 / C09) -/

def cDay : F64 := F64.div one SECONDS_PER_DAY

theorem cDay_facts : fromSecondsU "d" = some cDay ∧ unitNs "d" = some 86400000000000 ∧
    toRat (toUnitWith ⟨0, 366 * 86400000000000 - 1⟩ cDay) ≤ 366 ∧
    (Dur.mk 0 (366 * 86400000000000 - 1)).val = 366 * 86400000000000 - 1 ∧
    dayOfYear ⟨0, 0⟩ = one ∧ dayOfYear ⟨0, 366 * 86400000000000 - 1⟩ = F64.ofInt 367 ∧
    dayOfYear ⟨0, 365 * 86400000000000 - 1⟩ = F64.ofInt 366 ∧ toRat one = 1 ∧ one.isFinite = true := by
  decide +kernel

/-- **`day_of_year`** for a duration-into-the-year d (0 ≤ d < 366 days): finite, between 1 and 367,
    within 10·2^-53 (relative) of d/day + 1 -/
theorem dayOfYear_spec (d : Dur) (hd : d.Canon) (h0 : 0 ≤ d.val) (h1 : d.val ≤ 366 * 86400000000000 - 1) :
    (dayOfYear d).isFinite = true ∧ 1 ≤ toRat (dayOfYear d) ∧ toRat (dayOfYear d) ≤ 367 ∧
    closeTo 10 (toRat (dayOfYear d)) ((d.val : Rat) / 86400000000000 + 1) 1 = true := by
  obtain ⟨k1, k2, k3, k4, _, _, _, k8, k9⟩ := cDay_facts
  have hok := fromSecOk_of_unit k1
  have hp := toUnitWith_props cDay hok d hd
  have herr := toUnit_err "d" cDay 86400000000000 k1 k2 d hd
  -- upper bound by monotonicity
  have hmaxC : (Dur.mk 0 (366 * 86400000000000 - 1)).Canon := by
    unfold Dur.Canon; simp only [NPC_eq]; decide
  have hmono := toUnitWith_mono cDay hok d _ hd hmaxC (by rw [k4]; exact h1)
  have hpm := toUnitWith_props cDay hok _ hmaxC
  have hT366 : toRat (toUnitWith d cDay) ≤ 366 := by
    have := toRat_le_of_le hp.1 hpm.1 hmono; grind
  have hT0 : 0 ≤ toRat (toUnitWith d cDay) := by
    by_cases hz : d.val = 0
    · rw [hp.2.2.2 hz]; exact Rat.le_refl
    · exact Rat.le_of_lt (hp.2.1 (by omega))
  have hdef : dayOfYear d = F64.add (toUnitWith d cDay) one := rfl
  rw [hdef, add_finite hp.1 k9, k8]
  generalize ((toUnitWith d cDay).sign && one.sign) = sg
  generalize hT : toRat (toUnitWith d cDay) = T at *
  have hbt := rndz_between (x := T + 1) sg (lo := 1) (hi := 367) (by decide) (by decide)
    (by have : ((1 : Int) : Rat) = 1 := rfl; grind) (by have : ((367 : Int) : Rat) = 367 := rfl; grind)
  have e1 : ((1 : Int) : Rat) = 1 := rfl
  have e367 : ((367 : Int) : Rat) = 367 := rfl
  rw [e1, e367] at hbt
  refine ⟨hbt.1, hbt.2.1, hbt.2.2, ?_⟩
  have hrel := rndz_rel (T + 1) sg (Or.inr (by
    have : pow2 (-1022) ≤ 1 := by decide +kernel
    rw [absR_of_nonneg (by grind)]; grind)) hbt.1
  rw [absR_of_nonneg (show 0 ≤ T + 1 by grind)] at hrel
  -- exact value
  have hE0 : (0 : Rat) ≤ (d.val : Rat) / 86400000000000 := by
    rw [Rat.div_def]
    have : (0 : Rat) ≤ (d.val : Rat) := Rat.intCast_nonneg.mpr h0
    have := Rat.mul_le_mul_of_nonneg_right this (show (0 : Rat) ≤ (86400000000000 : Rat)⁻¹ by decide +kernel)
    grind
  unfold closeTo at herr ⊢
  rw [decide_eq_true_eq, absQ_eq_absR, absQ_eq_absR] at herr ⊢
  have e864 : ((86400000000000 : Int) : Rat) = 86400000000000 := rfl
  have efl : (1000000000 : Rat) / 86400000000000 = 1 / 86400 := by decide +kernel
  rw [e864, efl, absR_of_nonneg hE0] at herr
  rw [absR_of_nonneg (show (0 : Rat) ≤ (d.val : Rat) / 86400000000000 + 1 by grind)]
  have h8 : ((8 : Nat) : Rat) = 8 := rfl
  have h10 : ((10 : Nat) : Rat) = 10 := rfl
  rw [h8] at herr; rw [h10]
  have htri := absR_add_le (toRat (rndz (T + 1) sg) - (T + 1)) (T - (d.val : Rat) / 86400000000000)
  have : toRat (rndz (T + 1) sg) - (T + 1) + (T - (d.val : Rat) / 86400000000000) =
      toRat (rndz (T + 1) sg) - ((d.val : Rat) / 86400000000000 + 1) := by grind
  rw [this] at htri
  have hTE : T ≤ (d.val : Rat) / 86400000000000 + absR (T - (d.val : Rat) / 86400000000000) := by
    unfold absR; split <;> grind
  generalize (d.val : Rat) / 86400000000000 = E at *
  generalize absR (toRat (rndz (T + 1) sg) - (E + 1)) = A at *
  generalize absR (toRat (rndz (T + 1) sg) - (T + 1)) = B at *
  generalize absR (T - E) = C at *
  have : ¬ (E + 1 < 1) := by grind
  rw [if_neg this]
  split at herr <;> grind

/-- `day_of_year` is non-decreasing within the year -/
theorem dayOfYear_mono (d1 d2 : Dur) (h1 : d1.Canon) (h2 : d2.Canon) (h : d1.val ≤ d2.val) :
    F64.le (dayOfYear d1) (dayOfYear d2) = true := by
  obtain ⟨k1, _, _, _, _, _, _, k8, k9⟩ := cDay_facts
  have hok := fromSecOk_of_unit k1
  have p1 := toUnitWith_props cDay hok d1 h1
  have p2 := toUnitWith_props cDay hok d2 h2
  have hm := toRat_le_of_le p1.1 p2.1 (toUnitWith_mono cDay hok d1 d2 h1 h2 h)
  have e1 : dayOfYear d1 = F64.add (toUnitWith d1 cDay) one := rfl
  have e2 : dayOfYear d2 = F64.add (toUnitWith d2 cDay) one := rfl
  rw [e1, e2, add_finite p1.1 k9, add_finite p2.1 k9]
  exact le_rndz (by grind) _ _



/-! ### `Epoch + f64` (C04), code as repaired by 62d8753 -/

theorem sec_in_factors : (Gen.NANOSECONDS_PER_SECOND : Int) ∈ unitFactors := by
  rw [unitFactors_eq]; decide

theorem toI64_fits (x : F64) : fitsI64 (toI64 x) = true := by
  unfold toI64 fitsI64
  cases x with
  | nan => decide
  | inf s => cases s <;> decide
  | fin s m e => rw [toIntSat_fin]; simp only [decide_eq_true_eq]; split <;> (try split) <;> omega

/-- the saturating cast of an integer-valued double multiplied by 10^9 clamps like the integer itself -/
theorem clamp_sat_i64 (k : Int) :
    clampD ((if k < -9223372036854775808 then -9223372036854775808
             else if k > 9223372036854775807 then 9223372036854775807 else k) * 1000000000) =
    clampD (k * 1000000000) := by
  by_cases h1 : k < -9223372036854775808
  · rw [if_pos h1, clampD_lo (by omega), clampD_lo (by omega)]
  · rw [if_neg h1]
    by_cases h2 : k > 9223372036854775807
    · rw [if_pos h2, clampD_hi (by omega), clampD_hi (by omega)]
    · rw [if_neg h2]

/-- **whole seconds of ANY magnitude**: for every integer-valued canonical finite double x = k the
    result is exact and saturating: clampD (d + clampD (k·10^9)) — no 2^53 limit any more -/
theorem epochAddF_whole (d : Dur) (hd : d.Canon) (x : F64) (hw : x.wf = true) (hf : x.isFinite = true)
    (k : Int) (hk : toRat x = (k : Rat)) :
    (epochAddF d x).Canon ∧ (epochAddF d x).val = clampD (d.val + clampD (k * 1000000000)) := by
  obtain ⟨s, m, e, rfl⟩ := exists_fin_of_isFinite hf
  have hb := brk_of_int s m e hw k hk
  unfold epochAddF; rw [hb]; simp only [if_true]
  have hu := unitMulI64_spec Gen.NANOSECONDS_PER_SECOND (toI64 (fin s m e)) sec_in_factors (toI64_fits _)
  have ha := add_spec d _ hd hu.1
  refine ⟨ha.1, ?_⟩
  rw [ha.2, hu.2]
  have hcast : toI64 (fin s m e) = (if k < -9223372036854775808 then -9223372036854775808
      else if k > 9223372036854775807 then 9223372036854775807 else k) := by
    unfold toI64; rw [toIntSat_fin, hk, truncQ_intCast]
  rw [hcast]
  show clampD (d.val + clampD (_ * 1000000000)) = _
  rw [clamp_sat_i64]

/-- ±inf count as whole numbers (`inf.trunc() == inf`): the cast saturates, the sum saturates -/
theorem epochAddF_inf (d : Dur) (hd : d.Canon) :
    (epochAddF d (inf false)).val = clampD (d.val + DMAX) ∧ (epochAddF d (inf true)).val = clampD (d.val + DMIN) ∧
    (epochAddF d (inf false)).Canon ∧ (epochAddF d (inf true)).Canon := by
  have b1 : brk (inf false) = true := by decide
  have b2 : brk (inf true) = true := by decide
  have u1 := unitMulI64_spec Gen.NANOSECONDS_PER_SECOND (toI64 (inf false)) sec_in_factors (toI64_fits _)
  have u2 := unitMulI64_spec Gen.NANOSECONDS_PER_SECOND (toI64 (inf true)) sec_in_factors (toI64_fits _)
  have a1 := add_spec d _ hd u1.1
  have a2 := add_spec d _ hd u2.1
  unfold epochAddF; rw [b1, b2]; simp only [if_true]
  refine ⟨?_, ?_, a1.1, a2.1⟩
  · rw [a1.2, u1.2]; congr 2
  · rw [a2.2, u2.2]; congr 2

/-- a finite double that is NOT a whole number takes the float path: the elapsed time grows by the
    duration `x * Unit::Second` denotes, t = clampD (trunc (rnd (x·10^9))) (C18), saturating -/
theorem epochAddF_fractional (d : Dur) (hd : d.Canon) (x : F64) (hf : x.isFinite = true) (hb : brk x = false) :
    ∃ t, unitTimesF 1000000000 x = some t ∧ (epochAddF d x).Canon ∧ (epochAddF d x).val = clampD (d.val + t) := by
  obtain ⟨hc, hv⟩ := unitMulF64_gen secFac 1000000000 secFac_ok.1 x hf
  unfold epochAddF; rw [hb]; simp only [Bool.false_eq_true, if_false]
  have ha := add_spec d _ hd hc
  exact ⟨_, hv.symm, ha.1, ha.2⟩

/-- NaN adds nothing (float path, `NaN * Unit::Second` = ZERO); in every case the result is canonical:
    `Epoch + f64` never panics -/
theorem epochAddF_total (d : Dur) (hd : d.Canon) (x : F64) : (epochAddF d x).Canon := by
  unfold epochAddF
  by_cases hb : brk x = true
  · rw [hb]; simp only [if_true]
    exact (add_spec d _ hd (unitMulI64_spec _ _ sec_in_factors (toI64_fits x)).1).1
  · have hb' : brk x = false := by simpa using hb
    rw [hb']; simp only [Bool.false_eq_true, if_false]
    have hc : (unitMulF64 secFac x).Canon := by
      cases x with
      | fin s m e => exact (unitMulF64_gen secFac 1000000000 secFac_ok.1 _ rfl).1
      | inf s => cases s <;> (exfalso; revert hb'; decide)
      | nan =>
        have : unitMulF64 secFac nan = Dur.ZERO := by decide +kernel
        rw [this]; unfold Dur.ZERO Dur.Canon; simp only [NPC_eq]; decide
    exact (add_spec d _ hd hc).1

theorem epochAddF_nan (d : Dur) : epochAddF d nan = Dur.add d Dur.ZERO := by
  have : unitMulF64 secFac nan = Dur.ZERO := by decide +kernel
  unfold epochAddF
  have hb : brk nan = false := by decide
  rw [hb, this]; rfl

/-- whole UNIX seconds (float path of `from_unix_seconds`, not repaired): exact for |k| ≤ 4 611 686 018 -/
theorem fromUnixSeconds_integer (k : Int) (hk : -4611686018 ≤ k ∧ k ≤ 4611686018) :
    (fromUnixSecondsDur (F64.ofInt k)).val = 2208988800000000000 + k * 1000000000 := by
  obtain ⟨_, _, _, _, c5, _, _, _, _, v5⟩ := view_consts
  obtain ⟨xf, xv⟩ := ofInt_exact k (by omega)
  have hrep := rnd_exact_int_mul (k * 1000000000) (k.natAbs * 1953125) 9 (by omega)
    (by rw [Int.natAbs_mul]; have : (1000000000 : Int).natAbs = 1953125 * 2 ^ 9 := by decide
        rw [this, Nat.mul_assoc]) (by omega)
  have hw := rnd_wf ((k * 1000000000 : Int) : Rat)
  obtain ⟨hc, hv⟩ := unitMulF64_representable_gen secFac 1000000000 secFac_ok.1 (F64.ofInt k) xf
    (rnd ((k * 1000000000 : Int) : Rat)) hrep.1 hw (by rw [xv, hrep.2, Rat.intCast_mul])
  have ha := add_spec unixRef _ c5 hc
  show (Dur.add unixRef (unitMulF64 secFac (F64.ofInt k))).val = _
  rw [ha.2, v5]
  obtain ⟨s, m, e, hr⟩ := exists_fin_of_isFinite hrep.1
  rw [hr] at hv hrep
  rw [truncNs_fin, hrep.2, truncQ_intCast, clampD_mid (by omega) (by omega)] at hv
  have hval : (unitMulF64 secFac (F64.ofInt k)).val = k * 1000000000 := Option.some.inj hv
  rw [hval, clampD_mid (by omega) (by omega)]


end Hifi
