import Hifi.Model.Efmt
import Hifi.Spec.Efmt
import Hifi.Lemmas.Calendar
/-
  Lemmas for the formatting properties C19 / C13F.

  Part A  `Format::from_str`: never panics, at most 16 items, inverse of the spec's reading of a format string.
  Part B  `impl Display for Formatter`: the output is the token texts joined by the separators.
  Part C  `Format::parse`: never panics (the index, slice, conversion and arithmetic sites are unreachable or errors).
  Part D  parse-back for the numeric-token class.
-/
namespace Hifi.Efmt
open Hifi Hifi.Spec

/-! ## Part A: Format::from_str -/

theorem fromStrGo_spec (ps : List (List Nat)) : ∀ n, n ≤ MAX_TOKENS →
    fromStrGo ps n = .err ∨ ∃ is, fromStrGo ps n = .ok is ∧ n + is.length ≤ MAX_TOKENS := by
  induction ps with
  | nil => intro n hn; right; exact ⟨[], rfl, by simpa using hn⟩
  | cons p rest ih =>
    intro n hn
    cases p with
    | nil => simpa [fromStrGo] using ih n hn
    | cons c tl =>
      unfold fromStrGo
      by_cases h16 : n = MAX_TOKENS
      · left; rw [if_pos h16]
      · rw [if_neg h16]
        cases hc : Token.ofChar? c with
        | none => left; rfl
        | some t =>
          simp only
          have hn' : n + 1 ≤ MAX_TOKENS := by omega
          rcases ih (n + 1) hn' with h | ⟨is, h, hl⟩
          · left; rw [h]
          · right; rw [h]; exact ⟨_, rfl, by simp only [List.length_cons]; omega⟩

/-- `Format::from_str` never panics and never builds more than `MAX_TOKENS` items -/
theorem formatFromStr_spec (s : List Nat) :
    formatFromStr s = .err ∨ ∃ f, formatFromStr s = .ok f ∧ f.wf = true := by
  unfold formatFromStr
  rcases fromStrGo_spec (splitPct s) 0 (by decide) with h | ⟨is, h, hl⟩
  · left; rw [h]
  · right; rw [h]; exact ⟨⟨is⟩, rfl, by unfold Format.wf; simpa using hl⟩

/-! ## Part B: impl Display for Formatter -/

/-- the tokens property C19 speaks of: Y m d H M S f j A a B b T z -/
def Token.supported : Token → Bool
  | .Year | .Month | .Day | .Hour | .Minute | .Second | .Subsecond | .DayOfYearInteger
  | .Weekday | .WeekdayShort | .MonthName | .MonthNameShort | .Timescale | .OffsetHours => true
  | _ => false

/-- what a supported token prints, from the Gregorian fields, the epoch, the offset text `zt` and the
    day of year `doy` -/
def tokBytes (t : Token) (y mo d h mi s ns : Int) (e : Ep) (zt : List Nat) (doy : Int) : List Nat :=
  match t with
  | .Year => Cal.fmtInt 4 y
  | .Month => Cal.fmtInt 2 mo
  | .Day => Cal.fmtInt 2 d
  | .Hour => Cal.fmtInt 2 h
  | .Minute => Cal.fmtInt 2 mi
  | .Second => Cal.fmtInt 2 s
  | .Subsecond => Cal.fmtInt 9 ns
  | .DayOfYearInteger => Cal.fmtInt 3 doy
  | .Weekday => weekdayLong (weekdayOfDate e)
  | .WeekdayShort => weekdayShort (weekdayOfDate e)
  | .MonthName => monthLong mo
  | .MonthNameShort => monthShort mo
  | .Timescale => Cal.strCodes e.ts.name
  | .OffsetHours => zt
  | _ => []

theorem tokText_supported (O : Oracles) (it : Item) (y mo d h mi s ns : Int) (e : Ep) (off : Dur)
    (zt : List Nat) (doy : Int)
    (hs : Token.supported it.token = true) (ho : it.optional = false)
    (hz : offsetText off = .ok zt) (hd : dayOfYearInt e = .ok doy) :
    tokText O it y mo d h mi s ns e off = .ok (some (tokBytes it.token y mo d h mi s ns e zt doy)) := by
  unfold tokText tokBytes
  cases ht : it.token <;> simp_all [Token.supported]

/-- tokens joined the way the loop writes them: before each token the separators of the previous item -/
def joinItems (T : Item → List Nat) : List Item → List Nat → List Nat
  | [], _ => []
  | it :: rest, prev => prev ++ T it ++ joinItems T rest it.sepText

/-- … which is: token, its separators, next token, …, last token (the separators of the last item are
    never written) -/
def concatItems (T : Item → List Nat) : List Item → List Nat
  | [] => []
  | [it] => T it
  | it :: it2 :: rest => T it ++ it.sepText ++ concatItems T (it2 :: rest)

theorem joinItems_eq (T : Item → List Nat) : ∀ (items : List Item) (prev : List Nat), items ≠ [] →
    joinItems T items prev = prev ++ concatItems T items
  | [], _, h => absurd rfl h
  | [it], prev, _ => by simp [joinItems, concatItems]
  | it :: it2 :: rest, prev, _ => by
    rw [joinItems, joinItems_eq T (it2 :: rest) it.sepText (by simp), concatItems]
    simp [List.append_assoc]

theorem gregGo_join (O : Oracles) (y mo d h mi s ns : Int) (e : Ep) (off : Dur) (T : Item → List Nat) :
    ∀ (items : List Item) (prev : List Nat),
      (∀ it ∈ items, tokText O it y mo d h mi s ns e off = .ok (some (T it))) →
      gregGo O y mo d h mi s ns e off items prev = .ok (joinItems T items prev)
  | [], _, _ => rfl
  | it :: rest, prev, hall => by
    unfold gregGo
    rw [hall it (by simp)]
    simp only
    rw [gregGo_join O y mo d h mi s ns e off T rest it.sepText (fun i hi => hall i (by simp [hi]))]
    rfl

/-- in a format without Gregorian tokens every token has an arm in the second branch -/
theorem plainTok_eq (O : Oracles) (it : Item) (e : Ep) (off : Dur) (h : it.token.needsGregorian = false) :
    plainTok O it e off = tokText O it 0 0 0 0 0 0 0 e off ∨
    (it.token = .OffsetHours ∨ it.token = .OffsetMinutes) := by
  unfold plainTok
  cases ht : it.token <;> simp_all [Token.needsGregorian]

theorem plainGo_join (O : Oracles) (e : Ep) (off : Dur) (T : Item → List Nat) :
    ∀ (items : List Item) (prev : List Nat),
      (∀ it ∈ items, plainTok O it e off = .ok (some (T it))) →
      plainGo O e off items prev = .ok (joinItems T items prev)
  | [], _, _ => rfl
  | it :: rest, prev, hall => by
    unfold plainGo
    rw [hall it (by simp)]
    simp only
    rw [plainGo_join O e off T rest it.sepText (fun i hi => hall i (by simp [hi]))]
    rfl

/-- the texts of the tokens without Gregorian fields do not depend on the field arguments -/
theorem plainTok_supported (O : Oracles) (it : Item) (y mo d h mi s ns : Int) (e : Ep) (off : Dur)
    (zt : List Nat) (doy : Int)
    (hs : Token.supported it.token = true) (hg : it.token.needsGregorian = false) (ho : it.optional = false)
    (hd : dayOfYearInt e = .ok doy) :
    plainTok O it e off = .ok (some (tokBytes it.token y mo d h mi s ns e zt doy)) := by
  unfold plainTok tokText tokBytes
  cases ht : it.token <;> simp_all [Token.supported, Token.needsGregorian]

/-- FORMATTER OUTPUT (model level).  For a format of supported, non-optional tokens — whichever of the
    two branches of `Formatter::fmt` it takes — the text is: token, separators, token, …, token, each
    token printing `tokBytes` of the epoch's Gregorian fields. -/
theorem formatterFmt_concat (O : Oracles) (f : Format) (e : Ep) (off : Dur)
    (y mo d h mi s ns : Int) (zt : List Nat) (doy : Int)
    (hne : f.items ≠ [])
    (hall : ∀ it ∈ f.items, Token.supported it.token = true ∧ it.optional = false)
    (hg : Cal.computeGregorian e.dur e.ts = .ok (y, mo, d, h, mi, s, ns))
    (hz : offsetText off = .ok zt) (hd : dayOfYearInt e = .ok doy) :
    formatterFmt O f e off =
      .ok (concatItems (fun it => tokBytes it.token y mo d h mi s ns e zt doy) f.items) := by
  unfold formatterFmt
  by_cases hng : f.needGregorian = true
  · rw [if_pos hng, hg]
    simp only
    rw [gregGo_join O y mo d h mi s ns e off (fun it => tokBytes it.token y mo d h mi s ns e zt doy) f.items []
      (fun it hi => tokText_supported O it y mo d h mi s ns e off zt doy (hall it hi).1 (hall it hi).2 hz hd)]
    rw [joinItems_eq _ _ _ hne]; rfl
  · rw [if_neg hng]
    have hnone : ∀ it ∈ f.items, it.token.needsGregorian = false := by
      intro it hi
      unfold Format.needGregorian at hng
      rw [List.any_eq_true] at hng
      cases hb : it.token.needsGregorian with
      | false => rfl
      | true => exact absurd ⟨it, hi, hb⟩ hng
    rw [plainGo_join O e off (fun it => tokBytes it.token y mo d h mi s ns e zt doy) f.items []
      (fun it hi => plainTok_supported O it y mo d h mi s ns e off zt doy (hall it hi).1 (hnone it hi) (hall it hi).2 hd)]
    rw [joinItems_eq _ _ _ hne]; rfl

/-! ### the formatter never panics -/

theorem tokText_no_panic (O : Oracles) (it : Item) (y mo d h mi s ns : Int) (e : Ep) (off : Dur)
    (hz : offsetText off ≠ .panic) (hd : dayOfYearInt e ≠ .panic) :
    tokText O it y mo d h mi s ns e off ≠ .panic := by
  unfold tokText
  cases ht : it.token <;> simp only [] <;> (try split) <;> simp_all

theorem gregGo_no_panic (O : Oracles) (y mo d h mi s ns : Int) (e : Ep) (off : Dur)
    (hz : offsetText off ≠ .panic) (hd : dayOfYearInt e ≠ .panic) :
    ∀ (items : List Item) (prev : List Nat), gregGo O y mo d h mi s ns e off items prev ≠ .panic
  | [], _ => by simp [gregGo]
  | it :: rest, prev => by
    unfold gregGo
    have h1 := tokText_no_panic O it y mo d h mi s ns e off hz hd
    have h2 := gregGo_no_panic O y mo d h mi s ns e off hz hd rest it.sepText
    split
    · exact h2
    · split <;> simp_all
    · simp
    · simp_all

theorem plainTok_no_panic (O : Oracles) (it : Item) (e : Ep) (off : Dur)
    (hg : it.token.needsGregorian = false)
    (hz : offsetText off ≠ .panic) (hd : dayOfYearInt e ≠ .panic) :
    plainTok O it e off ≠ .panic := by
  have := tokText_no_panic O it 0 0 0 0 0 0 0 e off hz hd
  unfold plainTok
  cases ht : it.token <;> simp_all [Token.needsGregorian]

theorem plainGo_no_panic (O : Oracles) (e : Ep) (off : Dur)
    (hz : offsetText off ≠ .panic) (hd : dayOfYearInt e ≠ .panic) :
    ∀ (items : List Item) (prev : List Nat), (∀ it ∈ items, it.token.needsGregorian = false) →
      plainGo O e off items prev ≠ .panic
  | [], _, _ => by simp [plainGo]
  | it :: rest, prev, hall => by
    unfold plainGo
    have h1 := plainTok_no_panic O it e off (hall it (by simp)) hz hd
    have h2 := plainGo_no_panic O e off hz hd rest it.sepText (fun i hi => hall i (by simp [hi]))
    split
    · exact h2
    · split <;> simp_all
    · simp
    · simp_all

/-- `impl Display for Formatter` panics only if one of the three computations it relies on does
    (Gregorian fields, day of year, decomposition of the offset) — in particular the
    `unreachable!()` of the second branch is unreachable -/
theorem formatterFmt_no_panic (O : Oracles) (f : Format) (e : Ep) (off : Dur)
    (hg : Cal.computeGregorian e.dur e.ts ≠ .panic)
    (hz : offsetText off ≠ .panic) (hd : dayOfYearInt e ≠ .panic) :
    formatterFmt O f e off ≠ .panic := by
  unfold formatterFmt
  by_cases hng : f.needGregorian = true
  · rw [if_pos hng]
    split
    · exact gregGo_no_panic O _ _ _ _ _ _ _ e off hz hd _ _
    · simp
    · simp_all
  · rw [if_neg hng]
    apply plainGo_no_panic O e off hz hd
    intro it hi
    unfold Format.needGregorian at hng
    rw [List.any_eq_true] at hng
    cases hb : it.token.needsGregorian with
    | false => rfl
    | true => exact absurd ⟨it, hi, hb⟩ hng

/-! ### the three computations on canonical epochs in range -/

theorem NPD_eq' : Gen.NANOSECONDS_PER_DAY = 86400000000000 := rfl

/-- the day of year is `(day number of the date) − (day number of 1 January) + 1` -/
theorem dayOfYearInt_spec (e : Ep) (hd : e.dur.Canon) (hr : Cal.InCal e.dur.val) :
    ∃ y mo dd h mi s ns, Cal.computeGregorian e.dur e.ts = .ok (y, mo, dd, h, mi, s, ns) ∧
      dayOfYearInt e = .ok (dayNumber ⟨y, mo, dd⟩ - dayNumber ⟨y, 1, 1⟩ + 1) := by
  obtain ⟨y, mo, dd, h, mi, s, ns, r, hg, hdy, hc, hv⟩ := Cal.durationInYear_spec e.dur e.ts hd hr
  obtain ⟨y', mo', dd', h', mi', s', ns', hg', hval, _, _, a1, a2, a3, a4, a5, a6, a7, a8, _⟩ :=
    Cal.computeGregorian_spec e.dur e.ts hd hr
  rw [hg] at hg'
  simp only [Res.ok.injEq, Prod.mk.injEq] at hg'
  obtain ⟨rfl, rfl, rfl, rfl, rfl, rfl, rfl⟩ := hg'
  have hiy := Cal.dayNumber_in_year y mo dd hval
  refine ⟨y, mo, dd, h, mi, s, ns, hg, ?_⟩
  unfold dayOfYearInt
  rw [hdy]
  simp only [Res.ok.injEq]
  -- `total_nanoseconds` of a non-negative canonical duration is its value
  have hnn : 0 ≤ r.val := by rw [hv]; omega
  obtain ⟨c1, c2, c3, c4⟩ := hc
  have htot : Dur.totalNs r = r.val := by
    unfold Dur.totalNs Dur.val valP
    unfold Dur.val valP at hnn
    simp only [NPC_eq, NPCs_eq] at *
    have : ¬ r.c = -1 := by omega
    have : r.c ≥ 0 := by omega
    simp [*]
  rw [htot, hv]
  have hN : Cal.NPD = 86400000000000 := rfl
  rw [hN, Int.tdiv_eq_ediv_of_nonneg (by omega)]
  omega

/-! ### the fields the formatter prints are THE fields of the specification -/


theorem NPDs_eq' : NPDs = 86400000000000 := by decide

/-- the searched-and-certified fields of the driver's spec are THE fields -/
theorem fieldsOf_sound (scale : String) (v : Int) (F : Spec.Efmt.Fields) (h : Spec.Efmt.fieldsOf scale v = some F) :
    Spec.Efmt.IsFields scale v F := by
  unfold Spec.Efmt.fieldsOf at h
  simp only at h
  split at h
  · rename_i hc
    simp at h; subst h
    unfold certifiesDate at hc
    simp only [Bool.and_eq_true, decide_eq_true_eq] at hc
    unfold Spec.Efmt.IsFields elapsedNs timeOfDay
    simp only [NPDs_eq'] at hc ⊢
    have hdn : dayNumber ⟨(dateOfDayNumber ((v + refOffsetNs scale) / 86400000000000)).y,
        (dateOfDayNumber ((v + refOffsetNs scale) / 86400000000000)).m,
        (dateOfDayNumber ((v + refOffsetNs scale) / 86400000000000)).d⟩ = (v + refOffsetNs scale) / 86400000000000 := hc.2
    refine ⟨hc.1, ?_⟩
    rw [hdn]
    have h1 : (v + refOffsetNs scale) % 86400000000000 + 86400000000000 * ((v + refOffsetNs scale) / 86400000000000) = v + refOffsetNs scale := by omega
    have h2 := Int.emod_nonneg (v + refOffsetNs scale) (by decide : (86400000000000:Int) ≠ 0)
    have h3 := Int.emod_lt_of_pos (v + refOffsetNs scale) (by decide : (0:Int) < 86400000000000)
    generalize (v + refOffsetNs scale) % 86400000000000 = t at *
    generalize (v + refOffsetNs scale) / 86400000000000 = n at *
    refine ⟨by omega, by omega, by omega, by omega, by omega, by omega, by omega, by omega, by omega, rfl, rfl, trivial⟩
  · simp at h

theorem weekdayOfDate_spec (e : Ep) (hd : e.dur.Canon) (hr : Cal.InCal e.dur.val)
    (y mo dd h mi s ns : Int)
    (hv : 0 ≤ h ∧ h < 24 ∧ 0 ≤ mi ∧ mi < 60 ∧ 0 ≤ s ∧ s < 60 ∧ 0 ≤ ns ∧ ns < 1000000000)
    (hval : dayNumber ⟨y, mo, dd⟩ * 86400000000000 + h * 3600000000000 + mi * 60000000000 + s * 1000000000 + ns
        - refOffsetNs e.ts.name = e.dur.val) :
    weekdayOfDate e = dayNumber ⟨y, mo, dd⟩ % 7 := by
  unfold Cal.InCal at hr
  have hoff := Cal.gregOff_val e.ts
  have hor := Cal.refOffset_range e.ts
  have hw := Cal.add_val e.dur _ hd hoff.1 (by unfold Cal.InR; rw [hoff.2]; omega)
  rw [hoff.2] at hw
  unfold weekdayOfDate weekdayOfDur
  obtain ⟨⟨c1, c2, c3, c4⟩, hwv⟩ := hw
  have hw2 : (e.dur.add (Cal.gregorianEpochOffset e.ts)).val =
      (e.dur.add (Cal.gregorianEpochOffset e.ts)).c * 3155760000000000000 + (e.dur.add (Cal.gregorianEpochOffset e.ts)).ns := by
    unfold Dur.val valP; rw [NPCs_eq]
  rw [hw2] at hwv
  have hD : Gen.DAYS_PER_CENTURY_I64 = 36525 := rfl
  have hN : Gen.NANOSECONDS_PER_DAY = 86400000000000 := rfl
  rw [hD, hN]
  simp only [NPC_eq] at *
  generalize (e.dur.add (Cal.gregorianEpochOffset e.ts)).c = wc at *
  generalize (e.dur.add (Cal.gregorianEpochOffset e.ts)).ns = wns at *
  generalize dayNumber ⟨y, mo, dd⟩ = dn at *
  generalize refOffsetNs e.ts.name = ro at *
  generalize e.dur.val = ev at *
  have : wc * 36525 + wns / 86400000000000 = dn := by omega
  rw [this]

/-- the Gregorian fields, the weekday and the day of year the formatter uses are the fields of the
    epoch in the sense of the specification (`Spec.Efmt.IsFields`), for every canonical epoch in range
    and every time scale -/
theorem model_fields_spec (e : Ep) (hd : e.dur.Canon) (hr : Cal.InCal e.dur.val) :
    ∃ y mo dd h mi s ns doy, Cal.computeGregorian e.dur e.ts = .ok (y, mo, dd, h, mi, s, ns) ∧
      dayOfYearInt e = .ok doy ∧
      Spec.Efmt.IsFields e.ts.name e.dur.val ⟨y, mo, dd, h, mi, s, ns, weekdayOfDate e, doy, e.ts.name⟩ := by
  obtain ⟨y, mo, dd, h, mi, s, ns, hg, hdoy⟩ := dayOfYearInt_spec e hd hr
  obtain ⟨y', mo', dd', h', mi', s', ns', hg', hval, _, _, a1, a2, a3, a4, a5, a6, a7, a8, hv⟩ :=
    Cal.computeGregorian_spec e.dur e.ts hd hr
  rw [hg] at hg'
  simp only [Res.ok.injEq, Prod.mk.injEq] at hg'
  obtain ⟨rfl, rfl, rfl, rfl, rfl, rfl, rfl⟩ := hg'
  refine ⟨y, mo, dd, h, mi, s, ns, _, hg, hdoy, ?_⟩
  have hw := weekdayOfDate_spec e hd hr y mo dd h mi s ns ⟨a1, a2, a3, a4, a5, a6, a7, a8⟩ hv
  unfold Spec.Efmt.IsFields elapsedNs timeOfDay
  rw [NPDs_eq']
  dsimp only
  exact ⟨hval, a1, a2, a3, a4, a5, a6, a7, a8, by omega, hw, rfl, rfl⟩

/-! ### the token texts are the texts of the specification -/

/-- the format letter of a supported token -/
def Token.letter : Token → Nat
  | .Year => 89 | .Month => 109 | .Day => 100 | .Hour => 72 | .Minute => 77 | .Second => 83
  | .Subsecond => 102 | .DayOfYearInteger => 106 | .Weekday => 65 | .WeekdayShort => 97
  | .MonthName => 66 | .MonthNameShort => 98 | .Timescale => 84 | .OffsetHours => 122
  | _ => 0

theorem fmtNat3 (n : Nat) (h : n < 1000) : Cal.fmtNat 3 n = [48 + n / 100 % 10, 48 + n / 10 % 10, 48 + n % 10] := by
  have h0 : n / 1000 = 0 := by omega
  simp [Cal.fmtNat, Nat.div_div_eq_div_mul, h0]

theorem fmtInt3_eq (v : Int) (h : 0 ≤ v ∧ v < 1000) : Cal.fmtInt 3 v = Spec.Efmt.dig3 v := by
  unfold Cal.fmtInt Spec.Efmt.dig3 dig
  rw [if_neg (by omega), fmtNat3 v.toNat (by omega)]
  have e3 : v.toNat % 10 = (v % 10).toNat := by omega
  have e1 : v.toNat / 100 % 10 = (v / 100 % 10).toNat := Cal.dig_toNat v 100 h.1
  have e2 : v.toNat / 10 % 10 = (v / 10 % 10).toNat := Cal.dig_toNat v 10 h.1
  rw [e1, e2, e3]

theorem doy_range (y mo d : Int) (hv : validDate ⟨y, mo, d⟩ = true) :
    1 ≤ dayNumber ⟨y, mo, d⟩ - dayNumber ⟨y, 1, 1⟩ + 1 ∧ dayNumber ⟨y, mo, d⟩ - dayNumber ⟨y, 1, 1⟩ + 1 ≤ 366 := by
  have hiy := Cal.dayNumber_in_year y mo d hv
  have hs1 := Cal.jan1_succ y
  have hd1 := Cal.modelDay_eq_dayNumber y 1 1 (by omega) (by omega)
  have hd2 := Cal.modelDay_eq_dayNumber (y + 1) 1 1 (by omega) (by omega)
  rw [Cal.cumulAt_eq y 1 (by omega) (by omega)] at hd1
  rw [Cal.cumulAt_eq (y + 1) 1 (by omega) (by omega)] at hd2
  unfold Cal.cumCommon at hd1 hd2
  simp at hd1 hd2
  have hyl : Cal.yearLen y ≤ 366 := by unfold Cal.yearLen; split <;> omega
  omega

theorem weekday_tables :
    ∀ k : Nat, k < 7 → weekdayLong (k : Int) = Spec.Efmt.codes (Spec.Efmt.weekdayNames.getD k "") ∧
      weekdayShort (k : Int) = Spec.Efmt.short (Spec.Efmt.weekdayNames.getD k "") := by decide +kernel

theorem month_tables :
    ∀ k : Nat, k < 12 → monthLong ((k : Int) + 1) = Spec.Efmt.codes (Spec.monthNames.getD k "") ∧
      monthShort ((k : Int) + 1) = Spec.Efmt.short (Spec.monthNames.getD k "") := by decide +kernel


theorem tokenText_z (F : Spec.Efmt.Fields) (off : Int) :
    Spec.Efmt.tokenText 122 F off =
      (if off % 60000000000 = 0 ∧ -86400000000000 < off ∧ off < 86400000000000 then
        some ((if off < 0 then [45] else [43]) ++ dig2 (off.natAbs / 3600000000000) ++ [58]
              ++ dig2 (off.natAbs / 60000000000 % 60))
      else none) := by
  unfold Spec.Efmt.tokenText
  simp

/-- `%z`: for an offset of whole minutes within ±23:59 the formatter prints sign, two-digit hours, `:`,
    two-digit minutes — the text of the specification -/
theorem offsetText_spec (off : Dur) (F : Spec.Efmt.Fields) (hc : off.Canon) (hm : off.val % 60000000000 = 0)
    (hr : -86400000000000 < off.val ∧ off.val < 86400000000000) :
    ∃ zt, offsetText off = .ok zt ∧ Spec.Efmt.tokenText 122 F off.val = some zt := by
  rw [tokenText_z, if_pos (And.intro hm hr)]
  unfold offsetText
  rw [Cal.decompose_spec off hc]
  have hsg := Cal.signum_neg_iff off hc
  generalize off.val = v at *
  by_cases hneg : v < 0
  · have hs : ¬ (Dur.signum off ≥ 0) := by have := hsg.mpr hneg; omega
    have e1 : ¬ ((-v) / 86400000000000 > 0) := by omega
    have e2 : ¬ ((-v) % 86400000000000 % 3600000000000 % 60000000000 / 1000000000 > 0) := by omega
    have a1 : (-v) % 86400000000000 / 3600000000000 = ((v.natAbs / 3600000000000 : Nat) : Int) := by omega
    have a2 : (-v) % 86400000000000 % 3600000000000 / 60000000000 = ((v.natAbs / 60000000000 % 60 : Nat) : Int) := by omega
    simp only [if_pos hneg, if_neg hs, if_neg e1, if_neg e2]
    refine ⟨_, rfl, ?_⟩
    rw [Cal.fmtInt2_eq _ (by omega), Cal.fmtInt2_eq _ (by omega), a1, a2]
    simp
  · have hs : Dur.signum off ≥ 0 := by
      have : ¬ (Dur.signum off < 0) := fun h => hneg (hsg.mp h)
      omega
    have e1 : ¬ (v / 86400000000000 > 0) := by omega
    have e2 : ¬ (v % 86400000000000 % 3600000000000 % 60000000000 / 1000000000 > 0) := by omega
    have a1 : v % 86400000000000 / 3600000000000 = ((v.natAbs / 3600000000000 : Nat) : Int) := by omega
    have a2 : v % 86400000000000 % 3600000000000 / 60000000000 = ((v.natAbs / 60000000000 % 60 : Nat) : Int) := by omega
    simp only [if_neg hneg, if_pos hs, if_neg e1, if_neg e2]
    refine ⟨_, rfl, ?_⟩
    rw [Cal.fmtInt2_eq _ (by omega), Cal.fmtInt2_eq _ (by omega), a1, a2]
    simp


/-- TOKEN TEXTS.  For fields `F` of an epoch (in the sense of the specification) with a year in
    0000–9999, every supported token prints exactly the text the specification demands for its letter -/
theorem tokBytes_spec (t : Token) (hs : Token.supported t = true) (scale : String) (v : Int)
    (F : Spec.Efmt.Fields) (hF : Spec.Efmt.IsFields scale v F) (hy : 0 ≤ F.y ∧ F.y ≤ 9999)
    (e : Ep) (he : e.ts.name = scale) (hwd : weekdayOfDate e = F.wd)
    (zt : List Nat) (off : Int) (hz : Spec.Efmt.tokenText 122 F off = some zt) :
    Spec.Efmt.tokenText t.letter F off = some (tokBytes t F.y F.mo F.d F.h F.mi F.s F.ns e zt F.doy) := by
  obtain ⟨hv, h1, h2, m1, m2, s1, s2, n1, n2, _, hw, hdoy, hsc⟩ := hF
  have hv' := (Cal.validDate_iff _).mp hv
  simp only at hv'
  have hml := Cal.monthLen_range F.y F.mo hv'.1 hv'.2.1
  have hdr := doy_range F.y F.mo F.d hv
  rw [← hdoy] at hdr
  have hwr : 0 ≤ F.wd ∧ F.wd < 7 := by rw [hw]; omega
  cases t <;> simp [Token.supported] at hs
  case Year => simp [Token.letter, Spec.Efmt.tokenText, tokBytes, hy, Cal.fmtInt4_eq F.y hy]
  case Month => simp [Token.letter, Spec.Efmt.tokenText, tokBytes, Cal.fmtInt2_eq F.mo (by omega)]
  case Day => simp [Token.letter, Spec.Efmt.tokenText, tokBytes, Cal.fmtInt2_eq F.d (by omega)]
  case Hour => simp [Token.letter, Spec.Efmt.tokenText, tokBytes, Cal.fmtInt2_eq F.h (by omega)]
  case Minute => simp [Token.letter, Spec.Efmt.tokenText, tokBytes, Cal.fmtInt2_eq F.mi (by omega)]
  case Second => simp [Token.letter, Spec.Efmt.tokenText, tokBytes, Cal.fmtInt2_eq F.s (by omega)]
  case Subsecond => simp [Token.letter, Spec.Efmt.tokenText, tokBytes, Cal.fmtInt9_eq F.ns (by omega)]
  case DayOfYearInteger => simp [Token.letter, Spec.Efmt.tokenText, tokBytes, fmtInt3_eq F.doy (by omega)]
  case Weekday =>
    obtain ⟨k, hk⟩ : ∃ k : Nat, F.wd = (k : Int) := ⟨F.wd.toNat, by omega⟩
    have := (weekday_tables k (by omega)).1
    simp [Token.letter, Spec.Efmt.tokenText, tokBytes, hwd, hk, this]
  case WeekdayShort =>
    obtain ⟨k, hk⟩ : ∃ k : Nat, F.wd = (k : Int) := ⟨F.wd.toNat, by omega⟩
    have := (weekday_tables k (by omega)).2
    simp [Token.letter, Spec.Efmt.tokenText, tokBytes, hwd, hk, this]
  case MonthName =>
    obtain ⟨k, hk⟩ : ∃ k : Nat, F.mo = (k : Int) + 1 := ⟨(F.mo - 1).toNat, by omega⟩
    have := (month_tables k (by omega)).1
    simp [Token.letter, Spec.Efmt.tokenText, tokBytes, hk, this]
  case MonthNameShort =>
    obtain ⟨k, hk⟩ : ∃ k : Nat, F.mo = (k : Int) + 1 := ⟨(F.mo - 1).toNat, by omega⟩
    have := (month_tables k (by omega)).2
    simp [Token.letter, Spec.Efmt.tokenText, tokBytes, hk, this]
  case Timescale =>
    simp [Token.letter, Spec.Efmt.tokenText, tokBytes, he, hsc, Cal.strCodes, Spec.Efmt.codes]
  case OffsetHours =>
    simp only [Token.letter, tokBytes]; exact hz

/-! ### `Format::from_str` inverts the specification's reading of a format string -/

/-- the token of a format letter (supported letters; anything else `Year`) -/
def Token.ofLetter (c : Nat) : Token :=
  if c = 109 then .Month else if c = 100 then .Day else if c = 72 then .Hour else if c = 77 then .Minute
  else if c = 83 then .Second else if c = 102 then .Subsecond else if c = 106 then .DayOfYearInteger
  else if c = 65 then .Weekday else if c = 97 then .WeekdayShort else if c = 66 then .MonthName
  else if c = 98 then .MonthNameShort else if c = 84 then .Timescale else if c = 122 then .OffsetHours else .Year

/-- the `Item` the code builds for an item of the specification's reading of a format string -/
def itemOfSpec (it : Spec.Efmt.SItem) : Item := ⟨Token.ofLetter it.letter, it.seps[0]?, it.seps[1]?, false⟩

theorem supported_letters (c : Nat) (h : Spec.Efmt.supported c = true) :
    Token.ofChar? c = some (Token.ofLetter c) ∧ Token.supported (Token.ofLetter c) = true ∧
    (Token.ofLetter c).letter = c := by
  have : c = 89 ∨ c = 109 ∨ c = 100 ∨ c = 72 ∨ c = 77 ∨ c = 83 ∨ c = 102 ∨ c = 106 ∨ c = 65 ∨ c = 97 ∨ c = 66 ∨
      c = 98 ∨ c = 84 ∨ c = 122 := by
    unfold Spec.Efmt.supported at h
    simp at h
    omega
  rcases this with h | h | h | h | h | h | h | h | h | h | h | h | h | h <;> subst h <;> decide +kernel

theorem splitPct_eq (s : List Nat) : splitPct s = Spec.Efmt.splitAt37 s := by
  induction s with
  | nil => rfl
  | cons c cs ih => unfold splitPct Spec.Efmt.splitAt37; rw [ih]; rfl

/-- `Item::new` on separators without a `?` keeps them as they are -/
theorem itemNew_plain (t : Token) (rest : List Nat) (h63 : rest.contains 63 = false) (hl : rest.length ≤ 2) :
    Item.new t rest[0]? rest[1]? = ⟨t, rest[0]?, rest[1]?, false⟩ := by
  match rest, h63, hl with
  | [], _, _ => simp [Item.new]
  | [a], h63, _ =>
    have : a ≠ 63 := by intro h; subst h; simp at h63
    simp [Item.new, this]
  | [a, b], h63, _ =>
    have h1 : a ≠ 63 := by intro h; subst h; simp at h63
    have h2 : b ≠ 63 := by intro h; subst h; simp at h63
    simp [Item.new, h1, h2]

theorem readPiece_spec (p : List Nat) (it : Spec.Efmt.SItem) (h : Spec.Efmt.readPiece p = some it)
    (ho : it.optional = false) :
    ∃ c rest, p = c :: rest ∧ Spec.Efmt.supported c = true ∧ rest.length ≤ 2 ∧ rest.contains 63 = false ∧
      it = ⟨c, rest, false⟩ := by
  match p, h with
  | [], h => simp [Spec.Efmt.readPiece] at h
  | c :: rest, h =>
    simp only [Spec.Efmt.readPiece] at h
    split at h
    · rename_i hc
      simp only [Option.some.injEq] at h
      subst h
      simp only at ho
      refine ⟨c, rest, rfl, hc.1, hc.2.1, ho, ?_⟩
      have hf : List.filter (fun x => decide (x ≠ 63)) rest = rest := by
        apply List.filter_eq_self.mpr
        intro a ha
        have : a ≠ 63 := by
          intro h63; subst h63
          have := List.contains_iff_mem.mpr ha
          rw [this] at ho; exact absurd ho (by decide)
        simpa using this
      rw [hf, ho]
    · exact absurd h (by simp)

theorem fromStrGo_spec_items : ∀ (pieces : List (List Nat)) (items : List Spec.Efmt.SItem) (n : Nat),
    Spec.Efmt.readPieces pieces = some items → (∀ it ∈ items, it.optional = false) →
    n + pieces.length ≤ MAX_TOKENS →
    fromStrGo pieces n = .ok (items.map itemOfSpec)
  | [], items, n, h, _, _ => by
    simp [Spec.Efmt.readPieces] at h; subst h; rfl
  | p :: ps, items, n, h, hopt, hn => by
    unfold Spec.Efmt.readPieces at h
    cases hp : Spec.Efmt.readPiece p with
    | none => rw [hp] at h; simp at h
    | some it =>
      cases hps : Spec.Efmt.readPieces ps with
      | none => rw [hp, hps] at h; simp at h
      | some r =>
        rw [hp, hps] at h; simp at h; subst h
        obtain ⟨c, rest, rfl, hsup, hlen, h63, rfl⟩ := readPiece_spec p it hp (hopt it (by simp))
        have ih := fromStrGo_spec_items ps r (n + 1) hps (fun i hi => hopt i (by simp [hi]))
          (by simp only [List.length_cons] at hn; omega)
        unfold fromStrGo
        have hn16 : ¬ n = MAX_TOKENS := by simp only [List.length_cons] at hn; omega
        rw [if_neg hn16, (supported_letters c hsup).1]
        simp only
        rw [ih, itemNew_plain _ rest h63 hlen]
        simp [itemOfSpec]


theorem readPieces_props : ∀ (pieces : List (List Nat)) (items : List Spec.Efmt.SItem),
    Spec.Efmt.readPieces pieces = some items →
    items.length = pieces.length ∧ ∀ it ∈ items, Spec.Efmt.supported it.letter = true ∧ it.seps.length ≤ 2
  | [], items, h => by simp [Spec.Efmt.readPieces] at h; subst h; simp
  | p :: ps, items, h => by
    unfold Spec.Efmt.readPieces at h
    cases hp : Spec.Efmt.readPiece p with
    | none => rw [hp] at h; simp at h
    | some it =>
      cases hps : Spec.Efmt.readPieces ps with
      | none => rw [hp, hps] at h; simp at h
      | some r =>
        rw [hp, hps] at h; simp at h; subst h
        have ih := readPieces_props ps r hps
        refine ⟨by simp [ih.1], ?_⟩
        intro i hi
        rcases List.mem_cons.mp hi with rfl | hi
        · match p, hp with
          | [], hp => simp [Spec.Efmt.readPiece] at hp
          | c :: rest, hp =>
            simp only [Spec.Efmt.readPiece] at hp
            split at hp
            · rename_i hc
              simp only [Option.some.injEq] at hp; subst hp
              refine ⟨hc.1, ?_⟩
              exact Nat.le_trans (List.length_filter_le _ _) hc.2.1
            · exact absurd hp (by simp)
        · exact ih.2 i hi

theorem sepText_ofSpec (it : Spec.Efmt.SItem) (h : it.seps.length ≤ 2) : (itemOfSpec it).sepText = it.seps := by
  unfold itemOfSpec Item.sepText
  match hs : it.seps, h with
  | [], _ => simp
  | [a], _ => simp
  | [a, b], _ => simp

/-- the specification's rendering of non-optional items is the code's joining of the token texts -/
theorem renderGo_join (F : Spec.Efmt.Fields) (off : Int) (T : Item → List Nat) :
    ∀ (items : List Spec.Efmt.SItem) (before : List Nat),
      (∀ it ∈ items, it.optional = false ∧ it.seps.length ≤ 2 ∧
        Spec.Efmt.tokenText it.letter F off = some (T (itemOfSpec it))) →
      Spec.Efmt.renderGo F off items before = some (joinItems T (items.map itemOfSpec) before)
  | [], _, _ => rfl
  | it :: rest, before, hall => by
    obtain ⟨ho, hl, ht⟩ := hall it (by simp)
    unfold Spec.Efmt.renderGo
    have hom : Spec.Efmt.omitted it F = false := by unfold Spec.Efmt.omitted; simp [ho]
    rw [hom]
    simp only [Bool.false_eq_true, if_false]
    rw [ht, renderGo_join F off T rest it.seps (fun i hi => hall i (by simp [hi]))]
    simp only [List.map_cons, joinItems]
    rw [sepText_ofSpec it hl]


/-- the fields are unique: any `F` with `IsFields` is the tuple the model computes -/
theorem isFields_unique (scale : String) (v : Int) (F G : Spec.Efmt.Fields)
    (hF : Spec.Efmt.IsFields scale v F) (hG : Spec.Efmt.IsFields scale v G) : F = G := by
  obtain ⟨fv, f1, f2, f3, f4, f5, f6, f7, f8, fe, fw, fd, fs⟩ := hF
  obtain ⟨gv, g1, g2, g3, g4, g5, g6, g7, g8, ge, gw, gd, gs⟩ := hG
  unfold elapsedNs timeOfDay at fe ge
  rw [NPDs_eq'] at fe ge
  have := Cal.fields_unique F.y F.mo F.d F.h F.mi F.s F.ns G.y G.mo G.d G.h G.mi G.s G.ns fv gv
    ⟨f1, f2⟩ ⟨f3, f4⟩ ⟨f5, f6⟩ ⟨f7, f8⟩ ⟨g1, g2⟩ ⟨g3, g4⟩ ⟨g5, g6⟩ ⟨g7, g8⟩ (by omega)
  obtain ⟨e1, e2, e3, e4, e5, e6, e7⟩ := this
  cases F; cases G
  simp only at *
  subst e1 e2 e3 e4 e5 e6 e7
  simp [fw, gw, fd, gd, fs, gs]

/-- PER TOKEN OUTPUT (specification level).  Let `s` be a format string of the property (it starts with
    `%`; 1 to 16 supported tokens, each followed by at most two ASCII separators) without optional
    markers, `e` any canonical epoch in range whose Gregorian year in its own scale is 0000–9999, `z` an
    offset of whole minutes within ±23:59 and `F` THE fields of `e` in the sense of the specification
    calendar.  Then `Format::from_str(s)` succeeds and the formatter (epoch `e`, offset `z`) prints
    exactly the text the specification renders for `s`: per token the zero-padded field / English
    name / scale / offset, separated by exactly the separators of the format. -/
theorem formatter_prints_spec_text (O : Oracles) (s : List Nat) (items : List Spec.Efmt.SItem) (e : Ep) (z : Dur)
    (F : Spec.Efmt.Fields)
    (hread : Spec.Efmt.readFormat s = some items) (hopt : ∀ it ∈ items, it.optional = false)
    (hd : e.dur.Canon) (hr : Cal.InCal e.dur.val)
    (hF : Spec.Efmt.IsFields e.ts.name e.dur.val F) (hy : 0 ≤ F.y ∧ F.y ≤ 9999)
    (hzc : z.Canon) (hzm : z.val % 60000000000 = 0) (hzr : -86400000000000 < z.val ∧ z.val < 86400000000000) :
    ∃ f text, formatFromStr s = .ok f ∧ formatterFmt O f e z = .ok text ∧
      Spec.Efmt.render items F z.val = some text := by
  -- the format string
  unfold Spec.Efmt.readFormat at hread
  cases hsp : Spec.Efmt.splitAt37 s with
  | nil => rw [hsp] at hread; simp at hread
  | cons p0 pieces =>
    rw [hsp] at hread
    cases p0 with
    | cons _ _ => simp at hread
    | nil =>
      simp only at hread
      split at hread
      · rename_i hlen
        obtain ⟨hil, hprops⟩ := readPieces_props pieces items hread
        have hfs : formatFromStr s = .ok ⟨items.map itemOfSpec⟩ := by
          unfold formatFromStr
          rw [splitPct_eq, hsp]
          unfold fromStrGo
          rw [fromStrGo_spec_items pieces items 0 hread hopt (by have : MAX_TOKENS = 16 := rfl; omega)]
        -- the fields
        obtain ⟨y, mo, dd, h, mi, sec, ns, doy, hg, hdoy, hF0⟩ := model_fields_spec e hd hr
        have hFF := isFields_unique _ _ _ _ hF hF0
        obtain ⟨zt, hzt, hzs⟩ := offsetText_spec z F hzc hzm hzr
        have hwd : weekdayOfDate e = F.wd := by rw [hFF]
        have hne : (items.map itemOfSpec) ≠ [] := by
          intro h0
          have : items.length = 0 := by simpa using congrArg List.length h0
          omega
        refine ⟨⟨items.map itemOfSpec⟩,
          concatItems (fun it => tokBytes it.token y mo dd h mi sec ns e zt doy) (items.map itemOfSpec), hfs, ?_, ?_⟩
        · exact formatterFmt_concat O ⟨items.map itemOfSpec⟩ e z y mo dd h mi sec ns zt doy hne
            (by
              intro it hi
              obtain ⟨si, hsi, rfl⟩ := List.mem_map.mp hi
              exact ⟨(supported_letters si.letter (hprops si hsi).1).2.1, rfl⟩)
            hg hzt hdoy
        · unfold Spec.Efmt.render
          rw [renderGo_join F z.val (fun it => tokBytes it.token y mo dd h mi sec ns e zt doy) items []
            (by
              intro it hi
              refine ⟨hopt it hi, (hprops it hi).2, ?_⟩
              have hsl := supported_letters it.letter (hprops it hi).1
              have := tokBytes_spec (Token.ofLetter it.letter) hsl.2.1 e.ts.name e.dur.val F hF hy e rfl hwd zt z.val hzs
              rw [hsl.2.2] at this
              rw [this, hFF]
              rfl)]
          rw [joinItems_eq _ _ _ hne]; rfl
      · simp at hread

/-! ### the ISO 8601 constants -/

def iso8601 : Format := ⟨[⟨.Year, some 45, none, false⟩, ⟨.Month, some 45, none, false⟩, ⟨.Day, some 84, none, false⟩,
  ⟨.Hour, some 58, none, false⟩, ⟨.Minute, some 58, none, false⟩, ⟨.Second, some 46, none, false⟩,
  ⟨.Subsecond, some 32, none, false⟩, ⟨.Timescale, none, none, false⟩]⟩

def iso8601Flex : Format := ⟨[⟨.Year, some 45, none, false⟩, ⟨.Month, some 45, none, false⟩, ⟨.Day, some 84, none, false⟩,
  ⟨.Hour, some 58, none, false⟩, ⟨.Minute, some 58, none, false⟩, ⟨.Second, some 46, none, false⟩,
  ⟨.Subsecond, some 32, none, true⟩, ⟨.Timescale, none, none, true⟩]⟩

theorem iso8601_is_const : constByName? "ISO8601" = some iso8601 := by decide +kernel
theorem iso8601Flex_is_const : constByName? "ISO8601_FLEX" = some iso8601Flex := by decide +kernel

theorem iso8601_output (O : Oracles) (e : Ep) (y mo d h mi s ns : Int)
    (hg : Cal.computeGregorian e.dur e.ts = .ok (y, mo, d, h, mi, s, ns)) :
    formatterOutput O iso8601 e none =
      .ok (Cal.fmtInt 4 y ++ [45] ++ Cal.fmtInt 2 mo ++ [45] ++ Cal.fmtInt 2 d ++ [84] ++ Cal.fmtInt 2 h ++ [58]
        ++ Cal.fmtInt 2 mi ++ [58] ++ Cal.fmtInt 2 s ++ [46] ++ Cal.fmtInt 9 ns ++ [32] ++ Cal.strCodes e.ts.name) := by
  unfold formatterOutput formatterFmt
  have hng : iso8601.needGregorian = true := by decide
  rw [if_pos hng, hg]
  simp [iso8601, gregGo, tokText, Item.sepText, List.append_assoc]

theorem iso8601Flex_output (O : Oracles) (e : Ep) (y mo d h mi s ns : Int)
    (hg : Cal.computeGregorian e.dur e.ts = .ok (y, mo, d, h, mi, s, ns)) :
    formatterOutput O iso8601Flex e none =
      .ok (Cal.fmtInt 4 y ++ [45] ++ Cal.fmtInt 2 mo ++ [45] ++ Cal.fmtInt 2 d ++ [84] ++ Cal.fmtInt 2 h ++ [58]
        ++ Cal.fmtInt 2 mi ++ [58] ++ Cal.fmtInt 2 s ++ (if ns > 0 then [46] ++ Cal.fmtInt 9 ns else [])
        ++ (if e.ts ≠ TS.UTC then [32] ++ Cal.strCodes e.ts.name else [])) := by
  unfold formatterOutput formatterFmt
  have hng : iso8601Flex.needGregorian = true := by decide
  rw [if_pos hng, hg]
  by_cases h1 : ns > 0 <;> by_cases h2 : e.ts = TS.UTC <;>
    simp [iso8601Flex, gregGo, tokText, Item.sepText, List.append_assoc, h1, h2]

/-! ## Part C: Format::parse never panics -/

theorem validPanics_false (y mo d h mi : Int) : Cal.validPanics y mo d h mi = false := by
  unfold Cal.validPanics
  simp only [decide_eq_false_iff_not]
  omega

/-- since fix b159cb8 `maybe_from_gregorian` cannot panic -/
theorem maybeFromGregorian_no_panic (y mo d h mi s ns : Int) (ts : TS) :
    Cal.maybeFromGregorian y mo d h mi s ns ts ≠ .panic := by
  unfold Cal.maybeFromGregorian
  rw [validPanics_false]
  simp only [Bool.false_eq_true, if_false]
  split
  · simp
  · split
    · simp
    · split <;> simp

/-! ### bytes and digits -/

theorem takeBytes_byteLen : ∀ (s : List Nat) (k : Nat) (t : List Nat), takeBytes s k = some t → byteLen t = k
  | [], k, t, h => by
    unfold takeBytes at h
    split at h
    · simp at h; subst h; simp [byteLen, *]
    · simp at h
  | c :: cs, k, t, h => by
    unfold takeBytes at h
    split at h
    · simp at h; subst h; simp [byteLen, *]
    · split at h
      · cases hr : takeBytes cs (k - utf8Size c) with
        | none => rw [hr] at h; simp at h
        | some u =>
          rw [hr] at h; simp at h; subst h
          have := takeBytes_byteLen cs _ u hr
          simp only [byteLen]; omega
      · simp at h

theorem slice_byteLen (s : List Nat) (a b : Nat) (sub : List Nat) (h : slice s a b = some sub) :
    byteLen sub = b - a := by
  unfold slice at h
  split at h
  · cases hd : dropBytes s a with
    | none => rw [hd] at h; simp at h
    | some t => rw [hd] at h; exact takeBytes_byteLen t _ sub h
  · simp at h

theorem digitsVal_bound : ∀ (ds : List Nat) (acc v : Int), digitsVal ds acc = some v → 0 ≤ acc →
    0 ≤ v ∧ v < (acc + 1) * 10 ^ ds.length ∧ byteLen ds = ds.length
  | [], acc, v, h, ha => by
    simp [digitsVal] at h; subst h; simp [byteLen]; omega
  | c :: cs, acc, v, h, ha => by
    unfold digitsVal at h
    split at h
    · rename_i hc
      have ih := digitsVal_bound cs (acc * 10 + ((c : Int) - 48)) v h (by omega)
      refine ⟨ih.1, ?_, ?_⟩
      · have h1 := ih.2.1
        have h2 : (acc * 10 + ((c : Int) - 48) + 1) * 10 ^ cs.length ≤ (acc + 1) * 10 * 10 ^ cs.length := by
          apply Int.mul_le_mul_of_nonneg_right
          · omega
          · exact Int.pow_nonneg (by omega)
        simp only [List.length_cons, Int.pow_succ]
        have h3 : (acc + 1) * (10 ^ cs.length * 10) = (acc + 1) * 10 * 10 ^ cs.length := by
          rw [Int.mul_assoc, Int.mul_comm (10 ^ cs.length) 10]
        rw [h3]; omega
      · simp only [byteLen, List.length_cons, ih.2.2, utf8Size]
        have : c < 128 := by omega
        simp [this]; omega
    · simp at h

/-- a successfully parsed non-negative integer is below 10^(number of bytes of its text) -/
theorem lexI32_bound (sub : List Nat) (v : Int) (h : lexI32 sub = some v) (hv : 0 ≤ v) :
    v < 10 ^ byteLen sub := by
  have hpow : ∀ n : Nat, (0:Int) < 10 ^ n := fun n => Int.pow_pos (by omega)
  have hstep : ∀ n : Nat, (10:Int) ^ n ≤ 10 ^ (1 + n) := by
    intro n; rw [Nat.add_comm, Int.pow_succ]; have := hpow n; omega
  unfold lexI32 at h
  split at h
  · simp at h
  · -- '+'
    rename_i ds
    split at h
    · simp at h
    · cases hd : digitsVal ds 0 with
      | none => rw [hd] at h; simp at h
      | some w =>
        rw [hd] at h; simp only at h
        split at h
        · simp at h; subst h
          have hb := digitsVal_bound ds 0 w hd (by omega)
          simp only [byteLen, utf8Size]
          rw [hb.2.2]
          have := hb.2.1
          have h1 := hstep ds.length
          simp at this ⊢; omega
        · simp at h
  · -- '-'
    rename_i ds
    split at h
    · simp at h
    · cases hd : digitsVal ds 0 with
      | none => rw [hd] at h; simp at h
      | some w =>
        rw [hd] at h; simp only at h
        split at h
        · simp at h; subst h
          have hb := digitsVal_bound ds 0 w hd (by omega)
          have := hpow (byteLen (45 :: ds))
          omega
        · simp at h
  · cases hd : digitsVal sub 0 with
    | none => rw [hd] at h; simp at h
    | some w =>
      rw [hd] at h; simp only at h
      split at h
      · simp at h; subst h
        have hb := digitsVal_bound sub 0 w hd (by omega)
        rw [hb.2.2]
        have := hb.2.1
        simp at this ⊢; omega
      · simp at h

/-! ### the invariant of the parse loop: every stored field is within its `value_ok` range -/

def St.Inv (st : St) : Prop :=
  0 ≤ st.mo ∧ st.mo ≤ 13 ∧ 0 ≤ st.d ∧ st.d ≤ 31 ∧ 0 ≤ st.h ∧ st.h ≤ 23 ∧ 0 ≤ st.mi ∧ st.mi ≤ 59 ∧
  0 ≤ st.s ∧ st.s ≤ 60 ∧ 0 ≤ st.ns ∧ st.ns ≤ 2147483647 ∧ 0 ≤ st.oh ∧ st.oh ≤ 23 ∧ 0 ≤ st.om ∧ st.om ≤ 59

theorem init_inv (it : Item) : (St.init it).Inv := by
  unfold St.Inv St.init; simp

theorem month_table_range : ∀ p ∈ Gen.EFMT_MONTH_FROM_STR, 0 ≤ p.2 ∧ p.2 ≤ 11 := by decide

theorem monthFromStr_range (sub : List Nat) (m : Int) (h : monthFromStr sub = some m) : 0 ≤ m ∧ m ≤ 11 := by
  unfold monthFromStr lookup at h
  cases hf : List.find? (fun p => p.1 == trim sub) Gen.EFMT_MONTH_FROM_STR with
  | none => rw [hf] at h; simp at h
  | some p =>
    rw [hf] at h; simp at h; subst h
    exact month_table_range p (List.mem_of_find?_eq_some hf)

/-- the sub-second scaling `val * 10^(9 - n)` stays within i32 -/
theorem subsec_scale_bound (v : Int) (n : Nat) (hv0 : 0 ≤ v) (hv : v < 10 ^ n) (hn : n < 9) :
    v * 10 ^ (9 - n) ≤ 2147483647 := by
  have h : n = 0 ∨ n = 1 ∨ n = 2 ∨ n = 3 ∨ n = 4 ∨ n = 5 ∨ n = 6 ∨ n = 7 ∨ n = 8 := by omega
  rcases h with h | h | h | h | h | h | h | h | h <;> subst h <;> simp at hv ⊢ <;> omega

theorem store_inv (O : Oracles) (tok : Token) (sub : List Nat) (n : Nat) (st : St)
    (hinv : st.Inv) (htok : tok ≠ .Timescale) (hn : n = byteLen sub) :
    store O tok sub n st ≠ .panic ∧ (∀ st', store O tok sub n st = .cont st' → st'.Inv) ∧
    (∀ st', store O tok sub n st ≠ .brk st') := by
  unfold St.Inv at hinv
  cases tok
  case Timescale => exact absurd rfl htok
  case Subsecond =>
    unfold store
    simp only
    cases hl : lexI32 sub with
    | none => simp
    | some v =>
      simp only
      by_cases hvo : Token.Subsecond.valueOk v = false
      · rw [if_pos hvo]; simp
      · rw [if_neg hvo]
        have hv0 : 0 ≤ v := by simpa [Token.valueOk] using hvo
        by_cases h9 : n > 9
        · rw [if_pos h9]; simp
        · rw [if_neg h9]
          by_cases h9' : n = 9
          · rw [if_pos h9']
            have hb := lexI32_bound sub v hl hv0
            rw [← hn, h9'] at hb
            refine ⟨by simp, ?_, by simp⟩
            intro st' h; simp at h; subst h
            unfold St.Inv; simp only; simp at hb; omega
          · rw [if_neg h9']
            have hb := lexI32_bound sub v hl hv0
            rw [← hn] at hb
            have hsc := subsec_scale_bound v n hv0 hb (by omega)
            rw [if_neg (by omega)]
            refine ⟨by simp, ?_, by simp⟩
            intro st' h; simp at h; subst h
            unfold St.Inv; simp only
            have : 0 ≤ v * 10 ^ (9 - n) := Int.mul_nonneg hv0 (Int.pow_nonneg (by omega))
            omega
  case MonthName =>
    unfold store; simp only
    cases hm : monthFromStr sub with
    | none => simp
    | some m =>
      have := monthFromStr_range sub m hm
      refine ⟨by simp, ?_, by simp⟩
      intro st' h; simp at h; subst h; unfold St.Inv; simp only; omega
  case MonthNameShort =>
    unfold store; simp only
    cases hm : monthFromStr sub with
    | none => simp
    | some m =>
      have := monthFromStr_range sub m hm
      refine ⟨by simp, ?_, by simp⟩
      intro st' h; simp at h; subst h; unfold St.Inv; simp only; omega
  case Year | Month | Day | Hour | Minute | Second | OffsetHours | OffsetMinutes =>
    unfold store
    simp only [Token.gregorianPosition]
    cases hl : lexI32 sub with
    | none => simp
    | some v =>
      simp only
      split
      · simp
      · rename_i hvo
        refine ⟨by simp, ?_, by simp⟩
        intro st' h; simp [St.setPos] at h; subst h
        unfold St.Inv; simp [Token.valueOk] at hvo ⊢; omega
  case YearShort =>
    unfold store; simp only
    cases hl : lexI32 sub with
    | none => simp
    | some v =>
      simp only
      split
      · simp
      · refine ⟨by simp, ?_, by simp⟩
        intro st' h; simp at h; subst h; unfold St.Inv; simp only; omega
  case DayOfYear =>
    unfold store; simp only
    cases hq : O.lexDoy sub with
    | none => simp
    | some dd =>
      refine ⟨by simp, ?_, by simp⟩
      intro st' h; simp at h; subst h; unfold St.Inv; simp only; omega
  case Weekday | WeekdayShort =>
    unfold store; simp only
    cases hw : weekdayFromStr sub with
    | none => simp
    | some w =>
      refine ⟨by simp, ?_, by simp⟩
      intro st' h; simp at h; subst h; unfold St.Inv; simp only; omega
  case WeekdayDecimal =>
    unfold store; simp
  case DayOfYearInteger =>
    unfold store; simp only
    cases hl : lexI32 sub with
    | none => simp
    | some v =>
      simp only
      split
      · simp
      · refine ⟨by simp, ?_, by simp⟩
        intro st' h; simp at h; subst h; unfold St.Inv; simp only; omega

/-- what a step of the loop guarantees: no panic, and the invariant for the state it hands on -/
def Step.Good : Step → Prop
  | .cont st => st.Inv
  | .brk st => st.Inv
  | .err => True
  | .panic => False

theorem afterEnd_good (O : Oracles) (s : List Nat) (idx endIdx : Nat) (tok : Token) (zulu : Bool) (st : St)
    (hinv : st.Inv) (htok : tok ≠ .Timescale) : (afterEnd O s idx endIdx tok zulu st).Good := by
  unfold afterEnd
  cases hs : slice s st.prevIdx endIdx with
  | none => simp [Step.Good]
  | some sub =>
    simp only
    have hst := store_inv O tok sub (endIdx - st.prevIdx) st hinv htok (slice_byteLen s _ _ sub hs).symm
    cases hr : store O tok sub (endIdx - st.prevIdx) st with
    | cont st1 =>
      have hi := hst.2.1 st1 hr
      simp only
      split
      · exact hi
      · split
        · split
          · simp [Step.Good]
          · simp only [Step.Good]; unfold St.Inv at hi ⊢; exact hi
        · simp only [Step.Good]; unfold St.Inv at hi ⊢; exact hi
    | brk st1 => exact absurd hr (hst.2.2 st1)
    | err => simp [Step.Good]
    | panic => exact absurd hr hst.1

theorem stepTimescale_good (s : List Nat) (len idx : Nat) (st : St) (hinv : st.Inv) :
    (stepTimescale s len idx st).Good := by
  unfold stepTimescale
  split
  · simp [Step.Good]
  · split
    · simp [Step.Good]
    · simp only [Step.Good]; unfold St.Inv at hinv ⊢; exact hinv

theorem stepHours_good (s : List Nat) (idx : Nat) (st : St) (hinv : st.Inv) :
    (stepHours s idx st).Good := by
  unfold stepHours
  split
  · simp [Step.Good]
  · split
    · simp [Step.Good]
    · split
      · simp [Step.Good]
      · rename_i v hvo
        simp only [Step.Good]
        unfold St.Inv at hinv ⊢
        simp [Token.valueOk] at hvo
        simp only; omega

theorem stepField_good (O : Oracles) (f : Format) (s : List Nat) (len c idx : Nat) (st : St)
    (hwf : f.wf = true) (hinv : st.Inv) (hts : st.tok ≠ .Timescale) :
    (stepField O f s len c idx st).Good := by
  have hlen : f.items.length ≤ MAX_TOKENS := by
    unfold Format.wf at hwf; exact of_decide_eq_true hwf
  unfold stepField
  split
  · split
    · simp [Step.Good]
    · split
      · exact hinv
      · split
        · rename_i h1 h2; exfalso; omega
        · split
          · exact hinv
          · apply afterEnd_good _ _ _ _ _ _ _ _ hts
            unfold St.Inv at hinv ⊢; exact hinv
  · apply afterEnd_good _ _ _ _ _ _ _ _ hts
    unfold St.Inv at hinv ⊢; exact hinv

theorem stepBody_good (O : Oracles) (f : Format) (s : List Nat) (len c idx : Nat) (st : St)
    (hwf : f.wf = true) (hinv : st.Inv) : (stepBody O f s len c idx st).Good := by
  unfold stepBody
  split
  · simp only [Step.Good]; unfold St.Inv at hinv ⊢; exact hinv
  · split
    · simp only [Step.Good]; unfold St.Inv at hinv ⊢; exact hinv
    · split
      · exact stepTimescale_good s len idx st hinv
      · rename_i hts
        split
        · split
          · exact hinv
          · apply afterEnd_good _ _ _ _ _ _ _ _ hts
            unfold St.Inv at hinv ⊢; exact hinv
        · split
          · exact stepHours_good s idx st hinv
          · exact stepField_good O f s len c idx st hwf hinv hts

theorem stepChar_good (O : Oracles) (f : Format) (s : List Nat) (len c idx : Nat) (st : St)
    (hwf : f.wf = true) (hinv : st.Inv) : (stepChar O f s len c idx st).Good := by
  unfold stepChar
  split
  · exact stepBody_good O f s len c idx st hwf hinv
  · exact hinv

theorem parseLoop_good (O : Oracles) (f : Format) (s : List Nat) (len : Nat) (hwf : f.wf = true) :
    ∀ (cs : List Nat) (idx : Nat) (st : St), st.Inv →
      parseLoop O f s len cs idx st ≠ .panic ∧ ∀ st', parseLoop O f s len cs idx st = .ok st' → st'.Inv
  | [], _, st, hinv => by simp [parseLoop]; exact hinv
  | c :: cs, idx, st, hinv => by
    have hg := stepChar_good O f s len c idx st hwf hinv
    unfold parseLoop
    cases hr : stepChar O f s len c idx st with
    | cont st1 =>
      rw [hr] at hg
      exact parseLoop_good O f s len hwf cs (idx + 1) st1 hg
    | brk st1 =>
      rw [hr] at hg
      simp only
      exact ⟨by simp, fun st' h => by simp at h; subst h; exact hg⟩
    | err => simp
    | panic => rw [hr] at hg; exact absurd hg (by simp [Step.Good])

theorem buildEpoch_no_panic (f : Format) (st : St) (hinv : st.Inv) : buildEpoch f st ≠ .panic := by
  unfold St.Inv at hinv
  have h3 : toU8 st.h = some st.h := by unfold toU8; rw [if_pos (by omega)]
  have h4 : toU8 st.mi = some st.mi := by unfold toU8; rw [if_pos (by omega)]
  have h5 : toU8 st.s = some st.s := by unfold toU8; rw [if_pos (by omega)]
  have h6 : toU32 st.ns = some st.ns := by unfold toU32; rw [if_pos (by omega)]
  unfold buildEpoch
  split
  · rw [h3, h4, h5, h6]
    simp only
    repeat' split
    all_goals first
      | (simp; done)
      | (rename_i h; exact absurd h (maybeFromGregorian_no_panic _ _ _ _ _ _ _ _))
  · have h1 : toU8 st.mo = some st.mo := by unfold toU8; rw [if_pos (by omega)]
    have h2 : toU8 st.d = some st.d := by unfold toU8; rw [if_pos (by omega)]
    rw [h1, h2, h3, h4, h5, h6]
    exact maybeFromGregorian_no_panic _ _ _ _ _ _ _ _

/-- the time-zone correction `hours * Unit::Hour + minutes * Unit::Minute` is canonical, so its
    negation cannot overflow -/
theorem tz_canon (st : St) (hinv : st.Inv) :
    (Dur.add (Dur.unitMulI64 Cal.NPH st.oh) (Dur.unitMulI64 Cal.NPMIN st.om)).Canon := by
  unfold St.Inv at hinv
  have h1 := Cal.unitMul_val Cal.NPH st.oh (by right; right; right; left; rfl) (by omega)
  have h2 := Cal.unitMul_val Cal.NPMIN st.om (by right; right; left; rfl) (by omega)
  exact (add_spec _ _ h1.1 h2.1).1

theorem finish_no_panic (f : Format) (st : St) (hinv : st.Inv) : finish f st ≠ .panic := by
  obtain ⟨r, hr, _, _⟩ := neg_spec _ (tz_canon st hinv)
  have hb := buildEpoch_no_panic f st hinv
  unfold finish
  cases hbe : buildEpoch f st with
  | panic => exact absurd hbe hb
  | err => simp
  | ok e =>
    simp only [hr]
    repeat' split
    all_goals simp

/-- TOTALITY of `Format::parse` (hence of `Epoch::from_str_with_format`): for every format value with
    at most `MAX_TOKENS` items, every input text (any code points) and any behaviour of the two
    oracles, the result is a value or an error -/
theorem formatParse_no_panic (O : Oracles) (f : Format) (s : List Nat) (hwf : f.wf = true) :
    formatParse O f s ≠ .panic := by
  unfold formatParse
  split
  · simp
  · rename_i it _ _
    have hl := parseLoop_good O f (trim s) (byteLen (trim s)) hwf (trim s) 0 (St.init it) (init_inv it)
    split
    · rename_i st hst; exact finish_no_panic f st (hl.2 st hst)
    · simp
    · rename_i h; exact absurd h hl.1

/-- TOTALITY of `Epoch::from_format_str` -/
theorem fromFormatStr_no_panic (O : Oracles) (sIn fmt : List Nat) : fromFormatStr O sIn fmt ≠ .panic := by
  unfold fromFormatStr
  rcases formatFromStr_spec fmt with h | ⟨f, h, hwf⟩
  · rw [h]; simp
  · rw [h]; exact formatParse_no_panic O f sIn hwf


def iso8601Std : Format := ⟨[⟨.Year, some 45, none, false⟩, ⟨.Month, some 45, none, false⟩, ⟨.Day, some 84, none, false⟩,
  ⟨.Hour, some 58, none, false⟩, ⟨.Minute, some 58, none, false⟩, ⟨.Second, some 46, none, false⟩,
  ⟨.Subsecond, none, none, false⟩]⟩

theorem iso8601Std_is_const : constByName? "ISO8601_STD" = some iso8601Std := by decide +kernel

theorem dig_lt (v : Int) : dig v < 128 := by unfold dig; omega

/-- `Epoch::to_isoformat`: for every canonical epoch in range with year 0000–9999 the result is
    `YYYY-MM-DDTHH:MM:SS.ffffff` of THE fields of the epoch in its own scale (six sub-second digits, truncated) -/
theorem toIsoformat_spec (O : Oracles) (e : Ep) (F : Spec.Efmt.Fields) (hd : e.dur.Canon) (hr : Cal.InCal e.dur.val)
    (hF : Spec.Efmt.IsFields e.ts.name e.dur.val F) (hy : 0 ≤ F.y ∧ F.y ≤ 9999) :
    ∃ text, toIsoformat O iso8601Std e = .ok text ∧ Spec.Efmt.isoformatText F = some text := by
  obtain ⟨y, mo, dd, h, mi, s, ns, doy, hg, hdoy, hF0⟩ := model_fields_spec e hd hr
  have hFF := isFields_unique _ _ _ _ hF hF0
  have hF0' := hF0
  unfold Spec.Efmt.IsFields at hF0'
  dsimp only at hF0'
  obtain ⟨hv, h1, h2, m1, m2, s1, s2, n1, n2, _, _, _, _⟩ := hF0'
  have hv' := (Cal.validDate_iff _).mp hv
  simp only at hv'
  have hml := Cal.monthLen_range y mo hv'.1 hv'.2.1
  have hy' : 0 ≤ y ∧ y ≤ 9999 := by rw [hFF] at hy; exact hy
  unfold toIsoformat formatterOutput formatterFmt
  have hng : iso8601Std.needGregorian = true := by decide
  rw [if_pos hng, hg]
  simp only [iso8601Std, gregGo, tokText, Item.sepText, Bool.not_false, Bool.true_or, if_true]
  rw [Cal.fmtInt4_eq y hy', Cal.fmtInt2_eq mo (by omega), Cal.fmtInt2_eq dd (by omega), Cal.fmtInt2_eq h (by omega),
    Cal.fmtInt2_eq mi (by omega), Cal.fmtInt2_eq s (by omega), Cal.fmtInt9_eq ns (by omega)]
  unfold Spec.Efmt.isoformatText
  rw [hFF]
  simp only [hy', and_self, if_true]
  simp [dig4, dig2, dig9, Nat.not_le.mpr (dig_lt _)]

def rfc3339Flex : Format := ⟨[⟨.Year, some 45, none, false⟩, ⟨.Month, some 45, none, false⟩, ⟨.Day, some 84, none, false⟩,
  ⟨.Hour, some 58, none, false⟩, ⟨.Minute, some 58, none, false⟩, ⟨.Second, some 46, none, false⟩,
  ⟨.Subsecond, none, none, true⟩, ⟨.OffsetHours, none, none, false⟩]⟩

theorem rfc3339Flex_is_const : constByName? "RFC3339_FLEX" = some rfc3339Flex := by decide +kernel

theorem rfc3339Flex_output (O : Oracles) (e : Ep) (off : Dur) (y mo d h mi s ns : Int) (zt : List Nat)
    (hg : Cal.computeGregorian e.dur e.ts = .ok (y, mo, d, h, mi, s, ns)) (hz : offsetText off = .ok zt) :
    formatterFmt O rfc3339Flex e off =
      .ok (Cal.fmtInt 4 y ++ [45] ++ Cal.fmtInt 2 mo ++ [45] ++ Cal.fmtInt 2 d ++ [84] ++ Cal.fmtInt 2 h ++ [58]
        ++ Cal.fmtInt 2 mi ++ [58] ++ Cal.fmtInt 2 s ++ (if ns > 0 then [46] ++ Cal.fmtInt 9 ns else []) ++ zt) := by
  unfold formatterFmt
  have hng : rfc3339Flex.needGregorian = true := by decide
  rw [if_pos hng, hg]
  by_cases h1 : ns > 0 <;>
    simp [rfc3339Flex, gregGo, tokText, Item.sepText, List.append_assoc, h1, hz]

/-! ### the day-of-year arm of `Format::parse`: the derived month and day are the date of that day of the year -/

/-- the table behind `ordinal_date_spec`: for both kinds of year and EVERY day of year 1..366 the loop ends on a month
    1..12 and a day within that month, and the days of the months in front of it plus the day give the day of year
    back (complete finite table: 2 × 366 cases) -/
theorem ordinalGo_table : ∀ leap : Bool, ∀ k ∈ List.range 366,
    ((k : Int) + 1 ≤ (if leap then 366 else 365)) →
    1 ≤ (ordinalGo leap 16 1 ((k : Int) + 1)).1 ∧ (ordinalGo leap 16 1 ((k : Int) + 1)).1 ≤ 12 ∧
    1 ≤ (ordinalGo leap 16 1 ((k : Int) + 1)).2 ∧
    (ordinalGo leap 16 1 ((k : Int) + 1)).2 ≤ daysInMonth leap (ordinalGo leap 16 1 ((k : Int) + 1)).1 ∧
    Cal.cumCommon (ordinalGo leap 16 1 ((k : Int) + 1)).1
      + (if leap = true ∧ 3 ≤ (ordinalGo leap 16 1 ((k : Int) + 1)).1 then 1 else 0)
      + (ordinalGo leap 16 1 ((k : Int) + 1)).2 = (k : Int) + 1 := by
  decide +kernel

theorem daysInMonth_eq (y m : Int) (h1 : 1 ≤ m) (h2 : m ≤ 12) : daysInMonth (isLeap y) m = monthLen y m := by
  unfold daysInMonth monthLen
  rcases Cal.month_cases h1 h2 with rfl | rfl | rfl | rfl | rfl | rfl | rfl | rfl | rfl | rfl | rfl | rfl <;>
    cases isLeap y <;> decide

/-- THE DATE OF A DAY OF THE YEAR: for every year and every day of year `n` of that year (1..365, 366 in a leap
    year), the month and day `Format::parse` derives are a valid date of the specification calendar, and it is the
    `n`-th day of that year: its day number is that of 1 January plus `n − 1` (so it is the date the specification
    reads, `dateOfDayNumber`, day numbers being injective on valid dates: `Cal.dayNumber_inj`) -/
theorem ordinal_date_spec (y n : Int) (h1 : 1 ≤ n) (h2 : n ≤ (if isLeap y = true then 366 else 365)) :
    validDate ⟨y, (ordinalGo (isLeap y) 16 1 n).1, (ordinalGo (isLeap y) 16 1 n).2⟩ = true ∧
    dayNumber ⟨y, (ordinalGo (isLeap y) 16 1 n).1, (ordinalGo (isLeap y) 16 1 n).2⟩ = dayNumber ⟨y, 1, 1⟩ + n - 1 := by
  have hk : ((n - 1).toNat : Int) + 1 = n := by omega
  have hmem : (n - 1).toNat ∈ List.range 366 := by
    rw [List.mem_range]; split at h2 <;> omega
  have ht := ordinalGo_table (isLeap y) (n - 1).toNat hmem (by rw [hk]; cases hl : isLeap y <;> rw [hl] at h2 <;> simpa using h2)
  rw [hk] at ht
  obtain ⟨a1, a2, a3, a4, a5⟩ := ht
  rw [daysInMonth_eq y _ a1 a2] at a4
  refine ⟨(Cal.validDate_iff _).mpr ⟨a1, a2, a3, a4⟩, ?_⟩
  rw [← Cal.modelDay_eq_dayNumber y _ _ a1 a2, ← Cal.modelDay_eq_dayNumber y 1 1 (by omega) (by omega),
    Cal.cumulAt_eq y _ a1 a2, Cal.cumulAt_eq y 1 (by omega) (by omega)]
  have c1 : Cal.cumCommon 1 = 0 := by decide
  rw [c1]
  have e : (if isLeap y = true ∧ (3:Int) ≤ 1 then (1:Int) else 0) = 0 := by
    rw [if_neg (by omega)]
  rw [e]
  omega

/-- the leap-year test of the day-of-year arm, `is_gregorian_valid(year, 2, 29, 0, 0, 0, 0)`, is the leap-year rule -/
theorem leapTest_eq (y : Int) : Cal.isGregorianValidCore y 2 29 0 0 0 0 = isLeap y := by
  unfold Cal.isGregorianValidCore
  have hm : ¬ ((0:Int) > Cal.maxSeconds y 2 29 0 0) := by unfold Cal.maxSeconds; split <;> omega
  have hn : ¬ ((0:Int) > Gen.NANOSECONDS_PER_SECOND) := by decide
  rw [if_neg (by omega)]
  rw [Cal.isLeapYear_eq]
  cases isLeap y <;> decide

end Hifi.Efmt
