import Hifi.Model.LeapFile
import Hifi.Lemmas.DurText
/-
  parse ∘ render = id for the IERS file grammar (C06: a provider loaded from an IERS-format file
  holds exactly the entries of the file).
-/
namespace Hifi.LeapFile
open Hifi Hifi.DurText

theorem digit_not_ws (c : Nat) (h : 48 ≤ c ∧ c ≤ 57) : isWs c = false := by
  have : c = 48 ∨ c = 49 ∨ c = 50 ∨ c = 51 ∨ c = 52 ∨ c = 53 ∨ c = 54 ∨ c = 55 ∨ c = 56 ∨ c = 57 := by omega
  rcases this with h | h | h | h | h | h | h | h | h | h <;> subst h <;> decide

/-- scanning a run of non-newline characters just accumulates them -/
theorem linesGo_run (l rest cur : List Nat) (h : ∀ c ∈ l, c ≠ 10) :
    linesGo (l ++ 10 :: rest) cur = stripCR (cur ++ l) :: linesGo rest [] := by
  induction l generalizing cur with
  | nil => simp [linesGo]
  | cons c l ih =>
    have hc : c ≠ 10 := h c (List.mem_cons_self ..)
    simp only [List.cons_append, linesGo, if_neg hc]
    rw [ih (cur ++ [c]) (fun x hx => h x (List.mem_cons_of_mem _ hx))]
    simp

/-- scanning a word (no whitespace in it) terminated by a whitespace character -/
theorem wordsGo_word (w rest cur : List Nat) (s : Nat) (hw : ∀ c ∈ w, isWs c = false) (hs : isWs s = true)
    (hne : cur ++ w ≠ []) :
    wordsGo (w ++ s :: rest) cur = (cur ++ w) :: wordsGo rest [] := by
  induction w generalizing cur with
  | nil =>
    simp only [List.nil_append, wordsGo, if_pos hs, List.append_nil] at hne ⊢
    rw [if_neg hne]
  | cons c w ih =>
    have hc : isWs c = false := hw c (List.mem_cons_self ..)
    simp only [List.cons_append, wordsGo, hc, Bool.false_eq_true, if_false]
    rw [ih (cur ++ [c]) (fun x hx => hw x (List.mem_cons_of_mem _ hx)) (by simp)]
    simp

theorem wordsGo_last (w cur : List Nat) (hw : ∀ c ∈ w, isWs c = false) (hne : cur ++ w ≠ []) :
    wordsGo w cur = [cur ++ w] := by
  induction w generalizing cur with
  | nil => simp only [List.append_nil] at hne ⊢; simp [wordsGo, hne]
  | cons c w ih =>
    have hc : isWs c = false := hw c (List.mem_cons_self ..)
    simp only [wordsGo, hc, Bool.false_eq_true, if_false]
    rw [ih (cur ++ [c]) (fun x hx => hw x (List.mem_cons_of_mem _ hx)) (by simp)]
    simp

theorem digits_no_ws (n : Nat) : ∀ c ∈ decDigits n, isWs c = false := by
  intro c hc
  exact digit_not_ws c (allDigits_mem _ (decDigits_spec n).1 c hc)

theorem digits_no_nl (n : Nat) : ∀ c ∈ decDigits n, c ≠ 10 := by
  intro c hc
  have := allDigits_mem _ (decDigits_spec n).1 c hc
  omega

theorem parseUnsigned_digits (max n : Nat) (h : n ≤ max) : parseUnsigned max (decDigits n) = some n := by
  have hs := decDigits_spec n
  have hplus : ∀ r, decDigits n ≠ 43 :: r := by
    intro r hr
    have := allDigits_mem _ hs.1 43 (by rw [hr]; exact List.mem_cons_self ..)
    omega
  unfold parseUnsigned
  have hds : (match decDigits n with | 43 :: r => r | _ => decDigits n) = decDigits n := by
    split
    · rename_i r heq; exact absurd heq (hplus r)
    · rfl
  simp only [hds]
  rw [if_pos ⟨hs.2.2, hs.1, by rw [hs.2.1]; exact h⟩, hs.2.1]

/-- the words of a rendered data line -/
theorem words_renderLine (e : Nat × Nat) :
    wordsGo (renderLine e) [] = [decDigits e.1, decDigits e.2, [35], [120]] := by
  unfold renderLine
  have h1 := decDigits_spec e.1
  have h2 := decDigits_spec e.2
  rw [show decDigits e.1 ++ [9] ++ decDigits e.2 ++ [9, 35, 32, 120]
        = decDigits e.1 ++ 9 :: (decDigits e.2 ++ 9 :: ([35] ++ 32 :: [120])) by simp]
  rw [wordsGo_word _ _ [] 9 (digits_no_ws e.1) (by decide) (by simpa using h1.2.2)]
  rw [wordsGo_word _ _ [] 9 (digits_no_ws e.2) (by decide) (by simpa using h2.2.2)]
  rw [wordsGo_word [35] _ [] 32 (by decide) (by decide) (by decide)]
  rw [wordsGo_last [120] [] (by decide) (by decide)]
  simp

theorem parseLine_renderLine (e : Nat × Nat) (h : e.1 ≤ 18446744073709551615 ∧ e.2 ≤ 255) :
    parseLine (renderLine e) = .ok (some e) := by
  have h1 := decDigits_spec e.1
  have hne : renderLine e ≠ [] := by unfold renderLine; simp
  have hfirst : ∀ c r, renderLine e = c :: r → c ≠ 35 := by
    intro c r hcr
    have hmem : c ∈ decDigits e.1 := by
      unfold renderLine at hcr
      cases hd : decDigits e.1 with
      | nil => exact absurd hd h1.2.2
      | cons x xs => rw [hd] at hcr; simp at hcr; rw [← hcr.1]; exact List.mem_cons_self ..
    have := allDigits_mem _ h1.1 c hmem
    omega
  unfold parseLine
  cases hr : renderLine e with
  | nil => exact absurd hr hne
  | cons c r =>
    simp only
    rw [if_neg (hfirst c r hr), ← hr, words_renderLine]
    simp only
    rw [parseUnsigned_digits _ _ h.1, parseUnsigned_digits _ _ h.2]

theorem renderLine_no_nl (e : Nat × Nat) : ∀ c ∈ renderLine e, c ≠ 10 := by
  intro c hc
  unfold renderLine at hc
  simp only [List.mem_append, List.mem_cons, List.not_mem_nil, or_false] at hc
  rcases hc with ((h | h) | h) | h
  · exact digits_no_nl e.1 c h
  · omega
  · exact digits_no_nl e.2 c h
  · omega

theorem stripCR_renderLine (e : Nat × Nat) : stripCR (renderLine e) = renderLine e := by
  unfold stripCR
  have hl : ∀ l : List Nat, (l ++ [9, 35, 32, 120]).getLast? = some 120 := by
    intro l
    rw [show l ++ [9, 35, 32, 120] = (l ++ [9, 35, 32]) ++ [120] by simp]; simp
  have : (renderLine e).getLast? = some 120 := by unfold renderLine; exact hl _
  rw [this]; simp

theorem lines_renderBody (tbl : List (Nat × Nat)) :
    linesGo (renderBody tbl) [] = tbl.map renderLine := by
  induction tbl with
  | nil => simp [renderBody, linesGo]
  | cons e rest ih =>
    unfold renderBody
    rw [show renderLine e ++ [10] ++ renderBody rest = renderLine e ++ 10 :: renderBody rest by simp]
    rw [linesGo_run _ _ [] (renderLine_no_nl e), ih]
    simp [stripCR_renderLine]

theorem parseLines_render (tbl : List (Nat × Nat)) (h : ∀ e ∈ tbl, e.1 ≤ 18446744073709551615 ∧ e.2 ≤ 255) :
    parseLines (tbl.map renderLine) = .ok tbl := by
  induction tbl with
  | nil => rfl
  | cons e rest ih =>
    simp only [List.map_cons, parseLines]
    rw [parseLine_renderLine e (h e (List.mem_cons_self ..))]
    simp only
    rw [ih (fun x hx => h x (List.mem_cons_of_mem _ hx))]

/-- MAIN: loading the rendering of ANY table (u64 time stamps, u8 offsets) yields exactly that table -/
theorem parseFile_renderFile (tbl : List (Nat × Nat)) (h : ∀ e ∈ tbl, e.1 ≤ 18446744073709551615 ∧ e.2 ≤ 255) :
    parseFile (renderFile tbl) = .ok tbl := by
  unfold parseFile renderFile header
  rw [show [35, 32, 103, 10, 35, 36, 32, 49, 10] ++ renderBody tbl
        = [35, 32, 103] ++ 10 :: ([35, 36, 32, 49] ++ 10 :: renderBody tbl) by simp]
  rw [linesGo_run _ _ [] (by decide), linesGo_run _ _ [] (by decide), lines_renderBody]
  simp only [List.nil_append, parseLines]
  have e1 : parseLine (stripCR [35, 32, 103]) = .ok none := by decide
  have e2 : parseLine (stripCR [35, 36, 32, 49]) = .ok none := by decide
  rw [e1]; simp only
  rw [e2]; simp only
  exact parseLines_render tbl h

end Hifi.LeapFile

namespace Hifi.LeapFile
open Hifi Hifi.DurText

/-! ### layout freedom of the IERS format: blank lines and comment lines anywhere -/

/-- a line `from_path` skips: empty, or a comment (first character `#`); no newline / carriage return in it -/
def skipLine (l : List Nat) : Bool :=
  (l.isEmpty || l.head? == some 35) && l.all (fun c => c != 10 && c != 13)

/-- a file body in which every data line is preceded by any number of skippable lines -/
def renderBodyG : List (List (List Nat) × (Nat × Nat)) → List Nat
  | [] => []
  | (sk, e) :: rest => (sk.flatMap (fun l => l ++ [10])) ++ (renderLine e ++ [10] ++ renderBodyG rest)

theorem stripCR_of_no_cr (l : List Nat) (h : ∀ c ∈ l, c ≠ 13) : stripCR l = l := by
  unfold stripCR
  cases hl : l.getLast? with
  | none => rfl
  | some c =>
    have hm : c ∈ l := List.mem_of_getLast? hl
    have : c ≠ 13 := h c hm
    simp [this]

theorem skipLine_parse (l : List Nat) (h : skipLine l = true) : parseLine (stripCR l) = .ok none ∧ (∀ c ∈ l, c ≠ 10) := by
  unfold skipLine at h
  simp only [Bool.and_eq_true, Bool.or_eq_true, List.all_eq_true, bne_iff_ne, ne_eq, beq_iff_eq] at h
  have hcr : stripCR l = l := stripCR_of_no_cr l (fun c hc => (h.2 c hc).2)
  refine ⟨?_, fun c hc => (h.2 c hc).1⟩
  rw [hcr]
  cases l with
  | nil => rfl
  | cons c r =>
    rcases h.1 with h1 | h1
    · simp at h1
    · simp only [List.head?_cons, Option.some.injEq] at h1
      subst h1; simp [parseLine]

theorem linesGo_skips (sk : List (List Nat)) (rest : List Nat) (h : ∀ l ∈ sk, skipLine l = true) :
    linesGo (sk.flatMap (fun l => l ++ [10]) ++ rest) [] = sk.map stripCR ++ linesGo rest [] := by
  induction sk with
  | nil => simp
  | cons l sk ih =>
    have hl := (skipLine_parse l (h l (List.mem_cons_self ..))).2
    simp only [List.flatMap_cons, List.append_assoc, List.singleton_append, List.map_cons, List.cons_append]
    rw [linesGo_run l _ [] hl]
    simp only [List.nil_append]
    rw [ih (fun x hx => h x (List.mem_cons_of_mem _ hx))]

theorem parseLines_skips (sk : List (List Nat)) (L : List (List Nat)) (h : ∀ l ∈ sk, skipLine l = true) :
    parseLines (sk.map stripCR ++ L) = parseLines L := by
  induction sk with
  | nil => simp
  | cons l sk ih =>
    simp only [List.map_cons, List.cons_append, parseLines]
    rw [(skipLine_parse l (h l (List.mem_cons_self ..))).1]
    simp only
    exact ih (fun x hx => h x (List.mem_cons_of_mem _ hx))

theorem parseLines_linesGo_bodyG (xs : List (List (List Nat) × (Nat × Nat))) (tail : List Nat)
    (ht : parseLines (linesGo tail []) = .ok [])
    (hs : ∀ x ∈ xs, ∀ l ∈ x.1, skipLine l = true)
    (h : ∀ x ∈ xs, x.2.1 ≤ 18446744073709551615 ∧ x.2.2 ≤ 255) :
    parseLines (linesGo (renderBodyG xs ++ tail) []) = .ok (xs.map (·.2)) := by
  induction xs with
  | nil => simpa [renderBodyG] using ht
  | cons x rest ih =>
    obtain ⟨sk, e⟩ := x
    unfold renderBodyG
    rw [List.append_assoc, linesGo_skips sk _ (hs _ (List.mem_cons_self ..)), parseLines_skips sk _ (hs _ (List.mem_cons_self ..))]
    rw [show renderLine e ++ [10] ++ renderBodyG rest ++ tail = renderLine e ++ 10 :: (renderBodyG rest ++ tail) by simp]
    rw [linesGo_run _ _ [] (renderLine_no_nl e)]
    simp only [List.nil_append, stripCR_renderLine, parseLines]
    rw [parseLine_renderLine e (h _ (List.mem_cons_self ..))]
    simp only
    rw [ih (fun y hy => hs y (List.mem_cons_of_mem _ hy)) (fun y hy => h y (List.mem_cons_of_mem _ hy))]
    simp

/-- MAIN (layout freedom): any number of blank lines and comment lines before the data, between data lines and
    after them leaves the loaded table unchanged -/
theorem parseFile_renderG (pre post : List (List Nat)) (xs : List (List (List Nat) × (Nat × Nat)))
    (hpre : ∀ l ∈ pre, skipLine l = true) (hpost : ∀ l ∈ post, skipLine l = true)
    (hs : ∀ x ∈ xs, ∀ l ∈ x.1, skipLine l = true)
    (h : ∀ x ∈ xs, x.2.1 ≤ 18446744073709551615 ∧ x.2.2 ≤ 255) :
    parseFile (pre.flatMap (fun l => l ++ [10]) ++ (renderBodyG xs ++ post.flatMap (fun l => l ++ [10])))
      = .ok (xs.map (·.2)) := by
  unfold parseFile
  rw [linesGo_skips pre _ hpre, parseLines_skips pre _ hpre]
  apply parseLines_linesGo_bodyG xs _ _ hs h
  have := linesGo_skips post [] hpost
  rw [List.append_nil] at this
  rw [this, parseLines_skips post _ hpost]
  simp [linesGo, parseLines]

end Hifi.LeapFile
