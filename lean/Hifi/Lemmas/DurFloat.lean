import Hifi.Lemmas.SoftF64
import Hifi.Lemmas.Duration
import Hifi.Model.DurFloat
import Hifi.Spec.DurFloat
/-
  Lemmas for property C18 (Duration ↔ float) about the model `Hifi/Model/DurFloat.lean`,
  on top of the SoftF64 lemmas (`rnd_mono`, `rnd_int`, `rnd_toRat_fin`, …) and the Duration lemmas
  (`fromTruncated_spec`, `fromTotal_spec`, `add_spec`, `neg_spec`).  Core Lean only.
-/
namespace Hifi
open F64 Spec DurFloat

/-! ### truncation toward zero -/

theorem truncQ_eq_truncR (x : Rat) : truncQ x = truncR x := rfl

theorem truncQ_of_nonneg {x : Rat} (h : 0 ≤ x) : truncQ x = x.floor := by
  unfold truncQ
  rw [Rat.floor_def]
  have hn : 0 ≤ x.num := Rat.num_nonneg.mpr h
  rw [Int.tdiv_eq_ediv_of_nonneg hn]

theorem truncQ_neg (x : Rat) : truncQ (-x) = -truncQ x := by
  unfold truncQ
  rw [Rat.neg_num, Rat.neg_den, Int.neg_tdiv]

theorem truncQ_ge {x : Rat} {k : Int} (hk : 0 ≤ k) (h : (k : Rat) ≤ x) : k ≤ truncQ x := by
  have hx : 0 ≤ x := by
    have : (0 : Rat) ≤ (k : Rat) := Rat.intCast_nonneg.mpr hk
    grind
  rw [truncQ_of_nonneg hx]
  exact Rat.le_floor_iff.mpr h

theorem truncQ_le_neg {x : Rat} {k : Int} (hk : 0 ≤ k) (h : x ≤ -(k : Rat)) : truncQ x ≤ -k := by
  have := truncQ_ge (x := -x) hk (by grind)
  rw [truncQ_neg] at this
  omega

theorem truncQ_intCast (n : Int) : truncQ (n : Rat) = n := by
  unfold truncQ; simp

/-- |trunc x| ≤ |x| : bounds carry over -/
theorem truncQ_lt {x : Rat} {k : Int} (hk : 0 < k) (h : x < (k : Rat)) : truncQ x < k := by
  by_cases hx : 0 ≤ x
  · rw [truncQ_of_nonneg hx]; exact Rat.floor_lt_iff.mpr h
  · have : 0 ≤ -x := by grind
    have h2 : truncQ (-x) = (-x).floor := truncQ_of_nonneg this
    rw [truncQ_neg] at h2
    have : 0 ≤ (-x).floor := Rat.le_floor_iff.mpr (by simpa using this)
    omega

theorem truncQ_gt {x : Rat} {k : Int} (hk : 0 < k) (h : -(k : Rat) < x) : -k < truncQ x := by
  have := truncQ_lt (x := -x) hk (by grind)
  rw [truncQ_neg] at this
  omega
theorem DMAX_eq : DMAX = 103407943680000000000000 := by decide
theorem DMIN_eq : DMIN = -103407943680000000000000 := by decide

theorem rnd_pow2_100 : rnd (pow2 100) = fin false 4503599627370496 48 := by decide +kernel
theorem toRat_pow2_100 : toRat (fin false 4503599627370496 48) = pow2 100 := by decide +kernel
theorem pow2_100_int : pow2 100 = ((1267650600228229401496703205376 : Int) : Rat) := by decide +kernel

theorem truncNs_fin (s : Bool) (m : Nat) (e : Int) :
    truncNs (fin s m e) = some (clampD (truncQ (toRat (fin s m e)))) := rfl
theorem truncNs_inf (s : Bool) : truncNs (inf s) = some (if s then DMIN else DMAX) := rfl

/-- a product of at least 2^100 ns saturates at the upper bound -/
theorem truncNs_rnd_big {X : Rat} (h : pow2 100 ≤ X) : truncNs (rnd X) = some DMAX := by
  have hm := rnd_mono h
  rw [rnd_pow2_100] at hm
  have hpos : 0 < X := by have := pow2_pos 100; grind
  rcases rnd_pos_cases hpos with ⟨m, e, hr⟩ | hr
  · rw [hr] at hm ⊢
    rw [le_fin_fin, decide_eq_true_eq, toRat_pow2_100, pow2_100_int] at hm
    have := truncQ_ge (by decide) hm
    rw [truncNs_fin, clampD_hi (by omega), DMAX_eq]
  · rw [hr]; rfl

theorem truncNs_rnd_small {X : Rat} (h : X ≤ -pow2 100) : truncNs (rnd X) = some DMIN := by
  have hX : X ≠ 0 := by have := pow2_pos 100; grind
  have h2 := truncNs_rnd_big (X := -X) (by grind)
  rw [rnd_neg hX] at h2
  have hneg : X < 0 := by have := pow2_pos 100; grind
  rcases rnd_neg_cases hneg with ⟨m, e, hr⟩ | hr
  · rw [hr] at h2 ⊢
    unfold neg at h2
    simp only [Bool.not_true] at h2
    rw [truncNs_fin] at h2 ⊢
    simp only [Option.some.injEq] at h2 ⊢
    have e1 : toRat (fin true m e) = -toRat (fin false m e) := by simp [toRat_fin]
    rw [e1, truncQ_neg]
    generalize truncQ (toRat (fin false m e)) = t at *
    rw [DMAX_eq] at h2; rw [DMIN_eq]
    unfold clampD DMIN DMAX at *; simp only [NPCs_eq] at *; grind
  · rw [hr]; rfl


/-- facts about a unit's f64 factor `f` and its length `fs` in ns that the proof of
    `unitMulF64_spec` needs; checked by evaluation for each of the nine units -/
def unitFactsOk (f : F64) (fs : Int) : Bool :=
  match f, F64.div maxF f, F64.div minF f with
  | .fin false mf ef, .fin false mc ec, .fin true mc' ec' =>
    decide (mf ≠ 0) && decide (toRat (.fin false mf ef) = (fs : Rat)) && decide (0 < fs) &&
      decide (mc = mc') && decide (ec = ec') &&
      decide (pow2 100 ≤ toRat (.fin false mc ec) * (fs : Rat))
  | _, _, _ => false

theorem i64MaxF_eq : i64MaxF = fin false 4503599627370496 11 := by decide +kernel
theorem toRat_i64MaxF : toRat (fin false 4503599627370496 11) = ((9223372036854775808 : Int) : Rat) := by
  decide +kernel

theorem lt_fin_fin (s1 : Bool) (m1 : Nat) (e1 : Int) (s2 : Bool) (m2 : Nat) (e2 : Int) :
    lt (fin s1 m1 e1) (fin s2 m2 e2) = decide (toRat (fin s1 m1 e1) < toRat (fin s2 m2 e2)) := rfl

theorem toIntSat_fin (lo hi : Int) (s : Bool) (m : Nat) (e : Int) :
    toIntSat lo hi (fin s m e) =
      if truncQ (toRat (fin s m e)) < lo then lo
      else if truncQ (toRat (fin s m e)) > hi then hi else truncQ (toRat (fin s m e)) := rfl

theorem clampD_toIntSat (lo hi x : Int) (hlo : lo ≤ -103407943680000000000000)
    (hhi : 103407943680000000000000 ≤ hi) :
    clampD (if x < lo then lo else if x > hi then hi else x) = clampD x := by
  unfold clampD DMIN DMAX; simp only [NPCs_eq]; grind

theorem Dur_MAX_spec : Dur.MAX.Canon ∧ Dur.MAX.val = DMAX := by
  unfold Dur.MAX Dur.Canon Dur.val valP; simp only [NPC_eq, NPCs_eq, DMAX_eq]; grind
theorem Dur_MIN_spec : Dur.MIN.Canon ∧ Dur.MIN.val = DMIN := by
  unfold Dur.MIN Dur.Canon Dur.val valP; simp only [NPC_eq, NPCs_eq, DMIN_eq]; grind

/-- the value read off a product `t` computed by `F64.mul` agrees with the spec's rounding -/
theorem mul_reading (sq : Bool) (mq : Nat) (eq : Int) (mf : Nat) (ef : Int) (hmf : mf ≠ 0) :
    F64.mul (fin sq mq eq) (fin false mf ef) ≠ nan ∧
    truncNs (F64.mul (fin sq mq eq) (fin false mf ef)) =
      truncNs (rnd (toRat (fin sq mq eq) * toRat (fin false mf ef))) := by
  unfold F64.mul
  by_cases h0 : mq = 0
  · subst h0
    simp only [true_or, if_true]
    rw [toRat_fin_zero, Rat.zero_mul, rnd_zero]
    refine ⟨(by unfold zero; intro h; cases h), ?_⟩
    unfold zero; rw [truncNs_fin, truncNs_fin, toRat_fin_zero, toRat_fin_zero]
  · have : ¬ (mq = 0 ∨ mf = 0) := by omega
    simp only [this, if_false]
    exact ⟨rnd_ne_nan _, trivial⟩

theorem unitMulF64_gen (f : F64) (fs : Int) (hok : unitFactsOk f fs = true) (q : F64)
    (hfin : q.isFinite = true) :
    (unitMulF64 f q).Canon ∧ some (unitMulF64 f q).val = unitTimesF fs q := by
  cases q with
  | nan => cases hfin
  | inf s => cases hfin
  | fin sq mq eq =>
  unfold unitFactsOk at hok
  split at hok
  case h_2 => cases hok
  case h_1 x1 x2 mf ef mc ec mc' ec' hc hc' =>
  simp only [Bool.and_eq_true, decide_eq_true_eq] at hok
  obtain ⟨⟨⟨⟨⟨hmf, hval⟩, hpos⟩, hmc⟩, hec⟩, hbig⟩ := hok
  subst hmc; subst hec
  have hspec : unitTimesF fs (fin sq mq eq) = truncNs (rnd (toRat (fin sq mq eq) * (fs : Rat))) := rfl
  rw [hspec]
  have hfspos : (0 : Rat) < (fs : Rat) := Rat.intCast_pos.mpr hpos
  unfold unitMulF64
  rw [hc, hc']
  by_cases hA : F64.ge (fin sq mq eq) (fin false mc ec) = true
  · rw [if_pos hA]
    unfold F64.ge at hA; rw [le_fin_fin, decide_eq_true_eq] at hA
    have : pow2 100 ≤ toRat (fin sq mq eq) * (fs : Rat) := by
      have := Rat.mul_le_mul_of_nonneg_right hA (Rat.le_of_lt hfspos)
      grind
    rw [truncNs_rnd_big this]
    exact ⟨Dur_MAX_spec.1, by rw [Dur_MAX_spec.2]⟩
  · rw [if_neg hA]
    by_cases hB : F64.le (fin sq mq eq) (fin true mc ec) = true
    · rw [if_pos hB]
      rw [le_fin_fin, decide_eq_true_eq] at hB
      have e1 : toRat (fin true mc ec) = -toRat (fin false mc ec) := by simp [toRat_fin]
      rw [e1] at hB
      have : toRat (fin sq mq eq) * (fs : Rat) ≤ -pow2 100 := by
        have := Rat.mul_le_mul_of_nonneg_right hB (Rat.le_of_lt hfspos)
        grind
      rw [truncNs_rnd_small this]
      exact ⟨Dur_MIN_spec.1, by rw [Dur_MIN_spec.2]⟩
    · rw [if_neg hB]
      obtain ⟨hnn, hread⟩ := mul_reading sq mq eq mf ef hmf
      rw [hval] at hread
      rw [← hread]
      generalize F64.mul (fin sq mq eq) (fin false mf ef) = t at *
      rw [i64MaxF_eq]
      cases t with
      | nan => exact absurd rfl hnn
      | inf st =>
        have : F64.lt (F64.abs (inf st)) (fin false 4503599627370496 11) = false := rfl
        rw [this]; simp only [Bool.false_eq_true, if_false]
        have ht := fromTotal_spec (toI128 (inf st))
        refine ⟨ht.1, ?_⟩
        rw [ht.2, truncNs_inf]
        cases st <;> simp only [Bool.false_eq_true, if_false, if_true, DMAX_eq, DMIN_eq] <;> decide
      | fin st mt et =>
        have habs : F64.abs (fin st mt et) = fin false mt et := rfl
        rw [habs, lt_fin_fin, truncNs_fin]
        have hmag : toRat (fin st mt et) = (if st then -toRat (fin false mt et) else toRat (fin false mt et)) := by
          cases st <;> simp [toRat_fin]
        by_cases hC : toRat (fin false mt et) < toRat (fin false 4503599627370496 11)
        · rw [if_pos (decide_eq_true hC)]
          rw [toRat_i64MaxF] at hC
          have hnn2 := mag_nonneg mt et
          have hb : -9223372036854775808 < truncQ (toRat (fin st mt et)) ∧
              truncQ (toRat (fin st mt et)) < 9223372036854775808 := by
            rw [hmag]
            have e0 : toRat (fin false mt et) = (mt : Rat) * pow2 et := by simp [toRat_fin]
            rw [e0] at hC ⊢
            cases st
            · simp only [Bool.false_eq_true, if_false]
              exact ⟨truncQ_gt (by decide) (by grind), truncQ_lt (by decide) hC⟩
            · simp only [if_true]
              exact ⟨truncQ_gt (by decide) (by grind), truncQ_lt (by decide) (by grind)⟩
          have hcast : toI64 (fin st mt et) = truncQ (toRat (fin st mt et)) := by
            unfold toI64
            rw [toIntSat_fin, if_neg (by omega), if_neg (by omega)]
          rw [hcast]
          have ht := fromTruncated_spec (truncQ (toRat (fin st mt et)))
            (by unfold fitsI64; simp only [decide_eq_true_eq]; omega)
          refine ⟨ht.1, ?_⟩
          rw [ht.2, clampD_mid (by omega) (by omega)]
        · rw [if_neg (by simpa using hC)]
          have ht := fromTotal_spec (toI128 (fin st mt et))
          refine ⟨ht.1, ?_⟩
          rw [ht.2]
          unfold toI128
          rw [toIntSat_fin, clampD_toIntSat _ _ _ (by decide) (by decide)]


/-- the table of (f64 factor, length in ns) pairs of the nine units -/
def unitTable : List (String × F64 × Int) :=
  ["ns", "us", "ms", "s", "min", "h", "d", "wk", "cy"].filterMap
    (fun u => match unitFactorF u, unitNs u with
      | some f, some fs => some (u, f, fs)
      | _, _ => none)

theorem unitTable_ok : unitTable.length = 9 ∧ unitTable.all (fun p => unitFactsOk p.2.1 p.2.2) = true := by
  decide +kernel

theorem unit_cases {u : String} {f : F64} {fs : Int} (hu : unitFactorF u = some f) (hs : unitNs u = some fs) :
    (u, f, fs) ∈ unitTable := by
  unfold unitFactorF at hu
  split at hu
  all_goals cases hu
  all_goals (simp [unitNs] at hs; subst hs; decide +kernel)

theorem unitFacts_of_unit {u : String} {f : F64} {fs : Int} (hu : unitFactorF u = some f)
    (hs : unitNs u = some fs) : unitFactsOk f fs = true := by
  have hmem := unit_cases hu hs
  have hall := unitTable_ok.2
  rw [List.all_eq_true] at hall
  exact hall _ hmem


/-! ### `Duration::to_seconds` -/

/-- the double just below one -/
def u1 : F64 := fin false 9007199254740991 (-53)
/-- the literal `1e-9` as a rational -/
def k9r : Rat := toRat (lit1em 9)

theorem k9_facts :
    (lit1em 9).isFinite = true ∧ rnd k9r = lit1em 9 ∧ 0 < k9r ∧
    (999999999 : Rat) * k9r ≤ toRat u1 ∧ rnd (toRat u1) = u1 ∧ toRat u1 < 1 ∧ 0 ≤ toRat u1 ∧
    toRat u1 = 1 - pow2 (-53) := by
  decide +kernel

theorem spc_facts : SECONDS_PER_CENTURY.isFinite = true ∧ toRat SECONDS_PER_CENTURY = ((3155760000 : Int) : Rat) := by
  decide +kernel

/-- fractional-second contribution computed by the code for `s` sub-second nanoseconds -/
def gOf (s : Int) : Rat := toRat (F64.mul (F64.ofInt s) (lit1em 9))

theorem gOf_form (s : Int) (hs : 0 ≤ s ∧ s ≤ 999999999) :
    ∃ sg, F64.mul (F64.ofInt s) (lit1em 9) = rndz ((s : Rat) * k9r) sg := by
  obtain ⟨f, v⟩ := ofInt_exact s (by omega)
  have := mul_finite f k9_facts.1
  rw [v] at this
  exact ⟨_, this⟩

theorem sk_bounds (s : Int) (hs : 0 ≤ s ∧ s ≤ 999999999) :
    0 ≤ (s : Rat) * k9r ∧ (s : Rat) * k9r ≤ toRat u1 := by
  have hk := k9_facts.2.2.1
  have h0 : (0 : Rat) ≤ (s : Rat) := Rat.intCast_nonneg.mpr hs.1
  have h1 : (s : Rat) ≤ ((999999999 : Int) : Rat) := Rat.intCast_le_intCast.mpr hs.2
  have a := Rat.mul_le_mul_of_nonneg_right h0 (Rat.le_of_lt hk)
  have b := Rat.mul_le_mul_of_nonneg_right h1 (Rat.le_of_lt hk)
  have c := k9_facts.2.2.2.1
  have : ((999999999 : Int) : Rat) = (999999999 : Rat) := rfl
  rw [this] at b
  grind

theorem gOf_finite (s : Int) (hs : 0 ≤ s ∧ s ≤ 999999999) :
    (F64.mul (F64.ofInt s) (lit1em 9)).isFinite = true ∧ 0 ≤ gOf s ∧ gOf s ≤ toRat u1 := by
  obtain ⟨sg, hform⟩ := gOf_form s hs
  have hb := sk_bounds s hs
  have h1 : toRat u1 ≤ ((1 : Int) : Rat) := by have := k9_facts.2.2.2.2.2.1; grind
  have hbt := rndz_between (x := (s : Rat) * k9r) (lo := 0) (hi := 1) sg (by decide) (by decide)
    (by simpa using hb.1) (by grind)
  unfold gOf; rw [hform]
  refine ⟨hbt.1, by simpa using hbt.2.1, ?_⟩
  have hle := le_rndz hb.2 sg false
  have hu : rndz (toRat u1) false = u1 := by
    unfold rndz; rw [if_neg (by have := k9_facts; decide +kernel), k9_facts.2.2.2.2.1]
  rw [hu] at hle
  exact toRat_le_of_le hbt.1 rfl hle

theorem gOf_mono {s t : Int} (hs : 0 ≤ s ∧ s ≤ 999999999) (ht : 0 ≤ t ∧ t ≤ 999999999) (h : s ≤ t) :
    gOf s ≤ gOf t := by
  obtain ⟨sg, hf1⟩ := gOf_form s hs
  obtain ⟨tg, hf2⟩ := gOf_form t ht
  have f1 := (gOf_finite s hs).1
  have f2 := (gOf_finite t ht).1
  have hk := k9_facts.2.2.1
  have : (s : Rat) * k9r ≤ (t : Rat) * k9r :=
    Rat.mul_le_mul_of_nonneg_right (Rat.intCast_le_intCast.mpr h) (Rat.le_of_lt hk)
  have hle := le_rndz this sg tg
  unfold gOf
  rw [hf1] at f1 ⊢; rw [hf2] at f2 ⊢
  exact toRat_le_of_le f1 f2 hle

theorem gOf_pos {s : Int} (hs : 1 ≤ s ∧ s ≤ 999999999) : k9r ≤ gOf s := by
  obtain ⟨sg, hf⟩ := gOf_form s (by omega)
  have f := (gOf_finite s (by omega)).1
  have hk := k9_facts.2.2.1
  have : k9r ≤ (s : Rat) * k9r := by
    have h1 : ((1 : Int) : Rat) ≤ (s : Rat) := Rat.intCast_le_intCast.mpr hs.1
    have := Rat.mul_le_mul_of_nonneg_right h1 (Rat.le_of_lt hk)
    simpa using this
  have hle := le_rndz this false sg
  have hu : rndz k9r false = lit1em 9 := by
    unfold rndz; rw [if_neg (by grind), k9_facts.2.1]
  rw [hu] at hle
  unfold gOf
  rw [hf] at f ⊢
  exact toRat_le_of_le k9_facts.1 f hle

theorem gOf_zero : gOf 0 = 0 := by decide +kernel

/-- whole seconds of a duration, as the integer the code accumulates exactly in f64 -/
def secI (d : Dur) : Int := d.c * 3155760000 + d.ns / 1000000000

theorem toSeconds_form (d : Dur) (hd : d.Canon) :
    ∃ sg, toSeconds d = rndz ((secI d : Rat) + gOf (d.ns % 1000000000)) sg := by
  obtain ⟨c1, c2, c3, c4⟩ := hd
  simp only [NPC_eq] at c4
  have hS : 0 ≤ d.ns / 1000000000 ∧ d.ns / 1000000000 ≤ 3155760000 := by omega
  have hs : 0 ≤ d.ns % 1000000000 ∧ d.ns % 1000000000 ≤ 999999999 := by omega
  obtain ⟨fS, vS⟩ := ofInt_exact (d.ns / 1000000000) (by omega)
  obtain ⟨fG, _, _⟩ := gOf_finite _ hs
  unfold toSeconds
  show ∃ sg, (if d.c = 0 then
      F64.add (F64.ofInt (d.ns / 1000000000)) (F64.mul (F64.ofInt (d.ns % 1000000000)) (lit1em 9))
    else F64.add (F64.add (F64.mul (F64.ofInt d.c) SECONDS_PER_CENTURY) (F64.ofInt (d.ns / 1000000000)))
      (F64.mul (F64.ofInt (d.ns % 1000000000)) (lit1em 9))) = _
  by_cases hc : d.c = 0
  · rw [if_pos hc]
    have := add_finite fS fG
    have e0 : (F64.ofInt (d.ns / 1000000000)).toRat = (secI d : Rat) := by
      rw [vS]; unfold secI; rw [hc]; simp
    rw [e0] at this
    exact ⟨_, this⟩
  · rw [if_neg hc]
    obtain ⟨fc, vc⟩ := ofInt_exact d.c (by omega)
    have m1 := mul_finite fc spc_facts.1
    rw [vc, spc_facts.2, ← Rat.intCast_mul] at m1
    obtain ⟨f1, v1⟩ := rndz_int (d.c * 3155760000) ((F64.ofInt d.c).sign != SECONDS_PER_CENTURY.sign) (by omega)
    rw [← m1] at f1 v1
    have a1 := add_finite f1 fS
    rw [v1, vS, ← Rat.intCast_add] at a1
    obtain ⟨f2, v2⟩ := rndz_int (d.c * 3155760000 + d.ns / 1000000000)
      ((F64.mul (F64.ofInt d.c) SECONDS_PER_CENTURY).sign && (F64.ofInt (d.ns / 1000000000)).sign) (by omega)
    rw [← a1] at f2 v2
    have a2 := add_finite f2 fG
    rw [v2] at a2
    exact ⟨_, a2⟩

/-- the exact rational the final rounding of `to_seconds` is applied to -/
def secJ (d : Dur) : Rat := (secI d : Rat) + gOf (d.ns % 1000000000)

theorem val_secI (d : Dur) : d.val = secI d * 1000000000 + d.ns % 1000000000 := by
  unfold Dur.val valP secI; simp only [NPCs_eq]; omega

theorem u1_lt_one : toRat u1 < 1 := k9_facts.2.2.2.2.2.1

theorem secJ_mono (d1 d2 : Dur) (h1 : d1.Canon) (h2 : d2.Canon) (h : d1.val ≤ d2.val) :
    secJ d1 ≤ secJ d2 := by
  rw [val_secI, val_secI] at h
  obtain ⟨_, _, a3, a4⟩ := h1
  obtain ⟨_, _, b3, b4⟩ := h2
  have hs1 : 0 ≤ d1.ns % 1000000000 ∧ d1.ns % 1000000000 ≤ 999999999 := by omega
  have hs2 : 0 ≤ d2.ns % 1000000000 ∧ d2.ns % 1000000000 ≤ 999999999 := by omega
  have g1 := gOf_finite _ hs1
  have g2 := gOf_finite _ hs2
  unfold secJ
  by_cases hI : secI d1 < secI d2
  · have : ((secI d1 + 1 : Int) : Rat) ≤ (secI d2 : Rat) := Rat.intCast_le_intCast.mpr (by omega)
    rw [Rat.intCast_add] at this
    have := u1_lt_one
    have e1 : ((1 : Int) : Rat) = 1 := rfl
    grind
  · have hI2 : secI d1 = secI d2 := by omega
    have := gOf_mono hs1 hs2 (by omega)
    rw [hI2]; grind

/-- `to_seconds` is non-decreasing in the duration -/
theorem toSeconds_mono (d1 d2 : Dur) (h1 : d1.Canon) (h2 : d2.Canon) (h : d1.val ≤ d2.val) :
    F64.le (toSeconds d1) (toSeconds d2) = true := by
  obtain ⟨s1, e1⟩ := toSeconds_form d1 h1
  obtain ⟨s2, e2⟩ := toSeconds_form d2 h2
  rw [e1, e2]
  exact le_rndz (secJ_mono d1 d2 h1 h2 h) s1 s2

/-- `to_seconds` is finite, within one second above its whole-second count, at least 1e-9 for a
    positive duration and at most -2^-53 for a negative one -/
theorem toSeconds_bounds (d : Dur) (hd : d.Canon) :
    (toSeconds d).isFinite = true ∧
    ((secI d : Int) : Rat) ≤ toRat (toSeconds d) ∧ toRat (toSeconds d) ≤ ((secI d + 1 : Int) : Rat) ∧
    (0 < d.val → k9r ≤ toRat (toSeconds d)) ∧
    (d.val < 0 → toRat (toSeconds d) ≤ -pow2 (-53)) ∧ (d.val = 0 → toRat (toSeconds d) = 0) := by
  obtain ⟨sg, e⟩ := toSeconds_form d hd
  have hv := val_secI d
  obtain ⟨c1, c2, c3, c4⟩ := hd
  simp only [NPC_eq] at c4
  have hs : 0 ≤ d.ns % 1000000000 ∧ d.ns % 1000000000 ≤ 999999999 := by omega
  have hg := gOf_finite _ hs
  have hIb : -103407943680000 ≤ secI d ∧ secI d ≤ 103407943680000 := by unfold secI; omega
  have hu := u1_lt_one
  have one_cast : ((1 : Int) : Rat) = 1 := rfl
  have hlo : ((secI d : Int) : Rat) ≤ secJ d := by unfold secJ; grind
  have hhi : secJ d ≤ ((secI d + 1 : Int) : Rat) := by
    unfold secJ; rw [Rat.intCast_add]; grind
  have hbt := rndz_between (x := secJ d) sg (lo := secI d) (hi := secI d + 1) (by omega) (by omega) hlo hhi
  rw [e]
  refine ⟨hbt.1, hbt.2.1, hbt.2.2, ?_, ?_, ?_⟩
  · intro hpos
    have hk := k9_facts.2.2.1
    have hJ : k9r ≤ secJ d := by
      unfold secJ
      by_cases hI0 : secI d = 0
      · have : 1 ≤ d.ns % 1000000000 := by omega
        have := gOf_pos (s := d.ns % 1000000000) (by omega)
        rw [hI0, show ((0 : Int) : Rat) = 0 from rfl, Rat.zero_add]; exact this
      · have hI1 : 1 ≤ secI d := by omega
        have : ((1 : Int) : Rat) ≤ (secI d : Rat) := Rat.intCast_le_intCast.mpr hI1
        have hk1 : k9r ≤ 1 := by
          have := k9_facts; decide +kernel
        grind
    have hle := le_rndz hJ false sg
    have hu2 : rndz k9r false = lit1em 9 := by
      unfold rndz; rw [if_neg (by grind), k9_facts.2.1]
    rw [hu2] at hle
    exact toRat_le_of_le k9_facts.1 hbt.1 hle
  · intro hneg
    have hI1 : secI d ≤ -1 := by omega
    have hJ : secJ d ≤ -pow2 (-53) := by
      unfold secJ
      have : (secI d : Rat) ≤ ((-1 : Int) : Rat) := Rat.intCast_le_intCast.mpr hI1
      have e2 : ((-1 : Int) : Rat) = -1 := rfl
      have := k9_facts.2.2.2.2.2.2.2
      grind
    have hle := le_rndz hJ sg false
    have hu2 : rndz (-pow2 (-53)) false = fin true 4503599627370496 (-105) := by decide +kernel
    rw [hu2] at hle
    have := toRat_le_of_le hbt.1 rfl hle
    have e3 : toRat (fin true 4503599627370496 (-105)) = -pow2 (-53) := by decide +kernel
    rw [e3] at this; exact this
  · intro hz
    have hI0 : secI d = 0 := by omega
    have hs0 : d.ns % 1000000000 = 0 := by omega
    have : secJ d = 0 := by
      unfold secJ; rw [hI0, hs0, gOf_zero, show ((0 : Int) : Rat) = 0 from rfl, Rat.zero_add]
    show toRat (rndz (secJ d) sg) = 0
    rw [this, toRat_rndz_zero]

/-- `to_seconds` is finite and has the sign of the duration -/
theorem toSeconds_sign (d : Dur) (hd : d.Canon) :
    (toSeconds d).isFinite = true ∧ (0 < d.val → 0 < toRat (toSeconds d)) ∧
    (d.val < 0 → toRat (toSeconds d) < 0) ∧ (d.val = 0 → toRat (toSeconds d) = 0) := by
  obtain ⟨h1, _, _, h4, h5, h6⟩ := toSeconds_bounds d hd
  have hk := k9_facts.2.2.1
  have hp := pow2_pos (-53)
  exact ⟨h1, fun h => by have := h4 h; grind, fun h => by have := h5 h; grind, h6⟩

/-! ### generic helpers for the precision search of `Duration * f64` -/

theorem epsF_pos : toRat epsF = pow2 (-52) ∧ 0 < toRat epsF := by decide +kernel

theorem trunc_fin_def (s : Bool) (m : Nat) (e : Int) :
    F64.trunc (fin s m e) =
      if 0 ≤ e then fin s m e else ofIntSigned s (truncR (toRat (fin s m e))) := rfl

theorem trunc_fin_of_nonneg_exp (s : Bool) (m : Nat) (e : Int) (h : 0 ≤ e) :
    F64.trunc (fin s m e) = fin s m e := by
  rw [trunc_fin_def, if_pos h]

theorem trunc_fin_of_neg_exp (s : Bool) (m : Nat) (e : Int) (h : ¬ 0 ≤ e) :
    F64.trunc (fin s m e) = ofIntSigned s (truncR (toRat (fin s m e))) := by
  rw [trunc_fin_def, if_neg h]

theorem toRat_neg_fin (s : Bool) (m : Nat) (e : Int) : toRat (fin (!s) m e) = -toRat (fin s m e) := by
  cases s <;> simp [toRat_fin]

theorem sub_fin (s1 : Bool) (m1 : Nat) (e1 : Int) (s2 : Bool) (m2 : Nat) (e2 : Int) :
    F64.sub (fin s1 m1 e1) (fin s2 m2 e2) =
      rndz (toRat (fin s1 m1 e1) - toRat (fin s2 m2 e2)) (s1 && !s2) := by
  unfold F64.sub F64.neg
  rw [add_fin, toRat_neg_fin, Rat.sub_eq_add_neg]

theorem absR_toRat_fin (s : Bool) (m : Nat) (e : Int) : absR (toRat (fin s m e)) = (m : Rat) * pow2 e := by
  have := mag_nonneg m e
  rw [toRat_fin]; unfold absR; split <;> split <;> grind

theorem abs_fin (s : Bool) (m : Nat) (e : Int) : F64.abs (fin s m e) = fin false m e := rfl

theorem absR_mul_pos (a t : Rat) (ht : 0 < t) : absR (a * t) = absR a * t := by
  unfold absR
  by_cases ha : a < 0
  · have : a * t < 0 := by
      have := Rat.mul_pos (a := -a) (b := t) (by grind) ht; grind
    rw [if_pos ha, if_pos this]; grind
  · have : ¬ a * t < 0 := by
      have h0 : 0 ≤ a := by grind
      have := Rat.mul_le_mul_of_nonneg_right h0 (Rat.le_of_lt ht); grind
    rw [if_neg ha, if_neg this]

theorem rnd_pow2_200 : (rnd (pow2 200)).isFinite = true ∧ (rnd (-pow2 200)).isFinite = true ∧
    rnd (pow2 52) = fin false 4503599627370496 0 ∧ rnd (-pow2 52) = fin true 4503599627370496 0 ∧
    toRat (fin false 4503599627370496 0) = pow2 52 := by decide +kernel

/-- a canonical finite double of magnitude at least 2^52 has a non-negative exponent -/
theorem exp_nonneg_of_big {s : Bool} {m : Nat} {e : Int} (hw : wf (fin s m e) = true)
    (h : pow2 52 ≤ (m : Rat) * pow2 e) : 0 ≤ e := by
  unfold wf at hw; simp only [P52_eq, P53_eq, decide_eq_true_eq] at hw
  obtain ⟨w1, _, _, _⟩ := hw
  by_cases he : 0 ≤ e
  · exact he
  · exfalso
    have h1 : pow2 e ≤ pow2 (-1) := pow2_mono (by omega)
    have h2 : (m : Rat) < ((9007199254740992 : Int) : Rat) := natCast_lt_intCast (by omega)
    have h3 := Rat.mul_le_mul_of_nonneg_left h1 (Rat.natCast_nonneg (a := m))
    have h4 := mul_lt_mul_pos_right (pow2_pos (-1)) h2
    have h5 : ((9007199254740992 : Int) : Rat) * pow2 (-1) = pow2 52 := by decide +kernel
    grind

/-- `new_val` at step p ≥ 1 -/
def nvAt (q : F64) (p : Int) : F64 := F64.mul q (F64.powi tenF p)

theorem unitFacts_compose :
    unitFactsOk (F64.ofInt Gen.NANOSECONDS_PER_DAY) 86400000000000 = true ∧
    unitFactsOk (F64.ofInt Gen.NANOSECONDS_PER_HOUR) 3600000000000 = true ∧
    unitFactsOk (F64.ofInt Gen.NANOSECONDS_PER_MINUTE) 60000000000 = true ∧
    unitFactsOk (F64.ofInt Gen.NANOSECONDS_PER_SECOND) 1000000000 = true ∧
    unitFactsOk (F64.ofInt Gen.NANOSECONDS_PER_MILLISECOND) 1000000 = true ∧
    unitFactsOk (F64.ofInt Gen.NANOSECONDS_PER_MICROSECOND) 1000 = true ∧
    unitFactsOk one 1 = true := by decide +kernel

theorem clampD_neg_range (x : Int) (h : -103407943680000000000000 ≤ x ∧ x ≤ 103407943680000000000000) :
    clampD (-x) = -x := by
  rw [clampD_mid] <;> omega

/-- `compose_f64` on finite fields: never panics, canonical, the saturating chain of the spec -/
theorem composeF64_spec (sign : Int) (d h m s ms us ns : F64)
    (hd : d.isFinite = true) (hh : h.isFinite = true) (hm : m.isFinite = true) (hs : s.isFinite = true)
    (hms : ms.isFinite = true) (hus : us.isFinite = true) (hns : ns.isFinite = true) :
    ∃ r, composeF64 sign d h m s ms us ns = .ok r ∧ r.Canon ∧ composeNs sign d h m s ms us ns = some r.val := by
  obtain ⟨f1, f2, f3, f4, f5, f6, f7⟩ := unitFacts_compose
  obtain ⟨c1, v1⟩ := unitMulF64_gen _ _ f1 d hd
  obtain ⟨c2, v2⟩ := unitMulF64_gen _ _ f2 h hh
  obtain ⟨c3, v3⟩ := unitMulF64_gen _ _ f3 m hm
  obtain ⟨c4, v4⟩ := unitMulF64_gen _ _ f4 s hs
  obtain ⟨c5, v5⟩ := unitMulF64_gen _ _ f5 ms hms
  obtain ⟨c6, v6⟩ := unitMulF64_gen _ _ f6 us hus
  obtain ⟨c7, v7⟩ := unitMulF64_gen _ _ f7 ns hns
  have a1 := add_spec _ _ c1 c2
  have a2 := add_spec _ _ a1.1 c3
  have a3 := add_spec _ _ a2.1 c4
  have a4 := add_spec _ _ a3.1 c5
  have a5 := add_spec _ _ a4.1 c6
  have a6 := add_spec _ _ a5.1 c7
  unfold composeNs
  rw [← v1, ← v2, ← v3, ← v4, ← v5, ← v6, ← v7]
  simp only [Option.bind_some]
  unfold composeF64
  have hval : (Dur.add (Dur.add (Dur.add (Dur.add (Dur.add (Dur.add
      (unitMulF64 (F64.ofInt Gen.NANOSECONDS_PER_DAY) d)
      (unitMulF64 (F64.ofInt Gen.NANOSECONDS_PER_HOUR) h))
      (unitMulF64 (F64.ofInt Gen.NANOSECONDS_PER_MINUTE) m))
      (unitMulF64 (F64.ofInt Gen.NANOSECONDS_PER_SECOND) s))
      (unitMulF64 (F64.ofInt Gen.NANOSECONDS_PER_MILLISECOND) ms))
      (unitMulF64 (F64.ofInt Gen.NANOSECONDS_PER_MICROSECOND) us))
      (unitMulF64 one ns)).val =
      satAdd (satAdd (satAdd (satAdd (satAdd (satAdd
        (unitMulF64 (F64.ofInt Gen.NANOSECONDS_PER_DAY) d).val
        (unitMulF64 (F64.ofInt Gen.NANOSECONDS_PER_HOUR) h).val)
        (unitMulF64 (F64.ofInt Gen.NANOSECONDS_PER_MINUTE) m).val)
        (unitMulF64 (F64.ofInt Gen.NANOSECONDS_PER_SECOND) s).val)
        (unitMulF64 (F64.ofInt Gen.NANOSECONDS_PER_MILLISECOND) ms).val)
        (unitMulF64 (F64.ofInt Gen.NANOSECONDS_PER_MICROSECOND) us).val)
        (unitMulF64 one ns).val := by
    unfold satAdd
    rw [a6.2, a5.2, a4.2, a3.2, a2.2, a1.2]
  by_cases hsg : sign < 0
  · rw [if_pos hsg, if_pos hsg]
    obtain ⟨r, e1, e2, e3⟩ := neg_spec _ a6.1
    exact ⟨r, e1, e2, by rw [e3, hval]⟩
  · rw [if_neg hsg, if_neg hsg]
    exact ⟨_, rfl, a6.1, by rw [hval]⟩

/-- exactness: when the real product is a whole number of nanoseconds of magnitude ≤ 2^53 the
    result is exactly that number -/
theorem unitMulF64_exact_gen (f : F64) (fs : Int) (hok : unitFactsOk f fs = true) (q : F64)
    (hfin : q.isFinite = true) (n : Int) (hn : -9007199254740992 ≤ n ∧ n ≤ 9007199254740992)
    (hprod : toRat q * (fs : Rat) = (n : Rat)) :
    (unitMulF64 f q).Canon ∧ (unitMulF64 f q).val = n := by
  obtain ⟨hc, hv⟩ := unitMulF64_gen f fs hok q hfin
  refine ⟨hc, ?_⟩
  obtain ⟨s, m, e, rfl⟩ := exists_fin_of_isFinite hfin
  have : unitTimesF fs (fin s m e) = truncNs (rnd (toRat (fin s m e) * (fs : Rat))) := rfl
  rw [this, hprod] at hv
  obtain ⟨r1, _, r3⟩ := rnd_int n hn
  obtain ⟨s', m', e', hr⟩ := exists_fin_of_isFinite r1
  rw [hr] at hv r3
  rw [truncNs_fin, r3, truncQ_intCast, clampD_mid (by omega) (by omega)] at hv
  exact Option.some.inj hv


/-! ### `Duration::to_unit` -/

/-- facts about `unit.from_seconds()` needed for sign and finiteness of `to_unit` -/
def fromSecOk (c : F64) : Bool :=
  c.isFinite && decide (0 < toRat c) && decide (toRat c ≤ pow2 30) &&
  (rnd (k9r * toRat c)).isFinite && decide (0 < toRat (rnd (k9r * toRat c))) &&
  (rnd (-pow2 (-53) * toRat c)).isFinite && decide (toRat (rnd (-pow2 (-53) * toRat c)) < 0)

def fromSecTable : List F64 :=
  ["ns", "us", "ms", "s", "min", "h", "d", "wk", "cy"].filterMap fromSecondsU

theorem fromSecTable_ok : fromSecTable.length = 9 ∧ fromSecTable.all fromSecOk = true := by
  decide +kernel

theorem fromSec_cases {u : String} {c : F64} (hu : fromSecondsU u = some c) : c ∈ fromSecTable := by
  unfold fromSecondsU inSeconds at hu
  split at hu
  all_goals (simp only [Option.map_some, Option.map_none, Option.some.injEq] at hu)
  all_goals (first | (subst hu; decide +kernel) | cases hu)

theorem fromSecOk_of_unit {u : String} {c : F64} (hu : fromSecondsU u = some c) : fromSecOk c = true := by
  have hall := fromSecTable_ok.2
  rw [List.all_eq_true] at hall
  exact hall _ (fromSec_cases hu)

theorem rnd200 : (rnd (pow2 200)).isFinite = true ∧ (rnd (-pow2 200)).isFinite = true :=
  ⟨rnd_pow2_200.1, rnd_pow2_200.2.1⟩

theorem toUnitWith_props (c : F64) (hc : fromSecOk c = true) (d : Dur) (hd : d.Canon) :
    (toUnitWith d c).isFinite = true ∧ (0 < d.val → 0 < toRat (toUnitWith d c)) ∧
    (d.val < 0 → toRat (toUnitWith d c) < 0) ∧ (d.val = 0 → toRat (toUnitWith d c) = 0) := by
  unfold fromSecOk at hc
  simp only [Bool.and_eq_true, decide_eq_true_eq] at hc
  obtain ⟨⟨⟨⟨⟨⟨cf, cpos⟩, cle⟩, pf⟩, ppos⟩, nf⟩, nneg⟩ := hc
  obtain ⟨tf, tlo, thi, tpos, tneg, tz⟩ := toSeconds_bounds d hd
  obtain ⟨c1, c2, c3, c4⟩ := hd
  simp only [NPC_eq] at c4
  have hIb : -103407943680000 ≤ secI d ∧ secI d ≤ 103407943680000 := by unfold secI; omega
  unfold toUnitWith
  rw [mul_finite tf cf]
  generalize ((toSeconds d).sign != c.sign) = sg
  -- |ts| ≤ 2^47, c ≤ 2^30: the product is below 2^200
  have hb1 : toRat (toSeconds d) ≤ pow2 47 := by
    have : ((secI d + 1 : Int) : Rat) ≤ ((140737488355328 : Int) : Rat) := Rat.intCast_le_intCast.mpr (by omega)
    have e : pow2 47 = ((140737488355328 : Int) : Rat) := by decide +kernel
    grind
  have hb2 : -pow2 47 ≤ toRat (toSeconds d) := by
    have : ((-140737488355328 : Int) : Rat) ≤ ((secI d : Int) : Rat) := Rat.intCast_le_intCast.mpr (by omega)
    have e : -pow2 47 = ((-140737488355328 : Int) : Rat) := by decide +kernel
    grind
  have hp : pow2 47 * pow2 30 ≤ pow2 200 := by rw [← pow2_add]; exact pow2_mono (by decide)
  have hup : toRat (toSeconds d) * toRat c ≤ pow2 200 := by
    have h1 := Rat.mul_le_mul_of_nonneg_right hb1 (Rat.le_of_lt cpos)
    have h2 := Rat.mul_le_mul_of_nonneg_left cle (Rat.le_of_lt (pow2_pos 47))
    grind
  have hdn : -pow2 200 ≤ toRat (toSeconds d) * toRat c := by
    have h1 := Rat.mul_le_mul_of_nonneg_right hb2 (Rat.le_of_lt cpos)
    have h2 := Rat.mul_le_mul_of_nonneg_left cle (Rat.le_of_lt (pow2_pos 47))
    grind
  have rz (x : Rat) (hx : x ≠ 0) (s : Bool) : rndz x s = rnd x := by unfold rndz; rw [if_neg hx]
  have p200 : pow2 200 ≠ 0 := pow2_ne_zero 200
  have hfin : (rndz (toRat (toSeconds d) * toRat c) sg).isFinite = true := by
    have l1 := le_rndz hdn false sg
    have l2 := le_rndz hup sg false
    rw [rz _ (by grind)] at l1
    rw [rz _ p200] at l2
    exact isFinite_of_le_le rnd200.2 rnd200.1 l1 l2
  refine ⟨hfin, ?_, ?_, ?_⟩
  · intro h
    have h1 := tpos h
    have h2 : k9r * toRat c ≤ toRat (toSeconds d) * toRat c :=
      Rat.mul_le_mul_of_nonneg_right h1 (Rat.le_of_lt cpos)
    have l := le_rndz h2 false sg
    have hk := k9_facts.2.2.1
    have : k9r * toRat c ≠ 0 := by have := Rat.mul_pos hk cpos; grind
    rw [rz _ this] at l
    have := toRat_le_of_le pf hfin l
    grind
  · intro h
    have h1 := tneg h
    have h2 : toRat (toSeconds d) * toRat c ≤ -pow2 (-53) * toRat c :=
      Rat.mul_le_mul_of_nonneg_right h1 (Rat.le_of_lt cpos)
    have l := le_rndz h2 sg false
    have hk := pow2_pos (-53)
    have : -pow2 (-53) * toRat c ≠ 0 := by have := Rat.mul_pos hk cpos; grind
    rw [rz _ this] at l
    have := toRat_le_of_le hfin nf l
    grind
  · intro h
    rw [tz h, Rat.zero_mul, toRat_rndz_zero]

/-- `to_unit` is non-decreasing in the duration -/
theorem toUnitWith_mono (c : F64) (hc : fromSecOk c = true) (d1 d2 : Dur) (h1 : d1.Canon) (h2 : d2.Canon)
    (h : d1.val ≤ d2.val) : F64.le (toUnitWith d1 c) (toUnitWith d2 c) = true := by
  unfold fromSecOk at hc
  simp only [Bool.and_eq_true, decide_eq_true_eq] at hc
  obtain ⟨⟨⟨⟨⟨⟨cf, cpos⟩, _⟩, _⟩, _⟩, _⟩, _⟩ := hc
  have t1 := (toSeconds_bounds d1 h1).1
  have t2 := (toSeconds_bounds d2 h2).1
  have hm := toRat_le_of_le t1 t2 (toSeconds_mono d1 d2 h1 h2 h)
  unfold toUnitWith
  rw [mul_finite t1 cf, mul_finite t2 cf]
  exact le_rndz (Rat.mul_le_mul_of_nonneg_right hm (Rat.le_of_lt cpos)) _ _


/-! ### accuracy of `to_seconds` -/

theorem absQ_eq_absR (x : Rat) : absQ x = absR x := rfl

theorem absR_add_le (a b : Rat) : absR (a + b) ≤ absR a + absR b := by
  unfold absR; split <;> split <;> split <;> grind

theorem absR_sub_comm (a b : Rat) : absR (a - b) = absR (b - a) := by
  unfold absR; split <;> split <;> grind

/-- the argument of the last rounding is ≥ 1e-9, ≤ -2^-53, or exactly 0, with the duration's sign -/
theorem secJ_cases (d : Dur) (hd : d.Canon) :
    (0 < d.val ∧ k9r ≤ secJ d) ∨ (d.val < 0 ∧ secJ d ≤ -pow2 (-53)) ∨ (d.val = 0 ∧ secJ d = 0) := by
  have hv := val_secI d
  obtain ⟨c1, c2, c3, c4⟩ := hd
  simp only [NPC_eq] at c4
  have hs : 0 ≤ d.ns % 1000000000 ∧ d.ns % 1000000000 ≤ 999999999 := by omega
  have hg := gOf_finite _ hs
  have hu := u1_lt_one
  by_cases hpos : 0 < d.val
  · left; refine ⟨hpos, ?_⟩
    have hk := k9_facts.2.2.1
    unfold secJ
    by_cases hI0 : secI d = 0
    · have : 1 ≤ d.ns % 1000000000 := by omega
      have := gOf_pos (s := d.ns % 1000000000) (by omega)
      rw [hI0, show ((0 : Int) : Rat) = 0 from rfl, Rat.zero_add]; exact this
    · have hI1 : 1 ≤ secI d := by omega
      have : ((1 : Int) : Rat) ≤ (secI d : Rat) := Rat.intCast_le_intCast.mpr hI1
      have one_cast : ((1 : Int) : Rat) = 1 := rfl
      have hk1 : k9r ≤ 1 := by
        have := k9_facts; decide +kernel
      grind
  · by_cases hneg : d.val < 0
    · right; left; refine ⟨hneg, ?_⟩
      have hI1 : secI d ≤ -1 := by omega
      unfold secJ
      have : (secI d : Rat) ≤ ((-1 : Int) : Rat) := Rat.intCast_le_intCast.mpr hI1
      have e2 : ((-1 : Int) : Rat) = -1 := rfl
      have := k9_facts.2.2.2.2.2.2.2
      grind
    · right; right
      have hz : d.val = 0 := by omega
      refine ⟨hz, ?_⟩
      have hI0 : secI d = 0 := by omega
      have hs0 : d.ns % 1000000000 = 0 := by omega
      unfold secJ; rw [hI0, hs0, gOf_zero, show ((0 : Int) : Rat) = 0 from rfl, Rat.zero_add]

/-- concrete facts about the literal 1e-9 -/
theorem k9_err_facts :
    (999999999 : Rat) * absR (k9r - 1 / 1000000000) ≤ pow2 (-53) * (3 / 5) ∧
    pow2 (-1022) ≤ pow2 (-53) ∧ pow2 (-53) ≤ k9r ∧ pow2 53 = 9007199254740992 ∧
    pow2 (-53) * 9007199254740992 = 1 ∧ pow2 (-54) * 2 = pow2 (-53) := by decide +kernel

/-- error of the fractional-second term: at most 1.1 · 2^-53 -/
theorem gOf_err (s : Int) (hs : 0 ≤ s ∧ s ≤ 999999999) :
    absR (gOf s - (s : Rat) / 1000000000) ≤ pow2 (-53) * (11 / 10) := by
  obtain ⟨sg, hform⟩ := gOf_form s hs
  obtain ⟨hfin, _, _⟩ := gOf_finite s hs
  have hb := sk_bounds s hs
  obtain ⟨e1, _, _, _, _, e6⟩ := k9_err_facts
  have hu := u1_lt_one
  -- representation error of the literal
  have hlit : absR ((s : Rat) * k9r - (s : Rat) / 1000000000) ≤ pow2 (-53) * (3 / 5) := by
    have h0 : (0 : Rat) ≤ (s : Rat) := Rat.intCast_nonneg.mpr hs.1
    have h1 : (s : Rat) ≤ (999999999 : Rat) := by
      have := Rat.intCast_le_intCast.mpr hs.2
      exact this
    have : (s : Rat) * k9r - (s : Rat) / 1000000000 = (s : Rat) * (k9r - 1 / 1000000000) := by grind
    rw [this]
    have hnn := absR_nonneg (k9r - 1 / 1000000000)
    have hmul : absR ((s : Rat) * (k9r - 1 / 1000000000)) = (s : Rat) * absR (k9r - 1 / 1000000000) := by
      rw [Rat.mul_comm, Rat.mul_comm (s : Rat)]
      by_cases hs0 : (s : Rat) = 0
      · rw [hs0, Rat.mul_zero, Rat.mul_zero]; decide +kernel
      · exact absR_mul_pos _ _ (by grind)
    rw [hmul]
    have := Rat.mul_le_mul_of_nonneg_right h1 hnn
    grind
  -- rounding error of the product
  have hrnd : absR (gOf s - (s : Rat) * k9r) ≤ pow2 (-54) := by
    unfold gOf; rw [hform]
    rw [hform] at hfin
    unfold rndz at hfin ⊢
    by_cases hz : (s : Rat) * k9r = 0
    · rw [if_pos hz, toRat_zero, hz]
      have : absR ((0 : Rat) - 0) = 0 := by decide +kernel
      rw [this]; exact Rat.le_of_lt (pow2_pos _)
    · rw [if_neg hz] at hfin ⊢
      have hae := rnd_abs_err hfin
      have hsp := ilog2_spec hz
      have hlt1 : absR ((s : Rat) * k9r) < pow2 0 := by
        rw [pow2_zero, absR_of_nonneg hb.1]; grind
      have : pow2 (ilog2 ((s : Rat) * k9r)) < pow2 0 := by grind
      have hl := pow2_lt_iff.mp this
      have hexp : expOf ((s : Rat) * k9r) ≤ -53 := by unfold expOf; split <;> omega
      have := pow2_mono hexp
      grind
  have htri := absR_add_le (gOf s - (s : Rat) * k9r) ((s : Rat) * k9r - (s : Rat) / 1000000000)
  have : gOf s - (s : Rat) * k9r + ((s : Rat) * k9r - (s : Rat) / 1000000000) = gOf s - (s : Rat) / 1000000000 := by
    grind
  rw [this] at htri
  grind

/-- **accuracy of `to_seconds`**: within 4 half-ulps (2^-53 relative) of the exact value, the ulp
    being that of one second for sub-second values:
    |to_seconds d − val/10^9| ≤ 4 · 2^-53 · max(|val/10^9|, 1) -/
theorem toSeconds_err (d : Dur) (hd : d.Canon) :
    closeTo 4 (toRat (toSeconds d)) ((d.val : Rat) / 1000000000) 1 = true := by
  obtain ⟨sg, e⟩ := toSeconds_form d hd
  obtain ⟨hfin, _, _, _, _, _⟩ := toSeconds_bounds d hd
  have hcases := secJ_cases d hd
  have hv := val_secI d
  have hcan := hd
  obtain ⟨c1, c2, c3, c4⟩ := hd
  simp only [NPC_eq] at c4
  have hs : 0 ≤ d.ns % 1000000000 ∧ d.ns % 1000000000 ≤ 999999999 := by omega
  have hge := gOf_err _ hs
  obtain ⟨_, f2, f3, f4, f5, _⟩ := k9_err_facts
  -- exact value E = I + s/10^9
  have hE : (d.val : Rat) / 1000000000 = (secI d : Rat) + ((d.ns % 1000000000 : Int) : Rat) / 1000000000 := by
    rw [hv, Rat.intCast_add, Rat.intCast_mul]
    have : ((1000000000 : Int) : Rat) = 1000000000 := rfl
    rw [this]; grind
  have hJE : absR (secJ d - (d.val : Rat) / 1000000000) ≤ pow2 (-53) * (11 / 10) := by
    rw [hE]; unfold secJ
    have : (secI d : Rat) + gOf (d.ns % 1000000000) -
        ((secI d : Rat) + ((d.ns % 1000000000 : Int) : Rat) / 1000000000) =
        gOf (d.ns % 1000000000) - ((d.ns % 1000000000 : Int) : Rat) / 1000000000 := by grind
    rw [this]; exact hge
  -- rounding error of the last addition
  have hR : absR (toRat (toSeconds d) - secJ d) * 9007199254740992 ≤ absR (secJ d) := by
    have e' : toSeconds d = rndz (secJ d) sg := e
    rw [e'] at hfin ⊢
    unfold rndz at hfin ⊢
    by_cases hz : secJ d = 0
    · rw [if_pos hz, toRat_zero, hz]; decide +kernel
    · rw [if_neg hz] at hfin ⊢
      have hlo : pow2 (-1022) ≤ absR (secJ d) := by
        rcases hcases with ⟨_, h⟩ | ⟨_, h⟩ | ⟨_, h⟩
        · rw [absR_of_nonneg (by have := pow2_pos (-53); grind)]; grind
        · rw [absR_of_neg (by have := pow2_pos (-53); grind)]; grind
        · exact absurd h hz
      have := rnd_rel_err hlo hfin
      rw [f4] at this; exact this
  unfold closeTo
  rw [decide_eq_true_eq, absQ_eq_absR, absQ_eq_absR]
  have htri := absR_add_le (toRat (toSeconds d) - secJ d) (secJ d - (d.val : Rat) / 1000000000)
  have : toRat (toSeconds d) - secJ d + (secJ d - (d.val : Rat) / 1000000000) =
      toRat (toSeconds d) - (d.val : Rat) / 1000000000 := by grind
  rw [this] at htri
  have htri2 := absR_add_le (secJ d - (d.val : Rat) / 1000000000) ((d.val : Rat) / 1000000000)
  have : secJ d - (d.val : Rat) / 1000000000 + (d.val : Rat) / 1000000000 = secJ d := by grind
  rw [this] at htri2
  have hnnE := absR_nonneg ((d.val : Rat) / 1000000000)
  have h4 : ((4 : Nat) : Rat) = 4 := rfl
  rw [h4]
  generalize absR (toRat (toSeconds d) - (d.val : Rat) / 1000000000) = A at *
  generalize absR (toRat (toSeconds d) - secJ d) = B at *
  generalize absR (secJ d - (d.val : Rat) / 1000000000) = C at *
  generalize absR (secJ d) = Jm at *
  generalize absR ((d.val : Rat) / 1000000000) = Em at *
  generalize pow2 (-53) = u at *
  -- A ≤ B + C,  B·2^53 ≤ Jm ≤ C + Em,  C ≤ 1.1u,  u·2^53 = 1
  split <;> grind



theorem mul_sat_clamp (v n : Int) (hv : -103407943680000000000000 ≤ v ∧ v ≤ 103407943680000000000000) :
    clampD (v * satI128 n) = clampD (v * n) := by
  unfold satI128
  by_cases h1 : n < -170141183460469231731687303715884105728
  · rw [if_pos h1]
    by_cases hv0 : v = 0
    · subst hv0; simp
    · by_cases hvp : 0 < v
      · have a := Int.mul_nonneg (show 0 ≤ v - 1 by omega) (show 0 ≤ -n by omega)
        have a' : (v - 1) * -n = -(v * n) + n := by rw [Int.sub_mul, Int.mul_neg, Int.one_mul]; omega
        have b := Int.mul_nonneg (show 0 ≤ v - 1 by omega)
          (show 0 ≤ (170141183460469231731687303715884105728 : Int) by decide)
        have b' : (v - 1) * 170141183460469231731687303715884105728 =
            v * 170141183460469231731687303715884105728 - 170141183460469231731687303715884105728 := by
          rw [Int.sub_mul, Int.one_mul]
        have c : v * -170141183460469231731687303715884105728 = -(v * 170141183460469231731687303715884105728) := by
          rw [Int.mul_neg]
        rw [clampD_lo (by omega), clampD_lo (by omega)]
      · have a := Int.mul_nonneg (show 0 ≤ -v - 1 by omega) (show 0 ≤ -n by omega)
        have a' : (-v - 1) * -n = v * n + n := by
          rw [Int.sub_mul, Int.neg_mul_neg, Int.one_mul]; omega
        have b := Int.mul_nonneg (show 0 ≤ -v - 1 by omega)
          (show 0 ≤ (170141183460469231731687303715884105728 : Int) by decide)
        have b' : (-v - 1) * 170141183460469231731687303715884105728 =
            -(v * 170141183460469231731687303715884105728) - 170141183460469231731687303715884105728 := by
          rw [Int.sub_mul, Int.neg_mul, Int.one_mul]
        have c : v * -170141183460469231731687303715884105728 = -(v * 170141183460469231731687303715884105728) := by
          rw [Int.mul_neg]
        rw [clampD_hi (by omega), clampD_hi (by omega)]
  · rw [if_neg h1]
    by_cases h2 : n > 170141183460469231731687303715884105727
    · rw [if_pos h2]
      by_cases hv0 : v = 0
      · subst hv0; simp
      · by_cases hvp : 0 < v
        · have a := Int.mul_nonneg (show 0 ≤ v - 1 by omega) (show 0 ≤ n by omega)
          have a' : (v - 1) * n = v * n - n := by rw [Int.sub_mul, Int.one_mul]
          have b := Int.mul_nonneg (show 0 ≤ v - 1 by omega)
            (show 0 ≤ (170141183460469231731687303715884105727 : Int) by decide)
          have b' : (v - 1) * 170141183460469231731687303715884105727 =
              v * 170141183460469231731687303715884105727 - 170141183460469231731687303715884105727 := by
            rw [Int.sub_mul, Int.one_mul]
          rw [clampD_hi (by omega), clampD_hi (by omega)]
        · have a := Int.mul_nonneg (show 0 ≤ -v - 1 by omega) (show 0 ≤ n by omega)
          have a' : (-v - 1) * n = -(v * n) - n := by rw [Int.sub_mul, Int.neg_mul, Int.one_mul]
          have b := Int.mul_nonneg (show 0 ≤ -v - 1 by omega)
            (show 0 ≤ (170141183460469231731687303715884105727 : Int) by decide)
          have b' : (-v - 1) * 170141183460469231731687303715884105727 =
              -(v * 170141183460469231731687303715884105727) - 170141183460469231731687303715884105727 := by
            rw [Int.sub_mul, Int.neg_mul, Int.one_mul]
          rw [clampD_lo (by omega), clampD_lo (by omega)]
    · rw [if_neg h2]

/-! ### accuracy of `to_unit` -/

theorem absR_mul (a b : Rat) : absR (a * b) = absR a * absR b := by
  by_cases hb : 0 < b
  · rw [absR_mul_pos a b hb, absR_of_nonneg (Rat.le_of_lt hb)]
  · by_cases hb0 : b = 0
    · subst hb0; rw [Rat.mul_zero]
      have : absR 0 = 0 := by decide +kernel
      rw [this, Rat.mul_zero]
    · have hneg : b < 0 := by grind
      have h1 := absR_mul_pos (-a) (-b) (by grind)
      have : -a * -b = a * b := by grind
      rw [this, absR_neg] at h1
      rw [h1, absR_of_neg hneg]

/-- (from_seconds factor, unit length in ns) pairs -/
def fromSecTable2 : List (F64 × Int) :=
  ["ns", "us", "ms", "s", "min", "h", "d", "wk", "cy"].filterMap
    (fun u => match fromSecondsU u, unitNs u with
      | some c, some fs => some (c, fs)
      | _, _ => none)

/-- `unit.from_seconds()` is within 2.1 · 2^-53 (relative) of 10^9 / unit length -/
def fromSecErrOk (p : F64 × Int) : Bool :=
  decide (0 < p.2) &&
  decide (absR (toRat p.1 - 1000000000 / (p.2 : Rat)) * 9007199254740992 ≤ (21 / 10) * (1000000000 / (p.2 : Rat))) &&
  decide (pow2 (-1022) ≤ k9r * toRat p.1) && decide (pow2 (-1022) ≤ pow2 (-53) * toRat p.1)

theorem fromSecTable2_ok : fromSecTable2.length = 9 ∧ fromSecTable2.all fromSecErrOk = true := by
  decide +kernel

theorem fromSec_cases2 {u : String} {c : F64} {fs : Int} (hu : fromSecondsU u = some c)
    (hs : unitNs u = some fs) : (c, fs) ∈ fromSecTable2 := by
  unfold fromSecondsU inSeconds at hu
  split at hu
  all_goals (simp only [Option.map_some, Option.map_none, Option.some.injEq] at hu)
  all_goals (first | (subst hu; simp [unitNs] at hs; subst hs; decide +kernel) | cases hu)

theorem toUnitWith_err (c : F64) (fs : Int) (hc : fromSecOk c = true) (he : fromSecErrOk (c, fs) = true)
    (d : Dur) (hd : d.Canon) :
    closeTo 8 (toRat (toUnitWith d c)) ((d.val : Rat) / (fs : Rat)) ((1000000000 : Rat) / (fs : Rat)) = true := by
  have hprops := toUnitWith_props c hc d hd
  have hts := toSeconds_err d hd
  obtain ⟨tf, tlo, thi, tpos, tneg, tz⟩ := toSeconds_bounds d hd
  unfold fromSecOk at hc
  simp only [Bool.and_eq_true, decide_eq_true_eq] at hc
  obtain ⟨⟨⟨⟨⟨⟨cf, cpos⟩, _⟩, _⟩, _⟩, _⟩, _⟩ := hc
  unfold fromSecErrOk at he
  simp only [Bool.and_eq_true, decide_eq_true_eq] at he
  obtain ⟨⟨⟨fpos, cerr⟩, lo1⟩, lo2⟩ := he
  have hfq : (0 : Rat) < (fs : Rat) := Rat.intCast_pos.mpr fpos
  have hfne : (fs : Rat) ≠ 0 := by grind
  -- ρ = 10^9 / f > 0 and E·ρ = val / f
  have hρpos : (0 : Rat) < 1000000000 / (fs : Rat) := by
    rw [Rat.div_def]; exact Rat.mul_pos (by decide) (Rat.inv_pos.mpr hfq)
  have hEρ : (d.val : Rat) / (fs : Rat) = (d.val : Rat) / 1000000000 * (1000000000 / (fs : Rat)) := by
    rw [Rat.div_def, Rat.div_def, Rat.div_def]
    have : (1000000000 : Rat)⁻¹ * 1000000000 = 1 := by decide +kernel
    rw [Rat.mul_assoc, ← Rat.mul_assoc (1000000000 : Rat)⁻¹, this, Rat.one_mul]
  unfold closeTo at hts ⊢
  rw [decide_eq_true_eq, absQ_eq_absR, absQ_eq_absR] at hts ⊢
  have h4 : ((4 : Nat) : Rat) = 4 := rfl
  have h8 : ((8 : Nat) : Rat) = 8 := rfl
  rw [h4] at hts; rw [h8]
  -- the final rounding
  have hfinU := hprops.1
  unfold toUnitWith at hfinU ⊢
  rw [mul_finite tf cf] at hfinU ⊢
  generalize ((toSeconds d).sign != c.sign) = sg at *
  have hR : absR (toRat (rndz (toRat (toSeconds d) * toRat c) sg) - toRat (toSeconds d) * toRat c) * 9007199254740992 ≤
      absR (toRat (toSeconds d) * toRat c) := by
    unfold rndz at hfinU ⊢
    by_cases hz : toRat (toSeconds d) * toRat c = 0
    · rw [if_pos hz, toRat_zero, hz]; decide +kernel
    · rw [if_neg hz] at hfinU ⊢
      have hlo : pow2 (-1022) ≤ absR (toRat (toSeconds d) * toRat c) := by
        rw [absR_mul_pos _ _ cpos]
        by_cases hv : 0 < d.val
        · have h1 := tpos hv
          have hk := k9_facts.2.2.1
          rw [absR_of_nonneg (by grind)]
          have := Rat.mul_le_mul_of_nonneg_right h1 (Rat.le_of_lt cpos)
          grind
        · by_cases hv2 : d.val < 0
          · have h1 := tneg hv2
            have hp := pow2_pos (-53)
            rw [absR_of_neg (by grind)]
            have := Rat.mul_le_mul_of_nonneg_right (show pow2 (-53) ≤ -toRat (toSeconds d) by grind) (Rat.le_of_lt cpos)
            grind
          · have : d.val = 0 := by omega
            rw [tz this, Rat.zero_mul] at hz; exact absurd rfl hz
      have := rnd_rel_err hlo hfinU
      rw [k9_err_facts.2.2.2.1] at this; exact this
  -- decomposition  ts·c − E·ρ = (ts − E)·c + E·(c − ρ)
  have hdec : toRat (toSeconds d) * toRat c - (d.val : Rat) / 1000000000 * (1000000000 / (fs : Rat)) =
      (toRat (toSeconds d) - (d.val : Rat) / 1000000000) * toRat c +
      (d.val : Rat) / 1000000000 * (toRat c - 1000000000 / (fs : Rat)) := by grind
  have htri1 := absR_add_le ((toRat (toSeconds d) - (d.val : Rat) / 1000000000) * toRat c)
      ((d.val : Rat) / 1000000000 * (toRat c - 1000000000 / (fs : Rat)))
  rw [← hdec, absR_mul_pos _ _ cpos, absR_mul] at htri1
  have htri2 := absR_add_le (toRat (rndz (toRat (toSeconds d) * toRat c) sg) - toRat (toSeconds d) * toRat c)
      (toRat (toSeconds d) * toRat c - (d.val : Rat) / 1000000000 * (1000000000 / (fs : Rat)))
  have e2 : toRat (rndz (toRat (toSeconds d) * toRat c) sg) - toRat (toSeconds d) * toRat c +
      (toRat (toSeconds d) * toRat c - (d.val : Rat) / 1000000000 * (1000000000 / (fs : Rat))) =
      toRat (rndz (toRat (toSeconds d) * toRat c) sg) - (d.val : Rat) / 1000000000 * (1000000000 / (fs : Rat)) := by
    grind
  rw [e2] at htri2
  have htri3 := absR_add_le (toRat (toSeconds d) * toRat c - (d.val : Rat) / 1000000000 * (1000000000 / (fs : Rat)))
      ((d.val : Rat) / 1000000000 * (1000000000 / (fs : Rat)))
  have e3 : toRat (toSeconds d) * toRat c - (d.val : Rat) / 1000000000 * (1000000000 / (fs : Rat)) +
      (d.val : Rat) / 1000000000 * (1000000000 / (fs : Rat)) = toRat (toSeconds d) * toRat c := by grind
  rw [e3] at htri3
  rw [hEρ]
  have hEabs : absR ((d.val : Rat) / 1000000000 * (1000000000 / (fs : Rat))) =
      absR ((d.val : Rat) / 1000000000) * (1000000000 / (fs : Rat)) := absR_mul_pos _ _ hρpos
  rw [hEabs] at htri3 ⊢
  -- name the quantities;  M = max(|E|, 1)
  generalize absR (toRat (rndz (toRat (toSeconds d) * toRat c) sg) -
      (d.val : Rat) / 1000000000 * (1000000000 / (fs : Rat))) = T at *
  generalize absR (toRat (rndz (toRat (toSeconds d) * toRat c) sg) - toRat (toSeconds d) * toRat c) = R at *
  generalize absR (toRat (toSeconds d) * toRat c - (d.val : Rat) / 1000000000 * (1000000000 / (fs : Rat))) = D at *
  generalize absR (toRat (toSeconds d) * toRat c) = P at *
  generalize habsA : absR (toRat (toSeconds d) - (d.val : Rat) / 1000000000) = A at *
  generalize habsE : absR ((d.val : Rat) / 1000000000) = Em at *
  generalize habsC : absR (toRat c - 1000000000 / (fs : Rat)) = C at *
  generalize (1000000000 : Rat) / (fs : Rat) = ρ at *
  generalize toRat c = cr at *
  have hEm0 : 0 ≤ Em := by rw [← habsE]; exact absR_nonneg _
  have hA0 : 0 ≤ A := by rw [← habsA]; exact absR_nonneg _
  have hC0 : 0 ≤ C := by rw [← habsC]; exact absR_nonneg _
  -- c ≤ ρ + C
  have hcr : cr ≤ ρ + C := by rw [← habsC]; unfold absR; split <;> grind
  -- with M := max(Em, 1):  A·2^53 ≤ 4M,  Em ≤ M
  have hM : ∃ M : Rat, 1 ≤ M ∧ Em ≤ M ∧ A * 9007199254740992 ≤ 4 * M ∧
      (if Em * ρ < ρ then ρ else Em * ρ) = M * ρ := by
    by_cases h1 : Em < 1
    · refine ⟨1, Rat.le_refl, Rat.le_of_lt h1, by rw [if_pos h1] at hts; exact hts, ?_⟩
      have : Em * ρ < ρ := by
        have := mul_lt_mul_pos_right hρpos h1; grind
      rw [if_pos this, Rat.one_mul]
    · refine ⟨Em, by grind, Rat.le_refl, by rw [if_neg h1] at hts; exact hts, ?_⟩
      have : ¬ Em * ρ < ρ := by
        have := Rat.mul_le_mul_of_nonneg_right (show (1 : Rat) ≤ Em by grind) (Rat.le_of_lt hρpos); grind
      rw [if_neg this]
  obtain ⟨M, hM1, hM2, hM3, hM4⟩ := hM
  rw [hM4]
  -- products, all expressed through W = M·ρ
  have hW0 : 0 ≤ M * ρ := Rat.le_of_lt (Rat.mul_pos (by grind) hρpos)
  have p1 : A * cr ≤ A * (ρ + C) := Rat.mul_le_mul_of_nonneg_left hcr hA0
  have p2 : Em * C ≤ M * C := Rat.mul_le_mul_of_nonneg_right hM2 hC0
  have p3 : Em * ρ ≤ M * ρ := Rat.mul_le_mul_of_nonneg_right hM2 (Rat.le_of_lt hρpos)
  -- C·2^53 ≤ 2.1ρ  ⇒  M·C·2^53 ≤ 2.1·Mρ,  A·C tiny
  have p4 : M * (C * 9007199254740992) ≤ M * ((21 / 10) * ρ) :=
    Rat.mul_le_mul_of_nonneg_left cerr (by grind)
  have p5 : A * 9007199254740992 * ρ ≤ 4 * M * ρ := Rat.mul_le_mul_of_nonneg_right hM3 (Rat.le_of_lt hρpos)
  have p6 : A * 9007199254740992 * C ≤ 4 * M * C := Rat.mul_le_mul_of_nonneg_right hM3 hC0
  generalize hW : M * ρ = W at *
  generalize hV : M * C = V at *
  generalize hX : A * ρ = X at *
  generalize hY : A * C = Y at *
  generalize hZ : A * cr = Z at *
  generalize hQ : Em * C = Q at *
  generalize hS : Em * ρ = S at *
  have q1 : Z ≤ X + Y := by rw [← hZ, ← hX, ← hY]; grind
  have q4 : V * 9007199254740992 ≤ (21 / 10) * W := by rw [← hV, ← hW]; grind
  have q5 : X * 9007199254740992 ≤ 4 * W := by rw [← hX, ← hW]; grind
  have q6 : Y * 9007199254740992 ≤ 4 * V := by rw [← hY, ← hV]; grind
  grind

theorem toUnit_err (u : String) (c : F64) (fs : Int) (hu : fromSecondsU u = some c) (hs : unitNs u = some fs)
    (d : Dur) (hd : d.Canon) :
    closeTo 8 (toRat (toUnitWith d c)) ((d.val : Rat) / (fs : Rat)) ((1000000000 : Rat) / (fs : Rat)) = true := by
  have hall := fromSecTable2_ok.2
  rw [List.all_eq_true] at hall
  exact toUnitWith_err c fs (fromSecOk_of_unit hu) (hall _ (fromSec_cases2 hu hs)) d hd


/-- exactness, general form: when the real product q·len is itself a double `x` (e.g. an integer
    with at most 53 significant bits, of any size) the result is clampD (trunc x) — no rounding -/
theorem unitMulF64_representable_gen (f : F64) (fs : Int) (hok : unitFactsOk f fs = true) (q : F64)
    (hfin : q.isFinite = true) (x : F64) (hx : x.isFinite = true) (hwx : x.wf = true)
    (hprod : toRat q * (fs : Rat) = toRat x) :
    (unitMulF64 f q).Canon ∧ some (unitMulF64 f q).val = truncNs x := by
  obtain ⟨hc, hv⟩ := unitMulF64_gen f fs hok q hfin
  refine ⟨hc, ?_⟩
  obtain ⟨s, m, e, rfl⟩ := exists_fin_of_isFinite hfin
  obtain ⟨sx, mx, ex, rfl⟩ := exists_fin_of_isFinite hx
  have : unitTimesF fs (fin s m e) = truncNs (rnd (toRat (fin s m e) * (fs : Rat))) := rfl
  rw [this, hprod] at hv
  rw [hv]
  by_cases hm : mx = 0
  · subst hm
    rw [toRat_fin_zero, rnd_zero]; unfold zero
    rw [truncNs_fin, truncNs_fin, toRat_fin_zero, toRat_fin_zero]
  · rw [rnd_toRat_fin hwx hm]



theorem sub_finite {a b : F64} (ha : a.isFinite = true) (hb : b.isFinite = true) :
    F64.sub a b = rndz (toRat a - toRat b) (a.sign && !b.sign) := by
  obtain ⟨s1, m1, e1, rfl⟩ := exists_fin_of_isFinite ha
  obtain ⟨s2, m2, e2, rfl⟩ := exists_fin_of_isFinite hb
  exact sub_fin ..

theorem toRat_abs {a : F64} (ha : a.isFinite = true) : toRat (F64.abs a) = absR (toRat a) := by
  obtain ⟨s, m, e, rfl⟩ := exists_fin_of_isFinite ha
  rw [abs_fin, absR_toRat_fin]; simp [toRat_fin]

theorem abs_isFinite {a : F64} (ha : a.isFinite = true) : (F64.abs a).isFinite = true := by
  obtain ⟨s, m, e, rfl⟩ := exists_fin_of_isFinite ha; rfl

theorem lt_of_finite {a b : F64} (ha : a.isFinite = true) (hb : b.isFinite = true) :
    F64.lt a b = decide (toRat a < toRat b) := by
  obtain ⟨s1, m1, e1, rfl⟩ := exists_fin_of_isFinite ha
  obtain ⟨s2, m2, e2, rfl⟩ := exists_fin_of_isFinite hb
  rfl

theorem pow2_nonneg_int (e : Int) (he : 0 ≤ e) : pow2 e = (((2 ^ e.toNat : Nat) : Int) : Rat) := by
  unfold pow2; rw [if_pos he, Rat.intCast_natCast]

theorem toRat_fin_true (m : Nat) (e : Int) : toRat (fin true m e) = -toRat (fin false m e) :=
  toRat_neg_fin false m e

/-- |X| ≤ c for a non-zero canonical double c ≥ 0 ⇒ `rnd X` is finite and |rnd X| ≤ c -/
theorem rnd_abs_le {X : Rat} {mc : Nat} {ec : Int} (hwc : wf (fin false mc ec) = true) (hmc : mc ≠ 0)
    (h : absR X ≤ toRat (fin false mc ec)) :
    (rnd X).isFinite = true ∧ absR (toRat (rnd X)) ≤ toRat (fin false mc ec) := by
  have hwn : wf (fin true mc ec) = true := by unfold wf at hwc ⊢; exact hwc
  have f1 := rnd_toRat_fin hwc hmc
  have f2 := rnd_toRat_fin hwn hmc
  have hlo : toRat (fin true mc ec) ≤ X := by rw [toRat_fin_true]; unfold absR at h; split at h <;> grind
  have hhi : X ≤ toRat (fin false mc ec) := by unfold absR at h; split at h <;> grind
  have l1 := rnd_mono hlo
  have l2 := rnd_mono hhi
  rw [f2] at l1; rw [f1] at l2
  have hf := isFinite_of_le_le (a := fin true mc ec) (b := fin false mc ec) rfl rfl l1 l2
  refine ⟨hf, ?_⟩
  have a1 := toRat_le_of_le rfl hf l1
  have a2 := toRat_le_of_le hf rfl l2
  rw [toRat_fin_true] at a1
  unfold absR; split <;> grind

/-- c ≤ |X| ⇒ c ≤ |rnd X| (finite result) -/
theorem rnd_abs_ge {X : Rat} {mc : Nat} {ec : Int} (hwc : wf (fin false mc ec) = true) (hmc : mc ≠ 0)
    (h : toRat (fin false mc ec) ≤ absR X) (hf : (rnd X).isFinite = true) :
    toRat (fin false mc ec) ≤ absR (toRat (rnd X)) := by
  have hwn : wf (fin true mc ec) = true := by unfold wf at hwc ⊢; exact hwc
  have f1 := rnd_toRat_fin hwc hmc
  have f2 := rnd_toRat_fin hwn hmc
  have hcpos : 0 ≤ toRat (fin false mc ec) := by
    have := mag_nonneg mc ec; simp [toRat_fin]; exact this
  by_cases hneg : X < 0
  · have hX : X ≤ toRat (fin true mc ec) := by
      rw [toRat_fin_true]; unfold absR at h; rw [if_pos hneg] at h; grind
    have l := rnd_mono hX
    rw [f2] at l
    have a := toRat_le_of_le hf rfl l
    rw [toRat_fin_true] at a
    unfold absR; split <;> grind
  · have hX : toRat (fin false mc ec) ≤ X := by unfold absR at h; rw [if_neg hneg] at h; exact h
    have l := rnd_mono hX
    rw [f1] at l
    have a := toRat_le_of_le rfl hf l
    unfold absR; split <;> grind

/-- saturation commutes with an enclosure -/
theorem clamp_sandwich (z : Int) (lo hi : Rat) (h1 : lo ≤ (z : Rat)) (h2 : (z : Rat) ≤ hi) :
    clampQ lo ≤ ((clampD z : Int) : Rat) ∧ ((clampD z : Int) : Rat) ≤ clampQ hi := by
  have hmin : ((DMIN : Int) : Rat) ≤ ((DMAX : Int) : Rat) := by decide +kernel
  unfold clampQ clampD
  by_cases a : z < DMIN
  · have : (z : Rat) < (DMIN : Rat) := Rat.intCast_lt_intCast.mpr a
    rw [if_pos a]
    constructor
    · rw [if_pos (by grind)]; exact Rat.le_refl
    · split
      · exact Rat.le_refl
      · split <;> grind
  · rw [if_neg a]
    have a' : ¬ (z : Rat) < (DMIN : Rat) := fun h => a (Rat.intCast_lt_intCast.mp h)
    by_cases b : z > DMAX
    · have : (DMAX : Rat) < (z : Rat) := Rat.intCast_lt_intCast.mpr b
      rw [if_pos b]
      constructor
      · split
        · exact hmin
        · split <;> grind
      · rw [if_neg (by grind), if_pos (by grind)]; exact Rat.le_refl
    · rw [if_neg b]
      have b' : ¬ (z : Rat) > (DMAX : Rat) := fun h => b (Rat.intCast_lt_intCast.mp h)
      constructor
      · split
        · grind
        · split <;> grind
      · split
        · grind
        · split <;> grind



/-! ### the precision search of `Duration * f64` (exit: `trunc(nv) == nv || p == 38`) -/

theorem eq_fin_fin (s1 : Bool) (m1 : Nat) (e1 : Int) (s2 : Bool) (m2 : Nat) (e2 : Int) :
    F64.eq (fin s1 m1 e1) (fin s2 m2 e2) = decide (toRat (fin s1 m1 e1) = toRat (fin s2 m2 e2)) := rfl

theorem eq_of_finite {a b : F64} (ha : a.isFinite = true) (hb : b.isFinite = true) :
    F64.eq a b = decide (toRat a = toRat b) := by
  obtain ⟨s1, m1, e1, rfl⟩ := exists_fin_of_isFinite ha
  obtain ⟨s2, m2, e2, rfl⟩ := exists_fin_of_isFinite hb
  rfl

/-- an integer-valued double with exponent ≥ 0 (everything from 2^52 on) passes the exit test -/
theorem brk_of_nonneg_exp (s : Bool) (m : Nat) (e : Int) (h : 0 ≤ e) : brk (fin s m e) = true := by
  unfold brk
  rw [trunc_fin_of_nonneg_exp s m e h, eq_fin_fin, decide_eq_true_eq]

/-- truncation of a canonical double with negative exponent: a finite double whose value is the
    integer part -/
theorem trunc_neg_exp (s : Bool) (m : Nat) (e : Int) (hw : wf (fin s m e) = true) (he : ¬ 0 ≤ e) :
    (F64.trunc (fin s m e)).isFinite = true ∧
    toRat (F64.trunc (fin s m e)) = ((truncQ (toRat (fin s m e)) : Int) : Rat) := by
  unfold wf at hw; simp only [P52_eq, P53_eq, decide_eq_true_eq] at hw
  obtain ⟨w1, w2, w3, w4⟩ := hw
  have hnn := mag_nonneg m e
  have hlt53 : (m : Rat) * pow2 e < ((9007199254740992 : Int) : Rat) := by
    have h1 : pow2 e ≤ pow2 (-1) := pow2_mono (by omega)
    have h2 : (m : Rat) < ((9007199254740992 : Int) : Rat) := natCast_lt_intCast (by omega)
    have h3 := Rat.mul_le_mul_of_nonneg_left h1 (Rat.natCast_nonneg (a := m))
    have h4 := mul_lt_mul_pos_right (pow2_pos (-1)) h2
    have h5 : ((9007199254740992 : Int) : Rat) * pow2 (-1) ≤ ((9007199254740992 : Int) : Rat) := by decide +kernel
    grind
  have ht_b : -9007199254740992 < truncQ (toRat (fin s m e)) ∧ truncQ (toRat (fin s m e)) < 9007199254740992 := by
    rw [toRat_fin]
    cases s
    · simp only [Bool.false_eq_true, if_false]
      exact ⟨truncQ_gt (by decide) (by grind), truncQ_lt (by decide) hlt53⟩
    · simp only [if_true]
      exact ⟨truncQ_gt (by decide) (by grind), truncQ_lt (by decide) (by grind)⟩
  rw [trunc_fin_of_neg_exp s m e he, ← truncQ_eq_truncR]
  generalize truncQ (toRat (fin s m e)) = t at *
  unfold ofIntSigned
  by_cases h0 : t = 0
  · rw [if_pos h0, h0]; exact ⟨rfl, toRat_zero s⟩
  · rw [if_neg h0]; have := rnd_int t (by omega); exact ⟨this.1, this.2.2⟩

/-- the exit test on a canonical finite double means exactly: integer-valued -/
theorem int_of_brk (s : Bool) (m : Nat) (e : Int) (hw : wf (fin s m e) = true)
    (hb : brk (fin s m e) = true) : ∃ N : Int, toRat (fin s m e) = (N : Rat) := by
  by_cases he : 0 ≤ e
  · have hv : (m : Rat) * pow2 e = (((m : Int) * ((2 ^ e.toNat : Nat) : Int) : Int) : Rat) := by
      rw [pow2_nonneg_int e he, Rat.intCast_mul, Rat.intCast_natCast, Rat.intCast_natCast]
    rw [toRat_fin, hv]
    cases s
    · exact ⟨(m : Int) * ((2 ^ e.toNat : Nat) : Int), by simp⟩
    · exact ⟨-((m : Int) * ((2 ^ e.toNat : Nat) : Int)), by simp⟩
  · obtain ⟨tf, tv⟩ := trunc_neg_exp s m e hw he
    unfold brk at hb
    rw [eq_of_finite tf rfl, decide_eq_true_eq, tv] at hb
    exact ⟨_, hb.symm⟩

theorem brk_of_int (s : Bool) (m : Nat) (e : Int) (hw : wf (fin s m e) = true) (n : Int)
    (hn : toRat (fin s m e) = (n : Rat)) : brk (fin s m e) = true := by
  by_cases he : 0 ≤ e
  · exact brk_of_nonneg_exp s m e he
  · obtain ⟨tf, tv⟩ := trunc_neg_exp s m e hw he
    unfold brk
    rw [eq_of_finite tf rfl, decide_eq_true_eq, tv, hn, truncQ_intCast]

theorem precLoop_succ (fuel : Nat) (p : Int) (q nv : F64) :
    precLoop (fuel + 1) p q nv =
      if brk nv || decide (p = 38) then .ok (p, nv) else precLoop fuel (p + 1) q (nvAt q (p + 1)) := rfl

/-- started at step p ≤ 38 with enough fuel, the loop stops at some step ≤ 38 -/
theorem precLoop_stops (q : F64) : ∀ (k fuel : Nat) (p : Int) (nv : F64), p + k = 38 → k + 1 ≤ fuel →
    ∃ p' nv', precLoop fuel p q nv = .ok (p', nv') ∧ p ≤ p' ∧ p' ≤ 38 := by
  intro k
  induction k with
  | zero =>
    intro fuel p nv hp hf
    obtain ⟨f, rfl⟩ : ∃ f, fuel = f + 1 := ⟨fuel - 1, by omega⟩
    have : p = 38 := by omega
    rw [precLoop_succ, this]
    simp only [decide_true, Bool.or_true, if_true]
    exact ⟨38, nv, rfl, by omega, by omega⟩
  | succ k ih =>
    intro fuel p nv hp hf
    obtain ⟨f, rfl⟩ : ∃ f, fuel = f + 1 := ⟨fuel - 1, by omega⟩
    rw [precLoop_succ]
    by_cases h : (brk nv || decide (p = 38)) = true
    · rw [if_pos h]; exact ⟨p, nv, rfl, by omega, by omega⟩
    · rw [if_neg h]
      obtain ⟨p', nv', h1, h2, h3⟩ := ih f (p + 1) (nvAt q (p + 1)) (by omega) (by omega)
      exact ⟨p', nv', h1, by omega, h3⟩

/-- **termination of the precision search** for EVERY double (NaN and the infinities included):
    0 ≤ p ≤ 38 -/
theorem precLoop_terminates (q : F64) :
    ∃ p nv, precLoop 64 0 q q = .ok (p, nv) ∧ 0 ≤ p ∧ p ≤ 38 :=
  precLoop_stops q 38 64 0 q (by omega) (by omega)

theorem pow10_le (p : Int) (h0 : 0 ≤ p) (h : p ≤ 38) : ¬ ((10 : Int) ^ p.toNat > I128MAX) := by
  have : p.toNat ≤ 38 := by omega
  have h1 : (10 : Nat) ^ p.toNat ≤ 10 ^ 38 := Nat.pow_le_pow_right (by decide) this
  have h2 : (10 : Int) ^ p.toNat = (((10 : Nat) ^ p.toNat : Nat) : Int) := by
    rw [Int.natCast_pow]; rfl
  unfold I128MAX
  rw [h2]
  have : (10 : Nat) ^ 38 = 100000000000000000000000000000000000000 := by decide
  omega

/-- `Duration * f64` never panics and never hangs, whatever the duration and whatever the double
    (finite or not); the result is canonical -/
theorem durMulF64_total (d : Dur) (q : F64) : ∃ r, durMulF64 d q = .ok r ∧ r.Canon := by
  obtain ⟨p, nv, h, h0, h38⟩ := precLoop_terminates q
  unfold durMulF64; rw [h]
  unfold durMulAfter mulFinish
  simp only
  rw [if_neg (by omega), if_neg (pow10_le p h0 h38)]
  exact ⟨_, rfl, (fromTotal_spec _).1⟩

/-- what the search returns: the first step that passes the exit test, or step 38 -/
theorem precLoop_result (q : F64) : ∀ (fuel : Nat) (p : Int) (nv : F64) (p' : Int) (nv' : F64),
    precLoop fuel p q nv = .ok (p', nv') →
    (brk nv' = true ∨ p' = 38) ∧ ((p' = p ∧ nv' = nv) ∨
      (p < p' ∧ nv' = nvAt q p' ∧ brk nv = false ∧ (p + 1 < p' → brk (nvAt q (p' - 1)) = false))) := by
  intro fuel
  induction fuel with
  | zero => intro p nv p' nv' h; cases h
  | succ f ih =>
    intro p nv p' nv' h
    rw [precLoop_succ] at h
    by_cases hb : (brk nv || decide (p = 38)) = true
    · rw [if_pos hb] at h
      injection h with h; injection h with h1 h2
      subst h1; subst h2
      simp only [Bool.or_eq_true, decide_eq_true_eq] at hb
      exact ⟨hb, Or.inl ⟨rfl, rfl⟩⟩
    · rw [if_neg hb] at h
      simp only [Bool.or_eq_true, decide_eq_true_eq, not_or] at hb
      have hbf : brk nv = false := by simpa using hb.1
      obtain ⟨r1, r2⟩ := ih (p + 1) (nvAt q (p + 1)) p' nv' h
      refine ⟨r1, Or.inr ?_⟩
      rcases r2 with ⟨e1, e2⟩ | ⟨e1, e2, e3, e4⟩
      · subst e1; exact ⟨by omega, e2, hbf, fun h => by omega⟩
      · refine ⟨by omega, e2, hbf, fun _ => ?_⟩
        by_cases h2 : p' = p + 2
        · have : p' - 1 = p + 1 := by omega
          rw [this]; exact e3
        · exact e4 (by omega)

/-- **exactness for integer-valued factors**: outside the recorded class D1 the result is the
    canonical duration of clampD (d · n), whatever the size of the integer n = q -/
theorem durMulF64_int_exact (d : Dur) (hd : d.Canon) (hD1 : Dur.d1class d = false) (q : F64)
    (hw : q.wf = true) (hf : q.isFinite = true) (n : Int) (hn : toRat q = (n : Rat)) :
    ∃ r, durMulF64 d q = .ok r ∧ r.Canon ∧ r.val = clampD (d.val * n) := by
  obtain ⟨s, m, e, rfl⟩ := exists_fin_of_isFinite hf
  have hb := brk_of_int s m e hw n hn
  unfold durMulF64
  rw [show (64 : Nat) = 63 + 1 from rfl, precLoop_succ, hb]
  simp only [Bool.true_or, if_true]
  unfold durMulAfter mulFinish
  simp only
  rw [if_neg (by decide), if_neg (by decide)]
  refine ⟨_, rfl, (fromTotal_spec _).1, ?_⟩
  rw [(fromTotal_spec _).2]
  have h1 : (10 : Int) ^ (0 : Int).toNat = 1 := by decide
  rw [h1, Int.tdiv_one, clampD_satI128, totalNs_spec d hd hD1]
  have hcast : toI128 (fin s m e) = satI128 n := by
    unfold toI128; rw [toIntSat_fin, hn, truncQ_intCast]; rfl
  rw [hcast]
  have hr := canon_range d hd
  rw [DMIN_eq, DMAX_eq] at hr
  exact mul_sat_clamp d.val n hr



/-- a product of magnitude in [2^52, 2^200] rounds to an integer-valued double -/
theorem brk_of_big_product (s : Bool) (m : Nat) (e : Int) (T : F64) (tf : T.isFinite = true)
    (t3 : 0 < toRat T) (hlo : pow2 52 ≤ (m : Rat) * pow2 e * toRat T)
    (hhi : (m : Rat) * pow2 e * toRat T ≤ pow2 200) :
    brk (F64.mul (fin s m e) T) = true := by
  rw [mul_finite rfl tf]
  have habs := absR_toRat_fin s m e
  have hXabs : absR (toRat (fin s m e) * toRat T) = (m : Rat) * pow2 e * toRat T := by
    rw [← habs]; exact absR_mul_pos _ _ t3
  generalize toRat (fin s m e) * toRat T = X at *
  have hb1 : pow2 52 ≤ absR X := by rw [hXabs]; exact hlo
  have hb2 : absR X ≤ pow2 200 := by rw [hXabs]; exact hhi
  have hX0 : X ≠ 0 := by
    intro h; rw [h] at hb1
    have : absR 0 = 0 := by decide +kernel
    have := pow2_pos 52; grind
  unfold rndz; rw [if_neg hX0]
  obtain ⟨r1, r2, r3, r4, r5⟩ := rnd_pow2_200
  have hlow : -pow2 200 ≤ X := by unfold absR at hb2; split at hb2 <;> grind
  have hupp : X ≤ pow2 200 := by unfold absR at hb2; split at hb2 <;> grind
  have hfin : (rnd X).isFinite = true := isFinite_of_le_le r2 r1 (rnd_mono hlow) (rnd_mono hupp)
  obtain ⟨sx, mx, ex, hr⟩ := exists_fin_of_isFinite hfin
  have hwx : wf (fin sx mx ex) = true := by rw [← hr]; exact rnd_wf X
  have hbig : pow2 52 ≤ (mx : Rat) * pow2 ex := by
    by_cases hneg : X < 0
    · have : X ≤ -pow2 52 := by unfold absR at hb1; rw [if_pos hneg] at hb1; grind
      have h1 := rnd_mono this
      rw [r4, hr] at h1
      have h2 := toRat_le_of_le rfl rfl h1
      rw [show toRat (fin true 4503599627370496 0) = -toRat (fin false 4503599627370496 0) from toRat_neg_fin false _ _, r5] at h2
      have hn := mag_nonneg mx ex
      rw [toRat_fin] at h2
      split at h2 <;> grind
    · have : pow2 52 ≤ X := by unfold absR at hb1; rw [if_neg hneg] at hb1; exact hb1
      have h1 := rnd_mono this
      rw [r3, hr] at h1
      have h2 := toRat_le_of_le rfl rfl h1
      rw [r5] at h2
      have hn := mag_nonneg mx ex
      rw [toRat_fin] at h2
      split at h2 <;> grind
  rw [hr]
  exact brk_of_nonneg_exp sx mx ex (exp_nonneg_of_big hwx hbig)

/-- facts about `10f64.powi(k)`, k ≤ 38: finite, ≥ 1, grows by at most ×16 per step, between 2^(3k)
    … below 2^127, and within 2^-53 (relative) of 10^k -/
def powTenOk (k : Nat) : Bool :=
  (F64.powi tenF k).isFinite && decide (1 ≤ toRat (F64.powi tenF k)) &&
  decide (toRat (F64.powi tenF (k + 1)) ≤ 16 * toRat (F64.powi tenF k)) &&
  decide (toRat (F64.powi tenF k) ≤ pow2 127) &&
  decide (absR (toRat (F64.powi tenF k) - ((10 ^ k : Nat) : Rat)) * 9007199254740992 ≤ ((10 ^ k : Nat) : Rat))

theorem powTen_table : (List.range 39).all powTenOk = true := by decide +kernel

theorem powTen_facts (k : Nat) (hk : k ≤ 38) : powTenOk k = true := by
  have h := powTen_table
  rw [List.all_eq_true] at h
  exact h k (List.mem_range.mpr (by omega))

theorem c56_facts : wf (fin false 4503599627370496 4) = true ∧
    toRat (fin false 4503599627370496 4) = pow2 56 ∧
    pow2 56 = ((72057594037927936 : Int) : Rat) ∧
    wf (fin false 1 (-1074)) = true ∧
    toRat (fin false 1 (-1074)) = pow2 (-1074) ∧
    pow2 52 * 16 = pow2 56 ∧ pow2 52 * pow2 127 ≤ pow2 200 ∧ pow2 56 ≤ pow2 200 ∧
    wf (fin false 4503599627370496 (-1074)) = true ∧
    toRat (fin false 4503599627370496 (-1074)) = pow2 (-1022) ∧
    pow2 53 = 9007199254740992 ∧ pow2 (-1022) < 1 ∧ 0 < pow2 (-1074) ∧
    toRat (F64.powi tenF 0) = 1 ∧ (F64.powi tenF 0).isFinite = true := by decide +kernel

/-- a canonical non-zero double has magnitude at least 2^-1074 -/
theorem mag_ge_min {m : Nat} {e : Int} (hm : m ≠ 0) (he : -1074 ≤ e) : pow2 (-1074) ≤ (m : Rat) * pow2 e := by
  have h1 : pow2 (-1074) ≤ pow2 e := pow2_mono he
  have h2 : ((1 : Int) : Rat) ≤ (m : Rat) := intCast_le_natCast (by omega)
  have h3 := Rat.mul_le_mul_of_nonneg_right h2 (Rat.le_of_lt (pow2_pos e))
  have : ((1 : Int) : Rat) = 1 := rfl
  grind

/-- the value that ends the search at step k ≥ 1 by the exit test: a non-zero integer N of
    magnitude ≤ 2^56 within 2^-51 (relative) of q·10^k -/
theorem nv_facts (s : Bool) (m : Nat) (e : Int) (hw : wf (fin s m e) = true) (hm : m ≠ 0)
    (k : Nat) (hk1 : 1 ≤ k) (hk : k ≤ 38)
    (hprev : (m : Rat) * pow2 e * toRat (F64.powi tenF ((k - 1 : Nat) : Int)) < pow2 52)
    (hb : brk (nvAt (fin s m e) (k : Int)) = true) :
    ∃ N : Int, toRat (nvAt (fin s m e) (k : Int)) = (N : Rat) ∧ (nvAt (fin s m e) (k : Int)).isFinite = true ∧
      -72057594037927936 ≤ N ∧ N ≤ 72057594037927936 ∧
      absR ((N : Rat) - toRat (fin s m e) * ((10 ^ k : Nat) : Rat)) * 2251799813685248 ≤
        absR (toRat (fin s m e)) * ((10 ^ k : Nat) : Rat) := by
  obtain ⟨c1, c2, c3, c4, c5, c6, c7, c8, c9, c10, c11, c12, c13, _, _⟩ := c56_facts
  have hw' := hw
  unfold wf at hw'; simp only [P52_eq, P53_eq, decide_eq_true_eq] at hw'
  have hT := powTen_facts k hk
  have hT' := powTen_facts (k - 1) (by omega)
  unfold powTenOk at hT hT'
  simp only [Bool.and_eq_true, decide_eq_true_eq] at hT hT'
  obtain ⟨⟨⟨⟨tf, t1⟩, _⟩, t127⟩, terr⟩ := hT
  obtain ⟨⟨⟨⟨_, _⟩, tstep⟩, _⟩, _⟩ := hT'
  have hnatc : (((k - 1 : Nat) : Int) + 1) = (k : Int) := by omega
  have habs := absR_toRat_fin s m e
  have hann := mag_nonneg m e
  have hamin := mag_ge_min hm hw'.2.1
  generalize hTk : F64.powi tenF (k : Int) = T at *
  have tpos : 0 < toRat T := by grind
  have tstep' : toRat T ≤ 16 * toRat (F64.powi tenF ((k - 1 : Nat) : Int)) := by
    have : F64.powi tenF (((k - 1 : Nat) : Int) + 1) = T := by rw [hnatc, hTk]
    rw [← this]; exact tstep
  have hB2 : (m : Rat) * pow2 e * toRat T ≤ pow2 56 := by
    have h1 := Rat.mul_le_mul_of_nonneg_left tstep' hann
    grind
  have hB1 : pow2 (-1074) ≤ (m : Rat) * pow2 e * toRat T := by
    have h1 := Rat.mul_le_mul_of_nonneg_left t1 hann
    grind
  unfold nvAt at hb ⊢
  rw [hTk] at hb ⊢
  have hmul := mul_finite (a := fin s m e) (b := T) rfl tf
  have hXabs : absR (toRat (fin s m e) * toRat T) = (m : Rat) * pow2 e * toRat T := by
    rw [← habs]; exact absR_mul_pos _ _ tpos
  rw [hmul] at hb ⊢
  generalize ((fin s m e).sign != T.sign) = sg at *
  have hX0 : toRat (fin s m e) * toRat T ≠ 0 := by
    intro h; rw [h] at hXabs
    have : absR 0 = 0 := by decide +kernel
    grind
  unfold rndz at hb ⊢
  rw [if_neg hX0] at hb ⊢
  generalize hXd : toRat (fin s m e) * toRat T = X at *
  have hle := rnd_abs_le (X := X) c1 (by decide) (by rw [c2, hXabs]; exact hB2)
  have hge := rnd_abs_ge (X := X) c4 (by decide) (by rw [c5, hXabs]; exact hB1) hle.1
  obtain ⟨sx, mx, ex, hr⟩ := exists_fin_of_isFinite hle.1
  have hwx : wf (fin sx mx ex) = true := by rw [← hr]; exact rnd_wf X
  rw [hr] at hb hle hge ⊢
  obtain ⟨N, hN⟩ := int_of_brk sx mx ex hwx hb
  -- N ≠ 0, hence |N| ≥ 1, hence the product is in the normal range
  have hN1 : (1 : Rat) ≤ absR (N : Rat) := by
    rw [hN, c5] at hge
    have hN0 : N ≠ 0 := by
      intro h; rw [h] at hge
      have : absR ((0 : Int) : Rat) = 0 := by decide +kernel
      grind
    unfold absR
    by_cases hneg : (N : Rat) < 0
    · rw [if_pos hneg]
      have : N < 0 := Rat.intCast_neg_iff.mp hneg
      have : ((1 : Int) : Rat) ≤ ((-N : Int) : Rat) := Rat.intCast_le_intCast.mpr (by omega)
      rw [Rat.intCast_neg] at this; exact this
    · rw [if_neg hneg]
      have : ¬ N < 0 := fun h => hneg (Rat.intCast_neg_iff.mpr h)
      have : ((1 : Int) : Rat) ≤ (N : Rat) := Rat.intCast_le_intCast.mpr (by omega)
      exact this
  have hnormal : pow2 (-1022) ≤ absR X := by
    by_cases h : pow2 (-1022) ≤ absR X
    · exact h
    · exfalso
      have := rnd_abs_le (X := X) c9 (by decide) (by rw [c10]; grind)
      rw [hr, hN, c10] at this
      grind
  refine ⟨N, hN, rfl, ?_, ?_, ?_⟩
  · have h2 := hle.2
    rw [hN, c2, c3] at h2
    have : ((-72057594037927936 : Int) : Rat) ≤ (N : Rat) := by
      have e1 : ((-72057594037927936 : Int) : Rat) = -((72057594037927936 : Int) : Rat) := rfl
      unfold absR at h2; split at h2 <;> grind
    exact Rat.intCast_le_intCast.mp this
  · have h2 := hle.2
    rw [hN, c2, c3] at h2
    have : (N : Rat) ≤ ((72057594037927936 : Int) : Rat) := by
      unfold absR at h2; split at h2 <;> grind
    exact Rat.intCast_le_intCast.mp this
  · have hrel := rnd_rel_err (x := X) hnormal (by rw [hr]; rfl)
    rw [hr, hN, c11, hXabs] at hrel
    have hdec : (N : Rat) - toRat (fin s m e) * ((10 ^ k : Nat) : Rat) =
        ((N : Rat) - X) + toRat (fin s m e) * (toRat T - ((10 ^ k : Nat) : Rat)) := by
      rw [← hXd]; grind
    have htri := absR_add_le ((N : Rat) - X) (toRat (fin s m e) * (toRat T - ((10 ^ k : Nat) : Rat)))
    rw [← hdec, absR_mul, habs] at htri
    rw [habs]
    have hE2 : toRat T ≤ ((10 ^ k : Nat) : Rat) + absR (toRat T - ((10 ^ k : Nat) : Rat)) := by
      unfold absR; split <;> grind
    have hE2nn := absR_nonneg (toRat T - ((10 ^ k : Nat) : Rat))
    have p1 := Rat.mul_le_mul_of_nonneg_left hE2 hann
    have p2 := Rat.mul_le_mul_of_nonneg_left terr hann
    generalize absR ((N : Rat) - toRat (fin s m e) * ((10 ^ k : Nat) : Rat)) = E3 at *
    generalize absR ((N : Rat) - X) = E1 at *
    generalize absR (toRat T - ((10 ^ k : Nat) : Rat)) = E2 at *
    generalize ((10 ^ k : Nat) : Rat) = P at *
    generalize (m : Rat) * pow2 e = Q at *
    generalize toRat T = t at *
    have hW : 0 ≤ Q * P := by
      have : (0 : Rat) ≤ P := by grind
      have := Rat.mul_le_mul_of_nonneg_left this hann; grind
    generalize hWd : Q * P = W at *
    generalize hYd : Q * E2 = Y at *
    generalize hZd : Q * t = Zt at *
    have q1 : Zt ≤ W + Y := by rw [← hZd, ← hWd, ← hYd]; grind
    have q2 : Y * 9007199254740992 ≤ W := by rw [← hYd, ← hWd]; grind
    grind


theorem TENKY_eq : TENKY = 315576000000000000000 := by decide

/-- the final bound: an integer Z with |Z·P − v·n| < P and |n − q·P|·2^51 ≤ |q|·P lies within
    1 + |v·q|/2^50 of v·q -/
theorem final_bound (Z v n q P : Rat) (hP : 0 < P) (h1 : absR (Z * P - v * n) < P)
    (h2 : absR (n - q * P) * 2251799813685248 ≤ absR q * P) :
    absR (Z - v * q) ≤ 1 + absR (v * q) / 1125899906842624 := by
  have hdec : Z * P - v * q * P = (Z * P - v * n) + v * (n - q * P) := by grind
  have htri := absR_add_le (Z * P - v * n) (v * (n - q * P))
  rw [← hdec, absR_mul v] at htri
  have hmulP : absR (Z * P - v * q * P) = absR (Z - v * q) * P := by
    have : Z * P - v * q * P = (Z - v * q) * P := by grind
    rw [this]; exact absR_mul_pos _ _ hP
  rw [hmulP] at htri
  have hvn := absR_nonneg v
  have p1 := Rat.mul_le_mul_of_nonneg_left h2 hvn
  have hA : absR (v * q) = absR v * absR q := absR_mul v q
  rw [hA]
  apply le_of_mul_le_mul_pos hP
  have hqn := absR_nonneg q
  have hH : 0 ≤ absR v * absR q * P := by
    have a := Rat.mul_le_mul_of_nonneg_left hqn hvn
    have b := Rat.mul_le_mul_of_nonneg_right (show 0 ≤ absR v * absR q by grind) (Rat.le_of_lt hP)
    grind
  have e1 : (1 + absR v * absR q / 1125899906842624) * P = P + absR v * absR q * P / 1125899906842624 := by grind
  rw [e1]
  have e2 : absR v * (absR (n - q * P) * 2251799813685248) = absR v * absR (n - q * P) * 2251799813685248 := by grind
  have e3 : absR v * (absR q * P) = absR v * absR q * P := by grind
  rw [e2, e3] at p1
  generalize absR (Z - v * q) * P = DP at *
  generalize absR v * absR (n - q * P) = G at *
  generalize absR v * absR q * P = H at *
  generalize absR (Z * P - v * n) = R at *
  grind

theorem tdiv_close (a b : Int) (hb : 0 < b) :
    absR (((a.tdiv b : Int) : Rat) * (b : Rat) - (a : Rat)) < (b : Rat) := by
  have h1 := Int.tdiv_mul_add_tmod a b
  have h2 := Int.tmod_lt_of_pos a hb
  have h3 := Int.lt_tmod_of_pos a hb
  have e : ((a.tdiv b : Int) : Rat) * (b : Rat) - (a : Rat) = ((-(a.tmod b) : Int) : Rat) := by
    rw [← Rat.intCast_mul, ← Rat.intCast_sub]; congr 1; omega
  rw [e]
  have l1 : ((-(a.tmod b) : Int) : Rat) < (b : Rat) := Rat.intCast_lt_intCast.mpr (by omega)
  have l2 : ((-b : Int) : Rat) < ((-(a.tmod b) : Int) : Rat) := Rat.intCast_lt_intCast.mpr (by omega)
  rw [Rat.intCast_neg] at l2
  unfold absR; split <;> grind



/-- before the step that ends the search (k ≥ 1) the scaled factor was still below 2^52 -/
theorem prev_small (s : Bool) (m : Nat) (e : Int) (hw : wf (fin s m e) = true)
    (hbq : brk (fin s m e) = false) (k : Nat) (hk1 : 1 ≤ k) (hk : k ≤ 38)
    (hprev : 1 < k → brk (nvAt (fin s m e) ((k - 1 : Nat) : Int)) = false) :
    m ≠ 0 ∧ (m : Rat) * pow2 e * toRat (F64.powi tenF ((k - 1 : Nat) : Int)) < pow2 52 := by
  obtain ⟨_, _, _, _, _, _, c7, _, _, _, _, _, _, c14, c15⟩ := c56_facts
  have hann := mag_nonneg m e
  have hm : m ≠ 0 := by
    intro h
    have := brk_of_int s m e hw 0 (by rw [(toRat_eq_zero_iff s m e).mpr h]; rfl)
    rw [this] at hbq; cases hbq
  have ha52 : (m : Rat) * pow2 e < pow2 52 := by
    by_cases h : (m : Rat) * pow2 e < pow2 52
    · exact h
    · exfalso
      have := brk_of_nonneg_exp s m e (exp_nonneg_of_big hw (by grind))
      rw [this] at hbq; cases hbq
  refine ⟨hm, ?_⟩
  by_cases h1 : k = 1
  · subst h1
    show (m : Rat) * pow2 e * toRat (F64.powi tenF ((0 : Nat) : Int)) < pow2 52
    rw [show ((0 : Nat) : Int) = 0 from rfl, c14, Rat.mul_one]; exact ha52
  · have hT := powTen_facts (k - 1) (by omega)
    unfold powTenOk at hT
    simp only [Bool.and_eq_true, decide_eq_true_eq] at hT
    obtain ⟨⟨⟨⟨tf, t1⟩, _⟩, t127⟩, _⟩ := hT
    by_cases h : (m : Rat) * pow2 e * toRat (F64.powi tenF ((k - 1 : Nat) : Int)) < pow2 52
    · exact h
    · exfalso
      have hb := brk_of_big_product s m e _ tf (by grind) (by grind) (by
        have a := Rat.mul_le_mul_of_nonneg_left t127 hann
        have b := Rat.mul_le_mul_of_nonneg_right (Rat.le_of_lt ha52) (Rat.le_of_lt (pow2_pos 127))
        grind)
      have := hprev (by omega)
      unfold nvAt at this
      rw [hb] at this; cases this

theorem natAbs_mul_le {a b : Int} {A B : Nat} (ha : a.natAbs ≤ A) (hb : b.natAbs ≤ B) :
    (a * b).natAbs ≤ A * B := by
  rw [Int.natAbs_mul]; exact Nat.mul_le_mul ha hb

theorem tenk_rat (k : Nat) : (((10 : Int) ^ k : Int) : Rat) = ((10 ^ k : Nat) : Rat) := by
  rw [← Rat.intCast_natCast]; congr 1

/-- **value of `Duration * f64`** (all finite factors, durations up to 10 000 years, outside the
    recorded class D1): within 1 ns + 2^-50·|d·q| of the real product, saturating -/
theorem durMulF64_value (d : Dur) (hd : d.Canon) (hD1 : Dur.d1class d = false)
    (hV : -TENKY ≤ d.val ∧ d.val ≤ TENKY) (q : F64) (hw : q.wf = true) (hf : q.isFinite = true) :
    ∃ r, durMulF64 d q = .ok r ∧ r.Canon ∧ durMulOk d.val (toRat q) r.val = true := by
  obtain ⟨p, nv, hloop, h0, h38⟩ := precLoop_terminates q
  obtain ⟨hexit, hcase⟩ := precLoop_result q 64 0 q p nv hloop
  obtain ⟨s, m, e, rfl⟩ := exists_fin_of_isFinite hf
  rw [TENKY_eq] at hV
  have tolpos : ∀ x : Rat, 1 ≤ mulTol x := by
    intro x; unfold mulTol
    have := absR_nonneg x
    rw [absQ_eq_absR]
    have h : 0 ≤ absR x / 1125899906842624 := by
      rw [Rat.div_def]
      have := Rat.mul_le_mul_of_nonneg_left (show (0 : Rat) ≤ (1125899906842624 : Rat)⁻¹ by decide +kernel) this
      grind
    grind
  rcases hcase with ⟨hp0, hnv⟩ | ⟨hppos, hnv, hbq, hprev⟩
  · -- p = 0: the factor itself is integer-valued
    subst hp0; subst hnv
    have hb : brk (fin s m e) = true := by
      rcases hexit with h | h
      · exact h
      · omega
    obtain ⟨N, hN⟩ := int_of_brk s m e hw hb
    obtain ⟨r, r1, r2, r3⟩ := durMulF64_int_exact d hd hD1 (fin s m e) hw rfl N hN
    refine ⟨r, r1, r2, ?_⟩
    unfold durMulOk
    rw [decide_eq_true_eq, r3, hN, ← Rat.intCast_mul]
    have := tolpos (((d.val * N : Int)) : Rat)
    exact clamp_sandwich (d.val * N) _ _ (by grind) (by grind)
  · -- p ≥ 1
    obtain ⟨k, hk⟩ : ∃ k : Nat, p = (k : Int) := ⟨p.toNat, by omega⟩
    subst hk
    have hk1 : 1 ≤ k := by omega
    have hk38 : k ≤ 38 := by omega
    have hkm : ((k : Int) - 1) = ((k - 1 : Nat) : Int) := by omega
    obtain ⟨hm, hps⟩ := prev_small s m e hw hbq k hk1 hk38 (by
      intro h; rw [← hkm]; exact hprev (by omega))
    have hVabs : d.val.natAbs ≤ 315576000000000000000 := by omega
    have hp10 := pow10_le (k : Int) h0 h38
    have hknat : ((k : Int)).toNat = k := by omega
    have hPpos : (0 : Rat) < ((10 ^ k : Nat) : Rat) := Rat.natCast_pos.mpr (Nat.pow_pos (by decide))
    have hPint : (0 : Int) < (10 : Int) ^ k := Int.pow_pos (by decide)
    by_cases hb : brk nv = true
    · -- the exit test passed at step k: N integer
      rw [hnv] at hb
      obtain ⟨N, hN, hNf, hNlo, hNhi, hNerr⟩ := nv_facts s m e hw hm k hk1 hk38 hps hb
      unfold durMulF64; rw [hloop]
      unfold durMulAfter mulFinish
      simp only
      rw [if_neg (by omega), if_neg hp10, hknat]
      refine ⟨_, rfl, (fromTotal_spec _).1, ?_⟩
      rw [(fromTotal_spec _).2, totalNs_spec d hd hD1]
      have hcast : toI128 nv = N := by
        rw [hnv]
        obtain ⟨sx, mx, ex, hr⟩ := exists_fin_of_isFinite hNf
        rw [hr] at hN ⊢
        unfold toI128; rw [toIntSat_fin, hN, truncQ_intCast]
        rw [if_neg (by omega), if_neg (by omega)]
      rw [hcast]
      have hprod := natAbs_mul_le (a := d.val) (b := N) hVabs (show N.natAbs ≤ 72057594037927936 by omega)
      have hsat : satI128 (d.val * N) = d.val * N := by
        unfold satI128; rw [if_neg (by omega), if_neg (by omega)]
      rw [hsat]
      unfold durMulOk
      rw [decide_eq_true_eq]
      have hclose := tdiv_close (d.val * N) ((10 : Int) ^ k) hPint
      rw [tenk_rat, Rat.intCast_mul] at hclose
      have hfin := final_bound (((d.val * N).tdiv ((10 : Int) ^ k) : Int) : Rat) (d.val : Rat) (N : Rat)
        (toRat (fin s m e)) ((10 ^ k : Nat) : Rat) hPpos hclose hNerr
      have htol : mulTol ((d.val : Rat) * toRat (fin s m e)) =
          1 + absR ((d.val : Rat) * toRat (fin s m e)) / 1125899906842624 := rfl
      generalize ((d.val * N).tdiv ((10 : Int) ^ k)) = Z at *
      apply clamp_sandwich
      all_goals
        rw [htol]
        generalize ((Z : Int) : Rat) = Zr at *
        generalize (d.val : Rat) * toRat (fin s m e) = X at *
        generalize absR X = AX at *
        unfold absR at hfin; split at hfin <;> grind
    · -- the cap p = 38 was hit with a non-integer value: everything is below a nanosecond
      have hk : k = 38 := by
        rcases hexit with h | h
        · exact absurd h hb
        · omega
      subst hk
      obtain ⟨c1, c2, c3, _, _, c6, _, _, _, _, _, _, _, _, _⟩ := c56_facts
      have hT := powTen_facts 38 (by omega)
      have hT' := powTen_facts 37 (by omega)
      unfold powTenOk at hT hT'
      simp only [Bool.and_eq_true, decide_eq_true_eq] at hT hT'
      obtain ⟨⟨⟨⟨tf, t1⟩, _⟩, _⟩, _⟩ := hT
      obtain ⟨⟨⟨⟨_, _⟩, tstep⟩, _⟩, _⟩ := hT'
      have t126 : pow2 126 ≤ toRat (F64.powi tenF ((38 : Nat) : Int)) := by decide +kernel
      have hann := mag_nonneg m e
      have tstep' : toRat (F64.powi tenF ((38 : Nat) : Int)) ≤ 16 * toRat (F64.powi tenF ((38 - 1 : Nat) : Int)) := tstep
      have hB2 : (m : Rat) * pow2 e * toRat (F64.powi tenF ((38 : Nat) : Int)) ≤ pow2 56 := by
        have h1 := Rat.mul_le_mul_of_nonneg_left tstep' hann
        grind
      have ha70 : (m : Rat) * pow2 e ≤ pow2 (-70) := by
        apply le_of_mul_le_mul_pos (pow2_pos 126)
        rw [← pow2_add]
        have h1 := Rat.mul_le_mul_of_nonneg_left t126 hann
        have : pow2 (-70 + 126) = pow2 56 := rfl
        grind
      generalize hTk : F64.powi tenF ((38 : Nat) : Int) = T at *
      have tpos : 0 < toRat T := by grind
      have hXabs : absR (toRat (fin s m e) * toRat T) = (m : Rat) * pow2 e * toRat T := by
        rw [← absR_toRat_fin s m e]; exact absR_mul_pos _ _ tpos
      have hnvform : nv = rndz (toRat (fin s m e) * toRat T) ((fin s m e).sign != T.sign) := by
        rw [hnv]; unfold nvAt; rw [hTk]; exact mul_finite rfl tf
      -- |nv| ≤ 2^56
      have hnvb : nv.isFinite = true ∧ absR (toRat nv) ≤ pow2 56 := by
        rw [hnvform]; unfold rndz
        by_cases hz : toRat (fin s m e) * toRat T = 0
        · rw [if_pos hz, toRat_zero]
          exact ⟨rfl, by have : absR 0 = 0 := by decide +kernel
                         rw [this]; exact Rat.le_of_lt (pow2_pos 56)⟩
        · rw [if_neg hz]
          have := rnd_abs_le (X := toRat (fin s m e) * toRat T) c1 (by decide) (by rw [c2, hXabs]; exact hB2)
          rw [c2] at this; exact this
      obtain ⟨sx, mx, ex, hr⟩ := exists_fin_of_isFinite hnvb.1
      have hN : toI128 nv = truncQ (toRat nv) ∧ (truncQ (toRat nv)).natAbs ≤ 72057594037927936 := by
        have hb2 := hnvb.2
        rw [c3] at hb2
        have l1 : truncQ (toRat nv) < 72057594037927937 :=
          truncQ_lt (by decide) (by
            have : ((72057594037927937 : Int) : Rat) = ((72057594037927936 : Int) : Rat) + 1 := by decide +kernel
            unfold absR at hb2; split at hb2 <;> grind)
        have l2 : -72057594037927937 < truncQ (toRat nv) :=
          truncQ_gt (by decide) (by
            have : ((72057594037927937 : Int) : Rat) = ((72057594037927936 : Int) : Rat) + 1 := by decide +kernel
            unfold absR at hb2; split at hb2 <;> grind)
        refine ⟨?_, by omega⟩
        rw [hr] at l1 l2 ⊢
        unfold toI128; rw [toIntSat_fin, if_neg (by omega), if_neg (by omega)]
      unfold durMulF64; rw [hloop]
      unfold durMulAfter mulFinish
      simp only
      rw [if_neg (by omega), if_neg hp10, hknat]
      refine ⟨_, rfl, (fromTotal_spec _).1, ?_⟩
      rw [(fromTotal_spec _).2, totalNs_spec d hd hD1, hN.1]
      generalize truncQ (toRat nv) = N at *
      have hprod := natAbs_mul_le (a := d.val) (b := N) hVabs hN.2
      have hsat : satI128 (d.val * N) = d.val * N := by
        unfold satI128; rw [if_neg (by omega), if_neg (by omega)]
      rw [hsat]
      have hzero : (d.val * N).tdiv ((10 : Int) ^ 38) = 0 := by
        have h1 : ((d.val * N).tdiv ((10 : Int) ^ 38)).natAbs = 0 := by
          rw [Int.natAbs_tdiv]
          have : ((10 : Int) ^ 38).natAbs = 100000000000000000000000000000000000000 := by decide
          rw [this]
          exact Nat.div_eq_of_lt (by omega)
        omega
      rw [hzero, clampD_zero]
      unfold durMulOk
      rw [decide_eq_true_eq]
      -- |d·q| ≤ 2^69 · 2^-70 < 1 ≤ tolerance
      have hvq : absR ((d.val : Rat) * toRat (fin s m e)) ≤ 1 := by
        rw [absR_mul, absR_toRat_fin]
        have hv69 : absR (d.val : Rat) ≤ pow2 69 := by
          have e69 : pow2 69 = ((590295810358705651712 : Int) : Rat) := by decide +kernel
          rw [e69]
          have a1 : (d.val : Rat) ≤ ((590295810358705651712 : Int) : Rat) := Rat.intCast_le_intCast.mpr (by omega)
          have a2 : ((-590295810358705651712 : Int) : Rat) ≤ (d.val : Rat) := Rat.intCast_le_intCast.mpr (by omega)
          have e2 : ((-590295810358705651712 : Int) : Rat) = -((590295810358705651712 : Int) : Rat) := rfl
          unfold absR; split <;> grind
        have h1 := Rat.mul_le_mul_of_nonneg_right hv69 hann
        have h2 := Rat.mul_le_mul_of_nonneg_left ha70 (Rat.le_of_lt (pow2_pos 69))
        have h3 : pow2 69 * pow2 (-70) ≤ 1 := by decide +kernel
        grind
      have ht := tolpos ((d.val : Rat) * toRat (fin s m e))
      have := clamp_sandwich 0 ((d.val : Rat) * toRat (fin s m e) - mulTol ((d.val : Rat) * toRat (fin s m e)))
        ((d.val : Rat) * toRat (fin s m e) + mulTol ((d.val : Rat) * toRat (fin s m e)))
        (by have : ((0 : Int) : Rat) = 0 := rfl
            unfold absR at hvq; split at hvq <;> grind)
        (by have : ((0 : Int) : Rat) = 0 := rfl
            unfold absR at hvq; split at hvq <;> grind)
      rw [clampD_zero] at this
      exact this


end Hifi
