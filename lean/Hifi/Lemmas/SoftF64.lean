import Hifi.Model.SoftF64
/-
  Lemmas about the IEEE-754 binary64 model `SoftF64` (core Lean only, no Mathlib).

  Main results (all for the model's `rnd : Rat → F64`, round-to-nearest-even):
    rnd_mono       x ≤ y → le (rnd x) (rnd y)
    rnd_int        |n| ≤ 2^53 → rnd n is finite, canonical and toRat (rnd n) = n
    rnd_toRat_fin  every canonical non-zero finite double is a fixed point of rnd ∘ toRat
    rnd_of_sc_int  exactness whenever |x| is an integer multiple of its unit in the last place
    rnd_abs_err    |rnd x − x| ≤ ulp/2 for finite results
    rnd_rel_err    |rnd x − x| · 2^53 ≤ |x| in the normal range (|x| ≥ 2^-1022, finite result)
    rnd_wf         rnd only returns canonical values, never NaN
-/
namespace Hifi.F64

/-! ### powers of two -/

theorem pow2_eq_zpow (e : Int) : pow2 e = (2 : Rat) ^ e := by
  unfold pow2
  by_cases h : 0 ≤ e
  · rw [if_pos h]
    obtain ⟨n, rfl⟩ := Int.eq_ofNat_of_zero_le h
    rw [Int.toNat_natCast, Rat.zpow_natCast, Rat.natCast_pow]; rfl
  · rw [if_neg h]
    have he : e = -(((-e).toNat : Nat) : Int) := by omega
    generalize (-e).toNat = n at he
    subst he
    rw [Rat.zpow_neg, Rat.zpow_natCast, Rat.natCast_pow, Rat.div_def, Rat.one_mul]; rfl

theorem pow2_pos (e : Int) : 0 < pow2 e := by
  rw [pow2_eq_zpow]; exact Rat.zpow_pos (by decide)

theorem pow2_ne_zero (e : Int) : pow2 e ≠ 0 := by
  have := pow2_pos e
  intro h; rw [h] at this; exact absurd this (by decide)

theorem pow2_add (a b : Int) : pow2 (a + b) = pow2 a * pow2 b := by
  simp only [pow2_eq_zpow]; exact Rat.zpow_add (by decide) a b

theorem pow2_zero : pow2 0 = 1 := by decide
theorem pow2_one : pow2 1 = 2 := by decide

theorem pow2_succ (a : Int) : pow2 (a + 1) = 2 * pow2 a := by
  rw [pow2_add, pow2_one, Rat.mul_comm]

theorem pow2_nat_ge_one (n : Nat) : 1 ≤ pow2 (n : Int) := by
  induction n with
  | zero => decide
  | succ k ih =>
    have : ((k + 1 : Nat) : Int) = (k : Int) + 1 := by omega
    rw [this, pow2_succ]
    grind

theorem pow2_mono {a b : Int} (h : a ≤ b) : pow2 a ≤ pow2 b := by
  obtain ⟨n, hn⟩ := Int.le.dest h
  rw [← hn, pow2_add]
  have h1 := pow2_nat_ge_one n
  have h2 := pow2_pos a
  have := Rat.mul_le_mul_of_nonneg_left h1 (Rat.le_of_lt h2)
  grind

theorem pow2_lt {a b : Int} (h : a < b) : pow2 a < pow2 b := by
  have h1 : pow2 (a + 1) ≤ pow2 b := pow2_mono (by omega)
  rw [pow2_succ] at h1
  have := pow2_pos a
  grind

theorem pow2_natCast (n : Nat) : pow2 (n : Int) = ((2 ^ n : Nat) : Rat) := by
  unfold pow2; rw [if_pos (by omega), Int.toNat_natCast]

theorem pow2_lt_iff {a b : Int} : pow2 a < pow2 b ↔ a < b := by
  constructor
  · intro h
    by_cases hab : a < b
    · exact hab
    · have := pow2_mono (show b ≤ a by omega); grind
  · exact pow2_lt

theorem pow2_le_iff {a b : Int} : pow2 a ≤ pow2 b ↔ a ≤ b := by
  constructor
  · intro h
    by_cases hab : a ≤ b
    · exact hab
    · have := pow2_lt (show b < a by omega); grind
  · exact pow2_mono

/-! ### absolute value -/

theorem absR_nonneg (x : Rat) : 0 ≤ absR x := by unfold absR; grind
theorem absR_pos {x : Rat} (h : x ≠ 0) : 0 < absR x := by unfold absR; grind
theorem absR_neg (x : Rat) : absR (-x) = absR x := by unfold absR; grind
theorem absR_of_nonneg {x : Rat} (h : 0 ≤ x) : absR x = x := by unfold absR; grind
theorem absR_of_neg {x : Rat} (h : x < 0) : absR x = -x := by unfold absR; grind

/-- |x| = natAbs(num) / den -/
theorem absR_eq_div (x : Rat) : absR x * (x.den : Rat) = (x.num.natAbs : Rat) := by
  have hx : (x.num : Rat) / (x.den : Rat) = x := by
    rw [← Rat.mkRat_eq_div]; exact Rat.mkRat_self x
  have hd : (0 : Rat) < (x.den : Rat) := Rat.natCast_pos.mpr x.den_pos
  have hx2 : x * (x.den : Rat) = (x.num : Rat) := by
    have := Rat.div_mul_cancel (a := (x.num : Rat)) (b := (x.den : Rat))
      (by intro h; rw [h] at hd; exact absurd hd (by decide))
    rw [hx] at this; exact this
  unfold absR
  by_cases h : x < 0
  · rw [if_pos h]
    have hn : x.num < 0 := by
      have := (Rat.num_nonneg (q := x)); grind
    have : ((x.num.natAbs : Nat) : Rat) = -(x.num : Rat) := by
      have : ((x.num.natAbs : Nat) : Int) = -x.num := by omega
      rw [← Rat.intCast_natCast, this, Rat.intCast_neg]
    rw [this, ← hx2]; grind
  · rw [if_neg h]
    have hn : 0 ≤ x.num := by
      have := (Rat.num_nonneg (q := x)); grind
    have : ((x.num.natAbs : Nat) : Rat) = (x.num : Rat) := by
      have : ((x.num.natAbs : Nat) : Int) = x.num := by omega
      rw [← Rat.intCast_natCast, this]
    rw [this, ← hx2]


theorem natCast_pow2_le {n : Nat} (h : n ≠ 0) : pow2 (n.log2 : Int) ≤ (n : Rat) := by
  rw [pow2_natCast]; exact Rat.natCast_le_natCast.mpr (Nat.log2_self_le h)

theorem natCast_lt_pow2 (n : Nat) : (n : Rat) < pow2 ((n.log2 : Int) + 1) := by
  have : ((n.log2 : Int) + 1) = ((n.log2 + 1 : Nat) : Int) := by omega
  rw [this, pow2_natCast]; exact Rat.natCast_lt_natCast.mpr Nat.lt_log2_self

theorem lt_of_mul_lt_mul_pos {a b c : Rat} (hc : 0 < c) (h : a * c < b * c) : a < b := by
  have := (Rat.mul_lt_mul_left (a := a) (b := b) hc)
  grind

theorem le_of_mul_le_mul_pos {a b c : Rat} (hc : 0 < c) (h : a * c ≤ b * c) : a ≤ b :=
  Rat.le_of_mul_le_mul_right h hc

/-- the bit-length candidate brackets |x| within a factor 2 on each side -/
theorem ilog2_bracket {x : Rat} (hx : x ≠ 0) :
    pow2 ((x.num.natAbs.log2 : Int) - (x.den.log2 : Int) - 1) < absR x ∧
    absR x < pow2 ((x.num.natAbs.log2 : Int) - (x.den.log2 : Int) + 1) := by
  have hn : x.num.natAbs ≠ 0 := by
    intro h; apply hx; exact Rat.num_eq_zero.mp (by omega)
  have hd : x.den ≠ 0 := x.den_nz
  have e := absR_eq_div x
  have n1 := natCast_pow2_le hn
  have n2 := natCast_lt_pow2 x.num.natAbs
  have d1 := natCast_pow2_le hd
  have d2 := natCast_lt_pow2 x.den
  have hpos := absR_pos hx
  generalize (x.num.natAbs.log2 : Int) = a at *
  generalize (x.den.log2 : Int) = b at *
  generalize (x.num.natAbs : Rat) = n at *
  generalize (x.den : Rat) = d at *
  generalize absR x = y at *
  constructor
  · apply lt_of_mul_lt_mul_pos (pow2_pos (b + 1))
    rw [← pow2_add]
    have : a - b - 1 + (b + 1) = a := by omega
    rw [this]
    have := (Rat.mul_lt_mul_left (a := d) (b := pow2 (b+1)) hpos).mpr d2
    grind
  · apply lt_of_mul_lt_mul_pos (pow2_pos b)
    rw [← pow2_add]
    have : a - b + 1 + b = a + 1 := by omega
    rw [this]
    have := Rat.mul_le_mul_of_nonneg_left d1 (Rat.le_of_lt hpos)
    grind

theorem ilog2_spec {x : Rat} (hx : x ≠ 0) :
    pow2 (ilog2 x) ≤ absR x ∧ absR x < pow2 (ilog2 x + 1) := by
  have hb := ilog2_bracket hx
  unfold ilog2
  by_cases h : pow2 ((x.num.natAbs.log2 : Int) - (x.den.log2 : Int)) ≤ absR x
  · rw [if_pos h]; exact ⟨h, hb.2⟩
  · rw [if_neg h]
    refine ⟨Rat.le_of_lt hb.1, ?_⟩
    have : (x.num.natAbs.log2 : Int) - (x.den.log2 : Int) - 1 + 1 = (x.num.natAbs.log2 : Int) - (x.den.log2 : Int) := by omega
    rw [this]; grind

/-- ⌊log2⌋ is characterised by its bracket -/
theorem ilog2_unique {x : Rat} (hx : x ≠ 0) {l : Int} (h1 : pow2 l ≤ absR x) (h2 : absR x < pow2 (l + 1)) :
    ilog2 x = l := by
  have hs := ilog2_spec hx
  have a : pow2 l < pow2 (ilog2 x + 1) := by grind
  have b : pow2 (ilog2 x) < pow2 (l + 1) := by grind
  have := pow2_lt_iff.mp a
  have := pow2_lt_iff.mp b
  omega

theorem ilog2_neg (x : Rat) : ilog2 (-x) = ilog2 x := by
  unfold ilog2
  rw [absR_neg, Rat.neg_num, Rat.neg_den, Int.natAbs_neg]

theorem ilog2_mono {x y : Rat} (hx : x ≠ 0) (hy : y ≠ 0) (h : absR x ≤ absR y) : ilog2 x ≤ ilog2 y := by
  have sx := ilog2_spec hx
  have sy := ilog2_spec hy
  have : pow2 (ilog2 x) < pow2 (ilog2 y + 1) := by grind
  have := pow2_lt_iff.mp this
  omega


theorem floor_bounds (y : Rat) : (y.floor : Rat) ≤ y ∧ y < (y.floor : Rat) + 1 := by
  refine ⟨Rat.floor_le y, ?_⟩
  have := Rat.lt_floor_add_one y
  rw [Rat.intCast_add] at this; exact this

theorem rne_cases (y : Rat) : rne y = y.floor ∨ rne y = y.floor + 1 := by
  unfold rne; grind

theorem rne_err (y : Rat) : ((rne y : Int) : Rat) - y ≤ 1/2 ∧ y - ((rne y : Int) : Rat) ≤ 1/2 := by
  have hb := floor_bounds y
  unfold rne
  split
  · grind
  · split
    · rw [Rat.intCast_add]; grind
    · split
      · grind
      · rw [Rat.intCast_add]; grind

theorem rne_intCast (k : Int) : rne (k : Rat) = k := by
  unfold rne
  rw [Rat.floor_intCast]
  have : (2 : Rat) * ((k : Rat) - (k : Rat)) < 1 := by grind
  rw [if_pos this]

theorem rne_mono {y z : Rat} (h : y ≤ z) : rne y ≤ rne z := by
  have hy := floor_bounds y
  have hz := floor_bounds z
  have hf := Rat.floor_monotone h
  by_cases hfg : y.floor < z.floor
  · have := rne_cases y
    have := rne_cases z
    omega
  · have e : y.floor = z.floor := by omega
    unfold rne
    rw [e] at hy ⊢
    generalize z.floor = f at *
    split <;> split <;> (try split) <;> (try split) <;> (try split) <;> grind

theorem rne_ge_int {k : Int} {y : Rat} (h : (k : Rat) ≤ y) : k ≤ rne y := by
  have := rne_mono h; rw [rne_intCast] at this; exact this

theorem rne_le_int {k : Int} {y : Rat} (h : y ≤ (k : Rat)) : rne y ≤ k := by
  have := rne_mono h; rw [rne_intCast] at this; exact this


theorem pow2_52 : pow2 52 = ((4503599627370496 : Int) : Rat) := by decide
theorem pow2_53 : pow2 53 = ((9007199254740992 : Int) : Rat) := by decide

/-- scaled magnitude: |x| in units of the last place -/
def sc (x : Rat) : Rat := absR x / pow2 (expOf x)

theorem sc_mul (x : Rat) : sc x * pow2 (expOf x) = absR x := by
  unfold sc; exact Rat.div_mul_cancel (pow2_ne_zero _)

theorem expOf_ge (x : Rat) : -1074 ≤ expOf x := by unfold expOf; split <;> omega

theorem expOf_neg (x : Rat) : expOf (-x) = expOf x := by unfold expOf; rw [ilog2_neg]

theorem sc_neg (x : Rat) : sc (-x) = sc x := by unfold sc; rw [absR_neg, expOf_neg]

theorem expOf_mono {x y : Rat} (hx : x ≠ 0) (hy : y ≠ 0) (h : absR x ≤ absR y) : expOf x ≤ expOf y := by
  have := ilog2_mono hx hy h
  unfold expOf; split <;> split <;> omega

theorem sc_nonneg (x : Rat) : 0 ≤ sc x := by
  have h := sc_mul x
  have hp := pow2_pos (expOf x)
  have ha := absR_nonneg x
  by_cases hs : 0 ≤ sc x
  · exact hs
  · exfalso
    have : sc x * pow2 (expOf x) < 0 * pow2 (expOf x) := by
      have := (Rat.mul_lt_mul_left (a := sc x) (b := 0) hp); grind
    grind

/-- normal range: the scaled magnitude lies in [2^52, 2^53) -/
theorem sc_normal {x : Rat} (hx : x ≠ 0) (hn : -1022 ≤ ilog2 x) :
    pow2 52 ≤ sc x ∧ sc x < pow2 53 := by
  have hs := ilog2_spec hx
  have he : expOf x = ilog2 x - 52 := by unfold expOf; rw [if_neg (by omega)]
  have hm := sc_mul x
  rw [he] at hm
  have hp := pow2_pos (ilog2 x - 52)
  constructor
  · apply le_of_mul_le_mul_pos hp
    rw [← pow2_add, hm]
    have : (52 : Int) + (ilog2 x - 52) = ilog2 x := by omega
    rw [this]; exact hs.1
  · apply lt_of_mul_lt_mul_pos hp
    rw [← pow2_add, hm]
    have : (53 : Int) + (ilog2 x - 52) = ilog2 x + 1 := by omega
    rw [this]; exact hs.2

/-- subnormal range: below 2^52 units of 2^-1074 -/
theorem sc_subnormal {x : Rat} (hx : x ≠ 0) (hn : ilog2 x < -1022) :
    expOf x = -1074 ∧ sc x < pow2 52 := by
  have hs := ilog2_spec hx
  have he : expOf x = -1074 := by unfold expOf; rw [if_pos hn]
  refine ⟨he, ?_⟩
  have hm := sc_mul x
  rw [he] at hm
  apply lt_of_mul_lt_mul_pos (pow2_pos (-1074))
  rw [← pow2_add, hm]
  have : pow2 (ilog2 x + 1) ≤ pow2 (52 + -1074) := pow2_mono (by omega)
  grind

/-- the rounded mantissa -/
def mant (x : Rat) : Int := rne (sc x)

theorem mant_nonneg (x : Rat) : 0 ≤ mant x := by
  unfold mant
  have := sc_nonneg x
  exact rne_ge_int (k := 0) (by simpa using this)

theorem mant_le (x : Rat) (hx : x ≠ 0) : mant x ≤ 9007199254740992 := by
  unfold mant
  by_cases hn : -1022 ≤ ilog2 x
  · have := (sc_normal hx hn).2
    rw [pow2_53] at this
    exact rne_le_int (Rat.le_of_lt this)
  · have := (sc_subnormal hx (by omega)).2
    rw [pow2_52] at this
    have := rne_le_int (Rat.le_of_lt this)
    omega

theorem mant_normal {x : Rat} (hx : x ≠ 0) (hn : -1022 ≤ ilog2 x) : 4503599627370496 ≤ mant x := by
  unfold mant
  have := (sc_normal hx hn).1
  rw [pow2_52] at this
  exact rne_ge_int this

theorem mant_subnormal {x : Rat} (hx : x ≠ 0) (hn : ilog2 x < -1022) : mant x ≤ 4503599627370496 := by
  unfold mant
  have := (sc_subnormal hx hn).2
  rw [pow2_52] at this
  exact rne_le_int (Rat.le_of_lt this)

/-- the rounded magnitude as a rational (before the overflow test) -/
def Rv (x : Rat) : Rat := (mant x : Rat) * pow2 (expOf x)

theorem Rv_neg (x : Rat) : Rv (-x) = Rv x := by unfold Rv mant; rw [sc_neg, expOf_neg]

theorem Rv_nonneg (x : Rat) : 0 ≤ Rv x := by
  unfold Rv
  have h1 : (0 : Rat) ≤ (mant x : Rat) := Rat.intCast_nonneg.mpr (mant_nonneg x)
  have := Rat.mul_le_mul_of_nonneg_left (Rat.le_of_lt (pow2_pos (expOf x))) h1
  grind

theorem Rv_le_of_mant_le {x : Rat} {k : Int} (h : mant x ≤ k) : Rv x ≤ (k : Rat) * pow2 (expOf x) := by
  unfold Rv
  exact Rat.mul_le_mul_of_nonneg_right (Rat.intCast_le_intCast.mpr h) (Rat.le_of_lt (pow2_pos _))

theorem Rv_ge_of_mant_ge {x : Rat} {k : Int} (h : k ≤ mant x) : (k : Rat) * pow2 (expOf x) ≤ Rv x := by
  unfold Rv
  exact Rat.mul_le_mul_of_nonneg_right (Rat.intCast_le_intCast.mpr h) (Rat.le_of_lt (pow2_pos _))

/-- monotonicity of the rounded magnitude in the magnitude -/
theorem Rv_mono {x y : Rat} (hx : x ≠ 0) (hy : y ≠ 0) (h : absR x ≤ absR y) : Rv x ≤ Rv y := by
  have he := expOf_mono hx hy h
  by_cases heq : expOf x = expOf y
  · -- same quantum: rne is monotone
    have hsc : sc x ≤ sc y := by
      apply le_of_mul_le_mul_pos (pow2_pos (expOf x))
      rw [sc_mul]; rw [heq, sc_mul]; exact h
    have hm : mant x ≤ mant y := rne_mono hsc
    unfold Rv; rw [heq]
    exact Rat.mul_le_mul_of_nonneg_right (Rat.intCast_le_intCast.mpr hm) (Rat.le_of_lt (pow2_pos _))
  · -- y lives in a higher binade: Rv x ≤ 2^(ex+53) ≤ 2^(ey+52) ≤ Rv y
    have hlt : expOf x < expOf y := by omega
    have hyn : -1022 ≤ ilog2 y := by
      have := expOf_ge x
      by_cases hh : -1022 ≤ ilog2 y
      · exact hh
      · have := (sc_subnormal hy (by omega)).1; omega
    have h1 := Rv_le_of_mant_le (mant_le x hx)
    have h2 := Rv_ge_of_mant_ge (mant_normal hy hyn)
    rw [← pow2_53, ← pow2_add] at h1
    rw [← pow2_52, ← pow2_add] at h2
    have : pow2 (53 + expOf x) ≤ pow2 (52 + expOf y) := pow2_mono (by omega)
    grind


theorem P52_eq : P52 = 4503599627370496 := rfl
theorem P53_eq : P53 = 9007199254740992 := rfl

theorem le_fin_fin (s1 : Bool) (m1 : Nat) (e1 : Int) (s2 : Bool) (m2 : Nat) (e2 : Int) :
    le (fin s1 m1 e1) (fin s2 m2 e2) = decide (toRat (fin s1 m1 e1) ≤ toRat (fin s2 m2 e2)) := rfl

theorem rnd_eq {x : Rat} (hx : x ≠ 0) :
    rnd x = mkFin (decide (x < 0)) (mant x).toNat (expOf x) := by
  unfold rnd; rw [if_neg hx]; rfl

theorem mant_toNat (x : Rat) : (((mant x).toNat : Nat) : Rat) = (mant x : Rat) := by
  have := mant_nonneg x
  have h : (((mant x).toNat : Nat) : Int) = mant x := by omega
  rw [← Rat.intCast_natCast, h]

/-- what `rnd` returns for a non-zero argument: either the finite canonical double of magnitude
    `Rv x` (when that is below 2^1024) or the infinity of x's sign -/
theorem rnd_spec {x : Rat} (hx : x ≠ 0) :
    (Rv x < pow2 1024 ∧ ∃ m e, rnd x = fin (decide (x < 0)) m e ∧ wf (fin (decide (x < 0)) m e) = true ∧
        (m : Rat) * pow2 e = Rv x) ∨
    (pow2 1024 ≤ Rv x ∧ rnd x = inf (decide (x < 0))) := by
  rw [rnd_eq hx]
  have hnn := mant_nonneg x
  have hle := mant_le x hx
  have heg := expOf_ge x
  have hcast := mant_toNat x
  unfold mkFin
  simp only [P52_eq, P53_eq]
  by_cases h53 : (mant x).toNat = 9007199254740992
  · rw [if_pos h53]
    have hm : mant x = 9007199254740992 := by omega
    have hRv : Rv x = pow2 (53 + expOf x) := by
      unfold Rv; rw [hm, ← pow2_53, ← pow2_add]
    by_cases he : expOf x ≥ 971
    · rw [if_pos he]
      right
      refine ⟨?_, rfl⟩
      rw [hRv]; exact pow2_mono (by omega)
    · rw [if_neg he]
      left
      refine ⟨?_, 4503599627370496, expOf x + 1, rfl, ?_, ?_⟩
      · rw [hRv]; exact pow2_lt (by omega)
      · unfold wf; simp only [P52_eq, P53_eq, decide_eq_true_eq]; omega
      · rw [hRv]
        have : ((4503599627370496 : Nat) : Rat) = pow2 52 := by rw [pow2_52]; rfl
        rw [this, ← pow2_add]; congr 1; omega
  · rw [if_neg h53]
    have hm : mant x < 9007199254740992 := by omega
    by_cases he : expOf x > 971
    · rw [if_pos he]
      right
      refine ⟨?_, rfl⟩
      have hn : -1022 ≤ ilog2 x := by
        by_cases hh : -1022 ≤ ilog2 x
        · exact hh
        · have := (sc_subnormal hx (by omega)).1; omega
      have h2 := Rv_ge_of_mant_ge (mant_normal hx hn)
      rw [← pow2_52, ← pow2_add] at h2
      have : pow2 1024 ≤ pow2 (52 + expOf x) := pow2_mono (by omega)
      grind
    · rw [if_neg he]
      left
      refine ⟨?_, (mant x).toNat, expOf x, rfl, ?_, ?_⟩
      · have h1 : Rv x ≤ ((9007199254740991 : Int) : Rat) * pow2 (expOf x) := Rv_le_of_mant_le (by omega)
        have h3 : ((9007199254740991 : Int) : Rat) * pow2 (expOf x) < pow2 53 * pow2 (expOf x) := by
          have := (Rat.mul_lt_mul_left (a := ((9007199254740991 : Int) : Rat)) (b := pow2 53) (pow2_pos (expOf x)))
          rw [Rat.mul_comm (pow2 (expOf x)), Rat.mul_comm (pow2 (expOf x))] at this
          exact this.mpr (by decide)
        rw [← pow2_add] at h3
        have : pow2 (53 + expOf x) ≤ pow2 1024 := pow2_mono (by omega)
        grind
      · unfold wf; simp only [P52_eq, P53_eq, decide_eq_true_eq]
        refine ⟨by omega, heg, by omega, ?_⟩
        by_cases hn : -1022 ≤ ilog2 x
        · right; have := mant_normal hx hn; omega
        · left; exact (sc_subnormal hx (by omega)).1
      · unfold Rv; rw [hcast]

theorem mkFin_neg (s : Bool) (m : Nat) (e : Int) : mkFin (!s) m e = neg (mkFin s m e) := by
  unfold mkFin; split <;> split <;> rfl

theorem rnd_neg {x : Rat} (hx : x ≠ 0) : rnd (-x) = neg (rnd x) := by
  have hx' : -x ≠ 0 := by grind
  rw [rnd_eq hx, rnd_eq hx', ← mkFin_neg]
  unfold mant; rw [sc_neg, expOf_neg]
  congr 1
  by_cases h : x < 0
  · have : ¬ (-x < 0) := by grind
    simp [h, this]
  · have : -x < 0 := by grind
    simp [h, this]

theorem toRat_fin (s : Bool) (m : Nat) (e : Int) :
    toRat (fin s m e) = if s then -((m : Rat) * pow2 e) else (m : Rat) * pow2 e := rfl

theorem mag_nonneg (m : Nat) (e : Int) : 0 ≤ (m : Rat) * pow2 e := by
  have := Rat.mul_le_mul_of_nonneg_left (Rat.le_of_lt (pow2_pos e)) (Rat.natCast_nonneg (a := m))
  grind

/-- `le` is the order of the extended reals on non-NaN values -/
theorem le_neg_neg (a b : F64) : le (neg a) (neg b) = le b a := by
  cases a with
  | nan => cases b <;> rfl
  | inf sa =>
    cases b with
    | nan => rfl
    | inf sb => cases sa <;> cases sb <;> rfl
    | fin sb mb eb => cases sa <;> rfl
  | fin sa ma ea =>
    cases b with
    | nan => rfl
    | inf sb => cases sb <;> rfl
    | fin sb mb eb =>
      unfold neg
      rw [le_fin_fin, le_fin_fin]
      simp only [toRat_fin]
      cases sa <;> cases sb <;> simp only [Bool.not_true, Bool.not_false, if_true, Bool.false_eq_true, if_false] <;>
        (apply decide_eq_decide.mpr; grind)

/-- monotonicity on positive arguments -/
theorem rnd_mono_pos {x y : Rat} (hx : 0 < x) (h : x ≤ y) : le (rnd x) (rnd y) = true := by
  have hx0 : x ≠ 0 := by grind
  have hy0 : y ≠ 0 := by grind
  have hxn : ¬ x < 0 := by grind
  have hyn : ¬ y < 0 := by grind
  have hR := Rv_mono hx0 hy0 (by rw [absR_of_nonneg (by grind), absR_of_nonneg (by grind)]; exact h)
  rcases rnd_spec hy0 with ⟨hy1, m2, e2, hy2, _, hy3⟩ | ⟨hy1, hy2⟩
  · rcases rnd_spec hx0 with ⟨hx1, m1, e1, hx2, _, hx3⟩ | ⟨hx1, hx2⟩
    · rw [hx2, hy2]
      simp only [hxn, hyn, decide_false]
      rw [le_fin_fin, decide_eq_true_eq, toRat_fin, toRat_fin]
      simp only [Bool.false_eq_true, if_false]
      rw [hx3, hy3]; exact hR
    · exfalso; grind
  · rw [hy2]
    simp only [hyn, decide_false]
    rcases rnd_spec hx0 with ⟨hx1, m1, e1, hx2, _, hx3⟩ | ⟨hx1, hx2⟩
    · rw [hx2]; rfl
    · rw [hx2]; simp only [hxn, decide_false]; rfl

theorem rnd_zero : rnd 0 = zero false := by unfold rnd; rw [if_pos rfl]

/-- the result for a positive argument is ≥ 0, for a negative one ≤ 0 -/
theorem rnd_pos_cases {x : Rat} (hx : 0 < x) :
    (∃ m e, rnd x = fin false m e) ∨ rnd x = inf false := by
  have hx0 : x ≠ 0 := by grind
  have hxn : ¬ x < 0 := by grind
  rcases rnd_spec hx0 with ⟨_, m, e, h, _, _⟩ | ⟨_, h⟩
  · left; exact ⟨m, e, by rw [h]; simp [hxn]⟩
  · right; rw [h]; simp [hxn]

theorem rnd_neg_cases {x : Rat} (hx : x < 0) :
    (∃ m e, rnd x = fin true m e) ∨ rnd x = inf true := by
  have hx0 : x ≠ 0 := by grind
  rcases rnd_spec hx0 with ⟨_, m, e, h, _, _⟩ | ⟨_, h⟩
  · left; exact ⟨m, e, by rw [h]; simp [hx]⟩
  · right; rw [h]; simp [hx]

/-- **rnd_mono**: rounding is monotone (in the IEEE order `le`, which treats -0 = +0 and puts
    the infinities at the ends; `rnd` never returns NaN). -/
theorem rnd_mono {x y : Rat} (h : x ≤ y) : le (rnd x) (rnd y) = true := by
  by_cases hx : 0 < x
  · exact rnd_mono_pos hx h
  · by_cases hy : y < 0
    · -- both negative: reflect
      have hx' : x < 0 := by grind
      have hx0 : x ≠ 0 := by grind
      have hy0 : y ≠ 0 := by grind
      have := rnd_mono_pos (x := -y) (y := -x) (by grind) (by grind)
      rw [rnd_neg hy0, rnd_neg hx0, le_neg_neg] at this
      exact this
    · -- x ≤ 0 ≤ y
      have hmn := mag_nonneg
      by_cases hx0 : x = 0
      · subst hx0; rw [rnd_zero]
        by_cases hy0 : y = 0
        · subst hy0; rw [rnd_zero]; decide +kernel
        · rcases rnd_pos_cases (x := y) (by grind) with ⟨m, e, h⟩ | h
          · rw [h]; unfold zero; rw [le_fin_fin, decide_eq_true_eq, toRat_fin, toRat_fin]
            have := hmn m e; have := hmn 0 (-1074); grind
          · rw [h]; rfl
      · rcases rnd_neg_cases (x := x) (by grind) with ⟨m, e, h1⟩ | h1
        · by_cases hy0 : y = 0
          · subst hy0; rw [rnd_zero, h1]; unfold zero; rw [le_fin_fin, decide_eq_true_eq, toRat_fin, toRat_fin]
            have := hmn m e; have := hmn 0 (-1074); grind
          · rcases rnd_pos_cases (x := y) (by grind) with ⟨m2, e2, h2⟩ | h2
            · rw [h1, h2, le_fin_fin, decide_eq_true_eq, toRat_fin, toRat_fin]
              have := hmn m e; have := hmn m2 e2; grind
            · rw [h1, h2]; rfl
        · rw [h1]
          by_cases hy0 : y = 0
          · subst hy0; rw [rnd_zero]; rfl
          · rcases rnd_pos_cases (x := y) (by grind) with ⟨m2, e2, h2⟩ | h2
            · rw [h2]; rfl
            · rw [h2]; rfl


/-- the sign-magnitude decomposition of a rational -/
theorem signed_absR (x : Rat) : (if x < 0 then -(absR x) else absR x) = x := by
  unfold absR; split <;> grind

theorem isFinite_fin (s : Bool) (m : Nat) (e : Int) : (fin s m e).isFinite = true := rfl

/-- whenever the scaled magnitude is already an integer, rounding is exact -/
theorem rnd_of_sc_int {x : Rat} (hx : x ≠ 0) {k : Int} (hk : sc x = (k : Rat)) (hlt : absR x < pow2 1024) :
    (rnd x).isFinite = true ∧ wf (rnd x) = true ∧ toRat (rnd x) = x := by
  have hm : mant x = k := by unfold mant; rw [hk, rne_intCast]
  have hRv : Rv x = absR x := by unfold Rv; rw [hm, ← hk, sc_mul]
  rcases rnd_spec hx with ⟨_, m, e, h1, h2, h3⟩ | ⟨h1, _⟩
  · rw [h1]
    refine ⟨rfl, h2, ?_⟩
    rw [toRat_fin, h3, hRv]
    have := signed_absR x
    by_cases hs : x < 0
    · simp only [hs, decide_true, if_true] at this ⊢; exact this
    · simp only [hs, decide_false, if_false] at this ⊢
      simp only [Bool.false_eq_true, if_false]; exact this
  · exfalso; grind

/-- magnitudes of the form j·2^e' with e' at or above the rounding exponent have an integer scaling -/
theorem sc_of_dyadic {x : Rat} (j : Nat) (e' : Int) (habs : absR x = (j : Rat) * pow2 e')
    (hge : expOf x ≤ e') : sc x = (((j * 2 ^ (e' - expOf x).toNat : Nat) : Int) : Rat) := by
  apply Rat.le_antisymm <;>
  · apply le_of_mul_le_mul_pos (pow2_pos (expOf x))
    rw [sc_mul, habs, Rat.intCast_natCast, Rat.natCast_mul, ← pow2_natCast, Rat.mul_assoc, ← pow2_add]
    have : (((e' - expOf x).toNat : Nat) : Int) + expOf x = e' := by omega
    rw [this]; exact Rat.le_refl

theorem intCast_le_natCast {m : Nat} {k : Int} (h : k ≤ (m : Int)) : (k : Rat) ≤ (m : Rat) := by
  have := Rat.intCast_le_intCast.mpr h; rwa [Rat.intCast_natCast] at this

theorem natCast_lt_intCast {m : Nat} {k : Int} (h : (m : Int) < k) : (m : Rat) < (k : Rat) := by
  have := Rat.intCast_lt_intCast.mpr h; rwa [Rat.intCast_natCast] at this

theorem mul_lt_mul_pos_right {a b c : Rat} (hc : 0 < c) (h : a < b) : a * c < b * c := by
  have := (Rat.mul_lt_mul_left (a := a) (b := b) hc)
  rw [Rat.mul_comm c, Rat.mul_comm c] at this
  exact this.mpr h

theorem ilog2_of_bracket_nat {x : Rat} (hx : x ≠ 0) {m : Nat} {e : Int}
    (habs : absR x = (m : Rat) * pow2 e) (h1 : 4503599627370496 ≤ m) (h2 : m < 9007199254740992) :
    ilog2 x = e + 52 := by
  apply ilog2_unique hx
  · rw [habs, Int.add_comm, pow2_add, pow2_52]
    exact Rat.mul_le_mul_of_nonneg_right (intCast_le_natCast (by omega)) (Rat.le_of_lt (pow2_pos e))
  · rw [habs]
    have : e + 52 + 1 = 53 + e := by omega
    rw [this, pow2_add, pow2_53]
    exact mul_lt_mul_pos_right (pow2_pos e) (natCast_lt_intCast (by omega))

/-- **fixed points**: every canonical finite double is returned unchanged (up to the sign of zero,
    which `rnd` does not see) -/
theorem rnd_toRat_fin {s : Bool} {m : Nat} {e : Int} (hw : wf (fin s m e) = true) (hm : m ≠ 0) :
    rnd (toRat (fin s m e)) = fin s m e := by
  unfold wf at hw; simp only [P52_eq, P53_eq, decide_eq_true_eq] at hw
  obtain ⟨w1, w2, w3, w4⟩ := hw
  have hmag_pos : 0 < (m : Rat) * pow2 e :=
    Rat.mul_pos (Rat.natCast_pos.mpr (by omega)) (pow2_pos e)
  have hx : toRat (fin s m e) ≠ 0 := by rw [toRat_fin]; split <;> grind
  have habs : absR (toRat (fin s m e)) = (m : Rat) * pow2 e := by
    rw [toRat_fin]; unfold absR; split <;> split <;> grind
  have hsign : decide (toRat (fin s m e) < 0) = s := by
    rw [toRat_fin]; cases s <;> simp <;> grind
  -- the rounding exponent is e
  have hexp : expOf (toRat (fin s m e)) = e := by
    by_cases hn : 4503599627370496 ≤ m
    · have := ilog2_of_bracket_nat hx habs hn w1
      unfold expOf; rw [this, if_neg (by omega)]; omega
    · have he : e = -1074 := by omega
      have hl : ilog2 (toRat (fin s m e)) < -1022 := by
        have hs := ilog2_spec hx
        have : pow2 (ilog2 (toRat (fin s m e))) < pow2 (52 + e) := by
          rw [pow2_add, pow2_52]
          have := mul_lt_mul_pos_right (pow2_pos e) (natCast_lt_intCast (m := m) (k := 4503599627370496) (by omega))
          grind
        have := pow2_lt_iff.mp this
        omega
      unfold expOf; rw [if_pos hl, he]
  have hsc : sc (toRat (fin s m e)) = ((m : Int) : Rat) := by
    have := sc_of_dyadic m e habs (by omega)
    rw [hexp] at this
    rw [this]; congr 1
    have : (e - e).toNat = 0 := by omega
    rw [this]; simp
  have hmant : mant (toRat (fin s m e)) = m := by unfold mant; rw [hsc, rne_intCast]
  rw [rnd_eq hx, hsign, hmant, hexp]
  unfold mkFin; simp only [P52_eq, P53_eq]
  rw [if_neg (by omega), if_neg (by omega)]
  simp

/-- `rnd` only returns canonical values -/
theorem rnd_wf (x : Rat) : wf (rnd x) = true := by
  by_cases hx : x = 0
  · subst hx; rw [rnd_zero]; decide
  · rcases rnd_spec hx with ⟨_, m, e, h1, h2, _⟩ | ⟨_, h1⟩
    · rw [h1]; exact h2
    · rw [h1]; rfl

theorem rnd_ne_nan (x : Rat) : rnd x ≠ nan := by
  by_cases hx : x = 0
  · subst hx; rw [rnd_zero]; intro h; cases h
  · rcases rnd_spec hx with ⟨_, m, e, h1, _, _⟩ | ⟨_, h1⟩ <;> (rw [h1]; intro h; cases h)

/-- value of a finite rounding result -/
theorem toRat_rnd {x : Rat} (hx : x ≠ 0) (hf : (rnd x).isFinite = true) :
    toRat (rnd x) = (if x < 0 then -(Rv x) else Rv x) ∧ Rv x < pow2 1024 := by
  rcases rnd_spec hx with ⟨h0, m, e, h1, _, h3⟩ | ⟨_, h1⟩
  · rw [h1, toRat_fin, h3]
    refine ⟨?_, h0⟩
    by_cases hs : x < 0 <;> simp [hs]
  · rw [h1] at hf; cases hf

/-- finite unless the rounded magnitude reaches 2^1024 -/
theorem rnd_isFinite_iff {x : Rat} (hx : x ≠ 0) : (rnd x).isFinite = true ↔ Rv x < pow2 1024 := by
  rcases rnd_spec hx with ⟨h0, m, e, h1, _, _⟩ | ⟨h0, h1⟩
  · rw [h1]; exact ⟨fun _ => h0, fun _ => rfl⟩
  · rw [h1]; constructor
    · intro h; cases h
    · intro h; exfalso; grind

/-- error of the rounded magnitude: at most half a unit in the last place -/
theorem Rv_err (x : Rat) : Rv x - absR x ≤ pow2 (expOf x) / 2 ∧ absR x - Rv x ≤ pow2 (expOf x) / 2 := by
  have he := rne_err (sc x)
  have hm := sc_mul x
  have hp := pow2_pos (expOf x)
  unfold Rv mant
  generalize (rne (sc x) : Rat) = M at *
  generalize sc x = y at *
  generalize pow2 (expOf x) = p at *
  have h1 := Rat.mul_le_mul_of_nonneg_right he.1 (Rat.le_of_lt hp)
  have h2 := Rat.mul_le_mul_of_nonneg_right he.2 (Rat.le_of_lt hp)
  grind

/-- absolute error of a finite rounding: half a unit in the last place, 2^(expOf x - 1) -/
theorem rnd_abs_err {x : Rat} (hf : (rnd x).isFinite = true) :
    absR (toRat (rnd x) - x) * 2 ≤ pow2 (expOf x) := by
  by_cases hx : x = 0
  · subst hx; rw [rnd_zero]
    have : toRat (zero false) - 0 = 0 := by decide +kernel
    rw [this]
    have := pow2_pos (expOf 0)
    unfold absR; grind
  · have ht := (toRat_rnd hx hf).1
    have he := Rv_err x
    have hs := signed_absR x
    rw [ht]
    unfold absR at *
    by_cases hneg : x < 0 <;> simp only [hneg, if_true, if_false] at * <;> split <;> grind

/-- **rnd_rel_err**: in the normal range (|x| ≥ 2^-1022, result finite) the relative error is at
    most 2^-53:  |rnd x − x| · 2^53 ≤ |x| -/
theorem rnd_rel_err {x : Rat} (hlo : pow2 (-1022) ≤ absR x) (hf : (rnd x).isFinite = true) :
    absR (toRat (rnd x) - x) * pow2 53 ≤ absR x := by
  have hx : x ≠ 0 := by
    intro h; subst h
    have : absR 0 = 0 := by decide +kernel
    have := pow2_pos (-1022); grind
  have hn : -1022 ≤ ilog2 x := by
    have hs := ilog2_spec hx
    have : pow2 (-1022) < pow2 (ilog2 x + 1) := by grind
    have := pow2_lt_iff.mp this
    omega
  have he : expOf x = ilog2 x - 52 := by unfold expOf; rw [if_neg (by omega)]
  have habs := rnd_abs_err hf
  have hs := (ilog2_spec hx).1
  have : pow2 (ilog2 x) = pow2 (expOf x) * pow2 52 := by
    rw [← pow2_add, he]; congr 1; omega
  rw [this] at hs
  have h53 : pow2 53 = 2 * pow2 52 := by rw [show (53 : Int) = 52 + 1 by rfl, pow2_succ]
  rw [h53]
  have hp := pow2_pos 52
  have hnn := absR_nonneg (toRat (rnd x) - x)
  generalize absR (toRat (rnd x) - x) = d at *
  generalize pow2 (expOf x) = p at *
  generalize pow2 52 = q at *
  have := Rat.mul_le_mul_of_nonneg_right habs (Rat.le_of_lt hp)
  grind

/-- **rnd_int**: every integer of magnitude at most 2^53 is a fixed point of `rnd` -/
theorem rnd_int (n : Int) (h : -9007199254740992 ≤ n ∧ n ≤ 9007199254740992) :
    (rnd (n : Rat)).isFinite = true ∧ wf (rnd (n : Rat)) = true ∧ toRat (rnd (n : Rat)) = (n : Rat) := by
  by_cases h0 : n = 0
  · subst h0; exact ⟨by decide +kernel, by decide +kernel, by decide +kernel⟩
  by_cases hmax : n = 9007199254740992
  · subst hmax; exact ⟨by decide +kernel, by decide +kernel, by decide +kernel⟩
  by_cases hmin : n = -9007199254740992
  · subst hmin; exact ⟨by decide +kernel, by decide +kernel, by decide +kernel⟩
  have hx : (n : Rat) ≠ 0 := by
    intro hh; exact h0 (Rat.intCast_eq_zero_iff.mp hh)
  have habs : absR (n : Rat) = ((n.natAbs : Nat) : Rat) * pow2 0 := by
    rw [pow2_zero, Rat.mul_one]
    unfold absR
    by_cases hneg : n < 0
    · have : (n : Rat) < 0 := Rat.intCast_neg_iff.mpr hneg
      rw [if_pos this, ← Rat.intCast_natCast, ← Rat.intCast_neg]; congr 1; omega
    · have : ¬ (n : Rat) < 0 := by
        intro hh; exact hneg (Rat.intCast_neg_iff.mp hh)
      rw [if_neg this, ← Rat.intCast_natCast]; congr 1; omega
  have hlt53 : absR (n : Rat) < pow2 53 := by
    rw [habs, pow2_zero, Rat.mul_one, pow2_53]
    exact natCast_lt_intCast (by omega)
  have hexp : expOf (n : Rat) ≤ 0 := by
    have hs := ilog2_spec hx
    have : pow2 (ilog2 (n : Rat)) < pow2 53 := by grind
    have := pow2_lt_iff.mp this
    unfold expOf; split <;> omega
  have hsc := sc_of_dyadic n.natAbs 0 habs hexp
  exact rnd_of_sc_int hx hsc (by
    have : pow2 53 ≤ pow2 1024 := pow2_mono (by decide)
    grind)


/-! ### operations on finite values in "exact value, then round" form -/

/-- `rnd`, except that an exact zero gets the sign `s` -/
def rndz (x : Rat) (s : Bool) : F64 := if x = 0 then zero s else rnd x

theorem toRat_zero (s : Bool) : toRat (zero s) = 0 := by cases s <;> decide +kernel

theorem toRat_fin_zero (s : Bool) (e : Int) : toRat (fin s 0 e) = 0 := by
  rw [toRat_fin]
  have : ((0 : Nat) : Rat) * pow2 e = 0 := by
    have : ((0 : Nat) : Rat) = 0 := rfl
    rw [this, Rat.zero_mul]
  rw [this]; split <;> rfl

theorem toRat_eq_zero_iff (s : Bool) (m : Nat) (e : Int) : toRat (fin s m e) = 0 ↔ m = 0 := by
  constructor
  · intro h
    by_cases hm : m = 0
    · exact hm
    · exfalso
      have : 0 < (m : Rat) * pow2 e := Rat.mul_pos (Rat.natCast_pos.mpr (by omega)) (pow2_pos e)
      rw [toRat_fin] at h
      split at h <;> grind
  · intro h; subst h; exact toRat_fin_zero s e

theorem mul_fin_def (s1 : Bool) (m1 : Nat) (e1 : Int) (s2 : Bool) (m2 : Nat) (e2 : Int) :
    mul (fin s1 m1 e1) (fin s2 m2 e2) =
      if m1 = 0 ∨ m2 = 0 then zero (s1 != s2)
      else rnd (toRat (fin s1 m1 e1) * toRat (fin s2 m2 e2)) := rfl

theorem mul_fin (s1 : Bool) (m1 : Nat) (e1 : Int) (s2 : Bool) (m2 : Nat) (e2 : Int) :
    mul (fin s1 m1 e1) (fin s2 m2 e2) =
      rndz (toRat (fin s1 m1 e1) * toRat (fin s2 m2 e2)) (s1 != s2) := by
  rw [mul_fin_def]; unfold rndz
  by_cases h : m1 = 0 ∨ m2 = 0
  · rw [if_pos h]
    have : toRat (fin s1 m1 e1) * toRat (fin s2 m2 e2) = 0 := by
      rcases h with h | h
      · rw [(toRat_eq_zero_iff s1 m1 e1).mpr h, Rat.zero_mul]
      · rw [(toRat_eq_zero_iff s2 m2 e2).mpr h, Rat.mul_zero]
    rw [if_pos this]
  · rw [if_neg h]
    have h1 : toRat (fin s1 m1 e1) ≠ 0 := fun hh => h (Or.inl ((toRat_eq_zero_iff _ _ _).mp hh))
    have h2 : toRat (fin s2 m2 e2) ≠ 0 := fun hh => h (Or.inr ((toRat_eq_zero_iff _ _ _).mp hh))
    have : toRat (fin s1 m1 e1) * toRat (fin s2 m2 e2) ≠ 0 := by grind
    rw [if_neg this]

theorem add_fin (s1 : Bool) (m1 : Nat) (e1 : Int) (s2 : Bool) (m2 : Nat) (e2 : Int) :
    add (fin s1 m1 e1) (fin s2 m2 e2) =
      rndz (toRat (fin s1 m1 e1) + toRat (fin s2 m2 e2)) (s1 && s2) := rfl

/-- a finite value, as data: sign, magnitude, exponent -/
theorem exists_fin_of_isFinite {a : F64} (h : a.isFinite = true) : ∃ s m e, a = fin s m e := by
  cases a with
  | fin s m e => exact ⟨s, m, e, rfl⟩
  | inf s => cases h
  | nan => cases h

theorem mul_finite {a b : F64} (ha : a.isFinite = true) (hb : b.isFinite = true) :
    mul a b = rndz (toRat a * toRat b) (a.sign != b.sign) := by
  obtain ⟨s1, m1, e1, rfl⟩ := exists_fin_of_isFinite ha
  obtain ⟨s2, m2, e2, rfl⟩ := exists_fin_of_isFinite hb
  exact mul_fin ..

theorem add_finite {a b : F64} (ha : a.isFinite = true) (hb : b.isFinite = true) :
    add a b = rndz (toRat a + toRat b) (a.sign && b.sign) := by
  obtain ⟨s1, m1, e1, rfl⟩ := exists_fin_of_isFinite ha
  obtain ⟨s2, m2, e2, rfl⟩ := exists_fin_of_isFinite hb
  exact add_fin ..

theorem le_zero_left (s : Bool) (b : F64) : le (zero s) b = le (zero false) b := by
  cases b with
  | nan => rfl
  | inf sb => rfl
  | fin sb mb eb => unfold zero; rw [le_fin_fin, le_fin_fin, toRat_fin_zero, toRat_fin_zero]

theorem le_zero_right (a : F64) (s : Bool) : le a (zero s) = le a (zero false) := by
  cases a with
  | nan => rfl
  | inf sa => rfl
  | fin sa ma ea => unfold zero; rw [le_fin_fin, le_fin_fin, toRat_fin_zero, toRat_fin_zero]

theorem rndz_eq_or (x : Rat) (s : Bool) : (x = 0 ∧ rndz x s = zero s) ∨ (x ≠ 0 ∧ rndz x s = rnd x) := by
  unfold rndz; by_cases h : x = 0
  · left; exact ⟨h, by rw [if_pos h]⟩
  · right; exact ⟨h, by rw [if_neg h]⟩

/-- `rndz` is monotone whatever signs the exact zeros get -/
theorem le_rndz {x y : Rat} (h : x ≤ y) (s s' : Bool) : le (rndz x s) (rndz y s') = true := by
  have hm := rnd_mono h
  rcases rndz_eq_or x s with ⟨hx, ex⟩ | ⟨hx, ex⟩ <;> rcases rndz_eq_or y s' with ⟨hy, ey⟩ | ⟨hy, ey⟩ <;>
    rw [ex, ey]
  · subst hx; subst hy; rw [le_zero_left, le_zero_right]; decide +kernel
  · subst hx; rw [rnd_zero] at hm; rw [le_zero_left]; exact hm
  · subst hy; rw [rnd_zero] at hm; rw [le_zero_right]; exact hm
  · exact hm

theorem rndz_wf (x : Rat) (s : Bool) : wf (rndz x s) = true := by
  unfold rndz; split
  · cases s <;> decide
  · exact rnd_wf x

theorem rndz_isFinite_zero (s : Bool) : (rndz 0 s).isFinite = true := by
  unfold rndz; rw [if_pos rfl]; rfl

theorem toRat_rndz_zero (s : Bool) : toRat (rndz 0 s) = 0 := by
  unfold rndz; rw [if_pos rfl, toRat_zero]

/-- reading `le` on finite values -/
theorem toRat_le_of_le {a b : F64} (ha : a.isFinite = true) (hb : b.isFinite = true)
    (h : le a b = true) : toRat a ≤ toRat b := by
  obtain ⟨s1, m1, e1, rfl⟩ := exists_fin_of_isFinite ha
  obtain ⟨s2, m2, e2, rfl⟩ := exists_fin_of_isFinite hb
  rw [le_fin_fin, decide_eq_true_eq] at h; exact h

theorem le_of_toRat_le {a b : F64} (ha : a.isFinite = true) (hb : b.isFinite = true)
    (h : toRat a ≤ toRat b) : le a b = true := by
  obtain ⟨s1, m1, e1, rfl⟩ := exists_fin_of_isFinite ha
  obtain ⟨s2, m2, e2, rfl⟩ := exists_fin_of_isFinite hb
  rw [le_fin_fin, decide_eq_true_eq]; exact h

/-- a value squeezed between two finite values is finite -/
theorem isFinite_of_le_le {a x b : F64} (ha : a.isFinite = true) (hb : b.isFinite = true)
    (h1 : le a x = true) (h2 : le x b = true) : x.isFinite = true := by
  obtain ⟨s1, m1, e1, rfl⟩ := exists_fin_of_isFinite ha
  obtain ⟨s2, m2, e2, rfl⟩ := exists_fin_of_isFinite hb
  cases x with
  | fin s m e => rfl
  | nan => cases h1
  | inf s => cases s
             · cases h2
             · cases h1

/-- rounding a rational that lies between two integers of magnitude ≤ 2^53 gives a finite value
    between them -/
theorem rndz_between {x : Rat} {lo hi : Int} (s : Bool)
    (hlo : -9007199254740992 ≤ lo ∧ lo ≤ 9007199254740992)
    (hhi : -9007199254740992 ≤ hi ∧ hi ≤ 9007199254740992)
    (h1 : (lo : Rat) ≤ x) (h2 : x ≤ (hi : Rat)) :
    (rndz x s).isFinite = true ∧ (lo : Rat) ≤ toRat (rndz x s) ∧ toRat (rndz x s) ≤ (hi : Rat) := by
  obtain ⟨f1, _, v1⟩ := rnd_int lo hlo
  obtain ⟨f2, _, v2⟩ := rnd_int hi hhi
  have a1 : le (rnd (lo : Rat)) (rndz x s) = true := by
    have := le_rndz h1 false s
    unfold rndz at this ⊢
    by_cases hz : (lo : Rat) = 0
    · rw [if_pos hz] at this; rw [hz, rnd_zero]; exact this
    · rw [if_neg hz] at this; exact this
  have a2 : le (rndz x s) (rnd (hi : Rat)) = true := by
    have := le_rndz h2 s false
    unfold rndz at this ⊢
    by_cases hz : (hi : Rat) = 0
    · rw [if_pos hz] at this; rw [hz, rnd_zero]; exact this
    · rw [if_neg hz] at this; exact this
  have hf := isFinite_of_le_le f1 f2 a1 a2
  refine ⟨hf, ?_, ?_⟩
  · have := toRat_le_of_le f1 hf a1; rw [v1] at this; exact this
  · have := toRat_le_of_le hf f2 a2; rw [v2] at this; exact this

/-- integer results of magnitude ≤ 2^53 are exact -/
theorem rndz_int (n : Int) (s : Bool) (h : -9007199254740992 ≤ n ∧ n ≤ 9007199254740992) :
    (rndz (n : Rat) s).isFinite = true ∧ toRat (rndz (n : Rat) s) = (n : Rat) := by
  have := rndz_between (x := (n : Rat)) s h h Rat.le_refl Rat.le_refl
  exact ⟨this.1, Rat.le_antisymm this.2.2 this.2.1⟩

theorem ofInt_exact (n : Int) (h : -9007199254740992 ≤ n ∧ n ≤ 9007199254740992) :
    (ofInt n).isFinite = true ∧ toRat (ofInt n) = (n : Rat) := by
  have := rnd_int n h; exact ⟨this.1, this.2.2⟩


/-- every bit pattern decodes to a canonical value -/
theorem ofBits_wf (b : Nat) : wf (ofBits b) = true := by
  unfold ofBits
  simp only [P52_eq]
  by_cases h1 : b / 4503599627370496 % 2048 = 2047
  · rw [if_pos h1]; split <;> rfl
  · rw [if_neg h1]
    by_cases h0 : b / 4503599627370496 % 2048 = 0
    · rw [if_pos h0]
      unfold wf; simp only [P52_eq, P53_eq, decide_eq_true_eq]
      have : b % 4503599627370496 < 4503599627370496 := Nat.mod_lt _ (by decide)
      exact ⟨by omega, by omega, by omega, Or.inl trivial⟩
    · rw [if_neg h0]
      unfold wf; simp only [P52_eq, P53_eq, decide_eq_true_eq]
      have h2 : b / 4503599627370496 % 2048 < 2048 := Nat.mod_lt _ (by decide)
      have h3 : b % 4503599627370496 < 4503599627370496 := Nat.mod_lt _ (by decide)
      generalize b / 4503599627370496 % 2048 = E at *
      generalize b % 4503599627370496 = f at *
      omega

/-- decoding of a pattern given by its three fields -/
theorem ofBits_parts (sb E f : Nat) (hsb : sb ≤ 1) (hE : E < 2048) (hf : f < 4503599627370496) :
    ofBits (sb * 9223372036854775808 + E * 4503599627370496 + f) =
      if E = 2047 then (if f = 0 then inf (decide (sb = 1)) else nan)
      else if E = 0 then fin (decide (sb = 1)) f (-1074)
      else fin (decide (sb = 1)) (4503599627370496 + f) ((E : Int) - 1075) := by
  have a1 : (sb * 9223372036854775808 + E * 4503599627370496 + f) / 4503599627370496 % 2048 = E := by omega
  have a2 : (sb * 9223372036854775808 + E * 4503599627370496 + f) % 4503599627370496 = f := by omega
  have a3 : (sb * 9223372036854775808 + E * 4503599627370496 + f) / 9223372036854775808 % 2 = sb := by omega
  unfold ofBits
  simp only [P52_eq, a1, a2, a3]

/-- decode ∘ encode is the identity on canonical values -/
theorem ofBits_toBits (x : F64) (hw : wf x = true) : ofBits (toBits x) = x := by
  cases x with
  | nan => decide
  | inf s => cases s <;> decide
  | fin s m e =>
    unfold wf at hw; simp only [P52_eq, P53_eq, decide_eq_true_eq] at hw
    obtain ⟨w1, w2, w3, w4⟩ := hw
    by_cases hm : m < 4503599627370496
    · have he : e = -1074 := by omega
      subst he
      have : toBits (fin s m (-1074)) = (if s then 1 else 0) * 9223372036854775808 + 0 * 4503599627370496 + m := by
        unfold toBits; simp only [P52_eq]; rw [if_pos hm]; cases s <;> simp
      rw [this, ofBits_parts _ 0 m (by cases s <;> simp) (by decide) hm]
      cases s <;> simp
    · obtain ⟨E, hE0, hE1, hE2, hE3⟩ : ∃ E : Nat, (e + 1075).toNat = E ∧ 1 ≤ E ∧ E ≤ 2046 ∧ (E : Int) = e + 1075 :=
        ⟨(e + 1075).toNat, rfl, by omega, by omega, by omega⟩
      have : toBits (fin s m e) =
          (if s then 1 else 0) * 9223372036854775808 + E * 4503599627370496 + (m - 4503599627370496) := by
        unfold toBits; simp only [P52_eq]; rw [if_neg hm, hE0]; cases s <;> simp <;> omega
      rw [this, ofBits_parts _ E (m - 4503599627370496) (by cases s <;> simp) (by omega) (by omega)]
      rw [if_neg (by omega), if_neg (by omega)]
      have e1 : 4503599627370496 + (m - 4503599627370496) = m := by omega
      have e2 : (E : Int) - 1075 = e := by omega
      rw [e1, e2]
      cases s <;> simp

/-- encode ∘ decode is the identity on every non-NaN 64-bit pattern -/
theorem toBits_ofBits (b : Nat) (hb : b < 18446744073709551616)
    (hnan : ¬ (b / 4503599627370496 % 2048 = 2047 ∧ b % 4503599627370496 ≠ 0)) :
    toBits (ofBits b) = b := by
  have hdec : b = (b / 9223372036854775808) * 9223372036854775808 +
      (b / 4503599627370496 % 2048) * 4503599627370496 + b % 4503599627370496 := by omega
  have hsb : b / 9223372036854775808 ≤ 1 := by omega
  have hE : b / 4503599627370496 % 2048 < 2048 := Nat.mod_lt _ (by decide)
  have hf : b % 4503599627370496 < 4503599627370496 := Nat.mod_lt _ (by decide)
  generalize b / 9223372036854775808 = sb at *
  generalize b / 4503599627370496 % 2048 = E at *
  generalize b % 4503599627370496 = f at *
  subst hdec
  rw [ofBits_parts sb E f hsb hE hf]
  have hsb' : sb = 0 ∨ sb = 1 := by omega
  by_cases h1 : E = 2047
  · have hf0 : f = 0 := by
      by_cases h : f = 0
      · exact h
      · exact absurd ⟨h1, h⟩ hnan
    rw [if_pos h1, if_pos hf0]
    unfold toBits
    rcases hsb' with h | h <;> subst h <;> simp <;> omega
  · rw [if_neg h1]
    by_cases h0 : E = 0
    · rw [if_pos h0]
      unfold toBits; simp only [P52_eq]; rw [if_pos hf]
      rcases hsb' with h | h <;> subst h <;> simp <;> omega
    · rw [if_neg h0]
      unfold toBits; simp only [P52_eq]
      have hx : ¬ (4503599627370496 + f < 4503599627370496) := by omega
      rw [if_neg hx]
      have : ((E : Int) - 1075 + 1075).toNat = E := by omega
      rw [this]
      rcases hsb' with h | h <;> subst h <;> simp <;> omega


end Hifi.F64
